(* In-heap order for Block::findMinInConstraint inside the mergeLeft half of Blocks::split (Vpsc/StaticModel.v):
   discharges the hypothesis `ml_roots_ok` of StaticSplitML.merge_left_split.

   The snapshot relation Rdom of StaticDag.v cannot be maintained here (after the right half r has been merged the
   current block may move RIGHT).  What holds instead: Solver::refine stamps every constraint with the counter
   (setUpInConstraints of every block) before Blocks::split, and mergeLeft only ever stamps the CURRENT block M with a
   later counter value, so a heap element is stale by time stamp exactly when its left end is in M (invariant w_TS).
   Order relation: Rcur s c x := "if the keys of c and x are both current (not -DBL_MAX) then key c <= key x".  It is
   compatible with CompareConstraints (a -DBL_MAX key wins every comparison), only gets weaker when a key goes stale,
   and is kept when all current keys of one heap shift by the same amount (one Block::merge). *)
From Adapt Require Import Num.Qaux Vpsc.VpscSpec Vpsc.VpscModel Vpsc.VpscInv Vpsc.VpscFrame Vpsc.VpscWalks Vpsc.VpscForest
  Vpsc.StaticModel Vpsc.StaticFrame Vpsc.StaticHeap Vpsc.StaticInv Vpsc.StaticInvB Vpsc.StaticHeapOrd Vpsc.StaticGeom
  Vpsc.StaticDag Vpsc.StaticRefine Vpsc.StaticGeom2 Vpsc.StaticOutHeap Vpsc.StaticSplitML.
From Coq Require Import Permutation.
Local Open Scope Q_scope.

(* ------------------------------------------------------------------ the relation *)
Definition Rcur (s : sst) (c x : nat) : Prop :=
  forall kc kx, skey s c = Some kc -> skey s x = Some kx -> kc <= kx.

Lemma Rcur_lt_true s a b : cmp_less s b a = true -> Rcur s b a /\ (forall x, Rcur s a x -> Rcur s b x).
Proof.
  intros H. split.
  - intros kb ka Eb Ea. destruct (cmp_less_true s a b H kb Eb) as [ka' [Ea' L]]. congruence.
  - intros x Rx kb kx Eb Ex. destruct (cmp_less_true s a b H kb Eb) as [ka [Ea L]].
    pose proof (Rx ka kx Ea Ex). lra.
Qed.
Lemma Rcur_lt_false s a b : cmp_less s b a = false -> Rcur s a b /\ (forall x, Rcur s b x -> Rcur s a x).
Proof.
  intros H. split.
  - intros ka kb Ea Eb. destruct (cmp_less_false s a b H ka Ea) as [kb' [Eb' L]]. congruence.
  - intros x Rx ka kx Ea Ex. destruct (cmp_less_false s a b H ka Ea) as [kb [Eb L]].
    pose proof (Rx kb kx Eb Ex). lra.
Qed.

(* Rcur reads the two keys only *)
Lemma Rcur_keys s s' c x : skey s' c = skey s c -> skey s' x = skey s x -> Rcur s c x -> Rcur s' c x.
Proof. intros A B R kc kx. rewrite A, B. apply R. Qed.
Lemma hordh_keys s s' h : (forall x, In x (heap_elems h) -> skey s' x = skey s x) -> hordh (Rcur s) h -> hordh (Rcur s') h.
Proof. intros E. apply hordh_impl. intros c x Hc Hx. apply Rcur_keys; apply E; assumption. Qed.
Lemma hordh_ceqvC s s' h : ceqv s s' -> hordh (Rcur s) h -> hordh (Rcur s') h.
Proof. intros E. apply hordh_keys. intros x _. apply skey_ceqv. exact E. Qed.
Lemma hordh_set_ctime_otherC s v t h : ~ In v (heap_elems h) -> hordh (Rcur s) h -> hordh (Rcur (set_ctime_of s v t)) h.
Proof. intros N. apply hordh_keys. intros x Hx. apply skey_set_ctime_other. intros ->. contradiction. Qed.
Lemma hordh_same_keysC s s' h :
  base s' = base s -> btime s' = btime s -> (forall x, In x (heap_elems h) -> ctime_of s' x = ctime_of s x) ->
  hordh (Rcur s) h -> hordh (Rcur s') h.
Proof. intros A B C. apply hordh_keys. intros x Hx. apply skey_frame; auto. Qed.
(* all current keys of the heap shift by the same amount (or go stale) *)
Lemma hordh_shift s s' d h :
  (forall x k', In x (heap_elems h) -> skey s' x = Some k' -> exists k, skey s x = Some k /\ k' == k + d) ->
  hordh (Rcur s) h -> hordh (Rcur s') h.
Proof.
  intros E. apply hordh_impl. intros c x Hc Hx R kc kx Ec Ex.
  destruct (E c kc Hc Ec) as [kc0 [Ec0 Lc]]. destruct (E x kx Hx Ex) as [kx0 [Ex0 Lx]].
  pose proof (R kc0 kx0 Ec0 Ex0). lra.
Qed.
(* the snapshot relation of StaticDag.v is stronger *)
Lemma Rdom_Rcur s Yb c x : Rdom s Yb c x -> Rcur s c x.
Proof.
  intros R kc kx Ec Ex. assert (Nc : skey s c <> None) by congruence.
  assert (Nx : skey s x <> None) by congruence. destruct (skey_some_inv s x Nx) as [X _].
  specialize (R Nc X). unfold Kof in R. rewrite Ec, Ex in R. exact R.
Qed.
Lemma hordh_Rdom_Rcur s Yb h : hordh (Rdom s Yb) h -> hordh (Rcur s) h.
Proof. apply hordh_impl. intros c x _ _. apply Rdom_Rcur. Qed.

(* ------------------------------------------------------------------ heap operations on states (as in StaticDag.v) *)
Definition hgoodC (s : sst) (h : heap) : Prop := NoDup (heap_elems h) /\ hordh (Rcur s) h.

Lemma s_insert_specC s h c :
  hordh (Rcur s) h ->
  let r := s_insert s h c in
  ceqv s (fst r) /\ ctr (fst r) = ctr s /\ heaps_eq s (fst r) /\
  hordh (Rcur (fst r)) (snd r) /\ Permutation (heap_elems (snd r)) (c :: heap_elems h).
Proof.
  intros H. cbv zeta. unfold s_insert.
  pose proof (h_insert_hord (Rcur s) (cmp_less s) (nr_of s) (Rcur_lt_true s) (Rcur_lt_false s) h c H) as O.
  pose proof (h_insert_perm (cmp_less s) (nr_of s) h c) as P.
  destruct (h_insert (cmp_less s) (nr_of s) h c) as [h' t]. cbn [fst snd] in *.
  split; [apply ceqv_snote_b|]. split; [destruct t; reflexivity|]. split; [apply heaps_eq_snote_b|].
  split; [apply (hordh_ceqvC s); [apply ceqv_snote_b | exact O] | exact P].
Qed.
Lemma s_delete_min_specC s h :
  hordh (Rcur s) h ->
  let r := s_delete_min s h in
  ceqv s (fst r) /\ ctr (fst r) = ctr s /\ heaps_eq s (fst r) /\
  hordh (Rcur (fst r)) (snd r) /\ Permutation (heap_elems (snd r)) (tl (heap_elems h)).
Proof.
  intros H. cbv zeta. unfold s_delete_min.
  pose proof (h_delete_min_hord (Rcur s) (cmp_less s) (nr_of s) (Rcur_lt_true s) (Rcur_lt_false s) h H) as O.
  pose proof (h_delete_min_perm (cmp_less s) (nr_of s) h) as P.
  destruct (h_delete_min (cmp_less s) (nr_of s) h) as [h' t]. cbn [fst snd] in *.
  split; [apply ceqv_snote_b|]. split; [destruct t; reflexivity|]. split; [apply heaps_eq_snote_b|].
  split; [apply (hordh_ceqvC s); [apply ceqv_snote_b | exact O] | exact P].
Qed.
Lemma s_merge_specC s h g :
  hordh (Rcur s) h -> hordh (Rcur s) g ->
  let r := s_merge s h g in
  ceqv s (fst r) /\ ctr (fst r) = ctr s /\ heaps_eq s (fst r) /\
  hordh (Rcur (fst r)) (snd r) /\ Permutation (heap_elems (snd r)) (heap_elems h ++ heap_elems g).
Proof.
  intros H G. cbv zeta. unfold s_merge.
  pose proof (h_merge_hord (Rcur s) (cmp_less s) (nr_of s) (Rcur_lt_true s) (Rcur_lt_false s) h g H G) as O.
  pose proof (h_merge_perm (cmp_less s) (nr_of s) h g) as P.
  destruct (h_merge (cmp_less s) (nr_of s) h g) as [h' t]. cbn [fst snd] in *.
  split; [apply ceqv_snote_b|]. split; [destruct t; reflexivity|]. split; [apply heaps_eq_snote_b|].
  split; [apply (hordh_ceqvC s); [apply ceqv_snote_b | exact O] | exact P].
Qed.
Lemma fmi_loop_goodC : forall fuel s h ood s' h' ood',
  fmi_loop fuel s h ood = Ok (s', h', ood') ->
  hordh (Rcur s) h -> NoDup (heap_elems h ++ ood) ->
  (forall v, In v ood -> lblk s v <> rblk s v) ->
  ceqv s s' /\ ctr s' = ctr s /\ heaps_eq s s' /\
  hordh (Rcur s') h' /\ NoDup (heap_elems h' ++ ood') /\
  (forall x, In x (heap_elems h' ++ ood') -> In x (heap_elems h ++ ood)) /\
  (forall x, In x (heap_elems h ++ ood) -> lblk s x <> rblk s x -> In x (heap_elems h' ++ ood')) /\
  (forall v, In v ood' -> lblk s v <> rblk s v) /\
  (forall v, heap_min h' = Some v -> skey s v <> None).
Proof.
  induction fuel as [|f IH]; intros s h ood s' h' ood' H HO ND HE; [discriminate|].
  cbn [fmi_loop] in H. destruct h as [[v kids]|].
  2:{ inversion H. subst. split; [apply ceqv_refl|]. split; [reflexivity|]. split; [apply heaps_eq_refl|].
      repeat split; auto. intros v E. discriminate. }
  set (h := Some (PH v kids)) in *.
  destruct (s_delete_min_specC s h HO) as [C1 [C2 [C3 [C4 C5]]]]. cbv zeta in *.
  assert (Eh : heap_elems h = v :: lelems kids) by reflexivity. rewrite Eh in C5. cbn [tl] in C5.
  destruct (Nat.eqb (lblk s v) (rblk s v)) eqn:EQ.
  - destruct (s_delete_min s h) as [s1 h1] eqn:E. cbn [fst snd] in *.
    destruct (IH _ _ _ _ _ _ H C4) as [A1 [A2 [A3 [A4 [A5 [A6 [A7 [A8 A9]]]]]]]].
    + rewrite Eh in ND. cbn [app] in ND. inversion ND. subst.
      apply (Permutation_NoDup (l := lelems kids ++ ood)); [|assumption]. apply Permutation_app_tail. apply Permutation_sym. exact C5.
    + intros w Hw. rewrite (lblk_ceqv _ _ _ C1), (rblk_ceqv _ _ _ C1). apply HE, Hw.
    + split; [apply (ceqv_trans _ s1); assumption|]. split; [congruence|]. split; [apply (heaps_eq_trans _ s1); assumption|].
      split; [exact A4|]. split; [exact A5|]. split; [|split; [|split]].
      * intros x Hx. apply A6 in Hx. rewrite Eh. cbn [app]. right. rewrite in_app_iff in *. destruct Hx as [Hx|Hx]; [left|right; exact Hx].
        apply (Permutation_in _ C5). exact Hx.
      * intros x Hx Ex. apply A7.
        -- rewrite Eh in Hx. cbn [app] in Hx. destruct Hx as [<-|Hx]; [apply Nat.eqb_eq in EQ; contradiction|].
           rewrite in_app_iff in *. destruct Hx as [Hx|Hx]; [left|right; exact Hx]. apply (Permutation_in _ (Permutation_sym C5)). exact Hx.
        -- rewrite (lblk_ceqv _ _ _ C1), (rblk_ceqv _ _ _ C1). exact Ex.
      * intros w Hw. specialize (A8 w Hw). rewrite (lblk_ceqv _ _ _ C1), (rblk_ceqv _ _ _ C1) in A8. exact A8.
      * intros w Hw. specialize (A9 w Hw). rewrite (skey_ceqv _ _ _ C1) in A9. exact A9.
  - destruct (Nat.ltb (ctime_of s v) (btime_of s (lblk s v))) eqn:LT.
    + destruct (s_delete_min s h) as [s1 h1] eqn:E. cbn [fst snd] in *.
      assert (Ev : lblk s v <> rblk s v) by (apply Nat.eqb_neq; exact EQ).
      destruct (IH _ _ _ _ _ _ H C4) as [A1 [A2 [A3 [A4 [A5 [A6 [A7 [A8 A9]]]]]]]].
      * rewrite Eh in ND. cbn [app] in ND.
        apply (Permutation_NoDup (l := v :: lelems kids ++ ood)); [|assumption].
        rewrite app_assoc. eapply Permutation_trans; [apply Permutation_cons_append|].
        apply Permutation_app_tail. apply Permutation_app_tail. apply Permutation_sym. exact C5.
      * intros w Hw. rewrite (lblk_ceqv _ _ _ C1), (rblk_ceqv _ _ _ C1). apply in_app_or in Hw.
        destruct Hw as [Hw|[<-|[]]]; [apply HE, Hw | exact Ev].
      * split; [apply (ceqv_trans _ s1); assumption|]. split; [congruence|]. split; [apply (heaps_eq_trans _ s1); assumption|].
        split; [exact A4|]. split; [exact A5|]. split; [|split; [|split]].
        -- intros x Hx. apply A6 in Hx. rewrite Eh. cbn [app In]. rewrite !in_app_iff in Hx. cbn [In] in Hx. rewrite in_app_iff.
           destruct Hx as [Hx|[Hx|[Hx|[]]]]; [right; left; apply (Permutation_in _ C5); exact Hx | right; right; exact Hx | left; exact Hx].
        -- intros x Hx Ex. apply A7.
           ++ rewrite Eh in Hx. cbn [app In] in Hx. rewrite !in_app_iff. cbn [In]. rewrite in_app_iff in Hx.
              destruct Hx as [<-|[Hx|Hx]]; [right; right; left; reflexivity | left; apply (Permutation_in _ (Permutation_sym C5)); exact Hx | right; left; exact Hx].
           ++ rewrite (lblk_ceqv _ _ _ C1), (rblk_ceqv _ _ _ C1). exact Ex.
        -- intros w Hw. specialize (A8 w Hw). rewrite (lblk_ceqv _ _ _ C1), (rblk_ceqv _ _ _ C1) in A8. exact A8.
        -- intros w Hw. specialize (A9 w Hw). rewrite (skey_ceqv _ _ _ C1) in A9. exact A9.
    + inversion H. subst. split; [apply ceqv_refl|]. split; [reflexivity|]. split; [apply heaps_eq_refl|].
      split; [exact HO|]. split; [exact ND|]. split; [auto|]. split; [auto|]. split; [exact HE|].
      intros w Hw. cbn in Hw. inversion Hw. subst w. apply skey_some; assumption.
Qed.
Lemma reinsert_fold_goodC : forall ood s h s2 h2,
  fold_left reinsert ood (s, h) = (s2, h2) ->
  hordh (Rcur s) h -> NoDup (heap_elems h ++ ood) ->
  (forall v, In v ood -> (v < length (ctime s))%nat) ->
  base s2 = base s /\ btime s2 = btime s /\ ctr s2 = ctr s /\ heaps_eq s s2 /\ length (ctime s2) = length (ctime s) /\
  (forall x, (~ In x ood -> ctime_of s2 x = ctime_of s x) /\ (In x ood -> ctime_of s2 x = ctr s)) /\
  hordh (Rcur s2) h2 /\ Permutation (heap_elems h2) (heap_elems h ++ ood).
Proof.
  induction ood as [|v t IH]; intros s h s2 h2 H HO ND HL; cbn [fold_left] in H.
  - inversion H. subst. repeat split; auto using heaps_eq_refl. intros []. rewrite app_nil_r. apply Permutation_refl.
  - unfold reinsert at 2 in H.
    set (s0 := set_ctime_of s v (ctr s)) in *.
    assert (Nv : ~ In v (heap_elems h)).
    { intros Hv. apply NoDup_remove_2 in ND. apply ND. rewrite in_app_iff. left. exact Hv. }
    assert (Nvt : ~ In v t).
    { intros Hv. apply NoDup_remove_2 in ND. apply ND. rewrite in_app_iff. right. exact Hv. }
    pose proof (hordh_set_ctime_otherC s v (ctr s) h Nv HO) as HO0. fold s0 in HO0.
    destruct (s_insert_specC s0 h v HO0) as [C1 [C2 [C3 [C4 C5]]]]. cbv zeta in *.
    destruct (s_insert s0 h v) as [s1 h1] eqn:E. cbn [fst snd] in *.
    assert (L0 : length (ctime s0) = length (ctime s)) by (cbn; apply upd_nth_length).
    assert (L1 : length (ctime s1) = length (ctime s)) by (destruct C1 as [_ [C1 _]]; rewrite C1; exact L0).
    destruct (IH _ _ _ _ H C4) as [A1 [A2 [A3 [A4 [A4' [A5 [A6 A7]]]]]]].
    + apply (Permutation_NoDup (l := v :: heap_elems h ++ t)).
      * apply Permutation_app_tail with (tl := t) in C5. apply Permutation_sym. exact C5.
      * apply (Permutation_NoDup (l := heap_elems h ++ v :: t)); [|exact ND]. apply Permutation_sym, Permutation_middle.
    + intros w Hw. rewrite L1. apply HL. right. exact Hw.
    + destruct C1 as [B1 [B2 B3]].
      split; [rewrite A1, B1; reflexivity|]. split; [rewrite A2, B3; reflexivity|]. split; [rewrite A3, C2; reflexivity|].
      split; [apply (heaps_eq_trans _ s1); [|exact A4]; destruct C3 as [X Y]; split; [exact X | exact Y]|].
      split; [congruence|]. split; [|split].
      * intros x. destruct (A5 x) as [P1 P2].
        assert (E1 : ctime_of s1 x = ctime_of s0 x) by (unfold ctime_of; rewrite B2; reflexivity).
        assert (Lv : Nat.ltb v (length (ctime s)) = true) by (apply Nat.ltb_lt, HL; left; reflexivity).
        split.
        -- intros Hx. rewrite P1 by (intros Y; apply Hx; right; exact Y). rewrite E1. unfold s0. rewrite ctime_of_set_ctime_of.
           destruct (Nat.eqb x v) eqn:EV; [apply Nat.eqb_eq in EV; subst x; exfalso; apply Hx; left; reflexivity | reflexivity].
        -- intros [<-|Hx].
           ++ rewrite P1 by exact Nvt. rewrite E1. unfold s0. rewrite ctime_of_set_ctime_of, Nat.eqb_refl, Lv. reflexivity.
           ++ rewrite (P2 Hx). rewrite C2. reflexivity.
      * exact A6.
      * eapply Permutation_trans; [exact A7|]. eapply Permutation_trans; [apply Permutation_app_tail; exact C5|].
        cbn [app]. apply Permutation_middle.
Qed.

Lemma find_min_in_goodC s b h s' c :
  T2 s -> bin_of s b = Some h -> hgoodC s h ->
  (forall x, In x (heap_elems h) -> (x < length (ctime s))%nat) ->
  find_min_in s b = Ok (s', c) ->
  exists h', bin_of s' b = Some h' /\ hgoodC s' h' /\ heap_min h' = c /\
    (forall x, In x (heap_elems h') -> In x (heap_elems h)) /\
    (forall x, In x (heap_elems h) -> lblk s x <> rblk s x -> In x (heap_elems h')) /\
    (forall c0, c = Some c0 -> skey s' c0 <> None) /\
    base s' = base s /\ btime s' = btime s /\ ctr s' = ctr s /\ length (ctime s') = length (ctime s) /\
    (forall x, ctime_of s' x = ctime_of s x \/ (In x (heap_elems h) /\ ctime_of s' x = ctr s)) /\
    (forall inn' b', (inn' = true /\ b' = b) \/ heap_of s' inn' b' = heap_of s inn' b').
Proof.
  intros HT2 Hb [ND HO] HL H. unfold find_min_in in H. rewrite Hb in H.
  apply bind_ok in H. destruct H as [[[s1 h1] ood] [H1 H2]].
  destruct (fmi_loop_goodC _ _ _ _ _ _ _ H1 HO) as [A1 [A2 [A3 [A4 [A5 [A6 [A7 [A8 A9]]]]]]]].
  { rewrite app_nil_r. exact ND. } { intros v []. }
  destruct (fold_left reinsert ood (s1, h1)) as [s2 h2] eqn:E2.
  pose proof A1 as [B1 [B2 B3]].
  destruct (reinsert_fold_goodC _ _ _ _ _ E2 A4 A5) as [C1 [C2 [C3 [C4 [C4' [C5 [C6 C7]]]]]]].
  { intros v Hv. rewrite B2. apply HL. specialize (A6 v). rewrite app_nil_r in A6. apply A6. rewrite in_app_iff. right. exact Hv. }
  destruct (reinsert_fold_spec _ _ _ _ _ E2) as [_ [_ [_ D2]]].
  assert (Es : s' = set_heap s2 true b (Some h2)) by congruence.
  assert (Ec : c = heap_min h2) by congruence. subst s' c. clear H2.
  assert (Q : heaps_eq s s2) by (apply (heaps_eq_trans _ s1); assumption).
  assert (CE : ceqv s2 (set_heap s2 true b (Some h2))) by apply ceqv_set_heap.
  exists h2. split.
  { change (heap_of (set_heap s2 true b (Some h2)) true b = Some h2). apply (heap_of_set_heap_same _ _ _ _ h).
    rewrite (heaps_eq_heap_of s s2 true b Q). exact Hb. }
  split.
  { split.
    - apply (Permutation_NoDup (l := heap_elems h1 ++ ood)); [apply Permutation_sym; exact C7 | exact A5].
    - apply (hordh_ceqvC s2); [exact CE | exact C6]. }
  split; [reflexivity|].
  assert (In2 : forall x, In x (heap_elems h2) <-> In x (heap_elems h1 ++ ood)).
  { intros x. split; intros Hx; [apply (Permutation_in _ C7) | apply (Permutation_in _ (Permutation_sym C7))]; exact Hx. }
  split.
  { intros x Hx. apply In2, A6 in Hx. rewrite app_nil_r in Hx. exact Hx. }
  split.
  { intros x Hx Ex. apply In2, A7; [rewrite app_nil_r; exact Hx | exact Ex]. }
  split.
  { intros c0 Ec0. rewrite (skey_ceqv _ _ _ CE).
    assert (LR : lblk s2 c0 = lblk s c0 /\ rblk s2 c0 = rblk s c0 /\ btime_of s2 (lblk s c0) = btime_of s (lblk s c0)).
    { unfold lblk, rblk, btime_of. rewrite C1, C2, B1, B3. auto. }
    destruct LR as [LR1 [LR2 LR3]].
    destruct (D2 c0 Ec0) as [Y|Y].
    - assert (Ex : lblk s c0 <> rblk s c0) by (apply A8; exact Y).
      apply skey_some; [rewrite LR1, LR2; apply Nat.eqb_neq; exact Ex|].
      apply Nat.ltb_ge. rewrite LR1, LR3. rewrite (proj2 (C5 c0) Y), A2. apply HT2.
    - pose proof (A9 c0 Y) as K. apply skey_some_inv in K. destruct K as [K1 K2].
      apply skey_some; [rewrite LR1, LR2; apply Nat.eqb_neq; exact K1|].
      apply Nat.ltb_ge. rewrite LR1, LR3.
      assert (Nin : ~ In c0 ood).
      { intros Y'. apply heap_min_in in Y. exact (NoDup_app_disj _ _ A5 c0 Y Y'). }
      rewrite (proj1 (C5 c0) Nin). unfold ctime_of. rewrite B2. exact K2. }
  split; [rewrite base_set_heap; congruence|].
  split; [change (btime s2 = btime s); congruence|].
  split; [change (ctr s2 = ctr s); congruence|].
  split; [change (length (ctime s2) = length (ctime s)); congruence|].
  split.
  { intros x. change (ctime_of (set_heap s2 true b (Some h2)) x) with (ctime_of s2 x).
    destruct (in_dec Nat.eq_dec x ood) as [Hx|Hx].
    - right. split; [|rewrite (proj2 (C5 x) Hx); exact A2].
      specialize (A6 x). rewrite app_nil_r in A6. apply A6. rewrite in_app_iff. right. exact Hx.
    - left. rewrite (proj1 (C5 x) Hx). unfold ctime_of. rewrite B2. reflexivity. }
  intros inn' b'. destruct (heap_of_set_heap s2 true b (Some h2) inn' b') as [X|[X1 [X2 _]]]; [|left; auto].
  right. rewrite X. apply heaps_eq_heap_of. exact Q.
Qed.
Lemma delete_min_goodC s b h s' :
  bin_of s b = Some h -> hgoodC s h -> delete_min true s b = Ok s' ->
  exists h', bin_of s' b = Some h' /\ hgoodC s' h' /\ Permutation (heap_elems h') (tl (heap_elems h)) /\
    ceqv s s' /\ ctr s' = ctr s /\
    (forall inn' b', (inn' = true /\ b' = b) \/ heap_of s' inn' b' = heap_of s inn' b').
Proof.
  intros Hb [ND HO] H. unfold delete_min in H. cbn [heap_of] in H. rewrite Hb in H.
  destruct (s_delete_min_specC s h HO) as [C1 [C2 [C3 [C4 C5]]]]. cbv zeta in *.
  destruct (s_delete_min s h) as [s1 h1] eqn:E. cbn [fst snd] in *.
  assert (Es : s' = set_heap s1 true b (Some h1)) by congruence. subst s'. clear H.
  assert (CE : ceqv s1 (set_heap s1 true b (Some h1))) by apply ceqv_set_heap.
  exists h1. split.
  { change (heap_of (set_heap s1 true b (Some h1)) true b = Some h1). apply (heap_of_set_heap_same _ _ _ _ h).
    rewrite (heaps_eq_heap_of s s1 true b C3). exact Hb. }
  split.
  { split; [apply (Permutation_NoDup (l := tl (heap_elems h))); [apply Permutation_sym; exact C5 | apply NoDup_tl; exact ND]|].
    apply (hordh_ceqvC s1); assumption. }
  split; [exact C5|]. split; [apply (ceqv_trans _ s1); assumption|]. split; [exact C2|].
  intros inn' b'. destruct (heap_of_set_heap s1 true b (Some h1) inn' b') as [X|[X1 [X2 _]]]; [|left; auto].
  right. rewrite X. apply heaps_eq_heap_of. exact C3.
Qed.

Lemma merge_heaps_goodC s r l hr hl s' :
  r <> l -> T2 s -> bin_of s r = Some hr -> bin_of s l = Some hl ->
  hordh (Rcur s) hr -> hordh (Rcur s) hl -> NoDup (heap_elems hr ++ heap_elems hl) ->
  (forall x, In x (heap_elems hr ++ heap_elems hl) -> (x < length (ctime s))%nat) ->
  merge_heaps true s r l = Ok s' ->
  exists h', bin_of s' r = Some h' /\ bin_of s' l = Some None /\ hgoodC s' h' /\
    (forall x, In x (heap_elems h') -> In x (heap_elems hr ++ heap_elems hl)) /\
    (forall x, In x (heap_elems hr ++ heap_elems hl) -> lblk s x <> rblk s x -> In x (heap_elems h')) /\
    base s' = base s /\ btime s' = btime s /\ ctr s' = ctr s /\ length (ctime s') = length (ctime s) /\
    (forall x, ctime_of s' x = ctime_of s x \/ (In x (heap_elems hr ++ heap_elems hl) /\ ctime_of s' x = ctr s)) /\
    (forall inn' b', (inn' = true /\ (b' = r \/ b' = l)) \/ heap_of s' inn' b' = heap_of s inn' b').
Proof.
  intros Hne HT2 Hr Hl Or Ol ND HL H. unfold merge_heaps in H.
  apply bind_ok in H. destruct H as [[s1 c1] [H1 H]].
  apply bind_ok in H. destruct H as [[s2 c2] [H2 H]]. cbn [fst] in *.
  pose proof (NoDup_app_l _ _ ND) as NDr. pose proof (NoDup_app_r _ _ ND) as NDl.
  destruct (find_min_in_goodC s r hr s1 c1 HT2 Hr (conj NDr Or)) as
    [hr1 [R1 [[R2 R3] [_ [R4 [R5 [_ [R6 [R7 [R8 [R8' [R9 R10]]]]]]]]]]]].
  { intros x Hx. apply HL. rewrite in_app_iff. left. exact Hx. } { exact H1. }
  assert (HT2' : T2 s1) by (intros B; unfold btime_of; rewrite R7, R8; apply HT2).
  assert (Hl1 : bin_of s1 l = Some hl).
  { destruct (R10 true l) as [[_ X]|X]; [congruence|]. cbn [heap_of] in X. congruence. }
  assert (Ol1 : hordh (Rcur s1) hl).
  { apply (hordh_same_keysC s); [exact R6 | exact R7 | | exact Ol].
    intros x Hx. destruct (R9 x) as [E|[Y _]]; [exact E|]. exfalso. exact (NoDup_app_disj _ _ ND x Y Hx). }
  destruct (find_min_in_goodC s1 l hl s2 c2 HT2' Hl1 (conj NDl Ol1)) as
    [hl2 [L1 [[L2 L3] [_ [L4 [L5 [_ [L6 [L7 [L8 [L8' [L9 L10]]]]]]]]]]]].
  { intros x Hx. rewrite R8'. apply HL. rewrite in_app_iff. right. exact Hx. } { exact H2. }
  assert (Hr2 : bin_of s2 r = Some hr1).
  { destruct (L10 true r) as [[_ X]|X]; [congruence|]. cbn [heap_of] in X. congruence. }
  assert (Or2 : hordh (Rcur s2) hr1).
  { apply (hordh_same_keysC s1); [exact L6 | exact L7 | | exact R3].
    intros x Hx. destruct (L9 x) as [E|[Y _]]; [exact E|]. exfalso. exact (NoDup_app_disj _ _ ND x (R4 x Hx) Y). }
  cbn [heap_of] in H. rewrite Hr2, L1 in H.
  destruct (s_merge_specC s2 hr1 hl2 Or2 L3) as [M1 [M2 [M3 [M4 M5]]]]. cbv zeta in *.
  destruct (s_merge s2 hr1 hl2) as [s3 h] eqn:E. cbn [fst snd] in *.
  assert (Es : s' = set_heap (set_heap s3 true r (Some h)) true l (Some None)) by congruence. subst s'. clear H.
  set (s4 := set_heap s3 true r (Some h)) in *.
  assert (C34 : ceqv s3 s4) by apply ceqv_set_heap.
  assert (C45 : ceqv s4 (set_heap s4 true l (Some None))) by apply ceqv_set_heap.
  assert (B4r : bin_of s4 r = Some h).
  { change (heap_of (set_heap s3 true r (Some h)) true r = Some h). apply (heap_of_set_heap_same _ _ _ _ hr1).
    rewrite (heaps_eq_heap_of s2 s3 true r M3). exact Hr2. }
  assert (B4l : bin_of s4 l = Some hl2).
  { destruct (heap_of_set_heap s3 true r (Some h) true l) as [X|[_ [X _]]]; [|congruence].
    change (bin_of s4 l) with (heap_of s4 true l). unfold s4. rewrite X, (heaps_eq_heap_of s2 s3 true l M3). exact L1. }
  assert (In5 : forall x, In x (heap_elems h) <-> In x (heap_elems hr1 ++ heap_elems hl2)).
  { intros x. split; intros Hx; [apply (Permutation_in _ M5) | apply (Permutation_in _ (Permutation_sym M5))]; exact Hx. }
  exists h. split.
  { destruct (heap_of_set_heap s4 true l (Some None) true r) as [X|[_ [X _]]]; [|congruence].
    change (heap_of (set_heap s4 true l (Some None)) true r = Some h). rewrite X. exact B4r. }
  split.
  { change (heap_of (set_heap s4 true l (Some None)) true l = Some None). apply (heap_of_set_heap_same _ _ _ _ hl2). exact B4l. }
  split.
  { split.
    - apply (Permutation_NoDup (l := heap_elems hr1 ++ heap_elems hl2)); [apply Permutation_sym; exact M5|].
      apply NoDup_app_disjoint; [exact R2 | exact L2|]. intros a Ha Hb. exact (NoDup_app_disj _ _ ND a (R4 a Ha) (L4 a Hb)).
    - apply (hordh_ceqvC s4); [exact C45|]. apply (hordh_ceqvC s3); [exact C34 | exact M4]. }
  split.
  { intros x Hx. apply In5 in Hx. rewrite in_app_iff in *. destruct Hx as [Hx|Hx]; [left; apply R4 | right; apply L4]; exact Hx. }
  split.
  { intros x Hx Ex. apply In5. rewrite in_app_iff in *. destruct Hx as [Hx|Hx]; [left; apply R5; assumption|].
    right. apply L5; [exact Hx|]. unfold lblk, rblk. rewrite R6. exact Ex. }
  destruct M1 as [N1 [N2 N3]].
  split; [rewrite base_set_heap; unfold s4; rewrite base_set_heap; congruence|].
  split; [change (btime s3 = btime s); congruence|].
  split; [change (ctr s3 = ctr s); congruence|].
  split; [change (length (ctime s3) = length (ctime s)); congruence|].
  split.
  { intros x. change (ctime_of (set_heap s4 true l (Some None)) x) with (ctime_of s3 x).
    assert (E3 : ctime_of s3 x = ctime_of s2 x) by (unfold ctime_of; rewrite N2; reflexivity). rewrite E3.
    destruct (L9 x) as [E0|[Y E0]].
    - rewrite E0. destruct (R9 x) as [E'|[Y' E']]; [left; exact E'|]. right. split; [rewrite in_app_iff; left; exact Y' | exact E'].
    - right. split; [rewrite in_app_iff; right; exact Y | congruence]. }
  intros inn' b'.
  destruct (heap_of_set_heap s4 true l (Some None) inn' b') as [X|[X1 [X2 _]]]; [|left; auto].
  destruct (heap_of_set_heap s3 true r (Some h) inn' b') as [Y|[Y1 [Y2 _]]]; [|left; auto].
  fold s4 in Y. rewrite X, Y, (heaps_eq_heap_of s2 s3 inn' b' M3).
  destruct (L10 inn' b') as [[Z1 Z2]|Z]; [left; auto|]. rewrite Z.
  destruct (R10 inn' b') as [[Z1 Z2]|Z']; [left; auto|]. right. exact Z'.
Qed.

(* ------------------------------------------------------------------ setUpInConstraints on any block, duplicate-free *)
Lemma NoDup_adj_in b B : NoDup (bvars (block_of b B)) -> NoDup (adj true b B).
Proof.
  unfold adj. generalize (bvars (block_of b B)). induction l as [|v t IH]; intros ND; cbn [flat_map]; [constructor|].
  inversion ND as [|? ? N ND']. subst. apply NoDup_app_disjoint; [apply NoDup_ins_of' | apply IH; exact ND' |].
  intros x Hx Hx'. apply ins_of_In in Hx. apply in_flat_map in Hx'. destruct Hx' as [w [Hw Hx']]. apply ins_of_In in Hx'.
  apply N. destruct Hx as [_ <-]. destruct Hx' as [_ ->]. exact Hw.
Qed.

Lemma adj_in_block b v x : book b -> (v < length (svars b))%nat ->
  (In x (adj true b (blk_of b v)) <-> ((x < length (scons b))%nat /\ blk_of b (cr (con_of b x)) = blk_of b v)).
Proof.
  intros BK Hv. rewrite adj_In. rewrite (bk_mem _ BK v _ Hv). split.
  - intros [A [_ B]]. auto.
  - intros [A B]. split; [exact A|]. split; [exact (proj2 (con_ends_lt _ _ BK A)) | exact B].
Qed.

Lemma set_up_heap_in_good s B :
  length (ctime s) = length (scons (base s)) -> NoDup (bvars (block_of (base s) B)) -> (B < length (bin s))%nat ->
  let s' := set_up_heap true s B in
  let L := adj true (base s) B in
  base s' = base s /\ btime s' = btime s /\ ctr s' = ctr s /\ length (ctime s') = length (ctime s) /\
  length (bin s') = length (bin s) /\
  (forall b', b' <> B -> bin_of s' b' = bin_of s b') /\
  (forall x, (~ In x L -> ctime_of s' x = ctime_of s x) /\ (In x L -> ctime_of s' x = ctr s)) /\
  (exists h, bin_of s' B = Some h /\ hgoodC s' h /\ forall x, In x (heap_elems h) <-> (In x L /\ lblk s x <> B)) /\
  bout s' = bout s.
Proof.
  intros Lct NDv Hb. cbv zeta. unfold set_up_heap.
  rewrite (fold_left_flat_map (heap_add B true) (fun v => ins_of (base s) v)).
  change (flat_map (fun v => ins_of (base s) v) (bvars (block_of (base s) B))) with (adj true (base s) B).
  set (L := adj true (base s) B).
  destruct (fold_left (heap_add B true) L (s, None)) as [s1 h1] eqn:EF.
  destruct (heap_add_fold_good Y0 B L s None s1 h1 EF I) as [A1 [A2 [A3 [A4 [A4' [A5 [A6 [A7 A8]]]]]]]].
  { cbn [heap_elems app]. apply NoDup_adj_in. exact NDv. }
  { intros x Hx. rewrite Lct. apply adj_In in Hx. exact (proj1 Hx). }
  set (s2 := set_heap s1 true B (Some h1)).
  assert (C2 : ceqv s1 s2) by apply ceqv_set_heap.
  destruct A4 as [Q1 Q2].
  split; [unfold s2; rewrite base_set_heap; exact A1|].
  split; [exact A2|]. split; [exact A3|]. split; [exact A4'|].
  split; [unfold s2, set_heap; cbn [bin set_bin]; rewrite upd_nth_length; congruence|].
  split.
  { intros b' Nb. unfold s2, bin_of, set_heap. cbn [bin set_bin]. rewrite nth_upd_nth_neq by congruence. rewrite Q1. reflexivity. }
  split; [exact A5|].
  split; [|unfold s2, set_heap; cbn [bout set_bin]; exact Q2].
  exists h1. split.
  { unfold s2, bin_of, set_heap. cbn [bin set_bin]. apply nth_upd_nth_eq. congruence. }
  split.
  { split; [exact A7|]. apply (hordh_ceqvC s1); [exact C2|]. apply (hordh_Rdom_Rcur s1 Y0). exact A6. }
  intros x. rewrite A8. cbn [heap_elems In]. tauto.
Qed.

(* ------------------------------------------------------------------ one Block::merge as seen by the keys *)
Lemma mclass_btrans b b' R L t rr rl :
  R <> L -> svars b' = svars b -> scons b' = scons b -> mclass b b' R L t rr rl -> btrans b b' R L t rr rl.
Proof.
  intros Hne Ev Es CL. constructor; [exact Ev | exact Es | |].
  - intros u Hu. destruct (CL u Hu) as [[U1 [U2 U3]]|[[U1 [U2 U3]]|[U1 [U1' [U1'' [U2 U3]]]]]];
      (split; [intros HH | intros N1 N2]; try congruence; try (destruct HH; congruence); try (split; assumption)).
  - intros u Hu. destruct (CL u Hu) as [[U1 [U2 U3]]|[[U1 [U2 U3]]|[U1 [U1' [U1'' [U2 U3]]]]]];
      (split; [intros HH | split; [intros HH | intros N1 N2]]; try congruence; try assumption).
Qed.

Section KeyTransC.
  Variables (s s' : sst) (r l t : nat) (rr rl : Q).
  Hypothesis W : wf_vars (svars (base s)).
  Hypothesis BK : book (base s).
  Hypothesis BT : btrans (base s) (base s') r l t rr rl.

  (* a heap of one of the two merged blocks: every key that is current afterwards was current and shifted by sg *)
  Lemma key_shiftC B0 sg y k' :
    ctime s' = ctime s -> btime s' = btime s ->
    (B0 = r /\ sg = rr \/ B0 = l /\ sg = rl) ->
    (y < length (scons (base s)))%nat -> rblk s y = B0 -> skey s' y = Some k' ->
    exists k, skey s y = Some k /\ k' == k + sg.
  Proof.
    intros Ec Eb HB Hy Er E'. assert (N' : skey s' y <> None) by congruence.
    destruct (skey_some_inv s' y N') as [Ex' _].
    destruct (key_shift Y0 s s' r l t rr rl W BK BT B0 sg y Ec Eb HB Hy Er Ex') as [_ [C2 C3]].
    specialize (C2 N'). destruct (skey s y) as [k|] eqn:E; [|congruence]. exists k. split; [reflexivity|].
    unfold Kof in C3. rewrite E', E in C3. exact C3.
  Qed.

  (* a heap of an untouched block: a key that is current afterwards was current and did not change *)
  Lemma key_untouchedC B y k' :
    B <> r -> B <> l -> (y < length (scons (base s)))%nat -> rblk s y = B -> ctime_of s' y = ctime_of s y ->
    (ctime_of s y <= ctr s)%nat -> btime_of s' t = S (ctr s) -> (forall B', B' <> t -> btime_of s' B' = btime_of s B') ->
    skey s' y = Some k' -> exists k, skey s y = Some k /\ k' == k + 0.
  Proof.
    intros NBr NBl Hy Er Ect Ty Bt_t Bt_o E'.
    assert (con_eq : con_of (base s') y = con_of (base s) y) by (unfold con_of; rewrite (bt_scons _ _ _ _ _ _ _ BT); reflexivity).
    assert (W' : wf_vars (svars (base s'))) by (rewrite (bt_svars _ _ _ _ _ _ _ BT); exact W).
    destruct (con_ends_lt _ _ BK Hy) as [Hl Hr].
    unfold rblk in Er.
    set (k := con_of (base s) y) in *.
    destruct (bt_blk _ _ _ _ _ _ _ BT _ Hl) as [L1 L2]. destruct (bt_blk _ _ _ _ _ _ _ BT _ Hr) as [_ R2].
    destruct (bt_Y _ _ _ _ _ _ _ BT _ Hl) as [_ [_ YL]]. destruct (bt_Y _ _ _ _ _ _ _ BT _ Hr) as [_ [_ YR]].
    assert (NRr : blk_of (base s) (cr k) <> r) by congruence. assert (NRl : blk_of (base s) (cr k) <> l) by congruence.
    destruct (R2 NRr NRl) as [ER NRt]. specialize (YR NRr NRl).
    assert (K' : skey s' y = if Nat.ltb (ctime_of s y) (btime_of s' (blk_of (base s') (cl k))) || Nat.eqb (blk_of (base s') (cl k)) B
                            then None else Some (slack_val (base s') y)).
    { unfold skey, lblk, rblk, sslack. rewrite con_eq. fold k. rewrite Ect, ER, Er. reflexivity. }
    assert (K0 : skey s y = if Nat.ltb (ctime_of s y) (btime_of s (blk_of (base s) (cl k))) || Nat.eqb (blk_of (base s) (cl k)) B
                           then None else Some (slack_val (base s) y)).
    { unfold skey, lblk, rblk, sslack. fold k. rewrite Er. reflexivity. }
    assert (Stale : blk_of (base s') (cl k) = t -> False).
    { intros Lt. rewrite K', Lt, Bt_t in E'.
      assert (X : Nat.ltb (ctime_of s y) (S (ctr s)) = true) by (apply Nat.ltb_lt; lia). rewrite X in E'. discriminate. }
    destruct (Nat.eq_dec (blk_of (base s) (cl k)) r) as [Cr|Cr]; [exfalso; apply Stale, L1; left; exact Cr|].
    destruct (Nat.eq_dec (blk_of (base s) (cl k)) l) as [Cl|Cl]; [exfalso; apply Stale, L1; right; exact Cl|].
    destruct (L2 Cr Cl) as [EL NLt]. specialize (YL Cr Cl).
    assert (SE : slack_val (base s') y == slack_val (base s) y).
    { rewrite (slack_Y' _ y W'), (slack_Y' _ y W), con_eq. fold k. rewrite YR, YL. reflexivity. }
    rewrite K', EL in E'. rewrite Bt_o in E' by (rewrite <- EL; exact NLt). rewrite K0.
    destruct (_ || _); [discriminate|]. inversion E'. subst k'. eexists. split; [reflexivity|]. rewrite SE. ring.
  Qed.
End KeyTransC.

(* ------------------------------------------------------------------ the heap invariant of mergeLeft's loop inside Blocks::split *)
Definition hsound (s : sst) (B : nat) (h : heap) : Prop :=
  forall x, In x (heap_elems h) -> (x < length (scons (base s)))%nat /\ rblk s x = B.
Definition hcomplete (s : sst) (B : nat) (h : heap) : Prop :=
  forall x, (x < length (scons (base s)))%nat -> rblk s x = B -> lblk s x <> B -> In x (heap_elems h).

Record HW (s : sst) (M : nat) : Prop := {
  w_bk : book (base s);
  w_ai : act_inv (base s);
  w_wf : wf_vars (svars (base s));
  w_st : all_blk_st (base s);
  w_T1 : T1 s;
  w_T2 : T2 s;
  (* a constraint is stale by time stamp only if its left end is in the current block *)
  w_TS : forall x, (x < length (scons (base s)))%nat -> lblk s x <> M -> (btime_of s (lblk s x) <= ctime_of s x)%nat;
  w_lct : length (ctime s) = length (scons (base s));
  w_lbi : (length (blocks (base s)) <= length (bin s))%nat;
  w_lbt : (length (blocks (base s)) <= length (btime s))%nat;
  w_HG : forall B h, inhabited (base s) B -> bin_of s B = Some h -> hgoodC s h /\ hsound s B h /\ hcomplete s B h }.

Definition MLH (s : sst) (M : nat) (c : option nat) : Prop := HW s M /\ inhabited (base s) M /\ root_ok s M c.

Lemma HW_frame s s' M :
  base s' = base s -> ctime s' = ctime s -> btime s' = btime s -> bin s' = bin s -> ctr s' = ctr s -> HW s M -> HW s' M.
Proof.
  intros E1 E2 E3 E4 E5 [A1 A2 A3 A4 A5 A6 A7 A8 A9 A10 A11].
  assert (CE : ceqv s s') by (repeat split; assumption).
  constructor; rewrite ?E1, ?E2, ?E3, ?E4; try assumption.
  - intros c. unfold ctime_of. rewrite E2, E5. apply A5.
  - intros B. unfold btime_of. rewrite E3, E5. apply A6.
  - intros x Hx. rewrite (lblk_ceqv _ _ _ CE). unfold btime_of, ctime_of. rewrite E2, E3. apply A7. exact Hx.
  - intros B h Hi Hb. unfold bin_of in Hb. rewrite E4 in Hb. destruct (A11 B h Hi Hb) as [[X1 X2] [X3 X4]].
    split; [split; [exact X1 | apply (hordh_ceqvC s); assumption]|]. split.
    + intros x Hx. rewrite ?E1, (rblk_ceqv _ _ _ CE). apply X3. exact Hx.
    + intros x Hx. rewrite ?E1, (rblk_ceqv _ _ _ CE), (lblk_ceqv _ _ _ CE) in *. apply X4. exact Hx.
Qed.
Lemma MLH_snote e s M c c0 z : MLH s M c -> MLH (snote_slack e s c0 z) M c.
Proof.
  intros [A [B C]]. destruct (snote_slack_fields e s c0 z) as [F1 [F2 [F3 [F4 F5]]]].
  split; [apply (HW_frame s); assumption|]. split; [rewrite F1; exact B|].
  apply (ceqv_root_ok s); [repeat split; assumption | exact F4 | exact C].
Qed.

(* bit 4096 of Vpsc/StaticRefB.v, proved *)
Lemma MLH_root s M c : MLH s M c -> in_root_ok s M c.
Proof.
  intros [[BK AI W ST HT1 HT2 TS Lct Lbi Lbt HG] [Inh [h [Hh [Hm Hk]]]]].
  destruct (HG M h Inh Hh) as [[ND HO] [HS HC]].
  destruct c as [c0|]; cbn [in_root_ok].
  - pose proof (heap_min_in _ _ Hm) as Hin. destruct (HS c0 Hin) as [A B].
    destruct (skey_some_inv s c0 (Hk c0 eq_refl)) as [X1 X2].
    split; [exact A|]. split; [exact B|]. split; [congruence|].
    intros i Hi Ri Li. left. unfold sslack.
    pose proof (HC i Hi Ri Li) as Hi_in.
    destruct (hordh_root _ h c0 i HO Hm Hi_in) as [->|R]; [apply Qle_refl|].
    assert (K0 : skey s c0 = Some (slack_val (base s) c0)).
    { unfold skey. apply Nat.eqb_neq in X1. apply Nat.ltb_ge in X2. rewrite X1, X2. reflexivity. }
    assert (Ki : skey s i = Some (slack_val (base s) i)).
    { unfold skey. assert (Y1 : Nat.eqb (lblk s i) (rblk s i) = false) by (apply Nat.eqb_neq; congruence).
      assert (Y2 : Nat.ltb (ctime_of s i) (btime_of s (lblk s i)) = false) by (apply Nat.ltb_ge, TS; assumption).
      rewrite Y1, Y2. reflexivity. }
    exact (R _ _ K0 Ki).
  - intros i Hi Ri Li. exfalso. pose proof (HC i Hi Ri Li) as X. destruct h; [discriminate | destruct X].
Qed.

(* one iteration of mergeLeft's loop keeps the heap invariant (no sign or geometry premise) *)
Lemma ml_body_MLH s M c0 s' M' c' :
  MLH s M (Some c0) -> ml_body s M c0 = Ok (s', M', c') -> MLH s' M' c'.
Proof.
  intros [HWs [Inr [h0 [Hh0 [Hmin Hkey]]]]] H.
  destruct HWs as [BK AI W ST HT1 HT2 TS Lct Lbi Lbt HG].
  destruct (HG M h0 Inr Hh0) as [[ND0 O0] [S0 C0]].
  destruct (S0 c0 (heap_min_in _ _ Hmin)) as [Hc0 Hrb].
  destruct (skey_some_inv s c0 (Hkey c0 eq_refl)) as [Ext0 _].
  set (b := base s) in *.
  set (l := blk_of b (cl (con_of b c0))).
  assert (El : lblk s c0 = l) by reflexivity.
  assert (Er0 : blk_of b (cr (con_of b c0)) = M) by exact Hrb.
  assert (Nl0 : l <> M) by (rewrite <- El, <- Hrb; exact Ext0).
  destruct (con_ends_lt _ _ BK Hc0) as [Hcl0 Hcr0].
  assert (Inl : inhabited b l) by (exists (cl (con_of b c0)); auto).
  unfold ml_body in H.
  apply bind_ok in H. destruct H as [s1 [H1 H]].
  pose proof (delete_min_lbin _ _ _ H1) as Lb1.
  destruct (delete_min_goodC s M h0 s1 Hh0 (conj ND0 O0) H1) as [h1 [D1 [[D2n D2o] [D3 [D4 [D5 D6]]]]]].
  pose proof D4 as [B1 [Ct1 Bt1]].
  assert (El1 : lblk s1 c0 = l) by (rewrite (lblk_ceqv _ _ _ D4); exact El).
  rewrite El1 in H.
  set (s2 := match bin_of s1 l with None => set_up_heap true s1 l | Some _ => s1 end) in *.
  (* the state after the (possible) setUpInConstraints of l *)
  assert (S2 : base s2 = b /\ btime s2 = btime s /\ ctr s2 = ctr s /\ length (ctime s2) = length (ctime s) /\
               length (bin s2) = length (bin s) /\
               (forall B, B <> l -> bin_of s2 B = bin_of s1 B) /\
               (forall x, ctime_of s2 x = ctime_of s x \/
                          ((x < length (scons b))%nat /\ rblk s x = l /\ ctime_of s2 x = ctr s)) /\
               exists hl0, bin_of s2 l = Some hl0 /\ hgoodC s2 hl0 /\ hsound s2 l hl0 /\ hcomplete s2 l hl0).
  { unfold s2. destruct (bin_of s1 l) as [hl0|] eqn:Hl1.
    - split; [exact B1|]. split; [exact Bt1|]. split; [exact D5|]. split; [congruence|]. split; [exact Lb1|].
      split; [reflexivity|]. split; [intros x; left; unfold ctime_of; rewrite Ct1; reflexivity|].
      exists hl0. split; [exact Hl1|].
      assert (Hl0 : bin_of s l = Some hl0).
      { destruct (D6 true l) as [[_ X]|X]; [congruence|]. cbn [heap_of] in X. congruence. }
      destruct (HG l hl0 Inl Hl0) as [[X1 X2] [X3 X4]].
      split; [split; [exact X1 | apply (hordh_ceqvC s); assumption]|]. split.
      + intros x Hx. rewrite B1, (rblk_ceqv _ _ _ D4). apply X3. exact Hx.
      + intros x Hx. rewrite ?B1, (rblk_ceqv _ _ _ D4), (lblk_ceqv _ _ _ D4) in *. apply X4. exact Hx.
    - assert (Lct1 : length (ctime s1) = length (scons (base s1))) by (rewrite Ct1, B1; exact Lct).
      assert (NDl : NoDup (bvars (block_of (base s1) l))) by (rewrite B1; apply (bk_nodup _ BK _ Hcl0)).
      assert (Hll : (l < length (bin s1))%nat).
      { rewrite Lb1. apply (Nat.lt_le_trans _ (length (blocks b))); [apply (bk_blk _ BK); exact Hcl0 | exact Lbi]. }
      destruct (set_up_heap_in_good s1 l Lct1 NDl Hll) as [U1 [U2 [U3 [U4 [U5 [U6 [U7 [[hl [U8 [U9 U10]]] _]]]]]]]].
      cbv zeta in *. rewrite B1 in U1, U7, U10. fold b in U1, U7, U10.
      assert (Adj : forall x, In x (adj true b l) <-> ((x < length (scons b))%nat /\ blk_of b (cr (con_of b x)) = l)).
      { intros x. apply (adj_in_block b (cl (con_of b c0)) x BK Hcl0). }
      split; [exact U1|]. split; [congruence|]. split; [congruence|]. split; [congruence|]. split; [congruence|].
      split; [exact U6|]. split.
      { intros x. destruct (in_dec Nat.eq_dec x (adj true b l)) as [Hx|Hx].
        - right. rewrite (proj2 (U7 x) Hx). apply Adj in Hx. destruct Hx as [X1 X2]. auto.
        - left. rewrite (proj1 (U7 x) Hx). unfold ctime_of. rewrite Ct1. reflexivity. }
      exists hl. split; [exact U8|]. split; [exact U9|]. split.
      + intros x Hx. apply U10 in Hx. destruct Hx as [Hx _]. apply Adj in Hx. rewrite U1. unfold rblk. rewrite U1. exact Hx.
      + intros x Hx Rx Lx. rewrite U1 in Hx. unfold rblk, lblk in Rx, Lx. rewrite U1 in Rx, Lx.
        apply U10. split; [apply Adj; auto|]. unfold lblk. rewrite B1. exact Lx. }
  destruct S2 as [Eb2 [Bt2 [Cr2 [Lc2 [Lbi2 [Ho2 [Ct2 [hl0 [Hl2 [[NDl Ol] [Sl Cl]]]]]]]]]]].
  clearbody s2.
  assert (Env : forall B, nvars s2 B = length (bvars (block_of b B))) by (intros B; unfold nvars; rewrite Eb2; reflexivity).
  rewrite !Env in H.
  set (sw := Nat.ltb (length (bvars (block_of b M))) (length (bvars (block_of b l)))) in *.
  set (t := if sw then l else M) in *. set (a := if sw then M else l) in *.
  assert (Hta : t <> a) by (unfold t, a; destruct sw; congruence).
  cbn [base set_base set_ctr] in H. rewrite Eb2, B1 in H. fold b in H.
  set (d := if sw then - mdist b c0 else mdist b c0).
  set (b' := merge_into b t a c0 d).
  change (if sw then - (off_of b (cr (con_of b c0)) - off_of b (cl (con_of b c0)) - gap (con_of b c0))
          else off_of b (cr (con_of b c0)) - off_of b (cl (con_of b c0)) - gap (con_of b c0)) with d in H.
  fold b' in H.
  set (s4 := set_base (set_ctr s2 (S (ctr s2))) b') in *.
  apply bind_ok in H. destruct H as [s5 [H5 H]].
  apply bind_ok in H. destruct H as [[s9 c9] [H9 H]].
  assert (E' : s' = s9 /\ M' = t /\ c' = c9) by (inversion H; auto). destruct E' as [-> [-> ->]]. clear H.
  cbn [fst] in *.
  (* the merge of the blocks *)
  assert (Hne : blk_of b (cl (con_of b c0)) <> blk_of b (cr (con_of b c0))) by (rewrite Er0; exact Nl0).
  assert (SZ : blk_st b (blk_of b (cl (con_of b c0)))) by (apply ST; exact Hcl0).
  assert (SN : blk_st b (blk_of b (cr (con_of b c0)))) by (apply ST; exact Hcr0).
  destruct (merge_class b c0 sw d BK AI W Hc0 Hne SZ SN (Qeq_refl _))
    as [rr [rl [Ed [CL [TOK [MO [_ [BK' [AI' [Es Ev]]]]]]]]]].
  cbv zeta in CL, TOK, MO, BK', AI', Es, Ev. rewrite Er0 in CL, TOK, MO, BK', AI', Es, Ev.
  fold l in CL, TOK, MO, BK', AI', Es, Ev. fold t a in CL, TOK, MO, BK', AI', Es, Ev. fold b' in CL, TOK, MO, BK', AI', Es, Ev.
  assert (BT : btrans b b' M l t rr rl) by (apply mclass_btrans; auto).
  pose proof (bt_blk _ _ _ _ _ _ _ BT) as NB.
  assert (Kcon : forall x, con_of b' x = con_of b x) by (intros x; unfold con_of; rewrite Es; reflexivity).
  (* elements of the two heaps *)
  assert (E1 : forall x, In x (heap_elems h1) -> (x < length (scons b))%nat /\ rblk s x = M /\ x <> c0 /\ In x (heap_elems h0)).
  { intros x Hx. apply (Permutation_in _ D3) in Hx.
    assert (Eh0 : heap_elems h0 = c0 :: tl (heap_elems h0)).
    { destruct h0 as [[c kids]|]; [|discriminate]. cbn in Hmin. inversion Hmin. subst c. reflexivity. }
    assert (Hx0 : In x (heap_elems h0)) by (rewrite Eh0; right; exact Hx).
    destruct (S0 x Hx0) as [A B]. split; [exact A|]. split; [exact B|]. split; [|exact Hx0].
    intros ->. rewrite Eh0 in ND0. inversion ND0. contradiction. }
  assert (E2 : forall x, In x (heap_elems hl0) -> (x < length (scons b))%nat /\ rblk s x = l).
  { intros x Hx. destruct (Sl x Hx) as [A B]. rewrite Eb2 in A. unfold rblk in B. rewrite Eb2 in B. auto. }
  assert (Hh12 : bin_of s2 M = Some h1) by (rewrite Ho2 by congruence; exact D1).
  assert (O12 : hordh (Rcur s2) h1).
  { apply (hordh_same_keysC s1); [rewrite Eb2, B1; reflexivity | rewrite Bt2, Bt1; reflexivity | | exact D2o].
    intros x Hx. destruct (E1 x Hx) as [_ [X2 _]]. destruct (Ct2 x) as [E|[_ [Y _]]]; [|congruence].
    rewrite E. unfold ctime_of. rewrite Ct1. reflexivity. }
  (* the state after the merge of the blocks, before the merge of the heaps *)
  assert (Eb4 : base s4 = b') by reflexivity.
  assert (Ct4 : ctime s4 = ctime s2) by reflexivity.
  assert (Bt4 : btime s4 = btime s) by exact Bt2.
  assert (Cr4 : ctr s4 = S (ctr s)) by (unfold s4; cbn; rewrite Cr2; reflexivity).
  assert (Bin4 : forall B, bin_of s4 B = bin_of s2 B) by reflexivity.
  assert (W2 : wf_vars (svars (base s2))) by (rewrite Eb2; exact W).
  assert (BK2 : book (base s2)) by (rewrite Eb2; exact BK).
  assert (BT2 : btrans (base s2) (base s4) M l t rr rl) by (rewrite Eb2, Eb4; exact BT).
  assert (O1 : hordh (Rcur s4) h1).
  { apply (hordh_shift s2 s4 rr); [|exact O12]. intros x k' Hx E'. destruct (E1 x Hx) as [A1 [A2 _]].
    apply (key_shiftC s2 s4 M l t rr rl W2 BK2 BT2 M rr x k'); [reflexivity | reflexivity | left; auto | rewrite Eb2; exact A1 | | exact E'].
    unfold rblk. rewrite Eb2. exact A2. }
  assert (O2 : hordh (Rcur s4) hl0).
  { apply (hordh_shift s2 s4 rl); [|exact Ol]. intros x k' Hx E'. destruct (E2 x Hx) as [A1 A2].
    apply (key_shiftC s2 s4 M l t rr rl W2 BK2 BT2 l rl x k'); [reflexivity | reflexivity | right; auto | rewrite Eb2; exact A1 | | exact E'].
    unfold rblk. rewrite Eb2. exact A2. }
  set (ht := if sw then hl0 else h1). set (ha := if sw then h1 else hl0).
  assert (Hht : bin_of s4 t = Some ht) by (unfold t, ht; rewrite Bin4; destruct sw; assumption).
  assert (Hha : bin_of s4 a = Some ha) by (unfold a, ha; rewrite Bin4; destruct sw; assumption).
  assert (Oht : hordh (Rcur s4) ht) by (unfold ht; destruct sw; assumption).
  assert (Oha : hordh (Rcur s4) ha) by (unfold ha; destruct sw; assumption).
  assert (Eta : forall x, In x (heap_elems ht ++ heap_elems ha) <-> (In x (heap_elems h1) \/ In x (heap_elems hl0))).
  { intros x. rewrite in_app_iff. unfold ht, ha. destruct sw; tauto. }
  assert (Dis : forall x, In x (heap_elems h1) -> In x (heap_elems hl0) -> False).
  { intros x X1 X2. destruct (E1 x X1) as [_ [A _]]. destruct (E2 x X2) as [_ B]. congruence. }
  assert (NDta : NoDup (heap_elems ht ++ heap_elems ha)).
  { unfold ht, ha. destruct sw.
    - apply NoDup_app_disjoint; auto. intros x X1 X2. exact (Dis x X2 X1).
    - apply NoDup_app_disjoint; auto. }
  assert (T24 : T2 s4).
  { intros B. unfold btime_of. rewrite Bt4, Cr4. pose proof (HT2 B) as X. unfold btime_of in X. lia. }
  destruct (merge_heaps_goodC s4 t a ht ha s5 Hta T24 Hht Hha Oht Oha NDta) as
    [h5 [M1 [M2 [[M3n M3o] [M4 [M5 [M6 [M7 [M8 [M8' [M9 M10]]]]]]]]]]].
  { intros x Hx. apply Eta in Hx. rewrite Ct4, Lc2, Lct. destruct Hx as [Hx|Hx]; [apply (E1 x Hx) | apply (E2 x Hx)]. }
  { exact H5. }
  (* stamping the merged block *)
  set (s6 := set_btime s5 (upd_nth (btime s5) t (ctr s5))) in *.
  assert (Ht_lt : (t < length (btime s))%nat).
  { apply (Nat.lt_le_trans _ (length (blocks b))); [|exact Lbt]. unfold t. destruct sw.
    - apply (bk_blk _ BK). exact Hcl0.
    - rewrite <- Er0. apply (bk_blk _ BK). exact Hcr0. }
  assert (Rb5 : forall x, In x (heap_elems h5) -> rblk s5 x = t).
  { intros x Hx. apply M4, Eta in Hx. unfold rblk. rewrite M6, Eb4, Kcon.
    destruct Hx as [Hx|Hx].
    - destruct (E1 x Hx) as [A [B _]]. destruct (con_ends_lt _ _ BK A) as [_ Hr]. apply (NB _ Hr). left. exact B.
    - destruct (E2 x Hx) as [A B]. destruct (con_ends_lt _ _ BK A) as [_ Hr]. apply (NB _ Hr). right. exact B. }
  assert (O6 : hordh (Rcur s6) h5).
  { apply (hordh_keys s5); [|exact M3o]. intros x Hx. unfold s6. apply skey_set_btime_r. apply Rb5. exact Hx. }
  assert (T26 : T2 s6).
  { intros B. unfold btime_of, s6. cbn [btime set_btime ctr].
    destruct (nth_upd_nth_cases (btime s5) t B (ctr s5) O) as [E|[_ [_ E]]]; rewrite E; [|lia].
    rewrite M7, Bt4, M8, Cr4. pose proof (HT2 B) as X. unfold btime_of in X. lia. }
  destruct (find_min_in_goodC s6 t h5 s9 c9 T26 M1 (conj M3n O6)) as
    [h9 [N1 [N2 [N3 [N4 [N5 [N6 [N7 [N8 [N9 [N9' [N10 N11]]]]]]]]]]]].
  { intros x Hx. change (length (ctime s6)) with (length (ctime s5)). rewrite M8', Ct4, Lc2, Lct.
    apply M4, Eta in Hx. destruct Hx as [Hx|Hx]; [apply (E1 x Hx) | apply (E2 x Hx)]. }
  { exact H9. }
  (* summary of the new state *)
  assert (Fb : base s9 = b') by (rewrite N7; change (base s6) with (base s5); rewrite M6; exact Eb4).
  assert (Fc : ctr s9 = S (ctr s)) by (rewrite N9; change (ctr s6) with (ctr s5); rewrite M8; exact Cr4).
  assert (Fbt_t : btime_of s9 t = S (ctr s)).
  { unfold btime_of. rewrite N8. unfold s6. cbn [btime set_btime]. rewrite nth_upd_nth_eq by (rewrite M7, Bt4; exact Ht_lt).
    rewrite M8. exact Cr4. }
  assert (Fbt_o : forall B, B <> t -> btime_of s9 B = btime_of s B).
  { intros B NB'. unfold btime_of. rewrite N8. unfold s6. cbn [btime set_btime]. rewrite nth_upd_nth_neq by congruence.
    rewrite M7, Bt4. reflexivity. }
  assert (Fct : forall x, ctime_of s9 x = ctime_of s x \/
                          ((x < length (scons b))%nat /\ (rblk s x = M \/ rblk s x = l) /\
                           (ctime_of s9 x = S (ctr s) \/ ctime_of s9 x = ctr s))).
  { intros x. assert (E4 : ctime_of s4 x = ctime_of s2 x) by reflexivity.
    assert (InML : (In x (heap_elems h1) \/ In x (heap_elems hl0)) -> (x < length (scons b))%nat /\ (rblk s x = M \/ rblk s x = l)).
    { intros [X|X]; [destruct (E1 x X) as [Y1 [Y2 _]] | destruct (E2 x X) as [Y1 Y2]]; auto. }
    destruct (N10 x) as [E|[Hx E]].
    - change (ctime_of s6 x) with (ctime_of s5 x) in E. destruct (M9 x) as [E5|[Hx E5]].
      + destruct (Ct2 x) as [E2'|[Y1 [Y2 Y3]]]; [left; congruence|]. right. split; [exact Y1|]. split; [right; exact Y2|]. right. congruence.
      + right. apply Eta, InML in Hx. destruct Hx as [Y1 Y2]. split; [exact Y1|]. split; [exact Y2|]. left. congruence.
    - right. apply M4, Eta, InML in Hx. destruct Hx as [Y1 Y2]. split; [exact Y1|]. split; [exact Y2|]. left.
      change (ctr s6) with (ctr s5) in E. congruence. }
  assert (Fh_o : forall B, B <> M -> B <> l -> bin_of s9 B = bin_of s B).
  { intros B N1' N2'. assert (Nt : B <> t) by (unfold t; destruct sw; assumption).
    assert (Na : B <> a) by (unfold a; destruct sw; assumption).
    destruct (N11 true B) as [[_ X]|X]; [congruence|]. cbn [heap_of] in X. rewrite X.
    change (bin_of s6 B) with (bin_of s5 B).
    destruct (M10 true B) as [[_ [X'|X']]|X']; [congruence | congruence|]. cbn [heap_of] in X'. rewrite X', Bin4, Ho2 by exact N2'.
    destruct (D6 true B) as [[_ Y]|Y]; [congruence|]. exact Y. }
  assert (F9in : forall x, In x (heap_elems h9) -> In x (heap_elems h1) \/ In x (heap_elems hl0)).
  { intros x Hx. apply Eta, M4, N4. exact Hx. }
  assert (LR9 : forall x, lblk s9 x = blk_of b' (cl (con_of b x)) /\ rblk s9 x = blk_of b' (cr (con_of b x))).
  { intros x. unfold lblk, rblk. rewrite Fb, Kcon. auto. }
  assert (F9ext : forall x, (In x (heap_elems h1) \/ In x (heap_elems hl0)) -> lblk s9 x <> rblk s9 x -> In x (heap_elems h9)).
  { intros x Hx Ex. apply N5.
    - apply M5; [apply Eta; exact Hx|]. unfold lblk, rblk in *. rewrite Eb4. rewrite Fb in Ex. exact Ex.
    - unfold lblk, rblk in *. change (base s6) with (base s5). rewrite M6, Eb4. rewrite Fb in Ex. exact Ex. }
  assert (Blk' : forall u, (u < length (svars b))%nat ->
            ((blk_of b u = M \/ blk_of b u = l) /\ blk_of b' u = t) \/
            (blk_of b' u = blk_of b u /\ blk_of b u <> M /\ blk_of b u <> l /\ blk_of b' u <> t)).
  { intros u Hu.
    destruct (Nat.eq_dec (blk_of b u) M) as [X|X]; [left; split; [auto|]; apply (NB u Hu); left; exact X|].
    destruct (Nat.eq_dec (blk_of b u) l) as [X2|X2]; [left; split; [auto|]; apply (NB u Hu); right; exact X2|].
    destruct (proj2 (NB u Hu) X X2) as [E E']. right. auto. }
  assert (Inh' : forall B, inhabited b' B -> B <> t -> inhabited b B /\ B <> M /\ B <> l).
  { intros B [w [Hw Ew]] Nt. rewrite Ev in Hw.
    destruct (Blk' w Hw) as [[_ X]|[X1 [X2 [X3 _]]]]; [congruence|].
    split; [exists w; split; [exact Hw | congruence]|]. split; congruence. }
  assert (ST' : all_blk_st b').
  { intros u Hu. rewrite Ev in Hu.
    destruct (CL _ Hu) as [[U1 [U2 U3]]|[[U1 [U2 U3]]|[U1 [U1' [U1'' [U2 U3]]]]]].
    - rewrite U2. apply blk_ok_st. exact TOK.
    - rewrite U2. apply blk_ok_st. exact TOK.
    - rewrite U1''. apply (MO u Hu U1 U1'). apply ST. exact Hu. }
  assert (T19 : T1 s9).
  { intros x. rewrite Fc. pose proof (HT1 x). destruct (Fct x) as [E|[_ [_ [E|E]]]]; rewrite E; lia. }
  assert (Ends' : forall x, (x < length (scons b))%nat ->
             (cl (con_of b x) < length (svars b))%nat /\ (cr (con_of b x) < length (svars b))%nat).
  { intros x Hx. exact (con_ends_lt _ _ BK Hx). }
  split; [|split].
  2:{ rewrite Fb. exists (cl (con_of b c0)). rewrite Ev. split; [exact Hcl0|]. apply (NB _ Hcl0). right. reflexivity. }
  2:{ exists h9. split; [exact N1|]. split; [exact N3 | exact N6]. }
  constructor.
  - rewrite Fb. exact BK'.
  - rewrite Fb. exact AI'.
  - rewrite Fb, Ev. exact W.
  - rewrite Fb. exact ST'.
  - exact T19.
  - intros B. rewrite Fc. destruct (Nat.eq_dec B t) as [->|NB']; [rewrite Fbt_t; lia|].
    rewrite (Fbt_o B NB'). pose proof (HT2 B). lia.
  - (* TS *)
    intros x Hx Lx. rewrite Fb, Es in Hx. destruct (LR9 x) as [L9 _]. rewrite L9 in Lx |- *.
    destruct (Ends' x Hx) as [Hxl _].
    destruct (Blk' _ Hxl) as [[_ X]|[X1 [X2 [X3 X4]]]]; [congruence|].
    rewrite X1, (Fbt_o _ (eq_ind _ (fun z => z <> t) X4 _ X1)).
    assert (TSx : (btime_of s (blk_of b (cl (con_of b x))) <= ctime_of s x)%nat) by (apply (TS x Hx); exact X2).
    pose proof (HT2 (blk_of b (cl (con_of b x)))) as T2x.
    destruct (Fct x) as [E|[_ [_ [E|E]]]]; rewrite E; lia.
  - rewrite N9'. change (length (ctime s6)) with (length (ctime s5)). rewrite M8', Ct4, Lc2, Fb, Es. exact Lct.
  - rewrite Fb. unfold b'. rewrite merge_into_lblocks.
    rewrite (find_min_in_lbin _ _ _ _ H9). change (bin s6) with (bin s5). rewrite (merge_heaps_lbin _ _ _ _ H5).
    change (bin s4) with (bin s2). rewrite Lbi2. exact Lbi.
  - rewrite Fb. unfold b'. rewrite merge_into_lblocks, N8. unfold s6. cbn [btime set_btime].
    rewrite upd_nth_length, M7, Bt4. exact Lbt.
  - (* the heaps *)
    intros B h Hi Hb. rewrite Fb in Hi. destruct (Nat.eq_dec B t) as [->|Nt].
    + rewrite N1 in Hb. inversion Hb. subst h. split; [exact N2|]. split.
      * intros x Hx. rewrite Fb, Es. destruct (LR9 x) as [_ R9]. rewrite R9.
        destruct (F9in x Hx) as [X|X].
        -- destruct (E1 x X) as [A1 [A2 _]]. split; [exact A1|]. apply (NB _ (proj2 (Ends' x A1))). left. exact A2.
        -- destruct (E2 x X) as [A1 A2]. split; [exact A1|]. apply (NB _ (proj2 (Ends' x A1))). right. exact A2.
      * intros x Hx Rx Lx. rewrite Fb, Es in Hx. destruct (LR9 x) as [L9 R9]. rewrite L9 in Lx. rewrite R9 in Rx.
        destruct (Ends' x Hx) as [Hxl Hxr].
        destruct (Blk' _ Hxl) as [[_ X]|[XL1 [XL2 [XL3 XL4]]]]; [congruence|].
        apply F9ext; [|rewrite L9, R9; congruence].
        destruct (Blk' _ Hxr) as [[[XR|XR] _]|[XR1 [_ [_ XR4]]]]; [| |congruence].
        -- left. assert (Hx0 : In x (heap_elems h0)) by (apply C0; [exact Hx | exact XR | exact XL2]).
           apply (Permutation_in _ (Permutation_sym D3)). apply (heap_min_tl h0 c0 x Hmin Hx0).
           intros ->. apply XL3. reflexivity.
        -- right. apply Cl; [rewrite Eb2; exact Hx | unfold rblk; rewrite Eb2; exact XR | unfold lblk; rewrite Eb2; exact XL3].
    + destruct (Inh' B Hi Nt) as [Hi0 [Nr Nl]]. rewrite (Fh_o B Nr Nl) in Hb.
      destruct (HG B h Hi0 Hb) as [[NDh Oh] [Sh Ch]].
      assert (Fr : forall y, In y (heap_elems h) -> (y < length (scons b))%nat /\ rblk s y = B /\ ctime_of s9 y = ctime_of s y).
      { intros y Hy. destruct (Sh y Hy) as [A1 A2]. split; [exact A1|]. split; [exact A2|].
        destruct (Fct y) as [E|[_ [[X|X] _]]]; [exact E | congruence | congruence]. }
      split; [split; [exact NDh|]|split].
      * apply (hordh_shift s s9 0); [|exact Oh]. intros x k' Hx E'. destruct (Fr x Hx) as [X1 [X2 X3]].
        assert (BT9 : btrans (base s) (base s9) M l t rr rl) by (rewrite Fb; exact BT).
        apply (key_untouchedC s s9 M l t rr rl W BK BT9 B x k' Nr Nl X1 X2 X3 (HT1 x) Fbt_t Fbt_o E').
      * intros x Hx. destruct (Fr x Hx) as [X1 [X2 _]]. rewrite Fb, Es. split; [exact X1|].
        destruct (LR9 x) as [_ R9]. rewrite R9. unfold rblk in X2. fold b in X2.
        destruct (Blk' _ (proj2 (Ends' x X1))) as [[[Y|Y] _]|[Y1 _]]; congruence.
      * intros x Hx Rx Lx. rewrite Fb, Es in Hx. destruct (LR9 x) as [L9 R9]. rewrite L9 in Lx. rewrite R9 in Rx.
        destruct (Ends' x Hx) as [Hxl Hxr].
        assert (XR : blk_of b (cr (con_of b x)) = B).
        { destruct (Blk' _ Hxr) as [[_ Y]|[Y1 _]]; congruence. }
        apply Ch; [exact Hx | exact XR|]. unfold lblk. fold b. intros XL. apply Lx.
        destruct (Blk' _ Hxl) as [[[Y|Y] _]|[Y1 _]]; congruence.
Qed.

Lemma MLH_roots : forall fuel s r c, MLH s r c -> ml_roots_ok fuel s r c.
Proof.
  induction fuel as [|f IH]; intros s r c M; [exact I|].
  rewrite ml_roots_ok_S.
  split; [apply MLH_root; exact M|]. destruct c as [c0|]; [|exact I].
  pose proof (MLH_snote TIE_EPS s r (Some c0) c0 0 M) as M0.
  remember (snote_slack TIE_EPS s c0 0) as s0 eqn:Es0. clear Es0 M.
  destruct (Qltb (sslack s0 c0) 0) eqn:Q; [|exact I].
  destruct (ml_body s0 r c0) as [[[s' r'] c']| |] eqn:E; try exact I.
  apply IH. exact (ml_body_MLH s0 r c0 s' r' c' M0 E).
Qed.

(* the heap invariant also reaches the exit of the loop (time stamps and lengths for the mergeRight that follows) *)
Lemma ml_loop_MLH : forall fuel s r c s', MLH s r c -> ml_loop fuel s r c = Ok s' -> exists M c', MLH s' M c'.
Proof.
  induction fuel as [|f IH]; intros s r c s' M H; [discriminate|].
  cbn [ml_loop] in H. destruct c as [c0|].
  2:{ inversion H. subst s'. exists r, None. exact M. }
  pose proof (MLH_snote TIE_EPS s r (Some c0) c0 0 M) as M0.
  remember (snote_slack TIE_EPS s c0 0) as s0 eqn:Es0. clear Es0 M.
  destruct (Qltb (sslack s0 c0) 0) eqn:Q.
  - apply bind_ok in H. destruct H as [[[s1 r1] c1] [H1 H2]].
    exact (IH _ _ _ _ (ml_body_MLH s0 r c0 s1 r1 c1 M0 H1) H2).
  - inversion H. subst s'. exists r, (Some c0). exact M0.
Qed.

(* ------------------------------------------------------------------ entering mergeLeft *)
(* Blocks::mergeLeft's first two statements: r->timeStamp = ++blockTimeCtr *)
Definition stamp (s : sst) (l : nat) : sst :=
  set_btime (set_ctr s (S (ctr s))) (upd_nth (btime s) l (S (ctr s))).

Lemma MLH_entry s l s1 c :
  HW (stamp s l) l -> inhabited (base s) l ->
  find_min_in (set_up_heap true (stamp s l) l) l = Ok (s1, c) -> MLH s1 l c.
Proof.
  intros [BK AI W ST HT1 HT2 TS Lct Lbi Lbt HG] [v [Hv Ev]] H.
  set (s2 := stamp s l) in *.
  assert (Eb2 : base s2 = base s) by reflexivity. rewrite <- Eb2 in Hv, Ev.
  set (b := base s2) in *.
  assert (NDl : NoDup (bvars (block_of b l))) by (rewrite <- Ev; apply (bk_nodup _ BK _ Hv)).
  assert (Hll : (l < length (bin s2))%nat).
  { apply (Nat.lt_le_trans _ (length (blocks b))); [rewrite <- Ev; apply (bk_blk _ BK); exact Hv | exact Lbi]. }
  destruct (set_up_heap_in_good s2 l Lct NDl Hll) as [U1 [U2 [U3 [U4 [U5 [U6 [U7 [[hl [U8 [[U9n U9o] U10]]] _]]]]]]]].
  cbv zeta in *. set (s3 := set_up_heap true s2 l) in *. fold b in U1, U7, U10.
  assert (Adj : forall x, In x (adj true b l) <-> ((x < length (scons b))%nat /\ blk_of b (cr (con_of b x)) = l)).
  { intros x. rewrite <- Ev. apply (adj_in_block b v x BK Hv). }
  assert (T23 : T2 s3) by (intros B; unfold btime_of; rewrite U2, U3; apply HT2).
  destruct (find_min_in_goodC s3 l hl s1 c T23 U8 (conj U9n U9o)) as
    [h9 [N1 [N2 [N3 [N4 [N5 [N6 [N7 [N8 [N9 [N9' [N10 N11]]]]]]]]]]]].
  { intros x Hx. apply U10 in Hx. destruct Hx as [Hx _]. apply Adj in Hx. rewrite U4, Lct. exact (proj1 Hx). }
  { exact H. }
  assert (Fb : base s1 = b) by (rewrite N7; exact U1).
  assert (LR : forall x, lblk s1 x = lblk s2 x /\ rblk s1 x = rblk s2 x) by (intros x; unfold lblk, rblk; rewrite Fb; auto).
  assert (Fct : forall x, ctime_of s1 x = ctime_of s2 x \/
                  ((x < length (scons b))%nat /\ rblk s2 x = l /\ ctime_of s1 x = ctr s2)).
  { intros x.
    assert (X3 : ctime_of s3 x = ctime_of s2 x \/ ((x < length (scons b))%nat /\ rblk s2 x = l /\ ctime_of s3 x = ctr s2)).
    { destruct (in_dec Nat.eq_dec x (adj true b l)) as [Hx|Hx].
      - right. rewrite (proj2 (U7 x) Hx). apply Adj in Hx. destruct Hx as [X1 X2]. auto.
      - left. exact (proj1 (U7 x) Hx). }
    destruct (N10 x) as [E|[Hx E]].
    - destruct X3 as [E3|[Y1 [Y2 Y3]]]; [left; congruence | right; split; [exact Y1|]; split; [exact Y2 | congruence]].
    - right. apply U10 in Hx. destruct Hx as [Hx _]. apply Adj in Hx. destruct Hx as [Y1 Y2].
      split; [exact Y1|]. split; [exact Y2|]. congruence. }
  split; [|split].
  2:{ rewrite Fb. exists v. auto. }
  2:{ exists h9. split; [exact N1|]. split; [exact N3 | exact N6]. }
  constructor; rewrite ?Fb; try assumption.
  - intros x. rewrite N9, U3. pose proof (HT1 x). destruct (Fct x) as [E|[_ [_ E]]]; rewrite E; lia.
  - intros B. unfold btime_of. rewrite N8, U2, N9, U3. apply HT2.
  - intros x Hx Lx. destruct (LR x) as [L1 _]. rewrite L1 in *. unfold btime_of. rewrite N8, U2.
    pose proof (TS x Hx Lx) as X. pose proof (HT2 (lblk s2 x)) as Y. unfold btime_of in X, Y.
    destruct (Fct x) as [E|[_ [_ E]]]; rewrite E; lia.
  - rewrite N9', U4. exact Lct.
  - rewrite (find_min_in_lbin _ _ _ _ H), U5. exact Lbi.
  - rewrite N8, U2. exact Lbt.
  - intros B h Hi Hb. destruct (Nat.eq_dec B l) as [->|Nl].
    + rewrite N1 in Hb. inversion Hb. subst h. split; [exact N2|]. split.
      * intros x Hx. apply N4, U10 in Hx. destruct Hx as [Hx _]. apply Adj in Hx. rewrite Fb. unfold rblk. rewrite Fb. exact Hx.
      * intros x Hx Rx Lx. rewrite Fb in Hx. unfold rblk, lblk in Rx, Lx. rewrite Fb in Rx, Lx.
        apply N5; [apply U10; split; [apply Adj; auto | exact Lx]|].
        unfold lblk, rblk. rewrite U1. congruence.
    + assert (Hb2 : bin_of s2 B = Some h).
      { destruct (N11 true B) as [[_ X]|X]; [congruence|]. cbn [heap_of] in X. rewrite <- (U6 B Nl), <- X. exact Hb. }
      destruct (HG B h Hi Hb2) as [[NDh Oh] [Sh Ch]].
      split; [split; [exact NDh|]|split].
      * apply (hordh_same_keysC s2); [exact Fb | rewrite N8; exact U2 | | exact Oh].
        intros x Hx. destruct (Sh x Hx) as [_ X2]. destruct (Fct x) as [E|[_ [Y _]]]; [exact E | congruence].
      * intros x Hx. rewrite Fb. rewrite (proj2 (LR x)). apply Sh. exact Hx.
      * intros x Hx. rewrite ?Fb, (proj2 (LR x)), (proj1 (LR x)) in *. apply Ch. exact Hx.
Qed.

(* Blocks::mergeLeft inside Blocks::split: no hypothesis about the heap roots any more.  HW (stamp s l) l is a statement
   about the state mergeLeft is called in: time stamps (no constraint is stale unless its left end is in l once l is
   stamped), lengths, and every in-heap that exists is duplicate-free, ordered (on its non-stale keys), sound, complete *)
Theorem merge_left_split_closed Yb rv s l s' :
  MLS Yb rv (base s) l -> HW (stamp s l) l -> inhabited (base s) l ->
  merge_left s l = Ok s' ->
  exists M, MLS Yb rv (base s') M /\
    (forall i, (i < length (scons (base s')))%nat -> blk_of (base s') (cr (con_of (base s') i)) = M ->
               blk_of (base s') (cl (con_of (base s') i)) <> M -> 0 <= slack_val (base s') i) /\
    scons (base s') = scons (base s) /\ svars (base s') = svars (base s).
Proof.
  intros I HWs Inh H. apply (merge_left_split Yb rv s l s' I); [|exact H].
  intros s1 c H1. apply MLH_roots. apply (MLH_entry s l s1 c); assumption.
Qed.

(* the same run also hands the time-stamp / length / heap invariant to whatever follows *)
Theorem merge_left_split_HW s l s' :
  HW (stamp s l) l -> inhabited (base s) l -> merge_left s l = Ok s' -> exists M c, MLH s' M c.
Proof.
  intros HWs Inh H. unfold merge_left in H. apply bind_ok in H. destruct H as [[s1 c1] [H1 H2]]. cbn [fst snd] in H2.
  exact (ml_loop_MLH _ _ _ _ _ (MLH_entry s l s1 c1 HWs Inh H1) H2).
Qed.

(* ------------------------------------------------------------------ Solver::refine's first loop (setup_all) *)
(* After "for every block: setUpInConstraints(); setUpOutConstraints()" every constraint into a set-up block carries the
   current counter as its stamp and every in-heap built is duplicate-free, ordered, sound and complete. *)
Record SAI (s0 s' : sst) (D : nat -> Prop) : Prop := {
  sa_base : base s' = base s0;
  sa_bt : btime s' = btime s0;
  sa_ctr : ctr s' = ctr s0;
  sa_lct : length (ctime s') = length (ctime s0);
  sa_lbi : length (bin s') = length (bin s0);
  sa_lbo : length (bout s') = length (bout s0);
  sa_ct : forall x, ctime_of s' x = ctime_of s0 x \/ ctime_of s' x = ctr s0;
  sa_done : forall x, (x < length (scons (base s0)))%nat -> D (rblk s0 x) -> ctime_of s' x = ctr s0;
  sa_heap : forall B, D B -> exists h, bin_of s' B = Some h /\ hgoodC s' h /\ hsound s' B h /\ hcomplete s' B h /\
                                     (forall x, In x (heap_elems h) -> ctime_of s' x = ctr s0) }.

Lemma SAI_init s0 : SAI s0 s0 (fun _ => False).
Proof. constructor; auto; intros; contradiction. Qed.

Lemma setup_step_SAI s0 s' D B :
  book (base s0) -> length (ctime s0) = length (scons (base s0)) ->
  (length (blocks (base s0)) <= length (bin s0))%nat ->
  inhabited (base s0) B -> SAI s0 s' D ->
  SAI s0 (set_up_heap false (set_up_heap true s' B) B) (fun X => X = B \/ D X).
Proof.
  intros BK Lct Lbi [v [Hv Ev]] [A1 A2 A3 A4 A5 A6 A7 A8 A9].
  set (b := base s0) in *.
  assert (Lct' : length (ctime s') = length (scons (base s'))) by (rewrite A4, A1; exact Lct).
  assert (NDv : NoDup (bvars (block_of (base s') B))) by (rewrite A1, <- Ev; apply (bk_nodup _ BK _ Hv)).
  assert (HB : (B < length (bin s'))%nat).
  { rewrite A5. apply (Nat.lt_le_trans _ (length (blocks b))); [rewrite <- Ev; apply (bk_blk _ BK); exact Hv | exact Lbi]. }
  destruct (set_up_heap_in_good s' B Lct' NDv HB) as [U1 [U2 [U3 [U4 [U5 [U6 [U7 [[hB [U8 [[U9n U9o] U10]]] UBO]]]]]]]].
  cbv zeta in *. set (s1 := set_up_heap true s' B) in *. rewrite A1 in U1, U7, U10. fold b in U1, U7, U10.
  assert (AdjI : forall x, In x (adj true b B) <-> ((x < length (scons b))%nat /\ blk_of b (cr (con_of b x)) = B)).
  { intros x. rewrite <- Ev. apply (adj_in_block b v x BK Hv). }
  assert (Lct1 : length (ctime s1) = length (scons (base s1))) by (rewrite U4, U1; fold b; rewrite <- Lct; exact A4).
  destruct (set_up_heap_ord Y0 false s1 B Lct1) as [V1 [V2 [V3 [V4 [V5 [V6 [V7 [V8 _]]]]]]]].
  cbv zeta in *. set (s2 := set_up_heap false s1 B) in *. rewrite U1 in V1, V8. fold b in V1, V8.
  assert (Bin2 : forall X, bin_of s2 X = bin_of s1 X).
  { intros X. destruct (V7 true X) as [[Y _]|Y]; [discriminate | exact Y]. }
  (* constraint stamps: only ever set to the counter *)
  assert (C1 : forall x, ctime_of s1 x = ctime_of s' x \/ ctime_of s1 x = ctr s0).
  { intros x. destruct (in_dec Nat.eq_dec x (adj true b B)) as [Hx|Hx].
    - right. rewrite (proj2 (U7 x) Hx). exact A3.
    - left. exact (proj1 (U7 x) Hx). }
  assert (C2 : forall x, ctime_of s2 x = ctime_of s1 x \/ ctime_of s2 x = ctr s0).
  { intros x. destruct (in_dec Nat.eq_dec x (adj false b B)) as [Hx|Hx].
    - right. rewrite (proj2 (V8 x) Hx), U3. exact A3.
    - left. exact (proj1 (V8 x) Hx). }
  assert (Keep : forall x, ctime_of s' x = ctr s0 -> ctime_of s2 x = ctr s0).
  { intros x E. destruct (C2 x) as [E2|E2]; [|exact E2]. rewrite E2. destruct (C1 x) as [E1|E1]; congruence. }
  assert (Keep1 : forall x, ctime_of s1 x = ctr s0 -> ctime_of s2 x = ctr s0).
  { intros x E. destruct (C2 x) as [E2|E2]; congruence. }
  assert (LR : forall s'' x, base s'' = b -> lblk s'' x = lblk s0 x /\ rblk s'' x = rblk s0 x).
  { intros s'' x E. unfold lblk, rblk. rewrite E. auto. }
  constructor.
  - rewrite V1. reflexivity.
  - rewrite V2, U2. exact A2.
  - rewrite V3, U3. exact A3.
  - rewrite V4, U4. exact A4.
  - rewrite V5, U5. exact A5.
  - rewrite V6, UBO. exact A6.
  - intros x. destruct (C2 x) as [E2|E2]; [|right; exact E2]. rewrite E2.
    destruct (C1 x) as [E1|E1]; [|right; exact E1]. rewrite E1. apply A7.
  - intros x Hx [E|Dx].
    + apply Keep1. rewrite <- A3. apply (proj2 (U7 x)). apply AdjI. split; [exact Hx | exact E].
    + apply Keep. apply A8; assumption.
  - intros X [->|DX].
    + exists hB. split; [rewrite Bin2; exact U8|].
      assert (CB : forall x, In x (heap_elems hB) -> ctime_of s1 x = ctr s0).
      { intros x Hx. apply U10 in Hx. destruct Hx as [Hx _]. rewrite (proj2 (U7 x) Hx). exact A3. }
      split; [split; [exact U9n|]|split; [|split]].
      * apply (hordh_same_keysC s1); [rewrite V1; symmetry; exact U1 | exact V2 | | exact U9o].
        intros x Hx. rewrite (Keep1 x (CB x Hx)). symmetry. apply CB. exact Hx.
      * intros x Hx. apply U10 in Hx. destruct Hx as [Hx _]. apply AdjI in Hx. rewrite V1. fold b.
        rewrite (proj2 (LR s2 x V1)). exact Hx.
      * intros x Hx Rx Lx. rewrite V1 in Hx. fold b in Hx. rewrite (proj2 (LR s2 x V1)) in Rx. rewrite (proj1 (LR s2 x V1)) in Lx.
        apply U10. split; [apply AdjI; auto|]. rewrite (proj1 (LR s' x A1)). exact Lx.
      * intros x Hx. apply Keep1, CB. exact Hx.
    + destruct (Nat.eq_dec X B) as [->|NX].
      * (* set up a second time: the new heap *)
        exists hB. split; [rewrite Bin2; exact U8|].
        assert (CB : forall x, In x (heap_elems hB) -> ctime_of s1 x = ctr s0).
        { intros x Hx. apply U10 in Hx. destruct Hx as [Hx _]. rewrite (proj2 (U7 x) Hx). exact A3. }
        split; [split; [exact U9n|]|split; [|split]].
        -- apply (hordh_same_keysC s1); [rewrite V1; symmetry; exact U1 | exact V2 | | exact U9o].
           intros x Hx. rewrite (Keep1 x (CB x Hx)). symmetry. apply CB. exact Hx.
        -- intros x Hx. apply U10 in Hx. destruct Hx as [Hx _]. apply AdjI in Hx. rewrite V1. fold b.
           rewrite (proj2 (LR s2 x V1)). exact Hx.
        -- intros x Hx Rx Lx. rewrite V1 in Hx. fold b in Hx. rewrite (proj2 (LR s2 x V1)) in Rx. rewrite (proj1 (LR s2 x V1)) in Lx.
           apply U10. split; [apply AdjI; auto|]. rewrite (proj1 (LR s' x A1)). exact Lx.
        -- intros x Hx. apply Keep1, CB. exact Hx.
      * destruct (A9 X DX) as [h [Hh [[Hn Ho] [Hs [Hc Ht]]]]].
        exists h. split; [rewrite Bin2, (U6 X NX); exact Hh|].
        split; [split; [exact Hn|]|split; [|split]].
        -- apply (hordh_same_keysC s'); [rewrite V1; symmetry; exact A1 | rewrite V2, U2; reflexivity | | exact Ho].
           intros x Hx. rewrite (Keep x (Ht x Hx)). symmetry. apply Ht. exact Hx.
        -- intros x Hx. destruct (Hs x Hx) as [Y1 Y2]. rewrite A1 in Y1. rewrite V1. split; [exact Y1|].
           rewrite (proj2 (LR s2 x V1)). rewrite (proj2 (LR s' x A1)) in Y2. exact Y2.
        -- intros x Hx Rx Lx. rewrite V1 in Hx. rewrite (proj2 (LR s2 x V1)) in Rx. rewrite (proj1 (LR s2 x V1)) in Lx.
           apply Hc; [rewrite A1; exact Hx | rewrite (proj2 (LR s' x A1)); exact Rx | rewrite (proj1 (LR s' x A1)); exact Lx].
        -- intros x Hx. apply Keep, Ht. exact Hx.
Qed.

Lemma SAI_ext s0 s' (D D' : nat -> Prop) : (forall X, D' X -> D X) -> SAI s0 s' D -> SAI s0 s' D'.
Proof. intros E [A1 A2 A3 A4 A5 A6 A7 A8 A9]. constructor; auto. Qed.

Lemma setup_fold_SAI s0 :
  book (base s0) -> length (ctime s0) = length (scons (base s0)) ->
  (length (blocks (base s0)) <= length (bin s0))%nat ->
  forall bl s' D, (forall B, In B bl -> inhabited (base s0) B) -> SAI s0 s' D ->
  SAI s0 (fold_left (fun s'' b => set_up_heap false (set_up_heap true s'' b) b) bl s') (fun X => In X bl \/ D X).
Proof.
  intros BK Lct Lbi. induction bl as [|B t IH]; intros s' D Hin I0; cbn [fold_left].
  - apply (SAI_ext s0 s' D); [intros X [[]|H]; exact H | exact I0].
  - assert (I1 := setup_step_SAI s0 s' D B BK Lct Lbi (Hin B (or_introl eq_refl)) I0).
    specialize (IH _ _ (fun X HX => Hin X (or_intror HX)) I1).
    apply (SAI_ext s0 _ (fun X => In X t \/ (X = B \/ D X))); [|exact IH].
    cbn [In]. intros X [[E|E]|E]; [right; left; auto | left; exact E | right; right; exact E].
Qed.

(* Solver::refine's first loop: all stamps equal the counter, every block of the list has a good in-heap *)
Theorem setup_all_heaps s :
  book (base s) -> length (ctime s) = length (scons (base s)) ->
  (length (blocks (base s)) <= length (bin s))%nat ->
  (forall B, In B (blist (base s)) -> inhabited (base s) B) ->
  (forall v, (v < length (svars (base s)))%nat -> In (blk_of (base s) v) (blist (base s))) ->
  let s' := setup_all s in
  base s' = base s /\ btime s' = btime s /\ ctr s' = ctr s /\
  length (ctime s') = length (ctime s) /\ length (bin s') = length (bin s) /\ length (bout s') = length (bout s) /\
  (forall x, (x < length (scons (base s)))%nat -> ctime_of s' x = ctr s) /\
  (forall B, inhabited (base s) B -> exists h, bin_of s' B = Some h /\ hgoodC s' h /\ hsound s' B h /\ hcomplete s' B h).
Proof.
  intros BK Lct Lbi Hin Hcov. cbv zeta. unfold setup_all.
  pose proof (setup_fold_SAI s BK Lct Lbi (blist (base s)) s _ Hin (SAI_init s)) as [A1 A2 A3 A4 A5 A6 A7 A8 A9].
  split; [exact A1|]. split; [exact A2|]. split; [exact A3|]. split; [exact A4|]. split; [exact A5|]. split; [exact A6|]. split.
  - intros x Hx. apply A8; [exact Hx|]. left. apply Hcov. exact (proj2 (con_ends_lt _ _ BK Hx)).
  - intros B [v [Hv Ev]]. destruct (A9 B) as [h [X1 [X2 [X3 [X4 _]]]]]; [left; rewrite <- Ev; apply Hcov; exact Hv|].
    exists h. auto.
Qed.

(* ------------------------------------------------------------------ entering Blocks::split after setup_all *)
(* s0 = the state Solver::refine's second loop works in (all stamps = counter, good in-heaps, T2); s3 = the state
   Blocks::split calls mergeLeft(l) in: block b has been split into two NEW blocks l, r (no heaps, stamp 0), the
   variables outside l sit where they were.  Then the premise HW of merge_left_split_closed holds. *)
Theorem split_entry_HW s0 s3 b l r :
  T2 s0 -> (forall x, (x < length (scons (base s0)))%nat -> ctime_of s0 x = ctr s0) ->
  length (ctime s0) = length (scons (base s0)) ->
  length (bin s0) = length (blocks (base s0)) -> length (btime s0) = length (blocks (base s0)) ->
  wf_vars (svars (base s0)) -> book (base s0) ->
  (forall B, inhabited (base s0) B -> exists h, bin_of s0 B = Some h /\ hgoodC s0 h /\ hsound s0 B h /\ hcomplete s0 B h) ->
  ctime s3 = ctime s0 -> ctr s3 = ctr s0 -> btime s3 = btime s0 ++ [O; O] -> bin s3 = bin s0 ++ [None; None] ->
  svars (base s3) = svars (base s0) -> scons (base s3) = scons (base s0) ->
  l = length (blocks (base s0)) -> r = S l -> length (blocks (base s3)) = S (S l) -> (b < l)%nat ->
  (forall u, (u < length (svars (base s0)))%nat -> blk_of (base s0) u <> b -> blk_of (base s3) u = blk_of (base s0) u) ->
  (forall u, (u < length (svars (base s0)))%nat -> blk_of (base s0) u = b -> blk_of (base s3) u = l \/ blk_of (base s3) u = r) ->
  (forall u, (u < length (svars (base s0)))%nat -> blk_of (base s3) u <> l -> Yof (base s3) u == Yof (base s0) u) ->
  book (base s3) -> act_inv (base s3) -> all_blk_st (base s3) ->
  HW (stamp s3 l) l.
Proof.
  intros HT2 Hct Lct Lbi Lbt W0 BK0 HG Ect Ectr Ebt Ebin Ev Es El Er Lb3 Hb Bo Bb HY BK3 AI3 ST3.
  set (b0 := base s0) in *. set (b3 := base s3) in *.
  assert (W3 : wf_vars (svars b3)) by (rewrite Ev; exact W0).
  assert (Kcon : forall x, con_of b3 x = con_of b0 x) by (intros x; unfold con_of; rewrite Es; reflexivity).
  assert (Bt3 : forall B, (btime_of s3 B <= ctr s0)%nat).
  { intros B. unfold btime_of. rewrite Ebt. destruct (Nat.lt_ge_cases B (length (btime s0))) as [X|X].
    - rewrite app_nth1 by exact X. apply HT2.
    - rewrite app_nth2 by exact X. destruct (B - length (btime s0))%nat as [|[|[|k]]]; cbn; lia. }
  assert (Hl3 : (l < length (btime s3))%nat) by (rewrite Ebt, app_length, Lbt; cbn; lia).
  assert (BtS : forall B, btime_of (stamp s3 l) B = if Nat.eqb B l then S (ctr s0) else btime_of s3 B).
  { intros B. unfold btime_of, stamp. cbn [btime set_btime]. destruct (Nat.eqb B l) eqn:E.
    - apply Nat.eqb_eq in E. subst B. rewrite nth_upd_nth_eq by exact Hl3. rewrite Ectr. reflexivity.
    - apply Nat.eqb_neq in E. rewrite nth_upd_nth_neq by congruence. reflexivity. }
  assert (CtS : forall x, ctime_of (stamp s3 l) x = ctime_of s0 x) by (intros x; unfold ctime_of, stamp; cbn [ctime set_btime set_ctr]; rewrite Ect; reflexivity).
  assert (CrS : ctr (stamp s3 l) = S (ctr s0)) by (unfold stamp; cbn; rewrite Ectr; reflexivity).
  assert (LRS : forall x, lblk (stamp s3 l) x = blk_of b3 (cl (con_of b0 x)) /\ rblk (stamp s3 l) x = blk_of b3 (cr (con_of b0 x))).
  { intros x. unfold lblk, rblk, stamp. cbn [base set_btime set_ctr]. fold b3. rewrite Kcon. auto. }
  assert (Ends0 : forall x, (x < length (scons b0))%nat ->
             (cl (con_of b0 x) < length (svars b0))%nat /\ (cr (con_of b0 x) < length (svars b0))%nat).
  { intros x Hx. exact (con_ends_lt _ _ BK0 Hx). }
  assert (Blt0 : forall u, (u < length (svars b0))%nat -> (blk_of b0 u < l)%nat) by (intros u Hu; rewrite El; apply (bk_blk _ BK0 u Hu)).
  (* blocks other than the two new ones *)
  assert (Old : forall u B, (u < length (svars b0))%nat -> blk_of b3 u = B -> B <> l -> B <> r -> blk_of b0 u = B /\ B <> b).
  { intros u B Hu E Nl Nr. destruct (Nat.eq_dec (blk_of b0 u) b) as [X|X].
    - destruct (Bb u Hu X); congruence.
    - rewrite (Bo u Hu X) in E. split; congruence. }
  constructor.
  - exact BK3.
  - exact AI3.
  - exact W3.
  - exact ST3.
  - intros x. rewrite CtS, CrS. destruct (Nat.lt_ge_cases x (length (scons b0))) as [X|X].
    + rewrite (Hct x X). lia.
    + unfold ctime_of. rewrite nth_overflow by (rewrite Lct; exact X). lia.
  - intros B. rewrite BtS, CrS. destruct (Nat.eqb B l); [lia|]. pose proof (Bt3 B). lia.
  - intros x Hx Lx. change (base (stamp s3 l)) with b3 in Hx. rewrite Es in Hx.
    rewrite BtS, CtS, (Hct x Hx). apply Nat.eqb_neq in Lx. rewrite Lx. apply Bt3.
  - change (length (ctime s3) = length (scons b3)). rewrite Ect, Es. exact Lct.
  - change (length (blocks b3) <= length (bin s3))%nat. rewrite Lb3, Ebin, app_length, Lbi, <- El. cbn. lia.
  - change (length (blocks b3) <= length (upd_nth (btime s3) l (S (ctr s3))))%nat.
    rewrite upd_nth_length, Lb3, Ebt, app_length, Lbt, <- El. cbn. lia.
  - intros B h [u [Hu Eu]] Hb3. change (base (stamp s3 l)) with b3 in Hu, Eu. rewrite Ev in Hu.
    change (bin_of s3 B = Some h) in Hb3.
    assert (NBl : B <> l).
    { intros ->. unfold bin_of in Hb3. rewrite Ebin, app_nth2 in Hb3 by lia. rewrite Lbi, <- El, Nat.sub_diag in Hb3. discriminate. }
    assert (NBr : B <> r).
    { intros ->. unfold bin_of in Hb3. rewrite Ebin, app_nth2 in Hb3 by lia. rewrite Lbi, <- El, Er in Hb3.
      replace (S l - l)%nat with 1%nat in Hb3 by lia. discriminate. }
    destruct (Old u B Hu Eu NBl NBr) as [E0 NBb].
    assert (Inh0 : inhabited b0 B) by (exists u; auto).
    assert (HB0 : bin_of s0 B = Some h).
    { unfold bin_of in Hb3 |- *. rewrite Ebin, app_nth1 in Hb3; [exact Hb3|]. rewrite Lbi, <- El, <- E0. apply Blt0. exact Hu. }
    destruct (HG B Inh0) as [h' [Hh' [[NDh Oh] [Sh Ch]]]]. rewrite HB0 in Hh'. inversion Hh'. subst h'. clear Hh'.
    assert (Rsame : forall x, (x < length (scons b0))%nat -> rblk s0 x = B -> rblk (stamp s3 l) x = B).
    { intros x Hx Rx. rewrite (proj2 (LRS x)). unfold rblk in Rx. fold b0 in Rx.
      rewrite (Bo _ (proj2 (Ends0 x Hx))); congruence. }
    split; [split; [exact NDh|]|split].
    + apply (hordh_shift s0 (stamp s3 l) 0); [|exact Oh]. intros x k' Hx E'.
      destruct (Sh x Hx) as [X1 X2]. fold b0 in X1.
      assert (N' : skey (stamp s3 l) x <> None) by congruence.
      destruct (skey_some_inv _ x N') as [Ex' Tx'].
      destruct (Ends0 x X1) as [Hxl Hxr].
      rewrite (Rsame x X1 X2) in Ex'. rewrite (proj1 (LRS x)) in Ex', Tx'. rewrite BtS, CtS, (Hct x X1) in Tx'.
      assert (NLl : blk_of b3 (cl (con_of b0 x)) <> l).
      { intros E. rewrite E, Nat.eqb_refl in Tx'. lia. }
      assert (NRl : blk_of b3 (cr (con_of b0 x)) <> l).
      { pose proof (Rsame x X1 X2) as R. rewrite (proj2 (LRS x)) in R. congruence. }
      assert (SE : slack_val b3 x == slack_val b0 x).
      { rewrite (slack_Y' b3 x W3), (slack_Y' b0 x W0), Kcon, (HY _ Hxr NRl), (HY _ Hxl NLl). reflexivity. }
      assert (K' : k' = slack_val b3 x).
      { unfold skey in E'. destruct (_ || _); [discriminate|]. inversion E'. reflexivity. }
      exists (slack_val b0 x). split; [|rewrite K', SE; ring].
      unfold skey.
      assert (Y1 : Nat.eqb (lblk s0 x) (rblk s0 x) = false).
      { apply Nat.eqb_neq. rewrite X2. unfold lblk. fold b0. intros E. apply Ex'. rewrite (Bo _ Hxl); congruence. }
      assert (Y2 : Nat.ltb (ctime_of s0 x) (btime_of s0 (lblk s0 x)) = false).
      { apply Nat.ltb_ge. rewrite (Hct x X1). apply HT2. }
      rewrite Y1, Y2. reflexivity.
    + intros x Hx. destruct (Sh x Hx) as [X1 X2]. change (base (stamp s3 l)) with b3. rewrite Es. split; [exact X1|].
      apply Rsame; assumption.
    + intros x Hx Rx Lx. change (base (stamp s3 l)) with b3 in Hx. rewrite Es in Hx.
      rewrite (proj2 (LRS x)) in Rx. rewrite (proj1 (LRS x)) in Lx. destruct (Ends0 x Hx) as [Hxl Hxr].
      destruct (Old _ B Hxr Rx NBl NBr) as [R0 _].
      apply Ch; [exact Hx | exact R0|]. unfold lblk. fold b0. intros L0. apply Lx. rewrite (Bo _ Hxl); congruence.
Qed.
