(* Solver::refine of the static Solver model (Vpsc/StaticModel.v): what is PROVED towards `static_refine_returns_on_dag`.

   1. The closing scan of refine cannot throw from a state in which every slack is >= 0, and running out of `maxtries`
      is a normal return: static_refine returns (Ok, every slack >= 0 exactly) as soon as every refine pass on the
      trace returns with every slack >= 0 (`static_refine_returns_given_passes`, `static_solve_returns_given_passes`).
   2. The geometry of Blocks::mergeRight (`geo2`, `geo2_step`, `geo2_exit`): the invariant
          I2(N) :=   every constraint with both or neither end in the current block N has slack >= 0,
                     every in-constraint i of N has slack >= 0,
                     slack(i) + slack(o) >= 0 for every in-constraint i and out-constraint o of N
      is kept by one merge across a MOST VIOLATED out-constraint (both blocks at their optimum: the merged block sits
      between the two optima, StaticDag.merge_shift), and at loop exit it gives slack >= 0 for every constraint.
      I2 - not "nothing moves left" - is the invariant that holds on the states the model visits (Vpsc/StaticRefB.v bits
      1024/2048 are evaluated on every split of every DAG instance of ./check C01; the naive candidates, bits 4/8/256,
      are FALSE on reachable states: mergeLeft(l) inside Blocks::split can merge the not yet re-positioned right half r
      into l's block, which then moves right and violates out-constraints that only mergeRight repairs).
   3. Lifted to the loop of mergeRight (`mr_loop_all_sat`): if the root findMinOutConstraint delivers at every tested
      state is a most violated out-constraint of the current block (hypothesis `mr_roots_ok`, = bit 32 of StaticRefB),
      mergeRight returns with every slack >= 0.
   STILL OPEN (why `static_refine_returns_on_dag` is not closed): (a) the out-heap order invariant that discharges
   `mr_roots_ok` (out-heaps carry no usable time stamps: keys go stale only by becoming internal = -DBL_MAX, the rest of
   a heap shifts uniformly; needs the StaticHeapOrd machinery instantiated for `find_min_out`); (b) the mergeLeft half
   of Blocks::split, whose invariant is J = I2 without the in-constraint clause and must survive a merge with a block
   that is NOT at its optimum (r after `r->posn = b->posn`), so StaticGeom.merge_into_geom has to be generalised;
   (c) Block::split / findMinLM (forest facts; sign of the multiplier = direction in which the halves move). *)
From Adapt Require Import Num.Qaux Vpsc.VpscSpec Vpsc.VpscModel Vpsc.VpscInv Vpsc.VpscFrame Vpsc.VpscWalks Vpsc.VpscForest
  Vpsc.StaticModel Vpsc.StaticFrame Vpsc.StaticHeap Vpsc.StaticInv Vpsc.StaticInvB Vpsc.StaticHeapOrd Vpsc.StaticGeom
  Vpsc.StaticDag.
Local Open Scope Q_scope.

Definition all_sat0 (b : st) : Prop := forall c, (c < length (scons b))%nat -> 0 <= slack_val b c.

(* ------------------------------------------------------------------ 1. the closing scan and the try loop *)
Lemma sfinal_scan_all_sat s : all_sat0 (base s) -> sfinal_scan s = Ok s.
Proof.
  intros A. unfold sfinal_scan. destruct (find _ _) as [c|] eqn:F; [|reflexivity].
  apply find_some in F. destruct F as [Hin Hlt]. apply in_seq in Hin.
  apply Qltb_spec in Hlt. unfold sslack in Hlt.
  assert (Hc : (c < length (scons (base s)))%nat) by lia.
  pose proof (A c Hc) as P. unfold ZERO_UPPERBOUND in Hlt. exfalso.
  assert (Z : - (1 # 10000000000) < 0) by reflexivity. lra.
Qed.

Lemma static_refine_scan_all_sat s s1 :
  refine_loop MAXTRIES s = Ok s1 -> all_sat0 (base s1) ->
  static_refine s = Ok (note_scan s1) /\ all_sat0 (base (note_scan s1)).
Proof.
  intros H A. unfold static_refine. rewrite H. cbn [bind].
  assert (A' : all_sat0 (base (note_scan s1))) by (rewrite note_scan_base; exact A).
  split; [apply sfinal_scan_all_sat; exact A' | exact A'].
Qed.

(* every pass of refine's while loop, on the trace from s, returns with every slack >= 0 *)
Fixpoint passes_ok (tries : nat) (s : sst) : Prop :=
  match tries with
  | O => True
  | S t => match refine_pass s with
           | Ok (s', d) => all_sat0 (base s') /\ (if d then passes_ok t s' else True)
           | _ => False
           end
  end.

Lemma refine_loop_given_passes : forall tries s,
  all_sat0 (base s) -> passes_ok tries s ->
  exists s', refine_loop tries s = Ok s' /\ all_sat0 (base s').
Proof.
  induction tries as [|t IH]; intros s A P; cbn [refine_loop].
  - exists s. split; [reflexivity | exact A].
  - cbn [passes_ok] in P. destruct (refine_pass s) as [[s1 d]| |]; try contradiction.
    destruct P as [A1 P1]. cbn [bind fst snd]. destruct d.
    + exact (IH s1 A1 P1).
    + exists s1. split; [reflexivity | exact A1].
Qed.

Theorem static_refine_returns_given_passes s :
  all_sat0 (base s) -> passes_ok MAXTRIES s ->
  exists s', static_refine s = Ok s' /\ all_sat0 (base s').
Proof.
  intros A P. destruct (refine_loop_given_passes MAXTRIES s A P) as [s1 [H1 A1]].
  exists (note_scan s1). exact (static_refine_scan_all_sat s s1 H1 A1).
Qed.

(* Solver::solve on a DAG: satisfy returns unconditionally (static_no_throw_on_dag); refine under the pass hypothesis *)
Theorem static_solve_returns_given_passes vs cs :
  wf_vars vs -> wf_cons vs cs -> dag_orderb (init vs cs) = true ->
  (forall s1, static_satisfy (static_init vs cs) = Ok s1 -> passes_ok MAXTRIES s1) ->
  exists s', static_solve (static_init vs cs) = Ok s' /\
             forall c, (c < length cs)%nat -> 0 <= slack_val (base s') c.
Proof.
  intros W WC D HP. destruct (static_no_throw_on_dag vs cs W WC D) as [s1 [H1 A1]].
  destruct (static_satisfy_scan _ _ H1) as [_ [_ Kc]].
  assert (Ec : scons (base s1) = cs).
  { rewrite Kc. cbn [static_init base]. exact (proj2 (init_problem vs cs)). }
  assert (A : all_sat0 (base s1)) by (intros c Hc; rewrite Ec in Hc; exact (A1 c Hc)).
  destruct (static_refine_returns_given_passes s1 A (HP s1 H1)) as [s' [H2 A2]].
  exists s'. split.
  - unfold static_solve. rewrite H1. exact H2.
  - destruct (static_refine_scan _ _ H2) as [_ [_ Kc2]].
    intros c Hc. apply A2. rewrite Kc2, Ec. exact Hc.
Qed.

(* ------------------------------------------------------------------ 2. the geometry of one merge to the right *)
Record geo2 (b : st) (N : nat) : Prop := {
  q_rest : forall c, (c < length (scons b))%nat ->
             (blk_of b (cl (con_of b c)) = N <-> blk_of b (cr (con_of b c)) = N) -> 0 <= slack_val b c;
  q_in : forall i, (i < length (scons b))%nat ->
           blk_of b (cr (con_of b i)) = N -> blk_of b (cl (con_of b i)) <> N -> 0 <= slack_val b i;
  q_pair : forall i o, (i < length (scons b))%nat -> (o < length (scons b))%nat ->
           blk_of b (cr (con_of b i)) = N -> blk_of b (cl (con_of b i)) <> N ->
           blk_of b (cl (con_of b o)) = N -> blk_of b (cr (con_of b o)) <> N ->
           0 <= slack_val b i + slack_val b o }.

(* from an all-satisfied configuration, moving one block N rigidly to the RIGHT establishes I2 *)
Lemma geo2_exit b N :
  geo2 b N ->
  (forall o, (o < length (scons b))%nat -> blk_of b (cl (con_of b o)) = N -> blk_of b (cr (con_of b o)) <> N ->
     0 <= slack_val b o) ->
  all_sat0 b.
Proof.
  intros [G1 G2 G3] HO c Hc.
  destruct (Nat.eq_dec (blk_of b (cl (con_of b c))) N) as [El|El];
  destruct (Nat.eq_dec (blk_of b (cr (con_of b c))) N) as [Er|Er].
  - apply G1; [exact Hc | tauto].
  - apply HO; assumption.
  - apply G2; assumption.
  - apply G1; [exact Hc | tauto].
Qed.

(* StaticDag.merge_shift for a merge distance given up to == (mergeRight computes left+gap-right, mergeLeft
   right-left-gap) *)
Lemma merge_shift_d b c (sw : bool) d :
  book b -> wf_vars (svars b) -> all_blk_ok b -> (c < length (scons b))%nat ->
  let r := blk_of b (cr (con_of b c)) in
  let l := blk_of b (cl (con_of b c)) in
  l <> r -> slack_val b c < 0 ->
  d == (if sw then - mdist b c else mdist b c) ->
  let b' := merge_into b (if sw then l else r) (if sw then r else l) c d in
  exists rr rl, 0 <= rr /\ rl <= 0 /\ rr - rl == - slack_val b c /\
    (forall u, (u < length (svars b))%nat ->
       (blk_of b u = r -> Yof b' u == Yof b u + rr) /\
       (blk_of b u = l -> Yof b' u == Yof b u + rl) /\
       (blk_of b u <> r -> blk_of b u <> l -> Yof b' u == Yof b u)) /\
    all_blk_ok b'.
Proof.
  intros BK W OK Hc r l Hne Hs Hd. cbv zeta.
  destruct (con_ends_lt _ _ BK Hc) as [Hl Hr].
  pose proof (slack_Y' b c W) as SY. unfold Yof in SY. fold r l in SY.
  set (Yr := bscale (block_of b r) * posn (block_of b r)) in *.
  set (Yl := bscale (block_of b l) * posn (block_of b l)) in *.
  assert (Ed : slack_val b c == Yr - Yl + mdist b c) by (rewrite SY; unfold mdist; ring).
  destruct sw.
  - destruct (merge_into_geom b l r c d _ _ BK W OK Hl Hr eq_refl eq_refl Hne) as [P' [_ [M2 [MY MOK]]]].
    cbv zeta in *. fold l r in M2, MY. fold Yl Yr in M2.
    assert (B : Yr - d <= P' <= Yl) by (apply M2; lra).
    exists (P' + d - Yr), (P' - Yl). split; [lra|]. split; [lra|]. split; [rewrite Ed, Hd; ring|]. split; [|exact MOK].
    intros u Hu. destruct (MY u Hu) as [Y1 [Y2 Y3]]. split; [|split].
    + intros E. rewrite (Y2 E). unfold Yof. rewrite E. fold Yr. ring.
    + intros E. rewrite (Y1 E). unfold Yof. rewrite E. fold Yl. ring.
    + intros E1 E2. apply Y3; assumption.
  - assert (Hne' : r <> l) by congruence.
    destruct (merge_into_geom b r l c d _ _ BK W OK Hr Hl eq_refl eq_refl Hne') as [P' [M1 [_ [MY MOK]]]].
    cbv zeta in *. fold l r in M1, MY. fold Yl Yr in M1.
    assert (B : Yr <= P' <= Yl - d) by (apply M1; lra).
    exists (P' - Yr), (P' + d - Yl). split; [lra|]. split; [lra|]. split; [rewrite Ed, Hd; ring|]. split; [|exact MOK].
    intros u Hu. destruct (MY u Hu) as [Y1 [Y2 Y3]]. split; [|split].
    + intros E. rewrite (Y1 E). unfold Yof. rewrite E. fold Yr. ring.
    + intros E. rewrite (Y2 E). unfold Yof. rewrite E. fold Yl. ring.
    + intros E1 E2. apply Y3; assumption.
Qed.

Lemma geo2_step b N c0 (sw : bool) d :
  book b -> act_inv b -> wf_vars (svars b) -> all_blk_ok b -> geo2 b N ->
  (c0 < length (scons b))%nat ->
  blk_of b (cl (con_of b c0)) = N -> blk_of b (cr (con_of b c0)) <> N -> slack_val b c0 < 0 ->
  (forall o, (o < length (scons b))%nat -> blk_of b (cl (con_of b o)) = N -> blk_of b (cr (con_of b o)) <> N ->
     slack_val b c0 <= slack_val b o \/ 0 <= slack_val b o) ->
  let Z := blk_of b (cr (con_of b c0)) in
  d == (if sw then - mdist b c0 else mdist b c0) ->
  let b' := merge_into b (if sw then N else Z) (if sw then Z else N) c0 d in
  geo2 b' (if sw then N else Z) /\ all_blk_ok b' /\ book b' /\ act_inv b' /\ wf_vars (svars b') /\ scons b' = scons b /\ svars b' = svars b.
Proof.
  intros BK AI W OK [G1 G2 G3] Hc0 El0 Nr0 Hs0 RM Z Hd b'.
  assert (Erl : blk_of b (cl (con_of b c0)) <> blk_of b (cr (con_of b c0))) by (rewrite El0; congruence).
  destruct (merge_shift_d b c0 sw d BK W OK Hc0 Erl Hs0 Hd) as [rr [rl [Prr [Prl [Ed [MY MOK]]]]]].
  cbv zeta in MY, MOK. rewrite El0 in MY, MOK. fold Z in MY, MOK. fold b' in MY, MOK.
  set (t := if sw then N else Z) in *. set (a := if sw then Z else N) in *.
  destruct (con_ends_lt _ _ BK Hc0) as [Hl0 Hr0].
  assert (NZ : N <> Z) by (unfold Z; congruence).
  assert (MF : merge_facts b t a c0 b').
  { unfold b', t, a. destruct sw.
    - apply (merge_into_facts b N Z c0 _ (cl (con_of b c0)) (cr (con_of b c0)) BK); auto.
    - apply (merge_into_facts b Z N c0 _ (cr (con_of b c0)) (cl (con_of b c0)) BK); auto. }
  assert (Es : scons b' = scons b) by exact (mg_scons _ _ _ _ _ MF).
  assert (Ev : svars b' = svars b) by exact (mg_svars _ _ _ _ _ MF).
  assert (W' : wf_vars (svars b')) by (rewrite Ev; exact W).
  assert (Kcon : forall c, con_of b' c = con_of b c) by (intros c; unfold con_of; rewrite Es; reflexivity).
  (* classification of a variable: in N (shift rl), in Z (shift rr), elsewhere (no shift) *)
  assert (CL : forall u, (u < length (svars b))%nat ->
             (blk_of b u = N /\ blk_of b' u = t /\ Yof b' u == Yof b u + rl) \/
             (blk_of b u = Z /\ blk_of b' u = t /\ Yof b' u == Yof b u + rr) \/
             (blk_of b u <> N /\ blk_of b u <> Z /\ blk_of b' u <> t /\ Yof b' u == Yof b u)).
  { intros u Hu. destruct (MY u Hu) as [Y1 [Y2 Y3]]. destruct (mg_blk _ _ _ _ _ MF u Hu) as [M1 M2].
    destruct (Nat.eq_dec (blk_of b u) N) as [E|E]; [left|right; destruct (Nat.eq_dec (blk_of b u) Z) as [E2|E2]; [left|right]].
    - split; [exact E|]. split; [|exact (Y2 E)]. unfold t, a in *. destruct sw; [rewrite M2; congruence | apply M1; exact E].
    - split; [exact E2|]. split; [|exact (Y1 E2)]. unfold t, a in *. destruct sw; [apply M1; exact E2 | rewrite M2; congruence].
    - split; [exact E|]. split; [exact E2|]. split; [|exact (Y3 E2 E)].
      unfold t, a in *. destruct sw; rewrite M2 by congruence; congruence. }
  assert (SY : forall c, slack_val b c == Yof b (cr (con_of b c)) - gap (con_of b c) - Yof b (cl (con_of b c)))
    by (intros c; apply slack_Y'; exact W).
  assert (SY' : forall c, slack_val b' c == Yof b' (cr (con_of b c)) - gap (con_of b c) - Yof b' (cl (con_of b c))).
  { intros c. rewrite (slack_Y' b' c W'), Kcon. reflexivity. }
  assert (Ends : forall c, (c < length (scons b))%nat ->
            (cl (con_of b c) < length (svars b))%nat /\ (cr (con_of b c) < length (svars b))%nat)
    by (intros c Hc; exact (con_ends_lt _ _ BK Hc)).
  pose proof (SY c0) as S0.
  assert (BK' : book b' /\ act_inv b').
  { unfold b', t, a. destruct sw.
    - apply (merge_into_preserves b N Z c0 _ (cl (con_of b c0)) (cr (con_of b c0)) BK AI); auto.
      left. split; [exact El0|]. split; [reflexivity|]. rewrite Hd. unfold mdist. ring.
    - apply (merge_into_preserves b Z N c0 _ (cr (con_of b c0)) (cl (con_of b c0)) BK AI); auto.
      right. split; [reflexivity|]. split; [exact El0|]. rewrite Hd. unfold mdist. ring. }
  split; [|split; [exact MOK|split; [exact (proj1 BK')|split; [exact (proj2 BK')|split; [exact W'|split; [exact Es|exact Ev]]]]]].
  constructor.
  - (* both or neither end in the merged block *)
    intros c Hc Iff. rewrite Es in Hc. rewrite !Kcon in Iff. destruct (Ends c Hc) as [Hcl Hcr].
    rewrite (SY' c). pose proof (SY c) as Sc.
    destruct (CL _ Hcl) as [[L1 [L2 L3]]|[[L1 [L2 L3]]|[L1 [L1' [L2 L3]]]]];
    destruct (CL _ Hcr) as [[R1 [R2 R3]]|[[R1 [R2 R3]]|[R1 [R1' [R2 R3]]]]];
    rewrite L3, R3.
    + assert (X : 0 <= slack_val b c) by (apply G1; [exact Hc | tauto]). lra.
    + assert (Ne : blk_of b (cr (con_of b c)) <> N) by congruence.
      destruct (RM c Hc L1 Ne) as [X|X]; lra.
    + exfalso. apply R2. apply Iff. exact L2.
    + assert (Ne : blk_of b (cl (con_of b c)) <> N) by congruence.
      pose proof (G3 c c0 Hc Hc0 R1 Ne El0 Nr0) as X. lra.
    + assert (X : 0 <= slack_val b c) by (apply G1; [exact Hc | split; intros; congruence]). lra.
    + exfalso. apply R2. apply Iff. exact L2.
    + exfalso. apply L2. apply Iff. exact R2.
    + exfalso. apply L2. apply Iff. exact R2.
    + assert (X : 0 <= slack_val b c) by (apply G1; [exact Hc | split; intros; contradiction]). lra.
  - (* in-constraints of the merged block *)
    intros i Hi Er Nl. rewrite Es in Hi. rewrite !Kcon in Er, Nl. destruct (Ends i Hi) as [Hcl Hcr].
    rewrite (SY' i). pose proof (SY i) as Si.
    destruct (CL _ Hcl) as [[L1 [L2 L3]]|[[L1 [L2 L3]]|[L1 [L1' [L2 L3]]]]]; try contradiction.
    destruct (CL _ Hcr) as [[R1 [R2 R3]]|[[R1 [R2 R3]]|[R1 [R1' [R2 R3]]]]]; try contradiction;
    rewrite L3, R3.
    + pose proof (G3 i c0 Hi Hc0 R1 L1 El0 Nr0) as X. lra.
    + assert (X : 0 <= slack_val b i) by (apply G1; [exact Hi | split; intros; congruence]). lra.
  - (* pairs *)
    intros i o Hi Ho Eri Nli Elo Nro. rewrite Es in Hi, Ho. rewrite !Kcon in Eri, Nli, Elo, Nro.
    destruct (Ends i Hi) as [Hil Hir]. destruct (Ends o Ho) as [Hol Hor].
    rewrite (SY' i), (SY' o). pose proof (SY i) as Si. pose proof (SY o) as So.
    destruct (CL _ Hil) as [[A1 [A2 A3]]|[[A1 [A2 A3]]|[A1 [A1' [A2 A3]]]]]; try contradiction.
    destruct (CL _ Hor) as [[B1 [B2 B3]]|[[B1 [B2 B3]]|[B1 [B1' [B2 B3]]]]]; try contradiction.
    destruct (CL _ Hir) as [[R1 [R2 R3]]|[[R1 [R2 R3]]|[R1 [R1' [R2 R3]]]]]; try contradiction;
    destruct (CL _ Hol) as [[L1 [L2 L3]]|[[L1 [L2 L3]]|[L1 [L1' [L2 L3]]]]]; try contradiction;
    rewrite A3, B3, R3, L3.
    + pose proof (G3 i o Hi Ho R1 A1 L1 B1) as X. lra.
    + pose proof (G3 i c0 Hi Hc0 R1 A1 El0 Nr0) as X.
      assert (X2 : 0 <= slack_val b o) by (apply G1; [exact Ho | split; intros; congruence]). lra.
    + assert (X : 0 <= slack_val b i) by (apply G1; [exact Hi | split; intros; congruence]).
      destruct (RM o Ho L1 B1) as [X2|X2]; lra.
    + assert (X : 0 <= slack_val b i) by (apply G1; [exact Hi | split; intros; congruence]).
      assert (X2 : 0 <= slack_val b o) by (apply G1; [exact Ho | split; intros; congruence]). lra.
Qed.

(* ------------------------------------------------------------------ 3. the loop of Blocks::mergeRight *)
(* what one iteration does to the base state, exactly *)
Lemma mr_body_exact s l c s' l' c' :
  mr_body s l c = Ok (s', l', c') ->
  let b := base s in
  let r := blk_of b (cr (con_of b c)) in
  let sw := Nat.ltb (length (bvars (block_of b r))) (length (bvars (block_of b l))) in
  let dist := off_of b (cl (con_of b c)) + gap (con_of b c) - off_of b (cr (con_of b c)) in
  base s' = merge_into b (if sw then r else l) (if sw then l else r) c (if sw then - dist else dist) /\
  l' = (if sw then r else l).
Proof.
  unfold mr_body. intros H.
  apply bind_ok in H. destruct H as [s1 [H1 H]].
  apply delete_min_base in H1.
  apply bind_ok in H. destruct H as [s5 [H5 H]].
  apply merge_heaps_base in H5. cbn [base set_base] in H5.
  apply bind_ok in H. destruct H as [[s9 c9] [H9 H]].
  apply find_min_out_base in H9.
  inversion H. subst s' l' c'. cbn [fst]. cbv zeta.
  unfold nvars, rblk in *. rewrite !base_set_up_heap in *. rewrite !H1 in *.
  split; [|reflexivity]. rewrite H9, H5. reflexivity.
Qed.

Definition out_root_ok (s : sst) (l : nat) (c : option nat) : Prop :=
  match c with
  | Some c0 => (c0 < length (scons (base s)))%nat /\ lblk s c0 = l /\ rblk s c0 <> l /\
               forall o, (o < length (scons (base s)))%nat -> lblk s o = l -> rblk s o <> l ->
                         sslack s c0 <= sslack s o \/ 0 <= sslack s o
  | None => forall o, (o < length (scons (base s)))%nat -> lblk s o = l -> rblk s o <> l -> 0 <= sslack s o
  end.

(* bit 32 of Vpsc/StaticRefB.v as a proposition: at every state the loop tests, the root findMinOutConstraint delivered
   is an out-constraint of the current block and no out-constraint of that block is more violated *)
Fixpoint mr_roots_ok (fuel : nat) (s : sst) (l : nat) (c : option nat) : Prop :=
  match fuel with
  | O => True
  | S f =>
      out_root_ok s l c /\
      match c with
      | None => True
      | Some c0 =>
          let s0 := snote_slack TIE_EPS s c0 0 in
          if Qltb (sslack s0 c0) 0 then
            match mr_body s0 l c0 with
            | Ok (s', l', c') => mr_roots_ok f s' l' c'
            | _ => True
            end
          else True
      end
  end.

Record MRI (b : st) (l : nat) : Prop := {
  r_bk : book b;
  r_ai : act_inv b;
  r_wf : wf_vars (svars b);
  r_ok : all_blk_ok b;
  r_geo : geo2 b l }.

Lemma neg_of_Qltb0 s c : Qltb (sslack s c) 0 = true -> slack_val (base s) c < 0.
Proof. intros Q. apply Qltb_spec in Q. exact Q. Qed.
Lemma nonneg_of_Qltb0 s c : Qltb (sslack s c) 0 = false -> 0 <= slack_val (base s) c.
Proof. intros Q. apply Qltb_false in Q. exact Q. Qed.

Theorem mr_loop_all_sat : forall fuel s l c s',
  MRI (base s) l -> mr_roots_ok fuel s l c -> mr_loop fuel s l c = Ok s' ->
  all_sat0 (base s') /\ book (base s') /\ act_inv (base s') /\ all_blk_ok (base s') /\
  scons (base s') = scons (base s) /\ svars (base s') = svars (base s).
Proof.
  induction fuel as [|f IH]; intros s l c s' I R H; [discriminate|].
  cbn [mr_loop] in H. cbn [mr_roots_ok] in R. destruct R as [RO R].
  destruct I as [BK AI W OK G].
  destruct c as [c0|].
  - set (s0 := snote_slack TIE_EPS s c0 0) in *.
    assert (E0 : base s0 = base s) by apply base_snote_slack.
    destruct RO as [Hc0 [El0 [Nr0 RM]]]. unfold lblk, rblk, sslack in El0, Nr0, RM.
    destruct (Qltb (sslack s0 c0) 0) eqn:Q.
    + apply bind_ok in H. destruct H as [[[s1 l1] c1] [H1 H2]]. rewrite H1 in R.
      destruct (mr_body_exact _ _ _ _ _ _ H1) as [Eb El]. cbv zeta in Eb, El. rewrite E0 in Eb, El.
      apply neg_of_Qltb0 in Q. rewrite E0 in Q.
      set (b := base s) in *.
      set (sw := Nat.ltb (length (bvars (block_of b (blk_of b (cr (con_of b c0)))))) (length (bvars (block_of b l)))) in *.
      set (dist := off_of b (cl (con_of b c0)) + gap (con_of b c0) - off_of b (cr (con_of b c0))) in *.
      assert (Hd : (if sw then - dist else dist) == (if negb sw then - mdist b c0 else mdist b c0)).
      { unfold dist, mdist. destruct sw; cbn [negb]; ring. }
      destruct (geo2_step b l c0 (negb sw) _ BK AI W OK G Hc0 El0 Nr0 Q RM Hd) as [G' [OK' [BK' [AI' [W' [Es Ev]]]]]].
      assert (Em : base s1 = merge_into b (if negb sw then l else blk_of b (cr (con_of b c0)))
                                (if negb sw then blk_of b (cr (con_of b c0)) else l) c0 (if sw then - dist else dist)).
      { rewrite Eb. destruct sw; reflexivity. }
      assert (El' : l1 = if negb sw then l else blk_of b (cr (con_of b c0))) by (rewrite El; destruct sw; reflexivity).
      rewrite <- Em in G', OK', BK', AI', W', Es, Ev. rewrite <- El' in G'.
      destruct (IH s1 l1 c1 s' (Build_MRI _ _ BK' AI' W' OK' G') R H2) as [A [B1 [B2 [B3 [B4 B5]]]]].
      split; [exact A|]. split; [exact B1|]. split; [exact B2|]. split; [exact B3|]. split; congruence.
    + inversion H. subst s'. rewrite E0.
      apply nonneg_of_Qltb0 in Q. rewrite E0 in Q.
      split; [|auto]. apply (geo2_exit _ l G). intros o Ho Lo Ro. destruct (RM o Ho Lo Ro) as [X|X]; lra.
  - inversion H. subst s'. split; [|auto]. apply (geo2_exit _ l G). exact RO.
Qed.

(* Blocks::mergeRight as a whole: setUpOutConstraints, findMinOutConstraint, the loop *)
Theorem merge_right_all_sat s l s' :
  MRI (base s) l ->
  (forall s1 c, find_min_out (set_up_heap false s l) l = Ok (s1, c) -> mr_roots_ok (loop_fuel s) s1 l c) ->
  merge_right s l = Ok s' ->
  all_sat0 (base s') /\ book (base s') /\ act_inv (base s') /\ all_blk_ok (base s') /\
  scons (base s') = scons (base s) /\ svars (base s') = svars (base s).
Proof.
  intros I R H. unfold merge_right in H. apply bind_ok in H. destruct H as [[s1 c1] [H1 H2]]. cbn [fst snd] in H2.
  pose proof (find_min_out_base _ _ _ _ H1) as E1. rewrite base_set_up_heap in E1.
  assert (I1 : MRI (base s1) l) by (rewrite E1; exact I).
  destruct (mr_loop_all_sat _ _ _ _ _ I1 (R s1 c1 H1) H2) as [A [B1 [B2 [B3 [B4 B5]]]]].
  rewrite E1 in B4, B5. auto 6.
Qed.

(* how I2 is established when Blocks::split reaches mergeRight(r):
   (i)  r was not merged by mergeLeft(l): every constraint holds and r is moved rigidly to the right (to its optimum);
   (ii) r was merged into l's block M: mergeLeft's exit gives the in-constraints, its loop invariant J the rest. *)
Lemma geo2_entry_move b b' N rho :
  book b -> wf_vars (svars b) -> all_sat0 b ->
  scons b' = scons b -> svars b' = svars b ->
  (forall u, (u < length (svars b))%nat -> blk_of b' u = blk_of b u) ->
  0 <= rho ->
  (forall u, (u < length (svars b))%nat -> blk_of b u = N -> Yof b' u == Yof b u + rho) ->
  (forall u, (u < length (svars b))%nat -> blk_of b u <> N -> Yof b' u == Yof b u) ->
  geo2 b' N.
Proof.
  intros BK W A Es Ev EB Hr Y1 Y2.
  assert (W' : wf_vars (svars b')) by (rewrite Ev; exact W).
  assert (Kcon : forall c, con_of b' c = con_of b c) by (intros c; unfold con_of; rewrite Es; reflexivity).
  assert (SY : forall c, slack_val b c == Yof b (cr (con_of b c)) - gap (con_of b c) - Yof b (cl (con_of b c)))
    by (intros c; apply slack_Y'; exact W).
  assert (SY' : forall c, slack_val b' c == Yof b' (cr (con_of b c)) - gap (con_of b c) - Yof b' (cl (con_of b c))).
  { intros c. rewrite (slack_Y' b' c W'), Kcon. reflexivity. }
  assert (Ends : forall c, (c < length (scons b))%nat ->
            (cl (con_of b c) < length (svars b))%nat /\ (cr (con_of b c) < length (svars b))%nat)
    by (intros c Hc; exact (con_ends_lt _ _ BK Hc)).
  constructor.
  - intros c Hc Iff. rewrite Es in Hc. rewrite !Kcon in Iff. destruct (Ends c Hc) as [Hl Hr'].
    rewrite !EB in Iff by assumption. rewrite (SY' c). pose proof (SY c) as Sc. pose proof (A c Hc) as Ac.
    destruct (Nat.eq_dec (blk_of b (cl (con_of b c))) N) as [E|E].
    + rewrite (Y1 _ Hl E), (Y1 _ Hr' (proj1 Iff E)). lra.
    + assert (E2 : blk_of b (cr (con_of b c)) <> N) by tauto.
      rewrite (Y2 _ Hl E), (Y2 _ Hr' E2). lra.
  - intros i Hi Er Nl. rewrite Es in Hi. rewrite !Kcon in Er, Nl. destruct (Ends i Hi) as [Hl Hr'].
    rewrite EB in Er, Nl by assumption. rewrite (SY' i). pose proof (SY i) as Si. pose proof (A i Hi) as Ai.
    rewrite (Y1 _ Hr' Er), (Y2 _ Hl Nl). lra.
  - intros i o Hi Ho Eri Nli Elo Nro. rewrite Es in Hi, Ho. rewrite !Kcon in Eri, Nli, Elo, Nro.
    destruct (Ends i Hi) as [Hil Hir]. destruct (Ends o Ho) as [Hol Hor].
    rewrite EB in Eri, Nli, Elo, Nro by assumption.
    rewrite (SY' i), (SY' o). pose proof (SY i) as Si. pose proof (SY o) as So.
    pose proof (A i Hi) as Ai. pose proof (A o Ho) as Ao.
    rewrite (Y1 _ Hir Eri), (Y2 _ Hil Nli), (Y1 _ Hol Elo), (Y2 _ Hor Nro). lra.
Qed.

(* the pair invariant J of mergeLeft's loop inside split (bit 1024 of StaticRefB) *)
Record geoJ (b : st) (N : nat) : Prop := {
  j_rest : forall c, (c < length (scons b))%nat ->
             (blk_of b (cl (con_of b c)) = N <-> blk_of b (cr (con_of b c)) = N) -> 0 <= slack_val b c;
  j_pair : forall i o, (i < length (scons b))%nat -> (o < length (scons b))%nat ->
           blk_of b (cr (con_of b i)) = N -> blk_of b (cl (con_of b i)) <> N ->
           blk_of b (cl (con_of b o)) = N -> blk_of b (cr (con_of b o)) <> N ->
           0 <= slack_val b i + slack_val b o }.
Lemma geo2_entry_merged b N :
  geoJ b N ->
  (forall i, (i < length (scons b))%nat -> blk_of b (cr (con_of b i)) = N -> blk_of b (cl (con_of b i)) <> N ->
     0 <= slack_val b i) ->
  geo2 b N.
Proof. intros [J1 J2] HI. constructor; assumption. Qed.

(* ------------------------------------------------------------------ boolean forms (for non-vacuity by computation) *)
Lemma all_satb_spec s : all_satb s = true -> all_sat0 (base s).
Proof.
  unfold all_satb. intros H c Hc. rewrite forallb_forall in H.
  assert (Hin : In c (seq 0 (length (scons (base s))))) by (apply in_seq; lia).
  specialize (H c Hin). apply Qleb_spec in H. exact H.
Qed.
Fixpoint passes_okb (tries : nat) (s : sst) : bool :=
  match tries with
  | O => true
  | S t => match refine_pass s with
           | Ok (s', d) => all_satb s' && (if d then passes_okb t s' else true)
           | _ => false
           end
  end.
Lemma passes_okb_spec : forall tries s, passes_okb tries s = true -> passes_ok tries s.
Proof.
  induction tries as [|t IH]; intros s H; cbn [passes_ok passes_okb] in *; [exact I|].
  destruct (refine_pass s) as [[s' d]| |]; try discriminate.
  apply andb_prop in H. destruct H as [H1 H2]. split; [apply all_satb_spec; exact H1|].
  destruct d; [apply IH; exact H2 | exact I].
Qed.

(* a DAG on which refine really splits (instance 284 of the probe family: one split, then a fixpoint) *)
Definition rx_vs : list var := [mkvar 3 2 1; mkvar 4 1 1; mkvar (5 # 2) 1 1].
Definition rx_cs : list con := [mkcon 1 0 0 false; mkcon 1 2 (-1) false; mkcon 1 2 (-2) false].

Definition rx_passes : bool :=
  match static_satisfy (static_init rx_vs rx_cs) with Ok s => passes_okb MAXTRIES s | _ => false end.
Definition rx_splits : bool :=
  match static_satisfy (static_init rx_vs rx_cs) with
  | Ok s => match refine_pass s with Ok (_, true) => true | _ => false end
  | _ => false
  end.
Lemma rx_passes_true : rx_passes = true. Proof. vm_compute. reflexivity. Qed.
Lemma rx_splits_true : rx_splits = true. Proof. vm_compute. reflexivity. Qed.

Example static_solve_returns_given_passes_example :
  wf_vars rx_vs /\ wf_cons rx_vs rx_cs /\ dag_orderb (init rx_vs rx_cs) = true /\
  (forall s1, static_satisfy (static_init rx_vs rx_cs) = Ok s1 -> passes_ok MAXTRIES s1) /\
  (exists s1 s2, static_satisfy (static_init rx_vs rx_cs) = Ok s1 /\ refine_pass s1 = Ok (s2, true)).
Proof.
  split; [|split; [|split; [|split]]].
  - intros i Hi. unfold rx_vs in *. cbn [length] in Hi.
    destruct i as [|[|[|i]]]; try lia; cbn; split; reflexivity.
  - intros c [<-|[<-|[<-|[]]]]; cbn; lia.
  - vm_compute. reflexivity.
  - intros s1 H. apply passes_okb_spec. pose proof rx_passes_true as P. unfold rx_passes in P. rewrite H in P. exact P.
  - pose proof rx_splits_true as P. unfold rx_splits in P.
    destruct (static_satisfy (static_init rx_vs rx_cs)) as [s| |]; try discriminate.
    exists s. destruct (refine_pass s) as [[s2 [|]]| |]; try discriminate.
    exists s2. split; reflexivity.
Qed.
