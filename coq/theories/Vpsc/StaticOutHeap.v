(* Out-heap order for Block::findMinOutConstraint inside Blocks::mergeRight (Vpsc/StaticModel.v): discharges the
   hypothesis `mr_roots_ok` of StaticRefine.merge_right_all_sat.

   mergeRight(l) rebuilds the out-heap of every block it touches (setUpOutConstraints), which stamps every
   out-constraint of the block with the current blockTimeCtr; mergeRight never advances the counter and never stamps a
   block, so every element of the heaps it works with is FRESH (constraint stamp = counter >= every block stamp) and its
   key in CompareConstraints is -DBL_MAX exactly when the constraint is internal (both ends in one block).  Internal
   elements are skipped by findMinOutConstraint; the other keys of one heap all shift by the same amount in a merge
   (their left ends move rigidly with the block, their right ends stay).  So the ordering relation Rdom of StaticDag.v
   - "a node whose key is current dominates every non-internal descendant" - is kept, with the snapshot argument of
   Rdom irrelevant (no element is ever stale by time stamp): the root findMinOutConstraint delivers is a most violated
   out-constraint of the current block at every state mergeRight's loop tests. *)
From Adapt Require Import Num.Qaux Vpsc.VpscSpec Vpsc.VpscModel Vpsc.VpscInv Vpsc.VpscFrame Vpsc.VpscWalks Vpsc.VpscForest
  Vpsc.StaticModel Vpsc.StaticFrame Vpsc.StaticHeap Vpsc.StaticInv Vpsc.StaticInvB Vpsc.StaticHeapOrd Vpsc.StaticGeom
  Vpsc.StaticDag Vpsc.StaticRefine.
From Coq Require Import Permutation.
Local Open Scope Q_scope.

(* ------------------------------------------------------------------ setUpInConstraints / setUpOutConstraints, any block *)
Lemma fold_left_flat_map {X A B} (f : X -> B -> X) (g : A -> list B) : forall l a,
  fold_left (fun acc v => fold_left f (g v) acc) l a = fold_left f (flat_map g l) a.
Proof.
  induction l as [|v t IH]; intros a; cbn [fold_left flat_map]; [reflexivity|].
  rewrite fold_left_app. apply IH.
Qed.

Definition endblk (inn : bool) (s : sst) (x : nat) : nat := if inn then lblk s x else rblk s x.

Lemma heap_add_fold_ord Yb b0 inn : forall L s h s' h',
  fold_left (heap_add b0 inn) L (s, h) = (s', h') ->
  hordh (Rdom s Yb) h -> (forall x, In x (heap_elems h) -> ctime_of s x = ctr s) ->
  (forall x, In x L -> (x < length (ctime s))%nat) ->
  base s' = base s /\ btime s' = btime s /\ ctr s' = ctr s /\ heaps_eq s s' /\ length (ctime s') = length (ctime s) /\
  (forall x, (~ In x L -> ctime_of s' x = ctime_of s x) /\ (In x L -> ctime_of s' x = ctr s)) /\
  hordh (Rdom s' Yb) h' /\
  (forall x, In x (heap_elems h') <-> (In x (heap_elems h) \/ (In x L /\ endblk inn s x <> b0))).
Proof.
  induction L as [|v t IH]; intros s h s' h' H HO HC HL; cbn [fold_left] in H.
  - inversion H. subst.
    split; [reflexivity|]. split; [reflexivity|]. split; [reflexivity|]. split; [apply heaps_eq_refl|]. split; [reflexivity|].
    split; [intros x; split; [reflexivity | intros []]|]. split; [exact HO|].
    intros x. split; [auto | intros [X|[[] _]]; exact X].
  - unfold heap_add at 2 in H.
    set (s0 := set_ctime_of s v (ctr s)) in *.
    assert (L0 : length (ctime s0) = length (ctime s)) by (cbn; apply upd_nth_length).
    assert (Lv : Nat.ltb v (length (ctime s)) = true) by (apply Nat.ltb_lt, HL; left; reflexivity).
    assert (E0 : forall x, ctime_of s0 x = if Nat.eqb x v then ctr s else ctime_of s x).
    { intros x. unfold s0. rewrite ctime_of_set_ctime_of, Lv, andb_true_r. reflexivity. }
    assert (EH : forall x, In x (heap_elems h) -> ctime_of s0 x = ctime_of s x).
    { intros x Hx. rewrite E0. destruct (Nat.eqb x v) eqn:EV; [|reflexivity]. symmetry. apply HC. exact Hx. }
    assert (HO0 : hordh (Rdom s0 Yb) h) by (apply (hordh_same_keys s); auto).
    assert (EB0 : forall x, endblk inn s0 x = endblk inn s x) by (intros x; destruct inn; reflexivity).
    assert (Cnd : (if inn then negb (Nat.eqb (lblk s0 v) b0) else negb (Nat.eqb (rblk s0 v) b0)) =
                  negb (Nat.eqb (endblk inn s v) b0)) by (destruct inn; reflexivity).
    rewrite Cnd in H.
    destruct (negb (Nat.eqb (endblk inn s v) b0)) eqn:EQ.
    + destruct (s_insert_spec s0 Yb h v HO0) as [C1 [C2 [C3 [C4 C5]]]]. cbv zeta in *.
      destruct (s_insert s0 h v) as [s1 h1] eqn:E. cbn [fst snd] in *.
      destruct C1 as [B1 [B2 B3]].
      assert (L1 : length (ctime s1) = length (ctime s)) by (rewrite B2; exact L0).
      assert (E1 : forall x, ctime_of s1 x = ctime_of s0 x) by (intros x; unfold ctime_of; rewrite B2; reflexivity).
      assert (X5 : forall x, In x (heap_elems h1) <-> x = v \/ In x (heap_elems h)).
      { intros x. split; intros Y; [apply (Permutation_in _ C5) in Y | apply (Permutation_in _ (Permutation_sym C5))]; cbn [In] in *; intuition. }
      destruct (IH _ _ _ _ H C4) as [A1 [A2 [A3 [A4 [A4' [A5 [A6 A8]]]]]]].
      * intros x Hx. rewrite E1, C2. change (ctr s0) with (ctr s). apply X5 in Hx. destruct Hx as [->|Hx].
        -- rewrite E0, Nat.eqb_refl. reflexivity.
        -- rewrite (EH x Hx). apply HC. exact Hx.
      * intros w Hw. rewrite L1. apply HL. right. exact Hw.
      * split; [rewrite A1, B1; reflexivity|]. split; [rewrite A2, B3; reflexivity|]. split; [rewrite A3, C2; reflexivity|].
        split; [apply (heaps_eq_trans _ s1); [|exact A4]; destruct C3 as [X Y]; split; [exact X | exact Y]|].
        split; [congruence|]. split; [|split; [exact A6|]].
        -- intros x. destruct (A5 x) as [P1 P2]. split.
           ++ intros Hx. rewrite P1 by (intros Y; apply Hx; right; exact Y). rewrite E1, E0.
              destruct (Nat.eqb x v) eqn:EV; [apply Nat.eqb_eq in EV; subst x; exfalso; apply Hx; left; reflexivity | reflexivity].
           ++ intros Hx. destruct (in_dec Nat.eq_dec x t) as [Ht|Ht].
              ** rewrite (P2 Ht). rewrite C2. reflexivity.
              ** destruct Hx as [<-|Hx]; [|contradiction]. rewrite (P1 Ht), E1, E0, Nat.eqb_refl. reflexivity.
        -- intros x. rewrite A8.
           assert (LB1 : endblk inn s1 x = endblk inn s x).
           { unfold endblk, lblk, rblk. rewrite B1. reflexivity. }
           rewrite LB1, X5. cbn [In]. apply negb_true_iff, Nat.eqb_neq in EQ.
           split; [intros [[->|Y]|[Y Z]]; auto | intros [Y|[[<-|Y] Z]]; auto].
    + destruct (IH _ _ _ _ H HO0) as [A1 [A2 [A3 [A4 [A4' [A5 [A6 A8]]]]]]].
      * intros x Hx. rewrite (EH x Hx). apply HC. exact Hx.
      * intros w Hw. rewrite L0. apply HL. right. exact Hw.
      * split; [rewrite A1; reflexivity|]. split; [rewrite A2; reflexivity|]. split; [rewrite A3; reflexivity|].
        split; [destruct A4 as [X Y]; split; [exact X | exact Y]|].
        split; [congruence|]. split; [|split; [exact A6|]].
        -- intros x. destruct (A5 x) as [P1 P2]. split.
           ++ intros Hx. rewrite P1 by (intros Y; apply Hx; right; exact Y). rewrite E0.
              destruct (Nat.eqb x v) eqn:EV; [apply Nat.eqb_eq in EV; subst x; exfalso; apply Hx; left; reflexivity | reflexivity].
           ++ intros Hx. destruct (in_dec Nat.eq_dec x t) as [Ht|Ht].
              ** rewrite (P2 Ht). reflexivity.
              ** destruct Hx as [<-|Hx]; [|contradiction]. rewrite (P1 Ht), E0, Nat.eqb_refl. reflexivity.
        -- intros x. rewrite A8. rewrite EB0. cbn [In]. apply negb_false_iff, Nat.eqb_eq in EQ.
           split; [intros [Y|[Y Z]]; auto | intros [Y|[[<-|Y] Z]]; auto]. contradiction.
Qed.

(* the constraints setUp(In|Out)Constraints looks at: those whose right (in) / left (out) end is a variable of the block *)
Definition adj (inn : bool) (b : st) (B : nat) : list nat :=
  flat_map (fun v => if inn then ins_of b v else outs_of b v) (bvars (block_of b B)).

Lemma adj_In inn b B x :
  In x (adj inn b B) <->
  ((x < length (scons b))%nat /\ In (if inn then cr (con_of b x) else cl (con_of b x)) (bvars (block_of b B))).
Proof.
  unfold adj. rewrite in_flat_map. split.
  - intros [v [Hv Hx]]. destruct inn; [apply ins_of_In in Hx | apply outs_of_In in Hx]; destruct Hx as [A E]; rewrite E; auto.
  - intros [A Hv]. eexists. split; [exact Hv|]. destruct inn; [apply ins_of_In | apply outs_of_In]; auto.
Qed.

Lemma set_up_heap_ord Yb inn s b :
  length (ctime s) = length (scons (base s)) ->
  let s' := set_up_heap inn s b in
  let L := adj inn (base s) b in
  base s' = base s /\ btime s' = btime s /\ ctr s' = ctr s /\ length (ctime s') = length (ctime s) /\
  length (bin s') = length (bin s) /\ length (bout s') = length (bout s) /\
  (forall inn' b', (inn' = inn /\ b' = b) \/ heap_of s' inn' b' = heap_of s inn' b') /\
  (forall x, (~ In x L -> ctime_of s' x = ctime_of s x) /\ (In x L -> ctime_of s' x = ctr s)) /\
  ((b < length (if inn then bin s else bout s))%nat ->
   exists h, heap_of s' inn b = Some h /\ hordh (Rdom s' Yb) h /\
             forall x, In x (heap_elems h) <-> (In x L /\ endblk inn s x <> b)).
Proof.
  intros Lct. cbv zeta. unfold set_up_heap.
  rewrite (fold_left_flat_map (heap_add b inn) (fun v => if inn then ins_of (base s) v else outs_of (base s) v)).
  fold (adj inn (base s) b). set (L := adj inn (base s) b).
  destruct (fold_left (heap_add b inn) L (s, None)) as [s1 h1] eqn:EF.
  destruct (heap_add_fold_ord Yb b inn L s None s1 h1 EF I) as [A1 [A2 [A3 [A4 [A4' [A5 [A6 A8]]]]]]].
  { intros x []. }
  { intros x Hx. rewrite Lct. apply adj_In in Hx. exact (proj1 Hx). }
  set (s2 := set_heap s1 inn b (Some h1)).
  assert (C2 : ceqv s1 s2) by apply ceqv_set_heap.
  split; [unfold s2; rewrite base_set_heap; exact A1|].
  split; [destruct inn; exact A2|]. split; [destruct inn; exact A3|]. split; [destruct inn; exact A4'|].
  destruct A4 as [Q1 Q2].
  split; [unfold s2, set_heap; destruct inn; cbn [bin set_bin set_bout]; rewrite ?upd_nth_length; congruence|].
  split; [unfold s2, set_heap; destruct inn; cbn [bout set_bin set_bout]; rewrite ?upd_nth_length; congruence|].
  split.
  { intros inn' b'. destruct (heap_of_set_heap s1 inn b (Some h1) inn' b') as [X|[X1 [X2 _]]]; [|left; auto].
    right. fold s2 in X. rewrite X. apply heaps_eq_heap_of. split; assumption. }
  split.
  { intros x. change (ctime_of s2 x) with (ctime_of (set_heap s1 inn b (Some h1)) x).
    assert (E : ctime_of (set_heap s1 inn b (Some h1)) x = ctime_of s1 x) by (destruct inn; reflexivity).
    rewrite E. exact (A5 x). }
  intros Hb. exists h1. split.
  { unfold s2, heap_of, set_heap, bin_of, bout_of. destruct inn; cbn [bin bout set_bin set_bout]; apply nth_upd_nth_eq; congruence. }
  split; [apply (hordh_ceqv s1); assumption|].
  intros x. rewrite A8. cbn [heap_elems In]. tauto.
Qed.

(* ------------------------------------------------------------------ findMinOutConstraint *)
Lemma fmo_loop_good Yb : forall fuel s h s' h',
  fmo_loop fuel s h = Ok (s', h') -> hordh (Rdom s Yb) h ->
  ceqv s s' /\ ctr s' = ctr s /\ heaps_eq s s' /\ hordh (Rdom s' Yb) h' /\
  (forall x, In x (heap_elems h') -> In x (heap_elems h)) /\
  (forall x, In x (heap_elems h) -> lblk s x <> rblk s x -> In x (heap_elems h')) /\
  (forall v, heap_min h' = Some v -> lblk s v <> rblk s v).
Proof.
  induction fuel as [|f IH]; intros s h s' h' H HO; [discriminate|].
  cbn [fmo_loop] in H. destruct h as [[v kids]|].
  2:{ inversion H. subst. split; [apply ceqv_refl|]. split; [reflexivity|]. split; [apply heaps_eq_refl|].
      repeat split; auto. intros v E. discriminate. }
  set (h := Some (PH v kids)) in *.
  destruct (Nat.eqb (lblk s v) (rblk s v)) eqn:EQ.
  - destruct (s_delete_min_spec s Yb h HO) as [C1 [C2 [C3 [C4 C5]]]]. cbv zeta in *.
    assert (Eh : heap_elems h = v :: lelems kids) by reflexivity. rewrite Eh in C5. cbn [tl] in C5.
    destruct (s_delete_min s h) as [s1 h1] eqn:E. cbn [fst snd] in *.
    destruct (IH _ _ _ _ H C4) as [A1 [A2 [A3 [A4 [A6 [A7 A9]]]]]].
    split; [apply (ceqv_trans _ s1); assumption|]. split; [congruence|]. split; [apply (heaps_eq_trans _ s1); assumption|].
    split; [exact A4|]. split; [|split].
    + intros x Hx. apply A6 in Hx. rewrite Eh. right. apply (Permutation_in _ C5). exact Hx.
    + intros x Hx Ex. apply A7.
      * rewrite Eh in Hx. destruct Hx as [<-|Hx]; [apply Nat.eqb_eq in EQ; contradiction|].
        apply (Permutation_in _ (Permutation_sym C5)). exact Hx.
      * rewrite (lblk_ceqv _ _ _ C1), (rblk_ceqv _ _ _ C1). exact Ex.
    + intros w Hw. specialize (A9 w Hw). rewrite (lblk_ceqv _ _ _ C1), (rblk_ceqv _ _ _ C1) in A9. exact A9.
  - inversion H. subst. split; [apply ceqv_refl|]. split; [reflexivity|]. split; [apply heaps_eq_refl|].
    split; [exact HO|]. split; [auto|]. split; [auto|].
    intros w Hw. cbn in Hw. inversion Hw. subst w. apply Nat.eqb_neq. exact EQ.
Qed.

Lemma bout_set_heap_len s b h : length (bout (set_heap s false b h)) = length (bout s).
Proof. unfold set_heap. cbn [bout set_bout]. apply upd_nth_length. Qed.

Lemma find_min_out_good Yb s b h s' c :
  bout_of s b = Some h -> hordh (Rdom s Yb) h -> find_min_out s b = Ok (s', c) ->
  exists h', bout_of s' b = Some h' /\ hordh (Rdom s' Yb) h' /\ heap_min h' = c /\
    (forall x, In x (heap_elems h') -> In x (heap_elems h)) /\
    (forall x, In x (heap_elems h) -> lblk s x <> rblk s x -> In x (heap_elems h')) /\
    (forall c0, c = Some c0 -> lblk s c0 <> rblk s c0) /\
    ceqv s s' /\ ctr s' = ctr s /\ length (bout s') = length (bout s) /\
    (forall inn' b', (inn' = false /\ b' = b) \/ heap_of s' inn' b' = heap_of s inn' b').
Proof.
  intros Hb HO H. unfold find_min_out in H. rewrite Hb in H.
  apply bind_ok in H. destruct H as [[s1 h1] [H1 H2]].
  destruct (fmo_loop_good Yb _ _ _ _ _ H1 HO) as [A1 [A2 [A3 [A4 [A6 [A7 A9]]]]]].
  assert (Es : s' = set_heap s1 false b (Some h1)) by congruence.
  assert (Ec : c = heap_min h1) by congruence. subst s' c. clear H2.
  assert (CE : ceqv s1 (set_heap s1 false b (Some h1))) by apply ceqv_set_heap.
  exists h1. split.
  { change (heap_of (set_heap s1 false b (Some h1)) false b = Some h1). apply (heap_of_set_heap_same _ _ _ _ h).
    rewrite (heaps_eq_heap_of s s1 false b A3). exact Hb. }
  split; [apply (hordh_ceqv s1); assumption|]. split; [reflexivity|]. split; [exact A6|]. split; [exact A7|].
  split; [intros c0 E; apply A9; congruence|]. split; [apply (ceqv_trans _ s1); assumption|]. split; [exact A2|].
  split; [rewrite bout_set_heap_len; destruct A3 as [_ X]; congruence|].
  intros inn' b'. destruct (heap_of_set_heap s1 false b (Some h1) inn' b') as [X|[X1 [X2 _]]]; [|left; auto].
  right. rewrite X. apply heaps_eq_heap_of. exact A3.
Qed.

Lemma delete_min_out_good Yb s b h s' :
  bout_of s b = Some h -> hordh (Rdom s Yb) h -> delete_min false s b = Ok s' ->
  exists h', bout_of s' b = Some h' /\ hordh (Rdom s' Yb) h' /\ Permutation (heap_elems h') (tl (heap_elems h)) /\
    ceqv s s' /\ ctr s' = ctr s /\ length (bout s') = length (bout s) /\
    (forall inn' b', (inn' = false /\ b' = b) \/ heap_of s' inn' b' = heap_of s inn' b').
Proof.
  intros Hb HO H. unfold delete_min in H. cbn [heap_of] in H. rewrite Hb in H.
  destruct (s_delete_min_spec s Yb h HO) as [C1 [C2 [C3 [C4 C5]]]]. cbv zeta in *.
  destruct (s_delete_min s h) as [s1 h1] eqn:E. cbn [fst snd] in *.
  assert (Es : s' = set_heap s1 false b (Some h1)) by congruence. subst s'. clear H.
  assert (CE : ceqv s1 (set_heap s1 false b (Some h1))) by apply ceqv_set_heap.
  exists h1. split.
  { change (heap_of (set_heap s1 false b (Some h1)) false b = Some h1). apply (heap_of_set_heap_same _ _ _ _ h).
    rewrite (heaps_eq_heap_of s s1 false b C3). exact Hb. }
  split; [apply (hordh_ceqv s1); assumption|].
  split; [exact C5|]. split; [apply (ceqv_trans _ s1); assumption|]. split; [exact C2|].
  split; [rewrite bout_set_heap_len; destruct C3 as [_ X]; congruence|].
  intros inn' b'. destruct (heap_of_set_heap s1 false b (Some h1) inn' b') as [X|[X1 [X2 _]]]; [|left; auto].
  right. rewrite X. apply heaps_eq_heap_of. exact C3.
Qed.

Lemma merge_heaps_out_good Yb s r l hr hl s' :
  r <> l -> bout_of s r = Some hr -> bout_of s l = Some hl ->
  hordh (Rdom s Yb) hr -> hordh (Rdom s Yb) hl ->
  merge_heaps false s r l = Ok s' ->
  exists h', bout_of s' r = Some h' /\ hordh (Rdom s' Yb) h' /\
    (forall x, In x (heap_elems h') -> In x (heap_elems hr) \/ In x (heap_elems hl)) /\
    (forall x, In x (heap_elems hr) \/ In x (heap_elems hl) -> lblk s x <> rblk s x -> In x (heap_elems h')) /\
    ceqv s s' /\ ctr s' = ctr s /\ length (bout s') = length (bout s).
Proof.
  intros Hne Hr Hl Or Ol H. unfold merge_heaps in H.
  apply bind_ok in H. destruct H as [[s1 c1] [H1 H]].
  apply bind_ok in H. destruct H as [[s2 c2] [H2 H]]. cbn [fst] in *.
  destruct (find_min_out_good Yb s r hr s1 c1 Hr Or H1) as [hr1 [R1 [R3 [_ [R4 [R5 [_ [R6 [R8 [R9 R10]]]]]]]]]].
  assert (Hl1 : bout_of s1 l = Some hl).
  { destruct (R10 false l) as [[_ X]|X]; [congruence|]. cbn [heap_of] in X. congruence. }
  assert (Ol1 : hordh (Rdom s1 Yb) hl) by (apply (hordh_ceqv s); assumption).
  destruct (find_min_out_good Yb s1 l hl s2 c2 Hl1 Ol1 H2) as [hl2 [L1 [L3 [_ [L4 [L5 [_ [L6 [L8 [L9 L10]]]]]]]]]].
  assert (Hr2 : bout_of s2 r = Some hr1).
  { destruct (L10 false r) as [[_ X]|X]; [congruence|]. cbn [heap_of] in X. congruence. }
  assert (Or2 : hordh (Rdom s2 Yb) hr1) by (apply (hordh_ceqv s1); assumption).
  cbn [heap_of] in H. rewrite Hr2, L1 in H.
  destruct (s_merge_spec s2 Yb hr1 hl2 Or2 L3) as [M1 [M2 [M3 [M4 M5]]]]. cbv zeta in *.
  destruct (s_merge s2 hr1 hl2) as [s3 h] eqn:E. cbn [fst snd] in *.
  assert (Es : s' = set_heap (set_heap s3 false r (Some h)) false l (Some None)) by congruence. subst s'. clear H.
  set (s4 := set_heap s3 false r (Some h)) in *.
  assert (C34 : ceqv s3 s4) by apply ceqv_set_heap.
  assert (C45 : ceqv s4 (set_heap s4 false l (Some None))) by apply ceqv_set_heap.
  assert (B4r : bout_of s4 r = Some h).
  { change (heap_of (set_heap s3 false r (Some h)) false r = Some h). apply (heap_of_set_heap_same _ _ _ _ hr1).
    rewrite (heaps_eq_heap_of s2 s3 false r M3). exact Hr2. }
  assert (In5 : forall x, In x (heap_elems h) <-> In x (heap_elems hr1 ++ heap_elems hl2)).
  { intros x. split; intros Hx; [apply (Permutation_in _ M5) | apply (Permutation_in _ (Permutation_sym M5))]; exact Hx. }
  exists h. split.
  { destruct (heap_of_set_heap s4 false l (Some None) false r) as [X|[_ [X _]]]; [|congruence].
    change (heap_of (set_heap s4 false l (Some None)) false r = Some h). rewrite X. exact B4r. }
  split; [apply (hordh_ceqv s4); [exact C45|]; apply (hordh_ceqv s3); [exact C34 | exact M4]|].
  split.
  { intros x Hx. apply In5 in Hx. rewrite in_app_iff in Hx. destruct Hx as [Hx|Hx]; [left; apply R4 | right; apply L4]; exact Hx. }
  split.
  { intros x Hx Ex. apply In5. rewrite in_app_iff. destruct Hx as [Hx|Hx]; [left; apply R5; assumption|].
    right. apply L5; [exact Hx|]. rewrite (lblk_ceqv _ _ _ R6), (rblk_ceqv _ _ _ R6). exact Ex. }
  split.
  { apply (ceqv_trans _ s1); [exact R6|]. apply (ceqv_trans _ s2); [exact L6|]. apply (ceqv_trans _ s3); [exact M1|].
    apply (ceqv_trans _ s4); assumption. }
  split; [change (ctr s3 = ctr s); congruence|].
  rewrite bout_set_heap_len. unfold s4. rewrite bout_set_heap_len. destruct M3 as [_ X]. congruence.
Qed.

(* ------------------------------------------------------------------ keys of fresh elements *)
Lemma skey_fresh s x : T2 s -> ctime_of s x = ctr s ->
  skey s x = if Nat.eqb (lblk s x) (rblk s x) then None else Some (slack_val (base s) x).
Proof.
  intros HT E. unfold skey.
  assert (X : Nat.ltb (ctime_of s x) (btime_of s (lblk s x)) = false) by (apply Nat.ltb_ge; rewrite E; apply HT).
  rewrite X. reflexivity.
Qed.

Lemma out_root_min Yb s h c0 x :
  T2 s -> hordh (Rdom s Yb) h -> heap_min h = Some c0 -> In x (heap_elems h) ->
  ctime_of s c0 = ctr s -> ctime_of s x = ctr s -> lblk s c0 <> rblk s c0 -> lblk s x <> rblk s x ->
  slack_val (base s) c0 <= slack_val (base s) x.
Proof.
  intros HT HO Hm Hx F0 Fx N0 Nx.
  destruct (hordh_root _ h c0 x HO Hm Hx) as [->|R]; [apply Qle_refl|].
  pose proof (skey_fresh s c0 HT F0) as K0. pose proof (skey_fresh s x HT Fx) as Kx.
  assert (Q0 : Nat.eqb (lblk s c0) (rblk s c0) = false) by (apply Nat.eqb_neq; exact N0).
  assert (Qx : Nat.eqb (lblk s x) (rblk s x) = false) by (apply Nat.eqb_neq; exact Nx).
  rewrite Q0 in K0. rewrite Qx in Kx.
  assert (Nk : skey s c0 <> None) by (rewrite K0; discriminate).
  specialize (R Nk Nx). unfold Kof in R. rewrite K0, Kx in R. exact R.
Qed.

Section OutKeyTrans.
  Variable Yb : nat -> Q.
  Variables (s s' : sst) (r l t : nat) (rr rl : Q).
  Hypothesis W : wf_vars (svars (base s)).
  Hypothesis BK : book (base s).
  Hypothesis BT : btrans (base s) (base s') r l t rr rl.
  Hypothesis Ec : ctime s' = ctime s.
  Hypothesis Eb : btime s' = btime s.
  Hypothesis Ek : ctr s' = ctr s.
  Hypothesis HT : T2 s.

  Let con_eq y : con_of (base s') y = con_of (base s) y.
  Proof. unfold con_of. rewrite (bt_scons _ _ _ _ _ _ _ BT). reflexivity. Qed.
  Let W' : wf_vars (svars (base s')).
  Proof. rewrite (bt_svars _ _ _ _ _ _ _ BT). exact W. Qed.
  Let HT' : T2 s'.
  Proof. intros B. unfold btime_of. rewrite Eb, Ek. apply HT. Qed.

  (* a heap of one of the two merged blocks: every key that stays external shifts by the same amount *)
  Lemma out_key_shift B0 sg y :
    (B0 = r /\ sg = rr \/ B0 = l /\ sg = rl) ->
    (y < length (scons (base s)))%nat -> lblk s y = B0 -> ctime_of s y = ctr s -> lblk s' y <> rblk s' y ->
    lblk s y <> rblk s y /\ skey s y = Some (slack_val (base s) y) /\ skey s' y = Some (slack_val (base s') y) /\
    slack_val (base s') y == slack_val (base s) y - sg.
  Proof.
    intros HB Hy El Fy Ex'.
    destruct (con_ends_lt _ _ BK Hy) as [Hl Hr].
    assert (Fy' : ctime_of s' y = ctr s') by (unfold ctime_of; rewrite Ec, Ek; exact Fy).
    pose proof (skey_fresh s y HT Fy) as K0. pose proof (skey_fresh s' y HT' Fy') as K'.
    unfold lblk, rblk in *. rewrite con_eq in *.
    set (k := con_of (base s) y) in *.
    destruct (bt_blk _ _ _ _ _ _ _ BT _ Hl) as [L1 L2]. destruct (bt_blk _ _ _ _ _ _ _ BT _ Hr) as [R1 R2].
    destruct (bt_Y _ _ _ _ _ _ _ BT _ Hl) as [YL1 [YL2 _]]. destruct (bt_Y _ _ _ _ _ _ _ BT _ Hr) as [_ [_ YR]].
    assert (Lt : blk_of (base s') (cl k) = t) by (apply L1; destruct HB as [[-> _]|[-> _]]; [left | right]; exact El).
    assert (Nr : blk_of (base s) (cr k) <> r) by (intros X; apply Ex'; rewrite Lt; symmetry; apply R1; left; exact X).
    assert (Nl : blk_of (base s) (cr k) <> l) by (intros X; apply Ex'; rewrite Lt; symmetry; apply R1; right; exact X).
    specialize (YR Nr Nl).
    assert (Ex : blk_of (base s) (cl k) <> blk_of (base s) (cr k)) by (rewrite El; destruct HB as [[-> _]|[-> _]]; congruence).
    assert (YL : Yof (base s') (cl k) == Yof (base s) (cl k) + sg).
    { destruct HB as [[E1 E2]|[E1 E2]]; subst B0 sg; [apply YL1 | apply YL2]; exact El. }
    assert (Q0 : Nat.eqb (blk_of (base s) (cl k)) (blk_of (base s) (cr k)) = false) by (apply Nat.eqb_neq; exact Ex).
    assert (Q' : Nat.eqb (blk_of (base s') (cl k)) (blk_of (base s') (cr k)) = false) by (apply Nat.eqb_neq; exact Ex').
    rewrite Q0 in K0. rewrite Q' in K'.
    split; [exact Ex|]. split; [exact K0|]. split; [exact K'|].
    rewrite (slack_Y' _ y W'), (slack_Y' _ y W), con_eq. fold k. rewrite YR, YL. ring.
  Qed.

  Lemma Rdom_across_merge_out B0 sg c x :
    (B0 = r /\ sg = rr \/ B0 = l /\ sg = rl) ->
    (c < length (scons (base s)))%nat -> (x < length (scons (base s)))%nat -> lblk s c = B0 -> lblk s x = B0 ->
    ctime_of s c = ctr s -> ctime_of s x = ctr s ->
    Rdom s Yb c x -> Rdom s' Yb c x.
  Proof.
    intros HB Hc Hx Elc Elx Fc Fx R Nc Ex'.
    destruct (skey_some_inv s' c Nc) as [Exc' _].
    destruct (out_key_shift B0 sg c HB Hc Elc Fc Exc') as [_ [C2 [C3 C4]]].
    destruct (out_key_shift B0 sg x HB Hx Elx Fx Ex') as [X1 [X2 [X3 X4]]].
    assert (Nc0 : skey s c <> None) by (rewrite C2; discriminate).
    specialize (R Nc0 X1). unfold Kof in *. rewrite C2, X2 in R. rewrite C3, X3, C4, X4. lra.
  Qed.
End OutKeyTrans.

(* Block::merge as seen by the heaps (StaticDag.btrans), for a merge distance given up to == *)
Lemma merge_btrans b c (sw : bool) d :
  book b -> wf_vars (svars b) -> all_blk_ok b -> (c < length (scons b))%nat ->
  let r := blk_of b (cr (con_of b c)) in
  let l := blk_of b (cl (con_of b c)) in
  l <> r -> slack_val b c < 0 ->
  d == (if sw then - mdist b c else mdist b c) ->
  let b' := merge_into b (if sw then l else r) (if sw then r else l) c d in
  exists rr rl, 0 <= rr /\ rl <= 0 /\ rr - rl == - slack_val b c /\
    btrans b b' r l (if sw then l else r) rr rl /\ all_blk_ok b'.
Proof.
  intros BK W OK Hc r l Hne Hs Hd b'.
  destruct (merge_shift_d b c sw d BK W OK Hc Hne Hs Hd) as [rr [rl [P1 [P2 [P3 [MY MOK]]]]]].
  cbv zeta in MY, MOK. fold r l in MY, MOK. fold b' in MY, MOK.
  exists rr, rl. split; [exact P1|]. split; [exact P2|]. split; [exact P3|]. split; [|exact MOK].
  destruct (con_ends_lt _ _ BK Hc) as [Hl Hr].
  set (t := if sw then l else r) in *. set (a := if sw then r else l) in *.
  assert (MF : merge_facts b t a c b').
  { unfold b', t, a. destruct sw.
    - apply (merge_into_facts b l r c _ (cl (con_of b c)) (cr (con_of b c)) BK); auto.
    - apply (merge_into_facts b r l c _ (cr (con_of b c)) (cl (con_of b c)) BK); auto. }
  constructor; [exact (mg_svars _ _ _ _ _ MF) | exact (mg_scons _ _ _ _ _ MF) | | exact MY].
  intros u Hu. destruct (mg_blk _ _ _ _ _ MF u Hu) as [M1 M2]. unfold t, a in *. destruct sw.
  - split.
    + intros [E|E]; [apply M1; exact E | rewrite M2; congruence].
    + intros E1 E2. rewrite M2 by exact E1. split; [reflexivity | congruence].
  - split.
    + intros [E|E]; [rewrite M2; congruence | apply M1; exact E].
    + intros E1 E2. rewrite M2 by exact E2. split; [reflexivity | congruence].
Qed.

Lemma adj_out_block b v x : book b -> (v < length (svars b))%nat ->
  (In x (adj false b (blk_of b v)) <-> ((x < length (scons b))%nat /\ blk_of b (cl (con_of b x)) = blk_of b v)).
Proof.
  intros BK Hv. rewrite adj_In. rewrite (bk_mem _ BK v _ Hv). split.
  - intros [A [_ B]]. auto.
  - intros [A B]. split; [exact A|]. split; [exact (proj1 (con_ends_lt _ _ BK A)) | exact B].
Qed.

(* ------------------------------------------------------------------ the invariant of mergeRight's loop, with heaps *)
Definition Y0 : nat -> Q := fun _ => 0.

Record MRH (s : sst) (l : nat) (c : option nat) : Prop := {
  h_mri : MRI (base s) l;
  h_inh : inhabited (base s) l;
  h_T2 : T2 s;
  h_lct : length (ctime s) = length (scons (base s));
  h_lbo : (length (blocks (base s)) <= length (bout s))%nat;
  h_heap : exists h, bout_of s l = Some h /\ heap_min h = c /\ hordh (Rdom s Y0) h /\
     (forall x, In x (heap_elems h) -> (x < length (scons (base s)))%nat /\ lblk s x = l /\ ctime_of s x = ctr s) /\
     (forall o, (o < length (scons (base s)))%nat -> lblk s o = l -> rblk s o <> l -> In o (heap_elems h)) /\
     (forall c0, c = Some c0 -> rblk s c0 <> l) }.

Lemma MRH_frame s s' l c :
  base s' = base s -> ctime s' = ctime s -> btime s' = btime s -> bout s' = bout s -> ctr s' = ctr s ->
  MRH s l c -> MRH s' l c.
Proof.
  intros E1 E2 E3 E4 E5 [A1 A2 A3 A4 A5 [h [Hh [Hm [HO [HE [HC HR]]]]]]].
  assert (CE : ceqv s s') by (repeat split; assumption).
  constructor; rewrite ?E1, ?E2, ?E4; try assumption.
  - intros B. unfold btime_of. rewrite E3, E5. apply A3.
  - exists h. split; [unfold bout_of; rewrite E4; exact Hh|]. split; [exact Hm|].
    split; [apply (hordh_ceqv s); assumption|]. split; [|split].
    + intros x Hx. destruct (HE x Hx) as [X1 [X2 X3]]. split; [exact X1|]. split; [rewrite (lblk_ceqv _ _ _ CE); exact X2|].
      unfold ctime_of. rewrite E2, E5. exact X3.
    + intros o Ho. rewrite (lblk_ceqv _ _ _ CE), (rblk_ceqv _ _ _ CE). apply HC. exact Ho.
    + intros c0 Ec. rewrite (rblk_ceqv _ _ _ CE). apply HR. exact Ec.
Qed.
Lemma MRH_snote e s l c c0 z : MRH s l c -> MRH (snote_slack e s c0 z) l c.
Proof. unfold snote_slack. destruct (_ && _); [|auto]. apply MRH_frame; reflexivity. Qed.

(* bit 32 of Vpsc/StaticRefB.v, proved *)
Lemma MRH_root s l c : MRH s l c -> out_root_ok s l c.
Proof.
  intros [_ _ HT _ _ [h [Hh [Hm [HO [HE [HC HR]]]]]]]. destruct c as [c0|]; cbn [out_root_ok].
  - pose proof (heap_min_in _ _ Hm) as Hin. destruct (HE c0 Hin) as [A [B C]].
    split; [exact A|]. split; [exact B|]. split; [exact (HR c0 eq_refl)|].
    intros o Ho Lo Ro. left. unfold sslack.
    destruct (HE o (HC o Ho Lo Ro)) as [_ [_ Co]].
    apply (out_root_min Y0 s h c0 o HT HO Hm (HC o Ho Lo Ro) C Co).
    + rewrite B. intros X. apply (HR c0 eq_refl). congruence.
    + rewrite Lo. congruence.
  - intros o Ho Lo Ro. exfalso. pose proof (HC o Ho Lo Ro) as X. destruct h; [discriminate | destruct X].
Qed.

Lemma heap_min_tl h c0 x : heap_min h = Some c0 -> In x (heap_elems h) -> x <> c0 -> In x (tl (heap_elems h)).
Proof.
  destruct h as [[c kids]|]; [|discriminate]. cbn [heap_min ph_root heap_elems]. rewrite ph_elems_eq. cbn [tl].
  intros E [X|X] N; [congruence | exact X].
Qed.

(* one iteration of mergeRight's loop keeps the invariant *)
Lemma mr_body_MRH s l c0 s' l' c' :
  MRH s l (Some c0) -> slack_val (base s) c0 < 0 -> mr_body s l c0 = Ok (s', l', c') -> MRH s' l' c'.
Proof.
  intros M Hneg H.
  pose proof (MRH_root s l _ M) as RO. cbn [out_root_ok] in RO. destruct RO as [Hc0 [El0 [Nr0 RM]]].
  destruct M as [[BK AI W OK G] Inh HT Lct Lbo [h [Hh [Hm [HO [HE [HC _]]]]]]].
  unfold lblk, rblk, sslack in El0, Nr0, RM.
  set (b := base s) in *.
  set (r := blk_of b (cr (con_of b c0))) in *.
  destruct (con_ends_lt _ _ BK Hc0) as [Hl0 Hr0].
  unfold mr_body in H.
  apply bind_ok in H. destruct H as [s1 [H1 H]].
  destruct (delete_min_out_good Y0 s l h s1 Hh HO H1) as [h1 [D1 [D2 [D3 [D4 [D5 [D6 D7]]]]]]].
  pose proof D4 as [B1 [Ct1 Bt1]].
  assert (Er1 : rblk s1 c0 = r) by (unfold rblk; rewrite B1; reflexivity).
  rewrite Er1 in H.
  (* setUpOutConstraints on r *)
  assert (Lct1 : length (ctime s1) = length (scons (base s1))) by (rewrite Ct1, B1; exact Lct).
  destruct (set_up_heap_ord Y0 false s1 r Lct1) as [U1 [U2 [U3 [U4 [_ [U6 [U7 [U8 U9]]]]]]]].
  cbv zeta in U1, U2, U3, U4, U6, U7, U8, U9. set (s2 := set_up_heap false s1 r) in *.
  assert (Hrlt : (r < length (bout s1))%nat).
  { rewrite D6. apply (Nat.lt_le_trans _ (length (blocks b))); [apply (bk_blk _ BK); exact Hr0 | exact Lbo]. }
  destruct (U9 Hrlt) as [hr [Hhr [Ohr Ehr]]]. clear U9. cbn [heap_of] in Hhr.
  rewrite B1 in U1, U8, Ehr. fold b in U1, U8, Ehr.
  assert (AdjR : forall x, In x (adj false b r) <-> ((x < length (scons b))%nat /\ blk_of b (cl (con_of b x)) = r)).
  { intros x. apply (adj_out_block b (cr (con_of b c0)) x BK Hr0). }
  assert (Nlr : l <> r) by (intros X; apply Nr0; symmetry; exact X).
  (* elements of the two heaps *)
  assert (E1 : forall x, In x (heap_elems h1) ->
                 (x < length (scons b))%nat /\ blk_of b (cl (con_of b x)) = l /\ ctime_of s2 x = ctr s2 /\ In x (heap_elems h)).
  { intros x Hx. apply (Permutation_in _ D3) in Hx.
    assert (Hx0 : In x (heap_elems h)).
    { destruct h as [[c kids]|]; [|destruct Hx]. cbn [heap_elems]. rewrite ph_elems_eq. right. exact Hx. }
    destruct (HE x Hx0) as [X1 [X2 X3]]. split; [exact X1|]. split; [exact X2|]. split; [|exact Hx0].
    rewrite U3, D5, <- X3.
    destruct (U8 x) as [P _]. rewrite P; [unfold ctime_of; rewrite Ct1; reflexivity|].
    intros Y. apply AdjR in Y. destruct Y as [_ Y]. unfold lblk in X2. fold b in X2. congruence. }
  assert (E2 : forall x, In x (heap_elems hr) ->
                 (x < length (scons b))%nat /\ blk_of b (cl (con_of b x)) = r /\ ctime_of s2 x = ctr s2).
  { intros x Hx. apply Ehr in Hx. destruct Hx as [Y _]. destruct (U8 x) as [_ P]. rewrite (P Y), U3.
    apply AdjR in Y. destruct Y as [Y1 Y2]. auto. }
  assert (Hl2 : bout_of s2 l = Some h1).
  { destruct (U7 false l) as [[_ X]|X]; [congruence|]. cbn [heap_of] in X. congruence. }
  assert (Ol2 : hordh (Rdom s2 Y0) h1).
  { apply (hordh_same_keys s1); [exact (eq_trans U1 (eq_sym B1)) | exact U2 | | exact D2].
    intros x Hx. destruct (E1 x Hx) as [_ [X2 _]]. destruct (U8 x) as [P _]. apply P.
    intros Y. apply AdjR in Y. destruct Y as [_ Y]. congruence. }
  assert (T22 : T2 s2).
  { intros B. unfold btime_of. rewrite U2, Bt1, U3, D5. apply HT. }
  (* the merge of the blocks *)
  assert (Eb2 : base s2 = b) by exact U1.
  assert (Env : forall B, nvars s2 B = length (bvars (block_of b B))) by (intros B; unfold nvars; rewrite Eb2; reflexivity).
  rewrite !Env in H.
  set (sw := Nat.ltb (length (bvars (block_of b r))) (length (bvars (block_of b l)))) in *.
  set (t := if sw then r else l) in *. set (a := if sw then l else r) in *.
  rewrite Eb2, B1 in H. fold b in H.
  set (dist := off_of b (cl (con_of b c0)) + gap (con_of b c0) - off_of b (cr (con_of b c0))) in *.
  set (d := if sw then - dist else dist) in *.
  set (b' := merge_into b t a c0 d) in *.
  set (s4 := set_base s2 b') in *.
  apply bind_ok in H. destruct H as [s5 [H5 H]].
  apply bind_ok in H. destruct H as [[s9 c9] [H9 H]].
  assert (E' : s' = s9 /\ l' = t /\ c' = c9) by (inversion H; auto). destruct E' as [-> [-> ->]]. clear H.
  assert (Hd : d == (if negb sw then - mdist b c0 else mdist b c0)).
  { unfold d, dist, mdist. destruct sw; cbn [negb]; ring. }
  assert (Erl : blk_of b (cl (con_of b c0)) <> blk_of b (cr (con_of b c0))) by (rewrite El0; exact Nlr).
  assert (Et : t = (if negb sw then blk_of b (cl (con_of b c0)) else blk_of b (cr (con_of b c0)))).
  { unfold t. rewrite El0. destruct sw; reflexivity. }
  assert (Ea : a = (if negb sw then blk_of b (cr (con_of b c0)) else blk_of b (cl (con_of b c0)))).
  { unfold a. rewrite El0. destruct sw; reflexivity. }
  destruct (merge_btrans b c0 (negb sw) d BK W OK Hc0 Erl Hneg Hd) as [rr [rl [_ [_ [_ [BT _]]]]]].
  cbv zeta in BT. rewrite <- Et, <- Ea in BT. fold b' in BT. rewrite El0 in BT. fold r in BT.
  destruct (geo2_step b l c0 (negb sw) d BK AI W OK G Hc0 El0 Nr0 Hneg RM Hd) as [G' [OK' [BK' [AI' [W' [Es Ev]]]]]].
  fold r in G', OK', BK', AI', W', Es, Ev.
  assert (Et2 : (if negb sw then l else r) = t) by (unfold t; destruct sw; reflexivity).
  assert (Ea2 : (if negb sw then r else l) = a) by (unfold a; destruct sw; reflexivity).
  rewrite Et2, Ea2 in G', OK', BK', AI', W', Es, Ev. fold b' in G', OK', BK', AI', W', Es, Ev.
  (* the heaps after the merge of the blocks *)
  assert (W2 : wf_vars (svars (base s2))) by (rewrite Eb2; exact W).
  assert (BK2 : book (base s2)) by (rewrite Eb2; exact BK).
  assert (BT2 : btrans (base s2) (base s4) r l t rr rl) by (rewrite Eb2; exact BT).
  assert (O1 : hordh (Rdom s4 Y0) h1).
  { apply (hordh_impl (Rdom s2 Y0)); [|exact Ol2]. intros c x Hc Hx.
    destruct (E1 c Hc) as [A1 [A2 [A3 _]]]. destruct (E1 x Hx) as [X1 [X2 [X3 _]]].
    apply (Rdom_across_merge_out Y0 s2 s4 r l t rr rl W2 BK2 BT2 eq_refl eq_refl eq_refl T22 l rl c x);
      [right; auto | rewrite Eb2; exact A1 | rewrite Eb2; exact X1 | unfold lblk; rewrite Eb2; exact A2
       | unfold lblk; rewrite Eb2; exact X2 | exact A3 | exact X3]. }
  assert (O2 : hordh (Rdom s4 Y0) hr).
  { apply (hordh_impl (Rdom s2 Y0)); [|exact Ohr]. intros c x Hc Hx.
    destruct (E2 c Hc) as [A1 [A2 A3]]. destruct (E2 x Hx) as [X1 [X2 X3]].
    apply (Rdom_across_merge_out Y0 s2 s4 r l t rr rl W2 BK2 BT2 eq_refl eq_refl eq_refl T22 r rr c x);
      [left; auto | rewrite Eb2; exact A1 | rewrite Eb2; exact X1 | unfold lblk; rewrite Eb2; exact A2
       | unfold lblk; rewrite Eb2; exact X2 | exact A3 | exact X3]. }
  set (ht := if sw then hr else h1). set (ha := if sw then h1 else hr).
  assert (Hht : bout_of s4 t = Some ht) by (unfold t, ht; change (bout_of s4) with (bout_of s2); destruct sw; assumption).
  assert (Hha : bout_of s4 a = Some ha) by (unfold a, ha; change (bout_of s4) with (bout_of s2); destruct sw; assumption).
  assert (Oht : hordh (Rdom s4 Y0) ht) by (unfold ht; destruct sw; assumption).
  assert (Oha : hordh (Rdom s4 Y0) ha) by (unfold ha; destruct sw; assumption).
  assert (Hta : t <> a) by (unfold t, a; destruct sw; congruence).
  assert (Eta : forall x, (In x (heap_elems ht) \/ In x (heap_elems ha)) <-> (In x (heap_elems h1) \/ In x (heap_elems hr))).
  { intros x. unfold ht, ha. destruct sw; tauto. }
  destruct (merge_heaps_out_good Y0 s4 t a ht ha s5 Hta Hht Hha Oht Oha H5) as [h5 [M1 [M3 [M4 [M5 [M6 [M8 M9]]]]]]].
  destruct (find_min_out_good Y0 s5 t h5 s9 c9 M1 M3 H9) as [h9 [N1 [N2 [N3 [N4 [N5 [N6 [N7 [N8 [N9 _]]]]]]]]]].
  (* summary *)
  assert (C49 : ceqv s4 s9) by (apply (ceqv_trans _ s5); assumption).
  pose proof C49 as [Fb [Fct Fbt]]. change (base s4) with b' in Fb. change (ctime s4) with (ctime s2) in Fct.
  change (btime s4) with (btime s2) in Fbt.
  assert (Fc : ctr s9 = ctr s) by (rewrite N8, M8; change (ctr s4) with (ctr s2); rewrite U3; exact D5).
  assert (Kcon : forall x, con_of b' x = con_of b x) by (intros x; unfold con_of; rewrite Es; reflexivity).
  assert (Blk : forall x, (x < length (scons b))%nat ->
            (blk_of b (cl (con_of b x)) = l \/ blk_of b (cl (con_of b x)) = r) -> lblk s9 x = t).
  { intros x Hx Hor. unfold lblk. rewrite Fb, Kcon. destruct (con_ends_lt _ _ BK Hx) as [Hl _].
    apply (bt_blk _ _ _ _ _ _ _ BT _ Hl). tauto. }
  constructor.
  - rewrite Fb. constructor; assumption.
  - rewrite Fb. exists (cl (con_of b c0)). rewrite Ev. split; [exact Hl0|].
    apply (bt_blk _ _ _ _ _ _ _ BT _ Hl0). right. exact El0.
  - intros B. unfold btime_of. rewrite Fbt, U2, Bt1, Fc. apply HT.
  - rewrite Fct, U4, Ct1, Fb, Es. exact Lct.
  - rewrite Fb. unfold b'. rewrite merge_into_lblocks, N9, M9. change (bout s4) with (bout s2). rewrite U6, D6. exact Lbo.
  - exists h9. split; [exact N1|]. split; [exact N3|]. split; [exact N2|]. split; [|split].
    + intros x Hx. apply N4, M4, Eta in Hx. rewrite Fb, Es.
      assert (X : (x < length (scons b))%nat /\ (blk_of b (cl (con_of b x)) = l \/ blk_of b (cl (con_of b x)) = r) /\
                  ctime_of s2 x = ctr s2).
      { destruct Hx as [Hx|Hx]; [destruct (E1 x Hx) as [X1 [X2 [X3 _]]] | destruct (E2 x Hx) as [X1 [X2 X3]]]; auto. }
      destruct X as [X1 [X2 X3]]. split; [exact X1|]. split; [apply Blk; assumption|].
      unfold ctime_of. rewrite Fct. fold (ctime_of s2 x). rewrite X3, Fc, U3. exact D5.
    + intros o Ho Lo Ro. rewrite Fb, Es in Ho.
      assert (L5 : lblk s5 o = lblk s9 o /\ rblk s5 o = rblk s9 o).
      { split; [rewrite (lblk_ceqv _ _ _ N7) | rewrite (rblk_ceqv _ _ _ N7)]; reflexivity. }
      assert (L4 : lblk s4 o = lblk s9 o /\ rblk s4 o = rblk s9 o).
      { split; [rewrite (lblk_ceqv _ _ _ C49) | rewrite (rblk_ceqv _ _ _ C49)]; reflexivity. }
      apply N5; [|rewrite (proj1 L5), (proj2 L5), Lo; congruence].
      apply M5; [|rewrite (proj1 L4), (proj2 L4), Lo; congruence]. apply Eta.
      destruct (con_ends_lt _ _ BK Ho) as [Hol Hor].
      unfold lblk, rblk in Lo, Ro. rewrite Fb, Kcon in Lo, Ro.
      destruct (bt_blk _ _ _ _ _ _ _ BT _ Hol) as [OL1 OL2]. destruct (bt_blk _ _ _ _ _ _ _ BT _ Hor) as [OR1 OR2].
      assert (NRr : blk_of b (cr (con_of b o)) <> r) by (intros X; apply Ro; apply OR1; left; exact X).
      assert (NRl : blk_of b (cr (con_of b o)) <> l) by (intros X; apply Ro; apply OR1; right; exact X).
      destruct (Nat.eq_dec (blk_of b (cl (con_of b o))) l) as [Cl|Cl].
      * left. assert (Hoh : In o (heap_elems h)) by (apply HC; [exact Ho | exact Cl | unfold rblk; fold b; exact NRl]).
        apply (Permutation_in _ (Permutation_sym D3)). apply (heap_min_tl h c0 o Hm Hoh).
        intros ->. apply NRr. reflexivity.
      * destruct (Nat.eq_dec (blk_of b (cl (con_of b o))) r) as [Cr|Cr].
        -- right. apply Ehr. split; [apply AdjR; auto|]. unfold endblk, rblk. rewrite B1. fold b. exact NRr.
        -- exfalso. destruct (OL2 Cr Cl) as [_ X]. contradiction.
    + intros c0' Ec. specialize (N6 c0' Ec). assert (Hin : In c0' (heap_elems h9)) by (apply heap_min_in; congruence).
      pose proof Hin as Hin'. apply N4, M4, Eta in Hin'.
      assert (X : (c0' < length (scons b))%nat /\ (blk_of b (cl (con_of b c0')) = l \/ blk_of b (cl (con_of b c0')) = r)).
      { destruct Hin' as [Hx|Hx]; [destruct (E1 _ Hx) as [X1 [X2 _]] | destruct (E2 _ Hx) as [X1 [X2 _]]]; auto. }
      destruct X as [X1 X2]. pose proof (Blk c0' X1 X2) as Lt.
      rewrite <- (lblk_ceqv _ _ _ N7), <- (rblk_ceqv _ _ _ N7) in N6. rewrite Lt in N6. congruence.
Qed.

Lemma mr_roots_ok_S f s l c :
  mr_roots_ok (S f) s l c =
  (out_root_ok s l c /\
   match c with
   | None => True
   | Some c0 =>
       if Qltb (sslack (snote_slack TIE_EPS s c0 0) c0) 0 then
         match mr_body (snote_slack TIE_EPS s c0 0) l c0 with
         | Ok (s', l', c') => mr_roots_ok f s' l' c'
         | _ => True
         end
       else True
   end).
Proof. reflexivity. Qed.
Lemma neg_of_Qltb s c : Qltb (sslack s c) 0 = true -> slack_val (base s) c < 0.
Proof. intros Q. apply Qltb_spec in Q. exact Q. Qed.

Lemma MRH_roots : forall fuel s l c, MRH s l c -> mr_roots_ok fuel s l c.
Proof.
  induction fuel as [|f IH]; intros s l c M; [exact I|].
  rewrite mr_roots_ok_S.
  split; [apply MRH_root; exact M|]. destruct c as [c0|]; [|exact I].
  pose proof (MRH_snote TIE_EPS s l (Some c0) c0 0 M) as M0.
  remember (snote_slack TIE_EPS s c0 0) as s0 eqn:Es0. clear Es0 M.
  destruct (Qltb (sslack s0 c0) 0) eqn:Q; [|exact I].
  destruct (mr_body s0 l c0) as [[[s' l'] c']| |] eqn:E; try exact I.
  apply IH. pose proof (neg_of_Qltb s0 c0 Q) as Hneg.
  exact (mr_body_MRH s0 l c0 s' l' c' M0 Hneg E).
Qed.

(* entering mergeRight: setUpOutConstraints + findMinOutConstraint establish the invariant *)
Lemma MRH_entry s l s1 c :
  MRI (base s) l -> inhabited (base s) l -> T2 s -> length (ctime s) = length (scons (base s)) ->
  (length (blocks (base s)) <= length (bout s))%nat ->
  find_min_out (set_up_heap false s l) l = Ok (s1, c) -> MRH s1 l c.
Proof.
  intros MI [v [Hv Ev]] HT Lct Lbo H. pose proof MI as [BK AI W OK G].
  destruct (set_up_heap_ord Y0 false s l Lct) as [U1 [U2 [U3 [U4 [_ [U6 [U7 [U8 U9]]]]]]]].
  cbv zeta in U1, U2, U3, U4, U6, U7, U8, U9. set (s2 := set_up_heap false s l) in *.
  assert (Hlt : (l < length (bout s))%nat).
  { apply (Nat.lt_le_trans _ (length (blocks (base s)))); [rewrite <- Ev; apply (bk_blk _ BK); exact Hv | exact Lbo]. }
  destruct (U9 Hlt) as [h [Hh [Oh Eh]]]. clear U9. cbn [heap_of] in Hh.
  assert (Adj : forall x, In x (adj false (base s) l) <->
                          ((x < length (scons (base s)))%nat /\ blk_of (base s) (cl (con_of (base s) x)) = l)).
  { intros x. rewrite <- Ev. apply (adj_out_block (base s) v x BK Hv). }
  destruct (find_min_out_good Y0 s2 l h s1 c Hh Oh H) as [h1 [N1 [N2 [N3 [N4 [N5 [N6 [N7 [N8 [N9 _]]]]]]]]]].
  pose proof N7 as [Fb [Fct Fbt]].
  constructor.
  - rewrite Fb, U1. exact MI.
  - rewrite Fb, U1. exists v. auto.
  - intros B. unfold btime_of. rewrite Fbt, U2, N8, U3. apply HT.
  - rewrite Fct, U4, Fb, U1. exact Lct.
  - rewrite Fb, U1, N9, U6. exact Lbo.
  - exists h1. split; [exact N1|]. split; [exact N3|]. split; [exact N2|]. split; [|split].
    + intros x Hx. apply N4, Eh in Hx. destruct Hx as [Y _]. rewrite Fb, U1.
      destruct (U8 x) as [_ P]. apply Adj in Y. destruct Y as [Y1 Y2]. split; [exact Y1|].
      split; [unfold lblk; rewrite Fb, U1; exact Y2|]. unfold ctime_of. rewrite Fct. fold (ctime_of s2 x).
      rewrite P by (apply Adj; auto). rewrite N8, U3. reflexivity.
    + intros o Ho Lo Ro. rewrite Fb, U1 in Ho. unfold lblk, rblk in Lo, Ro. rewrite Fb, U1 in Lo, Ro.
      apply N5; [|unfold lblk, rblk; rewrite U1, Lo; congruence].
      apply Eh. split; [apply Adj; auto|]. unfold endblk, rblk. exact Ro.
    + intros c0 Ec. specialize (N6 c0 Ec). assert (Hin : In c0 (heap_elems h1)) by (apply heap_min_in; congruence).
      apply N4, Eh in Hin. destruct Hin as [Y _]. apply Adj in Y. destruct Y as [_ Y2].
      unfold lblk, rblk in N6. rewrite U1, Y2 in N6. unfold rblk. rewrite Fb, U1. congruence.
Qed.

(* Blocks::mergeRight returns with every slack >= 0: no hypothesis about the heap roots any more *)
Theorem merge_right_all_sat_closed s l s' :
  MRI (base s) l -> inhabited (base s) l -> T2 s -> length (ctime s) = length (scons (base s)) ->
  (length (blocks (base s)) <= length (bout s))%nat ->
  merge_right s l = Ok s' ->
  all_sat0 (base s') /\ book (base s') /\ act_inv (base s') /\ all_blk_ok (base s') /\
  scons (base s') = scons (base s) /\ svars (base s') = svars (base s).
Proof.
  intros MI Inh HT Lct Lbo H. apply (merge_right_all_sat s l s' MI); [|exact H].
  intros s1 c H1. apply MRH_roots. apply (MRH_entry s l s1 c); assumption.
Qed.
