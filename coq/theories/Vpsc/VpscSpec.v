(* Declarative VPSC problem (C01/C02): variables, separation constraints, feasibility, objective.
   Conventions are the code's (cola/libvpsc/constraint.h:80-96, variable.h:74-84):
     slack(c) = right->scale * right->position() - gap - left->scale * left->position()
   i.e. a constraint reads  scl_l * x_l + gap <= scl_r * x_r  (== for equalities) on the *unscaled*
   positions x (what finalPosition reports), and the objective is  sum_i wt_i * (x_i - des_i)^2
   (Block::cost, block.cpp:626-633).  No proofs about the solver here. *)
From Adapt Require Import Num.Qaux.
Local Open Scope Q_scope.

Record var := mkvar { des : Q; wt : Q; scl : Q }.               (* desiredPosition, weight, scale *)
Record con := mkcon { cl : nat; cr : nat; gap : Q; ceq : bool }. (* left, right, gap, equality *)

Definition dvar : var := mkvar 0 1 1.
Definition vget (vs : list var) (i : nat) : var := nth i vs dvar.

(* a placement assigns a position to every variable index *)
Definition place := nat -> Q.
Definition place_of (xs : list Q) : place := fun i => nth i xs 0.

Definition slackv (vs : list var) (x : place) (c : con) : Q :=
  scl (vget vs (cr c)) * x (cr c) - gap c - scl (vget vs (cl c)) * x (cl c).

Definition holds (vs : list var) (x : place) (c : con) : Prop :=
  if ceq c then slackv vs x c == 0 else 0 <= slackv vs x c.

Definition feasible (vs : list var) (cs : list con) (x : place) : Prop :=
  forall c, In c cs -> holds vs x c.

Fixpoint sumn (n : nat) (f : nat -> Q) : Q :=
  match n with O => 0 | S k => sumn k f + f k end.

Definition sq (a : Q) : Q := a * a.

Definition obj (vs : list var) (x : place) : Q :=
  sumn (length vs) (fun i => wt (vget vs i) * sq (x i - des (vget vs i))).

(* indices in range, weights and scales positive (the documented domain of the solver) *)
Definition wf_vars (vs : list var) : Prop :=
  forall i, (i < length vs)%nat -> 0 < wt (vget vs i) /\ 0 < scl (vget vs i).
Definition wf_cons (vs : list var) (cs : list con) : Prop :=
  forall c, In c cs -> (cl c < length vs)%nat /\ (cr c < length vs)%nat.

(* boolean versions used by the extracted checkers *)
Definition wf_varsb (vs : list var) : bool :=
  forallb (fun v => Qltb 0 (wt v) && Qltb 0 (scl v)) vs.
Definition wf_consb (vs : list var) (cs : list con) : bool :=
  forallb (fun c => Nat.ltb (cl c) (length vs) && Nat.ltb (cr c) (length vs)) cs.
