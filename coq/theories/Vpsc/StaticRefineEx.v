(* Non-vacuity of Vpsc/StaticRefine.merge_right_all_sat on a concrete state (one violated out-constraint, one merge). *)
From Adapt Require Import Num.Qaux Vpsc.VpscSpec Vpsc.VpscModel Vpsc.VpscInv Vpsc.StaticModel Vpsc.StaticFrame
  Vpsc.StaticInv Vpsc.StaticInvB Vpsc.StaticGeom Vpsc.StaticDag Vpsc.StaticRefine.
Local Open Scope Q_scope.
Definition mx_vs : list var := [mkvar 2 1 1; mkvar 0 1 1].
Definition mx_cs : list con := [mkcon 0 1 1 false].
Lemma mx_wfv : wf_vars mx_vs.
Proof. intros i Hi. unfold mx_vs in *. cbn [length] in Hi. destruct i as [|[|i]]; try lia; cbn; split; reflexivity. Qed.
Lemma mx_wfc : wf_cons mx_vs mx_cs.
Proof. intros c [<-|[]]; cbn; lia. Qed.
Lemma mx_MRI : MRI (base (static_init mx_vs mx_cs)) 0.
Proof.
  cbn [static_init base]. destruct (init_book _ _ mx_wfc) as [BK AI].
  constructor; [exact BK | exact AI | rewrite (proj1 (init_problem _ _)); exact mx_wfv | exact (init_all_blk_ok _ _ mx_wfv)|].
  constructor.
  - intros c Hc Iff. rewrite (proj2 (init_problem _ _)) in Hc. cbn in Hc. assert (c = O) by lia. subst c.
    exfalso. vm_compute in Iff. destruct Iff as [X _]. specialize (X eq_refl). discriminate.
  - intros c Hc E N. rewrite (proj2 (init_problem _ _)) in Hc. cbn in Hc. assert (c = O) by lia. subst c.
    vm_compute in E. discriminate.
  - intros i o Hi Ho E N. rewrite (proj2 (init_problem _ _)) in Hi. cbn in Hi. assert (i = O) by lia. subst i.
    vm_compute in E. discriminate.
Qed.
Example merge_right_all_sat_example :
  MRI (base (static_init mx_vs mx_cs)) 0 /\
  (forall s1 c, find_min_out (set_up_heap false (static_init mx_vs mx_cs) 0) 0 = Ok (s1, c) ->
                mr_roots_ok (loop_fuel (static_init mx_vs mx_cs)) s1 0 c) /\
  (exists s', merge_right (static_init mx_vs mx_cs) 0 = Ok s') /\
  slack_val (base (static_init mx_vs mx_cs)) 0 < 0.
Proof.
  split; [exact mx_MRI|]. split; [|split].
  - intros s1 c H. vm_compute in H. inversion H. subst s1 c. clear H.
    vm_compute. split; [|split; [|exact I]].
    + split; [lia|]. split; [reflexivity|]. split; [discriminate|].
      intros o Ho. assert (o = O) by lia. subst o. intros _ _. left. discriminate.
    + intros o Ho. assert (o = O) by lia. subst o. intros _ N. exfalso. apply N. reflexivity.
  - eexists. vm_compute. reflexivity.
  - vm_compute. reflexivity.
Qed.
