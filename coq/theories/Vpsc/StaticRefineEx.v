(* Non-vacuity of Vpsc/StaticRefine.merge_right_all_sat on a concrete state (one violated out-constraint, one merge). *)
From Adapt Require Import Num.Qaux Vpsc.VpscSpec Vpsc.VpscModel Vpsc.VpscInv Vpsc.StaticModel Vpsc.StaticFrame
  Vpsc.StaticInv Vpsc.StaticInvB Vpsc.StaticGeom Vpsc.StaticDag Vpsc.StaticRefine Vpsc.StaticOutHeap.
Local Open Scope Q_scope.
Definition mx_vs : list var := [mkvar 2 1 1; mkvar 0 1 1].
Definition mx_cs : list con := [mkcon 0 1 1 false].
Lemma mx_wfv : wf_vars mx_vs.
Proof. intros i Hi. unfold mx_vs in *. cbn [length] in Hi. destruct i as [|[|i]]; try lia; cbn; split; reflexivity. Qed.
Lemma mx_wfc : wf_cons mx_vs mx_cs.
Proof. intros c [<-|[]]; cbn; lia. Qed.
Lemma mx_MRI : MRI (base (static_init mx_vs mx_cs)) 0.
Proof.
  cbn [static_init base]. destruct (init_book _ _ mx_wfc) as [BK AI].
  constructor; [exact BK | exact AI | rewrite (proj1 (init_problem _ _)); exact mx_wfv | exact (init_all_blk_ok _ _ mx_wfv)|].
  constructor.
  - intros c Hc Iff. rewrite (proj2 (init_problem _ _)) in Hc. cbn in Hc. assert (c = O) by lia. subst c.
    exfalso. vm_compute in Iff. destruct Iff as [X _]. specialize (X eq_refl). discriminate.
  - intros c Hc E N. rewrite (proj2 (init_problem _ _)) in Hc. cbn in Hc. assert (c = O) by lia. subst c.
    vm_compute in E. discriminate.
  - intros i o Hi Ho E N. rewrite (proj2 (init_problem _ _)) in Hi. cbn in Hi. assert (i = O) by lia. subst i.
    vm_compute in E. discriminate.
Qed.
(* the state-level hypotheses (also those of StaticOutHeap.merge_right_all_sat_closed) *)
Lemma mx_inh : inhabited (base (static_init mx_vs mx_cs)) 0.
Proof. exists O. split; vm_compute; [lia | reflexivity]. Qed.
Lemma mx_T2 : T2 (static_init mx_vs mx_cs).
Proof. intros B. unfold btime_of, static_init. cbn [btime ctr]. rewrite nth_repeat_O. lia. Qed.
Lemma mx_lct : length (ctime (static_init mx_vs mx_cs)) = length (scons (base (static_init mx_vs mx_cs))).
Proof. vm_compute. reflexivity. Qed.
Lemma mx_lbo : (length (blocks (base (static_init mx_vs mx_cs))) <= length (bout (static_init mx_vs mx_cs)))%nat.
Proof. vm_compute. lia. Qed.
Definition mx_returns0 : bool :=
  match merge_right (static_init mx_vs mx_cs) 0 with Ok s' => all_satb s' | _ => false end.
Lemma mx_returns0_true : mx_returns0 = true. Proof. vm_compute. reflexivity. Qed.

(* the root hypothesis of the _partial theorem holds here because it holds in general (StaticOutHeap.MRH_roots); stated
   through one boolean computation - `vm_compute in H` on an equation with free variables made Qed take minutes *)
Example merge_right_all_sat_example :
  MRI (base (static_init mx_vs mx_cs)) 0 /\
  (forall s1 c, find_min_out (set_up_heap false (static_init mx_vs mx_cs) 0) 0 = Ok (s1, c) ->
                mr_roots_ok (loop_fuel (static_init mx_vs mx_cs)) s1 0 c) /\
  (exists s', merge_right (static_init mx_vs mx_cs) 0 = Ok s') /\
  slack_val (base (static_init mx_vs mx_cs)) 0 < 0.
Proof.
  split; [exact mx_MRI|]. split; [|split].
  - intros s1 c H. apply MRH_roots.
    exact (MRH_entry (static_init mx_vs mx_cs) 0 s1 c mx_MRI mx_inh mx_T2 mx_lct mx_lbo H).
  - pose proof mx_returns0_true as P. unfold mx_returns0 in P.
    destruct (merge_right (static_init mx_vs mx_cs) 0) as [s'| |]; try discriminate. exists s'. reflexivity.
  - vm_compute. reflexivity.
Qed.
