(* Invariants of the static Solver model (Vpsc/StaticModel.v), proved for every state its merge pass visits:
     heap_ok : every element of the in-heap (out-heap) of a block that still has variables is a constraint index whose
               right (left) end lies in that block;
     book, act_inv (VpscInv.v): active => both ends in one block and offsets differ exactly by the gap.
   Consequence (static_satisfy_sat): if Solver::satisfy returns, every constraint has slack >= -1e-10 and every ACTIVE
   constraint has slack exactly 0.  The step functions are VpscModel.merge_into etc., so the IncSolver lemmas
   (merge_into_preserves) are reused; what is new is the heap / time-stamp bookkeeping around them. *)
From Adapt Require Import Num.Qaux Vpsc.VpscSpec Vpsc.VpscModel Vpsc.VpscInv Vpsc.VpscFrame Vpsc.VpscWalks Vpsc.VpscForest
  Vpsc.StaticModel Vpsc.StaticFrame Vpsc.StaticHeap.
Local Open Scope Q_scope.

(* ------------------------------------------------------------------ heaps of a state *)
Definition heaps_eq (s s' : sst) : Prop := bin s' = bin s /\ bout s' = bout s.
Lemma heaps_eq_refl s : heaps_eq s s. Proof. split; reflexivity. Qed.
Lemma heaps_eq_trans a b c : heaps_eq a b -> heaps_eq b c -> heaps_eq a c.
Proof. intros [A B] [C D]. split; congruence. Qed.
Lemma heaps_eq_heap_of s s' inn b : heaps_eq s s' -> heap_of s' inn b = heap_of s inn b.
Proof. intros [A B]. unfold heap_of, bin_of, bout_of. rewrite A, B. reflexivity. Qed.

Lemma heaps_eq_snote_b s t : heaps_eq s (snote_b s t). Proof. destruct t; split; reflexivity. Qed.
Lemma heaps_eq_snote_slack e s c z : heaps_eq s (snote_slack e s c z).
Proof. unfold snote_slack. destruct (_ && _); split; reflexivity. Qed.
Lemma heaps_eq_s_insert s h c : heaps_eq s (fst (s_insert s h c)).
Proof. unfold s_insert. destruct (h_insert _ _ h c). cbn [fst]. apply heaps_eq_snote_b. Qed.
Lemma heaps_eq_s_delete_min s h : heaps_eq s (fst (s_delete_min s h)).
Proof. unfold s_delete_min. destruct (h_delete_min _ _ h). cbn [fst]. apply heaps_eq_snote_b. Qed.
Lemma heaps_eq_s_merge s h g : heaps_eq s (fst (s_merge s h g)).
Proof. unfold s_merge. destruct (h_merge _ _ h g). cbn [fst]. apply heaps_eq_snote_b. Qed.

Lemma s_insert_elems s h c x : In x (heap_elems (snd (s_insert s h c))) -> x = c \/ In x (heap_elems h).
Proof.
  unfold s_insert. destruct (h_insert (cmp_less s) (nr_of s) h c) as [h' t] eqn:E. cbn [snd]. intros H.
  apply (h_insert_elems (cmp_less s) (nr_of s)). rewrite E. exact H.
Qed.
Lemma s_insert_min s h c :
  heap_min (snd (s_insert s h c)) = Some c \/ (heap_min h <> None /\ heap_min (snd (s_insert s h c)) = heap_min h).
Proof.
  unfold s_insert. destruct (h_insert (cmp_less s) (nr_of s) h c) as [h' t] eqn:E. cbn [snd].
  pose proof (h_insert_min (cmp_less s) (nr_of s) h c) as H. rewrite E in H. exact H.
Qed.
Lemma s_delete_min_elems s h x : In x (heap_elems (snd (s_delete_min s h))) -> In x (heap_elems h).
Proof.
  unfold s_delete_min. destruct (h_delete_min (cmp_less s) (nr_of s) h) as [h' t] eqn:E. cbn [snd]. intros H.
  apply (h_delete_min_elems (cmp_less s) (nr_of s)). rewrite E. exact H.
Qed.
Lemma s_merge_elems s h g x : In x (heap_elems (snd (s_merge s h g))) -> In x (heap_elems h) \/ In x (heap_elems g).
Proof.
  unfold s_merge. destruct (h_merge (cmp_less s) (nr_of s) h g) as [h' t] eqn:E. cbn [snd]. intros H.
  apply (h_merge_elems (cmp_less s) (nr_of s)). rewrite E. exact H.
Qed.

Lemma nth_upd_nth_cases {A} (l : list A) n m v d :
  nth m (upd_nth l n v) d = nth m l d \/ (m = n /\ (n < length l)%nat /\ nth m (upd_nth l n v) d = v).
Proof.
  destruct (Nat.eq_dec n m) as [<-|N].
  - destruct (Nat.lt_ge_cases n (length l)) as [L|L].
    + right. split; [reflexivity|]. split; [exact L|]. apply nth_upd_nth_eq. exact L.
    + left. rewrite !nth_overflow; [reflexivity | exact L | rewrite upd_nth_length; exact L].
  - left. apply nth_upd_nth_neq. exact N.
Qed.
(* a heap written by set_heap: every heap is the old one, or it is the written slot *)
Lemma heap_of_set_heap s inn b h inn' b' :
  heap_of (set_heap s inn b h) inn' b' = heap_of s inn' b' \/
  (inn' = inn /\ b' = b /\ heap_of (set_heap s inn b h) inn' b' = h).
Proof.
  unfold heap_of, set_heap, bin_of, bout_of. destruct inn, inn'; cbn [bin bout set_bin set_bout]; try (left; reflexivity).
  - destruct (nth_upd_nth_cases (bin s) b b' h None) as [E|[E1 [_ E2]]]; [left; exact E | right; auto].
  - destruct (nth_upd_nth_cases (bout s) b b' h None) as [E|[E1 [_ E2]]]; [left; exact E | right; auto].
Qed.
Lemma heap_of_set_heap_same s inn b h x : heap_of s inn b = Some x -> heap_of (set_heap s inn b h) inn b = h.
Proof.
  unfold heap_of, set_heap, bin_of, bout_of. intros H.
  destruct inn; cbn [bin bout set_bin set_bout]; apply nth_upd_nth_eq;
    (destruct (Nat.lt_ge_cases b (length (if true then bin s else bout s))) as [L|L]; cbn in L);
    try exact L.
  - rewrite nth_overflow in H by exact L. discriminate.
  - destruct (Nat.lt_ge_cases b (length (bout s))) as [L'|L']; [exact L'|]. rewrite nth_overflow in H by exact L'. discriminate.
  - destruct (Nat.lt_ge_cases b (length (bout s))) as [L'|L']; [exact L'|]. rewrite nth_overflow in H by exact L'. discriminate.
Qed.

(* ------------------------------------------------------------------ findMinInConstraint *)
Definition extc (b : st) (c : nat) : Prop := blk_of b (cl (con_of b c)) <> blk_of b (cr (con_of b c)).

Lemma fmi_loop_spec : forall fuel s h ood s' h' ood',
  fmi_loop fuel s h ood = Ok (s', h', ood') ->
  base s' = base s /\ heaps_eq s s' /\
  (forall x, In x (heap_elems h') \/ In x ood' -> In x (heap_elems h) \/ In x ood) /\
  (forall v, In v ood' -> In v ood \/ extc (base s) v) /\
  (forall v, heap_min h' = Some v -> extc (base s) v).
Proof.
  induction fuel as [|f IH]; intros s h ood s' h' ood' H; [discriminate|].
  cbn [fmi_loop] in H. destruct h as [[v kids]|].
  2:{ inversion H. subst. repeat split; auto using heaps_eq_refl. intros v E. discriminate. }
  destruct (Nat.eqb (lblk s v) (rblk s v)) eqn:EQ.
  - destruct (s_delete_min s (Some (PH v kids))) as [s1 h1] eqn:E.
    assert (B1 : base s1 = base s) by (rewrite <- (base_s_delete_min s (Some (PH v kids))), E; reflexivity).
    assert (Q1 : heaps_eq s s1) by (pose proof (heaps_eq_s_delete_min s (Some (PH v kids))) as Q; rewrite E in Q; exact Q).
    assert (S1 : forall x, In x (heap_elems h1) -> In x (heap_elems (Some (PH v kids)))).
    { intros x Hx. apply (s_delete_min_elems s). rewrite E. exact Hx. }
    destruct (IH _ _ _ _ _ _ H) as [A [B [C [D F]]]].
    split; [congruence|]. split; [apply (heaps_eq_trans _ s1); assumption|]. split; [|split].
    + intros x Hx. destruct (C x Hx) as [Y|Y]; [left; apply S1; exact Y | right; exact Y].
    + intros w Hw. rewrite B1 in D. exact (D w Hw).
    + intros w Hw. rewrite B1 in F. exact (F w Hw).
  - destruct (Nat.ltb (ctime_of s v) (btime_of s (lblk s v))).
    + destruct (s_delete_min s (Some (PH v kids))) as [s1 h1] eqn:E.
      assert (B1 : base s1 = base s) by (rewrite <- (base_s_delete_min s (Some (PH v kids))), E; reflexivity).
      assert (Q1 : heaps_eq s s1) by (pose proof (heaps_eq_s_delete_min s (Some (PH v kids))) as Q; rewrite E in Q; exact Q).
      assert (S1 : forall x, In x (heap_elems h1) -> In x (heap_elems (Some (PH v kids)))).
      { intros x Hx. apply (s_delete_min_elems s). rewrite E. exact Hx. }
      destruct (IH _ _ _ _ _ _ H) as [A [B [C [D F]]]].
      split; [congruence|]. split; [apply (heaps_eq_trans _ s1); assumption|]. split; [|split].
      * intros x Hx. destruct (C x Hx) as [Y|Y]; [left; apply S1; exact Y|].
        apply in_app_or in Y. destruct Y as [Y|[Y|[]]]; [right; exact Y|]. subst x. left. cbn. left. reflexivity.
      * intros w Hw. rewrite B1 in D. destruct (D w Hw) as [Y|Y]; [|right; exact Y].
        apply in_app_or in Y. destruct Y as [Y|[Y|[]]]; [left; exact Y|]. subst w. right.
        apply Nat.eqb_neq in EQ. exact EQ.
      * intros w Hw. rewrite B1 in F. exact (F w Hw).
    + inversion H. subst. split; [reflexivity|]. split; [apply heaps_eq_refl|]. split; [auto|]. split; [auto|].
      intros w Hw. cbn in Hw. inversion Hw. subst w. apply Nat.eqb_neq in EQ. exact EQ.
Qed.

Lemma reinsert_fold_spec : forall ood s h s2 h2,
  fold_left reinsert ood (s, h) = (s2, h2) ->
  base s2 = base s /\ heaps_eq s s2 /\
  (forall x, In x (heap_elems h2) -> In x (heap_elems h) \/ In x ood) /\
  (forall c, heap_min h2 = Some c -> In c ood \/ heap_min h = Some c).
Proof.
  induction ood as [|v t IH]; intros s h s2 h2 H; cbn [fold_left] in H.
  - inversion H. subst. repeat split; auto using heaps_eq_refl.
  - unfold reinsert at 2 in H.
    set (s0 := set_ctime_of s v (ctr s)) in *.
    destruct (s_insert s0 h v) as [s1 h1] eqn:E.
    assert (B1 : base s1 = base s) by (pose proof (base_s_insert s0 h v) as X; rewrite E in X; exact X).
    assert (Q1 : heaps_eq s s1).
    { pose proof (heaps_eq_s_insert s0 h v) as Q. rewrite E in Q. cbn [fst] in Q. destruct Q as [Q1 Q2]. split; [exact Q1 | exact Q2]. }
    destruct (IH _ _ _ _ H) as [A [B [C D]]].
    split; [congruence|]. split; [apply (heaps_eq_trans _ s1); assumption|]. split.
    + intros x Hx. destruct (C x Hx) as [Y|Y]; [|right; right; exact Y].
      assert (Y' : In x (heap_elems (snd (s_insert s0 h v)))) by (rewrite E; exact Y).
      apply s_insert_elems in Y'. destruct Y' as [->|Y']; [right; left; reflexivity | left; exact Y'].
    + intros c Hc. destruct (D c Hc) as [Y|Y]; [left; right; exact Y|].
      pose proof (s_insert_min s0 h v) as M. rewrite E in M. cbn [snd] in M.
      destruct M as [M|[_ M]]; [left; left; congruence | right; congruence].
Qed.

Lemma find_min_in_spec s b s' c :
  find_min_in s b = Ok (s', c) ->
  base s' = base s /\
  (forall inn' b', (inn' = true /\ b' = b) \/ heap_of s' inn' b' = heap_of s inn' b') /\
  (exists h h', bin_of s b = Some h /\ bin_of s' b = Some h' /\
                (forall x, In x (heap_elems h') -> In x (heap_elems h)) /\ heap_min h' = c) /\
  (forall c0, c = Some c0 -> extc (base s) c0).
Proof.
  unfold find_min_in. destruct (bin_of s b) as [h|] eqn:Hb; [|discriminate]. intros H.
  apply bind_ok in H. destruct H as [[[s1 h1] ood] [H1 H2]].
  destruct (fmi_loop_spec _ _ _ _ _ _ _ H1) as [B1 [Q1 [C1 [D1 F1]]]].
  destruct (fold_left reinsert ood (s1, h1)) as [s2 h2] eqn:E2.
  destruct (reinsert_fold_spec _ _ _ _ _ E2) as [B2 [Q2 [C2 D2]]].
  assert (Es : s' = set_heap s2 true b (Some h2)) by congruence.
  assert (Ec : c = heap_min h2) by congruence. subst s' c. clear H2.
  assert (Q : heaps_eq s s2) by (apply (heaps_eq_trans _ s1); assumption).
  split; [rewrite base_set_heap; congruence|]. split; [|split].
  - intros inn' b'. destruct (heap_of_set_heap s2 true b (Some h2) inn' b') as [E|[E1 [E3 _]]]; [|left; auto].
    right. rewrite E. apply heaps_eq_heap_of. exact Q.
  - exists h, h2. split; [reflexivity|]. split.
    + change (heap_of (set_heap s2 true b (Some h2)) true b = Some h2). apply (heap_of_set_heap_same _ _ _ _ h).
      rewrite (heaps_eq_heap_of s s2 true b Q). exact Hb.
    + split; [|reflexivity]. intros x Hx. destruct (C2 x Hx) as [Y|Y].
      * destruct (C1 x (or_introl Y)) as [Z|[]]. exact Z.
      * destruct (C1 x (or_intror Y)) as [Z|[]]. exact Z.
  - intros c0 Hc. destruct (D2 c0 Hc) as [Y|Y].
    + destruct (D1 c0 Y) as [[]|Z]. exact Z.
    + exact (F1 c0 Y).
Qed.

Lemma delete_min_in_spec s b s' :
  delete_min true s b = Ok s' ->
  base s' = base s /\
  (forall inn' b', (inn' = true /\ b' = b) \/ heap_of s' inn' b' = heap_of s inn' b') /\
  (exists h h', bin_of s b = Some h /\ bin_of s' b = Some h' /\ (forall x, In x (heap_elems h') -> In x (heap_elems h))).
Proof.
  unfold delete_min. cbn [heap_of]. destruct (bin_of s b) as [h|] eqn:Hb; [|discriminate].
  destruct (s_delete_min s h) as [s1 h1] eqn:E. intros H.
  assert (Es : s' = set_heap s1 true b (Some h1)) by congruence. subst s'. clear H.
  assert (B1 : base s1 = base s) by (rewrite <- (base_s_delete_min s h), E; reflexivity).
  assert (Q1 : heaps_eq s s1) by (pose proof (heaps_eq_s_delete_min s h) as Q; rewrite E in Q; exact Q).
  split; [rewrite base_set_heap; exact B1|]. split.
  - intros inn' b'. destruct (heap_of_set_heap s1 true b (Some h1) inn' b') as [X|[X1 [X2 _]]]; [|left; auto].
    right. rewrite X. apply heaps_eq_heap_of. exact Q1.
  - exists h, h1. split; [reflexivity|]. split.
    + change (heap_of (set_heap s1 true b (Some h1)) true b = Some h1). apply (heap_of_set_heap_same _ _ _ _ h).
      rewrite (heaps_eq_heap_of s s1 true b Q1). exact Hb.
    + intros x Hx. apply (s_delete_min_elems s). rewrite E. exact Hx.
Qed.

Lemma set_up_heap_in_spec s b :
  let s' := set_up_heap true s b in
  base s' = base s /\
  (forall inn' b', (inn' = true /\ b' = b) \/ heap_of s' inn' b' = heap_of s inn' b') /\
  (bin_of s' b = bin_of s b \/
   exists h', bin_of s' b = Some h' /\
     forall x, In x (heap_elems h') -> exists v, In v (bvars (block_of (base s) b)) /\ In x (ins_of (base s) v)).
Proof.
  cbv zeta. split; [apply base_set_up_heap|].
  unfold set_up_heap.
  set (P := fun acc : sst * heap =>
              heaps_eq s (fst acc) /\
              forall x, In x (heap_elems (snd acc)) -> exists v, In v (bvars (block_of (base s) b)) /\ In x (ins_of (base s) v)).
  match goal with |- context [fold_left ?f ?l ?a] => assert (I : P (fold_left f l a)) end.
  { apply (fold_left_inv _ P).
    - intros acc v Hv Pa. apply (fold_left_inv _ P); [|exact Pa].
      intros [s1 h1] c Hc [Q E]. cbn [fst snd] in *. unfold heap_add.
      set (s2 := set_ctime_of s1 c (ctr s1)).
      assert (Q2 : heaps_eq s s2) by (destruct Q as [Q1 Q2]; split; [exact Q1 | exact Q2]).
      destruct (negb (Nat.eqb (lblk s2 c) b)).
      + split.
        * apply (heaps_eq_trans _ s2); [exact Q2 | apply heaps_eq_s_insert].
        * intros x Hx. apply s_insert_elems in Hx. destruct Hx as [->|Hx]; [exists v; split; assumption | exact (E x Hx)].
      + split; [exact Q2 | exact E].
    - split; [apply heaps_eq_refl | intros x []]. }
  match goal with |- context [fold_left ?f ?l ?a] => destruct (fold_left f l a) as [s1 h1] end.
  destruct I as [Q E]. cbn [fst snd] in *.
  split.
  - intros inn' b'. destruct (heap_of_set_heap s1 true b (Some h1) inn' b') as [X|[X1 [X2 _]]]; [|left; auto].
    right. rewrite X. apply heaps_eq_heap_of. exact Q.
  - destruct (heap_of_set_heap s1 true b (Some h1) true b) as [X|[_ [_ X]]].
    + left. change (heap_of (set_heap s1 true b (Some h1)) true b = heap_of s true b). rewrite X. apply heaps_eq_heap_of. exact Q.
    + right. exists h1. split; [exact X | exact E].
Qed.

Lemma merge_heaps_in_spec s r l s' :
  r <> l -> merge_heaps true s r l = Ok s' ->
  base s' = base s /\
  (forall inn' b', (inn' = true /\ (b' = r \/ b' = l)) \/ heap_of s' inn' b' = heap_of s inn' b') /\
  (forall h', bin_of s' r = Some h' -> forall x, In x (heap_elems h') ->
     (exists hr, bin_of s r = Some hr /\ In x (heap_elems hr)) \/ (exists hl, bin_of s l = Some hl /\ In x (heap_elems hl))).
Proof.
  intros Hne H. pose proof (merge_heaps_base _ _ _ _ _ H) as B. split; [exact B|].
  unfold merge_heaps in H.
  apply bind_ok in H. destruct H as [[s1 c1] [H1 H]].
  apply bind_ok in H. destruct H as [[s2 c2] [H2 H]]. cbn [fst] in *.
  destruct (find_min_in_spec _ _ _ _ H1) as [B1 [O1 [[hr [hr1 [R1 [R2 [R3 _]]]]] _]]].
  destruct (find_min_in_spec _ _ _ _ H2) as [B2 [O2 [[hl [hl2 [L1 [L2 [L3 _]]]]] _]]].
  cbn [heap_of] in H.
  assert (Er : bin_of s2 r = Some hr1).
  { destruct (O2 true r) as [[_ X]|X]; [congruence|]. cbn [heap_of] in X. congruence. }
  assert (El : bin_of s1 l = bin_of s l).
  { destruct (O1 true l) as [[_ X]|X]; [congruence|]. exact X. }
  rewrite Er, L2 in H.
  destruct (s_merge s2 hr1 hl2) as [s3 h] eqn:E.
  assert (Es : s' = set_heap (set_heap s3 true r (Some h)) true l (Some None)) by congruence. subst s'. clear H.
  assert (Q3 : heaps_eq s2 s3) by (pose proof (heaps_eq_s_merge s2 hr1 hl2) as Q; rewrite E in Q; exact Q).
  split.
  - intros inn' b'.
    destruct (heap_of_set_heap (set_heap s3 true r (Some h)) true l (Some None) inn' b') as [X|[X1 [X2 _]]]; [|left; auto].
    destruct (heap_of_set_heap s3 true r (Some h) inn' b') as [Y|[Y1 [Y2 _]]]; [|left; auto].
    rewrite X, Y, (heaps_eq_heap_of s2 s3 inn' b' Q3).
    destruct (O2 inn' b') as [[Z1 Z2]|Z]; [left; auto|]. rewrite Z.
    destruct (O1 inn' b') as [[Z1 Z2]|Z']; [left; auto|]. right. exact Z'.
  - intros h' Hh' x Hx.
    change (heap_of (set_heap (set_heap s3 true r (Some h)) true l (Some None)) true r = Some h') in Hh'.
    destruct (heap_of_set_heap (set_heap s3 true r (Some h)) true l (Some None) true r) as [X|[_ [X _]]]; [|congruence].
    rewrite X in Hh'.
    assert (Hin : In x (heap_elems h) \/ In x (heap_elems hr1)).
    { destruct (heap_of_set_heap s3 true r (Some h) true r) as [Y|[_ [_ Y]]].
      - right. rewrite Y, (heaps_eq_heap_of s2 s3 true r Q3) in Hh'. cbn [heap_of] in Hh'. rewrite Er in Hh'.
        inversion Hh'. subst h'. exact Hx.
      - left. rewrite Y in Hh'. inversion Hh'. subst h'. exact Hx. }
    assert (Hin2 : In x (heap_elems hr1) \/ In x (heap_elems hl2)).
    { destruct Hin as [Hin|Hin]; [|left; exact Hin]. apply (s_merge_elems s2). rewrite E. exact Hin. }
    destruct Hin2 as [Hin2|Hin2].
    + left. exists hr. split; [exact R1 | exact (R3 x Hin2)].
    + right. exists hl. split; [congruence | exact (L3 x Hin2)].
Qed.

(* ------------------------------------------------------------------ the invariant *)
Definition inhabited (b : st) (B : nat) : Prop := exists v, (v < length (svars b))%nat /\ blk_of b v = B.
Definition heap_ok_in (s : sst) : Prop :=
  forall B h c, bin_of s B = Some h -> In c (heap_elems h) -> inhabited (base s) B ->
    (c < length (scons (base s)))%nat /\ rblk s c = B.
Definition SI (s : sst) : Prop := book (base s) /\ act_inv (base s) /\ heap_ok_in s.

Lemma heap_ok_in_frame s s' :
  base s' = base s -> (forall B, bin_of s' B = bin_of s B) -> heap_ok_in s -> heap_ok_in s'.
Proof.
  intros Eb Eh H B h c Hb Hc Hi. unfold rblk. rewrite Eb in *. rewrite Eh in Hb. exact (H B h c Hb Hc Hi).
Qed.

Lemma con_ends_lt b c : book b -> (c < length (scons b))%nat ->
  (cl (con_of b c) < length (svars b))%nat /\ (cr (con_of b c) < length (svars b))%nat.
Proof. intros BK Hc. apply (bk_cons b BK). unfold con_of. apply nth_In. exact Hc. Qed.

(* one iteration of mergeLeft's loop *)
Lemma ml_body_inv s r c h0 s' r' c' :
  SI s -> inhabited (base s) r ->
  bin_of s r = Some h0 -> heap_min h0 = Some c -> extc (base s) c ->
  ml_body s r c = Ok (s', r', c') ->
  SI s' /\ inhabited (base s') r' /\
  (forall c0, c' = Some c0 -> exists h, bin_of s' r' = Some h /\ heap_min h = Some c0 /\ extc (base s') c0).
Proof.
  intros [BK [AI HO]] Hr Hh0 Hmin Hext H.
  destruct (HO r h0 c Hh0 (heap_min_in _ _ Hmin) Hr) as [Hc Hrb].
  destruct (con_ends_lt _ _ BK Hc) as [Hl Hrr].
  unfold ml_body in H.
  apply bind_ok in H. destruct H as [s1 [H1 H]].
  destruct (delete_min_in_spec _ _ _ H1) as [B1 [O1 [hd [hd' [D1 [D2 D3]]]]]].
  assert (HO1 : heap_ok_in s1).
  { intros B h x Hb Hx Hi. unfold rblk. rewrite B1 in *.
    destruct (O1 true B) as [[_ ->]|E].
    - rewrite D2 in Hb. inversion Hb. subst h. apply (HO r hd x D1 (D3 x Hx) Hi).
    - cbn [heap_of] in E. rewrite E in Hb. exact (HO B h x Hb Hx Hi). }
  set (l := lblk s1 c) in *.
  assert (El : l = blk_of (base s) (cl (con_of (base s) c))) by (unfold l, lblk; rewrite B1; reflexivity).
  assert (Hrb' : blk_of (base s) (cr (con_of (base s) c)) = r) by exact Hrb.
  assert (Hne : l <> r) by (rewrite El, <- Hrb'; exact Hext).
  set (s2 := match bin_of s1 l with None => set_up_heap true s1 l | Some _ => s1 end) in *.
  assert (B2 : base s2 = base s).
  { unfold s2. destruct (bin_of s1 l); [exact B1 | rewrite base_set_up_heap; exact B1]. }
  assert (HO2 : heap_ok_in s2).
  { unfold s2. destruct (bin_of s1 l) eqn:Ebl; [exact HO1|].
    destruct (set_up_heap_in_spec s1 l) as [Bu [Ou Nu]]. cbv zeta in *.
    intros B h x Hb Hx Hi. unfold rblk. rewrite Bu in *.
    destruct (Ou true B) as [[_ ->]|E].
    - destruct Nu as [Nu|[h' [Nu1 Nu2]]]; [rewrite Nu, Ebl in Hb; discriminate|].
      rewrite Nu1 in Hb. inversion Hb. subst h'. destruct (Nu2 x Hx) as [v [Hv Hxv]].
      rewrite B1 in *. apply ins_of_In in Hxv. destruct Hxv as [Hxm Hxr]. split; [exact Hxm|].
      rewrite Hxr. rewrite El in Hv. apply (bk_mem _ BK _ v Hl) in Hv. rewrite El. exact (proj2 Hv).
    - cbn [heap_of] in E. rewrite E in Hb. exact (HO1 B h x Hb Hx Hi). }
  set (k := con_of (base s1) c) in *.
  assert (Ek : k = con_of (base s) c) by (unfold k; rewrite B1; reflexivity).
  set (dist := off_of (base s2) (cr k) - off_of (base s2) (cl k) - gap k) in *.
  set (sw := Nat.ltb (nvars s2 r) (nvars s2 l)) in *.
  set (rr := if sw then l else r) in *. set (ll := if sw then r else l) in *.
  set (dd := if sw then - dist else dist) in *.
  apply bind_ok in H. destruct H as [s5 [H5 H]].
  apply bind_ok in H. destruct H as [[s9 c9] [H9 H]].
  assert (E' : s' = s9 /\ r' = rr /\ c' = c9) by (inversion H; auto). destruct E' as [-> [-> ->]]. clear H.
  assert (Hnerl : rr <> ll) by (unfold rr, ll; destruct sw; congruence).
  set (s4 := set_base (set_ctr s2 (S (ctr s2))) (merge_into (base (set_ctr s2 (S (ctr s2)))) rr ll c dd)) in *.
  destruct (merge_heaps_in_spec _ _ _ _ Hnerl H5) as [B5 [O5 M5]].
  set (s6 := set_btime s5 (upd_nth (btime s5) rr (ctr s5))) in *.
  destruct (find_min_in_spec _ _ _ _ H9) as [B9 [O9 [[h6 [h9 [F1 [F2 [F3 F4]]]]] F5]]].
  (* the merge step on the VpscModel part *)
  set (b0 := base s) in *.
  assert (Eb4 : base s4 = merge_into b0 rr ll c dd) by (unfold s4; cbn [base set_base set_ctr]; rewrite B2; reflexivity).
  assert (Hx : exists x y, (x < length (svars b0))%nat /\ (y < length (svars b0))%nat /\ blk_of b0 x = rr /\ blk_of b0 y = ll).
  { unfold rr, ll. destruct sw.
    - exists (cl (con_of b0 c)), (cr (con_of b0 c)). rewrite <- El. auto.
    - exists (cr (con_of b0 c)), (cl (con_of b0 c)). rewrite <- El. auto. }
  destruct Hx as [x [y [Hx [Hy [Bx By]]]]].
  assert (Hends :
    (blk_of b0 (cl (con_of b0 c)) = rr /\ blk_of b0 (cr (con_of b0 c)) = ll /\
     off_of b0 (cr (con_of b0 c)) + dd - off_of b0 (cl (con_of b0 c)) == gap (con_of b0 c)) \/
    (blk_of b0 (cr (con_of b0 c)) = rr /\ blk_of b0 (cl (con_of b0 c)) = ll /\
     off_of b0 (cr (con_of b0 c)) - (off_of b0 (cl (con_of b0 c)) + dd) == gap (con_of b0 c))).
  { unfold rr, ll, dd, dist. rewrite B2, Ek. fold b0. destruct sw.
    - left. rewrite <- El. split; [reflexivity|]. split; [exact Hrb'|]. lra.
    - right. rewrite <- El. split; [exact Hrb'|]. split; [reflexivity|]. lra. }
  destruct (merge_into_preserves b0 rr ll c dd x y BK AI Hx Hy Bx By Hnerl Hc Hends) as [BK4 AI4].
  pose proof (merge_into_facts b0 rr ll c dd x y BK Hx Hy Bx By Hnerl) as MF.
  assert (Eb9 : base s9 = merge_into b0 rr ll c dd).
  { rewrite B9. unfold s6. cbn [base set_btime]. rewrite B5. exact Eb4. }
  set (b9 := merge_into b0 rr ll c dd) in *.
  assert (Inh : forall B, inhabited b9 B -> B <> ll /\ (B <> rr -> inhabited b0 B)).
  { intros B [w [Hw Hb]]. rewrite (mg_svars _ _ _ _ _ MF) in Hw.
    destruct (mg_blk _ _ _ _ _ MF w Hw) as [M1 M2].
    destruct (Nat.eq_dec (blk_of b0 w) ll) as [E|E].
    - rewrite (M1 E) in Hb. subst B. split; [exact Hnerl | congruence].
    - rewrite (M2 E) in Hb. split; [congruence|]. intros _. exists w. auto. }
  assert (Rb : forall z B, (z < length (scons b0))%nat ->
                 blk_of b0 (cr (con_of b0 z)) = B -> blk_of b9 (cr (con_of b9 z)) = (if Nat.eqb B ll then rr else B)).
  { intros z B Hz Hb. assert (Ec : con_of b9 z = con_of b0 z) by (unfold con_of; rewrite (mg_scons _ _ _ _ _ MF); reflexivity).
    rewrite Ec. destruct (con_ends_lt _ _ BK Hz) as [_ Hzr].
    destruct (mg_blk _ _ _ _ _ MF _ Hzr) as [M1 M2].
    destruct (Nat.eqb B ll) eqn:EB.
    - apply Nat.eqb_eq in EB. subst B. exact (M1 EB).
    - apply Nat.eqb_neq in EB. rewrite M2; congruence. }
  (* heaps at s2 are those at s4 *)
  assert (H24 : forall B, bin_of s4 B = bin_of s2 B) by reflexivity.
  assert (HO9 : heap_ok_in s9).
  { intros B h z Hb Hz Hi. unfold rblk. rewrite Eb9 in *. fold b9 in Hi |- *.
    destruct (Inh B Hi) as [Nl Io].
    rewrite (mg_scons _ _ _ _ _ MF).
    destruct (Nat.eq_dec B rr) as [->|Nr].
    - (* the merged heap *)
      rewrite F2 in Hb. inversion Hb. subst h. apply F3 in Hz.
      assert (F1' : bin_of s5 rr = Some h6) by exact F1.
      destruct (M5 h6 F1' z Hz) as [[hr [Hr1 Hr2]]|[hl [Hl1 Hl2]]].
      + rewrite H24 in Hr1.
        assert (Io' : inhabited (base s2) rr) by (rewrite B2; exists x; auto).
        destruct (HO2 rr hr z Hr1 Hr2 Io') as [Hzm Hzb]. unfold rblk in Hzb. rewrite B2 in Hzm, Hzb. fold b0 in Hzm, Hzb.
        split; [exact Hzm|]. rewrite (Rb z rr Hzm Hzb).
        destruct (Nat.eqb rr ll) eqn:EE; [apply Nat.eqb_eq in EE; congruence | reflexivity].
      + rewrite H24 in Hl1.
        assert (Io' : inhabited (base s2) ll) by (rewrite B2; exists y; auto).
        destruct (HO2 ll hl z Hl1 Hl2 Io') as [Hzm Hzb]. unfold rblk in Hzb. rewrite B2 in Hzm, Hzb. fold b0 in Hzm, Hzb.
        split; [exact Hzm|]. rewrite (Rb z ll Hzm Hzb). rewrite Nat.eqb_refl. reflexivity.
    - (* an untouched heap *)
      destruct (O9 true B) as [[_ E]|E]; [congruence|]. cbn [heap_of] in E. rewrite E in Hb.
      change (bin_of s6 B) with (bin_of s5 B) in Hb.
      destruct (O5 true B) as [[_ [E5|E5]]|E5]; [congruence | congruence |]. cbn [heap_of] in E5. rewrite E5, H24 in Hb.
      assert (Io' : inhabited (base s2) B) by (rewrite B2; exact (Io Nr)).
      destruct (HO2 B h z Hb Hz Io') as [Hzm Hzb]. unfold rblk in Hzb. rewrite B2 in Hzm, Hzb. fold b0 in Hzm, Hzb.
      split; [exact Hzm|]. rewrite (Rb z B Hzm Hzb).
      destruct (Nat.eqb B ll) eqn:EE; [apply Nat.eqb_eq in EE; congruence | reflexivity]. }
  split; [|split].
  - split; [rewrite Eb9; exact BK4|]. split; [rewrite Eb9; exact AI4 | exact HO9].
  - rewrite Eb9. exists x. rewrite (mg_svars _ _ _ _ _ MF). split; [exact Hx|].
    destruct (mg_blk _ _ _ _ _ MF x Hx) as [_ M2]. rewrite M2; congruence.
  - intros c0 Ec0. exists h9. split; [exact F2|]. split; [congruence|].
    rewrite B9. apply F5. exact Ec0.
Qed.

Lemma SI_snote_slack e s c z : SI s -> SI (snote_slack e s c z).
Proof.
  intros [A [B C]]. unfold SI. rewrite base_snote_slack. split; [exact A|]. split; [exact B|].
  apply (heap_ok_in_frame s); [apply base_snote_slack | | exact C].
  intros B0. unfold bin_of. rewrite (proj1 (heaps_eq_snote_slack e s c z)). reflexivity.
Qed.

Lemma ml_loop_inv : forall fuel s r c s',
  SI s -> inhabited (base s) r ->
  (forall c0, c = Some c0 -> exists h, bin_of s r = Some h /\ heap_min h = Some c0 /\ extc (base s) c0) ->
  ml_loop fuel s r c = Ok s' -> SI s'.
Proof.
  induction fuel as [|f IH]; intros s r c s' I Hr Hc H; [discriminate|].
  cbn [ml_loop] in H. destruct c as [c0|]; [|inversion H; subst; exact I].
  set (s0 := snote_slack TIE_EPS s c0 0) in *.
  assert (I0 : SI s0) by (apply SI_snote_slack; exact I).
  assert (B0 : base s0 = base s) by apply base_snote_slack.
  destruct (Qltb (sslack s0 c0) 0); [|inversion H; subst; exact I0].
  apply bind_ok in H. destruct H as [[[s1 r1] c1] [H1 H2]].
  destruct (Hc c0 eq_refl) as [h [Hh [Hm He]]].
  assert (Hh0 : bin_of s0 r = Some h).
  { unfold bin_of, s0. rewrite (proj1 (heaps_eq_snote_slack TIE_EPS s c0 0)). exact Hh. }
  rewrite <- B0 in Hr, He.
  destruct (ml_body_inv s0 r c0 h s1 r1 c1 I0 Hr Hh0 Hm He H1) as [I1 [Hr1 Hc1]].
  exact (IH _ _ _ _ I1 Hr1 Hc1 H2).
Qed.

Lemma merge_left_inv s r s' : SI s -> inhabited (base s) r -> merge_left s r = Ok s' -> SI s'.
Proof.
  intros [BK [AI HO]] Hr H. unfold merge_left in H.
  set (s1 := set_ctr s (S (ctr s))) in *. set (s2 := set_btime s1 (upd_nth (btime s1) r (ctr s1))) in *.
  set (s3 := set_up_heap true s2 r) in *.
  apply bind_ok in H. destruct H as [[s4 c4] [H4 H]]. cbn [fst snd] in H.
  destruct (set_up_heap_in_spec s2 r) as [Bu [Ou Nu]]. cbv zeta in Bu, Ou, Nu. fold s3 in Bu, Ou, Nu.
  assert (B3 : base s3 = base s) by exact Bu.
  destruct Hr as [w [Hw Hwb]].
  assert (HO3 : heap_ok_in s3).
  { intros B h x Hb Hx Hi. unfold rblk. rewrite B3 in *.
    destruct (Ou true B) as [[_ ->]|E].
    - destruct Nu as [Nu|[h' [Nu1 Nu2]]].
      + rewrite Nu in Hb. exact (HO r h x Hb Hx Hi).
      + rewrite Nu1 in Hb. inversion Hb. subst h'. destruct (Nu2 x Hx) as [v [Hv Hxv]].
        change (base s2) with (base s) in Hv, Hxv. apply ins_of_In in Hxv. destruct Hxv as [Hxm Hxr]. split; [exact Hxm|].
        rewrite Hxr. rewrite <- Hwb in Hv. apply (bk_mem _ BK _ v Hw) in Hv. rewrite <- Hwb. exact (proj2 Hv).
    - cbn [heap_of] in E. rewrite E in Hb. exact (HO B h x Hb Hx Hi). }
  destruct (find_min_in_spec _ _ _ _ H4) as [B4 [O4 [[h3 [h4 [F1 [F2 [F3 F4]]]]] F5]]].
  assert (I4 : SI s4).
  { split; [rewrite B4, B3; exact BK|]. split; [rewrite B4, B3; exact AI|].
    intros B h x Hb Hx Hi. unfold rblk. rewrite B4 in *.
    destruct (O4 true B) as [[_ ->]|E].
    - rewrite F2 in Hb. inversion Hb. subst h. exact (HO3 r h3 x F1 (F3 x Hx) Hi).
    - cbn [heap_of] in E. rewrite E in Hb. exact (HO3 B h x Hb Hx Hi). }
  apply (ml_loop_inv (loop_fuel s) s4 r c4 s' I4); [rewrite B4, B3; exists w; auto | | exact H].
  intros c0 Ec. exists h4. split; [exact F2|]. split; [congruence|]. rewrite B4. apply F5. exact Ec.
Qed.

(* ------------------------------------------------------------------ the total order lists variables *)
Lemma dfs_visit_range : forall fuel s v acc r,
  wf_cons (svars s) (scons s) -> (v < length (svars s))%nat ->
  Forall (fun w => (w < length (svars s))%nat) (snd acc) ->
  dfs_visit fuel s v acc = Ok r -> Forall (fun w => (w < length (svars s))%nat) (snd r).
Proof.
  induction fuel as [|f IH]; intros s v acc r W Hv Ha H; [discriminate|].
  cbn [dfs_visit] in H. apply bind_ok in H. destruct H as [a' [H1 H2]]. inversion H2. subst r. cbn [snd].
  constructor; [exact Hv|].
  set (g := fun (a' : list bool * list nat) (c : nat) =>
              let w := cr (con_of s c) in if nth w (fst a') false then Ok a' else dfs_visit f s w a') in *.
  destruct (fold_bind_inv g (fun a => Forall (fun w => (w < length (svars s))%nat) (snd a)) (outs_of s v))
    with (acc := Ok (upd_nth (fst acc) v true, snd acc)) (r := a') as [x0 [E0 R]].
  - intros x c x' Hc Ix G. unfold g in G. cbv zeta in G.
    destruct (nth _ _ _); [inversion G; subst; exact Ix|].
    apply (IH _ _ _ _ W) in G; [exact G | | exact Ix].
    apply outs_of_In in Hc. destruct Hc as [Hc _].
    apply (W (con_of s c)). unfold con_of. apply nth_In. exact Hc.
  - exact H1.
  - inversion E0. subst x0. apply R. exact Ha.
Qed.
Lemma total_order_range s order :
  wf_cons (svars s) (scons s) -> total_order s = Ok order -> Forall (fun w => (w < length (svars s))%nat) order.
Proof.
  intros W H. unfold total_order in H. apply bind_ok in H. destruct H as [a' [H1 H2]]. inversion H2. subst order.
  set (n := length (svars s)) in *.
  set (g := fun (a' : list bool * list nat) (v : nat) =>
              match ins_of s v with [] => dfs_visit (S n) s v a' | _ => Ok a' end) in *.
  destruct (fold_bind_inv g (fun a => Forall (fun w => (w < n)%nat) (snd a)) (seq 0 n))
    with (acc := Ok (repeat false n, @nil nat)) (r := a') as [x0 [E0 R]].
  - intros x v x' Hv Ix G. unfold g in G. apply in_seq in Hv.
    destruct (ins_of s v); [|inversion G; subst; exact Ix].
    apply (dfs_visit_range _ _ _ _ _ W) in G; [exact G | unfold n in Hv; lia | exact Ix].
  - exact H1.
  - inversion E0. subst x0. apply R. constructor.
Qed.

(* ------------------------------------------------------------------ the merge pass of Solver::satisfy *)
Lemma merge_pass_inv s s' : SI s -> merge_pass s = Ok s' -> SI s'.
Proof.
  intros I H. pose proof I as [BK _]. unfold merge_pass in H. apply bind_ok in H. destruct H as [order [HO H]].
  pose proof (total_order_range _ _ (bk_cons _ BK) HO) as R.
  set (n := length (svars (base s))) in *.
  set (g := fun (x : sst) (v : nat) => let b := blk_of (base x) v in
                                       if dead (block_of (base x) b) then Ok x else merge_left x b).
  change (fold_left sat_visit order (Ok s)) with (fold_left (fun acc v => bind acc (fun x => g x v)) order (Ok s)) in H.
  destruct (fold_bind_inv g (fun x => SI x /\ length (svars (base x)) = n) order) with (acc := Ok s) (r := s') as [x0 [E0 R0]].
  - intros x v x' Hv [Ix Lx] G. unfold g in G. cbv zeta in G.
    destruct (dead _); [inversion G; subst; split; assumption|].
    split.
    + apply (merge_left_inv _ _ _ Ix) in G; [exact G|]. exists v. split; [|reflexivity].
      rewrite Lx. rewrite Forall_forall in R. exact (R v Hv).
    + apply merge_left_keepP in G. destruct G as [G _]. congruence.
  - exact H.
  - inversion E0. subst x0. exact (proj1 (R0 (conj I eq_refl))).
Qed.

Lemma nth_repeat_None {A} n b : nth b (repeat (@None A) n) None = None.
Proof. revert b. induction n as [|n IH]; intros [|b]; cbn; auto. Qed.
Lemma static_init_SI vs cs : wf_cons vs cs -> SI (static_init vs cs).
Proof.
  intros W. destruct (init_book vs cs W) as [BK AI]. split; [exact BK|]. split; [exact AI|].
  intros B h c Hb. unfold bin_of in Hb. cbn [static_init bin] in Hb. rewrite nth_repeat_None in Hb. discriminate.
Qed.

(* (a) Solver::satisfy on ANY constraint multigraph: if it returns, every constraint has slack >= -1e-10 and every
   ACTIVE constraint has slack exactly 0 (it joins two variables of one block whose offsets differ by the gap) *)
Theorem static_satisfy_sat vs cs s' :
  wf_vars vs -> wf_cons vs cs ->
  static_satisfy (static_init vs cs) = Ok s' ->
  book (base s') /\ act_inv (base s') /\
  forall c, (c < length cs)%nat ->
    ZERO_UPPERBOUND <= slack_val (base s') c /\ (act_of (base s') c = true -> slack_val (base s') c == 0).
Proof.
  intros WV W H. destruct (static_satisfy_scan _ _ H) as [A [Kv Kc]].
  cbn [static_init base] in Kv, Kc. destruct (init_problem vs cs) as [Iv Ic]. rewrite Iv in Kv. rewrite Ic in Kc.
  unfold static_satisfy in H. apply bind_ok in H. destruct H as [s1 [H1 H2]].
  apply sfinal_scan_ok in H2. destruct H2 as [-> _].
  destruct (merge_pass_inv _ _ (static_init_SI vs cs W) H1) as [BK [AI _]].
  destruct (cleanup_preserves _ BK AI) as [BK' AI'].
  assert (Eb : base (note_scan (set_base s1 (cleanup (base s1)))) = cleanup (base s1)) by (rewrite note_scan_base; reflexivity).
  rewrite Eb in *. split; [exact BK'|]. split; [exact AI'|].
  intros c Hc. split; [apply A; rewrite Kc; exact Hc|].
  intros Hact. assert (Hc' : (c < length (scons (cleanup (base s1))))%nat) by (rewrite Kc; exact Hc).
  destruct (con_ends_lt _ _ BK' Hc') as [Hl Hr]. rewrite Kv in Hl, Hr.
  apply (active_tight _ _ AI' Hact).
  - unfold var_of. rewrite Kv. destruct (WV _ Hl) as [_ P]. intros E. rewrite E in P. exact (Qlt_irrefl _ P).
  - unfold var_of. rewrite Kv. destruct (WV _ Hr) as [_ P]. intros E. rewrite E in P. exact (Qlt_irrefl _ P).
Qed.
