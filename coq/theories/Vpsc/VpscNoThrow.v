(* C01_no_final_throw in its strongest form: from a reachable state, IncSolver::satisfy() never returns the
   `throw "Unsatisfied constraint"` result.  The only place the model constructs ThrowUnsat is the final scan; the walks
   and loops merely propagate it (shown here, function by function), and the final scan cannot fire after a normal loop
   exit (VpscReach.no_final_throw).  OutOfFuel remains possible (termination is not proved). *)
From Adapt Require Import Num.Qaux Vpsc.VpscSpec Vpsc.VpscModel Vpsc.VpscInv Vpsc.VpscFrame Vpsc.VpscTrichotomy Vpsc.VpscReach.
Local Open Scope Q_scope.

Lemma bind_throw {A B} (r : res A) (f : A -> res B) c :
  bind r f = ThrowUnsat c -> r = ThrowUnsat c \/ exists a, r = Ok a /\ f a = ThrowUnsat c.
Proof. destruct r; cbn; intros H; try discriminate; [right; eauto | left; inversion H; reflexivity]. Qed.

Lemma fold_bind_throw {X A} (g : X -> A -> res X) (l : list A) :
  (forall x a c, g x a = ThrowUnsat c -> False) ->
  forall acc c, fold_left (fun acc a => bind acc (fun x => g x a)) l acc = ThrowUnsat c -> acc = ThrowUnsat c.
Proof.
  intros Hg. induction l as [|a t IH]; intros acc c H; cbn [fold_left] in H; [exact H|].
  apply IH in H. apply bind_throw in H. destruct H as [H|[x [_ H]]]; [exact H | exfalso; exact (Hg _ _ _ H)].
Qed.

Lemma populate_no_throw : forall fuel this b v u s c, populate fuel this b v u s = ThrowUnsat c -> False.
Proof.
  induction fuel as [|f IH]; intros this b v u s c H; [discriminate|]. cbn [populate] in H.
  apply (fold_bind_throw (fun s' c => if can_follow_right s' this c u
                                      then populate f this b (cr (con_of s' c)) (Some v) s' else Ok s')) in H.
  - apply (fold_bind_throw (fun s' c => if can_follow_left s' this c u
                                        then populate f this b (cl (con_of s' c)) (Some v) s' else Ok s')) in H; [discriminate|].
    intros x a c' G. destruct (can_follow_left x this a u); [exact (IH _ _ _ _ _ _ G) | discriminate].
  - intros x a c' G. destruct (can_follow_right x this a u); [exact (IH _ _ _ _ _ _ G) | discriminate].
Qed.

Lemma split_no_throw s this c x : split s this c = ThrowUnsat x -> False.
Proof.
  unfold split. destruct (new_block _) as [l s1].
  intros H. apply bind_throw in H. destruct H as [H|[s2 [_ H]]]; [exact (populate_no_throw _ _ _ _ _ _ _ H)|].
  destruct (new_block s2) as [r s3].
  apply bind_throw in H. destruct H as [H|[s4 [_ H]]]; [exact (populate_no_throw _ _ _ _ _ _ _ H) | discriminate].
Qed.

Lemma reset_active_lm_no_throw : forall fuel this v u s c, reset_active_lm fuel this v u s = ThrowUnsat c -> False.
Proof.
  induction fuel as [|f IH]; intros this v u s c H; [discriminate|]. cbn [reset_active_lm] in H.
  apply (fold_bind_throw (fun s' c => if can_follow_left s' this c u
             then reset_active_lm f this (cl (con_of s' c)) (Some v) (set_lm s' c 0) else Ok s')) in H.
  - apply (fold_bind_throw (fun s' c => if can_follow_right s' this c u
             then reset_active_lm f this (cr (con_of s' c)) (Some v) (set_lm s' c 0) else Ok s')) in H; [discriminate|].
    intros x a c' G. destruct (can_follow_right x this a u); [exact (IH _ _ _ _ _ G) | discriminate].
  - intros x a c' G. destruct (can_follow_left x this a u); [exact (IH _ _ _ _ _ G) | discriminate].
Qed.

Lemma compute_dfdv_no_throw : forall fuel track this v u mn s c, compute_dfdv fuel track this v u mn s = ThrowUnsat c -> False.
Proof.
  induction fuel as [|f IH]; intros track this v u mn s c H; [discriminate|]. cbn [compute_dfdv] in H.
  apply bind_throw in H. destruct H as [H|[[[d mn'] s'] [_ H]]]; [|discriminate].
  apply (fold_bind_throw (fun (a : Q * option nat * st) (c : nat) =>
          let '(d, mn1, s1) := a in
          if can_follow_left s1 this c u then
            bind (compute_dfdv f track this (cl (con_of s1 c)) (Some v) mn1 s1) (fun r =>
              let '(lmv0, mn2, s2) := r in
              let lmv := Qred (- lmv0) in
              let s3 := set_lm s2 c lmv in
              let d' := Qred (d - lmv * scl (var_of s3 (cr (con_of s3 c)))) in
              if track then let '(mn3, s4) := upd_min s3 c mn2 in Ok (d', mn3, s4) else Ok (d', mn2, s3))
          else Ok a)) in H.
  - apply (fold_bind_throw (fun (a : Q * option nat * st) (c : nat) =>
          let '(d, mn1, s1) := a in
          if can_follow_right s1 this c u then
            bind (compute_dfdv f track this (cr (con_of s1 c)) (Some v) mn1 s1) (fun r =>
              let '(lmv, mn2, s2) := r in
              let s3 := set_lm s2 c lmv in
              let d' := Qred (d + lmv * scl (var_of s3 (cl (con_of s3 c)))) in
              if track then let '(mn3, s4) := upd_min s3 c mn2 in Ok (d', mn3, s4) else Ok (d', mn2, s3))
          else Ok a)) in H; [discriminate|].
    intros [[d mn1] x] a c' G. destruct (can_follow_right x this a u); [|discriminate].
    apply bind_throw in G. destruct G as [G|[[[lmv mn2] s2] [_ G]]]; [exact (IH _ _ _ _ _ _ _ G)|].
    cbv zeta in G. destruct track; [destruct (upd_min _ a mn2); discriminate | discriminate].
  - intros [[d mn1] x] a c' G. destruct (can_follow_left x this a u); [|discriminate].
    apply bind_throw in G. destruct G as [G|[[[lmv mn2] s2] [_ G]]]; [exact (IH _ _ _ _ _ _ _ G)|].
    cbv zeta in G. destruct track; [destruct (upd_min _ a mn2); discriminate | discriminate].
Qed.

Lemma split_path_no_throw : forall fuel this r v u m s c, split_path fuel this r v u m s = ThrowUnsat c -> False.
Proof.
  induction fuel as [|f IH]; intros this r v u m s c H; [discriminate|]. cbn [split_path] in H.
  apply (fold_bind_throw (fun (a : bool * option nat * st) (c : nat) =>
          let '(fnd, m1, s1) := a in
          if fnd then Ok a
          else if can_follow_right s1 this c u then
            if Nat.eqb (cr (con_of s1 c)) r
            then Ok (true, (if ceq (con_of s1 c) then m1 else Some c), s1)
            else bind (split_path f this r (cr (con_of s1 c)) (Some v) m1 s1) (fun b =>
                   let '(fnd2, m2, s2) := b in
                   if fnd2 then
                     if ceq (con_of s2 c) then Ok (true, m2, s2)
                     else match m2 with
                          | None => Ok (true, Some c, s2)
                          | Some m0 => let s3 := note s2 (lm_of s2 c) (lm_of s2 m0) in
                                       if Qltb (lm_of s2 c) (lm_of s2 m0) then Ok (true, Some c, s3)
                                       else Ok (true, m2, s3)
                          end
                   else Ok (false, m2, s2))
          else Ok a)) in H.
  - apply (fold_bind_throw (fun (a : bool * option nat * st) (c : nat) =>
          let '(fnd, m1, s1) := a in
          if fnd then Ok a
          else if can_follow_left s1 this c u then
            if Nat.eqb (cl (con_of s1 c)) r then Ok (true, m1, s1)
            else bind (split_path f this r (cl (con_of s1 c)) (Some v) m1 s1) (fun b =>
                   let '(fnd2, m2, s2) := b in Ok (fnd2, m2, s2))
          else Ok a)) in H; [discriminate|].
    intros [[fnd m1] x] a c' G. destruct fnd; [discriminate|]. destruct (can_follow_left x this a u); [|discriminate].
    destruct (Nat.eqb _ r); [discriminate|].
    apply bind_throw in G. destruct G as [G|[[[fnd2 m2] s2] [_ G]]]; [exact (IH _ _ _ _ _ _ _ G) | discriminate].
  - intros [[fnd m1] x] a c' G. destruct fnd; [discriminate|]. destruct (can_follow_right x this a u); [|discriminate].
    destruct (Nat.eqb _ r); [discriminate|].
    apply bind_throw in G. destruct G as [G|[[[fnd2 m2] s2] [_ G]]]; [exact (IH _ _ _ _ _ _ _ G)|].
    destruct fnd2; [|discriminate]. destruct (ceq (con_of s2 a)); [discriminate|].
    destruct m2 as [m0|]; [|discriminate]. cbv zeta in G. destruct (Qltb _ _); discriminate.
Qed.

Lemma path_between_no_throw : forall fuel s this u v c, is_active_directed_path_between fuel s this u v = ThrowUnsat c -> False.
Proof.
  induction fuel as [|f IH]; intros s this u v c H; [discriminate|]. cbn [is_active_directed_path_between] in H.
  destruct (Nat.eqb u v); [discriminate|].
  apply (fold_bind_throw (fun (fnd : bool) (c : nat) =>
           if fnd then Ok true
           else if can_follow_right s this c None
                then is_active_directed_path_between f s this (cr (con_of s c)) v else Ok false)) in H; [discriminate|].
  intros x a c' G. destruct x; [discriminate|]. destruct (can_follow_right s this a None); [exact (IH _ _ _ _ _ G) | discriminate].
Qed.

Lemma find_min_lm_no_throw s b c : find_min_lm s b = ThrowUnsat c -> False.
Proof.
  unfold find_min_lm. intros H.
  apply bind_throw in H. destruct H as [H|[s1 [_ H]]]; [exact (reset_active_lm_no_throw _ _ _ _ _ _ H)|].
  apply bind_throw in H. destruct H as [H|[[[d mn] s2] [_ H]]]; [exact (compute_dfdv_no_throw _ _ _ _ _ _ _ _ H) | discriminate].
Qed.
Lemma find_min_lm_between_no_throw s b lv rv c : find_min_lm_between s b lv rv = ThrowUnsat c -> False.
Proof.
  unfold find_min_lm_between. intros H.
  apply bind_throw in H. destruct H as [H|[s1 [_ H]]]; [exact (reset_active_lm_no_throw _ _ _ _ _ _ H)|].
  apply bind_throw in H. destruct H as [H|[[[d mn] s2] [_ H]]]; [exact (compute_dfdv_no_throw _ _ _ _ _ _ _ _ H)|].
  apply bind_throw in H. destruct H as [H|[[[fnd m] s3] [_ H]]]; [exact (split_path_no_throw _ _ _ _ _ _ _ _ H) | discriminate].
Qed.

Lemma sb_body_no_throw p b c : sb_body p b = ThrowUnsat c -> False.
Proof.
  destruct p as [s1 cnt]. unfold sb_body. intros H.
  apply bind_throw in H. destruct H as [H|[[mn s2] [_ H]]]; [exact (find_min_lm_no_throw _ _ _ H)|].
  destruct mn as [v|]; [|discriminate]. cbv zeta in H. destruct (Qltb _ _); [|discriminate].
  apply bind_throw in H. destruct H as [H|[[[s4 l] r] [_ H]]]; [exact (split_no_throw _ _ _ _ H) | discriminate].
Qed.
Lemma split_blocks_no_throw s c : split_blocks s = ThrowUnsat c -> False.
Proof.
  rewrite split_blocks_unfold. intros H.
  apply bind_throw in H. destruct H as [H|[q [_ H]]]; [|discriminate].
  apply (fold_bind_throw sb_body) in H; [discriminate|]. intros x a c'. apply sb_body_no_throw.
Qed.

Lemma satisfy_step_no_throw s c : satisfy_step s = ThrowUnsat c -> False.
Proof.
  unfold satisfy_step. destruct (most_violated s) as [mv s1]. destruct mv as [v|]; [|discriminate].
  cbv zeta. destruct (_ || _); [|discriminate]. destruct (negb _); [discriminate|].
  intros H. apply bind_throw in H. destruct H as [H|[cyc [_ H]]]; [exact (path_between_no_throw _ _ _ _ _ _ H)|].
  destruct cyc; [discriminate|].
  apply bind_throw in H. destruct H as [H|[[sc s3] [_ H]]]; [exact (find_min_lm_between_no_throw _ _ _ _ _ H)|].
  destruct sc as [spl|]; [|discriminate].
  apply bind_throw in H. destruct H as [H|[[[s4 l] r] [_ H]]]; [exact (split_no_throw _ _ _ _ H)|].
  destruct (lt_inf _ _); [destruct (merge _ v); discriminate | discriminate].
Qed.
Lemma satisfy_loop_no_throw : forall fuel s c, satisfy_loop fuel s = ThrowUnsat c -> False.
Proof.
  induction fuel as [|f IH]; intros s c H; [discriminate|]. cbn [satisfy_loop] in H.
  apply bind_throw in H. destruct H as [H|[[b s1] [_ H]]]; [exact (satisfy_step_no_throw _ _ H)|].
  cbn [fst snd] in H. destruct b; [exact (IH _ _ H) | discriminate].
Qed.

(* C01_no_final_throw: satisfy() from a state satisfying the invariant returns Ok or runs out of fuel, never the throw *)
Theorem inc_satisfy_never_throws fuel s c : inv s -> inc_satisfy fuel s = ThrowUnsat c -> False.
Proof.
  intros I H. unfold inc_satisfy in H. apply bind_throw in H. destruct H as [H|[p [_ H]]]; [|discriminate].
  unfold inc_satisfy_cnt in H.
  apply bind_throw in H. destruct H as [H|[p1 [H1 H]]]; [exact (split_blocks_no_throw _ _ H)|].
  apply bind_throw in H. destruct H as [H|[s2 [H2 H]]]; [exact (satisfy_loop_no_throw _ _ _ H)|].
  apply bind_throw in H. destruct H as [H|[s3 [_ H]]]; [|discriminate].
  rewrite (no_final_throw fuel s p1 s2 I H1 H2) in H. discriminate.
Qed.

Theorem inc_satisfy_never_throws_reach fuel s c : reachable s -> inc_satisfy fuel s = ThrowUnsat c -> False.
Proof. intros R. apply inc_satisfy_never_throws. apply reachable_inv. exact R. Qed.

(* and so does solve(), and every op *)
Lemma inc_satisfy_cnt_never_throws fuel s c : inv s -> inc_satisfy_cnt fuel s = ThrowUnsat c -> False.
Proof.
  intros I H. apply (inc_satisfy_never_throws fuel s c I). unfold inc_satisfy. rewrite H. reflexivity.
Qed.
Lemma solve_loop_never_throws fuel sf : forall tries lc c cnt s x,
  ret_ok s -> solve_loop true fuel sf tries lc c cnt s = ThrowUnsat x -> False.
Proof.
  induction fuel as [|f IH]; intros tries lc c cnt s x Hs H; [discriminate|].
  cbn [solve_loop] in H.
  set (s0 := match lc with Some l => note s (Qabs' (l - c)) COST_EPS | None => s end) in *.
  assert (Hs0 : ret_ok s0).
  { unfold s0. destruct lc; [apply (ret_ok_lm_only s); [apply lm_only_note | exact Hs] | exact Hs]. }
  destruct (_ || _); [|discriminate]. destruct tries as [|t]; [discriminate|].
  apply bind_throw in H. destruct H as [H|[p [G1 G2]]]; [exact (inc_satisfy_cnt_never_throws _ _ _ (proj1 Hs0) H)|].
  exact (IH _ _ _ _ _ _ (inc_satisfy_cnt_ret _ _ _ (proj1 Hs0) G1) G2).
Qed.
Theorem step_never_throws fuel s o c : reachable s -> step fuel s o = ThrowUnsat c -> False.
Proof.
  intros R H. pose proof (reachable_inv s R) as I. destruct o as [k|i d| |]; cbn in H; try discriminate.
  - unfold inc_solve_gen in H. apply bind_throw in H. destruct H as [H|[p [G1 G2]]].
    + exact (inc_satisfy_cnt_never_throws _ _ _ I H).
    + exact (solve_loop_never_throws _ _ _ _ _ _ _ _ (inc_satisfy_cnt_ret _ _ _ I G1) G2).
  - exact (inc_satisfy_never_throws fuel s c I H).
Qed.
