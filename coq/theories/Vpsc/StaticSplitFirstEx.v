(* Non-vacuity of StaticSplitFirst.split_first_half: the block {v0, v1} of StaticSplitSignEx.v (desired positions pulled
   apart, lm(c0) = -4) inside a full solver state: satisfy(), the desired positions change, updateWeightedPosition,
   refine's first loop (setup_all), findMinLM on block 1 - then Blocks::split's first half; every premise holds. *)
From Adapt Require Import Num.Qaux Vpsc.VpscSpec Vpsc.VpscModel Vpsc.VpscInv Vpsc.VpscInvB Vpsc.VpscInvBSpec Vpsc.VpscFrame Vpsc.VpscForest
  Vpsc.VpscStationary Vpsc.StaticModel Vpsc.StaticInv Vpsc.StaticGeom Vpsc.StaticDag Vpsc.StaticRefine Vpsc.StaticSplitML Vpsc.StaticSplitMLEx
  Vpsc.StaticInHeap Vpsc.StaticInHeapEx Vpsc.StaticSplitStats Vpsc.StaticSplitSign Vpsc.StaticSplitSignEx Vpsc.StaticSplitGlue
  Vpsc.StaticSplitFirst.
Local Open Scope Q_scope.

Definition sf_pre : sst := Eval vm_compute in
  set_base sy_a (update_weighted_position (set_desired (set_desired (base sy_a) 0 0) 1 5) 1).
Definition sf_setup : sst := Eval vm_compute in setup_all sf_pre.
Definition sf_lm : st := Eval vm_compute in match find_min_lm (base sf_setup) 1 with Ok (_, x) => x | _ => base sf_setup end.
Definition sf_s : sst := set_base sf_setup sf_lm.
Definition sf_bs : st := Eval vm_compute in match split sf_lm 1 0 with Ok (x, _, _) => x | _ => sf_lm end.

Lemma sf_pre_book : book (base sf_pre). Proof. book3. Qed.
Lemma sf_wfv : wf_vars (svars sf_lm).
Proof. intros i Hi. cbn [length svars sf_lm] in Hi. destruct i as [|[|[|i]]]; try lia; cbn; split; reflexivity. Qed.
Lemma sf_lm_only : lm_only (base sf_setup) sf_lm.
Proof. eexists. eexists. reflexivity. Qed.
Lemma sf_heaps : forall B, inhabited (base sf_s) B ->
  exists h, bin_of sf_s B = Some h /\ hgoodC sf_s h /\ hsound sf_s B h /\ hcomplete sf_s B h.
Proof.
  assert (Hin : forall B, In B (blist (base sf_pre)) -> inhabited (base sf_pre) B).
  { intros B HB. vm_compute in HB. destruct HB as [<-|[<-|[]]]; [exists 0%nat | exists 2%nat]; split; vm_compute; try lia; reflexivity. }
  assert (Hcov : forall v, (v < length (svars (base sf_pre)))%nat -> In (blk_of (base sf_pre) v) (blist (base sf_pre))).
  { intros v Hv. three v Hv; vm_compute; auto. }
  destruct (setup_all_heaps sf_pre sf_pre_book eq_refl ltac:(vm_compute; lia) Hin Hcov) as [_ [_ [_ [_ [_ [_ [_ H]]]]]]].
  apply (heaps_lm_only sf_setup sf_lm sf_lm_only). exact H.
Qed.
Lemma sf_forest : forest sf_lm.
Proof.
  destruct (init_book sx_vs sx_cs sx_wfc) as [BK0 _].
  assert (F : forest (merge_into (init sx_vs sx_cs) 1 0 0 0)).
  { apply (merge_into_forest (init sx_vs sx_cs) 1 0 0 0 1 0 BK0 (init_forest sx_vs sx_cs sx_wfc));
      try (vm_compute; lia); try (vm_compute; reflexivity); try discriminate. }
  apply (forest_frame (merge_into (init sx_vs sx_cs) 1 0 0 0)); try (vm_compute; reflexivity). exact F.
Qed.
Definition sf_returns : bool := match merge_left (split_pre sf_s 1 sf_bs 3 4) 3 with Ok _ => true | _ => false end.
Lemma sf_returns_true : sf_returns = true. Proof. vm_compute. reflexivity. Qed.

Example split_first_half_example :
  book (base sf_s) /\ act_inv (base sf_s) /\ forest (base sf_s) /\ wf_vars (svars (base sf_s)) /\ all_blk_ok (base sf_s) /\
  all_sat0 (base sf_s) /\ act_of (base sf_s) 0 = true /\ 1%nat = blk_of (base sf_s) (cl (con_of (base sf_s) 0)) /\
  stationary_block (base sf_s) (base sf_s) 1 /\ lm_of (base sf_s) 0 <= 0 /\
  T2 sf_s /\ (forall x, (x < length (scons (base sf_s)))%nat -> ctime_of sf_s x = ctr sf_s) /\
  length (ctime sf_s) = length (scons (base sf_s)) /\
  length (bin sf_s) = length (blocks (base sf_s)) /\ length (btime sf_s) = length (blocks (base sf_s)) /\
  (forall B, inhabited (base sf_s) B -> exists h, bin_of sf_s B = Some h /\ hgoodC sf_s h /\ hsound sf_s B h /\ hcomplete sf_s B h) /\
  split (base sf_s) 1 0 = Ok (sf_bs, 3%nat, 4%nat) /\ sf_returns = true.
Proof.
  split; [change (book sf_lm); book3|]. split; [apply actb_spec; vm_compute; reflexivity|]. split; [exact sf_forest|].
  split; [exact sf_wfv|]. split.
  { intros u Hu. change (base sf_s) with sf_lm in *. three u Hu;
      (split; [vm_compute; discriminate|]; split; [vm_compute; reflexivity|]; split; [vm_compute; reflexivity|];
       split; vm_compute; reflexivity). }
  split.
  { intros k Hk. change (base sf_s) with sf_lm in *. assert (k = O) by (cbn in Hk; lia). subst k. vm_compute. discriminate. }
  split; [vm_compute; reflexivity|]. split; [vm_compute; reflexivity|]. split.
  { intros i Hi Bi. change (base sf_s) with sf_lm in *. three i Hi; try (vm_compute in Bi; discriminate); vm_compute; reflexivity. }
  split; [vm_compute; discriminate|]. split.
  { intros B. unfold btime_of. destruct B as [|[|[|B]]]; cbn; try lia. destruct B; cbn; lia. }
  split.
  { intros x Hx. assert (x = O) by (cbn in Hx; lia). subst x. reflexivity. }
  split; [reflexivity|]. split; [reflexivity|]. split; [reflexivity|]. split; [exact sf_heaps|].
  split; [vm_compute; reflexivity | exact sf_returns_true].
Qed.
