(* Boolean invariants of Solver::refine of the static Solver model (Vpsc/StaticModel.v) and a CHECKED runner of
   refine_loop that evaluates them on every split the model performs.  NO PROOFS here; extracted and run by checks/c01.py
   (driver line "r") on every DAG instance whose operation is solve().
   Claims evaluated (mask bits; 0 = holds on every visited state), Yb = positions when Blocks::split is entered:
     1    every slack >= 0 exactly when split is entered
     2    after Block::split + "r->posn = ...": variables of the new left block did not move right, all others did not move
     4    after mergeLeft(l): every slack >= 0 exactly
     8    after mergeLeft(l): no variable is to the right of Yb
     16   after r->updateWeightedPosition(): no variable moved left relative to the state after mergeLeft(l)
     32   whenever mergeRight's loop tests the root of the out-heap, no out-constraint of the block is more violated
     64   every violated out-constraint of the current block is in its out-heap
     128  after mergeRight(r): every slack >= 0 exactly
     256  after mergeRight(r): no variable is to the left of the state after mergeLeft(l)
     512  the constraint split on has both ends in the split block and is active
     1024 at every state of mergeLeft(l)'s loop inside split (current block M): every constraint with both or neither end
          in M has slack >= 0, and slack(i) + slack(o) >= 0 for every in-constraint i and out-constraint o of M
          (the "pair" invariant J: it survives the merge of the not-yet-optimal right half r into M)
     2048 at every state of mergeRight's loop (current block N): the same, and every in-constraint of N has slack >= 0
          (invariant I2: what makes the pull to the left by a merged right neighbour harmless)
     4096 whenever mergeLeft(l)'s loop inside split tests the root of the in-heap, no in-constraint of the current block
          is more violated (StaticInvB.root_minb in the split context)
     8192 every violated in-constraint of the current block is in its in-heap (StaticInvB.in_heapb in the split context)
     16384 "mode A": while the right half r is not part of the current block M, no variable outside M moved since split
          entry, and every variable u of M is to the left of its position at split entry by at least the violation of
          every in-constraint of M
     32768 if mergeLeft(l) returns without having merged r, every slack >= 0 exactly
     65536 at every state of mergeLeft(l)'s loop inside split (current block M) the heap invariant HW of
          Vpsc/StaticInHeap.v: time stamps (constraint stamps <= counter, block stamps <= counter, a constraint is stale
          by time stamp only if its left end is in M), lengths, and every in-heap of an inhabited block is duplicate-free,
          ordered on its current keys (Rcur), sound (right end in the block) and complete (every in-constraint of the
          block is in it); the root delivered by findMinInConstraint has a current key
   Bits 4, 8 and 256 are the NAIVE candidates; they are FALSE on reachable DAG states (r is merged into l's block by
   mergeLeft(l) when a constraint from r's side to l's side becomes violated, the merged block then moves right and its
   out-constraints are repaired by mergeRight) - bits 1024/2048 are the invariants that do hold. *)
From Adapt Require Import Num.Qaux Vpsc.VpscSpec Vpsc.VpscModel Vpsc.VpscInv Vpsc.StaticModel Vpsc.StaticInvB.
Local Open Scope Q_scope.

Fixpoint all_leb (a b : list Q) : bool :=
  match a, b with
  | x :: a', y :: b' => Qleb x y && all_leb a' b'
  | _, _ => true
  end.
Definition spos (s : sst) : list Q := final_positions (base s).

Definition out_cons (s : sst) (l : nat) : list nat :=
  filter (fun c => Nat.eqb (lblk s c) l && negb (Nat.eqb (rblk s c) l)) (seq 0 (length (scons (base s)))).
Definition root_min_outb (s : sst) (l : nat) (c0 : option nat) : bool :=
  match c0 with
  | None => forallb (fun c => Qleb 0 (sslack s c)) (out_cons s l)
  | Some c => forallb (fun c' => Qleb (sslack s c) (sslack s c') || Qleb 0 (sslack s c')) (out_cons s l)
  end.
Definition out_heapb (s : sst) (l : nat) : bool :=
  match bout_of s l with
  | Some h => forallb (fun c => Qleb 0 (sslack s c) || mem c (heap_elems h)) (out_cons s l)
  | None => true
  end.

Definition restb (s : sst) (N : nat) : bool :=
  forallb (fun c => xorb (Nat.eqb (lblk s c) N) (Nat.eqb (rblk s c) N) || Qleb 0 (sslack s c))
          (seq 0 (length (scons (base s)))).
Definition pairb (s : sst) (N : nat) : bool :=
  forallb (fun i => forallb (fun o => Qleb 0 (sslack s i + sslack s o)) (out_cons s N)) (in_cons s N).
Definition insatb (s : sst) (N : nat) : bool := forallb (fun i => Qleb 0 (sslack s i)) (in_cons s N).
Definition Jb (s : sst) (N : nat) : bool := restb s N && pairb s N.
Definition I2b (s : sst) (N : nat) : bool := restb s N && pairb s N && insatb s N.

(* Y coordinate = scale * position (the coordinates in which every constraint is a difference constraint) *)
Definition ycoord (s : sst) (v : nat) : Q := scl (var_of (base s) v) * position (base s) v.
Definition ycoords (s : sst) : list Q := map (ycoord s) (seq 0 (length (svars (base s)))).
Definition modeAb (s : sst) (M : nat) (rv : nat) (Yb : list Q) : bool :=
  Nat.eqb (blk_of (base s) rv) M ||
  forallb (fun u =>
     if Nat.eqb (blk_of (base s) u) M
     then Qleb (ycoord s u) (nth u Yb 0) &&
          forallb (fun i => Qleb (- sslack s i) (nth u Yb 0 - ycoord s u)) (in_cons s M)
     else Qeqb (ycoord s u) (nth u Yb 0))
    (seq 0 (length (svars (base s)))).

(* boolean form of the heap invariant HW / MLH of Vpsc/StaticInHeap.v (bit 65536) *)
Fixpoint nodupb_r (l : list nat) : bool :=
  match l with [] => true | a :: t => negb (mem a t) && nodupb_r t end.
Definition rcurb (s : sst) (c x : nat) : bool :=
  match skey s c, skey s x with Some a, Some b => Qleb a b | _, _ => true end.
Fixpoint hordb (s : sst) (p : ph) : bool :=
  match p with
  | PH c kids => forallb (rcurb s c) (flat_map ph_elems kids) && forallb (hordb s) kids
  end.
Definition hordhb (s : sst) (h : heap) : bool := match h with None => true | Some p => hordb s p end.
Definition HWb (s : sst) (M : nat) (c : option nat) : bool :=
  let m := length (scons (base s)) in
  let nb := length (blocks (base s)) in
  forallb (fun x => Nat.leb (ctime_of s x) (ctr s)) (seq 0 m) &&
  forallb (fun B => Nat.leb (btime_of s B) (ctr s)) (seq 0 (length (btime s))) &&
  forallb (fun x => Nat.eqb (lblk s x) M || Nat.leb (btime_of s (lblk s x)) (ctime_of s x)) (seq 0 m) &&
  Nat.eqb (length (ctime s)) m && Nat.leb nb (length (bin s)) && Nat.leb nb (length (btime s)) &&
  forallb (fun B =>
    negb (inhabitedb (base s) B) ||
    match bin_of s B with
    | None => true
    | Some h =>
        nodupb_r (heap_elems h) && hordhb s h &&
        forallb (fun x => Nat.ltb x m && Nat.eqb (rblk s x) B) (heap_elems h) &&
        forallb (fun x => mem x (heap_elems h)) (in_cons s B)
    end) (seq 0 nb) &&
  inhabitedb (base s) M &&
  match bin_of s M with
  | Some h => match c, heap_min h with
              | Some c0, Some c1 => Nat.eqb c0 c1 && match skey s c0 with Some _ => true | None => false end
              | None, None => true
              | _, _ => false
              end
  | None => false
  end.

(* ml_loop inside split, with J (and root-min, in-heap completeness, mode A) evaluated at every tested state;
   rv = a variable of the right half, Yb = Y coordinates at split entry *)
Fixpoint ml_loop_J (fuel : nat) (s : sst) (r : nat) (c : option nat) (rv : nat) (Yb : list Q) (mask : nat) : res sst * nat :=
  match fuel with
  | O => (OutOfFuel, mask)
  | S f =>
      let mask1 := mor mask (bitv (Jb s r) 1024 + bitv (root_minb s r c) 4096 + bitv (in_heapb s r) 8192 +
                             bitv (modeAb s r rv Yb) 16384 + bitv (HWb s r c) 65536)%nat in
      match c with
      | None => (Ok s, mask1)
      | Some c0 =>
          let s0 := snote_slack TIE_EPS s c0 0 in
          if Qltb (sslack s0 c0) 0 then
            match ml_body s0 r c0 with
            | Ok (s', r', c') => ml_loop_J f s' r' c' rv Yb mask1
            | ThrowUnsat x => (ThrowUnsat x, mask1)
            | OutOfFuel => (OutOfFuel, mask1)
            end
          else (Ok s0, mask1)
      end
  end.
Definition merge_left_J (s : sst) (r : nat) (rv : nat) (Yb : list Q) (mask : nat) : res sst * nat :=
  let s1 := set_ctr s (S (ctr s)) in
  let s2 := set_btime s1 (upd_nth (btime s1) r (ctr s1)) in
  let s3 := set_up_heap true s2 r in
  match find_min_in s3 r with
  | Ok p => ml_loop_J (loop_fuel s) (fst p) r (snd p) rv Yb mask
  | ThrowUnsat x => (ThrowUnsat x, mask)
  | OutOfFuel => (OutOfFuel, mask)
  end.

Fixpoint mr_loop_chk (fuel : nat) (s : sst) (l : nat) (c : option nat) (mask : nat) : res sst * nat :=
  match fuel with
  | O => (OutOfFuel, mask)
  | S f =>
      let mask1 := mor mask (bitv (root_min_outb s l c) 32 + bitv (out_heapb s l) 64 + bitv (I2b s l) 2048)%nat in
      match c with
      | None => (Ok s, mask1)
      | Some c0 =>
          let s0 := snote_slack TIE_EPS s c0 0 in
          if Qltb (sslack s0 c0) 0 then
            match mr_body s0 l c0 with
            | Ok (s', l', c') => mr_loop_chk f s' l' c' mask1
            | ThrowUnsat x => (ThrowUnsat x, mask1)
            | OutOfFuel => (OutOfFuel, mask1)
            end
          else (Ok s0, mask1)
      end
  end.
Definition merge_right_chk (s : sst) (l : nat) (mask : nat) : res sst * nat :=
  let s1 := set_up_heap false s l in
  match find_min_out s1 l with
  | Ok p => mr_loop_chk (loop_fuel s) (fst p) l (snd p) mask
  | ThrowUnsat x => (ThrowUnsat x, mask)
  | OutOfFuel => (OutOfFuel, mask)
  end.

Definition static_split_chk (s : sst) (b c : nat) (mask : nat) : res sst * nat :=
  let Yb := spos s in
  let m0 := mor mask (bitv (all_satb s) 1 +
                      bitv (Nat.eqb (lblk s c) b && Nat.eqb (rblk s c) b && act_of (base s) c) 512)%nat in
  match split (base s) b c with
  | Ok (bs, l, r) =>
      let s1 := pad2 (set_base s bs) in
      let s2 := set_base s1 (set_blist (base s1) (blist (base s1) ++ [l; r])) in
      let B := block_of (base s2) b in
      let R := block_of (base s2) r in
      let R' := mkblk (bvars R) (Qred (posn B * bscale B / bscale R)) (bscale R) (AB R) (AD R) (A2 R) (dead R) in
      let s3 := set_base s2 (set_block (base s2) r R') in
      let m1 := mor m0 (bitv (all_leb (spos s3) Yb &&
                              forallb (fun v => Nat.eqb (blk_of (base s3) v) l ||
                                                Qeqb (position (base s3) v) (nth v Yb 0))
                                      (seq 0 (length (svars (base s3))))) 2) in
      match merge_left_J s3 l (cr (con_of (base s) c)) (ycoords s) m1 with
      | (Ok s4, m1) =>
          let Yc := spos s4 in
          let m2 := mor m1 (bitv (all_satb s4) 4 + bitv (all_leb Yc Yb) 8 +
                              bitv (Nat.eqb (lblk s4 c) (rblk s4 c) || all_satb s4) 32768)%nat in
          let r' := rblk s4 c in
          let s5 := set_base s4 (update_weighted_position (base s4) r') in
          let m3 := mor m2 (bitv (all_leb Yc (spos s5)) 16) in
          match merge_right_chk s5 r' m3 with
          | (Ok s6, m4) =>
              let s7 := set_base s6 (kill_block (base s6) b) in
              (Ok s7, mor m4 (bitv (all_satb s7) 128 + bitv (all_leb Yc (spos s7)) 256)%nat)
          | (ThrowUnsat x, m4) => (ThrowUnsat x, m4)
          | (OutOfFuel, m4) => (OutOfFuel, m4)
          end
      | (ThrowUnsat x, m1) => (ThrowUnsat x, m1)
      | (OutOfFuel, m1) => (OutOfFuel, m1)
      end
  | ThrowUnsat x => (ThrowUnsat x, m0)
  | OutOfFuel => (OutOfFuel, m0)
  end.

Fixpoint refine_scan_chk (bl : list nat) (s : sst) (mask : nat) : res (sst * bool) * nat :=
  match bl with
  | [] => (Ok (s, false), mask)
  | b :: t =>
      match find_min_lm (base s) b with
      | Ok (mn, bs) =>
          let s1 := set_base s bs in
          match mn with
          | None => refine_scan_chk t s1 mask
          | Some c =>
              let s2 := snote s1 (lm_of (base s1) c) LAGRANGIAN_TOLERANCE in
              if Qltb (lm_of (base s2) c) LAGRANGIAN_TOLERANCE then
                match static_split_chk s2 b c mask with
                | (Ok s3, m) => (Ok (set_base s3 (cleanup (base s3)), true), m)
                | (ThrowUnsat x, m) => (ThrowUnsat x, m)
                | (OutOfFuel, m) => (OutOfFuel, m)
                end
              else refine_scan_chk t s2 mask
          end
      | ThrowUnsat x => (ThrowUnsat x, mask)
      | OutOfFuel => (OutOfFuel, mask)
      end
  end.

(* (result, mask, #splits) *)
Fixpoint refine_loop_chk (tries : nat) (s : sst) (mask nsplit : nat) : res sst * nat * nat :=
  match tries with
  | O => (Ok s, mask, nsplit)
  | S t =>
      let s1 := setup_all s in
      match refine_scan_chk (blist (base s1)) s1 mask with
      | (Ok (s2, true), m) => refine_loop_chk t s2 m (S nsplit)
      | (Ok (s2, false), m) => (Ok s2, m, nsplit)
      | (ThrowUnsat x, m) => (ThrowUnsat x, m, nsplit)
      | (OutOfFuel, m) => (OutOfFuel, m, nsplit)
      end
  end.

(* from the initial state: (satisfy returned, refine result is Ok, mask, #splits, all slack >= 0 at the end, same as refine_loop) *)
Definition refine_chk (s0 : sst) : bool * bool * nat * nat * bool * bool :=
  match static_satisfy s0 with
  | Ok s1 =>
      let '(r, mask, ns) := refine_loop_chk MAXTRIES s1 O O in
      let same := match r, refine_loop MAXTRIES s1 with
                  | Ok a, Ok b => all_leb (spos a) (spos b) && all_leb (spos b) (spos a)
                  | ThrowUnsat x, ThrowUnsat y => Nat.eqb x y
                  | OutOfFuel, OutOfFuel => true
                  | _, _ => false
                  end in
      (true, match r with Ok _ => true | _ => false end, mask, ns,
       match r with Ok a => all_satb a | _ => false end, same)
  | _ => (false, false, O, O, false, false)
  end.
