(* C02, the part that does NOT hold: IncSolver::solve() does not always return the optimum when it is called again
   after desired positions changed.  Its loop (solve_VPSC.cpp:217-226) stops as soon as one satisfy() leaves the cost
   unchanged to 1e-4; a satisfy() that splits a block on one constraint and re-merges it over another tight
   constraint reproduces the same positions and cost although a second active constraint still has a negative
   multiplier (only one split per block per pass).  The faithful model exhibits it; the witness below is replayed on
   the real code by checks/c02.py (corpus/c02_cost_stall.txt): real result cost 4.978261, optimum 4.25. *)
From Adapt Require Import Num.Qaux Vpsc.VpscSpec Vpsc.KKT Vpsc.VpscModel.
Local Open Scope Q_scope.

Definition run_ops (fuel : nat) (s : st) (ops : list op) : res st :=
  fold_left (fun r o => bind r (fun s' => step fuel s' o)) ops (Ok s).

Definition w_vs : list var := [mkvar 2 10 1; mkvar 2 1 1; mkvar 0 1 1; mkvar 0 10 1; mkvar 0 1 1].
Definition w_cs : list con :=
  [mkcon 3 4 1 false; mkcon 3 1 0 false; mkcon 2 0 (3#2) false; mkcon 2 4 4 false; mkcon 0 1 (3#2) false].
Definition w_ops : list op := [Solve; SetDesired 4 4; SetDesired 3 4; Solve].
Definition w_better : list Q := [2; 15#4; 0; 15#4; 19#4].

Definition no_flag (s : st) : bool := negb (existsb (fun b => b) (cuns s)).

Definition refutes (vs : list var) (cs : list con) (ops : list op) (y : list Q) : bool :=
  match run_ops 1000 (init vs cs) ops with
  | Ok s' => no_flag s'
             && forallb (holdsb (svars s') (place_of y)) (scons s')
             && Qltb (obj (svars s') (place_of y)) (obj (svars s') (place_of (final_positions s')))
  | _ => false
  end.

Lemma refutes_spec vs cs ops y :
  refutes vs cs ops y = true ->
  exists s', run_ops 1000 (init vs cs) ops = Ok s' /\ no_flag s' = true /\
             feasible (svars s') (scons s') (place_of y) /\
             obj (svars s') (place_of y) < obj (svars s') (place_of (final_positions s')).
Proof.
  unfold refutes. destruct (run_ops 1000 (init vs cs) ops) as [s'| |]; try discriminate.
  rewrite !andb_true_iff, forallb_forall, Qltb_spec. intros [[A B] D].
  exists s'. repeat split; try assumption.
  intros c Hc. apply holdsb_spec. exact (B c Hc).
Qed.

(* the model's solve() returns Ok, flags nothing, and there is a feasible placement with a strictly smaller objective *)
Theorem solve_optimal_refuted :
  exists vs cs ops s' y,
    run_ops 1000 (init vs cs) ops = Ok s' /\ no_flag s' = true /\
    feasible (svars s') (scons s') (place_of y) /\
    obj (svars s') (place_of y) < obj (svars s') (place_of (final_positions s')).
Proof.
  exists w_vs, w_cs, w_ops.
  destruct (refutes_spec w_vs w_cs w_ops w_better) as [s' H]; [vm_compute; reflexivity|].
  exists s', w_better. exact H.
Qed.

(* how bad: the returned objective is 229/46 = 4.978..., the optimum 17/4 *)
Example solve_optimal_refuted_values :
  match run_ops 1000 (init w_vs w_cs) w_ops with
  | Ok s' => Qeqb (obj (svars s') (place_of (final_positions s'))) (229#46)
             && Qeqb (obj (svars s') (place_of w_better)) (17#4)
  | _ => false
  end = true.
Proof. vm_compute. reflexivity. Qed.

(* and a fresh solver on the final problem does find it (so it is the history that matters) *)
Example fresh_solve_is_optimal :
  match run_ops 1000 (init [mkvar 2 10 1; mkvar 2 1 1; mkvar 0 1 1; mkvar 4 10 1; mkvar 4 1 1] w_cs) [Solve] with
  | Ok s' => forallb (fun p => Qeqb (fst p) (snd p)) (combine (final_positions s') w_better)
  | _ => false
  end = true.
Proof. vm_compute. reflexivity. Qed.
