(* C02, a part that did NOT hold before /repo 676ca34: IncSolver::solve() did not always return the optimum.
   Its loop `while(fabs(lastcost-cost)>0.0001)` stopped as soon as one satisfy() left the cost unchanged; a
   satisfy() that splits a block on one constraint and re-merges it over another tight constraint reproduces the same
   positions and cost although a second active constraint still has a negative multiplier (one split per block per
   pass).  The model of the OLD loop (solve_loop false) exhibits it; the witness was replayed on the real code (real
   result cost 4.978261, optimum 4.25) and is kept in corpus/c02_cost_stall.txt.  The current loop (fixed = true:
   `|| splitCnt>0`, 100 tries) returns the optimum on the same witnesses (Examples at the end). *)
From Adapt Require Import Num.Qaux Vpsc.VpscSpec Vpsc.KKT Vpsc.VpscModel.
Local Open Scope Q_scope.

Definition run_ops_gen (fixed : bool) (fuel : nat) (s : st) (ops : list op) : res st :=
  fold_left (fun r o => bind r (fun s' => step_gen fixed fuel s' o)) ops (Ok s).
Definition run_ops := run_ops_gen true.
Definition run_ops_before_fix := run_ops_gen false.

Definition w_vs : list var := [mkvar 2 10 1; mkvar 2 1 1; mkvar 0 1 1; mkvar 0 10 1; mkvar 0 1 1].
Definition w_cs : list con :=
  [mkcon 3 4 1 false; mkcon 3 1 0 false; mkcon 2 0 (3#2) false; mkcon 2 4 4 false; mkcon 0 1 (3#2) false].
Definition w_ops : list op := [Solve; SetDesired 4 4; SetDesired 3 4; Solve].
Definition w_better : list Q := [2; 15#4; 0; 15#4; 19#4].

Definition no_flag (s : st) : bool := negb (existsb (fun b => b) (cuns s)).

Definition refutes (vs : list var) (cs : list con) (ops : list op) (y : list Q) : bool :=
  match run_ops_before_fix 1000 (init vs cs) ops with
  | Ok s' => no_flag s'
             && forallb (holdsb (svars s') (place_of y)) (scons s')
             && Qltb (obj (svars s') (place_of y)) (obj (svars s') (place_of (final_positions s')))
  | _ => false
  end.

Lemma refutes_spec vs cs ops y :
  refutes vs cs ops y = true ->
  exists s', run_ops_before_fix 1000 (init vs cs) ops = Ok s' /\ no_flag s' = true /\
             feasible (svars s') (scons s') (place_of y) /\
             obj (svars s') (place_of y) < obj (svars s') (place_of (final_positions s')).
Proof.
  unfold refutes. destruct (run_ops_before_fix 1000 (init vs cs) ops) as [s'| |]; try discriminate.
  rewrite !andb_true_iff, forallb_forall, Qltb_spec. intros [[A B] D].
  exists s'. repeat split; try assumption.
  intros c Hc. apply holdsb_spec. exact (B c Hc).
Qed.

(* the model's solve() returns Ok, flags nothing, and there is a feasible placement with a strictly smaller objective *)
Theorem solve_optimal_refuted_before_fix :
  exists vs cs ops s' y,
    run_ops_before_fix 1000 (init vs cs) ops = Ok s' /\ no_flag s' = true /\
    feasible (svars s') (scons s') (place_of y) /\
    obj (svars s') (place_of y) < obj (svars s') (place_of (final_positions s')).
Proof.
  exists w_vs, w_cs, w_ops.
  destruct (refutes_spec w_vs w_cs w_ops w_better) as [s' H]; [vm_compute; reflexivity|].
  exists s', w_better. exact H.
Qed.

(* how bad: the returned objective is 229/46 = 4.978..., the optimum 17/4 *)
Example solve_optimal_refuted_values :
  match run_ops_before_fix 1000 (init w_vs w_cs) w_ops with
  | Ok s' => Qeqb (obj (svars s') (place_of (final_positions s'))) (229#46)
             && Qeqb (obj (svars s') (place_of w_better)) (17#4)
  | _ => false
  end = true.
Proof. vm_compute. reflexivity. Qed.

(* and a fresh solver on the final problem does find it (so it is the history that matters) *)
Example fresh_solve_is_optimal :
  match run_ops 1000 (init [mkvar 2 10 1; mkvar 2 1 1; mkvar 0 1 1; mkvar 4 10 1; mkvar 4 1 1] w_cs) [Solve] with
  | Ok s' => forallb (fun p => Qeqb (fst p) (snd p)) (combine (final_positions s') w_better)
  | _ => false
  end = true.
Proof. vm_compute. reflexivity. Qed.

(* the current loop returns the optimum on the history witness ... *)
Example fixed_solve_is_optimal_on_witness :
  match run_ops 1000 (init w_vs w_cs) w_ops with
  | Ok s' => forallb (fun p => Qeqb (fst p) (snd p)) (combine (final_positions s') w_better)
  | _ => false
  end = true.
Proof. vm_compute. reflexivity. Qed.

(* ... and on the fresh-solver witness found by the C20 check (renumbered ordering): old loop 1016/17 = 59.7647, new 176/3 *)
Definition c20_vs : list var :=
  [mkvar (1#4) 2 1; mkvar (1#4) 1 1; mkvar (1#4) 1 1; mkvar (1#4) 1 1; mkvar (1#4) 1 1; mkvar (1#4) 1 1; mkvar (1#4) 10 1].
Definition c20_cs : list con :=   (* corpus/c02_cost_stall.txt, instance 900003 *)
  [mkcon 4 5 0 false; mkcon 2 5 4 false; mkcon 3 6 4 false; mkcon 4 3 2 false; mkcon 4 6 1 false; mkcon 3 6 0 false;
   mkcon 4 2 3 false; mkcon 0 5 4 false; mkcon 4 2 0 false; mkcon 1 6 1 false; mkcon 2 1 2 false].
Example c20_before_and_after_fix :
  match run_ops_before_fix 1000 (init c20_vs c20_cs) [Solve], run_ops 1000 (init c20_vs c20_cs) [Solve] with
  | Ok s1, Ok s2 => Qeqb (obj c20_vs (place_of (final_positions s1))) (1016#17)
                    && Qeqb (obj c20_vs (place_of (final_positions s2))) (176#3)
  | _, _ => false
  end = true.
Proof. vm_compute. reflexivity. Qed.
