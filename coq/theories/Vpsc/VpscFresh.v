(* C02: the two state hypotheses of solve_near_optimal_history_partial proved as invariants of the IncSolver model.

   (1) all_fresh: when satisfy() / solve() return, the statistics AB / AD of the block of every variable are the sums
       over the block for the CURRENT offsets and desired positions.  AD is stale between a change of a desired position
       and the next moveBlocks, and AB / AD are stale in deleted blocks (a merge shifts the offsets of the variables it
       moves away), so the invariant is stated for the blocks that still own their variables:
         HS s   : every block that is the block of some variable and owns its variable list has AB, AD = the sums;
         live s : Blocks::m_blocks lists the block of every variable and that block is not deleted
       live holds in every reachable state; moveBlocks (the first thing satisfy does) establishes HS from live alone;
       every later step of satisfy preserves HS.
   (2) LL: the lm vector has one entry per constraint, in every reachable state.
   Result: solve_near_optimal_history (no hypothesis on the returned state). *)
From Adapt Require Import Num.Qaux Vpsc.VpscSpec Vpsc.KKT Vpsc.VpscModel Vpsc.VpscInv Vpsc.VpscFrame Vpsc.VpscTree
  Vpsc.VpscPopulate Vpsc.VpscForest Vpsc.VpscWalks Vpsc.VpscTrichotomy Vpsc.VpscReach Vpsc.VpscStats Vpsc.VpscKktB
  Vpsc.VpscStationary Vpsc.VpscModelW Vpsc.VpscWeight Vpsc.VpscStatsW.
Local Open Scope Q_scope.

(* ------------------------------------------------------------------ the sums *)
Definition tAB (s : st) (sc : Q) (w : nat) : Q :=
  wt (var_of s w) * (sc / scl (var_of s w)) * (off_of s w / scl (var_of s w)).
Definition tAD (s : st) (sc : Q) (w : nat) : Q :=
  wt (var_of s w) * (sc / scl (var_of s w)) * des (var_of s w).
Definition tA2 (s : st) (sc : Q) (w : nat) : Q :=
  wt (var_of s w) * (sc / scl (var_of s w)) * (sc / scl (var_of s w)).
Definition abd_ok (s : st) (B : blkT) : Prop :=
  AB B == csum (bvars B) (tAB s (bscale B)) /\ AD B == csum (bvars B) (tAD s (bscale B)) /\
  A2 B == csum (bvars B) (tA2 s (bscale B)).

Definition owns (s : st) (b : nat) : Prop :=
  NoDup (bvars (block_of s b)) /\ forall w, In w (bvars (block_of s b)) -> blk_of s w = b.
Definition varblk (s : st) (b : nat) : Prop := exists v, (v < length (vblk s))%nat /\ blk_of s v = b.
Definition TG (s : st) (b : nat) : Prop := owns s b -> abd_ok s (block_of s b).
Definition HS (s : st) : Prop :=
  length (voff s) = length (vblk s) /\
  forall b, (b < length (blocks s))%nat -> varblk s b -> TG s b.

Lemma abd_ok_ext s s' B :
  svars s' = svars s -> (forall w, In w (bvars B) -> off_of s' w = off_of s w) -> abd_ok s B -> abd_ok s' B.
Proof.
  intros E O [A [D A2']]. split; [|split].
  - rewrite A. apply csum_ext. intros w Hw. unfold tAB, var_of. rewrite E, (O w Hw). reflexivity.
  - rewrite D. apply csum_ext. intros w Hw. unfold tAD, var_of. rewrite E. reflexivity.
  - rewrite A2'. apply csum_ext. intros w Hw. unfold tA2, var_of. rewrite E. reflexivity.
Qed.

(* the record Block::addVariable writes *)
Definition addrec (s : st) (B : blkT) (v : nat) : blkT :=
  let V := var_of s v in
  let sc := if Qeqb (A2 B) 0 then scl V else bscale B in
  let ai := sc / scl V in
  let bi := off_of s v / scl V in
  let wi := wt V in
  let ab := Qred (AB B + wi * ai * bi) in
  let ad := Qred (AD B + wi * ai * des V) in
  let a2 := Qred (A2 B + wi * ai * ai) in
  mkblk (bvars B ++ [v]) (Qred ((ad - ab) / a2)) sc ab ad a2 (dead B).

Lemma add_variable_block s b v :
  (b < length (blocks s))%nat -> block_of (add_variable s b v) b = addrec s (block_of s b) v.
Proof.
  intros Hb. unfold add_variable, block_of, set_block, set_blocks. cbn [blocks set_vblk].
  rewrite nth_upd_nth_eq by exact Hb. reflexivity.
Qed.

Lemma add_abd s B v :
  (VpscStats.fresh B \/ 0 < A2 B) -> abd_ok s B -> abd_ok s (addrec s B v).
Proof.
  intros H [A [D S2]]. unfold addrec, abd_ok. cbv zeta.
  destruct H as [[F1 F2]|P].
  - assert (E : Qeqb (A2 B) 0 = true) by (apply Qeqb_spec; exact F2). rewrite E.
    cbn [bvars bscale AB AD A2]. rewrite F1 in *. cbn [csum app] in *. rewrite !Qred_correct.
    unfold tAB, tAD, tA2. rewrite A, D, F2. split; [ring | split; ring].
  - assert (E : Qeqb (A2 B) 0 = false) by (apply Qeqb_false; lra). rewrite E.
    cbn [bvars bscale AB AD A2]. rewrite !Qred_correct, !csum_app. cbn [csum]. rewrite <- A, <- D, <- S2.
    unfold tAB, tAD, tA2. split; [ring | split; ring].
Qed.

(* ------------------------------------------------------------------ one addVariable (after an optional offset shift of v) *)
Lemma blk_of_add_neq s b v w : w <> v -> blk_of (add_variable s b v) w = blk_of s w.
Proof. intros N. unfold add_variable, blk_of. cbn [vblk set_vblk]. apply nth_upd_nth_neq. congruence. Qed.
Lemma blk_of_add_eq s b v :
  blk_of (add_variable s b v) v = b \/ ((length (vblk s) <= v)%nat /\ blk_of (add_variable s b v) v = blk_of s v).
Proof.
  destruct (Nat.lt_ge_cases v (length (vblk s))) as [L|L].
  - left. unfold add_variable, blk_of. cbn [vblk set_vblk]. apply nth_upd_nth_eq. exact L.
  - right. split; [exact L|]. unfold add_variable, blk_of. cbn [vblk set_vblk].
    rewrite !nth_overflow; [reflexivity | exact L | rewrite upd_nth_length; exact L].
Qed.
Lemma add_variable_lvblk s b v : length (vblk (add_variable s b v)) = length (vblk s).
Proof. unfold add_variable. cbn [vblk set_vblk]. apply upd_nth_length. Qed.

Lemma owns_back_other s b v B :
  B <> b -> owns (add_variable s b v) B -> owns s B /\ (In v (bvars (block_of s B)) -> (length (vblk s) <= v)%nat).
Proof.
  intros N [ND M]. rewrite add_variable_other in ND, M by exact N. split; [split; [exact ND|]|].
  - intros w Hw. specialize (M w Hw). destruct (Nat.eq_dec w v) as [->|Nw].
    + destruct (blk_of_add_eq s b v) as [E|[_ E]]; congruence.
    + rewrite blk_of_add_neq in M by exact Nw. exact M.
  - intros Hv. specialize (M v Hv). destruct (blk_of_add_eq s b v) as [E|[L _]]; [congruence | exact L].
Qed.
Lemma owns_back_this s b v :
  (b < length (blocks s))%nat -> owns (add_variable s b v) b -> owns s b /\ ~ In v (bvars (block_of s b)).
Proof.
  intros Hb [ND M]. rewrite add_variable_block in ND, M by exact Hb. unfold addrec in ND, M. cbn [bvars] in ND, M.
  pose proof (NoDup_remove_1 _ _ _ ND) as ND1. pose proof (NoDup_remove_2 _ _ _ ND) as ND2. rewrite app_nil_r in ND1, ND2.
  split; [split; [exact ND1|] | exact ND2].
  intros w Hw. assert (Nw : w <> v) by (intros ->; contradiction).
  rewrite <- (blk_of_add_neq s b v w Nw). apply M. apply in_or_app. left. exact Hw.
Qed.
Lemma varblk_back s b v B : B <> b -> varblk (add_variable s b v) B -> varblk s B.
Proof.
  intros N [v0 [L E]]. rewrite add_variable_lvblk in L. exists v0. split; [exact L|].
  destruct (Nat.eq_dec v0 v) as [->|Nv]; [|rewrite blk_of_add_neq in E by exact Nv; exact E].
  destruct (blk_of_add_eq s b v) as [X|[X _]]; [congruence | lia].
Qed.

(* s0 is s with (possibly) the offset of v changed *)
Definition shifted (s s0 : st) (v : nat) : Prop :=
  svars s0 = svars s /\ vblk s0 = vblk s /\ blocks s0 = blocks s /\ length (voff s0) = length (voff s) /\
  forall w, w <> v \/ (length (voff s) <= w)%nat -> off_of s0 w = off_of s w.
Lemma shifted_refl s v : shifted s s v.
Proof. repeat split; reflexivity. Qed.
Lemma shifted_mstep s v x : shifted s (set_voff s (upd_nth (voff s) v x)) v.
Proof.
  repeat split; try reflexivity; [cbn; apply upd_nth_length|].
  intros w [N|L]; unfold off_of; cbn [voff set_voff].
  - apply nth_upd_nth_neq. congruence.
  - rewrite !nth_overflow; [reflexivity | exact L | rewrite upd_nth_length; exact L].
Qed.

Lemma step_HS s s0 b v :
  shifted s s0 v -> (b < length (blocks s))%nat ->
  (VpscStats.fresh (block_of s b) \/ 0 < A2 (block_of s b)) ->
  HS s -> TG s b -> HS (add_variable s0 b v) /\ TG (add_variable s0 b v) b.
Proof.
  intros [E1 [E2 [E3 [E4 E5]]]] Hb FA [Len H] T.
  assert (Eblk : forall w, blk_of s0 w = blk_of s w) by (intros w; unfold blk_of; rewrite E2; reflexivity).
  assert (Ebl : forall B, block_of s0 B = block_of s B) by (intros B; unfold block_of; rewrite E3; reflexivity).
  assert (Hb0 : (b < length (blocks s0))%nat) by (rewrite E3; exact Hb).
  assert (Tthis : TG (add_variable s0 b v) b).
  { intros O. destruct (owns_back_this s0 b v Hb0 O) as [[ND M] Nin].
    rewrite Ebl in ND, M, Nin.
    assert (O' : owns s b) by (split; [exact ND | intros w Hw; rewrite <- Eblk; exact (M w Hw)]).
    pose proof (T O') as A.
    assert (A0 : abd_ok s0 (block_of s b)).
    { apply (abd_ok_ext s); [exact E1 | | exact A]. intros w Hw. apply E5. left. intros ->. contradiction. }
    rewrite add_variable_block by exact Hb0. rewrite Ebl.
    apply (abd_ok_ext s0); [reflexivity | intros; reflexivity |]. apply add_abd; assumption. }
  split; [|exact Tthis]. split.
  - rewrite add_variable_lvblk. cbn [voff add_variable set_vblk set_block set_blocks]. unfold add_variable. cbn [voff set_vblk set_block set_blocks].
    rewrite E4, E2. exact Len.
  - intros B HB VB. destruct (Nat.eq_dec B b) as [->|N]; [exact Tthis|].
    intros O. rewrite add_variable_lblocks, E3 in HB.
    pose proof (varblk_back s0 b v B N VB) as [v0 [L0 Ev0]]. rewrite E2 in L0. rewrite Eblk in Ev0.
    destruct (owns_back_other s0 b v B N O) as [[ND M] Far]. rewrite Ebl in ND, M, Far. rewrite E2 in Far.
    assert (O' : owns s B) by (split; [exact ND | intros w Hw; rewrite <- Eblk; exact (M w Hw)]).
    assert (A : abd_ok s (block_of s B)) by (apply (H B HB); [exists v0; split; assumption | exact O']).
    rewrite add_variable_other by exact N. rewrite Ebl.
    apply (abd_ok_ext s); [exact E1 | | exact A].
    intros w Hw. change (off_of (add_variable s0 b v) w) with (off_of s0 w). apply E5.
    destruct (Nat.eq_dec w v) as [->|Nw]; [right; rewrite Len; apply Far; exact Hw | left; exact Nw].
Qed.

(* ------------------------------------------------------------------ frames *)
Lemma HS_frame s s' :
  svars s' = svars s -> voff s' = voff s -> vblk s' = vblk s -> length (blocks s') = length (blocks s) ->
  (forall b, bvars (block_of s' b) = bvars (block_of s b) /\ bscale (block_of s' b) = bscale (block_of s b) /\
             AB (block_of s' b) = AB (block_of s b) /\ AD (block_of s' b) = AD (block_of s b) /\
             A2 (block_of s' b) = A2 (block_of s b)) ->
  HS s -> HS s'.
Proof.
  intros E1 E2 E3 E4 EB [Len H]. split; [rewrite E2, E3; exact Len|].
  assert (Eblk : forall w, blk_of s' w = blk_of s w) by (intros w; unfold blk_of; rewrite E3; reflexivity).
  intros b Hb [v0 [L0 Ev0]] [ND M]. destruct (EB b) as [B1 [B2 [B3 [B4 B5]]]].
  rewrite E4 in Hb. rewrite E3 in L0. rewrite Eblk in Ev0. rewrite B1 in ND, M.
  assert (O : owns s b) by (split; [exact ND | intros w Hw; rewrite <- Eblk; exact (M w Hw)]).
  destruct (H b Hb (ex_intro _ v0 (conj L0 Ev0)) O) as [A [D S2]].
  unfold abd_ok. rewrite B1, B2, B3, B4, B5. split; [|split].
  - rewrite A. apply csum_ext. intros w _. unfold tAB, var_of, off_of. rewrite E1, E2. reflexivity.
  - rewrite D. apply csum_ext. intros w _. unfold tAD, var_of. rewrite E1. reflexivity.
  - rewrite S2. apply csum_ext. intros w _. unfold tA2, var_of. rewrite E1. reflexivity.
Qed.
Lemma HS_same_blocks s s' :
  svars s' = svars s -> voff s' = voff s -> vblk s' = vblk s -> blocks s' = blocks s -> HS s -> HS s'.
Proof.
  intros E1 E2 E3 E4. apply HS_frame; try assumption; [rewrite E4; reflexivity|].
  intros b. unfold block_of. rewrite E4. repeat split; reflexivity.
Qed.
Lemma HS_lm_only s s' : lm_only s s' -> HS s -> HS s'.
Proof. intros [lm [t ->]] H. exact H. Qed.

Lemma kill_block_stat s b B :
  bvars (block_of (kill_block s b) B) = bvars (block_of s B) /\ bscale (block_of (kill_block s b) B) = bscale (block_of s B) /\
  AB (block_of (kill_block s b) B) = AB (block_of s B) /\ AD (block_of (kill_block s b) B) = AD (block_of s B) /\
  A2 (block_of (kill_block s b) B) = A2 (block_of s B).
Proof.
  unfold kill_block, set_block, set_blocks, block_of. cbn [blocks].
  destruct (Nat.eq_dec b B) as [->|N]; [|rewrite nth_upd_nth_neq by exact N; repeat split; reflexivity].
  destruct (Nat.lt_ge_cases B (length (blocks s))) as [L|L].
  - rewrite nth_upd_nth_eq by exact L. repeat split; reflexivity.
  - rewrite (nth_overflow (upd_nth _ _ _)) by (rewrite upd_nth_length; exact L). rewrite nth_overflow by exact L. repeat split; reflexivity.
Qed.
Lemma HS_kill_block s b : HS s -> HS (kill_block s b).
Proof.
  apply HS_frame; try reflexivity; [|intros B; apply kill_block_stat].
  unfold kill_block, set_block, set_blocks. cbn [blocks]. apply upd_nth_length.
Qed.

(* ------------------------------------------------------------------ updateWeightedPosition / moveBlocks *)
Lemma stats_add_fold_abd s : forall V sc ab ad a2,
  exists ab' ad' a2', fold_left (stats_add s) V (sc, ab, ad, a2) = (sc, ab', ad', a2') /\
                      ab' == ab + csum V (tAB s sc) /\ ad' == ad + csum V (tAD s sc) /\ a2' == a2 + csum V (tA2 s sc).
Proof.
  induction V as [|v t IH]; intros sc ab ad a2; cbn [fold_left].
  - exists ab, ad, a2. split; [reflexivity | cbn; split; [lra | split; lra]].
  - unfold stats_add at 2. cbv zeta.
    destruct (IH sc (Qred (ab + wt (var_of s v) * (sc / scl (var_of s v)) * (off_of s v / scl (var_of s v))))
                 (Qred (ad + wt (var_of s v) * (sc / scl (var_of s v)) * des (var_of s v)))
                 (Qred (a2 + wt (var_of s v) * (sc / scl (var_of s v)) * (sc / scl (var_of s v))))) as [ab' [ad' [a2' [E1 [E2 [E3 E4]]]]]].
    exists ab', ad', a2'. split; [exact E1|]. rewrite E2, E3, E4, !Qred_correct. cbn [csum]. unfold tAB, tAD, tA2. split; [ring | split; ring].
Qed.

Lemma uwp_shape s b :
  exists pz ab ad a2,
    update_weighted_position s b = set_block s b (mkblk (bvars (block_of s b)) pz (bscale (block_of s b)) ab ad a2 (dead (block_of s b))) /\
    ab == csum (bvars (block_of s b)) (tAB s (bscale (block_of s b))) /\
    ad == csum (bvars (block_of s b)) (tAD s (bscale (block_of s b))) /\
    a2 == csum (bvars (block_of s b)) (tA2 s (bscale (block_of s b))).
Proof.
  unfold update_weighted_position.
  destruct (stats_add_fold_abd s (bvars (block_of s b)) (bscale (block_of s b)) 0 0 0) as [ab [ad [a2 [E1 [E2 [E3 E4]]]]]].
  rewrite E1. exists (Qred ((ad - ab) / a2)), ab, ad, a2. split; [reflexivity|]. split; [rewrite E2; ring | split; [rewrite E3 | rewrite E4]; ring].
Qed.

Lemma set_block_other s b R B : B <> b -> block_of (set_block s b R) B = block_of s B.
Proof. intros N. unfold set_block, set_blocks, block_of. cbn [blocks]. apply nth_upd_nth_neq. congruence. Qed.
Lemma set_block_this s b R : (b < length (blocks s))%nat -> block_of (set_block s b R) b = R.
Proof. intros L. unfold set_block, set_blocks, block_of. cbn [blocks]. apply nth_upd_nth_eq. exact L. Qed.
Lemma set_block_far s b R B : (length (blocks s) <= b)%nat -> block_of (set_block s b R) B = block_of s B.
Proof.
  intros L. destruct (Nat.eq_dec B b) as [->|N]; [|apply set_block_other; exact N].
  unfold set_block, set_blocks, block_of. cbn [blocks].
  rewrite !nth_overflow; [reflexivity | exact L | rewrite upd_nth_length; exact L].
Qed.

Record uwp_facts (s : st) (b : nat) (s' : st) : Prop := {
  uf_svars : svars s' = svars s; uf_voff : voff s' = voff s; uf_vblk : vblk s' = vblk s;
  uf_blist : blist s' = blist s; uf_clm : clm s' = clm s; uf_scons : scons s' = scons s;
  uf_lblocks : length (blocks s') = length (blocks s);
  uf_other : forall B, B <> b -> block_of s' B = block_of s B;
  uf_bvars : forall B, bvars (block_of s' B) = bvars (block_of s B);
  uf_bscale : forall B, bscale (block_of s' B) = bscale (block_of s B);
  uf_dead : forall B, dead (block_of s' B) = dead (block_of s B);
  uf_abd : (b < length (blocks s))%nat -> abd_ok s' (block_of s' b) }.

Lemma uwp_facts_ok s b : uwp_facts s b (update_weighted_position s b).
Proof.
  destruct (uwp_shape s b) as [pz [ab [ad [a2 [E [A [D S2]]]]]]]. rewrite E.
  assert (X : forall B, bvars (block_of (set_block s b (mkblk (bvars (block_of s b)) pz (bscale (block_of s b)) ab ad a2 (dead (block_of s b)))) B) = bvars (block_of s B) /\
                        bscale (block_of (set_block s b (mkblk (bvars (block_of s b)) pz (bscale (block_of s b)) ab ad a2 (dead (block_of s b)))) B) = bscale (block_of s B) /\
                        dead (block_of (set_block s b (mkblk (bvars (block_of s b)) pz (bscale (block_of s b)) ab ad a2 (dead (block_of s b)))) B) = dead (block_of s B)).
  { intros B. destruct (Nat.lt_ge_cases b (length (blocks s))) as [L|L]; [|rewrite set_block_far by exact L; repeat split; reflexivity].
    destruct (Nat.eq_dec B b) as [->|N]; [rewrite set_block_this by exact L | rewrite set_block_other by exact N]; repeat split; reflexivity. }
  constructor; try reflexivity.
  - unfold set_block, set_blocks. cbn [blocks]. apply upd_nth_length.
  - intros B N. apply set_block_other. exact N.
  - intros B. apply X.
  - intros B. apply X.
  - intros B. apply X.
  - intros L. rewrite set_block_this by exact L. split; [|split]; cbn [AB AD A2 bvars bscale];
      [apply (Qeq_trans _ _ _ A) | apply (Qeq_trans _ _ _ D) | apply (Qeq_trans _ _ _ S2)]; apply csum_ext; intros w _; reflexivity.
Qed.

Lemma uwp_HS s b : HS s -> HS (update_weighted_position s b).
Proof.
  intros [Len H]. pose proof (uwp_facts_ok s b) as F. set (s' := update_weighted_position s b) in *.
  split; [rewrite (uf_voff _ _ _ F), (uf_vblk _ _ _ F); exact Len|].
  assert (Eblk : forall w, blk_of s' w = blk_of s w) by (intros w; unfold blk_of; rewrite (uf_vblk _ _ _ F); reflexivity).
  intros B HB [v0 [L0 Ev0]] [ND M]. rewrite (uf_lblocks _ _ _ F) in HB.
  destruct (Nat.eq_dec B b) as [->|N]; [apply (uf_abd _ _ _ F); exact HB|].
  rewrite (uf_vblk _ _ _ F) in L0. rewrite Eblk in Ev0. rewrite (uf_bvars _ _ _ F) in ND, M.
  assert (O : owns s B) by (split; [exact ND | intros w Hw; rewrite <- Eblk; exact (M w Hw)]).
  pose proof (H B HB (ex_intro _ v0 (conj L0 Ev0)) O) as A.
  rewrite (uf_other _ _ _ F B N). apply (abd_ok_ext s); [exact (uf_svars _ _ _ F) | | exact A].
  intros w _. unfold off_of. rewrite (uf_voff _ _ _ F). reflexivity.
Qed.

Record mb_facts (s s' : st) : Prop := {
  mb_svars : svars s' = svars s; mb_voff : voff s' = voff s; mb_vblk : vblk s' = vblk s;
  mb_blist : blist s' = blist s; mb_clm : clm s' = clm s; mb_scons : scons s' = scons s;
  mb_lblocks : length (blocks s') = length (blocks s);
  mb_dead : forall B, dead (block_of s' B) = dead (block_of s B) }.

Lemma fold_uwp_facts : forall l s, mb_facts s (fold_left update_weighted_position l s).
Proof.
  induction l as [|b l IH]; intros s; cbn [fold_left]; [constructor; reflexivity|].
  pose proof (uwp_facts_ok s b) as F. destruct (IH (update_weighted_position s b)) as [A1 A2' A3 A4 A5 A6 A7 A8].
  destruct F. constructor; try congruence; intros B; rewrite A8; auto.
Qed.

Lemma fold_uwp_abd : forall l s b,
  (b < length (blocks s))%nat -> (In b l \/ abd_ok s (block_of s b)) ->
  abd_ok (fold_left update_weighted_position l s) (block_of (fold_left update_weighted_position l s) b).
Proof.
  induction l as [|a l IH]; intros s b Hb H; cbn [fold_left].
  - destruct H as [[]|H]. exact H.
  - pose proof (uwp_facts_ok s a) as F. apply IH; [rewrite (uf_lblocks _ _ _ F); exact Hb|].
    destruct (Nat.eq_dec b a) as [->|N]; [right; apply (uf_abd _ _ _ F); exact Hb|].
    destruct H as [[E|H]|H]; [congruence | left; exact H | right].
    rewrite (uf_other _ _ _ F b N). apply (abd_ok_ext s); [exact (uf_svars _ _ _ F) | | exact H].
    intros w _. unfold off_of. rewrite (uf_voff _ _ _ F). reflexivity.
Qed.

(* Blocks::m_blocks lists the block of every variable, and that block is not deleted *)
Definition live (s : st) : Prop :=
  forall v, (v < length (svars s))%nat -> In (blk_of s v) (blist s) /\ dead (block_of s (blk_of s v)) = false.

Lemma live_frame s s' :
  svars s' = svars s -> vblk s' = vblk s -> blist s' = blist s ->
  (forall B, dead (block_of s' B) = dead (block_of s B)) -> live s -> live s'.
Proof.
  intros E1 E2 E3 ED L v Hv. rewrite E1 in Hv. unfold blk_of. rewrite E2, E3, ED. exact (L v Hv).
Qed.
Lemma live_same_blocks s s' :
  svars s' = svars s -> vblk s' = vblk s -> blist s' = blist s -> blocks s' = blocks s -> live s -> live s'.
Proof. intros E1 E2 E3 E4. apply live_frame; try assumption. intros B. unfold block_of. rewrite E4. reflexivity. Qed.
Lemma live_lm_only s s' : lm_only s s' -> live s -> live s'.
Proof. intros [lm [t ->]] H. exact H. Qed.

Lemma move_blocks_live s : live s -> live (move_blocks s).
Proof. destruct (fold_uwp_facts (blist s) s). apply live_frame; assumption. Qed.
Lemma uwp_live s b : live s -> live (update_weighted_position s b).
Proof. destruct (uwp_facts_ok s b). apply live_frame; assumption. Qed.

(* moveBlocks makes the statistics of every listed block current *)
Theorem move_blocks_HS s : book s -> live s -> HS (move_blocks s).
Proof.
  intros BK LV. pose proof (fold_uwp_facts (blist s) s) as F. fold (move_blocks s) in F.
  split; [rewrite (mb_voff _ _ F), (mb_vblk _ _ F), (bk_voff s BK), (bk_vblk s BK); reflexivity|].
  intros b Hb [v0 [L0 Ev0]] _. rewrite (mb_vblk _ _ F), (bk_vblk s BK) in L0.
  unfold blk_of in Ev0. rewrite (mb_vblk _ _ F) in Ev0. fold (blk_of s v0) in Ev0.
  rewrite (mb_lblocks _ _ F) in Hb. unfold move_blocks. apply fold_uwp_abd; [exact Hb|]. left.
  rewrite <- Ev0. exact (proj1 (LV v0 L0)).
Qed.

(* ------------------------------------------------------------------ merge *)
Lemma mfold_HS t d : forall vars s,
  all_pos s -> (t < length (blocks s))%nat -> HS s -> TG s t ->
  HS (fold_left (mstep t d) vars s) /\ TG (fold_left (mstep t d) vars s) t.
Proof.
  induction vars as [|v vars IH]; intros s A Ht H T; cbn [fold_left]; [split; assumption|].
  assert (P : 0 < A2 (block_of s t)) by (destruct A as [_ A]; destruct (A t Ht) as [_ [_ [P _]]]; exact P).
  destruct (step_HS s (set_voff s (upd_nth (voff s) v (Qred (off_of s v + d)))) t v (shifted_mstep s v _) Ht (or_intror P) H T) as [H1 T1].
  apply IH; [apply mstep_all_pos; exact A | | exact H1 | exact T1].
  unfold mstep. rewrite add_variable_lblocks. exact Ht.
Qed.

Lemma merge_into_HS s t b c d x :
  book s -> all_pos s -> HS s -> (x < length (svars s))%nat -> blk_of s x = t -> HS (merge_into s t b c d).
Proof.
  intros BK A H Hx Ex. rewrite merge_into_unfold. apply HS_kill_block.
  set (s1 := set_cact s (upd_nth (cact s) c true)).
  assert (A1 : all_pos s1) by (apply (all_pos_frame s); [reflexivity | reflexivity | exact A]).
  assert (H1 : HS s1) by (apply (HS_same_blocks s); try reflexivity; exact H).
  assert (Ht : (t < length (blocks s1))%nat) by (rewrite <- Ex; exact (bk_blk s BK x Hx)).
  apply (mfold_HS t d _ s1 A1 Ht H1). apply (proj2 H1 t Ht). exists x. split; [|exact Ex].
  change (vblk s1) with (vblk s). rewrite (bk_vblk s BK). exact Hx.
Qed.

Theorem merge_HS s c :
  book s -> all_pos s -> HS s -> (c < length (scons s))%nat -> HS (fst (merge s c)).
Proof.
  intros BK A H Hc. destruct (con_ends s c BK Hc) as [Hl Hr]. unfold merge. fold (con_of s c). cbv zeta.
  destruct (Nat.ltb _ _); cbn [fst].
  - apply (merge_into_HS s _ _ c _ (cr (con_of s c))); auto.
  - apply (merge_into_HS s _ _ c _ (cl (con_of s c))); auto.
Qed.

Lemma add_variable_dead s b v B : dead (block_of (add_variable s b v) B) = dead (block_of s B).
Proof.
  destruct (Nat.eq_dec B b) as [->|N]; [|rewrite add_variable_other by exact N; reflexivity].
  destruct (Nat.lt_ge_cases b (length (blocks s))) as [L|L]; [rewrite add_variable_block by exact L; reflexivity|].
  unfold add_variable. change (block_of (set_vblk ?x ?y) b) with (block_of x b). rewrite set_block_far by exact L. reflexivity.
Qed.
Lemma mfold_dead t d B : forall vars s, dead (block_of (fold_left (mstep t d) vars s) B) = dead (block_of s B).
Proof.
  induction vars as [|v vars IH]; intros s; cbn [fold_left]; [reflexivity|]. rewrite IH. unfold mstep. rewrite add_variable_dead. reflexivity.
Qed.
Lemma kill_block_dead_other s b B : B <> b -> dead (block_of (kill_block s b) B) = dead (block_of s B).
Proof. intros N. unfold kill_block. rewrite set_block_other by exact N. reflexivity. Qed.
Lemma merge_into_dead s t b c d B : B <> b -> dead (block_of (merge_into s t b c d) B) = dead (block_of s B).
Proof. intros N. rewrite merge_into_unfold, kill_block_dead_other by exact N. rewrite mfold_dead. reflexivity. Qed.

Definition live_in (L : list nat) (s : st) : Prop :=
  forall v, (v < length (svars s))%nat -> In (blk_of s v) L /\ dead (block_of s (blk_of s v)) = false.

(* what a merge across c does to the block of every variable *)
Lemma merge_live_in L s c :
  book s -> live_in L s -> (c < length (scons s))%nat ->
  blk_of s (cl (con_of s c)) <> blk_of s (cr (con_of s c)) ->
  exists t b,
    snd (merge s c) = t /\
    ((t = blk_of s (cl (con_of s c)) /\ b = blk_of s (cr (con_of s c))) \/
     (t = blk_of s (cr (con_of s c)) /\ b = blk_of s (cl (con_of s c)))) /\
    svars (fst (merge s c)) = svars s /\ blist (fst (merge s c)) = blist s /\
    forall w, (w < length (svars s))%nat ->
      dead (block_of (fst (merge s c)) (blk_of (fst (merge s c)) w)) = false /\
      ((blk_of s w = b /\ blk_of (fst (merge s c)) w = t) \/ (blk_of s w <> b /\ blk_of (fst (merge s c)) w = blk_of s w)).
Proof.
  intros BK LV Hc Hne. destruct (con_ends s c BK Hc) as [Hl Hr].
  assert (G : forall t b d x y, (x < length (svars s))%nat -> (y < length (svars s))%nat -> blk_of s x = t -> blk_of s y = b -> t <> b ->
            svars (merge_into s t b c d) = svars s /\ blist (merge_into s t b c d) = blist s /\
            forall w, (w < length (svars s))%nat ->
              dead (block_of (merge_into s t b c d) (blk_of (merge_into s t b c d) w)) = false /\
              ((blk_of s w = b /\ blk_of (merge_into s t b c d) w = t) \/ (blk_of s w <> b /\ blk_of (merge_into s t b c d) w = blk_of s w))).
  { intros t b d x y Hx Hy Ex Ey N. destruct (merge_into_facts s t b c d x y BK Hx Hy Ex Ey N) as [G1 G2 G3 G4 G5 G6 G7 G8 G9 G10].
    split; [exact G1|]. split; [exact G6|]. intros w Hw. destruct (G9 w Hw) as [Ga Gb].
    destruct (Nat.eq_dec (blk_of s w) b) as [E|E].
    - rewrite (Ga E). split; [|left; split; [exact E | reflexivity]].
      rewrite merge_into_dead by exact N. rewrite <- Ex. exact (proj2 (LV x Hx)).
    - rewrite (Gb E). split; [|right; split; [exact E | reflexivity]].
      rewrite merge_into_dead by exact E. exact (proj2 (LV w Hw)). }
  unfold merge. fold (con_of s c). cbv zeta. destruct (Nat.ltb _ _); cbn [fst snd].
  - exists (blk_of s (cr (con_of s c))), (blk_of s (cl (con_of s c))). split; [reflexivity|]. split; [right; split; reflexivity|].
    apply (G _ _ _ (cr (con_of s c)) (cl (con_of s c))); auto.
  - exists (blk_of s (cl (con_of s c))), (blk_of s (cr (con_of s c))). split; [reflexivity|]. split; [left; split; reflexivity|].
    apply (G _ _ _ (cl (con_of s c)) (cr (con_of s c))); auto.
Qed.

Theorem merge_live s c :
  book s -> live s -> (c < length (scons s))%nat -> blk_of s (cl (con_of s c)) <> blk_of s (cr (con_of s c)) ->
  live (fst (merge s c)).
Proof.
  intros BK LV Hc Hne. destruct (con_ends s c BK Hc) as [Hl Hr].
  destruct (merge_live_in (blist s) s c BK LV Hc Hne) as [t [b [_ [TB [E1 [E2 W]]]]]].
  intros w Hw. rewrite E1 in Hw. destruct (W w Hw) as [D X]. split; [|exact D]. rewrite E2.
  destruct X as [[_ ->]|[_ ->]]; [|exact (proj1 (LV w Hw))].
  destruct TB as [[-> _]|[-> _]]; [exact (proj1 (LV _ Hl)) | exact (proj1 (LV _ Hr))].
Qed.

(* ------------------------------------------------------------------ populate / split *)
Lemma new_block_HS s : HS s -> HS (snd (new_block s)) /\ TG (snd (new_block s)) (fst (new_block s)).
Proof.
  intros [Len H]. unfold new_block. cbn [fst snd].
  set (s1 := set_blocks s (blocks s ++ [mkblk [] 0 0 0 0 0 false])).
  assert (New : block_of s1 (length (blocks s)) = mkblk [] 0 0 0 0 0 false).
  { unfold block_of, s1. cbn [blocks set_blocks]. rewrite app_nth2 by lia. rewrite Nat.sub_diag. reflexivity. }
  assert (Old : forall B, (B < length (blocks s))%nat -> block_of s1 B = block_of s B).
  { intros B HB. unfold block_of, s1. cbn [blocks set_blocks]. apply app_nth1. exact HB. }
  assert (TN : TG s1 (length (blocks s))).
  { intros _. rewrite New. split; [|split]; cbn; reflexivity. }
  split; [|exact TN]. split; [exact Len|].
  intros B HB VB. unfold s1 in HB. cbn [blocks set_blocks] in HB. rewrite app_length in HB. cbn in HB.
  destruct (Nat.eq_dec B (length (blocks s))) as [->|N]; [exact TN|].
  assert (HB' : (B < length (blocks s))%nat) by lia.
  intros [ND M]. rewrite (Old B HB') in *. exact (H B HB' VB (conj ND M)).
Qed.

Lemma populate_HS : forall fuel this b v u s s',
  populate fuel this b v u s = Ok s' -> okfp s b -> HS s -> TG s b -> HS s' /\ TG s' b.
Proof.
  induction fuel as [|f IH]; intros this b v u s s' H OK HS0 TG0; [discriminate|].
  cbn [populate] in H.
  pose proof (add_variable_okfp s b v OK) as A1. destruct OK as [_ [Hb [_ FS]]].
  assert (FA : VpscStats.fresh (block_of s b) \/ 0 < A2 (block_of s b)).
  { destruct FS as [F|[_ [_ [P _]]]]; [left; exact F | right; exact P]. }
  destruct (step_HS s s b v (shifted_refl s v) Hb FA HS0 TG0) as [H1 T1].
  set (s1 := add_variable s b v) in *.
  set (I := fun x : st => all_pos x /\ length (blocks x) = length (blocks s) /\ HS x /\ TG x b).
  set (gin := fun (s' : st) (c : nat) => if can_follow_left s' this c u
                                          then populate f this b (cl (con_of s' c)) (Some v) s' else Ok s').
  set (gout := fun (s' : st) (c : nat) => if can_follow_right s' this c u
                                           then populate f this b (cr (con_of s' c)) (Some v) s' else Ok s').
  assert (STEP : forall x w x', I x -> populate f this b w (Some v) x = Ok x' -> I x').
  { intros x w x' [Ax [Lx [Hx Tx]]] G.
    assert (OKx : okfp x b) by (apply all_pos_okfp; [exact Ax | rewrite Lx; exact Hb]).
    destruct (populate_statsp _ _ _ _ _ _ _ G OKx) as [A L]. destruct (IH _ _ _ _ _ _ G OKx Hx Tx) as [H' T'].
    split; [exact A|]. split; [congruence|]. split; assumption. }
  destruct (fold_bind_inv gout I (outs_of s v)) with
    (acc := fold_left (fun acc c => bind acc (fun x => gin x c)) (ins_of s v) (Ok s1)) (r := s') as [smid [Emid Rout]].
  { intros x c x' _ Ix G. unfold gout in G. destruct (can_follow_right x this c u); [exact (STEP _ _ _ Ix G)|].
    inversion G. subst. exact Ix. }
  { exact H. }
  destruct (fold_bind_inv gin I (ins_of s v)) with (acc := Ok s1) (r := smid) as [s0 [E0 Rin]].
  { intros x c x' _ Ix G. unfold gin in G. destruct (can_follow_left x this c u); [exact (STEP _ _ _ Ix G)|].
    inversion G. subst. exact Ix. }
  { exact Emid. }
  inversion E0. subst s0.
  destruct (Rout (Rin (conj A1 (conj (add_variable_lblocks s b v) (conj H1 T1))))) as [_ [_ [X Y]]]. split; assumption.
Qed.

Theorem split_HS s this c s' l r : all_pos s -> HS s -> split s this c = Ok (s', l, r) -> HS s'.
Proof.
  intros A H0 H. unfold split in H.
  set (s0 := set_cact s (upd_nth (cact s) c false)) in *.
  assert (A0 : all_pos s0) by (apply (all_pos_frame s); [reflexivity | reflexivity | exact A]).
  assert (HS0 : HS s0) by (apply (HS_same_blocks s); try reflexivity; exact H0).
  pose proof (new_block_okfp s0 A0) as F1. destruct (new_block_HS s0 HS0) as [H1 T1].
  destruct (new_block s0) as [l0 s1]. cbn [fst snd] in F1, H1, T1.
  apply bind_ok in H. destruct H as [s2 [P1 H]].
  destruct (populate_statsp _ _ _ _ _ _ _ P1 F1) as [A2' _].
  destruct (populate_HS _ _ _ _ _ _ _ P1 F1 H1 T1) as [H2 _].
  pose proof (new_block_okfp s2 A2') as F2. destruct (new_block_HS s2 H2) as [H3 T3].
  destruct (new_block s2) as [r0 s3]. cbn [fst snd] in F2, H3, T3.
  apply bind_ok in H. destruct H as [s4 [P2 H]]. inversion H. subst s4.
  exact (proj1 (populate_HS _ _ _ _ _ _ _ P2 F2 H3 T3)).
Qed.

Lemma split_blk s c this s' l r V1 E1 V2 E2 :
  split_facts s c this s' l r V1 V2 -> split_dec (con_of s) (Vof s this) (Eof s this) c V1 E1 V2 E2 ->
  forall w, (w < length (svars s))%nat ->
    (blk_of s' w = l \/ blk_of s' w = r) \/ (blk_of s' w = blk_of s w /\ blk_of s w <> this).
Proof.
  intros SF SD w Hw. destruct (Nat.eq_dec (blk_of s w) this) as [E|N].
  - left. destruct (proj1 (sd_V _ _ _ _ _ _ _ _ SD w) (conj Hw E)) as [X|X];
      [left; exact (sf_V1 _ _ _ _ _ _ _ _ SF w X) | right; exact (sf_V2 _ _ _ _ _ _ _ _ SF w X)].
  - right. split; [exact (sf_out _ _ _ _ _ _ _ _ SF w N) | exact N].
Qed.

(* the block of every variable is listed in L, is not `this`, and is not deleted *)
Definition live_in_x (L : list nat) (this : nat) (s : st) : Prop :=
  forall v, (v < length (svars s))%nat ->
    In (blk_of s v) L /\ blk_of s v <> this /\ dead (block_of s (blk_of s v)) = false.
Lemma live_in_x_frame L this s s' :
  svars s' = svars s -> vblk s' = vblk s -> (forall B, B <> this -> dead (block_of s' B) = dead (block_of s B)) ->
  live_in_x L this s -> live_in_x L this s'.
Proof.
  intros E1 E2 ED H v Hv. rewrite E1 in Hv. unfold blk_of. rewrite E2. fold (blk_of s v).
  destruct (H v Hv) as [A [B C]]. split; [exact A|]. split; [exact B|]. rewrite ED by exact B. exact C.
Qed.
Lemma live_in_x_live_in L this s : live_in_x L this s -> live_in L s.
Proof. intros H v Hv. destruct (H v Hv) as [A [_ C]]. split; assumption. Qed.

(* after the split: the two new blocks are live but not yet listed, nothing is left in the old block *)
Lemma split_live_in s c this s' l r V1 E1 V2 E2 :
  split_facts s c this s' l r V1 V2 -> split_dec (con_of s) (Vof s this) (Eof s this) c V1 E1 V2 E2 ->
  book s -> (this < length (blocks s))%nat -> live s ->
  live_in_x (blist s ++ [l; r]) this s'.
Proof.
  intros SF SD BK Ht LV w Hw. rewrite (sf_svars _ _ _ _ _ _ _ _ SF) in Hw.
  pose proof (sf_l _ _ _ _ _ _ _ _ SF) as El. pose proof (sf_r _ _ _ _ _ _ _ _ SF) as Er.
  destruct (split_blk s c this s' l r V1 E1 V2 E2 SF SD w Hw) as [[E|E]|[E N]]; rewrite E.
  - split; [apply in_or_app; right; left; reflexivity|]. split; [lia | exact (sf_deadl _ _ _ _ _ _ _ _ SF)].
  - split; [apply in_or_app; right; right; left; reflexivity|]. split; [lia | exact (sf_deadr _ _ _ _ _ _ _ _ SF)].
  - destruct (LV w Hw) as [I D]. split; [apply in_or_app; left; exact I|]. split; [exact N|].
    rewrite (sf_old _ _ _ _ _ _ _ _ SF) by exact (bk_blk s BK w Hw). exact D.
Qed.

(* ------------------------------------------------------------------ the lm vector keeps its length *)
Definition LL (s : st) : Prop := length (clm s) = length (scons s).

Lemma clm_note s a b : clm (note s a b) = clm s.
Proof. unfold note. destruct (Qltb _ _); reflexivity. Qed.
Lemma clm_note_opt s a b : clm (note_opt s a b) = clm s.
Proof. unfold note_opt. destruct a, b; try reflexivity. apply clm_note. Qed.
Lemma len_set_lm s c x : length (clm (set_lm s c x)) = length (clm s).
Proof. unfold set_lm. cbn [clm set_clm]. apply upd_nth_length. Qed.

Lemma reset_active_lm_len : forall fuel this v u s s',
  reset_active_lm fuel this v u s = Ok s' -> length (clm s') = length (clm s).
Proof.
  induction fuel as [|f IH]; intros this v u s s' H; [discriminate|].
  cbn [reset_active_lm] in H.
  set (I := fun x : st => length (clm x) = length (clm s)).
  set (gout := fun (s' : st) (c : nat) => if can_follow_right s' this c u
                 then reset_active_lm f this (cr (con_of s' c)) (Some v) (set_lm s' c 0) else Ok s') in *.
  set (gin := fun (s' : st) (c : nat) => if can_follow_left s' this c u
                 then reset_active_lm f this (cl (con_of s' c)) (Some v) (set_lm s' c 0) else Ok s') in *.
  destruct (fold_bind_inv gin I (ins_of s v)) with
    (acc := fold_left (fun acc c => bind acc (fun x => gout x c)) (outs_of s v) (Ok s)) (r := s') as [smid [Emid Rin]].
  { intros x c x' _ Ix G. unfold gin in G. unfold I in *. destruct (can_follow_left x this c u).
    - rewrite (IH _ _ _ _ _ G), len_set_lm. exact Ix.
    - inversion G. subst. exact Ix. }
  { exact H. }
  destruct (fold_bind_inv gout I (outs_of s v)) with (acc := Ok s) (r := smid) as [s0 [E0 Rout]].
  { intros x c x' _ Ix G. unfold gout in G. unfold I in *. destruct (can_follow_right x this c u).
    - rewrite (IH _ _ _ _ _ G), len_set_lm. exact Ix.
    - inversion G. subst. exact Ix. }
  { exact Emid. }
  inversion E0. subst s0. apply Rin, Rout. reflexivity.
Qed.

Lemma compute_dfdv_len : forall fuel track this v u mn s a,
  compute_dfdv fuel track this v u mn s = Ok a -> length (clm (snd a)) = length (clm s).
Proof.
  induction fuel as [|f IH]; intros track this v u mn s a H; [discriminate|].
  rewrite compute_dfdv_unfold in H. apply bind_ok in H. destruct H as [[[d1 mn1] s1] [H E]]. inversion E. subst a. clear E. cbn [snd].
  set (I := fun x : Q * option nat * st => length (clm (snd x)) = length (clm s)).
  assert (TAIL : forall (x2 : st) c lmv mn2 (d' : Q) a',
            (if track then let '(mn3, s4) := upd_min (set_lm x2 c lmv) c mn2 in Ok (d', mn3, s4) else Ok (d', mn2, set_lm x2 c lmv)) = Ok a' ->
            length (clm (snd a')) = length (clm x2)).
  { intros x2 c lmv mn2 d' a' G. destruct track.
    - destruct (upd_min (set_lm x2 c lmv) c mn2) as [mn3 s4] eqn:U. inversion G. subst a'. cbn [snd].
      rewrite (upd_min_lm _ _ _ _ _ U). apply len_set_lm.
    - inversion G. subst a'. cbn [snd]. apply len_set_lm. }
  destruct (fold_bind_inv (cd_gin f track this v u) I (ins_of s v)) with
    (acc := fold_left (fun acc c => bind acc (fun a => cd_gout f track this v u a c)) (outs_of s v) (Ok (dfdv s v, mn, s)))
    (r := (d1, mn1, s1)) as [amid [Emid Rin]].
  { intros [[d m1] x] c a' _ Ix G. unfold I in *. cbn [snd] in *. unfold cd_gin in G.
    destruct (can_follow_left x this c u); [|inversion G; subst; exact Ix].
    apply bind_ok in G. destruct G as [[[lmv0 mn2] x2] [G1 G2]]. cbv zeta in G2.
    pose proof (IH _ _ _ _ _ _ _ G1) as L2. cbn [snd] in L2.
    rewrite (TAIL _ _ _ _ _ _ G2). congruence. }
  { exact H. }
  destruct (fold_bind_inv (cd_gout f track this v u) I (outs_of s v)) with (acc := Ok (dfdv s v, mn, s)) (r := amid) as [a0 [E0 Rout]].
  { intros [[d m1] x] c a' _ Ix G. unfold I in *. cbn [snd] in *. unfold cd_gout in G.
    destruct (can_follow_right x this c u); [|inversion G; subst; exact Ix].
    apply bind_ok in G. destruct G as [[[lmv mn2] x2] [G1 G2]]. cbv zeta in G2.
    pose proof (IH _ _ _ _ _ _ _ G1) as L2. cbn [snd] in L2.
    rewrite (TAIL _ _ _ _ _ _ G2). congruence. }
  { exact Emid. }
  inversion E0. subst a0. exact (Rin (Rout eq_refl)).
Qed.

Lemma split_path_clm : forall fuel this r v u m s a,
  split_path fuel this r v u m s = Ok a -> clm (snd a) = clm s.
Proof.
  induction fuel as [|f IH]; intros this r v u m s a H; [discriminate|].
  cbn [split_path] in H.
  set (I := fun (x : bool * option nat * st) => clm (snd x) = clm s).
  set (gin := fun (a : bool * option nat * st) (c : nat) =>
          let '(fnd, m1, s1) := a in
          if fnd then Ok a
          else if can_follow_left s1 this c u then
            if Nat.eqb (cl (con_of s1 c)) r then Ok (true, m1, s1)
            else bind (split_path f this r (cl (con_of s1 c)) (Some v) m1 s1) (fun b =>
                   let '(fnd2, m2, s2) := b in Ok (fnd2, m2, s2))
          else Ok a) in *.
  set (gout := fun (a : bool * option nat * st) (c : nat) =>
          let '(fnd, m1, s1) := a in
          if fnd then Ok a
          else if can_follow_right s1 this c u then
            if Nat.eqb (cr (con_of s1 c)) r
            then Ok (true, (if ceq (con_of s1 c) then m1 else Some c), s1)
            else bind (split_path f this r (cr (con_of s1 c)) (Some v) m1 s1) (fun b =>
                   let '(fnd2, m2, s2) := b in
                   if fnd2 then
                     if ceq (con_of s2 c) then Ok (true, m2, s2)
                     else match m2 with
                          | None => Ok (true, Some c, s2)
                          | Some m0 => let s3 := note s2 (lm_of s2 c) (lm_of s2 m0) in
                                       if Qltb (lm_of s2 c) (lm_of s2 m0) then Ok (true, Some c, s3)
                                       else Ok (true, m2, s3)
                          end
                   else Ok (false, m2, s2))
          else Ok a) in *.
  destruct (fold_bind_inv gout I (outs_of s v)) with
    (acc := fold_left (fun acc c => bind acc (fun x => gin x c)) (ins_of s v) (Ok (false, m, s))) (r := a) as [amid [Emid Rout]].
  { intros [[fnd m1] x] c a' _ Ix G. unfold I in *. cbn [snd] in *. unfold gout in G.
    destruct fnd; [inversion G; subst; exact Ix|].
    destruct (can_follow_right x this c u); [|inversion G; subst; exact Ix].
    destruct (Nat.eqb _ r); [inversion G; subst; exact Ix|].
    apply bind_ok in G. destruct G as [[[fnd2 m2] s2] [G1 G2]].
    pose proof (IH _ _ _ _ _ _ _ G1) as L2. cbn [snd] in L2.
    destruct fnd2; [|inversion G2; subst; cbn [snd]; congruence].
    destruct (ceq (con_of s2 c)); [inversion G2; subst; cbn [snd]; congruence|].
    destruct m2 as [m0|]; [|inversion G2; subst; cbn [snd]; congruence].
    cbv zeta in G2. destruct (Qltb _ _); inversion G2; subst; cbn [snd]; rewrite clm_note; congruence. }
  { exact H. }
  destruct (fold_bind_inv gin I (ins_of s v)) with (acc := Ok (false, m, s)) (r := amid) as [a0 [E0 Rin]].
  { intros [[fnd m1] x] c a' _ Ix G. unfold I in *. cbn [snd] in *. unfold gin in G.
    destruct fnd; [inversion G; subst; exact Ix|].
    destruct (can_follow_left x this c u); [|inversion G; subst; exact Ix].
    destruct (Nat.eqb _ r); [inversion G; subst; exact Ix|].
    apply bind_ok in G. destruct G as [[[fnd2 m2] s2] [G1 G2]]. inversion G2. subst a'. cbn [snd].
    pose proof (IH _ _ _ _ _ _ _ G1) as L2. cbn [snd] in L2. congruence. }
  { exact Emid. }
  inversion E0. subst a0. apply Rout, Rin. reflexivity.
Qed.

Lemma find_min_lm_len s b mn s' : find_min_lm s b = Ok (mn, s') -> length (clm s') = length (clm s).
Proof.
  unfold find_min_lm. intros H.
  apply bind_ok in H. destruct H as [s1 [H1 H]].
  apply bind_ok in H. destruct H as [[[d mn2] s2] [H2 H]]. inversion H. subst mn2 s2. clear H.
  pose proof (compute_dfdv_len _ _ _ _ _ _ _ _ H2) as L2. cbn [snd] in L2.
  rewrite L2. exact (reset_active_lm_len _ _ _ _ _ _ H1).
Qed.
Lemma find_min_lm_between_len s b lv rv m s' : find_min_lm_between s b lv rv = Ok (m, s') -> length (clm s') = length (clm s).
Proof.
  unfold find_min_lm_between. intros H.
  apply bind_ok in H. destruct H as [s1 [H1 H]].
  apply bind_ok in H. destruct H as [[[d mn2] s2] [H2 H]].
  apply bind_ok in H. destruct H as [[[fnd m3] s3] [H3 H]]. inversion H. subst m3 s3. clear H.
  pose proof (compute_dfdv_len _ _ _ _ _ _ _ _ H2) as L2. cbn [snd] in L2.
  pose proof (split_path_clm _ _ _ _ _ _ _ _ H3) as L3. cbn [snd] in L3.
  rewrite L3, L2. exact (reset_active_lm_len _ _ _ _ _ _ H1).
Qed.

Lemma mv_scan_clm : forall l s idx best mv del, clm (snd (mv_scan s l idx best mv del)) = clm s.
Proof.
  induction l as [|c t IH]; intros s idx best mv del; cbn [mv_scan]; [reflexivity|].
  destruct (ceq (con_of s c)); [cbn [snd]; apply clm_note_opt|].
  destruct (lt_inf (slack s c) best); rewrite IH; apply clm_note_opt.
Qed.
Lemma most_violated_clm s : clm (snd (most_violated s)) = clm s.
Proof.
  unfold most_violated. pose proof (mv_scan_clm (inactive s) s O None None (length (inactive s))) as H.
  destruct (mv_scan s (inactive s) 0 None None (length (inactive s))) as [[[best mv] del] s1]. cbn [snd] in H.
  destruct mv as [c|]; [|exact H]. destruct (_ && _); cbn [snd clm set_inactive]; rewrite clm_note_opt; exact H.
Qed.

Lemma mfold_scons t d : forall vars s, scons (fold_left (mstep t d) vars s) = scons s.
Proof. induction vars as [|v vars IH]; intros s; cbn [fold_left]; [reflexivity|]. rewrite IH. reflexivity. Qed.
Lemma merge_clm_scons s c : clm (fst (merge s c)) = clm s /\ scons (fst (merge s c)) = scons s.
Proof.
  assert (G : forall t b d, clm (merge_into s t b c d) = clm s /\ scons (merge_into s t b c d) = scons s).
  { intros t b d. rewrite merge_into_unfold. change (clm (kill_block ?x b)) with (clm x). change (scons (kill_block ?x b)) with (scons x).
    destruct (mfold_misc t d (bvars (block_of (set_cact s (upd_nth (cact s) c true)) b)) (set_cact s (upd_nth (cact s) c true))) as [_ [X _]].
    cbn zeta in X. rewrite X, mfold_scons. split; reflexivity. }
  unfold merge. destruct (Nat.ltb _ _); cbn [fst]; apply G.
Qed.

Lemma populate_clm : forall fuel this b v u s s', populate fuel this b v u s = Ok s' -> clm s' = clm s.
Proof.
  induction fuel as [|f IH]; intros this b v u s s' H; [discriminate|].
  cbn [populate] in H.
  set (I := fun x : st => clm x = clm s).
  set (gin := fun (s' : st) (c : nat) => if can_follow_left s' this c u
                                          then populate f this b (cl (con_of s' c)) (Some v) s' else Ok s').
  set (gout := fun (s' : st) (c : nat) => if can_follow_right s' this c u
                                           then populate f this b (cr (con_of s' c)) (Some v) s' else Ok s').
  destruct (fold_bind_inv gout I (outs_of s v)) with
    (acc := fold_left (fun acc c => bind acc (fun x => gin x c)) (ins_of s v) (Ok (add_variable s b v))) (r := s') as [smid [Emid Rout]].
  { intros x c x' _ Ix G. unfold gout in G. unfold I in *. destruct (can_follow_right x this c u); [rewrite (IH _ _ _ _ _ _ G); exact Ix|].
    inversion G. subst. exact Ix. }
  { exact H. }
  destruct (fold_bind_inv gin I (ins_of s v)) with (acc := Ok (add_variable s b v)) (r := smid) as [s0 [E0 Rin]].
  { intros x c x' _ Ix G. unfold gin in G. unfold I in *. destruct (can_follow_left x this c u); [rewrite (IH _ _ _ _ _ _ G); exact Ix|].
    inversion G. subst. exact Ix. }
  { exact Emid. }
  inversion E0. subst s0. apply Rout, Rin. reflexivity.
Qed.
Lemma split_clm s this c s' l r : split s this c = Ok (s', l, r) -> clm s' = clm s /\ scons s' = scons s.
Proof.
  intros H. split; [|exact (proj1 (proj2 (split_keeps_offsets _ _ _ _ _ _ H)))].
  unfold split, new_block in H.
  apply bind_ok in H. destruct H as [s2 [P1 H]].
  apply bind_ok in H. destruct H as [s4 [P2 H]]. inversion H. subst s4 l r. clear H.
  apply populate_clm in P1. apply populate_clm in P2. cbn [clm set_blocks set_cact] in P1, P2. congruence.
Qed.

(* ------------------------------------------------------------------ the bundle and its frame *)
Record FI (s : st) : Prop := { fi_live : live s; fi_hs : HS s; fi_ll : LL s }.

Definition same_fr (s s' : st) : Prop :=
  svars s' = svars s /\ scons s' = scons s /\ voff s' = voff s /\ vblk s' = vblk s /\ blocks s' = blocks s /\
  blist s' = blist s /\ length (clm s') = length (clm s).
Lemma FI_same_fr s s' : same_fr s s' -> FI s -> FI s'.
Proof.
  intros [E1 [E2 [E3 [E4 [E5 [E6 E7]]]]]] [A B C]. constructor.
  - apply (live_same_blocks s); assumption.
  - apply (HS_same_blocks s); assumption.
  - unfold LL in *. rewrite E7, E2. exact C.
Qed.
Lemma same_fr_lm_only s s' : lm_only s s' -> length (clm s') = length (clm s) -> same_fr s s'.
Proof. intros L E. destruct (lm_only_fields _ _ L) as [A [B [C [D [_ [_ [F [G _]]]]]]]]. repeat split; assumption. Qed.
Lemma same_fr_all_pos s s' : same_fr s s' -> all_pos s -> all_pos s'.
Proof. intros [E1 [_ [_ [_ [E5 _]]]]]. apply all_pos_frame; assumption. Qed.

(* ------------------------------------------------------------------ one iteration of the satisfy loop *)
Theorem satisfy_step_FI s b s' :
  inv s -> all_pos s -> FI s -> satisfy_step s = Ok (b, s') -> FI s'.
Proof.
  intros I AO F H. unfold satisfy_step in H.
  pose proof (most_violated_clm s) as C1.
  destruct (most_violated s) as [mv s1] eqn:MV. cbn [snd] in C1.
  pose proof (most_violated_spec s mv s1 (i_trich s I) MV) as SP.
  destruct mv as [v|].
  2:{ destruct SP as [Emp L]. inversion H. subst b s'. apply (FI_same_fr s); [|exact F].
      apply same_fr_lm_only; [exact L | rewrite C1; reflexivity]. }
  destruct SP as [Hin [[RUN [s2 [l' [L2 [Es1 [ND HL]]]]]] | [RUN [L1 [NEQ MIN]]]]].
  - (* the body runs *)
    subst s1.
    set (s1 := set_inactive s2 l') in *.
    set (s3 := note_opt s1 (slack s1 v) (Some ZERO_UPPERBOUND)) in *.
    assert (L13 : lm_only s1 s3) by apply lm_only_note_opt.
    assert (Ek : con_of s1 v = con_of s v) by (destruct L2 as [lm [t ->]]; reflexivity).
    assert (Erun : ceq (con_of s1 v) || (lt_inf (slack s3 v) (Some ZERO_UPPERBOUND) && negb (act_of s3 v)) = true).
    { rewrite <- RUN. unfold runs. rewrite Ek. destruct L13 as [lm3 [t3 E3]]. rewrite E3. destruct L2 as [lm [t ->]]. reflexivity. }
    rewrite Erun in H. clear Erun.
    assert (IX1 : invx s1 v).
    { pose proof (inv_lm_only _ _ L2 I) as [A B C D]. constructor.
      - apply (book_frame s2); try reflexivity; exact A.
      - apply (act_inv_frame s2); try reflexivity; exact B.
      - apply set_inactive_forest; exact C.
      - apply trich_take; try assumption.
        + destruct L2 as [lm [t ->]]. exact Hin.
        + intros x. rewrite HL. destruct L2 as [lm [t ->]]. reflexivity. }
    pose proof (invx_lm_only _ _ v L13 IX1) as IX3.
    assert (FR3 : same_fr s s3).
    { destruct (lm_only_fields _ _ L13) as [A1 [A2 [A3 [A4 [_ [_ [A7 [A8 _]]]]]]]].
      destruct (lm_only_fields _ _ L2) as [B1 [B2 [B3 [B4 [_ [_ [B7 [B8 _]]]]]]]].
      unfold same_fr. rewrite A1, A2, A3, A4, A7, A8. unfold s1. cbn [svars scons voff vblk blocks blist set_inactive].
      repeat split; try assumption. unfold s3. rewrite clm_note_opt, C1. reflexivity. }
    pose proof (FI_same_fr _ _ FR3 F) as F3. pose proof (same_fr_all_pos _ _ FR3 AO) as AO3.
    assert (E13 : con_of s1 v = con_of s3 v /\ blk_of s1 = blk_of s3) by (destruct L13 as [lm [t ->]]; split; reflexivity).
    destruct E13 as [Ek3 Eb3]. rewrite Ek3 in H.
    set (k := con_of s3 v) in *.
    destruct (tx_v s3 v (ix_trich _ _ IX3)) as [Hv [Av Uv]].
    destruct (negb (Nat.eqb (blk_of s3 (cl k)) (blk_of s3 (cr k)))) eqn:NEQ.
    + (* different blocks: merge *)
      inversion H. subst b s'. apply negb_true_iff, Nat.eqb_neq in NEQ.
      destruct (merge_clm_scons s3 v) as [M1 M2]. destruct F3 as [LV3 HS3 LL3].
      constructor.
      * apply merge_live; [exact (ix_book _ _ IX3) | exact LV3 | exact Hv | exact NEQ].
      * apply merge_HS; [exact (ix_book _ _ IX3) | exact AO3 | exact HS3 | exact Hv].
      * unfold LL in *. rewrite M1, M2. exact LL3.
    + apply negb_false_iff, Nat.eqb_eq in NEQ.
      apply bind_ok in H. destruct H as [cyc [_ H]].
      destruct cyc.
      * inversion H. subst b s'. apply (FI_same_fr s3); [repeat split; reflexivity | exact F3].
      * apply bind_ok in H. destruct H as [[sc s4] [FM H]].
        destruct (con_ends s3 v (ix_book _ _ IX3) Hv) as [Hvl Hvr].
        destruct (find_min_lm_between_spec s3 _ (cl k) (cr k) sc s4 (ix_book _ _ IX3) (ix_act _ _ IX3) (ix_forest _ _ IX3) Hvl eq_refl FM)
          as [L34 SEP].
        pose proof (invx_lm_only _ _ v L34 IX3) as IX4.
        pose proof (FI_same_fr _ _ (same_fr_lm_only _ _ L34 (find_min_lm_between_len _ _ _ _ _ _ FM)) F3) as F4.
        pose proof (all_pos_lm_only _ _ L34 AO3) as AO4.
        destruct sc as [spl|].
        2:{ inversion H. subst b s'. apply (FI_same_fr s4); [repeat split; reflexivity | exact F4]. }
        apply bind_ok in H. destruct H as [[[s5 l] r] [SPL H]].
        set (lb := blk_of s3 (cl k)) in *.
        destruct (SEP spl eq_refl) as [V1 [E1 [V2 [E2 [SD Sides]]]]].
        assert (T4 : con_of s4 = con_of s3 /\ Vof s4 = Vof s3 /\ Eof s4 = Eof s3 /\ blk_of s4 = blk_of s3 /\ act_of s4 = act_of s3)
          by (destruct L34 as [lm [t ->]]; repeat split; reflexivity).
        destruct T4 as [T41 [T42 [T43 [T44 T45]]]].
        assert (SD4 : split_dec (con_of s4) (Vof s4 lb) (Eof s4 lb) spl V1 E1 V2 E2) by (rewrite T41, T42, T43; exact SD).
        assert (HE : Eof s4 lb spl) by (apply (sd_E _ _ _ _ _ _ _ _ SD4); left; reflexivity).
        destruct HE as [Hspl [Aspl Bspl]].
        assert (Bspl' : lb = blk_of s4 (cr (con_of s4 spl))).
        { destruct (ix_act _ _ IX4 spl Aspl) as [Sb _]. congruence. }
        pose proof (split_spec s4 spl lb s5 l r V1 E1 V2 E2 (ix_book _ _ IX4) Aspl (eq_sym Bspl) Bspl' SD4 SPL) as SF.
        pose proof (split_book s4 spl lb s5 l r V1 E1 V2 E2 (ix_book _ _ IX4) Aspl (eq_sym Bspl) SD4 SF) as BK5.
        pose proof (split_act_inv s4 spl lb s5 l r V1 E1 V2 E2 (ix_book _ _ IX4) (ix_act _ _ IX4) Aspl SD4 SF) as AI5.
        pose proof (split_forest s4 spl lb s5 l r V1 E1 V2 E2 (ix_book _ _ IX4) Aspl (eq_sym Bspl) SD4 SF (ix_forest _ _ IX4)) as FO5.
        set (s6 := kill_block s5 lb) in *.
        set (s7 := set_inactive s6 (inactive s6 ++ [spl])) in *.
        set (s8 := note_opt s7 (slack s7 v) (Some 0)) in *.
        assert (IX7 : invx s7 v).
        { constructor.
          - apply (book_frame s6); try reflexivity. apply book_kill_block. exact BK5.
          - apply (act_inv_frame s6); try reflexivity. apply (act_inv_frame s5); try reflexivity. exact AI5.
          - apply set_inactive_forest, kill_block_forest. exact FO5.
          - apply (trichx_split s4 s7 v spl (ix_trich _ _ IX4) Aspl (bk_cact s4 (ix_book _ _ IX4))).
            + exact (sf_scons _ _ _ _ _ _ _ _ SF).
            + exact (sf_cuns _ _ _ _ _ _ _ _ SF).
            + exact (sf_cact _ _ _ _ _ _ _ _ SF).
            + cbn. rewrite (sf_inactive _ _ _ _ _ _ _ _ SF). reflexivity. }
        assert (L78 : lm_only s7 s8) by apply lm_only_note_opt.
        pose proof (invx_lm_only _ _ v L78 IX7) as IX8.
        destruct F4 as [LV4 HS4 LL4].
        assert (Hlb : (lb < length (blocks s4))%nat).
        { destruct (lm_only_fields _ _ L34) as [_ [_ [_ [_ [_ [_ [X _]]]]]]]. rewrite X. exact (bk_blk s3 (ix_book _ _ IX3) _ Hvl). }
        pose proof (split_live_in s4 spl lb s5 l r V1 E1 V2 E2 SF SD4 (ix_book _ _ IX4) Hlb LV4) as LX5.
        destruct (note_opt_fields s7 (slack s7 v) (Some 0)) as [N1 [N2 [N3 [N4 [N5 [N6 [N7 N8]]]]]]]. fold s8 in N1, N2, N3, N4, N5, N6, N7, N8.
        assert (LX8 : live_in_x (blist s4 ++ [l; r]) lb s8).
        { apply (live_in_x_frame _ _ s5); [rewrite N1; reflexivity | rewrite N4; reflexivity | | exact LX5].
          intros B NB. unfold block_of at 1. rewrite N6. change (nth B (blocks s7) dblk) with (block_of (kill_block s5 lb) B).
          apply kill_block_dead_other. exact NB. }
        assert (HS8 : HS s8).
        { apply (HS_lm_only s7); [exact L78|]. apply (HS_same_blocks s6); try reflexivity. apply HS_kill_block.
          exact (split_HS s4 lb spl s5 l r AO4 HS4 SPL). }
        assert (AO8 : all_pos s8).
        { apply (all_pos_lm_only s7); [exact L78|]. apply (all_pos_frame s6); try reflexivity. apply kill_block_all_pos.
          exact (split_all_pos _ _ _ _ _ _ AO4 SPL). }
        assert (LL8 : LL s8).
        { destruct (split_clm _ _ _ _ _ _ SPL) as [X1 X2]. unfold LL in *. unfold s8 at 1. rewrite clm_note_opt, N2.
          change (clm s7) with (clm s5). change (scons s7) with (scons s5). rewrite X1, X2. exact LL4. }
        assert (BL8 : blist s8 = blist s4).
        { destruct (lm_only_fields _ _ L78) as [_ [_ [_ [_ [_ [_ [_ [X _]]]]]]]]. rewrite X. exact (sf_blist _ _ _ _ _ _ _ _ SF). }
        destruct (lt_inf (slack s8 v) (Some 0)).
        -- destruct (merge s8 v) as [s9 mb] eqn:MG. inversion H. subst b s'.
           assert (E8 : blk_of s8 = blk_of s5 /\ con_of s8 v = k).
           { destruct L78 as [lm [t ->]]. split; [reflexivity|]. unfold con_of. cbn. rewrite (sf_scons _ _ _ _ _ _ _ _ SF).
             fold (con_of s4 v). rewrite T41. reflexivity. }
           destruct E8 as [E8 E8k].
           assert (Ends : (blk_of s8 (cl (con_of s8 v)) = l /\ blk_of s8 (cr (con_of s8 v)) = r) \/
                          (blk_of s8 (cl (con_of s8 v)) = r /\ blk_of s8 (cr (con_of s8 v)) = l)).
           { rewrite E8, E8k. destruct Sides as [[S1 S2]|[S1 S2]].
             - left. split; [exact (sf_V1 _ _ _ _ _ _ _ _ SF _ S1) | exact (sf_V2 _ _ _ _ _ _ _ _ SF _ S2)].
             - right. split; [exact (sf_V2 _ _ _ _ _ _ _ _ SF _ S1) | exact (sf_V1 _ _ _ _ _ _ _ _ SF _ S2)]. }
           pose proof (sf_r _ _ _ _ _ _ _ _ SF) as Er.
           assert (Hne8 : blk_of s8 (cl (con_of s8 v)) <> blk_of s8 (cr (con_of s8 v))) by (destruct Ends as [[-> ->]|[-> ->]]; lia).
           destruct (tx_v s8 v (ix_trich _ _ IX8)) as [Hv8 _].
           destruct (merge_live_in _ s8 v (ix_book _ _ IX8) (live_in_x_live_in _ _ _ LX8) Hv8 Hne8) as [t [bb [Emb [TB [Es [Eb W]]]]]].
           destruct (merge_clm_scons s8 v) as [M1 M2].
           pose proof (merge_HS s8 v (ix_book _ _ IX8) AO8 HS8 Hv8) as HS9.
           rewrite MG in Emb, Es, Eb, W, M1, M2, HS9. cbn [fst snd] in Emb, Es, Eb, W, M1, M2, HS9. subst mb.
           constructor.
           ++ intros w Hw. change (svars (set_blist s9 (blist s9 ++ [t]))) with (svars s9) in Hw. rewrite Es in Hw.
              destruct (W w Hw) as [D X].
              change (blk_of (set_blist s9 (blist s9 ++ [t])) w) with (blk_of s9 w).
              change (block_of (set_blist s9 (blist s9 ++ [t])) (blk_of s9 w)) with (block_of s9 (blk_of s9 w)).
              split; [|exact D]. cbn [blist set_blist]. apply in_or_app.
              destruct X as [[_ ->]|[Nb ->]]; [right; left; reflexivity|].
              destruct (LX8 w Hw) as [In1 _].
              apply in_app_or in In1. destruct In1 as [In1|[In1|[In1|[]]]].
              ** left. rewrite Eb, BL8. exact In1.
              ** right. left. destruct TB as [[-> ->]|[-> ->]], Ends as [[Q1 Q2]|[Q1 Q2]]; congruence.
              ** right. left. destruct TB as [[-> ->]|[-> ->]], Ends as [[Q1 Q2]|[Q1 Q2]]; congruence.
           ++ apply (HS_same_blocks s9); try reflexivity. exact HS9.
           ++ unfold LL in *. cbn [clm scons set_blist]. rewrite M1, M2. exact LL8.
        -- inversion H. subst b s'. constructor.
           ++ intros w Hw. destruct (LX8 w Hw) as [In1 [_ D]]. split; [|exact D]. cbn [blist set_blist]. rewrite BL8. exact In1.
           ++ apply (HS_same_blocks s8); try reflexivity. exact HS8.
           ++ exact LL8.
  - (* the loop condition fails *)
    set (s3 := note_opt s1 (slack s1 v) (Some ZERO_UPPERBOUND)) in *.
    assert (L13 : lm_only s s3) by (apply (lm_only_trans _ s1); [exact L1 | apply lm_only_note_opt]).
    assert (Erun : ceq (con_of s1 v) || (lt_inf (slack s3 v) (Some ZERO_UPPERBOUND) && negb (act_of s3 v)) = false).
    { rewrite <- RUN. unfold runs. destruct L13 as [lm3 [t3 E3]]. rewrite E3. destruct L1 as [lm [t ->]]. reflexivity. }
    rewrite Erun in H. inversion H. subst b s'. clear H Erun.
    apply (FI_same_fr s); [|exact F]. apply same_fr_lm_only; [exact L13|]. unfold s3. rewrite clm_note_opt, C1. reflexivity.
Qed.

Theorem satisfy_loop_FI : forall fuel s s', inv s -> all_pos s -> FI s -> satisfy_loop fuel s = Ok s' -> FI s'.
Proof.
  induction fuel as [|f IH]; intros s s' I A F H; [discriminate|].
  cbn [satisfy_loop] in H. apply bind_ok in H. destruct H as [[b s1] [H1 H]]. cbn [fst snd] in H.
  pose proof (satisfy_step_FI s b s1 I A F H1) as F1.
  destruct b; [|inversion H; subst; exact F1].
  exact (IH s1 s' (proj1 (satisfy_step_inv s true s1 I H1)) (satisfy_step_all_pos s true s1 A H1) F1 H).
Qed.

(* ------------------------------------------------------------------ splitBlocks *)
Lemma kill_block_dead_this s b : (b < length (blocks s))%nat -> dead (block_of (kill_block s b) b) = true.
Proof. intros L. unfold kill_block. rewrite set_block_this by exact L. reflexivity. Qed.

Lemma sb_body_FI p b p' : inv (fst p) -> all_pos (fst p) -> FI (fst p) -> sb_body p b = Ok p' -> FI (fst p').
Proof.
  destruct p as [s1 cnt]. cbn [fst]. intros I AO F H. unfold sb_body in H.
  apply bind_ok in H. destruct H as [[mn s2] [FM H]].
  destruct (find_min_lm_spec _ _ _ _ FM) as [L12 MA].
  pose proof (inv_lm_only _ _ L12 I) as I2.
  pose proof (FI_same_fr _ _ (same_fr_lm_only _ _ L12 (find_min_lm_len _ _ _ _ FM)) F) as F2.
  pose proof (all_pos_lm_only _ _ L12 AO) as AO2.
  destruct mn as [v|]; [|inversion H; subst p'; exact F2].
  set (s3 := note s2 (lm_of s2 v) LAGRANGIAN_TOLERANCE) in *.
  assert (L23 : lm_only s2 s3) by apply lm_only_note.
  pose proof (inv_lm_only _ _ L23 I2) as I3.
  assert (F3 : FI s3) by (apply (FI_same_fr s2); [apply same_fr_lm_only; [exact L23 | unfold s3; rewrite clm_note; reflexivity] | exact F2]).
  pose proof (all_pos_lm_only _ _ L23 AO2) as AO3.
  destruct (Qltb (lm_of s3 v) LAGRANGIAN_TOLERANCE); [|inversion H; subst p'; exact F3].
  apply bind_ok in H. destruct H as [[[s4 l] r] [SPL H]]. inversion H. subst p'. clear H. cbn [fst].
  assert (Av : act_of s3 v = true).
  { assert (E : act_of s3 = act_of s1).
    { destruct L23 as [lm3 [t3 ->]]. destruct L12 as [lm [t ->]]. reflexivity. }
    rewrite E. exact (MA v eq_refl). }
  destruct I3 as [BK AI FO TR]. destruct F3 as [LV3 HS3 LL3].
  assert (Hc : (v < length (scons s3))%nat) by (rewrite <- (bk_cact s3 BK); apply act_of_lt; exact Av).
  destruct (con_ends s3 v BK Hc) as [Hl Hr].
  destruct (AI v Av) as [Sb _].
  assert (Ec : Eof s3 (blk_of s3 (cl (con_of s3 v))) v) by (repeat split; assumption).
  destruct (tree_remove_edge _ _ _ (FO _ Hl) v Ec) as [V1 [E1 [V2 [E2 SD]]]].
  pose proof (split_spec s3 v _ s4 l r V1 E1 V2 E2 BK Av eq_refl Sb SD SPL) as SF.
  set (b' := blk_of s3 (cl (con_of s3 v))) in *.
  assert (Hb' : (b' < length (blocks s3))%nat) by exact (bk_blk s3 BK _ Hl).
  pose proof (split_live_in s3 v b' s4 l r V1 E1 V2 E2 SF SD BK Hb' LV3) as LX4.
  pose proof (uwp_facts_ok s4 l) as U1. pose proof (uwp_facts_ok (update_weighted_position s4 l) r) as U2.
  set (s5 := update_weighted_position (update_weighted_position s4 l) r) in *.
  destruct (split_clm _ _ _ _ _ _ SPL) as [X1 X2].
  constructor.
  - (* live *)
    assert (LX : live_in_x (blist s3 ++ [l; r]) b' s5).
    { apply (live_in_x_frame _ _ s4); [| | | exact LX4].
      - rewrite (uf_svars _ _ _ U2). exact (uf_svars _ _ _ U1).
      - rewrite (uf_vblk _ _ _ U2). exact (uf_vblk _ _ _ U1).
      - intros B _. rewrite (uf_dead _ _ _ U2). exact (uf_dead _ _ _ U1 B). }
    intros w Hw. destruct (LX w Hw) as [In1 [Nb D]].
    change (blk_of (set_inactive (kill_block (set_blist s5 (blist s5 ++ [l; r])) b') _) w) with (blk_of s5 w).
    split.
    + cbn [blist set_inactive kill_block set_block set_blocks set_blist].
      rewrite (uf_blist _ _ _ U2), (uf_blist _ _ _ U1), (sf_blist _ _ _ _ _ _ _ _ SF). exact In1.
    + change (block_of (set_inactive ?x ?y) ?B) with (block_of x B).
      rewrite kill_block_dead_other by exact Nb. exact D.
  - apply (HS_same_blocks (kill_block (set_blist s5 (blist s5 ++ [l; r])) b')); try reflexivity.
    apply HS_kill_block. apply (HS_same_blocks s5); try reflexivity.
    apply uwp_HS, uwp_HS. exact (split_HS s3 b' v s4 l r AO3 HS3 SPL).
  - unfold LL in *. cbn [clm scons set_inactive kill_block set_block set_blocks set_blist].
    rewrite (uf_clm _ _ _ U2), (uf_clm _ _ _ U1), (uf_scons _ _ _ U2), (uf_scons _ _ _ U1), X1, X2. exact LL3.
Qed.

Lemma cleanup_FI s : FI s -> FI (cleanup s).
Proof.
  intros [LV H L]. constructor.
  - intros v Hv. destruct (LV v Hv) as [A D]. split; [|exact D].
    unfold cleanup. cbn [blist set_blist]. apply filter_In. split; [exact A|].
    change (blk_of (set_blist s _) v) with (blk_of s v). rewrite D. reflexivity.
  - apply (HS_same_blocks s); try reflexivity. exact H.
  - exact L.
Qed.

Theorem split_blocks_FI s p :
  inv s -> all_pos s -> live s -> LL s -> split_blocks s = Ok p -> FI (fst p).
Proof.
  intros I AO LV L0 H. rewrite split_blocks_unfold in H.
  apply bind_ok in H. destruct H as [q [H E]]. inversion E. subst p. cbn [fst]. apply cleanup_FI.
  destruct (fold_bind_inv sb_body (fun p => inv (fst p) /\ all_pos (fst p) /\ FI (fst p)) (blist (move_blocks s)))
    with (acc := Ok (move_blocks s, O)) (r := q) as [q0 [E0 R]].
  - intros x b x' _ [Ix [Ax Fx]] G. split; [exact (sb_body_inv x b x' Ix G)|]. split; [exact (sb_body_all_pos x b x' Ax G)|].
    exact (sb_body_FI x b x' Ix Ax Fx G).
  - exact H.
  - inversion E0. subst q0. apply R. cbn [fst]. split; [apply inv_move_blocks; exact I|]. split; [apply move_blocks_all_pos; exact AO|].
    pose proof (fold_uwp_facts (blist s) s) as MF. fold (move_blocks s) in MF.
    constructor; [apply move_blocks_live; exact LV | apply move_blocks_HS; [exact (i_book s I) | exact LV] |].
    unfold LL in *. rewrite (mb_clm _ _ MF), (mb_scons _ _ MF). exact L0.
Qed.

(* ------------------------------------------------------------------ satisfy(), solve() *)
Theorem inc_satisfy_cnt_FI fuel s p :
  inv s -> all_pos s -> live s -> LL s -> inc_satisfy_cnt fuel s = Ok p -> FI (fst p).
Proof.
  intros I AO LV L0 H. unfold inc_satisfy_cnt in H.
  apply bind_ok in H. destruct H as [p1 [H1 H]].
  apply bind_ok in H. destruct H as [s2 [H2 H]].
  apply bind_ok in H. destruct H as [s3 [H3 E]]. inversion E. subst p. cbn [fst].
  apply final_scan_ok in H3. destruct H3 as [-> _]. apply cleanup_FI.
  exact (satisfy_loop_FI fuel _ _ (split_blocks_inv s p1 I H1) (split_blocks_all_pos s p1 AO H1) (split_blocks_FI s p1 I AO LV L0 H1) H2).
Qed.

Lemma solve_loop_FI fixed fuel sf : forall tries lc c cnt s s',
  inv s -> all_pos s -> FI s -> solve_loop fixed fuel sf tries lc c cnt s = Ok s' -> FI s'.
Proof.
  induction fuel as [|f IH]; intros tries lc c cnt s s' I AO F H; [discriminate|].
  cbn [solve_loop] in H.
  set (s0 := match lc with Some l => note s (Qabs' (l - c)) COST_EPS | None => s end) in *.
  assert (L0 : lm_only s s0) by (unfold s0; destruct lc; [apply lm_only_note | apply lm_only_refl]).
  assert (C0 : clm s0 = clm s) by (unfold s0; destruct lc; [apply clm_note | reflexivity]).
  assert (F0 : FI s0) by (apply (FI_same_fr s); [apply same_fr_lm_only; [exact L0 | rewrite C0; reflexivity] | exact F]).
  pose proof (inv_lm_only _ _ L0 I) as I0. pose proof (all_pos_lm_only _ _ L0 AO) as AO0.
  assert (Again : forall t, bind (inc_satisfy_cnt sf s0)
             (fun p => solve_loop fixed f sf t (Some c) (cost (fst p)) (snd p) (fst p)) = Ok s' -> FI s').
  { intros t G. apply bind_ok in G. destruct G as [p [G1 G2]].
    apply (IH _ _ _ _ _ _ (proj1 (inc_satisfy_cnt_ret _ _ _ I0 G1)) (inc_satisfy_cnt_all_pos _ _ _ AO0 G1)
              (inc_satisfy_cnt_FI _ _ _ I0 AO0 (fi_live _ F0) (fi_ll _ F0) G1) G2). }
  destruct fixed.
  - destruct (_ || _).
    + destruct tries as [|t]; [inversion H; subst; exact F0 | exact (Again t H)].
    + inversion H. subst. exact F0.
  - destruct (match lc with None => true | Some l => Qltb COST_EPS (Qabs' (l - c)) end).
    + exact (Again tries H).
    + inversion H. subst. exact F0.
Qed.

Theorem inc_solve_FI fuel s s' : inv s -> all_pos s -> live s -> LL s -> inc_solve fuel s = Ok s' -> FI s'.
Proof.
  intros I AO LV L0 H. unfold inc_solve, inc_solve_gen in H. apply bind_ok in H. destruct H as [p [H1 H]].
  exact (solve_loop_FI _ _ _ _ _ _ _ _ _ (proj1 (inc_satisfy_cnt_ret _ _ _ I H1)) (inc_satisfy_cnt_all_pos _ _ _ AO H1)
           (inc_satisfy_cnt_FI _ _ _ I AO LV L0 H1) H).
Qed.

(* ------------------------------------------------------------------ init, the editing ops, histories *)
Record init_live (k : nat) (s : st) : Prop := {
  il_blist : blist s = seq 0 k;
  il_lblocks : length (blocks s) = k;
  il_blk : forall i, (i < k)%nat -> blk_of s i = i /\ dead (block_of s i) = false }.

Lemma init_step_live n k s :
  (k < n)%nat -> length (vblk s) = n -> init_live k s -> init_live (S k) (init_step s k) /\ length (vblk (init_step s k)) = n.
Proof.
  intros Hk D [A F G].
  unfold init_step, new_block, add_variable, set_vblk, set_block, set_blocks, set_blist.
  split; [constructor|]; cbn [blist vblk blocks].
  - rewrite A, seq_S, F. reflexivity.
  - rewrite upd_nth_length, app_length. cbn. lia.
  - intros i Hi. unfold blk_of, block_of. cbn [vblk blocks]. rewrite F.
    destruct (Nat.eq_dec i k) as [->|N].
    + split.
      * apply nth_upd_nth_eq. rewrite D. exact Hk.
      * rewrite nth_upd_nth_eq by (rewrite app_length; cbn; lia).
        cbn [dead]. unfold block_of. cbn [blocks]. rewrite <- F at 1.
        rewrite app_nth2 by lia. rewrite Nat.sub_diag. reflexivity.
    + assert (i < k)%nat by lia. destruct (G i H) as [G1 G2]. split.
      * rewrite nth_upd_nth_neq by congruence. exact G1.
      * rewrite nth_upd_nth_neq by congruence. rewrite app_nth1 by lia. exact G2.
  - rewrite upd_nth_length. exact D.
Qed.

Lemma init_fold_live n : forall k s,
  (k <= n)%nat -> length (vblk s) = n -> init_live 0 s ->
  init_live k (fold_left init_step (seq 0 k) s) /\ length (vblk (fold_left init_step (seq 0 k) s)) = n.
Proof.
  induction k as [|k IH]; intros s Hk D H0; [split; assumption|].
  rewrite seq_S, fold_left_app. cbn [fold_left plus]. destruct (IH s) as [A B]; [lia | exact D | exact H0|].
  apply init_step_live; [lia | exact B | exact A].
Qed.

Lemma init_step_clm s k : clm (init_step s k) = clm s /\ scons (init_step s k) = scons s /\ svars (init_step s k) = svars s.
Proof. repeat split; reflexivity. Qed.
Lemma init_fold_clm : forall l s, clm (fold_left init_step l s) = clm s /\ scons (fold_left init_step l s) = scons s /\
                                  svars (fold_left init_step l s) = svars s.
Proof.
  induction l as [|k l IH]; intros s; cbn [fold_left]; [repeat split; reflexivity|].
  destruct (IH (init_step s k)) as [A [B C]]. rewrite A, B, C. apply init_step_clm.
Qed.

Theorem init_live_LL vs cs : live (init vs cs) /\ LL (init vs cs).
Proof.
  rewrite init_unfold.
  set (s0 := mkst vs cs _ _ _ _ _ _ _ _ _).
  assert (H0 : init_live 0 s0) by (constructor; cbn; try reflexivity; intros i Hi; lia).
  assert (D0 : length (vblk s0) = length vs) by (cbn; apply repeat_length).
  destruct (init_fold_live (length vs) (length vs) s0 (le_n _) D0 H0) as [[A F G] _].
  destruct (init_fold_clm (seq 0 (length vs)) s0) as [C1 [C2 C3]].
  set (s := fold_left init_step (seq 0 (length vs)) s0) in *.
  split.
  - intros v Hv. rewrite C3 in Hv. cbn [svars s0] in Hv. destruct (G v Hv) as [G1 G2]. rewrite G1. split; [|exact G2].
    rewrite A. apply in_seq. lia.
  - unfold LL. rewrite C1, C2. cbn. apply repeat_length.
Qed.

Theorem step_live_LL fuel s o s' :
  inv s -> all_pos s -> live s -> LL s -> step fuel s o = Ok s' -> live s' /\ LL s'.
Proof.
  intros I AO LV L0 H. destruct o as [k|i d| |]; cbn in H.
  - inversion H. subst s'. split; [apply (live_same_blocks s); try reflexivity; exact LV|].
    unfold LL in *. cbn [clm scons add_constraint set_inactive set_clm set_cuns set_cact set_scons]. rewrite !app_length, L0. reflexivity.
  - inversion H. subst s'. split; [|exact L0]. intros v Hv. cbn [svars set_desired set_svars] in Hv. rewrite upd_nth_length in Hv. exact (LV v Hv).
  - destruct (inc_solve_FI fuel s s' I AO LV L0 H) as [A _ C]. split; assumption.
  - unfold inc_satisfy in H. apply bind_ok in H. destruct H as [p [H E]]. inversion E. subst s'.
    destruct (inc_satisfy_cnt_FI fuel s p I AO LV L0 H) as [A _ C]. split; assumption.
Qed.

(* Blocks::m_blocks lists the (undeleted) block of every variable, and the lm vector has one entry per constraint,
   in every reachable state *)
Theorem reachable_live_LL s : reachable_wf s -> live s /\ LL s.
Proof.
  induction 1 as [vs cs _ _ | s o fuel s' R [LV L0] _ H]; [apply init_live_LL|].
  exact (step_live_LL fuel s o s' (reachable_inv s (reachable_wf_reachable s R)) (all_ok_all_pos _ (reachable_all_ok s R)) LV L0 H).
Qed.

(* ------------------------------------------------------------------ all_fresh *)
Lemma a2sum_csum s sc V :
  a2sum (svars s) sc V == csum V (fun w => wt (var_of s w) * (sc / scl (var_of s w)) * (sc / scl (var_of s w))).
Proof. induction V as [|v t IH]; cbn [a2sum csum]; [reflexivity|]. rewrite IH. unfold var_of. reflexivity. Qed.

Theorem HS_all_fresh s : book s -> all_pos s -> HS s -> all_fresh s.
Proof.
  intros BK [W AO] [_ H] v Hv. pose proof (bk_blk s BK v Hv) as Hb.
  destruct (AO _ Hb) as [NE [S2 [S3 S5]]].
  assert (O : owns s (blk_of s v)).
  { split; [exact (bk_nodup s BK v Hv)|]. intros w Hw. apply (bk_mem s BK v w Hv) in Hw. exact (proj2 Hw). }
  assert (VB : varblk s (blk_of s v)) by (exists v; split; [rewrite (bk_vblk s BK); exact Hv | reflexivity]).
  destruct (H _ Hb VB O) as [A [D SA]].
  unfold VpscStationary.fresh. cbv zeta.
  split; [exact S2|]. split; [exact S3|]. split; [exact SA|]. split; [exact A|]. split; [exact D | exact S5].
Qed.

(* whenever satisfy() / solve() return, in any history, the statistics of the block of every variable are up to date and
   the lm vector has the right length *)
Theorem solve_return_fresh fuel s s' :
  reachable_wf s -> inc_solve fuel s = Ok s' -> all_fresh s' /\ length (clm s') = length (scons s').
Proof.
  intros R H. pose proof (reachable_inv s (reachable_wf_reachable s R)) as I. pose proof (all_ok_all_pos _ (reachable_all_ok s R)) as AO.
  destruct (reachable_live_LL s R) as [LV L0]. destruct (inc_solve_FI fuel s s' I AO LV L0 H) as [_ HS' LL'].
  assert (R' : reachable_wf s') by exact (rw_step s Solve fuel s' R Logic.I H).
  split; [|exact LL'].
  exact (HS_all_fresh s' (i_book s' (reachable_inv s' (reachable_wf_reachable s' R'))) ((all_ok_all_pos _ (reachable_all_ok s' R'))) HS').
Qed.
Theorem satisfy_return_fresh fuel s s' :
  reachable_wf s -> inc_satisfy fuel s = Ok s' -> all_fresh s' /\ length (clm s') = length (scons s').
Proof.
  intros R H. pose proof (reachable_inv s (reachable_wf_reachable s R)) as I. pose proof (all_ok_all_pos _ (reachable_all_ok s R)) as AO.
  destruct (reachable_live_LL s R) as [LV L0].
  assert (R' : reachable_wf s') by exact (rw_step s Satisfy fuel s' R Logic.I H).
  unfold inc_satisfy in H. apply bind_ok in H. destruct H as [p [H E]]. inversion E. subst s'.
  destruct (inc_satisfy_cnt_FI fuel s p I AO LV L0 H) as [_ HS' LL'].
  split; [|exact LL'].
  exact (HS_all_fresh _ (i_book _ (reachable_inv _ (reachable_wf_reachable _ R'))) (all_ok_all_pos _ (reachable_all_ok _ R')) HS').
Qed.

(* C02_solve_near_optimal_history: for every history and every solve() that returns, with the multipliers recomputed by
   findMinLM on every block (relm), stationarity holds exactly at every variable and, if no recomputed multiplier of an
   active inequality is below -tau, the objective exceeds that of EVERY feasible placement by at most tau_bound.
   No hypothesis on the returned state is left. *)
Theorem solve_near_optimal_history fuel s s' s2 tau :
  reachable_wf s -> inc_solve fuel s = Ok s' ->
  relm s' = Ok s2 -> 0 <= tau ->
  (forall c, (c < length (scons s'))%nat -> act_of s' c = true -> ceq (con_of s' c) = false -> - tau <= lm_of s2 c) ->
  (forall i, (i < length (svars s'))%nat -> stat_res (svars s') (lcons_of s2) (xs_of s') i == 0) /\
  forall y, feasible (svars s') (scons s') y ->
    obj (svars s') (place_of (final_positions s')) - obj (svars s') y <= tau_bound s' tau.
Proof.
  intros R H HR T NN. destruct (solve_return_fresh fuel s s' R H) as [AF Hlen].
  exact (solve_near_optimal_history_partial fuel s s' s2 tau R H AF Hlen HR T NN).
Qed.

(* ------------------------------------------------------------------ histories that also change Variable::weight (VpscModelW / VpscStatsW) *)
Lemma set_weight_live_LL s i w : live s -> LL s -> live (set_weight s i w) /\ LL (set_weight s i w).
Proof.
  intros LV L0. split; [|exact L0]. intros v Hv. cbn [svars set_weight set_svars] in Hv. rewrite upd_nth_length in Hv. exact (LV v Hv).
Qed.

Theorem step_w_live_LL fuel s o s' :
  inv s -> all_pos s -> live s -> LL s -> step_w fuel s o = Ok s' -> live s' /\ LL s'.
Proof.
  intros I AO LV L0 H. destruct o as [o'|i w]; cbn in H.
  - exact (step_live_LL fuel s o' s' I AO LV L0 H).
  - inversion H. subst s'. apply set_weight_live_LL; assumption.
Qed.

Theorem reachable_ww_live_LL s : reachable_ww s -> live s /\ LL s.
Proof.
  induction 1 as [vs cs _ _ | s o fuel s' R [LV L0] _ H]; [apply init_live_LL|].
  exact (step_w_live_LL fuel s o s' (reachable_w_inv s (reachable_ww_w s R)) (reachable_ww_all_pos s R) LV L0 H).
Qed.

(* a change of Variable::weight makes A2, AB, AD stale exactly like a change of a desired position makes AD stale; the next
   moveBlocks repairs the blocks that own their variables, and only those matter *)
Theorem solve_return_fresh_w fuel s s' :
  reachable_ww s -> inc_solve fuel s = Ok s' -> all_fresh s' /\ length (clm s') = length (scons s').
Proof.
  intros R H. pose proof (reachable_w_inv s (reachable_ww_w s R)) as I. pose proof (reachable_ww_all_pos s R) as AO.
  destruct (reachable_ww_live_LL s R) as [LV L0]. destruct (inc_solve_FI fuel s s' I AO LV L0 H) as [_ HS' LL'].
  assert (R' : reachable_ww s') by exact (rww_step s (Base Solve) fuel s' R Logic.I H).
  split; [|exact LL'].
  exact (HS_all_fresh s' (i_book s' (reachable_w_inv s' (reachable_ww_w s' R'))) (reachable_ww_all_pos s' R') HS').
Qed.

(* ------------------------------------------------------------------ non-vacuity: a history with edits between two solves *)
(* solve; move the desired position of variable 0 far to the left (AD of its block is now stale: all_fresh FAILS in that
   state); add an inequality; solve again (the block is split at constraint 0 and re-merged across the new one): the returned state is fresh and optimal *)
Definition ex2_s1 : st := Eval vm_compute in match step 100 (init iv_vs iv_cs) Solve with Ok s => s | _ => init [] [] end.
Definition ex2_s2 : st := Eval vm_compute in set_desired ex2_s1 0 (-(5#1)).
Definition ex2_s3 : st := Eval vm_compute in add_constraint ex2_s2 (mkcon 2 0 (-(4#1)) false).
Definition ex2_ret : st := Eval vm_compute in match inc_solve 100 ex2_s3 with Ok s => s | _ => init [] [] end.
Definition ex2_relm : st := Eval vm_compute in match relm ex2_ret with Ok s => s | _ => init [] [] end.

Lemma ex2_reach : reachable_wf ex2_s3.
Proof.
  assert (H1 : step 100 (init iv_vs iv_cs) Solve = Ok ex2_s1) by (vm_compute; reflexivity).
  assert (H2 : step 100 ex2_s1 (SetDesired 0 (-(5#1))) = Ok ex2_s2) by (vm_compute; reflexivity).
  assert (H3 : step 100 ex2_s2 (AddConstraint (mkcon 2 0 (-(4#1)) false)) = Ok ex2_s3) by (vm_compute; reflexivity).
  pose proof (rw_step _ Solve 100 ex2_s1 (rw_init iv_vs iv_cs iv_wfv iv_wf) Logic.I H1) as R1.
  pose proof (rw_step ex2_s1 (SetDesired 0 (-(5#1))) 100 ex2_s2 R1 Logic.I H2) as R2.
  refine (rw_step ex2_s2 (AddConstraint (mkcon 2 0 (-(4#1)) false)) 100 ex2_s3 R2 _ H3). cbn. split; lia.
Qed.
Lemma ex2_ret_ok : inc_solve 100 ex2_s3 = Ok ex2_ret.
Proof. vm_compute. reflexivity. Qed.
Lemma ex2_relm_ok : relm ex2_ret = Ok ex2_relm.
Proof. vm_compute. reflexivity. Qed.
Lemma ex2_stale : ~ all_fresh ex2_s2.
Proof.
  intros H. assert (L : (0 < length (svars ex2_s2))%nat) by (cbn; lia).
  destruct (H O L) as [_ [_ [_ [_ [D _]]]]]. vm_compute in D. discriminate D.
Qed.

Example solve_near_optimal_history_example :
  reachable_wf ex2_s3 /\ ~ all_fresh ex2_s2 /\
  inc_solve 100 ex2_s3 = Ok ex2_ret /\ relm ex2_ret = Ok ex2_relm /\
  all_fresh ex2_ret /\ length (clm ex2_ret) = length (scons ex2_ret) /\
  act_of ex2_ret 0 = false /\ act_of ex2_ret 1 = true /\ act_of ex2_ret 2 = true /\
  (forall i, (i < 3)%nat -> stat_res (svars ex2_ret) (lcons_of ex2_relm) (xs_of ex2_ret) i == 0) /\
  (forall y, feasible (svars ex2_ret) (scons ex2_ret) y ->
     obj (svars ex2_ret) (place_of (final_positions ex2_ret)) - obj (svars ex2_ret) y <= tau_bound ex2_ret 0).
Proof.
  destruct (solve_return_fresh 100 ex2_s3 ex2_ret ex2_reach ex2_ret_ok) as [AF Len].
  assert (NN : forall c, (c < length (scons ex2_ret))%nat -> act_of ex2_ret c = true -> ceq (con_of ex2_ret c) = false -> - 0 <= lm_of ex2_relm c).
  { intros c Hc Ac Ec. change (length (scons ex2_ret)) with 3%nat in Hc.
    destruct c as [|[|[|c]]]; try lia; [vm_compute in Ac; discriminate Ac | vm_compute in Ec; discriminate Ec | vm_compute; discriminate]. }
  destruct (solve_near_optimal_history 100 ex2_s3 ex2_ret ex2_relm 0 ex2_reach ex2_ret_ok ex2_relm_ok (Qle_refl 0) NN) as [ST GAP].
  split; [exact ex2_reach|]. split; [exact ex2_stale|]. split; [exact ex2_ret_ok|]. split; [exact ex2_relm_ok|].
  split; [exact AF|]. split; [exact Len|]. split; [reflexivity|]. split; [reflexivity|]. split; [reflexivity|].
  split; [exact ST | exact GAP].
Qed.
