(* Trees over the constraint multigraph, as vertex / edge predicates (used by the forest invariant of the IncSolver
   model, VpscForest.v).  `tree K V E`: the edges E (constraint indices; K c gives the two ends) form a spanning tree
   of the vertex set V.  Built the way the solver builds blocks: a single variable, or two disjoint trees joined by
   one constraint.  Proved: edges stay inside, connectivity (every edge-closed set meeting V contains V), and the
   split lemma: removing one edge leaves two trees with the ends of the edge on different sides. *)
From Adapt Require Import Num.Qaux Vpsc.VpscSpec.

Section Tree.
Variable K : nat -> con.

Inductive tree : (nat -> Prop) -> (nat -> Prop) -> Prop :=
| tree_leaf v V E : (forall w, V w <-> w = v) -> (forall e, ~ E e) -> tree V E
| tree_join V1 E1 V2 E2 c V E :
    tree V1 E1 -> tree V2 E2 ->
    (forall w, V1 w -> V2 w -> False) ->
    ((V1 (cl (K c)) /\ V2 (cr (K c))) \/ (V2 (cl (K c)) /\ V1 (cr (K c)))) ->
    (forall w, V w <-> V1 w \/ V2 w) ->
    (forall e, E e <-> e = c \/ E1 e \/ E2 e) ->
    tree V E.

Lemma tree_ext V E V' E' :
  tree V E -> (forall w, V w <-> V' w) -> (forall e, E e <-> E' e) -> tree V' E'.
Proof.
  intros T HV HE. destruct T as [v V E A B | V1 E1 V2 E2 c V E T1 T2 D X A B].
  - apply (tree_leaf v); intros; [rewrite <- HV; apply A | rewrite <- HE; apply B].
  - apply (tree_join V1 E1 V2 E2 c); auto; intros; [rewrite <- HV; apply A | rewrite <- HE; apply B].
Qed.

Lemma tree_nonempty V E : tree V E -> exists v, V v.
Proof.
  induction 1 as [v V E A B | V1 E1 V2 E2 c V E T1 [v1 H1] T2 _ D X A B].
  - exists v. apply A. reflexivity.
  - exists v1. apply A. left. exact H1.
Qed.

Lemma tree_edge_ends V E : tree V E -> forall e, E e -> V (cl (K e)) /\ V (cr (K e)).
Proof.
  induction 1 as [v V E A B | V1 E1 V2 E2 c V E T1 IH1 T2 IH2 D X A B]; intros e He.
  - destruct (B e He).
  - apply B in He. destruct He as [-> | [He | He]].
    + rewrite !A. tauto.
    + destruct (IH1 e He). rewrite !A. tauto.
    + destruct (IH2 e He). rewrite !A. tauto.
Qed.

(* connectivity: a vertex predicate that every tree edge respects is constant on the tree *)
Lemma tree_connected V E : tree V E ->
  forall P : nat -> Prop, (forall e, E e -> (P (cl (K e)) <-> P (cr (K e)))) ->
  forall x y, V x -> V y -> P x -> P y.
Proof.
  induction 1 as [v V E A B | V1 E1 V2 E2 c V E T1 IH1 T2 IH2 D X A B]; intros P HP x y Hx Hy Px.
  - apply A in Hx. apply A in Hy. subst. exact Px.
  - assert (HP1 : forall e, E1 e -> (P (cl (K e)) <-> P (cr (K e)))) by (intros e He; apply HP, B; tauto).
    assert (HP2 : forall e, E2 e -> (P (cl (K e)) <-> P (cr (K e)))) by (intros e He; apply HP, B; tauto).
    assert (HPc : P (cl (K c)) <-> P (cr (K c))) by (apply HP, B; tauto).
    apply A in Hx. apply A in Hy.
    destruct X as [[Xl Xr] | [Xl Xr]]; destruct Hx as [Hx | Hx]; destruct Hy as [Hy | Hy].
    + apply (IH1 P HP1 x y); assumption.
    + apply (IH2 P HP2 (cr (K c)) y); try assumption. apply HPc. apply (IH1 P HP1 x _); assumption.
    + apply (IH1 P HP1 (cl (K c)) y); try assumption. apply HPc. apply (IH2 P HP2 x _); assumption.
    + apply (IH2 P HP2 x y); assumption.
    + apply (IH1 P HP1 x y); assumption.
    + apply (IH2 P HP2 (cl (K c)) y); try assumption. apply HPc. apply (IH1 P HP1 x _); assumption.
    + apply (IH1 P HP1 (cr (K c)) y); try assumption. apply HPc. apply (IH2 P HP2 x _); assumption.
    + apply (IH2 P HP2 x y); assumption.
Qed.

(* T - c = two trees, cl c on the first side, cr c on the second *)
Record split_dec (V E : nat -> Prop) (c : nat) (V1 E1 V2 E2 : nat -> Prop) : Prop := {
  sd_t1 : tree V1 E1;
  sd_t2 : tree V2 E2;
  sd_l : V1 (cl (K c));
  sd_r : V2 (cr (K c));
  sd_V : forall w, V w <-> V1 w \/ V2 w;
  sd_disj : forall w, V1 w -> V2 w -> False;
  sd_E : forall e, E e <-> e = c \/ E1 e \/ E2 e;
  sd_nc1 : ~ E1 c;
  sd_nc2 : ~ E2 c }.

Lemma tree_join_sym V1 E1 V2 E2 c V E :
  tree V1 E1 -> tree V2 E2 ->
  (forall w, V1 w -> V2 w -> False) ->
  ((V1 (cl (K c)) /\ V2 (cr (K c))) \/ (V2 (cl (K c)) /\ V1 (cr (K c)))) ->
  (forall w, V w <-> V2 w \/ V1 w) ->
  (forall e, E e <-> e = c \/ E2 e \/ E1 e) ->
  tree V E.
Proof.
  intros T1 T2 D X A B. apply (tree_join V2 E2 V1 E1 c); auto.
  - intros w H2 H1. exact (D w H1 H2).
  - tauto.
Qed.

Lemma tree_remove_edge V E : tree V E -> forall c, E c ->
  exists V1 E1 V2 E2, split_dec V E c V1 E1 V2 E2.
Proof.
  induction 1 as [v V E A B | Va Ea Vb Eb e V E Ta IHa Tb IHb D X A B]; intros c Hc.
  - destruct (B c Hc).
  - pose proof (tree_edge_ends _ _ Ta) as Enda. pose proof (tree_edge_ends _ _ Tb) as Endb.
    assert (NEa : ~ Ea e).
    { intros H. destruct (Enda e H) as [H1 H2]. destruct X as [[X1 X2]|[X1 X2]]; eauto. }
    assert (NEb : ~ Eb e).
    { intros H. destruct (Endb e H) as [H1 H2]. destruct X as [[X1 X2]|[X1 X2]]; eauto. }
    apply B in Hc. destruct Hc as [-> | [Hc | Hc]].
    + (* the joining edge itself *)
      destruct X as [[Xl Xr] | [Xl Xr]].
      * exists Va, Ea, Vb, Eb. constructor; auto.
      * exists Vb, Eb, Va, Ea. constructor; auto.
        -- intros w. rewrite A. tauto.
        -- intros w H1 H2. exact (D w H2 H1).
        -- intros e'. rewrite B. tauto.
    + (* c inside the first tree *)
      destruct (IHa c Hc) as [V1 [E1 [V2 [E2 S]]]]. destruct S as [S1 S2 S3 S4 S5 S6 S7 S8 S9].
      assert (Hce : c <> e) by (intros ->; contradiction).
      assert (NbC : ~ Eb c).
      { intros H. destruct (Endb c H) as [H1 _]. apply (D (cl (K c))); [apply S5; tauto | exact H1]. }
      (* the end of e lying in Va is in V1 or in V2 *)
      assert (Xa : exists p q, Va p /\ Vb q /\ ((p = cl (K e) /\ q = cr (K e)) \/ (q = cl (K e) /\ p = cr (K e)))).
      { destruct X as [[X1 X2]|[X1 X2]]; [exists (cl (K e)), (cr (K e)) | exists (cr (K e)), (cl (K e))]; tauto. }
      destruct Xa as [p [q [Hp [Hq Hpq]]]].
      apply S5 in Hp. destruct Hp as [Hp | Hp].
      * (* e attaches Vb to V1 *)
        exists (fun w => V1 w \/ Vb w), (fun x => x = e \/ E1 x \/ Eb x), V2, E2.
        assert (DD : forall w, V1 w \/ V2 w -> Vb w -> False) by (intros w H Hb; apply (D w); [apply S5; exact H | exact Hb]).
        constructor; cbv beta.
        -- apply (tree_join V1 E1 Vb Eb e); auto; try tauto.
           ++ intros w H1 Hb. apply (DD w); tauto.
           ++ destruct Hpq as [[-> ->] | [-> ->]]; tauto.
        -- exact S2.
        -- left. exact S3.
        -- exact S4.
        -- intros w. rewrite A, S5. tauto.
        -- intros w [H1 | Hb] H2; [exact (S6 w H1 H2) | apply (DD w); tauto].
        -- intros x. rewrite B, S7. tauto.
        -- intros [H | [H | H]]; [congruence | contradiction | contradiction].
        -- exact S9.
      * (* e attaches Vb to V2 *)
        exists V1, E1, (fun w => V2 w \/ Vb w), (fun x => x = e \/ E2 x \/ Eb x).
        assert (DD : forall w, V1 w \/ V2 w -> Vb w -> False) by (intros w H Hb; apply (D w); [apply S5; exact H | exact Hb]).
        constructor; cbv beta.
        -- exact S1.
        -- apply (tree_join V2 E2 Vb Eb e); auto; try tauto.
           ++ intros w H1 Hb. apply (DD w); tauto.
           ++ destruct Hpq as [[-> ->] | [-> ->]]; tauto.
        -- exact S3.
        -- left. exact S4.
        -- intros w. rewrite A, S5. tauto.
        -- intros w H1 [H2 | Hb]; [exact (S6 w H1 H2) | apply (DD w); tauto].
        -- intros x. rewrite B, S7. tauto.
        -- exact S8.
        -- intros [H | [H | H]]; [congruence | contradiction | contradiction].
    + (* c inside the second tree *)
      destruct (IHb c Hc) as [V1 [E1 [V2 [E2 S]]]]. destruct S as [S1 S2 S3 S4 S5 S6 S7 S8 S9].
      assert (Hce : c <> e) by (intros ->; contradiction).
      assert (NaC : ~ Ea c).
      { intros H. destruct (Enda c H) as [H1 _]. apply (D (cl (K c))); [exact H1 | apply S5; tauto]. }
      assert (Xa : exists p q, Vb p /\ Va q /\ ((p = cl (K e) /\ q = cr (K e)) \/ (q = cl (K e) /\ p = cr (K e)))).
      { destruct X as [[X1 X2]|[X1 X2]]; [exists (cr (K e)), (cl (K e)) | exists (cl (K e)), (cr (K e))]; tauto. }
      destruct Xa as [p [q [Hp [Hq Hpq]]]].
      assert (DD : forall w, V1 w \/ V2 w -> Va w -> False) by (intros w H Ha; apply (D w); [exact Ha | apply S5; exact H]).
      apply S5 in Hp. destruct Hp as [Hp | Hp].
      * exists (fun w => V1 w \/ Va w), (fun x => x = e \/ E1 x \/ Ea x), V2, E2.
        constructor; cbv beta.
        -- apply (tree_join V1 E1 Va Ea e); auto; try tauto.
           ++ intros w H1 Ha. apply (DD w); tauto.
           ++ destruct Hpq as [[-> ->] | [-> ->]]; tauto.
        -- exact S2.
        -- left. exact S3.
        -- exact S4.
        -- intros w. rewrite A, S5. tauto.
        -- intros w [H1 | Ha] H2; [exact (S6 w H1 H2) | apply (DD w); tauto].
        -- intros x. rewrite B, S7. tauto.
        -- intros [H | [H | H]]; [congruence | contradiction | contradiction].
        -- exact S9.
      * exists V1, E1, (fun w => V2 w \/ Va w), (fun x => x = e \/ E2 x \/ Ea x).
        constructor; cbv beta.
        -- exact S1.
        -- apply (tree_join V2 E2 Va Ea e); auto; try tauto.
           ++ intros w H1 Ha. apply (DD w); tauto.
           ++ destruct Hpq as [[-> ->] | [-> ->]]; tauto.
        -- exact S3.
        -- left. exact S4.
        -- intros w. rewrite A, S5. tauto.
        -- intros w H1 [H2 | Ha]; [exact (S6 w H1 H2) | apply (DD w); tauto].
        -- intros x. rewrite B, S7. tauto.
        -- exact S8.
        -- intros [H | [H | H]]; [congruence | contradiction | contradiction].
Qed.

(* in a decomposition every edge other than c lies on one side *)
Lemma split_dec_edge_side V E c V1 E1 V2 E2 :
  split_dec V E c V1 E1 V2 E2 -> forall e, E e -> e <> c ->
  (V1 (cl (K e)) /\ V1 (cr (K e))) \/ (V2 (cl (K e)) /\ V2 (cr (K e))).
Proof.
  intros S e He Hne. apply (sd_E _ _ _ _ _ _ _ S) in He. destruct He as [-> | [He | He]]; [congruence | left | right].
  - exact (tree_edge_ends _ _ (sd_t1 _ _ _ _ _ _ _ S) e He).
  - exact (tree_edge_ends _ _ (sd_t2 _ _ _ _ _ _ _ S) e He).
Qed.

(* c separates x from y in the tree (V, E) *)
Definition separates (V E : nat -> Prop) (c x y : nat) : Prop :=
  exists V1 E1 V2 E2, split_dec V E c V1 E1 V2 E2 /\ ((V1 x /\ V2 y) \/ (V2 x /\ V1 y)).

End Tree.

(* the tree only looks at the ends of its own edges *)
Lemma tree_ext_K K K' V E : tree K V E -> (forall e, E e -> K' e = K e) -> tree K' V E.
Proof.
  induction 1 as [v V E A B | V1 E1 V2 E2 c V E T1 IH1 T2 IH2 D X A B]; intros HK.
  - apply (tree_leaf K' v); assumption.
  - apply (tree_join K' V1 E1 V2 E2 c); auto.
    + apply IH1. intros e He. apply HK, B. tauto.
    + apply IH2. intros e He. apply HK, B. tauto.
    + rewrite (HK c) by (apply B; tauto). exact X.
Qed.

(* a decomposition of a sub-tree lifts to the whole tree: if c separates w from r inside a sub-tree (Vs, Es) that hangs
   on the rest of the tree by the edge e = {w, v} (v outside Vs), then c separates v from r in the whole tree *)
Lemma separates_extend K V E Vs Es e c w v r :
  tree K V E -> tree K Vs Es ->
  (forall x, Es x -> E x) -> E e -> ~ Es e ->
  ((cl (K e) = w /\ cr (K e) = v) \/ (cr (K e) = w /\ cl (K e) = v)) ->
  separates K Vs Es c w r -> separates K V E c v r.
Proof.
  intros T Ts Sub Ee Nse Hinc [Va [Ea [Vb [Eb [D1 Sides]]]]].
  assert (Esc : Es c) by (apply (sd_E _ _ _ _ _ _ _ _ D1); tauto).
  assert (Ec : E c) by (apply Sub; exact Esc).
  assert (Nec : e <> c) by (intros ->; contradiction).
  destruct (tree_remove_edge K V E T c Ec) as [A [EA [B [EB D]]]].
  exists A, EA, B, EB. split; [exact D|].
  assert (Side : forall x, E x -> x <> c -> (A (cl (K x)) <-> A (cr (K x))) /\ (B (cl (K x)) <-> B (cr (K x)))).
  { intros x Hx Nx. destruct (split_dec_edge_side K _ _ _ _ _ _ _ D x Hx Nx) as [[P Q]|[P Q]].
    - split; [tauto|]. split; intros X; exfalso; [exact (sd_disj _ _ _ _ _ _ _ _ D _ P X) | exact (sd_disj _ _ _ _ _ _ _ _ D _ Q X)].
    - split; [|tauto]. split; intros X; exfalso; [exact (sd_disj _ _ _ _ _ _ _ _ D _ X P) | exact (sd_disj _ _ _ _ _ _ _ _ D _ X Q)]. }
  assert (VaA : forall x, Va x -> A x).
  { intros x Hx. apply (tree_connected K _ _ (sd_t1 _ _ _ _ _ _ _ _ D1) A) with (x := cl (K c)).
    - intros y Hy. apply Side.
      + apply Sub. apply (sd_E _ _ _ _ _ _ _ _ D1). tauto.
      + intros ->. exact (sd_nc1 _ _ _ _ _ _ _ _ D1 Hy).
    - exact (sd_l _ _ _ _ _ _ _ _ D1).
    - exact Hx.
    - exact (sd_l _ _ _ _ _ _ _ _ D). }
  assert (VbB : forall x, Vb x -> B x).
  { intros x Hx. apply (tree_connected K _ _ (sd_t2 _ _ _ _ _ _ _ _ D1) B) with (x := cr (K c)).
    - intros y Hy. apply Side.
      + apply Sub. apply (sd_E _ _ _ _ _ _ _ _ D1). tauto.
      + intros ->. exact (sd_nc2 _ _ _ _ _ _ _ _ D1 Hy).
    - exact (sd_r _ _ _ _ _ _ _ _ D1).
    - exact Hx.
    - exact (sd_r _ _ _ _ _ _ _ _ D). }
  destruct (Side e Ee Nec) as [SA SB].
  assert (WA : A w <-> A v) by (destruct Hinc as [[<- <-]|[<- <-]]; tauto).
  assert (WB : B w <-> B v) by (destruct Hinc as [[<- <-]|[<- <-]]; tauto).
  destruct Sides as [[Hw Hr]|[Hw Hr]].
  - left. split; [apply WA, VaA, Hw | apply VbB, Hr].
  - right. split; [apply WB, VbB, Hw | apply VaA, Hr].
Qed.
