(* C20 (2): the VPSC optimum does not depend on the identifiers / order of variables and constraints
   (vpsc_permute) and, for scale-1 problems, commutes with translating every desired position
   (vpsc_translate).  Declarative level: consequences of the KKT theory of Vpsc/KKT.v, for every n and m.
   Also the corollaries for the executable certificate checker kkt_ok that the checks run on every pair of
   real solver runs.  (DESIGN 5.20) *)
From Coq Require Import Permutation.
From Adapt Require Import Num.Qaux Vpsc.VpscSpec Vpsc.KKT.
Local Open Scope Q_scope.

(* ------------------------------------------------------------------ renumbering *)
Definition ren (f : nat -> nat) (c : con) : con := mkcon (f (cl c)) (f (cr c)) (gap c) (ceq c).

Definition var_equiv (v v' : var) : Prop := des v == des v' /\ wt v == wt v' /\ scl v == scl v'.
Definition con_equiv (c c' : con) : Prop := cl c = cl c' /\ cr c = cr c' /\ gap c == gap c' /\ ceq c = ceq c'.

(* sg : old index -> new index, rh : new index -> old index; (vs', cs') is (vs, cs) renumbered by sg with the
   constraint list reordered arbitrarily (duplicates may even be dropped or repeated) *)
Record renumbering (vs : list var) (cs : list con) (vs' : list var) (cs' : list con) (sg rh : nat -> nat) : Prop := {
  rn_len : length vs' = length vs;
  rn_sg : forall i, (i < length vs)%nat -> (sg i < length vs)%nat /\ rh (sg i) = i;
  rn_rh : forall j, (j < length vs)%nat -> (rh j < length vs)%nat /\ sg (rh j) = j;
  rn_var : forall i, (i < length vs)%nat -> var_equiv (vget vs' (sg i)) (vget vs i);
  rn_fwd : forall c, In c cs -> exists c', In c' cs' /\ con_equiv c' (ren sg c);
  rn_bwd : forall c', In c' cs' -> exists c, In c cs /\ con_equiv c' (ren sg c) }.

Lemma slackv_ren vs vs' sg y c c' :
  (forall i, (i < length vs)%nat -> var_equiv (vget vs' (sg i)) (vget vs i)) ->
  (cl c < length vs)%nat -> (cr c < length vs)%nat ->
  con_equiv c' (ren sg c) ->
  slackv vs' y c' == slackv vs (fun i => y (sg i)) c.
Proof.
  intros V Hl Hr (E1 & E2 & E3 & _). unfold slackv. cbn [ren cl cr gap] in *.
  rewrite E1, E2, E3.
  destruct (V _ Hl) as (_ & _ & Sl). destruct (V _ Hr) as (_ & _ & Sr).
  rewrite Sl, Sr. reflexivity.
Qed.

Lemma holds_ren vs vs' sg y c c' :
  (forall i, (i < length vs)%nat -> var_equiv (vget vs' (sg i)) (vget vs i)) ->
  (cl c < length vs)%nat -> (cr c < length vs)%nat ->
  con_equiv c' (ren sg c) ->
  (holds vs' y c' <-> holds vs (fun i => y (sg i)) c).
Proof.
  intros V Hl Hr E. pose proof (slackv_ren vs vs' sg y c c' V Hl Hr E) as S.
  destruct E as (_ & _ & _ & E4). cbn [ren ceq] in E4. unfold holds. rewrite E4.
  destruct (ceq c); rewrite S; tauto.
Qed.

(* feasibility is transported both ways *)
Lemma feasible_pull vs cs vs' cs' sg rh y :
  wf_cons vs cs -> renumbering vs cs vs' cs' sg rh ->
  feasible vs' cs' y -> feasible vs cs (fun i => y (sg i)).
Proof.
  intros WC R F c Hc. destruct (rn_fwd _ _ _ _ _ _ R c Hc) as (c' & Hc' & E).
  destruct (WC c Hc) as [Hl Hr].
  apply (holds_ren vs vs' sg y c c' (rn_var _ _ _ _ _ _ R) Hl Hr E). exact (F c' Hc').
Qed.

Lemma feasible_push vs cs vs' cs' sg rh x :
  wf_cons vs cs -> renumbering vs cs vs' cs' sg rh ->
  feasible vs cs x -> feasible vs' cs' (fun j => x (rh j)).
Proof.
  intros WC R F c' Hc'. destruct (rn_bwd _ _ _ _ _ _ R c' Hc') as (c & Hc & E).
  destruct (WC c Hc) as [Hl Hr].
  apply (holds_ren vs vs' sg (fun j => x (rh j)) c c' (rn_var _ _ _ _ _ _ R) Hl Hr E).
  pose proof (F c Hc) as H. unfold holds, slackv in *.
  destruct (rn_sg _ _ _ _ _ _ R _ Hl) as [_ El]. destruct (rn_sg _ _ _ _ _ _ R _ Hr) as [_ Er].
  rewrite El, Er. exact H.
Qed.

(* ------------------------------------------------------------------ transporting the certificate *)
Lemma csum_map {A B} (g : A -> B) (l : list A) f : csum (map g l) f == csum l (fun a => f (g a)).
Proof. induction l as [|a l IH]; cbn; [reflexivity|]. rewrite IH. reflexivity. Qed.

Definition renL (f : nat -> nat) (L : list (con * Q)) : list (con * Q) := map (fun p => (ren f (fst p), snd p)) L.

Lemma outs_renL vs rh sg L i :
  (forall i, (i < length vs)%nat -> (sg i < length vs)%nat /\ rh (sg i) = i) ->
  (forall j, (j < length vs)%nat -> (rh j < length vs)%nat /\ sg (rh j) = j) ->
  wf_lcons vs L -> (i < length vs)%nat ->
  outs (renL rh L) i == outs L (sg i).
Proof.
  intros S R W Hi. unfold outs, renL. rewrite csum_map. apply csum_ext. intros p Hp. cbn [fst snd ren cl].
  destruct (W p Hp) as [Hl _].
  destruct (Nat.eqb (rh (cl (fst p))) i) eqn:E1, (Nat.eqb (cl (fst p)) (sg i)) eqn:E2; try reflexivity; exfalso.
  - apply Nat.eqb_eq in E1. apply Nat.eqb_neq in E2. apply E2. rewrite <- E1. symmetry. apply R. exact Hl.
  - apply Nat.eqb_neq in E1. apply Nat.eqb_eq in E2. apply E1. rewrite E2. apply S. exact Hi.
Qed.
Lemma ins_renL vs rh sg L i :
  (forall i, (i < length vs)%nat -> (sg i < length vs)%nat /\ rh (sg i) = i) ->
  (forall j, (j < length vs)%nat -> (rh j < length vs)%nat /\ sg (rh j) = j) ->
  wf_lcons vs L -> (i < length vs)%nat ->
  ins (renL rh L) i == ins L (sg i).
Proof.
  intros S R W Hi. unfold ins, renL. rewrite csum_map. apply csum_ext. intros p Hp. cbn [fst snd ren cr].
  destruct (W p Hp) as [_ Hr].
  destruct (Nat.eqb (rh (cr (fst p))) i) eqn:E1, (Nat.eqb (cr (fst p)) (sg i)) eqn:E2; try reflexivity; exfalso.
  - apply Nat.eqb_eq in E1. apply Nat.eqb_neq in E2. apply E2. rewrite <- E1. symmetry. apply R. exact Hr.
  - apply Nat.eqb_neq in E1. apply Nat.eqb_eq in E2. apply E1. rewrite E2. apply S. exact Hi.
Qed.

(* slack of a constraint of the renumbered problem, renamed back, at the pulled-back placement *)
Lemma slackv_back vs vs' sg rh y c' :
  length vs' = length vs ->
  (forall i, (i < length vs)%nat -> (sg i < length vs)%nat /\ rh (sg i) = i) ->
  (forall j, (j < length vs)%nat -> (rh j < length vs)%nat /\ sg (rh j) = j) ->
  (forall i, (i < length vs)%nat -> var_equiv (vget vs' (sg i)) (vget vs i)) ->
  (cl c' < length vs)%nat -> (cr c' < length vs)%nat ->
  slackv vs (fun i => y (sg i)) (ren rh c') == slackv vs' y c'.
Proof.
  intros Hlen S R V Hl Hr. unfold slackv. cbn [ren cl cr gap].
  destruct (R _ Hl) as [Hl' El]. destruct (R _ Hr) as [Hr' Er].
  destruct (V _ Hl') as (_ & _ & Sl). destruct (V _ Hr') as (_ & _ & Sr).
  rewrite El in *. rewrite Er in *. rewrite Sl, Sr. reflexivity.
Qed.

Lemma kkt_pull vs vs' sg rh L' y :
  length vs' = length vs ->
  (forall i, (i < length vs)%nat -> (sg i < length vs)%nat /\ rh (sg i) = i) ->
  (forall j, (j < length vs)%nat -> (rh j < length vs)%nat /\ sg (rh j) = j) ->
  (forall i, (i < length vs)%nat -> var_equiv (vget vs' (sg i)) (vget vs i)) ->
  wf_lcons vs' L' -> kkt vs' L' y ->
  kkt vs (renL rh L') (fun i => y (sg i)).
Proof.
  intros Hlen S R V W K.
  assert (W0 : wf_lcons vs L') by (intros p Hp; rewrite <- Hlen; exact (W p Hp)).
  assert (SL : forall p, In p L' -> slackv vs (fun i => y (sg i)) (ren rh (fst p)) == slackv vs' y (fst p)).
  { intros p Hp. destruct (W0 p Hp) as [Hl Hr]. apply (slackv_back vs vs' sg rh y (fst p) Hlen S R V Hl Hr). }
  constructor.
  - intros q Hq. unfold renL in Hq. apply in_map_iff in Hq. destruct Hq as (p & <- & Hp). cbn [fst].
    pose proof (kkt_feas _ _ _ K p Hp) as H. unfold holds in *. cbn [ren ceq].
    destruct (ceq (fst p)); rewrite (SL p Hp); exact H.
  - intros q Hq. unfold renL in Hq. apply in_map_iff in Hq. destruct Hq as (p & <- & Hp). cbn [fst snd ren ceq].
    exact (kkt_sign _ _ _ K p Hp).
  - intros q Hq. unfold renL in Hq. apply in_map_iff in Hq. destruct Hq as (p & <- & Hp). cbn [fst snd].
    rewrite (SL p Hp). exact (kkt_comp _ _ _ K p Hp).
  - intros i Hi. unfold stat_res.
    rewrite (outs_renL vs rh sg L' i S R W0 Hi), (ins_renL vs rh sg L' i S R W0 Hi).
    destruct (S i Hi) as [Hs _]. rewrite <- Hlen in Hs.
    pose proof (kkt_stat _ _ _ K (sg i) Hs) as H. unfold stat_res in H.
    destruct (V i Hi) as (Vd & Vw & Vs). rewrite <- Vd, <- Vw, <- Vs. exact H.
Qed.

(* ------------------------------------------------------------------ vpsc_permute *)
(* If x is certified optimal for P = (vs, cs) and y is certified optimal for the renumbered / reordered
   problem (vs', cs'), then y is x renumbered: y (sg i) == x i for every variable i of P. *)
Theorem vpsc_permute vs cs lam x vs' cs' lam' y sg rh :
  wf_vars vs -> wf_cons vs cs ->
  renumbering vs cs vs' cs' sg rh ->
  length lam = length cs -> length lam' = length cs' ->
  kkt vs (combine cs lam) x -> kkt vs' (combine cs' lam') y ->
  forall i, (i < length vs)%nat -> y (sg i) == x i.
Proof.
  intros WV WC Rn Hl Hl' K K'.
  pose proof (rn_len _ _ _ _ _ _ Rn) as Hlen. pose proof (rn_sg _ _ _ _ _ _ Rn) as S.
  pose proof (rn_rh _ _ _ _ _ _ Rn) as R. pose proof (rn_var _ _ _ _ _ _ Rn) as V.
  (* constraints of the renumbered problem are well-formed *)
  assert (WC' : wf_cons vs' cs').
  { intros c' Hc'. destruct (rn_bwd _ _ _ _ _ _ Rn c' Hc') as (c & Hc & E1 & E2 & _). cbn [ren cl cr] in E1, E2.
    destruct (WC c Hc) as [A B]. rewrite Hlen, E1, E2. split; [apply (S _ A) | apply (S _ B)]. }
  pose proof (kkt_feasible _ _ _ _ Hl K) as Fx. pose proof (kkt_feasible _ _ _ _ Hl' K') as Fy.
  set (y' := fun i => y (sg i)).
  (* y pulled back is certified on the old problem with the renamed multiplier list *)
  pose proof (kkt_pull vs vs' sg rh (combine cs' lam') y Hlen S R V (wf_lcons_combine _ _ _ WC') K') as Ky'.
  assert (W2 : wf_lcons vs (renL rh (combine cs' lam'))).
  { intros q Hq. unfold renL in Hq. apply in_map_iff in Hq. destruct Hq as ([c' l] & <- & Hp). cbn [fst ren cl cr].
    apply in_combine_l in Hp. destruct (WC' c' Hp) as [A B]. rewrite Hlen in A, B.
    split; [apply (R _ A) | apply (R _ B)]. }
  (* x is feasible for the renamed list *)
  assert (F2 : lfeasible vs (renL rh (combine cs' lam')) x).
  { intros q Hq. unfold renL in Hq. apply in_map_iff in Hq. destruct Hq as ([c' l] & <- & Hp). cbn [fst].
    apply in_combine_l in Hp. destruct (rn_bwd _ _ _ _ _ _ Rn c' Hp) as (c & Hc & E1 & E2 & E3 & E4).
    cbn [ren cl cr gap ceq] in E1, E2, E3, E4. destruct (WC c Hc) as [A B].
    pose proof (Fx c Hc) as H. unfold holds, slackv in *. cbn [ren cl cr gap ceq].
    rewrite E1, E2, E4. destruct (S _ A) as [_ ->]. destruct (S _ B) as [_ ->].
    destruct (ceq c); rewrite E3; exact H. }
  (* y' is feasible for the original list *)
  assert (F1 : lfeasible vs (combine cs lam) y').
  { apply lfeasible_combine. exact (feasible_pull vs cs vs' cs' sg rh y WC Rn Fy). }
  destruct (kkt_sufficient_l vs (combine cs lam) x y' WV (wf_lcons_combine _ _ _ WC) K F1) as [A _].
  destruct (kkt_sufficient_l vs (renL rh (combine cs' lam')) y' x WV W2 Ky' F2) as [B _].
  destruct (kkt_sufficient_l vs (combine cs lam) x y' WV (wf_lcons_combine _ _ _ WC) K F1) as [_ C].
  intros i Hi. exact (C B i Hi).
Qed.

(* the usual presentation: cs' is any permutation of the renamed list, vs' the renumbered variable list *)
Lemma renumbering_of_perm vs cs vs' cs' sg rh :
  length vs' = length vs ->
  (forall i, (i < length vs)%nat -> (sg i < length vs)%nat /\ rh (sg i) = i) ->
  (forall j, (j < length vs)%nat -> (rh j < length vs)%nat /\ sg (rh j) = j) ->
  (forall i, (i < length vs)%nat -> vget vs' (sg i) = vget vs i) ->
  Permutation cs' (map (ren sg) cs) ->
  renumbering vs cs vs' cs' sg rh.
Proof.
  intros Hlen S R V P. constructor; try assumption.
  - intros i Hi. rewrite (V i Hi). repeat split; reflexivity.
  - intros c Hc. exists (ren sg c). split.
    + apply (Permutation_in _ (Permutation_sym P)). apply in_map. exact Hc.
    + repeat split; reflexivity.
  - intros c' Hc'. pose proof (Permutation_in _ P Hc') as H. apply in_map_iff in H.
    destruct H as (c & <- & Hc). exists c. split; [exact Hc|]. repeat split; reflexivity.
Qed.

Theorem vpsc_permute_perm vs cs lam x vs' cs' lam' y sg rh :
  wf_vars vs -> wf_cons vs cs ->
  length vs' = length vs ->
  (forall i, (i < length vs)%nat -> (sg i < length vs)%nat /\ rh (sg i) = i) ->
  (forall j, (j < length vs)%nat -> (rh j < length vs)%nat /\ sg (rh j) = j) ->
  (forall i, (i < length vs)%nat -> vget vs' (sg i) = vget vs i) ->
  Permutation cs' (map (ren sg) cs) ->
  length lam = length cs -> length lam' = length cs' ->
  kkt vs (combine cs lam) x -> kkt vs' (combine cs' lam') y ->
  forall i, (i < length vs)%nat -> y (sg i) == x i.
Proof.
  intros WV WC Hlen S R V P. apply (vpsc_permute vs cs lam x vs' cs' lam' y sg rh WV WC).
  apply renumbering_of_perm; assumption.
Qed.

(* ------------------------------------------------------------------ executable version *)
(* p : new index of old variable i is nth i p;  q : its inverse.  Everything is checked. *)
Definition var_eqb (v v' : var) : bool := Qeqb (des v) (des v') && Qeqb (wt v) (wt v') && Qeqb (scl v) (scl v').
Definition con_eqb (c c' : con) : bool :=
  Nat.eqb (cl c) (cl c') && Nat.eqb (cr c) (cr c') && Qeqb (gap c) (gap c') && Bool.eqb (ceq c) (ceq c').
Definition ixf (p : list nat) : nat -> nat := fun i => nth i p O.

Definition renumbering_okb (vs : list var) (cs : list con) (vs' : list var) (cs' : list con) (p q : list nat) : bool :=
  Nat.eqb (length vs') (length vs)
  && forallb (fun i => Nat.ltb (ixf p i) (length vs) && Nat.eqb (ixf q (ixf p i)) i
                       && Nat.ltb (ixf q i) (length vs) && Nat.eqb (ixf p (ixf q i)) i
                       && var_eqb (vget vs' (ixf p i)) (vget vs i)) (seq 0 (length vs))
  && forallb (fun c => existsb (fun c' => con_eqb c' (ren (ixf p) c)) cs') cs
  && forallb (fun c' => existsb (fun c => con_eqb c' (ren (ixf p) c)) cs) cs'.

Lemma var_eqb_spec v v' : var_eqb v v' = true <-> var_equiv v v'.
Proof. unfold var_eqb, var_equiv. rewrite !andb_true_iff, !Qeqb_spec. tauto. Qed.
Lemma con_eqb_spec c c' : con_eqb c c' = true <-> con_equiv c c'.
Proof.
  unfold con_eqb, con_equiv. rewrite !andb_true_iff, !Nat.eqb_eq, Qeqb_spec, Bool.eqb_true_iff. tauto.
Qed.

Lemma renumbering_okb_sound vs cs vs' cs' p q :
  renumbering_okb vs cs vs' cs' p q = true -> renumbering vs cs vs' cs' (ixf p) (ixf q).
Proof.
  unfold renumbering_okb. rewrite !andb_true_iff, !forallb_forall. intros [[[L A] F] B].
  apply Nat.eqb_eq in L.
  assert (A' : forall i, (i < length vs)%nat ->
      ((ixf p i < length vs)%nat /\ ixf q (ixf p i) = i) /\ ((ixf q i < length vs)%nat /\ ixf p (ixf q i) = i)
      /\ var_equiv (vget vs' (ixf p i)) (vget vs i)).
  { intros i Hi. assert (Hin : In i (seq 0 (length vs))) by (apply in_seq; lia).
    specialize (A i Hin). rewrite !andb_true_iff, !Nat.ltb_lt, !Nat.eqb_eq, var_eqb_spec in A. tauto. }
  constructor.
  - exact L.
  - intros i Hi. apply (A' i Hi).
  - intros i Hi. apply (A' i Hi).
  - intros i Hi. apply (A' i Hi).
  - intros c Hc. specialize (F c Hc). apply existsb_exists in F. destruct F as (c' & Hc' & E).
    exists c'. split; [exact Hc'|]. apply con_eqb_spec. exact E.
  - intros c' Hc'. specialize (B c' Hc'). apply existsb_exists in B. destruct B as (c & Hc & E).
    exists c. split; [exact Hc|]. apply con_eqb_spec. exact E.
Qed.

Lemma kkt_ok_inv vs cs xs lam :
  kkt_ok vs cs xs lam = true ->
  wf_vars vs /\ wf_cons vs cs /\ length lam = length cs /\ length xs = length vs /\
  kkt vs (combine cs lam) (place_of xs).
Proof.
  unfold kkt_ok. rewrite !andb_true_iff. intros [[[[WV WC] Hl] Hx] K].
  apply wf_varsb_spec in WV. apply wf_consb_spec in WC. apply Nat.eqb_eq in Hl. apply Nat.eqb_eq in Hx.
  apply kkt_okl_spec in K. tauto.
Qed.

(* two results that both pass the certificate agree up to the renumbering *)
Theorem vpsc_permute_checked vs cs xs lam vs' cs' ys lam' p q :
  kkt_ok vs cs xs lam = true -> kkt_ok vs' cs' ys lam' = true ->
  renumbering_okb vs cs vs' cs' p q = true ->
  forall i, (i < length vs)%nat -> nth (nth i p O) ys 0 == nth i xs 0.
Proof.
  intros K K' R i Hi.
  destruct (kkt_ok_inv _ _ _ _ K) as (WV & WC & Hl & _ & Kx).
  destruct (kkt_ok_inv _ _ _ _ K') as (_ & _ & Hl' & _ & Ky).
  exact (vpsc_permute vs cs lam (place_of xs) vs' cs' lam' (place_of ys) (ixf p) (ixf q) WV WC
           (renumbering_okb_sound _ _ _ _ _ _ R) Hl Hl' Kx Ky i Hi).
Qed.

(* ------------------------------------------------------------------ vpsc_translate (declarative) *)
Definition shift_var (t : Q) (v : var) : var := mkvar (des v + t) (wt v) (scl v).
Definition shift_vars (t : Q) (vs : list var) : list var := map (shift_var t) vs.
Definition shift_place (t : Q) (x : place) : place := fun i => x i + t.
Definition unit_scale (vs : list var) : Prop := forall i, (i < length vs)%nat -> scl (vget vs i) == 1.

Lemma shift_vars_length t vs : length (shift_vars t vs) = length vs.
Proof. apply map_length. Qed.
Lemma vget_shift t vs i : (i < length vs)%nat -> vget (shift_vars t vs) i = shift_var t (vget vs i).
Proof.
  intros Hi. unfold vget, shift_vars.
  rewrite (nth_indep _ dvar (shift_var t dvar)) by (rewrite map_length; exact Hi). apply map_nth.
Qed.

Lemma wf_vars_shift t vs : wf_vars vs -> wf_vars (shift_vars t vs).
Proof.
  intros W i Hi. rewrite shift_vars_length in Hi. rewrite (vget_shift t vs i Hi). cbn [shift_var wt scl]. exact (W i Hi).
Qed.
Lemma wf_cons_shift t vs cs : wf_cons vs cs -> wf_cons (shift_vars t vs) cs.
Proof. intros W c Hc. rewrite shift_vars_length. exact (W c Hc). Qed.

(* constraints only see differences *)
Lemma slackv_shift t vs x c :
  unit_scale vs -> (cl c < length vs)%nat -> (cr c < length vs)%nat ->
  slackv (shift_vars t vs) (shift_place t x) c == slackv vs x c.
Proof.
  intros U Hl Hr. unfold slackv, shift_place. rewrite (vget_shift t vs _ Hl), (vget_shift t vs _ Hr).
  cbn [shift_var scl]. rewrite (U _ Hl), (U _ Hr). ring.
Qed.

Lemma holds_shift t vs x c :
  unit_scale vs -> (cl c < length vs)%nat -> (cr c < length vs)%nat ->
  (holds (shift_vars t vs) (shift_place t x) c <-> holds vs x c).
Proof.
  intros U Hl Hr. unfold holds. destruct (ceq c); rewrite (slackv_shift t vs x c U Hl Hr); tauto.
Qed.

(* feasibility / infeasibility is unchanged by the translation, in both directions *)
Theorem feasible_shift t vs cs x :
  unit_scale vs -> wf_cons vs cs ->
  (feasible (shift_vars t vs) cs (shift_place t x) <-> feasible vs cs x).
Proof.
  intros U W. split; intros F c Hc; destruct (W c Hc) as [Hl Hr].
  - apply (holds_shift t vs x c U Hl Hr). exact (F c Hc).
  - apply (holds_shift t vs x c U Hl Hr). exact (F c Hc).
Qed.

Theorem feasibility_translation_invariant t vs cs :
  unit_scale vs -> wf_cons vs cs ->
  ((exists x, feasible vs cs x) <-> (exists y, feasible (shift_vars t vs) cs y)).
Proof.
  intros U W. split.
  - intros [x F]. exists (shift_place t x). apply (feasible_shift t vs cs x U W). exact F.
  - intros [y F]. exists (shift_place (- t) y). apply (feasible_shift t vs cs _ U W).
    intros c Hc. pose proof (F c Hc) as H. unfold holds, slackv, shift_place in *.
    destruct (ceq c).
    + rewrite <- H. ring.
    + assert (E : scl (vget (shift_vars t vs) (cr c)) * (y (cr c) + - t + t) - gap c -
                  scl (vget (shift_vars t vs) (cl c)) * (y (cl c) + - t + t)
                  == scl (vget (shift_vars t vs) (cr c)) * y (cr c) - gap c -
                     scl (vget (shift_vars t vs) (cl c)) * y (cl c)) by ring.
      rewrite E. exact H.
Qed.

(* the objective is unchanged when desired positions and placement move together *)
Lemma obj_shift t vs x : obj (shift_vars t vs) (shift_place t x) == obj vs x.
Proof.
  unfold obj. rewrite shift_vars_length. apply sumn_ext. intros i Hi.
  rewrite (vget_shift t vs i Hi). cbn [shift_var wt des]. unfold shift_place, sq. ring.
Qed.

(* the same multipliers certify the translated point on the translated problem *)
Lemma kkt_shift t vs L x :
  unit_scale vs -> wf_lcons vs L -> kkt vs L x -> kkt (shift_vars t vs) L (shift_place t x).
Proof.
  intros U W K.
  assert (SL : forall p, In p L -> slackv (shift_vars t vs) (shift_place t x) (fst p) == slackv vs x (fst p)).
  { intros p Hp. destruct (W p Hp) as [Hl Hr]. apply slackv_shift; assumption. }
  constructor.
  - intros p Hp. pose proof (kkt_feas _ _ _ K p Hp) as H. unfold holds in *.
    destruct (ceq (fst p)); rewrite (SL p Hp); exact H.
  - exact (kkt_sign _ _ _ K).
  - intros p Hp. rewrite (SL p Hp). exact (kkt_comp _ _ _ K p Hp).
  - intros i Hi. rewrite shift_vars_length in Hi. pose proof (kkt_stat _ _ _ K i Hi) as H.
    unfold stat_res in *. rewrite (vget_shift t vs i Hi). cbn [shift_var wt des scl]. unfold shift_place.
    rewrite <- H. ring.
Qed.

(* vpsc_translate: if x is certified optimal for (vs, cs) then x + t is certified optimal -- hence THE optimum --
   of the problem with every desired position translated by t, and any certified optimum y of the translated
   problem is x + t. *)
Theorem vpsc_translate t vs cs lam x :
  unit_scale vs -> wf_vars vs -> wf_cons vs cs -> length lam = length cs ->
  kkt vs (combine cs lam) x ->
  kkt (shift_vars t vs) (combine cs lam) (shift_place t x) /\
  (forall z, feasible (shift_vars t vs) cs z ->
     obj (shift_vars t vs) (shift_place t x) <= obj (shift_vars t vs) z) /\
  (forall lam' y, length lam' = length cs -> kkt (shift_vars t vs) (combine cs lam') y ->
     forall i, (i < length vs)%nat -> y i == x i + t).
Proof.
  intros U WV WC Hl K.
  pose proof (kkt_shift t vs (combine cs lam) x U (wf_lcons_combine _ _ _ WC) K) as K'.
  split; [exact K'|]. split.
  - intros z Fz.
    exact (proj1 (kkt_sufficient (shift_vars t vs) cs lam (shift_place t x)
                    (wf_vars_shift t vs WV) (wf_cons_shift t vs cs WC) K' z Fz)).
  - intros lam' y Hl' Ky i Hi.
    assert (Hi' : (i < length (shift_vars t vs))%nat) by (rewrite shift_vars_length; exact Hi).
    pose proof (kkt_unique (shift_vars t vs) cs lam' lam y (shift_place t x)
                  (wf_vars_shift t vs WV) (wf_cons_shift t vs cs WC) Hl' Hl Ky K' i Hi') as E.
    exact E.
Qed.

Definition unit_scaleb (vs : list var) : bool := forallb (fun v => Qeqb (scl v) 1) vs.
Lemma unit_scaleb_spec vs : unit_scaleb vs = true -> unit_scale vs.
Proof.
  unfold unit_scaleb, unit_scale, vget. rewrite forallb_forall. intros H i Hi.
  apply Qeqb_spec. apply H. apply nth_In. exact Hi.
Qed.

(* executable version: two runs, one on the translated instance, both passing the certificate *)
Theorem vpsc_translate_checked t vs cs xs lam ys lam' :
  unit_scaleb vs = true ->
  kkt_ok vs cs xs lam = true -> kkt_ok (shift_vars t vs) cs ys lam' = true ->
  forall i, (i < length vs)%nat -> nth i ys 0 == nth i xs 0 + t.
Proof.
  intros U K K' i Hi. apply unit_scaleb_spec in U.
  destruct (kkt_ok_inv _ _ _ _ K) as (WV & WC & Hl & _ & Kx).
  destruct (kkt_ok_inv _ _ _ _ K') as (_ & _ & Hl' & _ & Ky).
  destruct (vpsc_translate t vs cs lam (place_of xs) U WV WC Hl Kx) as (_ & _ & Un).
  exact (Un lam' (place_of ys) Hl' Ky i Hi).
Qed.

(* ------------------------------------------------------------------ non-vacuity *)
(* three variables, two constraints; the renumbered problem swaps variables 0 and 2 and lists the constraints in
   the other order *)
Definition pe_vs := [mkvar 0 1 1; mkvar 0 2 1; mkvar 1 1 1].
Definition pe_cs := [mkcon 0 1 2 false; mkcon 1 2 1 false].
Definition pe_vs' := [mkvar 1 1 1; mkvar 0 2 1; mkvar 0 1 1].
Definition pe_cs' := [mkcon 1 0 1 false; mkcon 2 1 2 false].
Example permute_example :
  exists xs lam ys lam',
    kkt_ok pe_vs pe_cs xs lam = true /\ kkt_ok pe_vs' pe_cs' ys lam' = true /\
    renumbering_okb pe_vs pe_cs pe_vs' pe_cs' [2%nat; 1%nat; 0%nat] [2%nat; 1%nat; 0%nat] = true /\
    ~ nth 0 xs 0 == nth 0 ys 0.
Proof.
  exists [-3#2; 1#2; 3#2], [3; 1], [3#2; 1#2; -3#2], [1; 3].
  repeat split; try (vm_compute; reflexivity). vm_compute. discriminate.
Qed.
Example translate_example :
  kkt_ok pe_vs pe_cs [-3#2; 1#2; 3#2] [3; 1] = true /\
  kkt_ok (shift_vars (10#1) pe_vs) pe_cs [17#2; 21#2; 23#2] [3; 1] = true /\ unit_scaleb pe_vs = true.
Proof. repeat split; vm_compute; reflexivity. Qed.
