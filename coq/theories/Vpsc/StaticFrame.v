(* Frame facts about the static Solver model (Vpsc/StaticModel.v): which functions leave the VpscModel part `base` of the
   state alone (all heap / time-stamp bookkeeping), that no function changes the PROBLEM (svars, scons), and what a
   normal return of the closing scans means:
     static_satisfy_scan / static_solve_scan : Ok s'  ->  every constraint has slack >= -1e-10 in s'. *)
From Adapt Require Import Num.Qaux Vpsc.VpscSpec Vpsc.VpscModel Vpsc.VpscInv Vpsc.VpscFrame Vpsc.VpscWalks Vpsc.StaticModel.
Local Open Scope Q_scope.

(* ------------------------------------------------------------------ generic *)
Lemma fold_left_inv {X A} (f : X -> A -> X) (P : X -> Prop) (l : list A) :
  (forall x a, In a l -> P x -> P (f x a)) -> forall x, P x -> P (fold_left f l x).
Proof.
  induction l as [|a t IH]; intros H x Px; cbn [fold_left]; [exact Px|].
  apply IH; [intros y b Hb; apply H; right; exact Hb | apply H; [left; reflexivity | exact Px]].
Qed.

(* ------------------------------------------------------------------ instrumentation and heap bookkeeping keep `base` *)
Lemma base_snote_b s t : base (snote_b s t) = base s.
Proof. destruct t; reflexivity. Qed.
Lemma base_snote s a b : base (snote s a b) = base s.
Proof. unfold snote. destruct (Qltb _ _); reflexivity. Qed.
Lemma base_snote_slack e s c z : base (snote_slack e s c z) = base s.
Proof. unfold snote_slack. destruct (_ && _); reflexivity. Qed.
Lemma base_set_heap s inn b h : base (set_heap s inn b h) = base s.
Proof. destruct inn; reflexivity. Qed.
Lemma base_s_insert s h c : base (fst (s_insert s h c)) = base s.
Proof. unfold s_insert. destruct (h_insert _ _ h c) as [h' t]. cbn [fst]. apply base_snote_b. Qed.
Lemma base_s_delete_min s h : base (fst (s_delete_min s h)) = base s.
Proof. unfold s_delete_min. destruct (h_delete_min _ _ h) as [h' t]. cbn [fst]. apply base_snote_b. Qed.
Lemma base_s_merge s h g : base (fst (s_merge s h g)) = base s.
Proof. unfold s_merge. destruct (h_merge _ _ h g) as [h' t]. cbn [fst]. apply base_snote_b. Qed.

Lemma base_heap_add b inn acc c : base (fst (heap_add b inn acc c)) = base (fst acc).
Proof.
  unfold heap_add. destruct acc as [s1 h1]. cbn [fst].
  destruct (if inn then _ else _); [rewrite base_s_insert|]; reflexivity.
Qed.
Lemma base_set_up_heap inn s b : base (set_up_heap inn s b) = base s.
Proof.
  unfold set_up_heap.
  match goal with |- context [fold_left ?f ?l ?a] =>
    assert (E : base (fst (fold_left f l a)) = base s) end.
  { apply (fold_left_inv _ (fun acc => base (fst acc) = base s)); [|reflexivity].
    intros acc v _ Hacc.
    apply (fold_left_inv _ (fun acc => base (fst acc) = base s)); [|exact Hacc].
    intros acc' c _ H'. rewrite base_heap_add. exact H'. }
  match goal with |- context [fold_left ?f ?l ?a] => destruct (fold_left f l a) as [s' h] end.
  cbn [fst] in E. rewrite base_set_heap. exact E.
Qed.

Lemma fmi_loop_base : forall fuel s h ood s' h' ood',
  fmi_loop fuel s h ood = Ok (s', h', ood') -> base s' = base s.
Proof.
  induction fuel as [|f IH]; intros s h ood s' h' ood' H; [discriminate|].
  cbn [fmi_loop] in H. destruct h as [[v kids]|]; [|inversion H; reflexivity].
  destruct (Nat.eqb _ _).
  - destruct (s_delete_min s (Some (PH v kids))) as [s1 h1] eqn:E.
    rewrite (IH _ _ _ _ _ _ H). rewrite <- (base_s_delete_min s (Some (PH v kids))), E. reflexivity.
  - destruct (Nat.ltb _ _).
    + destruct (s_delete_min s (Some (PH v kids))) as [s1 h1] eqn:E.
      rewrite (IH _ _ _ _ _ _ H). rewrite <- (base_s_delete_min s (Some (PH v kids))), E. reflexivity.
    + inversion H. reflexivity.
Qed.
Lemma base_reinsert acc v : base (fst (reinsert acc v)) = base (fst acc).
Proof. destruct acc as [s h]. unfold reinsert. rewrite base_s_insert. reflexivity. Qed.
Lemma find_min_in_base s b s' c : find_min_in s b = Ok (s', c) -> base s' = base s.
Proof.
  unfold find_min_in. destruct (bin_of s b) as [h|]; [|discriminate]. intros H.
  apply bind_ok in H. destruct H as [[[s1 h1] ood] [H1 H2]].
  apply fmi_loop_base in H1.
  assert (E : base (fst (fold_left reinsert ood (s1, h1))) = base s1).
  { apply (fold_left_inv _ (fun acc => base (fst acc) = base s1)); [|reflexivity].
    intros acc v _ Ha. rewrite base_reinsert. exact Ha. }
  destruct (fold_left reinsert ood (s1, h1)) as [s2 h2]. cbn [fst] in E.
  inversion H2. cbn [base set_bin]. congruence.
Qed.
Lemma fmo_loop_base : forall fuel s h s' h', fmo_loop fuel s h = Ok (s', h') -> base s' = base s.
Proof.
  induction fuel as [|f IH]; intros s h s' h' H; [discriminate|].
  cbn [fmo_loop] in H. destruct h as [[v kids]|]; [|inversion H; reflexivity].
  destruct (Nat.eqb _ _).
  - destruct (s_delete_min s (Some (PH v kids))) as [s1 h1] eqn:E.
    rewrite (IH _ _ _ _ H). rewrite <- (base_s_delete_min s (Some (PH v kids))), E. reflexivity.
  - inversion H. reflexivity.
Qed.
Lemma find_min_out_base s b s' c : find_min_out s b = Ok (s', c) -> base s' = base s.
Proof.
  unfold find_min_out. destruct (bout_of s b) as [h|]; [|discriminate]. intros H.
  apply bind_ok in H. destruct H as [[s1 h1] [H1 H2]].
  apply fmo_loop_base in H1. inversion H2. cbn [base set_bout]. exact H1.
Qed.
Lemma delete_min_base inn s b s' : delete_min inn s b = Ok s' -> base s' = base s.
Proof.
  unfold delete_min. destruct (heap_of s inn b) as [h|]; [|discriminate].
  destruct (s_delete_min s h) as [s1 h1] eqn:E. intros H. inversion H.
  rewrite base_set_heap. rewrite <- (base_s_delete_min s h), E. reflexivity.
Qed.
Lemma merge_heaps_base inn s r l s' : merge_heaps inn s r l = Ok s' -> base s' = base s.
Proof.
  unfold merge_heaps. intros H.
  apply bind_ok in H. destruct H as [[s1 c1] [H1 H]].
  apply bind_ok in H. destruct H as [[s2 c2] [H2 H]]. cbn [fst] in *.
  assert (E1 : base s1 = base s) by (destruct inn; [eapply find_min_in_base | eapply find_min_out_base]; exact H1).
  assert (E2 : base s2 = base s1) by (destruct inn; [eapply find_min_in_base | eapply find_min_out_base]; exact H2).
  destruct (heap_of s2 inn r) as [hr|]; [|discriminate]. destruct (heap_of s2 inn l) as [hl|]; [|discriminate].
  destruct (s_merge s2 hr hl) as [s3 h] eqn:E. inversion H.
  rewrite !base_set_heap. rewrite <- E1, <- E2, <- (base_s_merge s2 hr hl), E. reflexivity.
Qed.

(* ------------------------------------------------------------------ the problem (svars, scons) never changes *)
Definition keepP (b b' : st) : Prop := svars b' = svars b /\ scons b' = scons b.
Lemma keepP_refl b : keepP b b. Proof. split; reflexivity. Qed.
Lemma keepP_trans a b c : keepP a b -> keepP b c -> keepP a c.
Proof. intros [A B] [C D]. split; congruence. Qed.

Lemma mstep_keepP t d s v : keepP s (mstep t d s v).
Proof. split; reflexivity. Qed.
Lemma merge_into_keepP s t b c d : keepP s (merge_into s t b c d).
Proof.
  rewrite merge_into_unfold.
  set (s1 := set_cact s (upd_nth (cact s) c true)).
  assert (K : keepP s (fold_left (mstep t d) (bvars (block_of s1 b)) s1)).
  { apply (fold_left_inv _ (keepP s)); [|split; reflexivity].
    intros x a _ Hx. apply (keepP_trans _ x); [exact Hx | apply mstep_keepP]. }
  destruct K as [A B]. split; [exact A | exact B].
Qed.
Lemma update_weighted_position_keepP s b : keepP s (update_weighted_position s b).
Proof.
  unfold update_weighted_position.
  destruct (fold_left (stats_add s) (bvars (block_of s b)) (bscale (block_of s b), 0, 0, 0)) as [[[sc ab] ad] a2].
  split; reflexivity.
Qed.
Lemma lm_only_keepP s s' : lm_only s s' -> keepP s s'.
Proof. intros L. destruct (lm_only_fields s s' L) as [A [B _]]. split; assumption. Qed.

(* ---- mergeLeft / mergeRight *)
Lemma ml_body_base s r c s' r' c' :
  ml_body s r c = Ok (s', r', c') ->
  exists t b d, base s' = merge_into (base s) t b c d /\ r' = t.
Proof.
  unfold ml_body. intros H.
  apply bind_ok in H. destruct H as [s1 [H1 H]].
  apply delete_min_base in H1.
  set (l := lblk s1 c) in *.
  set (s2 := match bin_of s1 l with None => set_up_heap true s1 l | Some _ => s1 end) in *.
  assert (E2 : base s2 = base s).
  { unfold s2. destruct (bin_of s1 l); [exact H1 | rewrite base_set_up_heap; exact H1]. }
  apply bind_ok in H. destruct H as [s5 [H5 H]].
  apply merge_heaps_base in H5. cbn [base set_base set_ctr] in H5.
  apply bind_ok in H. destruct H as [[s9 c9] [H9 H]].
  apply find_min_in_base in H9. cbn [base set_btime] in H9.
  inversion H. subst s' r' c'. cbn [fst].
  eexists _, _, _. split; [|reflexivity].
  rewrite H9, H5, E2. unfold l. rewrite !H1. reflexivity.
Qed.
Lemma ml_loop_keepP : forall fuel s r c s', ml_loop fuel s r c = Ok s' -> keepP (base s) (base s').
Proof.
  induction fuel as [|f IH]; intros s r c s' H; [discriminate|].
  cbn [ml_loop] in H. destruct c as [c0|]; [|inversion H; apply keepP_refl].
  set (s0 := snote_slack TIE_EPS s c0 0) in *.
  assert (E0 : base s0 = base s) by apply base_snote_slack.
  destruct (Qltb (sslack s0 c0) 0).
  - apply bind_ok in H. destruct H as [[[s1 r1] c1] [H1 H2]].
    destruct (ml_body_base _ _ _ _ _ _ H1) as [t [b [d [E _]]]].
    apply (keepP_trans _ (base s1)); [|exact (IH _ _ _ _ H2)].
    rewrite E, E0. apply merge_into_keepP.
  - inversion H. subst s'. rewrite E0. apply keepP_refl.
Qed.
Lemma merge_left_keepP s r s' : merge_left s r = Ok s' -> keepP (base s) (base s').
Proof.
  unfold merge_left. intros H. apply bind_ok in H. destruct H as [[s1 c1] [H1 H2]].
  apply find_min_in_base in H1. rewrite base_set_up_heap in H1. cbn [base set_btime set_ctr] in H1.
  apply ml_loop_keepP in H2. cbn [fst] in H2. rewrite H1 in H2. exact H2.
Qed.

Lemma mr_body_base s l c s' l' c' :
  mr_body s l c = Ok (s', l', c') ->
  exists t b d, base s' = merge_into (base s) t b c d /\ l' = t.
Proof.
  unfold mr_body. intros H.
  apply bind_ok in H. destruct H as [s1 [H1 H]].
  apply delete_min_base in H1.
  apply bind_ok in H. destruct H as [s5 [H5 H]].
  apply merge_heaps_base in H5. cbn [base set_base] in H5.
  apply bind_ok in H. destruct H as [[s9 c9] [H9 H]].
  apply find_min_out_base in H9.
  inversion H. subst s' l' c'. cbn [fst].
  eexists _, _, _. split; [|reflexivity].
  rewrite H9, H5. rewrite base_set_up_heap, H1. reflexivity.
Qed.
Lemma mr_loop_keepP : forall fuel s l c s', mr_loop fuel s l c = Ok s' -> keepP (base s) (base s').
Proof.
  induction fuel as [|f IH]; intros s l c s' H; [discriminate|].
  cbn [mr_loop] in H. destruct c as [c0|]; [|inversion H; apply keepP_refl].
  set (s0 := snote_slack TIE_EPS s c0 0) in *.
  assert (E0 : base s0 = base s) by apply base_snote_slack.
  destruct (Qltb (sslack s0 c0) 0).
  - apply bind_ok in H. destruct H as [[[s1 r1] c1] [H1 H2]].
    destruct (mr_body_base _ _ _ _ _ _ H1) as [t [b [d [E _]]]].
    apply (keepP_trans _ (base s1)); [|exact (IH _ _ _ _ H2)].
    rewrite E, E0. apply merge_into_keepP.
  - inversion H. subst s'. rewrite E0. apply keepP_refl.
Qed.
Lemma merge_right_keepP s l s' : merge_right s l = Ok s' -> keepP (base s) (base s').
Proof.
  unfold merge_right. intros H. apply bind_ok in H. destruct H as [[s1 c1] [H1 H2]].
  apply find_min_out_base in H1. rewrite base_set_up_heap in H1.
  apply mr_loop_keepP in H2. cbn [fst] in H2. rewrite H1 in H2. exact H2.
Qed.

(* ---- satisfy *)
Lemma fold_res_keepP {A} (g : sst -> A -> res sst) :
  (forall s a s', g s a = Ok s' -> keepP (base s) (base s')) ->
  forall l acc s', fold_left (fun acc a => bind acc (fun s => g s a)) l acc = Ok s' ->
    exists s1, acc = Ok s1 /\ keepP (base s1) (base s').
Proof.
  intros Hg. induction l as [|a l IH]; intros acc s' H; cbn [fold_left] in H.
  - exists s'. split; [exact H | apply keepP_refl].
  - destruct (IH _ _ H) as [s2 [H2 R2]]. apply bind_ok in H2. destruct H2 as [s1 [H1 G]].
    exists s1. split; [exact H1|]. apply (keepP_trans _ (base s2)); [apply (Hg _ _ _ G) | exact R2].
Qed.
Lemma merge_pass_keepP s s' : merge_pass s = Ok s' -> keepP (base s) (base s').
Proof.
  unfold merge_pass. intros H. apply bind_ok in H. destruct H as [order [_ H]].
  change (fold_left sat_visit order (Ok s)) with
    (fold_left (fun acc v => bind acc (fun s => let b := blk_of (base s) v in
                                                if dead (block_of (base s) b) then Ok s else merge_left s b)) order (Ok s)) in H.
  apply fold_res_keepP in H.
  - destruct H as [s1 [E K]]. inversion E. subst s1. exact K.
  - intros x v x' G. cbv zeta in G. destruct (dead _); [inversion G; apply keepP_refl | exact (merge_left_keepP _ _ _ G)].
Qed.

Lemma note_scan_base s : base (note_scan s) = base s.
Proof.
  unfold note_scan. apply (fold_left_inv _ (fun x => base x = base s)); [|reflexivity].
  intros x c _ Hx. rewrite base_snote_slack. exact Hx.
Qed.
Definition all_sat_tol (b : st) : Prop :=
  forall c, (c < length (scons b))%nat -> ZERO_UPPERBOUND <= slack_val b c.
Lemma sfinal_scan_ok s s' : sfinal_scan s = Ok s' -> s' = s /\ all_sat_tol (base s).
Proof.
  unfold sfinal_scan. destruct (find _ _) as [c|] eqn:F; [discriminate|]. intros H. inversion H. split; [reflexivity|].
  intros c Hc. pose proof (find_none _ _ F c) as N. cbv beta in N.
  assert (Hin : In c (seq 0 (length (scons (base s'))))) by (apply in_seq; lia).
  subst s'. specialize (N Hin). unfold sslack in N. apply Qltb_false in N. exact N.
Qed.

Theorem static_satisfy_scan s s' :
  static_satisfy s = Ok s' -> all_sat_tol (base s') /\ keepP (base s) (base s').
Proof.
  unfold static_satisfy. intros H. apply bind_ok in H. destruct H as [s1 [H1 H2]].
  apply sfinal_scan_ok in H2. destruct H2 as [-> A]. split; [exact A|].
  rewrite note_scan_base. cbn [base set_base].
  apply merge_pass_keepP in H1. destruct H1 as [P Q]. split; [exact P | exact Q].
Qed.

(* ---- split / refine / solve *)
Lemma static_split_keepP s b c s' : static_split s b c = Ok s' -> keepP (base s) (base s').
Proof.
  unfold static_split. intros H. apply bind_ok in H. destruct H as [[[bs l] r] [H1 H]].
  destruct (split_keeps_offsets _ _ _ _ _ _ H1) as [_ [A [B _]]].
  apply bind_ok in H. destruct H as [s4 [H4 H]].
  apply merge_left_keepP in H4. cbn [base set_base pad2 set_bout set_bin set_btime] in H4.
  apply bind_ok in H. destruct H as [s6 [H6 H]].
  apply merge_right_keepP in H6. cbn [base set_base] in H6.
  inversion H. subst s'. cbn [base set_base].
  destruct H4 as [P4 Q4]. destruct H6 as [P6 Q6].
  destruct (update_weighted_position_keepP (base s4) (rblk s4 c)) as [P5 Q5].
  change (svars (base s4) = svars bs) in P4. change (scons (base s4) = scons bs) in Q4.
  split; [change (svars (base s6) = svars (base s)) | change (scons (base s6) = scons (base s))]; congruence.
Qed.

Lemma refine_scan_keepP : forall bl s s' d, refine_scan bl s = Ok (s', d) -> keepP (base s) (base s').
Proof.
  induction bl as [|b t IH]; intros s s' d H; cbn [refine_scan] in H; [inversion H; apply keepP_refl|].
  apply bind_ok in H. destruct H as [[mn bs] [H1 H]].
  destruct (find_min_lm_spec _ _ _ _ H1) as [L _]. apply lm_only_keepP in L.
  destruct mn as [c|].
  - set (s2 := snote (set_base s bs) (lm_of (base (set_base s bs)) c) LAGRANGIAN_TOLERANCE) in *.
    assert (E2 : base s2 = bs) by (unfold s2; rewrite base_snote; reflexivity).
    destruct (Qltb _ _).
    + apply bind_ok in H. destruct H as [s3 [H3 H]]. inversion H. subst s' d. cbn [base set_base].
      apply static_split_keepP in H3. rewrite E2 in H3.
      apply (keepP_trans _ bs); [exact L|]. destruct H3 as [P Q]. split; cbn [cleanup set_blist svars scons]; assumption.
    + apply IH in H. rewrite E2 in H. apply (keepP_trans _ bs); assumption.
  - apply IH in H. cbn [base set_base] in H. apply (keepP_trans _ bs); assumption.
Qed.
Lemma setup_all_base s : base (setup_all s) = base s.
Proof.
  unfold setup_all. apply (fold_left_inv _ (fun x => base x = base s)); [|reflexivity].
  intros x b _ Hx. rewrite !base_set_up_heap. exact Hx.
Qed.
Lemma refine_pass_keepP s s' d : refine_pass s = Ok (s', d) -> keepP (base s) (base s').
Proof.
  unfold refine_pass. intros H. apply refine_scan_keepP in H. rewrite setup_all_base in H. exact H.
Qed.
Lemma refine_loop_keepP : forall tries s s', refine_loop tries s = Ok s' -> keepP (base s) (base s').
Proof.
  induction tries as [|t IH]; intros s s' H; cbn [refine_loop] in H; [inversion H; apply keepP_refl|].
  apply bind_ok in H. destruct H as [[s1 d] [H1 H]]. cbn [fst snd] in H.
  apply refine_pass_keepP in H1. destruct d.
  - apply (keepP_trans _ (base s1)); [exact H1 | exact (IH _ _ H)].
  - inversion H. subst s'. exact H1.
Qed.
Theorem static_refine_scan s s' :
  static_refine s = Ok s' -> all_sat_tol (base s') /\ keepP (base s) (base s').
Proof.
  unfold static_refine. intros H. apply bind_ok in H. destruct H as [s1 [H1 H2]].
  apply sfinal_scan_ok in H2. destruct H2 as [-> A]. split; [exact A|].
  rewrite note_scan_base. exact (refine_loop_keepP _ _ _ H1).
Qed.
Theorem static_solve_scan s s' :
  static_solve s = Ok s' -> all_sat_tol (base s') /\ keepP (base s) (base s').
Proof.
  unfold static_solve. intros H. apply bind_ok in H. destruct H as [s1 [H1 H2]].
  destruct (static_satisfy_scan _ _ H1) as [_ K1]. destruct (static_refine_scan _ _ H2) as [A K2].
  split; [exact A | exact (keepP_trans _ _ _ K1 K2)].
Qed.

(* in declarative terms (VpscSpec.slackv on the returned positions): every constraint of the INPUT problem holds up
   to 1e-10 on the positions the solver returns *)
Lemma init_problem vs cs : svars (init vs cs) = vs /\ scons (init vs cs) = cs.
Proof.
  rewrite init_unfold.
  match goal with |- context [fold_left ?f ?l ?a] =>
    assert (K : keepP a (fold_left f l a)) end.
  { apply (fold_left_inv _ (keepP _)); [|apply keepP_refl].
    intros x v _ Kx. apply (keepP_trans _ x); [exact Kx|]. split; reflexivity. }
  destruct K as [A B]. split; [rewrite A | rewrite B]; reflexivity.
Qed.

Theorem static_solve_sat_tol vs cs s' :
  wf_cons vs cs ->
  static_solve (static_init vs cs) = Ok s' ->
  length (static_positions s') = length vs /\
  forall k, In k cs -> ZERO_UPPERBOUND <= slackv vs (place_of (static_positions s')) k.
Proof.
  intros W H. destruct (static_solve_scan _ _ H) as [A [Kv Kc]].
  cbn [static_init base] in Kv, Kc. destruct (init_problem vs cs) as [Iv Ic]. rewrite Iv in Kv. rewrite Ic in Kc.
  split.
  - unfold static_positions, final_positions. rewrite map_length, seq_length, Kv. reflexivity.
  - intros k Hk. destruct (In_nth _ _ dcon Hk) as [c [Hc E]].
    assert (Hc' : (c < length (scons (base s')))%nat) by (rewrite Kc; exact Hc).
    pose proof (A c Hc') as S.
    destruct (W k Hk) as [Hl Hr].
    assert (Ek : con_of (base s') c = k) by (unfold con_of; rewrite Kc; exact E).
    rewrite (slack_val_declarative (base s') c) in S; rewrite ?Ek, ?Kv; auto.
    rewrite Ek, Kv in S. exact S.
Qed.
Theorem static_satisfy_sat_tol vs cs s' :
  wf_cons vs cs ->
  static_satisfy (static_init vs cs) = Ok s' ->
  length (static_positions s') = length vs /\
  forall k, In k cs -> ZERO_UPPERBOUND <= slackv vs (place_of (static_positions s')) k.
Proof.
  intros W H. destruct (static_satisfy_scan _ _ H) as [A [Kv Kc]].
  cbn [static_init base] in Kv, Kc. destruct (init_problem vs cs) as [Iv Ic]. rewrite Iv in Kv. rewrite Ic in Kc.
  split.
  - unfold static_positions, final_positions. rewrite map_length, seq_length, Kv. reflexivity.
  - intros k Hk. destruct (In_nth _ _ dcon Hk) as [c [Hc E]].
    assert (Hc' : (c < length (scons (base s')))%nat) by (rewrite Kc; exact Hc).
    pose proof (A c Hc') as S.
    destruct (W k Hk) as [Hl Hr].
    assert (Ek : con_of (base s') c = k) by (unfold con_of; rewrite Kc; exact E).
    rewrite (slack_val_declarative (base s') c) in S; rewrite ?Ek, ?Kv; auto.
    rewrite Ek, Kv in S. exact S.
Qed.

Lemma static_solve_length vs cs s' :
  static_solve (static_init vs cs) = Ok s' -> length (static_positions s') = length vs.
Proof.
  intros H. destruct (static_solve_scan _ _ H) as [_ [Kv _]].
  cbn [static_init base] in Kv. destruct (init_problem vs cs) as [Iv _]. rewrite Iv in Kv.
  unfold static_positions, final_positions. rewrite map_length, seq_length, Kv. reflexivity.
Qed.
