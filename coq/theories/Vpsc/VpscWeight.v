(* The weight-changing edit of VpscModelW.v preserves the proved invariant of the IncSolver model
     inv s = book s /\ act_inv s /\ forest s /\ trich s          (VpscReach.v)
   (none of the four reads a weight), hence the invariant and its consequences - satisfy()/solve() never leave by the
   final-scan throw, every returned state has all unflagged constraints satisfied, active ones tight - hold for every
   history over the five ops  addConstraint / desired position / weight / solve / satisfy  (`reachable_w`).
   Follows VpscInv.set_desired_preserves.
   NOT proved for weight histories: the block-statistics invariant of VpscStats.v (all_ok: A2 = sum over the block with
   the CURRENT weights) - it is false for blocks whose sums were accumulated before the weight changed (deleted blocks;
   live blocks until the next moveBlocks); its weight-independent part (A2 > 0, VpscModelW.stats_posb) is evaluated by
   the extracted model on every visited state of every run. *)
From Adapt Require Import Num.Qaux Vpsc.VpscSpec Vpsc.VpscModel Vpsc.VpscInv Vpsc.VpscFrame Vpsc.VpscTree
  Vpsc.VpscPopulate Vpsc.VpscForest Vpsc.VpscWalks Vpsc.VpscTrichotomy Vpsc.VpscReach Vpsc.VpscInvB Vpsc.VpscModelW.
Local Open Scope Q_scope.

Theorem set_weight_preserves s i w : book s -> act_inv s -> book (set_weight s i w) /\ act_inv (set_weight s i w).
Proof.
  intros BK AI. split.
  - destruct BK as [K1 K2 K3 K4 K5 K6 K7].
    assert (L : length (svars (set_weight s i w)) = length (svars s)) by (cbn; apply upd_nth_length).
    constructor; rewrite ?L; try assumption.
    intros c Hc. rewrite L. exact (K7 c Hc).
  - apply (act_inv_frame s); try reflexivity. exact AI.
Qed.
Theorem set_weight_forest s i w : forest s -> forest (set_weight s i w).
Proof. apply forest_frame; try reflexivity. cbn. apply upd_nth_length. Qed.
Theorem set_weight_trich s i w : trich s -> trich (set_weight s i w).
Proof. apply trich_frame; reflexivity. Qed.
Theorem set_weight_inv s i w : inv s -> inv (set_weight s i w).
Proof.
  intros [A B C D]. destruct (set_weight_preserves s i w A B) as [A' B'].
  constructor; [exact A' | exact B' | apply set_weight_forest; exact C | apply set_weight_trich; exact D].
Qed.

(* the edit touches nothing but the weight of variable i *)
Lemma set_weight_var s i w j :
  (i < length (svars s))%nat ->
  var_of (set_weight s i w) j = if Nat.eqb j i then mkvar (des (var_of s i)) w (scl (var_of s i)) else var_of s j.
Proof.
  intros Hi. unfold set_weight, var_of, vget. cbn [svars set_svars].
  destruct (Nat.eqb_spec j i) as [->|N].
  - rewrite nth_upd_nth_eq by exact Hi. reflexivity.
  - rewrite nth_upd_nth_neq by (intros E; apply N; symmetry; exact E). reflexivity.
Qed.
Lemma set_weight_positions s i w : final_positions (set_weight s i w) = final_positions s.
Proof.
  unfold final_positions. cbn [set_weight svars set_svars]. rewrite upd_nth_length.
  apply map_ext. intros v. unfold position, var_of, vget, set_weight. cbn [svars set_svars blocks vblk voff block_of blk_of off_of].
  destruct (Nat.eq_dec i v) as [->|N].
  - destruct (Nat.lt_ge_cases v (length (svars s))) as [L|L].
    + rewrite nth_upd_nth_eq by exact L. reflexivity.
    + rewrite !nth_overflow; [reflexivity | exact L | rewrite upd_nth_length; exact L].
  - rewrite nth_upd_nth_neq by exact N. reflexivity.
Qed.
Theorem set_weight_wf_vars s i w : 0 < w -> wf_vars (svars s) -> wf_vars (svars (set_weight s i w)).
Proof.
  intros Hw W j Hj. cbn [set_weight svars set_svars] in *. rewrite upd_nth_length in Hj. unfold vget.
  destruct (Nat.eq_dec i j) as [->|N].
  - rewrite nth_upd_nth_eq by exact Hj. cbn [wt scl]. split; [exact Hw | exact (proj2 (W j Hj))].
  - rewrite nth_upd_nth_neq by exact N. exact (W j Hj).
Qed.

(* ------------------------------------------------------------------ histories over the five ops *)
Definition opw_ok (s : st) (o : opw) : Prop :=
  match o with
  | Base o' => op_ok s o'
  | SetWeight i w => 0 < w
  end.

Theorem step_w_inv fuel s o s' : inv s -> opw_ok s o -> step_w fuel s o = Ok s' -> inv s'.
Proof.
  intros I W H. destruct o as [o'|i w]; cbn in H.
  - exact (step_inv fuel s o' s' I W H).
  - inversion H. subst s'. apply set_weight_inv. exact I.
Qed.

Inductive reachable_w : st -> Prop :=
| reachw_init vs cs : wf_cons vs cs -> reachable_w (init vs cs)
| reachw_step s o fuel s' : reachable_w s -> opw_ok s o -> step_w fuel s o = Ok s' -> reachable_w s'.

Theorem reachable_reachable_w s : reachable s -> reachable_w s.
Proof.
  induction 1 as [vs cs W | s o fuel s' _ IH W H]; [apply reachw_init; exact W|].
  exact (reachw_step s (Base o) fuel s' IH W H).
Qed.
Theorem reachable_w_inv s : reachable_w s -> inv s.
Proof.
  induction 1 as [vs cs W | s o fuel s' _ IH W H]; [apply init_inv; exact W | exact (step_w_inv fuel s o s' IH W H)].
Qed.

(* satisfy()/solve() from a state of a weight history: the final scan never throws ... *)
Theorem no_final_throw_w fuel s p s2 :
  reachable_w s -> split_blocks s = Ok p -> satisfy_loop fuel (fst p) = Ok s2 ->
  final_scan (cleanup s2) = Ok (cleanup s2).
Proof. intros R. apply no_final_throw. apply reachable_w_inv. exact R. Qed.

(* ... and every state it returns satisfies every unflagged constraint (active ones and equalities exactly) *)
Theorem sat_on_return_w fuel s o s' :
  reachable_w s -> run_result o fuel s s' -> wf_vars (svars s') ->
  forall k, (k < length (scons s'))%nat -> uns_of s' k = false ->
    let sl := slackv (svars s') (place_of (final_positions s')) (con_of s' k) in
    ZERO_UPPERBOUND <= sl /\ (act_of s' k = true -> sl == 0) /\ (ceq (con_of s' k) = true -> sl == 0).
Proof.
  intros R RR WV k Hk Hu sl.
  pose proof (reachable_w_inv s R) as I.
  assert (RO : ret_ok s').
  { destruct o; cbn in RR; try contradiction; [exact (inc_solve_gen_ret true _ _ _ I RR) | exact (inc_satisfy_ret _ _ _ I RR)]. }
  destruct RO as [I' [XS XE]].
  destruct (sat_on_return_full fuel s o s' RR (bk_cons s' (i_book _ I')) WV (i_act _ I') k Hk Hu) as [A B].
  split; [exact A|]. split; [exact B|].
  intros EQ. apply B. destruct (act_of s' k) eqn:Ak; [reflexivity|]. exfalso.
  pose proof (t_cover s' (i_trich _ I') k Hk Ak Hu) as Hin. rewrite (XE k Hin) in EQ. discriminate.
Qed.

(* the active constraints of every block form a spanning tree and are tight in every state of a weight history: what
   the C02 certificate (multipliers supported on the real solver's active forest, current weights) relies on *)
Theorem active_forest_w s : reachable_w s -> forest s /\ act_inv s.
Proof. intros R. destruct (reachable_w_inv s R) as [_ B C _]. split; assumption. Qed.

(* non-vacuity: the pin idiom of the seeded demo (chain v0+1<=v1, v1+1<=v2, v0+3<=v3, all desired 10; solve; weight of
   v0 := 1000; solve) is a weight history; both solves return, the theorems apply, and the re-solve moves the result
   to the optimum for the NEW weights (9.994017..., not the 8.5 of the first solve) *)
Definition wex_vs : list var := [mkvar 10 1 1; mkvar 10 1 1; mkvar 10 1 1; mkvar 10 1 1].
Definition wex_cs : list con := [mkcon 0 1 1 false; mkcon 1 2 1 false; mkcon 0 3 3 false].
Definition wex_s1 : st := match step_w 100 (init wex_vs wex_cs) (Base Solve) with Ok s => s | _ => init [] [] end.
Definition wex_s2 : st := set_weight wex_s1 0 1000.
Definition wex_s3 : st := match step_w 100 wex_s2 (Base Solve) with Ok s => s | _ => init [] [] end.
Lemma wex_wfc : wf_cons wex_vs wex_cs.
Proof. intros c [<-|[<-|[<-|[]]]]; cbn; split; lia. Qed.
Example wex_reachable : reachable_w wex_s2 /\ reachable_w wex_s3.
Proof.
  assert (R1 : reachable_w wex_s1).
  { apply (reachw_step (init wex_vs wex_cs) (Base Solve) 100%nat); [apply reachw_init; exact wex_wfc | exact I | vm_compute; reflexivity]. }
  assert (R2 : reachable_w wex_s2).
  { apply (reachw_step wex_s1 (SetWeight 0 1000) 0%nat); [exact R1 | reflexivity | reflexivity]. }
  split; [exact R2|].
  apply (reachw_step wex_s2 (Base Solve) 100%nat); [exact R2 | exact I | vm_compute; reflexivity].
Qed.
Example weight_history_example :
  inv wex_s3 /\ all_invb_w wex_s3 = true /\
  final_positions wex_s1 = [17 # 2; 19 # 2; 21 # 2; 23 # 2] /\
  final_positions wex_s3 = [10024 # 1003; 11027 # 1003; 12030 # 1003; 13033 # 1003] /\
  (forall k, (k < 3)%nat -> slackv (svars wex_s3) (place_of (final_positions wex_s3)) (con_of wex_s3 k) == 0).
Proof.
  split; [exact (reachable_w_inv _ (proj2 wex_reachable))|].
  split; [vm_compute; reflexivity|]. split; [vm_compute; reflexivity|]. split; [vm_compute; reflexivity|].
  intros k Hk.
  assert (RR : run_result Solve 100 wex_s2 wex_s3) by (vm_compute; reflexivity).
  assert (WV : wf_vars (svars wex_s3)).
  { intros i Hi. change (length (svars wex_s3)) with 4%nat in Hi. destruct i as [|[|[|[|i]]]]; try lia; vm_compute; split; reflexivity. }
  assert (L : (k < length (scons wex_s3))%nat) by (change (length (scons wex_s3)) with 3%nat; exact Hk).
  assert (U : uns_of wex_s3 k = false /\ act_of wex_s3 k = true) by (destruct k as [|[|[|k]]]; try lia; vm_compute; auto).
  exact (proj1 (proj2 (sat_on_return_w 100 wex_s2 Solve wex_s3 (proj1 wex_reachable) RR WV k L (proj1 U))) (proj2 U)).
Qed.
