(* C01: invariants of the executable IncSolver model (Vpsc/VpscModel.v).
   Proved here (all for arbitrary n, m, rationals, histories):
   - sat_on_return: when inc_satisfy / inc_solve / step return Ok, every constraint that is neither active nor flagged
     has slack >= -1e-10 on the reported positions (read off the final scan / loop exit);
   - active_tight: under the invariant act_inv (an active constraint joins two variables of one block whose offsets
     differ by exactly its gap) every active constraint has slack == 0 -- merge shifts a block rigidly;
   - act_inv (with the bookkeeping invariant it needs) holds initially and is preserved by merge across two different
     blocks, most_violated, add_constraint, set_desired, flagging, cleanup, moving blocks.
   Not proved (named _partial below): preservation by split (needs: the active edges of a block form a tree). *)
From Adapt Require Import Num.Qaux Vpsc.VpscSpec Vpsc.VpscModel.
Local Open Scope Q_scope.

(* ------------------------------------------------------------------ list helpers *)
Lemma upd_nth_length {A} (l : list A) n v : length (upd_nth l n v) = length l.
Proof. revert n. induction l as [|h t IH]; intros [|n]; cbn; auto. Qed.
Lemma nth_upd_nth_eq {A} (l : list A) n v d : (n < length l)%nat -> nth n (upd_nth l n v) d = v.
Proof. revert n. induction l as [|h t IH]; intros [|n] H; cbn in *; try lia; auto; try (apply IH; lia). Qed.
Lemma nth_upd_nth_neq {A} (l : list A) n m v d : n <> m -> nth m (upd_nth l n v) d = nth m l d.
Proof.
  revert n m. induction l as [|h t IH]; intros [|n] [|m] H; cbn; auto; try congruence;
    try (apply IH; congruence).
Qed.

(* ------------------------------------------------------------------ sat_on_return *)
Definition inactive_sat (s : st) : Prop :=
  forall c, (c < length (scons s))%nat -> act_of s c = false -> uns_of s c = false ->
            ZERO_UPPERBOUND <= slack_val s c.

Lemma final_scan_ok s s' : final_scan s = Ok s' -> s' = s /\ inactive_sat s.
Proof.
  unfold final_scan.
  destruct (find _ (seq 0 (length (scons s)))) eqn:E; [discriminate|].
  intros [= <-]. split; [reflexivity|]. intros c Hc Ha Hu.
  pose proof (find_none _ _ E c) as N. cbv beta in N.
  assert (In c (seq 0 (length (scons s)))) by (apply in_seq; lia).
  specialize (N H). unfold slack in N. rewrite Ha, Hu in N. cbn in N.
  apply Qltb_false in N. exact N.
Qed.

Lemma bind_ok {A B} (r : res A) (f : A -> res B) b : bind r f = Ok b -> exists a, r = Ok a /\ f a = Ok b.
Proof. destruct r; cbn; intros H; try discriminate. eauto. Qed.

Lemma inc_satisfy_cnt_sat fuel s p : inc_satisfy_cnt fuel s = Ok p -> inactive_sat (fst p).
Proof.
  unfold inc_satisfy_cnt. intros H.
  apply bind_ok in H. destruct H as [p1 [_ H]].
  apply bind_ok in H. destruct H as [s2 [_ H]].
  apply bind_ok in H. destruct H as [s3 [H E]]. inversion E. subst p. cbn [fst].
  apply final_scan_ok in H. destruct H as [-> H]. exact H.
Qed.

Theorem inc_satisfy_sat fuel s s' : inc_satisfy fuel s = Ok s' -> inactive_sat s'.
Proof.
  unfold inc_satisfy. intros H. apply bind_ok in H. destruct H as [p [H E]]. inversion E. subst s'.
  exact (inc_satisfy_cnt_sat _ _ _ H).
Qed.

Lemma inactive_sat_note s a b : inactive_sat s -> inactive_sat (note s a b).
Proof. unfold note. destruct (Qltb _ _); [|auto]. intros H c. exact (H c). Qed.

Lemma solve_loop_sat fixed fuel sf : forall tries lc c cnt s s',
  inactive_sat s -> solve_loop fixed fuel sf tries lc c cnt s = Ok s' -> inactive_sat s'.
Proof.
  induction fuel as [|f IH]; intros tries lc c cnt s s' Hs H; [discriminate|].
  cbn [solve_loop] in H.
  set (s0 := match lc with Some l => note s (Qabs' (l - c)) COST_EPS | None => s end) in *.
  assert (Hs0 : inactive_sat s0) by (unfold s0; destruct lc; [apply inactive_sat_note|]; exact Hs).
  assert (Again : forall t, bind (inc_satisfy_cnt sf s0)
             (fun p => solve_loop fixed f sf t (Some c) (cost (fst p)) (snd p) (fst p)) = Ok s' -> inactive_sat s').
  { intros t G. apply bind_ok in G. destruct G as [p [G1 G2]].
    apply (IH _ _ _ _ _ _ (inc_satisfy_cnt_sat _ _ _ G1) G2). }
  destruct fixed.
  - destruct (_ || _).
    + destruct tries as [|t]; [inversion H; subst; exact Hs0 | exact (Again t H)].
    + inversion H. subst. exact Hs0.
  - destruct (match lc with None => true | Some l => Qltb COST_EPS (Qabs' (l - c)) end).
    + exact (Again tries H).
    + inversion H. subst. exact Hs0.
Qed.

Theorem inc_solve_gen_sat fixed fuel s s' : inc_solve_gen fixed fuel s = Ok s' -> inactive_sat s'.
Proof.
  unfold inc_solve_gen. intros H. apply bind_ok in H. destruct H as [p [H1 H]].
  exact (solve_loop_sat _ _ _ _ _ _ _ _ _ (inc_satisfy_cnt_sat _ _ _ H1) H).
Qed.
Theorem inc_solve_sat fuel s s' : inc_solve fuel s = Ok s' -> inactive_sat s'.
Proof. exact (inc_solve_gen_sat true fuel s s'). Qed.

(* the model's slack is the declarative slack of the reported positions *)
Lemma final_positions_nth s i :
  (i < length (svars s))%nat -> place_of (final_positions s) i = position s i.
Proof.
  intros H. unfold place_of, final_positions.
  rewrite (nth_indep _ 0 (position s 0)) by (rewrite map_length, seq_length; exact H).
  rewrite map_nth. rewrite seq_nth by exact H. reflexivity.
Qed.

Lemma slack_val_declarative s c :
  (cl (con_of s c) < length (svars s))%nat -> (cr (con_of s c) < length (svars s))%nat ->
  slack_val s c == slackv (svars s) (place_of (final_positions s)) (con_of s c).
Proof.
  intros Hl Hr. unfold slack_val, slackv. rewrite Qred_correct.
  rewrite !final_positions_nth by assumption. reflexivity.
Qed.

Definition run_result (o : op) (fuel : nat) (s s' : st) : Prop :=
  match o with Solve | Satisfy => step fuel s o = Ok s' | _ => False end.

(* C01_sat_on_return, the part read off the loop exit / final scan *)
Theorem sat_on_return fuel s o s' :
  run_result o fuel s s' ->
  wf_cons (svars s') (scons s') ->
  forall k, (k < length (scons s'))%nat -> act_of s' k = false -> uns_of s' k = false ->
    ZERO_UPPERBOUND <= slackv (svars s') (place_of (final_positions s')) (con_of s' k).
Proof.
  intros R W k Hk Ha Hu.
  assert (I : inactive_sat s').
  { destruct o; cbn in R; try contradiction; [exact (inc_solve_sat _ _ _ R) | exact (inc_satisfy_sat _ _ _ R)]. }
  assert (Hin : In (con_of s' k) (scons s')) by (unfold con_of; apply nth_In; exact Hk).
  destruct (W _ Hin) as [Hl Hr].
  rewrite <- (slack_val_declarative s' k Hl Hr). exact (I k Hk Ha Hu).
Qed.

(* ------------------------------------------------------------------ active => same block, offsets differ by the gap *)
Definition tight_off (s : st) (c : nat) : Prop :=
  off_of s (cr (con_of s c)) - off_of s (cl (con_of s c)) == gap (con_of s c).
Definition act_inv (s : st) : Prop :=
  forall c, act_of s c = true ->
    blk_of s (cl (con_of s c)) = blk_of s (cr (con_of s c)) /\ tight_off s c.

(* active_tight: an active constraint has slack exactly 0 (variables of one block move rigidly) *)
Theorem active_tight s c :
  act_inv s -> act_of s c = true ->
  ~ scl (var_of s (cl (con_of s c))) == 0 -> ~ scl (var_of s (cr (con_of s c))) == 0 ->
  slack_val s c == 0.
Proof.
  intros I A Nl Nr. destruct (I c A) as [Hb Ht]. unfold tight_off in Ht.
  unfold slack_val, position. rewrite !Qred_correct. rewrite <- Hb.
  set (P := bscale (block_of s (blk_of s (cl (con_of s c)))) * posn (block_of s (blk_of s (cl (con_of s c))))).
  set (sr := scl (var_of s (cr (con_of s c)))) in *. set (sl := scl (var_of s (cl (con_of s c)))) in *.
  assert (E1 : sr * ((P + off_of s (cr (con_of s c))) / sr) == P + off_of s (cr (con_of s c))) by (field; exact Nr).
  assert (E2 : sl * ((P + off_of s (cl (con_of s c))) / sl) == P + off_of s (cl (con_of s c))) by (field; exact Nl).
  rewrite E1, E2. lra.
Qed.

(* bookkeeping the preservation proofs need *)
Record book (s : st) : Prop := {
  bk_voff : length (voff s) = length (svars s);
  bk_vblk : length (vblk s) = length (svars s);
  bk_cact : length (cact s) = length (scons s);
  bk_blk  : forall v, (v < length (svars s))%nat -> (blk_of s v < length (blocks s))%nat;
  bk_mem  : forall v w, (v < length (svars s))%nat ->
              (In w (bvars (block_of s (blk_of s v))) <-> ((w < length (svars s))%nat /\ blk_of s w = blk_of s v));
  bk_nodup : forall v, (v < length (svars s))%nat -> NoDup (bvars (block_of s (blk_of s v)));
  bk_cons : wf_cons (svars s) (scons s) }.

(* act_inv and book only look at these parts of the state *)
Lemma act_inv_frame s s' :
  scons s' = scons s -> voff s' = voff s -> vblk s' = vblk s -> cact s' = cact s -> act_inv s -> act_inv s'.
Proof.
  intros E1 E2 E3 E4 I c. unfold act_inv, tight_off, act_of, blk_of, off_of, con_of in *.
  rewrite E1, E2, E3, E4. exact (I c).
Qed.
Lemma book_frame s s' :
  svars s' = svars s -> scons s' = scons s -> voff s' = voff s -> vblk s' = vblk s -> cact s' = cact s ->
  blocks s' = blocks s -> book s -> book s'.
Proof.
  intros E0 E1 E2 E3 E4 E5 [A B C D E F G].
  constructor; unfold blk_of, block_of in *; rewrite ?E0, ?E1, ?E2, ?E3, ?E4, ?E5; assumption.
Qed.

(* one step of the loop of Block::merge(b, c, dist) *)
Definition mstep (this : nat) (dist : Q) (s' : st) (v : nat) : st :=
  add_variable (set_voff s' (upd_nth (voff s') v (Qred (off_of s' v + dist)))) this v.

Lemma merge_into_unfold s this b c dist :
  merge_into s this b c dist =
  kill_block (fold_left (mstep this dist) (bvars (block_of (set_cact s (upd_nth (cact s) c true)) b))
                        (set_cact s (upd_nth (cact s) c true))) b.
Proof. reflexivity. Qed.

Record mfold_facts (t : nat) (d : Q) (vars : list nat) (s s2 : st) : Prop := {
  mf_scons : scons s2 = scons s;
  mf_svars : svars s2 = svars s;
  mf_cact : cact s2 = cact s;
  mf_lvoff : length (voff s2) = length (voff s);
  mf_lvblk : length (vblk s2) = length (vblk s);
  mf_lblocks : length (blocks s2) = length (blocks s);
  mf_in : forall v, In v vars -> off_of s2 v == off_of s v + d /\ blk_of s2 v = t;
  mf_out : forall v, ~ In v vars -> off_of s2 v = off_of s v /\ blk_of s2 v = blk_of s v;
  mf_this : bvars (block_of s2 t) = bvars (block_of s t) ++ vars;
  mf_other : forall B, B <> t -> block_of s2 B = block_of s B }.

Lemma mstep_facts t d s v :
  (v < length (voff s))%nat -> (v < length (vblk s))%nat -> (t < length (blocks s))%nat ->
  mfold_facts t d [v] s (mstep t d s v).
Proof.
  intros Hv1 Hv2 Ht. unfold mstep, add_variable, set_vblk, set_block, set_blocks, set_voff.
  constructor; cbn [scons svars cact voff vblk blocks]; try reflexivity.
  - apply upd_nth_length.
  - apply upd_nth_length.
  - apply upd_nth_length.
  - intros w [<-|[]]. unfold off_of, blk_of. cbn [voff vblk]. split.
    + rewrite nth_upd_nth_eq by exact Hv1. rewrite Qred_correct. reflexivity.
    + apply nth_upd_nth_eq. exact Hv2.
  - intros w Hw. assert (v <> w) by (intros ->; apply Hw; left; reflexivity).
    unfold off_of, blk_of. cbn [voff vblk]. split; apply nth_upd_nth_neq; assumption.
  - unfold block_of. cbn [blocks]. rewrite nth_upd_nth_eq by exact Ht. reflexivity.
  - intros B HB. unfold block_of. cbn [blocks]. apply nth_upd_nth_neq. congruence.
Qed.

Lemma mfold_spec t d : forall vars s,
  NoDup vars ->
  (forall v, In v vars -> (v < length (voff s))%nat /\ (v < length (vblk s))%nat) ->
  (t < length (blocks s))%nat ->
  mfold_facts t d vars s (fold_left (mstep t d) vars s).
Proof.
  induction vars as [|v vars IH]; intros s ND Hr Ht.
  - cbn. constructor; try reflexivity; try tauto.
    + intros v [].
    + rewrite app_nil_r. reflexivity.
  - cbn [fold_left]. inversion ND as [|? ? Hnv ND']. subst.
    destruct (Hr v (or_introl eq_refl)) as [Hv1 Hv2].
    pose proof (mstep_facts t d s v Hv1 Hv2 Ht) as F1.
    set (s1 := mstep t d s v) in *.
    assert (F2 : mfold_facts t d vars s1 (fold_left (mstep t d) vars s1)).
    { apply IH; [exact ND' | | rewrite (mf_lblocks _ _ _ _ _ F1); exact Ht].
      intros w Hw. rewrite (mf_lvoff _ _ _ _ _ F1), (mf_lvblk _ _ _ _ _ F1). apply Hr. right. exact Hw. }
    set (s2 := fold_left (mstep t d) vars s1) in *.
    constructor.
    + rewrite (mf_scons _ _ _ _ _ F2). apply (mf_scons _ _ _ _ _ F1).
    + rewrite (mf_svars _ _ _ _ _ F2). apply (mf_svars _ _ _ _ _ F1).
    + rewrite (mf_cact _ _ _ _ _ F2). apply (mf_cact _ _ _ _ _ F1).
    + rewrite (mf_lvoff _ _ _ _ _ F2). apply (mf_lvoff _ _ _ _ _ F1).
    + rewrite (mf_lvblk _ _ _ _ _ F2). apply (mf_lvblk _ _ _ _ _ F1).
    + rewrite (mf_lblocks _ _ _ _ _ F2). apply (mf_lblocks _ _ _ _ _ F1).
    + intros w [<-|Hw].
      * destruct (mf_out _ _ _ _ _ F2 v Hnv) as [A B]. destruct (mf_in _ _ _ _ _ F1 v (or_introl eq_refl)) as [A1 B1].
        rewrite A, B. split; assumption.
      * destruct (mf_in _ _ _ _ _ F2 w Hw) as [A B].
        assert (Hwv : ~ In w [v]) by (intros [->|[]]; contradiction).
        destruct (mf_out _ _ _ _ _ F1 w Hwv) as [A1 B1]. rewrite <- A1. split; assumption.
    + intros w Hw.
      assert (H1 : ~ In w vars) by (intros H; apply Hw; right; exact H).
      assert (H2 : ~ In w [v]) by (intros [->|[]]; apply Hw; left; reflexivity).
      destruct (mf_out _ _ _ _ _ F2 w H1) as [A B]. destruct (mf_out _ _ _ _ _ F1 w H2) as [A1 B1].
      rewrite A, B. split; assumption.
    + rewrite (mf_this _ _ _ _ _ F2), (mf_this _ _ _ _ _ F1). rewrite <- app_assoc. reflexivity.
    + intros B HB. rewrite (mf_other _ _ _ _ _ F2 B HB). apply (mf_other _ _ _ _ _ F1 B HB).
Qed.

Lemma NoDup_app_disjoint {A} (l l' : list A) :
  NoDup l -> NoDup l' -> (forall a, In a l -> ~ In a l') -> NoDup (l ++ l').
Proof.
  induction l as [|h t IH]; intros N1 N2 D; cbn; [exact N2|].
  inversion N1 as [|? ? Hn N1']. subst. constructor.
  - intros H. apply in_app_or in H. destruct H as [H|H]; [contradiction|]. apply (D h (or_introl eq_refl) H).
  - apply IH; [exact N1' | exact N2 | intros a Ha; apply D; right; exact Ha].
Qed.

(* merging block b into block t across constraint c, shifting b's variables by d *)
Theorem merge_into_preserves s t b c d x y :
  book s -> act_inv s ->
  (x < length (svars s))%nat -> (y < length (svars s))%nat ->
  blk_of s x = t -> blk_of s y = b -> t <> b ->
  (c < length (scons s))%nat ->
  (* the two ends of c lie in t and b, and d makes c tight *)
  ((blk_of s (cl (con_of s c)) = t /\ blk_of s (cr (con_of s c)) = b /\
    off_of s (cr (con_of s c)) + d - off_of s (cl (con_of s c)) == gap (con_of s c)) \/
   (blk_of s (cr (con_of s c)) = t /\ blk_of s (cl (con_of s c)) = b /\
    off_of s (cr (con_of s c)) - (off_of s (cl (con_of s c)) + d) == gap (con_of s c))) ->
  book (merge_into s t b c d) /\ act_inv (merge_into s t b c d).
Proof.
  intros BK AI Hx Hy Ht Hb Hne Hc Hends.
  rewrite merge_into_unfold.
  set (s1 := set_cact s (upd_nth (cact s) c true)).
  set (V := bvars (block_of s1 b)).
  assert (HV : V = bvars (block_of s b)) by reflexivity.
  destruct BK as [K1 K2 K3 K4 K5 K6 K7].
  assert (HVin : forall w, In w V <-> ((w < length (svars s))%nat /\ blk_of s w = b)).
  { intros w. rewrite HV, <- Hb. apply K5. exact Hy. }
  assert (F : mfold_facts t d V s1 (fold_left (mstep t d) V s1)).
  { apply mfold_spec.
    - rewrite HV, <- Hb. apply K6. exact Hy.
    - intros v Hv. apply HVin in Hv. destruct Hv as [Hv _]. cbn [s1 set_cact voff vblk]. rewrite K1, K2. split; exact Hv.
    - cbn [s1 set_cact blocks]. rewrite <- Ht. apply K4. exact Hx. }
  set (s2 := fold_left (mstep t d) V s1) in *.
  destruct F as [F1 F2 F3 F4 F5 F6 F7 F8 F9 F10].
  (* views of the final state *)
  set (s3 := kill_block s2 b).
  assert (G1 : scons s3 = scons s) by (cbn; rewrite F1; reflexivity).
  assert (G2 : svars s3 = svars s) by (cbn; rewrite F2; reflexivity).
  assert (G3 : cact s3 = upd_nth (cact s) c true) by (cbn; rewrite F3; reflexivity).
  assert (Goff : forall w, off_of s3 w = off_of s2 w) by reflexivity.
  assert (Gblk : forall w, blk_of s3 w = blk_of s2 w) by reflexivity.
  assert (Gcon : forall k, con_of s3 k = con_of s k) by (intros k; unfold con_of; rewrite G1; reflexivity).
  assert (Gt : bvars (block_of s3 t) = bvars (block_of s t) ++ V).
  { unfold s3, kill_block, set_block, set_blocks, block_of. cbn [blocks].
    rewrite nth_upd_nth_neq by congruence. exact F9. }
  assert (Gother : forall B, B <> t -> B <> b -> block_of s3 B = block_of s B).
  { intros B H1 H2. unfold s3, kill_block, set_block, set_blocks, block_of. cbn [blocks].
    rewrite nth_upd_nth_neq by congruence. apply F10. exact H1. }
  assert (Hold : forall w, off_of s1 w = off_of s w /\ blk_of s1 w = blk_of s w) by (intros; split; reflexivity).
  (* new block of a variable *)
  assert (NB : forall w, (w < length (svars s))%nat ->
                 (blk_of s w = b -> blk_of s3 w = t) /\ (blk_of s w <> b -> blk_of s3 w = blk_of s w)).
  { intros w Hw. split; intros H.
    - rewrite Gblk. apply F7. apply HVin. split; assumption.
    - rewrite Gblk. destruct (F8 w) as [_ E]; [rewrite HVin; tauto|]. exact E. }
  split.
  - (* book *)
    constructor.
    + cbn. rewrite F4. cbn. rewrite G2 || idtac. rewrite F2. exact K1.
    + cbn. rewrite F5. cbn. rewrite F2. exact K2.
    + rewrite G3, G1, upd_nth_length. exact K3.
    + intros v Hv. rewrite G2 in Hv.
      assert (L : length (blocks s3) = length (blocks s)).
      { unfold s3, kill_block, set_block, set_blocks. cbn [blocks]. rewrite upd_nth_length. exact F6. }
      rewrite L. destruct (Nat.eq_dec (blk_of s v) b) as [E|E].
      * rewrite (proj1 (NB v Hv) E). rewrite <- Ht. apply K4. exact Hx.
      * rewrite (proj2 (NB v Hv) E). apply K4. exact Hv.
    + intros v w Hv. rewrite G2 in *.
      assert (Main : forall B, B <> b -> blk_of s3 v = B ->
                (In w (bvars (block_of s3 B)) <-> ((w < length (svars s))%nat /\ blk_of s3 w = B))).
      { intros B HBb HvB. destruct (Nat.eq_dec B t) as [->|HBt].
        - rewrite Gt, in_app_iff, HVin. rewrite <- Ht at 1. rewrite (K5 x w Hx). rewrite Ht. split.
          + intros [[Hw E]|[Hw E]]; split; try exact Hw.
            * rewrite (proj2 (NB w Hw)); congruence.
            * apply (proj1 (NB w Hw)). exact E.
          + intros [Hw E]. destruct (Nat.eq_dec (blk_of s w) b) as [E'|E']; [right; tauto|left].
            split; [exact Hw|]. rewrite <- (proj2 (NB w Hw) E'). exact E.
        - rewrite (Gother B HBt HBb).
          assert (EvB : blk_of s v = B).
          { destruct (Nat.eq_dec (blk_of s v) b) as [E|E].
            - rewrite (proj1 (NB v Hv) E) in HvB. congruence.
            - rewrite (proj2 (NB v Hv) E) in HvB. exact HvB. }
          rewrite <- EvB. rewrite (K5 v w Hv). split; intros [Hw E]; split; try exact Hw.
          + rewrite (proj2 (NB w Hw)); congruence.
          + destruct (Nat.eq_dec (blk_of s w) b) as [E'|E'].
            * rewrite (proj1 (NB w Hw) E') in E. congruence.
            * rewrite (proj2 (NB w Hw) E') in E. exact E. }
      apply Main; [|reflexivity].
      destruct (Nat.eq_dec (blk_of s v) b) as [E|E].
      * rewrite (proj1 (NB v Hv) E). exact Hne.
      * rewrite (proj2 (NB v Hv) E). exact E.
    + intros v Hv. rewrite G2 in Hv.
      destruct (Nat.eq_dec (blk_of s v) b) as [E|E].
      * rewrite (proj1 (NB v Hv) E). rewrite Gt. apply NoDup_app_disjoint.
        -- rewrite <- Ht. apply K6. exact Hx.
        -- rewrite HV, <- Hb. apply K6. exact Hy.
        -- intros a Ha Hb'. rewrite <- Ht in Ha. apply (K5 x a Hx) in Ha. apply HVin in Hb'.
           destruct Ha as [_ Ha]. destruct Hb' as [_ Hb']. congruence.
      * rewrite (proj2 (NB v Hv) E).
        destruct (Nat.eq_dec (blk_of s v) t) as [E2|E2].
        -- rewrite E2, Gt. apply NoDup_app_disjoint.
           ++ rewrite <- Ht. apply K6. exact Hx.
           ++ rewrite HV, <- Hb. apply K6. exact Hy.
           ++ intros a Ha Hb'. rewrite <- Ht in Ha. apply (K5 x a Hx) in Ha. apply HVin in Hb'.
              destruct Ha as [_ Ha]. destruct Hb' as [_ Hb']. congruence.
        -- rewrite (Gother _ E2 E). apply K6. exact Hv.
    + rewrite G1, G2. exact K7.
  - (* act_inv *)
    intros c' Hact. unfold act_of in Hact. rewrite G3 in Hact.
    unfold tight_off. rewrite !Gcon, !Goff.
    assert (Shift : forall w, (w < length (svars s))%nat ->
              (blk_of s w = b -> off_of s2 w == off_of s w + d) /\ (blk_of s w <> b -> off_of s2 w = off_of s w)).
    { intros w Hw. split; intros H.
      - destruct (F7 w) as [E _]; [apply HVin; tauto|]. exact E.
      - destruct (F8 w) as [E _]; [rewrite HVin; tauto|]. exact E. }
    destruct (Nat.eq_dec c' c) as [->|Hcc].
    + (* the constraint just activated *)
      assert (Hin : In (con_of s c) (scons s)) by (unfold con_of; apply nth_In; exact Hc).
      destruct (K7 _ Hin) as [Hl Hr].
      destruct Hends as [[El [Er Ed]]|[Er [El Ed]]].
      * assert (Elb : blk_of s (cl (con_of s c)) <> b) by congruence.
        rewrite (proj2 (NB _ Hl) Elb), (proj1 (NB _ Hr) Er), El. split; [reflexivity|].
        rewrite (proj1 (Shift _ Hr) Er), (proj2 (Shift _ Hl) Elb). lra.
      * assert (Erb : blk_of s (cr (con_of s c)) <> b) by congruence.
        rewrite (proj1 (NB _ Hl) El), (proj2 (NB _ Hr) Erb), Er. split; [reflexivity|].
        rewrite (proj1 (Shift _ Hl) El), (proj2 (Shift _ Hr) Erb). lra.
    + rewrite nth_upd_nth_neq in Hact by congruence.
      destruct (AI c' Hact) as [Hsame Htight]. unfold tight_off in Htight.
      assert (Hc' : (c' < length (scons s))%nat).
      { rewrite <- K3. destruct (Nat.lt_ge_cases c' (length (cact s))) as [L|L]; [exact L|].
        unfold act_of in Hact. rewrite nth_overflow in Hact by exact L. discriminate. }
      assert (Hin : In (con_of s c') (scons s)) by (unfold con_of; apply nth_In; exact Hc').
      destruct (K7 _ Hin) as [Hl Hr].
      destruct (Nat.eq_dec (blk_of s (cl (con_of s c'))) b) as [E|E].
      * assert (E' : blk_of s (cr (con_of s c')) = b) by congruence.
        rewrite (proj1 (NB _ Hl) E), (proj1 (NB _ Hr) E'). split; [reflexivity|].
        rewrite (proj1 (Shift _ Hl) E), (proj1 (Shift _ Hr) E'). lra.
      * assert (E' : blk_of s (cr (con_of s c')) <> b) by congruence.
        rewrite (proj2 (NB _ Hl) E), (proj2 (NB _ Hr) E'). split; [exact Hsame|].
        rewrite (proj2 (Shift _ Hl) E), (proj2 (Shift _ Hr) E'). exact Htight.
Qed.

(* Block::merge(b, c): the smaller block is merged into the larger one; either way the invariants survive *)
Theorem merge_preserves s c :
  book s -> act_inv s -> (c < length (scons s))%nat ->
  blk_of s (cl (con_of s c)) <> blk_of s (cr (con_of s c)) ->
  book (fst (merge s c)) /\ act_inv (fst (merge s c)).
Proof.
  intros BK AI Hc Hne.
  assert (Hin : In (con_of s c) (scons s)) by (unfold con_of; apply nth_In; exact Hc).
  destruct (bk_cons s BK _ Hin) as [Hl Hr].
  unfold merge. fold (con_of s c).
  destruct (Nat.ltb _ _); cbn [fst].
  - apply (merge_into_preserves s _ _ c _ (cr (con_of s c)) (cl (con_of s c))); auto.
    right. repeat split; auto. lra.
  - apply (merge_into_preserves s _ _ c _ (cl (con_of s c)) (cr (con_of s c))); auto.
    left. repeat split; auto. lra.
Qed.

(* ---- steps that do not touch offsets, blocks membership or activity *)
Lemma note_fields s a b :
  svars (note s a b) = svars s /\ scons (note s a b) = scons s /\ voff (note s a b) = voff s /\
  vblk (note s a b) = vblk s /\ cact (note s a b) = cact s /\ blocks (note s a b) = blocks s /\
  inactive (note s a b) = inactive s /\ cuns (note s a b) = cuns s.
Proof. unfold note. destruct (Qltb _ _); repeat split; reflexivity. Qed.
Lemma note_opt_fields s a b :
  svars (note_opt s a b) = svars s /\ scons (note_opt s a b) = scons s /\ voff (note_opt s a b) = voff s /\
  vblk (note_opt s a b) = vblk s /\ cact (note_opt s a b) = cact s /\ blocks (note_opt s a b) = blocks s /\
  inactive (note_opt s a b) = inactive s /\ cuns (note_opt s a b) = cuns s.
Proof. unfold note_opt. destruct a, b; try (repeat split; reflexivity). apply note_fields. Qed.

Lemma mv_scan_fields : forall l s idx best mv del,
  let s' := snd (mv_scan s l idx best mv del) in
  svars s' = svars s /\ scons s' = scons s /\ voff s' = voff s /\ vblk s' = vblk s /\ cact s' = cact s /\
  blocks s' = blocks s.
Proof.
  induction l as [|c t IH]; intros s idx best mv del; cbn [mv_scan].
  - cbn. repeat split; reflexivity.
  - destruct (note_opt_fields s (slack s c) best) as [A [B [C [D [E [F _]]]]]].
    destruct (ceq (con_of s c)).
    + cbn. repeat split; assumption.
    + destruct (lt_inf (slack s c) best).
      * destruct (IH (note_opt s (slack s c) best) (S idx) (slack s c) (Some c) idx) as [A' [B' [C' [D' [E' F']]]]].
        cbn zeta in *. repeat split; congruence.
      * destruct (IH (note_opt s (slack s c) best) (S idx) best mv del) as [A' [B' [C' [D' [E' F']]]]].
        cbn zeta in *. repeat split; congruence.
Qed.

Theorem most_violated_preserves s : book s -> act_inv s -> book (snd (most_violated s)) /\ act_inv (snd (most_violated s)).
Proof.
  intros BK AI. unfold most_violated.
  pose proof (mv_scan_fields (inactive s) s O None None (length (inactive s))) as H. cbn zeta in H.
  destruct (mv_scan s (inactive s) 0 None None (length (inactive s))) as [[[best mv] del] s1]. cbn [snd] in H.
  destruct H as [A [B [C [D [E F]]]]].
  assert (BK1 : book s1) by (apply (book_frame s s1); assumption).
  assert (AI1 : act_inv s1) by (apply (act_inv_frame s s1); assumption).
  destruct mv as [c|]; [|cbn; tauto].
  destruct (note_opt_fields s1 best (Some ZERO_UPPERBOUND)) as [A' [B' [C' [D' [E' [F' _]]]]]].
  set (s2 := note_opt s1 best (Some ZERO_UPPERBOUND)) in *.
  assert (BK2 : book s2) by (apply (book_frame s1 s2); assumption).
  assert (AI2 : act_inv s2) by (apply (act_inv_frame s1 s2); assumption).
  destruct (_ && _); cbn [snd]; [|tauto]. split.
  - apply (book_frame s2); try reflexivity. exact BK2.
  - apply (act_inv_frame s2); try reflexivity. exact AI2.
Qed.

Theorem flag_unsat_preserves s c : book s -> act_inv s -> book (flag_unsat s c) /\ act_inv (flag_unsat s c).
Proof.
  intros BK AI. split; [apply (book_frame s) | apply (act_inv_frame s)]; try reflexivity; assumption.
Qed.

Theorem set_desired_preserves s i d : book s -> act_inv s -> book (set_desired s i d) /\ act_inv (set_desired s i d).
Proof.
  intros BK AI. split.
  - destruct BK as [K1 K2 K3 K4 K5 K6 K7].
    assert (L : length (svars (set_desired s i d)) = length (svars s)) by (cbn; apply upd_nth_length).
    constructor; rewrite ?L; try assumption.
    intros c Hc. rewrite L. exact (K7 c Hc).
  - apply (act_inv_frame s); try reflexivity. exact AI.
Qed.

Theorem cleanup_preserves s : book s -> act_inv s -> book (cleanup s) /\ act_inv (cleanup s).
Proof.
  intros BK AI. split; [apply (book_frame s) | apply (act_inv_frame s)]; try reflexivity; assumption.
Qed.

Theorem add_constraint_preserves s k :
  book s -> act_inv s -> (cl k < length (svars s))%nat -> (cr k < length (svars s))%nat ->
  book (add_constraint s k) /\ act_inv (add_constraint s k).
Proof.
  intros BK AI Hl Hr. destruct BK as [K1 K2 K3 K4 K5 K6 K7]. split.
  - constructor; cbn; try assumption.
    + rewrite !app_length. cbn. lia.
    + intros c Hc. apply in_app_or in Hc. destruct Hc as [Hc|[<-|[]]]; [exact (K7 c Hc)|split; assumption].
  - intros c Hact. unfold act_of in Hact. cbn in Hact.
    assert (Lc : (c < length (cact s))%nat).
    { destruct (Nat.lt_ge_cases c (length (cact s))) as [L|L]; [exact L|].
      rewrite app_nth2 in Hact by exact L. destruct (c - length (cact s))%nat as [|[|?]]; discriminate. }
    rewrite app_nth1 in Hact by exact Lc.
    assert (Ec : con_of (add_constraint s k) c = con_of s c).
    { unfold con_of. cbn. apply app_nth1. rewrite <- K3. exact Lc. }
    destruct (AI c Hact) as [A B]. unfold tight_off in *. rewrite Ec. split; [exact A|exact B].
Qed.

(* ---- moving blocks (updateWeightedPosition) only rewrites block statistics *)
Lemma book_frame_bvars s s' :
  svars s' = svars s -> scons s' = scons s -> voff s' = voff s -> vblk s' = vblk s -> cact s' = cact s ->
  length (blocks s') = length (blocks s) -> (forall B, bvars (block_of s' B) = bvars (block_of s B)) ->
  book s -> book s'.
Proof.
  intros E0 E1 E2 E3 E4 E5 E6 [A B C D E F G].
  assert (Eb : forall v, blk_of s' v = blk_of s v) by (intros; unfold blk_of; rewrite E3; reflexivity).
  constructor; rewrite ?E0, ?E1, ?E2, ?E3, ?E4, ?E5; try assumption.
  - intros v Hv. rewrite Eb. apply D. exact Hv.
  - intros v w Hv. rewrite E6, !Eb. apply E. exact Hv.
  - intros v Hv. rewrite E6, Eb. apply F. exact Hv.
Qed.

Lemma set_block_bvars s b B0 B :
  bvars B0 = bvars (block_of s b) -> bvars (block_of (set_block s b B0) B) = bvars (block_of s B).
Proof.
  intros H. unfold set_block, set_blocks, block_of. cbn [blocks].
  destruct (Nat.eq_dec b B) as [->|N].
  - destruct (Nat.lt_ge_cases B (length (blocks s))) as [L|L].
    + rewrite nth_upd_nth_eq by exact L. exact H.
    + rewrite !nth_overflow; [reflexivity | exact L | rewrite upd_nth_length; exact L].
  - rewrite nth_upd_nth_neq by exact N. reflexivity.
Qed.

Theorem update_weighted_position_preserves s b :
  book s -> act_inv s -> book (update_weighted_position s b) /\ act_inv (update_weighted_position s b).
Proof.
  intros BK AI. unfold update_weighted_position.
  destruct (fold_left (stats_add s) (bvars (block_of s b)) (bscale (block_of s b), 0, 0, 0)) as [[[sc ab] ad] a2].
  split.
  - apply (book_frame_bvars s); try reflexivity; [|intros B; apply set_block_bvars; reflexivity|exact BK].
    unfold set_block, set_blocks. cbn [blocks]. apply upd_nth_length.
  - apply (act_inv_frame s); try reflexivity. exact AI.
Qed.

Theorem move_blocks_preserves s : book s -> act_inv s -> book (move_blocks s) /\ act_inv (move_blocks s).
Proof.
  unfold move_blocks. generalize (blist s) as l. intros l. revert s.
  induction l as [|b l IH]; intros s BK AI; cbn [fold_left]; [tauto|].
  destruct (update_weighted_position_preserves s b BK AI) as [BK' AI']. apply IH; assumption.
Qed.

(* ---- the initial state *)
Record init_facts (vs : list var) (cs : list con) (k : nat) (s : st) : Prop := {
  if_svars : svars s = vs;
  if_scons : scons s = cs;
  if_voff : length (voff s) = length vs;
  if_vblk : length (vblk s) = length vs;
  if_cact : cact s = repeat false (length cs);
  if_blocks : length (blocks s) = k;
  if_blk : forall i, (i < k)%nat -> blk_of s i = i /\ bvars (block_of s i) = [i] }.

Definition init_step (s : st) (v : nat) : st :=
  let '(b, s1) := new_block s in
  let s2 := add_variable s1 b v in
  set_blist s2 (blist s2 ++ [b]).

Lemma init_unfold vs cs :
  init vs cs = fold_left init_step (seq 0 (length vs))
    (mkst vs cs (repeat 0 (length vs)) (repeat O (length vs)) (repeat false (length cs)) (repeat false (length cs))
          (repeat 0 (length cs)) [] [] (seq 0 (length cs)) false).
Proof. reflexivity. Qed.

Lemma init_step_facts vs cs k s :
  (k < length vs)%nat -> init_facts vs cs k s -> init_facts vs cs (S k) (init_step s k).
Proof.
  intros Hk [A B C D E F G].
  unfold init_step, new_block, add_variable, set_vblk, set_block, set_blocks, set_blist.
  constructor; cbn [svars scons voff vblk cact blocks]; try assumption.
  - rewrite upd_nth_length. exact D.
  - rewrite upd_nth_length, app_length. cbn. lia.
  - intros i Hi. unfold blk_of, block_of. cbn [vblk blocks]. rewrite F.
    destruct (Nat.eq_dec i k) as [->|N].
    + split.
      * apply nth_upd_nth_eq. rewrite D. exact Hk.
      * rewrite nth_upd_nth_eq by (rewrite app_length; cbn; lia).
        cbn [bvars]. unfold block_of. cbn [blocks]. rewrite <- F at 1.
        rewrite app_nth2 by lia. rewrite Nat.sub_diag. reflexivity.
    + assert (i < k)%nat by lia. destruct (G i H) as [G1 G2]. split.
      * rewrite nth_upd_nth_neq by congruence. exact G1.
      * rewrite nth_upd_nth_neq by congruence. rewrite app_nth1 by lia. exact G2.
Qed.

Lemma init_fold_facts vs cs : forall k s,
  (k <= length vs)%nat -> init_facts vs cs 0 s ->
  init_facts vs cs k (fold_left init_step (seq 0 k) s).
Proof.
  induction k as [|k IH]; intros s Hk H0; [exact H0|].
  rewrite seq_S, fold_left_app. cbn [fold_left plus]. apply init_step_facts; [lia|]. apply IH; [lia|exact H0].
Qed.

Theorem init_book vs cs : wf_cons vs cs -> book (init vs cs) /\ act_inv (init vs cs).
Proof.
  intros W. rewrite init_unfold.
  set (s0 := mkst vs cs _ _ _ _ _ _ _ _ _).
  assert (H0 : init_facts vs cs 0 s0).
  { constructor; cbn; try reflexivity; try (apply repeat_length). intros i Hi. lia. }
  destruct (init_fold_facts vs cs (length vs) s0 (le_n _) H0) as [A B C D E F G].
  set (s := fold_left init_step (seq 0 (length vs)) s0) in *.
  split.
  - constructor; rewrite ?A, ?B; try assumption.
    + rewrite E. apply repeat_length.
    + intros v Hv. rewrite (proj1 (G v Hv)), F. exact Hv.
    + intros v w Hv. rewrite (proj1 (G v Hv)), (proj2 (G v Hv)). cbn [In]. split.
      * intros [<-|[]]. split; [exact Hv|]. apply (proj1 (G v Hv)).
      * intros [Hw Ew]. left. rewrite (proj1 (G w Hw)) in Ew. congruence.
    + intros v Hv. rewrite (proj1 (G v Hv)), (proj2 (G v Hv)). constructor; [intros []|constructor].
  - intros c Hact. unfold act_of in Hact. rewrite E in Hact.
    exfalso. revert Hact. generalize (length cs) as m. intros m. revert c.
    induction m as [|m IH]; intros [|c]; cbn; try discriminate. apply IH.
Qed.

(* ---- split leaves offsets alone (so tightness of the remaining active constraints survives it) *)
Definition same_core (s s' : st) : Prop :=
  voff s' = voff s /\ scons s' = scons s /\ svars s' = svars s /\ cact s' = cact s.
Lemma same_core_refl s : same_core s s.
Proof. repeat split; reflexivity. Qed.
Lemma same_core_trans s1 s2 s3 : same_core s1 s2 -> same_core s2 s3 -> same_core s1 s3.
Proof. intros [A [B [C D]]] [A' [B' [C' D']]]. repeat split; congruence. Qed.

Lemma fold_res_rel {A} (g : st -> A -> res st) :
  (forall s a s', g s a = Ok s' -> same_core s s') ->
  forall l acc s', fold_left (fun acc a => bind acc (fun s => g s a)) l acc = Ok s' ->
    exists s1, acc = Ok s1 /\ same_core s1 s'.
Proof.
  intros Hg. induction l as [|a l IH]; intros acc s' H; cbn [fold_left] in H.
  - exists s'. split; [exact H | apply same_core_refl].
  - destruct (IH _ _ H) as [s2 [H2 R2]]. apply bind_ok in H2. destruct H2 as [s1 [H1 G]].
    exists s1. split; [exact H1|]. apply (same_core_trans _ s2); [apply (Hg _ _ _ G) | exact R2].
Qed.

Lemma add_variable_core s b v : same_core s (add_variable s b v).
Proof. repeat split; reflexivity. Qed.

Lemma populate_core : forall fuel this b v u s s',
  populate fuel this b v u s = Ok s' -> same_core s s'.
Proof.
  induction fuel as [|f IH]; intros this b v u s s' H; [discriminate|].
  cbn [populate] in H.
  apply (fold_res_rel (fun s' c => if can_follow_right s' this c u
                                   then populate f this b (cr (con_of s' c)) (Some v) s' else Ok s')) in H.
  - destruct H as [s2 [H2 R2]].
    apply (fold_res_rel (fun s' c => if can_follow_left s' this c u
                                     then populate f this b (cl (con_of s' c)) (Some v) s' else Ok s')) in H2.
    + destruct H2 as [s1 [H1 R1]]. inversion H1. subst s1.
      apply (same_core_trans _ (add_variable s b v)); [apply add_variable_core|].
      apply (same_core_trans _ s2); assumption.
    + intros s0 a s0' G. destruct (can_follow_left s0 this a u); [apply (IH _ _ _ _ _ _ G)|].
      inversion G. apply same_core_refl.
  - intros s0 a s0' G. destruct (can_follow_right s0 this a u); [apply (IH _ _ _ _ _ _ G)|].
    inversion G. apply same_core_refl.
Qed.

Theorem split_keeps_offsets s this c s' l r :
  split s this c = Ok (s', l, r) ->
  voff s' = voff s /\ scons s' = scons s /\ svars s' = svars s /\ cact s' = upd_nth (cact s) c false.
Proof.
  unfold split, new_block. intros H.
  apply bind_ok in H. destruct H as [s2 [P1 H]].
  apply bind_ok in H. destruct H as [s4 [P2 H]]. inversion H. subst s4 l r. clear H.
  apply populate_core in P1. apply populate_core in P2.
  destruct P1 as [A1 [B1 [C1 D1]]]. destruct P2 as [A2 [B2 [C2 D2]]].
  cbn in *. repeat split; congruence.
Qed.

Corollary split_preserves_tightness s this c s' l r :
  act_inv s -> split s this c = Ok (s', l, r) ->
  forall c', act_of s' c' = true -> tight_off s' c'.
Proof.
  intros AI H c' Hact. destruct (split_keeps_offsets _ _ _ _ _ _ H) as [A [B [C D]]].
  unfold act_of in Hact. rewrite D in Hact.
  assert (Hc : c <> c').
  { intros <-. destruct (Nat.lt_ge_cases c (length (cact s))) as [L|L].
    - rewrite nth_upd_nth_eq in Hact by exact L. discriminate.
    - rewrite nth_overflow in Hact by (rewrite upd_nth_length; exact L). discriminate. }
  rewrite nth_upd_nth_neq in Hact by exact Hc.
  destruct (AI c' Hact) as [_ T]. unfold tight_off, off_of, con_of in *. rewrite A, B. exact T.
Qed.

(* PARTIAL.  What is missing for "split preserves act_inv": that every constraint still active after the split
   keeps both ends in ONE of the two new blocks.  That needs the forest invariant (the active constraints inside a
   block form a tree, so removing c separates it into exactly the two sets populate collects); not proved. *)
Theorem split_act_inv_partial s this c s' l r :
  act_inv s -> split s this c = Ok (s', l, r) ->
  (forall c', act_of s' c' = true -> blk_of s' (cl (con_of s' c')) = blk_of s' (cr (con_of s' c'))) ->
  act_inv s'.
Proof.
  intros AI H SB c' Hact. split; [exact (SB c' Hact) | exact (split_preserves_tightness _ _ _ _ _ _ AI H c' Hact)].
Qed.

(* ---- the C01 statement for a returned state *)
Theorem sat_on_return_full fuel s o s' :
  run_result o fuel s s' ->
  wf_cons (svars s') (scons s') -> wf_vars (svars s') ->
  act_inv s' ->
  forall k, (k < length (scons s'))%nat -> uns_of s' k = false ->
    let sl := slackv (svars s') (place_of (final_positions s')) (con_of s' k) in
    ZERO_UPPERBOUND <= sl /\ (act_of s' k = true -> sl == 0).
Proof.
  intros R W WV AI k Hk Hu sl.
  assert (Hin : In (con_of s' k) (scons s')) by (unfold con_of; apply nth_In; exact Hk).
  destruct (W _ Hin) as [Hl Hr].
  assert (T : act_of s' k = true -> sl == 0).
  { intros Ha. unfold sl. rewrite <- (slack_val_declarative s' k Hl Hr).
    apply active_tight; [exact AI | exact Ha | |].
    - destruct (WV _ Hl) as [_ P]. unfold var_of. lra.
    - destruct (WV _ Hr) as [_ P]. unfold var_of. lra. }
  split; [|exact T].
  destruct (act_of s' k) eqn:Ha.
  - rewrite (T eq_refl). unfold ZERO_UPPERBOUND. lra.
  - exact (sat_on_return fuel s o s' R W k Hk Ha Hu).
Qed.

(* PARTIAL (C01_no_final_throw): the final scan cannot fire when every constraint that is neither active nor flagged is
   satisfied to -1e-10.  Missing for the full statement "inc_satisfy never returns ThrowUnsat from a well-formed
   state": that this hypothesis holds at loop exit, i.e. (i) every such constraint is in the work-list `inactive`
   (trichotomy, preserved by every step incl. split) and (ii) mostViolated returns the minimum slack of the list.
   Neither the model (113k exhaustive small instances, 200k random histories) nor the real solver on small data ever
   reaches the throw; the real solver reached it through binary64 rounding before /repo 80a897a (corpus). *)
Theorem final_scan_no_throw_partial s : inactive_sat s -> final_scan s = Ok s.
Proof.
  intros I. unfold final_scan.
  destruct (find _ (seq 0 (length (scons s)))) as [c|] eqn:E; [exfalso|reflexivity].
  apply find_some in E. destruct E as [Hin Hf]. apply in_seq in Hin.
  apply andb_true_iff in Hf. destruct Hf as [Ha Hs]. apply negb_true_iff in Ha.
  unfold slack in Hs. destruct (uns_of s c) eqn:Hu; [discriminate|]. unfold lt_inf in Hs. apply Qltb_spec in Hs.
  assert (Hge : ZERO_UPPERBOUND <= slack_val s c) by (apply I; [lia | exact Ha | exact Hu]).
  apply (Qlt_irrefl (slack_val s c)). apply (Qlt_le_trans _ ZERO_UPPERBOUND); assumption.
Qed.

(* ------------------------------------------------------------------ non-vacuity *)
Definition iv_vs : list var := [mkvar 3 1 1; mkvar 0 2 2; mkvar 1 1 1].
Definition iv_cs : list con := [mkcon 0 1 2 false; mkcon 1 2 1 true].
Lemma iv_wf : wf_cons iv_vs iv_cs.
Proof. intros c [<-|[<-|[]]]; cbn; split; lia. Qed.

Example init_book_example : book (init iv_vs iv_cs) /\ act_inv (init iv_vs iv_cs).
Proof. exact (init_book iv_vs iv_cs iv_wf). Qed.

(* merge across constraint 0 from the initial state: hypotheses of merge_preserves and active_tight are satisfiable *)
Example merge_preserves_example :
  let s1 := fst (merge (init iv_vs iv_cs) 0) in
  book s1 /\ act_inv s1 /\ act_of s1 0 = true /\ slack_val s1 0 == 0.
Proof.
  destruct init_book_example as [B A].
  destruct (merge_preserves _ 0%nat B A) as [B1 A1]; [cbn; lia | vm_compute; discriminate |].
  split; [exact B1|]. split; [exact A1|]. split; [vm_compute; reflexivity|].
  apply active_tight; [exact A1 | vm_compute; reflexivity | |]; intros H; vm_compute in H; discriminate.
Qed.

(* a complete solve: the run returns, constraint 0 ends active, the equality 1 ends active *)
Example sat_on_return_example :
  exists s', run_result Solve 100 (init iv_vs iv_cs) s' /\ act_of s' 0 = true /\ act_of s' 1 = true /\
             existsb (fun b => b) (cuns s') = false.
Proof. eexists. split; [cbn [run_result]; vm_compute; reflexivity | vm_compute; auto]. Qed.

(* ------------------------------------------------------------------ act_inv as a decidable check on a concrete state
   (run by the extracted driver on every state the model returns, and by the C++ harness on the real solver's state:
   this validates, on every evaluation of the checks, the part of act_inv whose preservation by split is not proved) *)
Definition act_invb (s : st) : bool :=
  forallb (fun c => negb (act_of s c) ||
                    (Nat.eqb (blk_of s (cl (con_of s c))) (blk_of s (cr (con_of s c)))
                     && Qeqb (off_of s (cr (con_of s c)) - off_of s (cl (con_of s c))) (gap (con_of s c))))
          (seq 0 (length (cact s))).

Theorem act_invb_spec s : act_invb s = true <-> act_inv s.
Proof.
  unfold act_invb, act_inv, tight_off. rewrite forallb_forall. split.
  - intros H c Ha.
    assert (Hc : (c < length (cact s))%nat).
    { destruct (Nat.lt_ge_cases c (length (cact s))) as [L|L]; [exact L|].
      unfold act_of in Ha. rewrite nth_overflow in Ha by exact L. discriminate. }
    specialize (H c). rewrite in_seq in H. specialize (H ltac:(lia)).
    rewrite Ha in H. cbn in H. apply andb_true_iff in H. destruct H as [A B].
    apply Nat.eqb_eq in A. apply Qeqb_spec in B. split; assumption.
  - intros H c _. destruct (act_of s c) eqn:Ha; [|reflexivity]. cbn.
    destruct (H c Ha) as [A B]. apply andb_true_iff. split; [apply Nat.eqb_eq; exact A | apply Qeqb_spec; exact B].
Qed.

(* the contract other properties can use for a returned state that passes the check *)
Corollary contract_checked fuel s o s' :
  run_result o fuel s s' ->
  wf_cons (svars s') (scons s') -> wf_vars (svars s') ->
  act_invb s' = true ->
  forall k, (k < length (scons s'))%nat -> uns_of s' k = false ->
    let sl := slackv (svars s') (place_of (final_positions s')) (con_of s' k) in
    ZERO_UPPERBOUND <= sl /\ (act_of s' k = true -> sl == 0).
Proof. intros R W WV B. apply (sat_on_return_full fuel s o s' R W WV). apply act_invb_spec. exact B. Qed.
