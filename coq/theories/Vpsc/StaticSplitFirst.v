(* The first half of Blocks::split (Vpsc/StaticModel.static_split), assembled: Block::split on a forest state whose
   block b is stationary with lm(c) <= 0, "r->posn = b->posn", mergeLeft(l).  From the invariants Solver::refine's second
   loop works in (all constraints hold, blocks at their optimum, the heap / time-stamp facts refine's first loop
   establishes) mergeLeft(l) keeps the two-mode invariant MLS and returns with the in-constraints of the final block
   satisfied - no hypothesis about heap roots, signs or Block::split left. *)
From Adapt Require Import Num.Qaux Vpsc.VpscSpec Vpsc.VpscModel Vpsc.VpscInv Vpsc.VpscFrame Vpsc.VpscWalks Vpsc.VpscForest
  Vpsc.VpscStationary Vpsc.StaticModel Vpsc.StaticFrame Vpsc.StaticHeap Vpsc.StaticInv Vpsc.StaticInvB Vpsc.StaticHeapOrd
  Vpsc.StaticGeom Vpsc.StaticDag Vpsc.StaticRefine Vpsc.StaticGeom2 Vpsc.StaticOutHeap Vpsc.StaticSplitML Vpsc.StaticInHeap
  Vpsc.StaticSplitStats Vpsc.StaticSplitSign Vpsc.StaticSplitGlue.
Local Open Scope Q_scope.

(* the state Blocks::split calls mergeLeft(l) in *)
Definition split_pre (s : sst) (b : nat) (bs : st) (l r : nat) : sst :=
  let s1 := pad2 (set_base s bs) in
  let s2 := set_base s1 (set_blist (base s1) (blist (base s1) ++ [l; r])) in
  let B := block_of (base s2) b in
  let R := block_of (base s2) r in
  let R' := mkblk (bvars R) (Qred (posn B * bscale B / bscale R)) (bscale R) (AB R) (AD R) (A2 R) (dead R) in
  set_base s2 (set_block (base s2) r R').

Lemma static_split_unfold s b c :
  static_split s b c =
  bind (split (base s) b c) (fun t =>
    let '(bs, l, r) := t in
    bind (merge_left (split_pre s b bs l r) l) (fun s4 =>
      let r' := rblk s4 c in
      let s5 := set_base s4 (update_weighted_position (base s4) r') in
      bind (merge_right s5 r') (fun s6 => Ok (set_base s6 (kill_block (base s6) b))))).
Proof. reflexivity. Qed.

(* "r->posn = b->posn * b->scale / r->scale" on the base state *)
Definition repos (bs : st) (b r : nat) : st :=
  let B := block_of bs b in
  let R := block_of bs r in
  set_block bs r (mkblk (bvars R) (Qred (posn B * bscale B / bscale R)) (bscale R) (AB R) (AD R) (A2 R) (dead R)).

Lemma split_pre_base s b bs l r :
  base (split_pre s b bs l r) = repos (set_blist bs (blist bs ++ [l; r])) b r.
Proof. reflexivity. Qed.

Section Repos.
  Variables (bs : st) (b r : nat).
  Hypothesis BK : book bs.
  Hypothesis Hr : (r < length (blocks bs))%nat.
  Let B3 := repos bs b r.

  Lemma repos_block X : X <> r -> block_of B3 X = block_of bs X.
  Proof. intros N. unfold B3, repos, set_block, set_blocks, block_of. cbn [blocks]. apply nth_upd_nth_neq. congruence. Qed.
  Lemma repos_block_r :
    bvars (block_of B3 r) = bvars (block_of bs r) /\ bscale (block_of B3 r) = bscale (block_of bs r) /\
    AB (block_of B3 r) = AB (block_of bs r) /\ AD (block_of B3 r) = AD (block_of bs r) /\ A2 (block_of B3 r) = A2 (block_of bs r) /\
    posn (block_of B3 r) == posn (block_of bs b) * bscale (block_of bs b) / bscale (block_of bs r).
  Proof.
    unfold B3, repos, set_block, set_blocks, block_of. cbn [blocks]. rewrite nth_upd_nth_eq by exact Hr.
    cbn [bvars bscale AB AD A2 posn]. rewrite Qred_correct. repeat split; reflexivity.
  Qed.
  Lemma repos_book : book B3.
  Proof.
    destruct BK as [K1 K2 K3 K4 K5 K6 K7]. destruct repos_block_r as [Rv _].
    constructor; try assumption.
    - intros v Hv. change (blk_of B3 v) with (blk_of bs v). unfold B3, repos, set_block, set_blocks. cbn [blocks].
      rewrite upd_nth_length. apply K4. exact Hv.
    - intros v w Hv. change (blk_of B3 v) with (blk_of bs v). change (blk_of B3 w) with (blk_of bs w).
      change (svars B3) with (svars bs). destruct (Nat.eq_dec (blk_of bs v) r) as [E|E].
      + rewrite E, Rv, <- E. apply K5. exact Hv.
      + rewrite (repos_block _ E). apply K5. exact Hv.
    - intros v Hv. change (blk_of B3 v) with (blk_of bs v). destruct (Nat.eq_dec (blk_of bs v) r) as [E|E].
      + rewrite E, Rv, <- E. apply K6. exact Hv.
      + rewrite (repos_block _ E). apply K6. exact Hv.
  Qed.
  Lemma repos_act_inv : act_inv bs -> act_inv B3.
  Proof. apply act_inv_frame; reflexivity. Qed.
  Lemma repos_blk_ok X : X <> r -> blk_ok bs X -> blk_ok B3 X.
  Proof. intros N. apply blk_ok_frame; [reflexivity | reflexivity | apply repos_block; exact N]. Qed.
  Lemma repos_blk_st_r : blk_ok bs r -> blk_st B3 r.
  Proof.
    intros [N [S [E2 [EN _]]]]. destruct repos_block_r as [Rv [Rs [Rab [Rad [Ra2 _]]]]].
    unfold blk_st. cbv zeta. rewrite Rv, Rs, Rab, Rad, Ra2. change (svars B3) with (svars bs).
    assert (EO : forall V, tsum (svars bs) (off_of B3) V == tsum (svars bs) (off_of bs) V).
    { intros V. apply tsum_ext. intros v _. reflexivity. }
    rewrite EO. repeat split; assumption.
  Qed.
  Lemma repos_Y_other u : blk_of bs u <> r -> Yof B3 u == Yof bs u.
  Proof. intros N. unfold Yof. change (blk_of B3 u) with (blk_of bs u). rewrite (repos_block _ N). reflexivity. Qed.
  Lemma repos_Y_r u : blk_ok bs r -> blk_of bs u = r ->
    Yof B3 u == bscale (block_of bs b) * posn (block_of bs b) + off_of bs u.
  Proof.
    intros [_ [S _]] E. destruct repos_block_r as [_ [Rs [_ [_ [_ Rp]]]]].
    unfold Yof. change (blk_of B3 u) with (blk_of bs u). rewrite E, Rs, Rp. change (off_of B3 u) with (off_of bs u).
    cbv zeta in S. field. lra.
  Qed.
End Repos.

Theorem split_first_half s b c bs l r s4 :
  book (base s) -> act_inv (base s) -> forest (base s) -> wf_vars (svars (base s)) -> all_blk_ok (base s) -> all_sat0 (base s) ->
  act_of (base s) c = true -> b = blk_of (base s) (cl (con_of (base s) c)) ->
  stationary_block (base s) (base s) b -> lm_of (base s) c <= 0 ->
  T2 s -> (forall x, (x < length (scons (base s)))%nat -> ctime_of s x = ctr s) ->
  length (ctime s) = length (scons (base s)) ->
  length (bin s) = length (blocks (base s)) -> length (btime s) = length (blocks (base s)) ->
  (forall B, inhabited (base s) B -> exists h, bin_of s B = Some h /\ hgoodC s h /\ hsound s B h /\ hcomplete s B h) ->
  split (base s) b c = Ok (bs, l, r) ->
  merge_left (split_pre s b bs l r) l = Ok s4 ->
  exists M, MLS (Yof (base s)) (cr (con_of (base s) c)) (base s4) M /\
    (forall i, (i < length (scons (base s4)))%nat -> blk_of (base s4) (cr (con_of (base s4) i)) = M ->
               blk_of (base s4) (cl (con_of (base s4) i)) <> M -> 0 <= slack_val (base s4) i) /\
    scons (base s4) = scons (base s) /\ svars (base s4) = svars (base s) /\
    (exists M' c', MLH s4 M' c').
Proof.
  intros BK AI FO W OK SAT Hact Eb ST Hlm HT2 Hct Lct Lbi Lbt HG H HM.
  set (B0 := base s) in *. subst b. set (b := blk_of B0 (cl (con_of B0 c))) in *.
  destruct (split_glue B0 c bs l r BK AI FO W Hact H)
    as [BKs [AIs [_ [Ev [Es [Eo [El [Er [Lb [Hbl [Ecl [Ecr [Bo [Bb [Bback [ACT [_ [Old [OKl OKr]]]]]]]]]]]]]]]]]]].
  assert (Hc : (c < length (scons B0))%nat) by (rewrite <- (bk_cact _ BK); apply act_of_lt; exact Hact).
  destruct (con_ends_lt _ _ BK Hc) as [Hcl Hcr].
  set (n := length (svars B0)) in *.
  set (bs2 := set_blist bs (blist bs ++ [l; r])).
  assert (BK2 : book bs2) by (apply (book_frame bs); try reflexivity; exact BKs).
  assert (AI2 : act_inv bs2) by (apply (act_inv_frame bs); try reflexivity; exact AIs).
  assert (OK2 : forall X, blk_ok bs X -> blk_ok bs2 X) by (intros X; apply blk_ok_frame; reflexivity).
  assert (Hr2 : (r < length (blocks bs2))%nat) by (change (length (blocks bs2)) with (length (blocks bs)); lia).
  assert (Nlr : l <> r) by lia.
  set (s3 := split_pre s b bs l r) in *.
  assert (E3 : base s3 = repos bs2 b r) by apply split_pre_base.
  set (B3 := repos bs2 b r) in *.
  assert (BK3 : book B3) by (apply repos_book; assumption).
  assert (AI3 : act_inv B3) by (apply repos_act_inv; assumption).
  assert (Blk3 : forall u, blk_of B3 u = blk_of bs u) by reflexivity.
  assert (Ev3 : svars B3 = svars B0) by exact Ev.
  assert (Es3 : scons B3 = scons B0) by exact Es.
  assert (Kc3 : forall k, con_of B3 k = con_of B0 k) by (intros k; unfold con_of; rewrite Es3; reflexivity).
  assert (Kcs : forall k, con_of bs k = con_of B0 k) by (intros k; unfold con_of; rewrite Es; reflexivity).
  assert (W3 : wf_vars (svars B3)) by (rewrite Ev3; exact W).
  (* where a variable ends up *)
  assert (Cases : forall u, (u < n)%nat ->
            (blk_of B0 u <> b /\ blk_of bs u = blk_of B0 u /\ blk_of bs u <> l /\ blk_of bs u <> r) \/
            (blk_of B0 u = b /\ (blk_of bs u = l \/ blk_of bs u = r))).
  { intros u Hu. destruct (Nat.eq_dec (blk_of B0 u) b) as [E|E]; [right; split; [exact E | apply Bb; assumption]|].
    left. pose proof (Bo u Hu E) as X. pose proof (bk_blk _ BK u Hu) as Lt. split; [exact E|]. split; [exact X|]. rewrite X. lia. }
  assert (OKold : forall u, (u < n)%nat -> blk_of B0 u <> b -> blk_ok bs (blk_of B0 u)).
  { intros u Hu Nb. apply (blk_ok_frame B0); [exact Ev | exact Eo | apply Old, (bk_blk _ BK u Hu) | apply OK; exact Hu]. }
  assert (OK3 : forall u, (u < n)%nat -> blk_of bs u <> r -> blk_ok B3 (blk_of bs u)).
  { intros u Hu Nr. apply repos_blk_ok; [exact Nr|]. apply OK2.
    destruct (Cases u Hu) as [[Nb [X _]]|[_ [X|X]]]; [rewrite X; apply OKold; assumption | rewrite X; exact OKl | contradiction]. }
  assert (ST3 : all_blk_st B3).
  { intros u Hu. rewrite Ev3 in Hu. rewrite Blk3. destruct (Nat.eq_dec (blk_of bs u) r) as [E|E].
    - rewrite E. apply repos_blk_st_r; [exact Hr2 | apply OK2; exact OKr].
    - apply blk_ok_st. apply OK3; assumption. }
  set (rv := cr (con_of B0 c)) in *.
  assert (Erv : blk_of B3 rv = r) by (rewrite Blk3; exact Ecr).
  assert (OE3 : ok_except B3 (blk_of B3 rv)).
  { intros u Hu Nr. rewrite Ev3 in Hu. rewrite Erv in Nr. change (blk_of B3 u) with (blk_of bs u) in *. apply OK3; assumption. }
  (* the sign lemma: l moves left *)
  destruct (split_left_half_moves_left B0 bs b c l 1 BK W Hc Hact ST Ev Eo BKs) as [dl [Hdl HYl]]; try assumption.
  { intros i Hi Ei. apply Bback; [exact Hi | left; exact Ei]. }
  { exists (cl (con_of B0 c)). split; [exact Hcl | exact Ecl]. }
  { intros k Hk Ak Nk. rewrite (ACT k Hk Ak Nk). reflexivity. }
  { left. split; [exact Ecl|]. split; [fold rv; rewrite Ecr; congruence | reflexivity]. }
  { reflexivity. }
  assert (Ybs2 : forall u, Yof bs2 u = Yof bs u) by reflexivity.
  assert (YL : forall u, (u < n)%nat -> blk_of B3 u = l -> Yof B3 u == Yof B0 u - dl).
  { intros u Hu E. rewrite Blk3 in E. unfold B3. rewrite (repos_Y_other bs2 b r u) by (change (blk_of bs2 u) with (blk_of bs u); congruence).
    rewrite Ybs2. apply HYl; assumption. }
  assert (YO : forall u, (u < n)%nat -> blk_of B3 u <> l -> Yof B3 u == Yof B0 u).
  { intros u Hu Nl. rewrite Blk3 in Nl. destruct (Cases u Hu) as [[Nb [X [X1 X2]]]|[Eb' [X|X]]]; [| contradiction |].
    - unfold B3. rewrite (repos_Y_other bs2 b r u) by (change (blk_of bs2 u) with (blk_of bs u); exact X2).
      rewrite Ybs2. unfold Yof. rewrite X. rewrite (Old _ (bk_blk _ BK u Hu)).
      assert (EO : off_of bs u = off_of B0 u) by (unfold off_of; rewrite Eo; reflexivity). rewrite EO. reflexivity.
    - unfold B3. rewrite (repos_Y_r bs2 b r Hr2 u (OK2 r OKr) X).
      change (block_of bs2 b) with (block_of bs b). rewrite (Old b) by (rewrite <- El; exact Hbl).
      unfold Yof. rewrite Eb'.
      assert (EO : off_of bs2 u = off_of B0 u) by (unfold off_of; change (voff bs2) with (voff bs); rewrite Eo; reflexivity).
      rewrite EO. reflexivity. }
  assert (YS3 : ysat (Yof B0) B3).
  { intros k Hk. rewrite Es3 in Hk. rewrite Kc3. rewrite <- (slack_Y' B0 k W). apply SAT. exact Hk. }
  assert (I3 : MLS (Yof B0) rv (base s3) l).
  { rewrite E3. apply (MLS_entry (Yof B0) rv B3 l dl); try assumption.
    - rewrite Erv. congruence.
    - rewrite Ev3. exact Hcr.
    - intros u Hu E. rewrite Ev3 in Hu. apply YL; assumption.
    - intros u Hu E. rewrite Ev3 in Hu. apply YO; assumption. }
  assert (HW3 : HW (stamp s3 l) l).
  { apply (split_entry_HW s s3 b l r HT2 Hct Lct Lbi Lbt W BK HG eq_refl eq_refl eq_refl eq_refl).
    - rewrite E3. exact Ev3.
    - rewrite E3. exact Es3.
    - exact El.
    - exact Er.
    - rewrite E3. unfold B3, repos, set_block, set_blocks. cbn [blocks]. rewrite upd_nth_length. exact Lb.
    - exact Hbl.
    - intros u Hu Nb. rewrite E3, Blk3. apply Bo; assumption.
    - intros u Hu Eb'. rewrite E3, Blk3. apply Bb; assumption.
    - intros u Hu Nl. rewrite E3 in *. apply YO; assumption.
    - rewrite E3. exact BK3.
    - rewrite E3. exact AI3.
    - rewrite E3. exact ST3. }
  assert (Inh3 : inhabited (base s3) l).
  { rewrite E3. exists (cl (con_of B0 c)). split; [rewrite Ev3; exact Hcl | rewrite Blk3; exact Ecl]. }
  destruct (merge_left_split_closed (Yof B0) rv s3 l s4 I3 HW3 Inh3 HM) as [M [IM [HI [A1 A2]]]].
  exists M. split; [exact IM|]. split; [exact HI|]. rewrite E3 in A1, A2.
  split; [rewrite A1; exact Es3|]. split; [rewrite A2; exact Ev3|].
  exact (merge_left_split_HW s3 l s4 HW3 Inh3 HM).
Qed.

(* Solver::refine's second loop replaces the base state by findMinLM's (only the multipliers differ): the heap facts stay *)
Lemma heaps_lm_only s bs :
  lm_only (base s) bs ->
  (forall B, inhabited (base s) B -> exists h, bin_of s B = Some h /\ hgoodC s h /\ hsound s B h /\ hcomplete s B h) ->
  (forall B, inhabited bs B -> exists h, bin_of (set_base s bs) B = Some h /\ hgoodC (set_base s bs) h /\
                                          hsound (set_base s bs) B h /\ hcomplete (set_base s bs) B h).
Proof.
  intros [lm [t E]] HG B Inh. subst bs. destruct (HG B Inh) as [h [A1 [[A2 A3] [A4 A5]]]].
  exists h. split; [exact A1|]. split; [split; [exact A2|]|split].
  - apply (hordh_keys s); [|exact A3]. intros x _. reflexivity.
  - exact A4.
  - exact A5.
Qed.
