(* Non-vacuity of the theorems of VpscForest / VpscWalks / VpscTrichotomy / VpscReach / VpscStats / VpscNoThrow:
   their hypotheses are satisfiable on concrete non-trivial states, including a state in which the satisfy loop has to
   split a block on the path between the two ends of a violated constraint and re-merge, and one with a flagged
   constraint (positive cycle). *)
From Adapt Require Import Num.Qaux Vpsc.VpscSpec Vpsc.VpscModel Vpsc.VpscInv Vpsc.VpscInvB Vpsc.VpscFrame Vpsc.VpscTree
  Vpsc.VpscPopulate Vpsc.VpscForest Vpsc.VpscWalks Vpsc.VpscTrichotomy Vpsc.VpscReach Vpsc.VpscStats Vpsc.VpscNoThrow.
Local Open Scope Q_scope.

Definition e_vs : list var := [mkvar 0 1 1; mkvar 0 1 1; mkvar 0 1 1].
Definition e_cs : list con := [mkcon 0 1 1 false; mkcon 1 2 1 false].
Lemma e_wfv : wf_vars e_vs.
Proof. intros i Hi. destruct i as [|[|[|i]]]; cbn in *; try lia; split; reflexivity. Qed.
Lemma e_wfc : wf_cons e_vs e_cs.
Proof. intros c [<-|[<-|[]]]; cbn; split; lia. Qed.

(* chain 0 -> 1 -> 2 solved (one block, both constraints active), then the constraint x0 + 5 <= x2 is added *)
Definition e_s1 : st := match step 100 (init e_vs e_cs) Solve with Ok s => s | _ => init [] [] end.
Definition e_s2 : st := add_constraint e_s1 (mkcon 0 2 5 false).

Example e_s1_reachable : reachable_wf e_s1 /\ act_of e_s1 0 = true /\ act_of e_s1 1 = true /\ blk_of e_s1 0 = blk_of e_s1 2.
Proof.
  split; [|vm_compute; auto].
  apply (rw_step (init e_vs e_cs) Solve 100%nat); [apply rw_init; [exact e_wfv | exact e_wfc] | exact I | vm_compute; reflexivity].
Qed.
Example e_s2_reachable : reachable_wf e_s2.
Proof.
  apply (rw_step e_s1 (AddConstraint (mkcon 0 2 5 false)) 0%nat); [exact (proj1 e_s1_reachable) | vm_compute; split; lia | reflexivity].
Qed.

(* the invariant holds there (by the theorems), and agrees with the boolean versions evaluated by the checks *)
Example e_s2_inv : inv e_s2 /\ all_ok e_s2 /\ all_invb e_s2 = true.
Proof.
  split; [exact (reachable_inv _ (reachable_wf_reachable _ e_s2_reachable))|].
  split; [exact (reachable_all_ok _ e_s2_reachable) | vm_compute; reflexivity].
Qed.

(* split_preserves: constraint 1 is active in e_s1 and Block::split on it succeeds; hypotheses and conclusion hold *)
Example split_preserves_example :
  exists s' l r, split e_s1 (blk_of e_s1 (cl (con_of e_s1 1))) 1 = Ok (s', l, r) /\
                 book s' /\ act_inv s' /\ forest s' /\ blk_of s' 0 <> blk_of s' 2 /\ blk_of s' 0 = blk_of s' 1.
Proof.
  pose proof (reachable_inv _ (reachable_wf_reachable _ (proj1 e_s1_reachable))) as [A B C D].
  destruct (split e_s1 (blk_of e_s1 (cl (con_of e_s1 1))) 1) as [[[s' l] r]| |] eqn:E; try (vm_compute in E; discriminate).
  exists s', l, r. split; [reflexivity|].
  destruct (split_preserves e_s1 1%nat s' l r A B C ltac:(vm_compute; reflexivity) E) as [A' [B' C']].
  split; [exact A'|]. split; [exact B'|]. split; [exact C'|].
  vm_compute in E. inversion E. subst s'. vm_compute. split; [discriminate | reflexivity].
Qed.

(* findMinLMBetween on the block of e_s2 between the ends of the new, violated constraint returns constraint 1, which
   separates variable 0 from variable 2 in the block's tree *)
Example separates_example :
  exists s', find_min_lm_between e_s2 (blk_of e_s2 0) 0 2 = Ok (Some 1%nat, s') /\
             separates (con_of e_s2) (Vof e_s2 (blk_of e_s2 0)) (Eof e_s2 (blk_of e_s2 0)) 1 0 2.
Proof.
  destruct e_s2_inv as [[A B C D] _].
  destruct (find_min_lm_between e_s2 (blk_of e_s2 0) 0 2) as [[m s']| |] eqn:E; try (vm_compute in E; discriminate).
  assert (Em : m = Some 1%nat) by (vm_compute in E; inversion E; reflexivity). subst m.
  exists s'. split; [reflexivity|].
  exact (proj2 (find_min_lm_between_spec e_s2 _ 0%nat 2%nat _ s' A B C ltac:(vm_compute; lia) eq_refl E) 1%nat eq_refl).
Qed.

(* one iteration of the satisfy loop from e_s2 takes the split-and-re-merge branch; the invariant is re-established *)
Example satisfy_step_example :
  exists s', satisfy_step e_s2 = Ok (true, s') /\ inv s' /\ all_ok s' /\
             act_of s' 2 = true /\ act_of s' 1 = false /\ inactive s' = [1%nat].
Proof.
  destruct e_s2_inv as [I [A _]].
  destruct (satisfy_step e_s2) as [[b s']| |] eqn:E; try (vm_compute in E; discriminate).
  assert (Eb : b = true) by (vm_compute in E; inversion E; reflexivity). subst b.
  exists s'. split; [reflexivity|]. split; [exact (proj1 (satisfy_step_inv _ _ _ I E))|].
  split; [exact (satisfy_step_all_ok _ _ _ A E)|].
  vm_compute in E. inversion E. subst s'. vm_compute. auto.
Qed.

(* the whole satisfy() from e_s2 returns; no_final_throw's hypotheses hold, the result satisfies every constraint *)
Example no_final_throw_example :
  exists p s2, split_blocks e_s2 = Ok p /\ satisfy_loop 100 (fst p) = Ok s2 /\
               final_scan (cleanup s2) = Ok (cleanup s2).
Proof.
  destruct (split_blocks e_s2) as [p| |] eqn:E1; try (vm_compute in E1; discriminate).
  destruct (satisfy_loop 100 (fst p)) as [s2| |] eqn:E2; try (vm_compute in E1; inversion E1; subst p; vm_compute in E2; discriminate).
  exists p, s2. split; [reflexivity|]. split; [exact E2|].
  exact (no_final_throw_reach 100 e_s2 p s2 (reachable_wf_reachable _ e_s2_reachable) E1 E2).
Qed.

Example sat_on_return_history_example :
  exists s', run_result Satisfy 100 e_s2 s' /\ uns_of s' 2 = false /\ act_of s' 2 = true /\
             slackv (svars s') (place_of (final_positions s')) (con_of s' 2) == 0.
Proof.
  destruct (step 100 e_s2 Satisfy) as [s'| |] eqn:E; try (vm_compute in E; discriminate).
  exists s'. split; [exact E|].
  assert (U : uns_of s' 2 = false /\ act_of s' 2 = true /\ (2 < length (scons s'))%nat).
  { vm_compute in E. inversion E. subst s'. vm_compute. repeat split; lia. }
  destruct U as [U [Ac L]]. split; [exact U|]. split; [exact Ac|].
  exact (proj1 (proj2 (sat_on_return_history 100 e_s2 Satisfy s' e_s2_reachable E 2%nat L U)) Ac).
Qed.

(* a positive cycle: one constraint ends flagged, the others active, the work-list empty -- trichotomy on a flagged state *)
Definition cyc_cs : list con := [mkcon 0 1 1 false; mkcon 1 2 1 false; mkcon 2 0 1 false].
Example flagged_example :
  exists s', step 100 (init e_vs cyc_cs) Solve = Ok s' /\ inv s' /\
             uns_of s' 1 = true /\ act_of s' 0 = true /\ act_of s' 2 = true /\ inactive s' = [].
Proof.
  assert (W : wf_cons e_vs cyc_cs) by (intros c [<-|[<-|[<-|[]]]]; cbn; split; lia).
  destruct (step 100 (init e_vs cyc_cs) Solve) as [s'| |] eqn:E; try (vm_compute in E; discriminate).
  exists s'. split; [reflexivity|].
  split; [exact (step_inv 100 _ Solve s' (init_inv _ _ W) I E)|].
  vm_compute in E. inversion E. subst s'. vm_compute. auto.
Qed.

(* statistics: divisors positive on e_s2 *)
Example no_division_by_zero_example :
  0 < A2 (block_of e_s2 (blk_of e_s2 0)) /\ A2 (block_of e_s2 (blk_of e_s2 0)) == 3.
Proof.
  destruct (no_division_by_zero e_s2 e_s2_reachable) as [_ [H _]].
  assert (L : (blk_of e_s2 0 < length (blocks e_s2))%nat) by (vm_compute; lia).
  split; [exact (proj1 (H (blk_of e_s2 0) L)) | vm_compute; reflexivity].
Qed.
