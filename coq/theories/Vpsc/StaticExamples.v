(* Non-vacuity of the static-solver theorems (concrete runs of the model by vm_compute) and the part of
   `static_no_throw_on_dag` that is proved. *)
From Adapt Require Import Num.Qaux Vpsc.VpscSpec Vpsc.VpscModel Vpsc.VpscInv Vpsc.StaticModel Vpsc.StaticFrame
  Vpsc.StaticInv Vpsc.StaticInvB.
Local Open Scope Q_scope.

(* a DAG on 4 variables that needs merges: 0 -> 1 -> 3, 0 -> 2 -> 3, desired positions pulling against the gaps *)
Definition ex_vs : list var := [mkvar 3 1 1; mkvar 0 2 1; mkvar 1 1 1; mkvar 0 1 1].
Definition ex_cs : list con := [mkcon 0 1 2 false; mkcon 1 3 1 false; mkcon 0 2 1 false; mkcon 2 3 2 false].

Example static_satisfy_example :
  wf_vars ex_vs /\ wf_cons ex_vs ex_cs /\
  exists s', static_satisfy (static_init ex_vs ex_cs) = Ok s' /\
             existsb (fun c => act_of (base s') c) (seq 0 4) = true /\ is_dag (init ex_vs ex_cs) = true.
Proof.
  split; [|split].
  - intros i Hi. unfold ex_vs in *. cbn [length] in Hi.
    destruct i as [|[|[|[|i]]]]; try lia; cbn; split; reflexivity.
  - intros c [<-|[<-|[<-|[<-|[]]]]]; cbn; lia.
  - eexists. split; [vm_compute; reflexivity|]. split; vm_compute; reflexivity.
Qed.
Example static_solve_example :
  exists s', static_solve (static_init ex_vs ex_cs) = Ok s' /\ length (static_positions s') = 4%nat.
Proof. eexists. split; vm_compute; reflexivity. Qed.
(* an infeasible two-cycle is REPORTED: the closing scan throws constraint 0 *)
Example static_satisfy_throws_example :
  static_satisfy (static_init [mkvar 0 1 1; mkvar 0 1 1] [mkcon 0 1 1 false; mkcon 1 0 1 false]) = ThrowUnsat 0.
Proof. vm_compute. reflexivity. Qed.

(* `static_no_throw_on_dag`, the proved part: the closing scan of Solver::satisfy cannot throw once the merge pass has
   left every constraint with slack >= 0.  What is NOT proved is that the merge pass achieves this on every DAG (the
   classic VPSC argument: processing the variables in topological order, after mergeLeft(block(v)) all constraints between
   processed variables hold; it needs (i) the pairing heap with lazily refreshed keys still yields a most violated
   in-constraint, (ii) blocks of processed variables only move left while v is merged in, (iii) merging across the most
   violated constraint keeps the constraints between the two blocks).  The boolean forms of exactly these statements
   (StaticInvB: prefix_satb, root_minb, in_heapb, monotoneb, all_satb) are evaluated on every state of every DAG
   instance of every run of checks/c01.py; no counterexample was found. *)
Theorem static_no_throw_on_dag_partial s s1 :
  merge_pass s = Ok s1 ->
  (forall c, (c < length (scons (base s1)))%nat -> 0 <= slack_val (base s1) c) ->
  exists s', static_satisfy s = Ok s' /\ base s' = cleanup (base s1).
Proof.
  intros H A. unfold static_satisfy. rewrite H. cbn [bind].
  set (s2 := note_scan (set_base s1 (cleanup (base s1)))).
  assert (E2 : base s2 = cleanup (base s1)) by (unfold s2; rewrite note_scan_base; reflexivity).
  exists s2. split; [|exact E2].
  unfold sfinal_scan. destruct (find _ _) as [c|] eqn:F; [|reflexivity].
  apply find_some in F. destruct F as [Hin Hlt]. apply in_seq in Hin. unfold sslack in Hlt. rewrite E2 in Hin, Hlt.
  apply Qltb_spec in Hlt. change (slack_val (cleanup (base s1)) c) with (slack_val (base s1) c) in Hlt.
  change (length (scons (cleanup (base s1)))) with (length (scons (base s1))) in Hin.
  assert (P := A c (proj2 Hin)). unfold ZERO_UPPERBOUND in Hlt. lra.
Qed.
(* ... and its hypothesis is satisfiable (and holds) on the example DAG *)
Example static_no_throw_example :
  exists s1, merge_pass (static_init ex_vs ex_cs) = Ok s1 /\ all_satb s1 = true.
Proof. eexists. split; vm_compute; reflexivity. Qed.
