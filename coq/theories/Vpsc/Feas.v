(* C01 oracles with soundness proofs (DESIGN 5.1):
   - sat_or_flagged: every constraint that is not flagged unsatisfiable holds within tol (equalities tight within tol);
   - a Bellman-Ford style longest-path / positive-cycle detector for systems of separation constraints.
     `detect` returns  Potentials d  (then d, divided by the scales, satisfies every constraint: theorem
     detect_potentials_sound),  PosCycle w  (a closed walk of positive total gap; then NO placement satisfies all
     constraints: theorem detect_poscycle_sound) or the explicit third outcome  Unknown  (never observed; every
     theorem excludes it).  The search inside `detect` (relaxation rounds, predecessor walk) needs no proof: its two
     answers are validated by the proved checkers potentials_ok / closed_walk_ok before they are returned.
   Equalities l+g==r are the two edges l+g<=r and r-g<=l, so the detector also decides mixed systems. *)
From Adapt Require Import Num.Qaux Vpsc.VpscSpec.
Local Open Scope Q_scope.

(* ------------------------------------------------------------------ sat_or_flagged *)
Definition con_within (vs : list var) (x : place) (tol : Q) (c : con) : bool :=
  if ceq c then Qleb (- tol) (slackv vs x c) && Qleb (slackv vs x c) tol
  else Qleb (- tol) (slackv vs x c).

Definition sat_or_flagged (vs : list var) (cs : list con) (xs : list Q) (flags : list bool) (tol : Q) : bool :=
  Nat.eqb (length flags) (length cs) && Nat.eqb (length xs) (length vs) &&
  forallb (fun p => snd p || con_within vs (place_of xs) tol (fst p)) (combine cs flags).

Definition within (vs : list var) (x : place) (tol : Q) (c : con) : Prop :=
  - tol <= slackv vs x c /\ (ceq c = true -> slackv vs x c <= tol).

Lemma con_within_spec vs x tol c : con_within vs x tol c = true <-> within vs x tol c.
Proof.
  unfold con_within, within. destruct (ceq c).
  - rewrite andb_true_iff, !Qleb_spec. tauto.
  - rewrite Qleb_spec. split; [intros H; split; [exact H | discriminate] | tauto].
Qed.

Lemma combine_nth_error {A B} (l : list A) (l' : list B) k a b :
  nth_error l k = Some a -> nth_error l' k = Some b -> In (a, b) (combine l l').
Proof.
  revert l' k. induction l as [|h t IH]; intros [|h' t'] [|k] Ha Hb; cbn in *; try discriminate.
  - inversion Ha; inversion Hb; subst. left. reflexivity.
  - right. eapply IH; eassumption.
Qed.

Theorem sat_or_flagged_sound vs cs xs flags tol :
  sat_or_flagged vs cs xs flags tol = true ->
  forall k c, nth_error cs k = Some c -> nth_error flags k = Some false ->
    within vs (place_of xs) tol c.
Proof.
  unfold sat_or_flagged. rewrite !andb_true_iff, forallb_forall. intros [_ H] k c Hc Hf.
  specialize (H (c, false) (combine_nth_error _ _ _ _ _ Hc Hf)). cbn in H.
  apply con_within_spec. exact H.
Qed.

(* with tol = 0 the unflagged subsystem is exactly feasible *)
Corollary sat_or_flagged_exact vs cs xs flags :
  sat_or_flagged vs cs xs flags 0 = true ->
  forall k c, nth_error cs k = Some c -> nth_error flags k = Some false -> holds vs (place_of xs) c.
Proof.
  intros H k c Hc Hf. destruct (sat_or_flagged_sound _ _ _ _ _ H k c Hc Hf) as [A B].
  unfold holds. destruct (ceq c); [specialize (B eq_refl); lra | lra].
Qed.

(* ------------------------------------------------------------------ difference constraints as edges *)
Record edge := mkedge { efrom : nat; eto : nat; ew : Q }.   (* u_from + w <= u_to *)

Definition edges_of_con (c : con) : list edge :=
  if ceq c then [mkedge (cl c) (cr c) (gap c); mkedge (cr c) (cl c) (- gap c)]
  else [mkedge (cl c) (cr c) (gap c)].
Definition edges_of (cs : list con) : list edge := flat_map edges_of_con cs.

Definition esat (u : nat -> Q) (e : edge) : Prop := u (efrom e) + ew e <= u (eto e).
Definition esatb (u : nat -> Q) (e : edge) : bool := Qleb (u (efrom e) + ew e) (u (eto e)).
Lemma esatb_spec u e : esatb u e = true <-> esat u e.
Proof. apply Qleb_spec. Qed.

(* potentials are the scaled positions *)
Definition pot_of (vs : list var) (x : place) : nat -> Q := fun i => scl (vget vs i) * x i.

Lemma holds_edges vs x c : holds vs x c <-> (forall e, In e (edges_of_con c) -> esat (pot_of vs x) e).
Proof.
  unfold holds, edges_of_con, esat, pot_of, slackv. destruct (ceq c); cbn [In]; split.
  - intros H e [<-|[<-|[]]]; cbn; lra.
  - intros H. pose proof (H _ (or_introl eq_refl)) as A. pose proof (H _ (or_intror (or_introl eq_refl))) as B.
    cbn in A, B. lra.
  - intros H e [<-|[]]; cbn; lra.
  - intros H. pose proof (H _ (or_introl eq_refl)) as A. cbn in A. lra.
Qed.

Lemma feasible_edges vs cs x : feasible vs cs x <-> (forall e, In e (edges_of cs) -> esat (pot_of vs x) e).
Proof.
  unfold feasible, edges_of. split.
  - intros F e He. apply in_flat_map in He. destruct He as [c [Hc He]].
    exact (proj1 (holds_edges vs x c) (F c Hc) e He).
  - intros H c Hc. apply holds_edges. intros e He. apply H. apply in_flat_map. exists c. split; assumption.
Qed.

(* ------------------------------------------------------------------ closed walks of positive weight *)
Definition edge_eqb (a b : edge) : bool :=
  Nat.eqb (efrom a) (efrom b) && Nat.eqb (eto a) (eto b) && Qeqb (ew a) (ew b).
Definition mem_edge (es : list edge) (e : edge) : bool := existsb (edge_eqb e) es.

Lemma mem_edge_esat u es e : mem_edge es e = true -> (forall e', In e' es -> esat u e') -> esat u e.
Proof.
  unfold mem_edge. rewrite existsb_exists. intros [e' [Hin Heq]] H.
  unfold edge_eqb in Heq. rewrite !andb_true_iff, !Nat.eqb_eq, Qeqb_spec in Heq.
  destruct Heq as [[A B] C]. specialize (H e' Hin). unfold esat in *. rewrite A, B, C. exact H.
Qed.

Fixpoint chain (s : nat) (w : list edge) : option nat :=
  match w with
  | [] => Some s
  | e :: t => if Nat.eqb (efrom e) s then chain (eto e) t else None
  end.
Fixpoint wsum (w : list edge) : Q := match w with [] => 0 | e :: t => ew e + wsum t end.

Lemma chain_bound u w : forall s t,
  chain s w = Some t -> (forall e, In e w -> esat u e) -> u s + wsum w <= u t.
Proof.
  induction w as [|e w IH]; intros s t Hc Hs; cbn in *.
  - inversion Hc. lra.
  - destruct (Nat.eqb (efrom e) s) eqn:E; [|discriminate]. apply Nat.eqb_eq in E. subst s.
    assert (esat u e) by (apply Hs; left; reflexivity). unfold esat in H.
    assert (u (eto e) + wsum w <= u t) by (apply IH; [exact Hc | intros; apply Hs; right; assumption]).
    lra.
Qed.

Definition closed_walk_ok (es : list edge) (w : list edge) : bool :=
  match w with
  | [] => false
  | e :: _ =>
      forallb (mem_edge es) w &&
      match chain (efrom e) w with Some t => Nat.eqb t (efrom e) | None => false end &&
      Qltb 0 (wsum w)
  end.

Theorem closed_walk_infeasible es w u :
  closed_walk_ok es w = true -> (forall e, In e es -> esat u e) -> False.
Proof.
  unfold closed_walk_ok. destruct w as [|e0 w']; [discriminate|].
  set (w := e0 :: w'). rewrite !andb_true_iff, forallb_forall, Qltb_spec. intros [[M C] P] H.
  destruct (chain (efrom e0) w) as [t|] eqn:Ec; [|discriminate]. apply Nat.eqb_eq in C. subst t.
  assert (B : u (efrom e0) + wsum w <= u (efrom e0)).
  { apply (chain_bound u w _ _ Ec). intros e He. apply (mem_edge_esat u es e (M e He) H). }
  lra.
Qed.

(* ------------------------------------------------------------------ the detector *)
Definition potentials_ok (es : list edge) (d : list Q) : bool := forallb (esatb (place_of d)) es.

Definition bfstate := (list Q * list (option edge))%type.
Definition relax (st : bfstate) (e : edge) : bfstate :=
  let d := fst st in
  let cand := Qred (nth (efrom e) d 0 + ew e) in
  if Qltb (nth (eto e) d 0) cand
  then (upd_nth d (eto e) cand, upd_nth (snd st) (eto e) (Some e))
  else st.
Fixpoint rounds (k : nat) (es : list edge) (st : bfstate) : bfstate :=
  match k with
  | O => st
  | S k' => if potentials_ok es (fst st) then st else rounds k' es (fold_left relax es st)
  end.
Fixpoint back (k : nat) (pr : list (option edge)) (v : nat) : nat :=
  match k with
  | O => v
  | S k' => match nth v pr None with Some e => back k' pr (efrom e) | None => v end
  end.
Fixpoint collect (k : nat) (pr : list (option edge)) (v0 v : nat) (acc : list edge) : list edge :=
  match k with
  | O => acc
  | S k' => match nth v pr None with
            | Some e => if Nat.eqb (efrom e) v0 then e :: acc else collect k' pr v0 (efrom e) (e :: acc)
            | None => acc
            end
  end.

Inductive bf_result := Potentials (d : list Q) | PosCycle (w : list edge) | Unknown.

(* try every vertex as the start of the predecessor walk; the first start whose walk passes closed_walk_ok wins *)
Fixpoint first_cycle (n : nat) (es : list edge) (pr : list (option edge)) (starts : list nat) : option (list edge) :=
  match starts with
  | [] => None
  | v :: t =>
      let v' := back (S n) pr v in
      let w := collect (S n) pr v' v' [] in
      if closed_walk_ok es w then Some w else first_cycle n es pr t
  end.

Lemma first_cycle_ok n es pr starts w : first_cycle n es pr starts = Some w -> closed_walk_ok es w = true.
Proof.
  induction starts as [|v t IH]; cbn [first_cycle]; [discriminate|].
  destruct (closed_walk_ok es (collect (S n) pr (back (S n) pr v) (back (S n) pr v) [])) eqn:E.
  - intros [= <-]. exact E.
  - exact IH.
Qed.

Definition detect (n : nat) (cs : list con) : bf_result :=
  let es := edges_of cs in
  let st := rounds (S n) es (repeat 0 n, repeat None n) in
  if potentials_ok es (fst st) then Potentials (fst st)
  else match first_cycle n es (snd st) (seq 0 n) with
       | Some w => PosCycle w
       | None => Unknown
       end.

Theorem detect_poscycle_sound vs cs w :
  detect (length vs) cs = PosCycle w -> forall x, ~ feasible vs cs x.
Proof.
  unfold detect. set (es := edges_of cs). set (st := rounds _ _ _).
  destruct (potentials_ok es (fst st)); [discriminate|].
  destruct (first_cycle (length vs) es (snd st) (seq 0 (length vs))) as [w'|] eqn:E; [|discriminate].
  intros [= <-] x F. apply (closed_walk_infeasible es w' (pot_of vs x) (first_cycle_ok _ _ _ _ _ E)).
  apply feasible_edges. exact F.
Qed.

Lemma potentials_feasible vs cs d :
  wf_vars vs -> wf_cons vs cs -> potentials_ok (edges_of cs) d = true ->
  feasible vs cs (fun i => place_of d i / scl (vget vs i)).
Proof.
  intros WV WC P. unfold potentials_ok in P. rewrite forallb_forall in P.
  apply feasible_edges. intros e He. specialize (P e He). apply esatb_spec in P.
  assert (R : (efrom e < length vs)%nat /\ (eto e < length vs)%nat).
  { unfold edges_of in He. apply in_flat_map in He. destruct He as [c [Hc He]].
    destruct (WC c Hc) as [A B]. unfold edges_of_con in He.
    destruct (ceq c); cbn in He; intuition (subst; cbn; assumption). }
  destruct R as [R1 R2]. destruct (WV _ R1) as [_ S1]. destruct (WV _ R2) as [_ S2].
  unfold esat, pot_of in *.
  assert (E1 : scl (vget vs (efrom e)) * (place_of d (efrom e) / scl (vget vs (efrom e))) == place_of d (efrom e))
    by (field; lra).
  assert (E2 : scl (vget vs (eto e)) * (place_of d (eto e) / scl (vget vs (eto e))) == place_of d (eto e))
    by (field; lra).
  rewrite E1, E2. exact P.
Qed.

Theorem detect_potentials_sound vs cs d :
  wf_vars vs -> wf_cons vs cs ->
  detect (length vs) cs = Potentials d ->
  feasible vs cs (fun i => place_of d i / scl (vget vs i)).
Proof.
  intros WV WC. unfold detect. set (es := edges_of cs). set (st := rounds _ _ _).
  destruct (potentials_ok es (fst st)) eqn:E.
  - intros [= <-]. apply potentials_feasible; assumption.
  - destruct (first_cycle _ _ _ _); discriminate.
Qed.

(* the two answers exclude each other, so on every run that does not say Unknown the detector DECIDES feasibility *)
Corollary detect_decides vs cs :
  wf_vars vs -> wf_cons vs cs ->
  match detect (length vs) cs with
  | Potentials _ => exists x, feasible vs cs x
  | PosCycle _ => forall x, ~ feasible vs cs x
  | Unknown => True
  end.
Proof.
  intros WV WC. destruct (detect (length vs) cs) eqn:E.
  - eexists. apply (detect_potentials_sound vs cs d WV WC E).
  - apply (detect_poscycle_sound vs cs w E).
  - exact I.
Qed.

(* ------------------------------------------------------------------ non-vacuity *)
Definition fx_vs := [mkvar 0 1 1; mkvar 0 1 2; mkvar 0 1 1].
(* 3-cycle of total gap +1 *)
Definition fx_cyc := [mkcon 0 1 1 false; mkcon 1 2 1 false; mkcon 2 0 (-1) false].
(* same with total gap 0: feasible *)
Definition fx_ok := [mkcon 0 1 1 false; mkcon 1 2 1 false; mkcon 2 0 (-2) false].
Example detect_example_cycle : exists w, detect 3 fx_cyc = PosCycle w /\ wsum w == 1.
Proof. eexists. split; [vm_compute; reflexivity | vm_compute; reflexivity]. Qed.
Example detect_example_feasible : detect 3 fx_ok = Potentials [0; 1; 2].
Proof. vm_compute. reflexivity. Qed.
Example detect_example_equality_infeasible :
  exists w, detect 2 [mkcon 0 1 1 true; mkcon 0 1 2 false] = PosCycle w.
Proof. eexists. vm_compute. reflexivity. Qed.
Example sat_or_flagged_example :
  sat_or_flagged fx_vs fx_cyc [0; 1#2; 2] [false; false; true] 0 = true
  /\ sat_or_flagged fx_vs fx_cyc [0; 1#2; 2] [false; false; false] (1#1000000) = false.
Proof. split; vm_compute; reflexivity. Qed.
