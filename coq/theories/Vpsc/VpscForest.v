(* The forest invariant of the IncSolver model (C01, DESIGN 5.1 / Appendix A `wf_forest`): in every state the active
   constraints inside the block of a variable form a spanning tree of that block's variables.
   Proved here: it holds initially; it is preserved by merge across a constraint between two different blocks (two trees
   joined by one edge), by Block::split (removing one tree edge leaves two trees, and populateSplitBlock from both ends
   collects exactly their vertex sets, so together with book and act_inv the split state is well formed again), by
   add_constraint, set_desired, flagging, moving blocks, cleanup and every walk that only writes lm. *)
From Adapt Require Import Num.Qaux Vpsc.VpscSpec Vpsc.VpscModel Vpsc.VpscInv Vpsc.VpscFrame Vpsc.VpscTree Vpsc.VpscPopulate.
Local Open Scope Q_scope.

Definition Vof (s : st) (B : nat) : nat -> Prop := fun w => (w < length (svars s))%nat /\ blk_of s w = B.
Definition Eof (s : st) (B : nat) : nat -> Prop :=
  fun e => (e < length (scons s))%nat /\ act_of s e = true /\ blk_of s (cl (con_of s e)) = B.
Definition forest (s : st) : Prop :=
  forall v, (v < length (svars s))%nat -> tree (con_of s) (Vof s (blk_of s v)) (Eof s (blk_of s v)).

Lemma con_ends s e : book s -> (e < length (scons s))%nat ->
  (cl (con_of s e) < length (svars s))%nat /\ (cr (con_of s e) < length (svars s))%nat.
Proof. intros BK He. apply (bk_cons s BK). unfold con_of. apply nth_In. exact He. Qed.

(* forest only looks at svars' length, scons, vblk, cact *)
Lemma forest_frame s s' :
  length (svars s') = length (svars s) -> scons s' = scons s -> vblk s' = vblk s -> cact s' = cact s ->
  forest s -> forest s'.
Proof.
  intros E0 E1 E2 E3 F v Hv. rewrite E0 in Hv.
  assert (Eb : forall w, blk_of s' w = blk_of s w) by (intros; unfold blk_of; rewrite E2; reflexivity).
  assert (Ec : forall e, con_of s' e = con_of s e) by (intros; unfold con_of; rewrite E1; reflexivity).
  apply (tree_ext_K (con_of s)); [|intros; apply Ec].
  apply (tree_ext _ _ _ _ _ (F v Hv)).
  - intros w. unfold Vof. rewrite E0, !Eb. tauto.
  - intros e. unfold Eof, act_of. rewrite E1, E3, Ec, !Eb. tauto.
Qed.
Lemma forest_lm_only s s' : lm_only s s' -> forest s -> forest s'.
Proof. intros [lm [t ->]] H. exact H. Qed.

(* ------------------------------------------------------------------ the initial state *)
Theorem init_forest vs cs : wf_cons vs cs -> forest (init vs cs).
Proof.
  intros W. rewrite init_unfold.
  set (s0 := mkst vs cs _ _ _ _ _ _ _ _ _).
  assert (H0 : init_facts vs cs 0 s0).
  { constructor; cbn; try reflexivity; try (apply repeat_length). intros i Hi. lia. }
  destruct (init_fold_facts vs cs (length vs) s0 (le_n _) H0) as [A B C D E F G].
  set (s := fold_left init_step (seq 0 (length vs)) s0) in *.
  intros v Hv. rewrite A in Hv. apply (tree_leaf _ v).
  - intros w. unfold Vof. rewrite A, (proj1 (G v Hv)). split.
    + intros [Hw Ew]. rewrite (proj1 (G w Hw)) in Ew. exact Ew.
    + intros ->. split; [exact Hv | apply (proj1 (G v Hv))].
  - intros e [He [Ha _]]. unfold act_of in Ha. rewrite E in Ha.
    revert Ha. generalize (length cs) as m. intros m. revert e He.
    induction m as [|m IH]; intros [|e] He; cbn; try discriminate. apply IH. lia.
Qed.

(* ------------------------------------------------------------------ split *)
Record split_facts (s : st) (c this : nat) (s' : st) (l r : nat) (V1 V2 : nat -> Prop) : Prop := {
  sf_svars : svars s' = svars s;
  sf_scons : scons s' = scons s;
  sf_voff : voff s' = voff s;
  sf_cuns : cuns s' = cuns s;
  sf_clm : clm s' = clm s;
  sf_blist : blist s' = blist s;
  sf_inactive : inactive s' = inactive s;
  sf_cact : cact s' = upd_nth (cact s) c false;
  sf_l : l = length (blocks s);
  sf_r : r = S l;
  sf_lblocks : length (blocks s') = S (S l);
  sf_lvblk : length (vblk s') = length (vblk s);
  sf_old : forall B, (B < length (blocks s))%nat -> block_of s' B = block_of s B;
  sf_V1 : forall w, V1 w -> blk_of s' w = l;
  sf_V2 : forall w, V2 w -> blk_of s' w = r;
  sf_out : forall w, blk_of s w <> this -> blk_of s' w = blk_of s w;
  sf_meml : forall w, In w (bvars (block_of s' l)) <-> V1 w;
  sf_ndl : NoDup (bvars (block_of s' l));
  sf_memr : forall w, In w (bvars (block_of s' r)) <-> V2 w;
  sf_ndr : NoDup (bvars (block_of s' r));
  sf_deadl : dead (block_of s' l) = false;
  sf_deadr : dead (block_of s' r) = false }.

Lemma new_block_pop_pre s :
  length (vblk s) = length (svars s) -> wf_cons (svars s) (scons s) ->
  (forall w, (w < length (svars s))%nat -> (blk_of s w < length (blocks s))%nat) ->
  pop_pre (length (blocks s)) (snd (new_block s)) /\
  block_of (snd (new_block s)) (length (blocks s)) = mkblk [] 0 0 0 0 0 false /\
  (forall B, (B < length (blocks s))%nat -> block_of (snd (new_block s)) B = block_of s B).
Proof.
  intros L W Hb. unfold new_block. cbn [snd].
  assert (Bn : block_of (set_blocks s (blocks s ++ [mkblk [] 0 0 0 0 0 false])) (length (blocks s)) = mkblk [] 0 0 0 0 0 false).
  { unfold block_of. cbn [blocks set_blocks]. rewrite app_nth2 by lia. rewrite Nat.sub_diag. reflexivity. }
  split; [|split; [exact Bn|]].
  - constructor.
    + cbn [blocks set_blocks]. rewrite app_length. cbn. lia.
    + exact L.
    + exact W.
    + rewrite Bn. constructor.
    + intros w. rewrite Bn. cbn [bvars In]. split; [intros []|]. intros [Hw E].
      specialize (Hb w Hw). change (blk_of (set_blocks s (blocks s ++ [mkblk [] 0 0 0 0 0 false])) w) with (blk_of s w) in E. lia.
  - intros B HB. unfold block_of. cbn [blocks set_blocks]. apply app_nth1. exact HB.
Qed.

Theorem split_spec s c this s' l r V1 E1 V2 E2 :
  book s -> act_of s c = true -> this = blk_of s (cl (con_of s c)) -> this = blk_of s (cr (con_of s c)) ->
  split_dec (con_of s) (Vof s this) (Eof s this) c V1 E1 V2 E2 ->
  split s this c = Ok (s', l, r) ->
  split_facts s c this s' l r V1 V2.
Proof.
  intros BK Hact Hthis Hthis' SD H.
  assert (Hc : (c < length (scons s))%nat) by (rewrite <- (bk_cact s BK); apply act_of_lt; exact Hact).
  destruct (con_ends s c BK Hc) as [Hcl Hcr].
  unfold split in H.
  set (k := con_of s c) in *.
  set (s0 := set_cact s (upd_nth (cact s) c false)) in *.
  pose proof (new_block_pop_pre s0 (bk_vblk s BK) (bk_cons s BK) (bk_blk s BK)) as NB1.
  destruct (new_block s0) as [l0 s1] eqn:ENB1.
  assert (El0 : l0 = length (blocks s)) by (unfold new_block in ENB1; inversion ENB1; reflexivity).
  cbn [snd] in NB1. change (length (blocks s0)) with (length (blocks s)) in NB1. rewrite <- El0 in NB1.
  destruct NB1 as [PRE1 [Bl1 Old1]].
  apply bind_ok in H. destruct H as [s2 [P1 H]].
  assert (Hthis_lt : (this < length (blocks s))%nat) by (rewrite Hthis; apply (bk_blk s BK); exact Hcl).
  assert (Hne1 : this <> l0) by lia.
  assert (S1eq : svars s1 = svars s /\ scons s1 = scons s /\ voff s1 = voff s /\ vblk s1 = vblk s /\
                 cact s1 = upd_nth (cact s) c false /\ cuns s1 = cuns s /\ clm s1 = clm s /\ blist s1 = blist s /\
                 inactive s1 = inactive s /\ length (blocks s1) = S (length (blocks s))).
  { unfold new_block in ENB1. inversion ENB1. subst s1. cbn. rewrite app_length. cbn. repeat split; try reflexivity. lia. }
  destruct S1eq as [Q1 [Q2 [Q3 [Q4 [Q5 [Q6 [Q7 [Q8 [Q9 Q10]]]]]]]]].
  assert (Eb1 : forall w, blk_of s1 w = blk_of s w) by (intros; unfold blk_of; rewrite Q4; reflexivity).
  assert (Ec1 : forall e, con_of s1 e = con_of s e) by (intros; unfold con_of; rewrite Q2; reflexivity).
  assert (Ea1 : forall e, act_of s1 e = true <-> (e <> c /\ act_of s e = true)).
  { intros e. unfold act_of. rewrite Q5. destruct (Nat.eq_dec e c) as [->|N].
    - rewrite nth_upd_nth_eq by (rewrite (bk_cact s BK); exact Hc). split; [discriminate | intros [X _]; congruence].
    - rewrite nth_upd_nth_neq by congruence. tauto. }
  destruct (populate_spec this l0 Hne1 _ _ _ _ _ P1 PRE1) as [PRE2 [R12 [Bcl2 [CLO1 SND1]]]].
  { rewrite Q1. exact Hcl. }
  { rewrite Eb1. symmetry. exact Hthis. }
  destruct SD as [T1 T2 Sl Sr SV Sdisj SE Snc1 Snc2].
  pose proof (tree_edge_ends _ _ _ T1) as End1. pose proof (tree_edge_ends _ _ _ T2) as End2.
  assert (SDrec : split_dec (con_of s) (Vof s this) (Eof s this) c V1 E1 V2 E2) by (constructor; assumption).
  assert (Vin1 : forall w, V1 w -> (w < length (svars s))%nat /\ blk_of s w = this) by (intros w Hw; apply SV; tauto).
  assert (Vin2 : forall w, V2 w -> (w < length (svars s))%nat /\ blk_of s w = this) by (intros w Hw; apply SV; tauto).
  (* edges of the block other than c stay on one side *)
  assert (Side : forall e, (e < length (scons s))%nat -> act_of s e = true -> e <> c -> blk_of s (cl (con_of s e)) = this ->
                   (V1 (cl (con_of s e)) /\ V1 (cr (con_of s e))) \/ (V2 (cl (con_of s e)) /\ V2 (cr (con_of s e)))).
  { intros e He Ae Nec Hb. apply (split_dec_edge_side _ _ _ _ _ _ _ _ SDrec); [|exact Nec]. repeat split; assumption. }
  (* ---- first populate collects exactly V1 *)
  assert (L1 : forall w, blk_of s w = this -> blk_of s2 w = l0 -> V1 w).
  { intros w Hw Hw2. apply (SND1 V1); [exact Sl | | rewrite Eb1; exact Hw | exact Hw2].
    intros e He Ae Hl Hr. rewrite Ec1, Eb1 in *. rewrite Q2 in He. apply Ea1 in Ae. destruct Ae as [Nec Ae].
    destruct (Side e He Ae Nec Hl) as [[A B]|[A B]]; [tauto|]. split; intros X; exfalso; eauto. }
  assert (L2 : forall w, V1 w -> blk_of s2 w = l0).
  { intros w Hw. apply (tree_connected _ _ _ T1 (fun w => blk_of s2 w = l0)) with (x := cl k); [|exact Sl|exact Hw|exact Bcl2].
    intros e He. destruct (End1 e He) as [A B].
    assert (HEe : Eof s this e) by (apply SE; tauto). destruct HEe as [He' [Ae Hb]].
    assert (Nec : e <> c) by (intros ->; contradiction).
    assert (Ae1 : act_of s1 e = true) by (apply Ea1; tauto).
    assert (He1 : (e < length (scons s1))%nat) by (rewrite Q2; exact He').
    destruct (Vin1 _ A) as [_ Ba]. destruct (Vin1 _ B) as [_ Bb].
    split; intros X.
    - destruct (CLO1 (cl (con_of s e))) with (e := e) (y := cr (con_of s e)) as [N|[_ N]]; try assumption.
      + rewrite Eb1. exact Ba.
      + left. rewrite Ec1. tauto.
      + destruct (pr_blk _ _ _ _ R12 (cr (con_of s e))) as [E|[_ E]]; [|exact E]. rewrite Eb1 in E. congruence.
      + inversion N as [N']. exfalso. apply (Sdisj (cr k)); [rewrite N'; exact B | exact Sr].
    - destruct (CLO1 (cr (con_of s e))) with (e := e) (y := cl (con_of s e)) as [N|[N' N]]; try assumption.
      + rewrite Eb1. exact Bb.
      + right. rewrite Ec1. tauto.
      + destruct (pr_blk _ _ _ _ R12 (cl (con_of s e))) as [E|[_ E]]; [|exact E]. rewrite Eb1 in E. congruence.
      + inversion N as [N'']. exfalso. apply (Sdisj (cr k)); [rewrite N''; exact A | exact Sr]. }
  assert (L3 : forall w, V2 w -> blk_of s2 w = this).
  { intros w Hw. destruct (Vin2 w Hw) as [_ Bw]. destruct (pr_blk _ _ _ _ R12 w) as [E|[_ E]]; [rewrite E, Eb1; exact Bw|].
    exfalso. apply (Sdisj w); [apply L1; assumption | exact Hw]. }
  (* ---- second block *)
  assert (Blk2lt : forall w, (w < length (svars s2))%nat -> (blk_of s2 w < length (blocks s2))%nat).
  { intros w Hw. rewrite (pr_svars _ _ _ _ R12), Q1 in Hw. rewrite (pr_lblocks _ _ _ _ R12), Q10.
    destruct (pr_blk _ _ _ _ R12 w) as [E|[_ E]]; rewrite E; [rewrite Eb1; pose proof (bk_blk s BK w Hw); lia | lia]. }
  pose proof (new_block_pop_pre s2 (pp_lv _ _ PRE2) (pp_cons _ _ PRE2) Blk2lt) as NB2.
  destruct (new_block s2) as [r0 s3] eqn:ENB2.
  assert (Er0 : r0 = S l0).
  { unfold new_block in ENB2. inversion ENB2. rewrite (pr_lblocks _ _ _ _ R12), Q10. lia. }
  assert (Lb2 : length (blocks s2) = r0) by (unfold new_block in ENB2; inversion ENB2; reflexivity).
  cbn [snd] in NB2. rewrite Lb2 in NB2. destruct NB2 as [PRE3 [Bl3 Old3]].
  apply bind_ok in H. destruct H as [s4 [P2 H]].
  injection H as Es El Er. rewrite <- Es, <- El, <- Er. clear Es El Er. clear s' l r.
  rename s4 into s'. rename l0 into l. rename r0 into r.
  assert (Hne2 : this <> r) by lia.
  assert (S3eq : svars s3 = svars s2 /\ scons s3 = scons s2 /\ voff s3 = voff s2 /\ vblk s3 = vblk s2 /\
                 cact s3 = cact s2 /\ cuns s3 = cuns s2 /\ clm s3 = clm s2 /\ blist s3 = blist s2 /\
                 inactive s3 = inactive s2 /\ length (blocks s3) = S (length (blocks s2))).
  { unfold new_block in ENB2. inversion ENB2. cbn. rewrite app_length. cbn. repeat split; try reflexivity. lia. }
  destruct S3eq as [U1 [U2 [U3 [U4 [U5 [U6 [U7 [U8 [U9 U10]]]]]]]]].
  assert (Eb3 : forall w, blk_of s3 w = blk_of s2 w) by (intros; unfold blk_of; rewrite U4; reflexivity).
  assert (Ec3 : forall e, con_of s3 e = con_of s e).
  { intros; unfold con_of. rewrite U2, (pr_scons _ _ _ _ R12), Q2. reflexivity. }
  assert (Ea3 : forall e, act_of s3 e = act_of s1 e).
  { intros; unfold act_of. rewrite U5, (pr_cact _ _ _ _ R12). reflexivity. }
  destruct (populate_spec this r Hne2 _ _ _ _ _ P2 PRE3) as [PRE4 [R34 [Bcr4 [CLO2 SND2]]]].
  { rewrite U1, (pr_svars _ _ _ _ R12), Q1. exact Hcr. }
  { rewrite Eb3. apply L3. exact Sr. }
  assert (M1 : forall w, blk_of s3 w = this -> blk_of s' w = r -> V2 w).
  { intros w Hw Hw4. apply (SND2 V2); [exact Sr | | exact Hw | exact Hw4].
    intros e He Ae Hl Hr. rewrite Ec3 in *. rewrite Ea3 in Ae. apply Ea1 in Ae. destruct Ae as [Nec Ae].
    rewrite U2, (pr_scons _ _ _ _ R12), Q2 in He.
    rewrite Eb3 in Hl, Hr.
    assert (Hl0 : blk_of s (cl (con_of s e)) = this).
    { rewrite <- Eb1. apply (pop_rel_this_back this l (sym_not_eq (sym_not_eq Hne1)) s1 s2); assumption. }
    destruct (Side e He Ae Nec Hl0) as [[A B]|[A B]]; [|tauto].
    exfalso. rewrite (L2 _ A) in Hl. lia. }
  assert (M2 : forall w, V2 w -> blk_of s' w = r).
  { intros w Hw. apply (tree_connected _ _ _ T2 (fun w => blk_of s' w = r)) with (x := cr k); [|exact Sr|exact Hw|exact Bcr4].
    intros e He. destruct (End2 e He) as [A B].
    assert (HEe : Eof s this e) by (apply SE; tauto). destruct HEe as [He' [Ae Hb]].
    assert (Nec : e <> c) by (intros ->; contradiction).
    assert (Ae3 : act_of s3 e = true) by (rewrite Ea3; apply Ea1; tauto).
    assert (He3 : (e < length (scons s3))%nat) by (rewrite U2, (pr_scons _ _ _ _ R12), Q2; exact He').
    split; intros X.
    - destruct (CLO2 (cl (con_of s e))) with (e := e) (y := cr (con_of s e)) as [N|[_ N]]; try assumption.
      + rewrite Eb3. apply L3. exact A.
      + left. rewrite Ec3. tauto.
      + destruct (pr_blk _ _ _ _ R34 (cr (con_of s e))) as [E|[_ E]]; [|exact E]. rewrite Eb3, (L3 _ B) in E. congruence.
      + inversion N as [N']. exfalso. apply (Sdisj (cl k)); [exact Sl | rewrite N'; exact B].
    - destruct (CLO2 (cr (con_of s e))) with (e := e) (y := cl (con_of s e)) as [N|[_ N]]; try assumption.
      + rewrite Eb3. apply L3. exact B.
      + right. rewrite Ec3. tauto.
      + destruct (pr_blk _ _ _ _ R34 (cl (con_of s e))) as [E|[_ E]]; [|exact E]. rewrite Eb3, (L3 _ A) in E. congruence.
      + inversion N as [N']. exfalso. apply (Sdisj (cl k)); [exact Sl | rewrite N'; exact A]. }
  assert (M3 : forall w, V1 w -> blk_of s' w = l).
  { intros w Hw. destruct (pr_blk _ _ _ _ R34 w) as [E|[E _]]; rewrite Eb3, (L2 _ Hw) in E; [exact E | lia]. }
  assert (M4 : forall w, blk_of s w <> this -> blk_of s' w = blk_of s w).
  { intros w Hw. destruct (pr_blk _ _ _ _ R12 w) as [E|[E _]]; [|rewrite Eb1 in E; congruence].
    destruct (pr_blk _ _ _ _ R34 w) as [F|[F _]]; rewrite Eb3, E, Eb1 in F; [exact F | congruence]. }
  assert (Blk_l : block_of s' l = block_of s2 l).
  { rewrite (pr_other _ _ _ _ R34) by lia. apply Old3. lia. }
  assert (N4 : length (svars s') = length (svars s)).
  { rewrite (pr_svars _ _ _ _ R34), U1, (pr_svars _ _ _ _ R12), Q1. reflexivity. }
  constructor.
  - rewrite (pr_svars _ _ _ _ R34), U1, (pr_svars _ _ _ _ R12), Q1. reflexivity.
  - rewrite (pr_scons _ _ _ _ R34), U2, (pr_scons _ _ _ _ R12), Q2. reflexivity.
  - rewrite (pr_voff _ _ _ _ R34), U3, (pr_voff _ _ _ _ R12), Q3. reflexivity.
  - rewrite (pr_cuns _ _ _ _ R34), U6, (pr_cuns _ _ _ _ R12), Q6. reflexivity.
  - rewrite (pr_clm _ _ _ _ R34), U7, (pr_clm _ _ _ _ R12), Q7. reflexivity.
  - rewrite (pr_blist _ _ _ _ R34), U8, (pr_blist _ _ _ _ R12), Q8. reflexivity.
  - rewrite (pr_inactive _ _ _ _ R34), U9, (pr_inactive _ _ _ _ R12), Q9. reflexivity.
  - rewrite (pr_cact _ _ _ _ R34), U5, (pr_cact _ _ _ _ R12), Q5. reflexivity.
  - exact El0.
  - exact Er0.
  - rewrite (pr_lblocks _ _ _ _ R34), U10, (pr_lblocks _ _ _ _ R12), Q10, El0. reflexivity.
  - rewrite (pr_lvblk _ _ _ _ R34), U4, (pr_lvblk _ _ _ _ R12), Q4. reflexivity.
  - intros B HB. rewrite (pr_other _ _ _ _ R34) by lia. rewrite Old3 by lia.
    rewrite (pr_other _ _ _ _ R12) by lia. apply Old1. lia.
  - exact M3.
  - exact M2.
  - exact M4.
  - intros w. rewrite Blk_l, (pp_mem _ _ PRE2). rewrite (pr_svars _ _ _ _ R12), Q1. split.
    + intros [Hw E]. destruct (Nat.eq_dec (blk_of s w) this) as [T|T]; [apply L1; assumption|].
      exfalso. destruct (pr_blk _ _ _ _ R12 w) as [F|[F _]]; rewrite Eb1 in F; [|congruence].
      pose proof (bk_blk s BK w Hw). lia.
    + intros Hw. split; [apply Vin1; exact Hw | apply L2; exact Hw].
  - rewrite Blk_l. exact (pp_nodup _ _ PRE2).
  - intros w. rewrite (pp_mem _ _ PRE4), N4. split.
    + intros [Hw E]. destruct (Nat.eq_dec (blk_of s3 w) this) as [T|T]; [apply M1; assumption|].
      exfalso. destruct (pr_blk _ _ _ _ R34 w) as [F|[F _]]; [|congruence].
      rewrite E, Eb3 in F. assert (X : (blk_of s2 w < length (blocks s2))%nat).
      { apply Blk2lt. rewrite (pr_svars _ _ _ _ R12), Q1. exact Hw. }
      rewrite (pr_lblocks _ _ _ _ R12), Q10 in X. lia.
    + intros Hw. split; [apply Vin2; exact Hw | apply M2; exact Hw].
  - exact (pp_nodup _ _ PRE4).
  - rewrite Blk_l, (pr_dead _ _ _ _ R12), Bl1. reflexivity.
  - rewrite (pr_dead _ _ _ _ R34), Bl3. reflexivity.
Qed.

(* consequences for the invariants *)
Section SplitInv.
Variables (s : st) (c this : nat) (s' : st) (l r : nat) (V1 E1 V2 E2 : nat -> Prop).
Hypothesis BK : book s.
Hypothesis AI : act_inv s.
Hypothesis Hact : act_of s c = true.
Hypothesis Hthis : this = blk_of s (cl (con_of s c)).
Hypothesis SD : split_dec (con_of s) (Vof s this) (Eof s this) c V1 E1 V2 E2.
Hypothesis SF : split_facts s c this s' l r V1 V2.

Let Hc : (c < length (scons s))%nat.
Proof. rewrite <- (bk_cact s BK). apply act_of_lt. exact Hact. Qed.
Let Ec : forall e, con_of s' e = con_of s e.
Proof. intros e. unfold con_of. rewrite (sf_scons _ _ _ _ _ _ _ _ SF). reflexivity. Qed.
Let Ea : forall e, act_of s' e = true <-> (e <> c /\ act_of s e = true).
Proof.
  intros e. unfold act_of. rewrite (sf_cact _ _ _ _ _ _ _ _ SF). destruct (Nat.eq_dec e c) as [->|N].
  - rewrite nth_upd_nth_eq by (rewrite (bk_cact s BK); exact Hc). split; [discriminate | intros [X _]; congruence].
  - rewrite nth_upd_nth_neq by congruence. tauto.
Qed.
Let Vsplit : forall w, (w < length (svars s))%nat -> blk_of s w = this -> V1 w \/ V2 w.
Proof. intros w Hw Hb. apply (sd_V _ _ _ _ _ _ _ _ SD). split; assumption. Qed.
Let lr_fresh : (length (blocks s) <= l)%nat /\ (length (blocks s) <= r)%nat /\ l <> r.
Proof. rewrite (sf_r _ _ _ _ _ _ _ _ SF), (sf_l _ _ _ _ _ _ _ _ SF). lia. Qed.

(* the block of a variable after the split *)
Lemma split_blk_cases w : (w < length (svars s))%nat ->
  (V1 w /\ blk_of s' w = l) \/ (V2 w /\ blk_of s' w = r) \/ (blk_of s w <> this /\ blk_of s' w = blk_of s w).
Proof.
  intros Hw. destruct (Nat.eq_dec (blk_of s w) this) as [E|E].
  - destruct (Vsplit w Hw E) as [H|H]; [left | right; left]; split; try exact H.
    + apply (sf_V1 _ _ _ _ _ _ _ _ SF). exact H.
    + apply (sf_V2 _ _ _ _ _ _ _ _ SF). exact H.
  - right. right. split; [exact E | apply (sf_out _ _ _ _ _ _ _ _ SF); exact E].
Qed.

Lemma V1_in w : V1 w -> (w < length (svars s))%nat /\ blk_of s w = this.
Proof. intros H. apply (sd_V _ _ _ _ _ _ _ _ SD). tauto. Qed.
Lemma V2_in w : V2 w -> (w < length (svars s))%nat /\ blk_of s w = this.
Proof. intros H. apply (sd_V _ _ _ _ _ _ _ _ SD). tauto. Qed.

Lemma split_blk_l w : (w < length (svars s))%nat -> (blk_of s' w = l <-> V1 w).
Proof.
  intros Hw. pose proof (bk_blk s BK w Hw) as Hlt. destruct lr_fresh as [A [B C]].
  destruct (split_blk_cases w Hw) as [[H E]|[[H E]|[H E]]]; split; intros X; try tauto; try lia.
  - exfalso. exact (sd_disj _ _ _ _ _ _ _ _ SD w X H).
  - exfalso. apply H. apply V1_in. exact X.
Qed.
Lemma split_blk_r w : (w < length (svars s))%nat -> (blk_of s' w = r <-> V2 w).
Proof.
  intros Hw. pose proof (bk_blk s BK w Hw) as Hlt. destruct lr_fresh as [A [B C]].
  destruct (split_blk_cases w Hw) as [[H E]|[[H E]|[H E]]]; split; intros X; try tauto; try lia.
  - exfalso. exact (sd_disj _ _ _ _ _ _ _ _ SD w H X).
  - exfalso. apply H. apply V2_in. exact X.
Qed.
Lemma split_blk_old w B : (w < length (svars s))%nat -> B <> l -> B <> r -> B <> this ->
  (blk_of s' w = B <-> blk_of s w = B).
Proof.
  intros Hw Bl Br Bt.
  destruct (split_blk_cases w Hw) as [[H E]|[[H E]|[H E]]]; rewrite E.
  - destruct (V1_in w H) as [_ X]. rewrite X. split; intros; congruence.
  - destruct (V2_in w H) as [_ X]. rewrite X. split; intros; congruence.
  - tauto.
Qed.

Theorem split_book : book s'.
Proof.
  destruct BK as [K1 K2 K3 K4 K5 K6 K7]. destruct lr_fresh as [Fl [Fr Flr]].
  pose proof SF as [F1 F2 F3 F4 F5 F6 F7 F8 F9 F10 F11 F12 F13 F14 F15 F16 F17 F18 F19 F20 F21 F22].
  assert (Hthis_lt : (this < length (blocks s))%nat).
  { rewrite Hthis. apply K4. apply (con_ends s c BK Hc). }
  constructor.
  - rewrite F3, F1. exact K1.
  - rewrite F12, F1. exact K2.
  - rewrite F8, F2, upd_nth_length. exact K3.
  - intros v Hv. rewrite F1 in Hv. rewrite F11.
    destruct (split_blk_cases v Hv) as [[_ E]|[[_ E]|[_ E]]]; rewrite E; try lia. pose proof (K4 v Hv) as Hlt. lia.
  - intros v w Hv. rewrite F1 in *.
    destruct (split_blk_cases v Hv) as [[H E]|[[H E]|[H E]]]; rewrite E.
    + rewrite F17. split.
      * intros X. split; [apply V1_in; exact X | apply F14; exact X].
      * intros [Hw X]. apply split_blk_l; assumption.
    + rewrite F19. split.
      * intros X. split; [apply V2_in; exact X | apply F15; exact X].
      * intros [Hw X]. apply split_blk_r; assumption.
    + pose proof (K4 v Hv) as Hlt. rewrite F13 by exact Hlt. rewrite (K5 v w Hv). split; intros [Hw X]; split; try exact Hw.
      * apply split_blk_old; try assumption; lia.
      * apply (split_blk_old w (blk_of s v)) in X; try assumption; lia.
  - intros v Hv. rewrite F1 in *.
    destruct (split_blk_cases v Hv) as [[H E]|[[H E]|[H E]]]; rewrite E; [exact F18 | exact F20 |].
    pose proof (K4 v Hv) as Hlt. rewrite F13 by exact Hlt. apply K6. exact Hv.
  - rewrite F1, F2. exact K7.
Qed.

Theorem split_act_inv : act_inv s'.
Proof.
  intros e He. apply Ea in He. destruct He as [Nec He].
  destruct (AI e He) as [Sb Tt]. unfold tight_off in *. rewrite !Ec.
  assert (He' : (e < length (scons s))%nat) by (rewrite <- (bk_cact s BK); apply act_of_lt; exact He).
  destruct (con_ends s e BK He') as [Hl Hr].
  split.
  - destruct (Nat.eq_dec (blk_of s (cl (con_of s e))) this) as [T|T].
    + destruct (split_dec_edge_side _ _ _ _ _ _ _ _ SD e) as [[A B]|[A B]]; [repeat split; assumption | exact Nec | |].
      * rewrite (sf_V1 _ _ _ _ _ _ _ _ SF _ A), (sf_V1 _ _ _ _ _ _ _ _ SF _ B). reflexivity.
      * rewrite (sf_V2 _ _ _ _ _ _ _ _ SF _ A), (sf_V2 _ _ _ _ _ _ _ _ SF _ B). reflexivity.
    + rewrite !(sf_out _ _ _ _ _ _ _ _ SF) by congruence. exact Sb.
  - unfold off_of. rewrite (sf_voff _ _ _ _ _ _ _ _ SF). exact Tt.
Qed.

Hypothesis FO : forest s.

Theorem split_forest : forest s'.
Proof.
  pose proof SF as [F1 F2 F3 F4 F5 F6 F7 F8 F9 F10 F11 F12 F13 F14 F15 F16 F17 F18 F19 F20 F21 F22].
  destruct lr_fresh as [Fl [Fr Flr]].
  assert (Hthis_lt : (this < length (blocks s))%nat).
  { rewrite Hthis. apply (bk_blk s BK). apply (con_ends s c BK Hc). }
  pose proof (tree_edge_ends _ _ _ (sd_t1 _ _ _ _ _ _ _ _ SD)) as End1.
  pose proof (tree_edge_ends _ _ _ (sd_t2 _ _ _ _ _ _ _ _ SD)) as End2.
  intros v Hv. rewrite F1 in Hv. apply (tree_ext_K (con_of s)); [|intros; apply Ec].
  (* edges of the old block, other than c *)
  assert (EE : forall e, Eof s this e -> e <> c -> (E1 e \/ E2 e)).
  { intros e He Nec. apply (sd_E _ _ _ _ _ _ _ _ SD) in He. tauto. }
  destruct (split_blk_cases v Hv) as [[H E]|[[H E]|[H E]]]; rewrite E.
  - apply (tree_ext _ _ _ _ _ (sd_t1 _ _ _ _ _ _ _ _ SD)).
    + intros w. unfold Vof. rewrite F1. split.
      * intros X. split; [apply V1_in; exact X | apply F14; exact X].
      * intros [Hw X]. apply split_blk_l; assumption.
    + intros e. unfold Eof. rewrite F2, Ec. split.
      * intros X. assert (Y : Eof s this e) by (apply (sd_E _ _ _ _ _ _ _ _ SD); tauto). destruct Y as [Y1 [Y2 Y3]].
        split; [exact Y1|]. split; [apply Ea; split; [intros ->; exact (sd_nc1 _ _ _ _ _ _ _ _ SD X) | exact Y2]|].
        apply F14. apply (End1 e X).
      * intros [He [Ae Be]]. apply Ea in Ae. destruct Ae as [Nec Ae].
        destruct (con_ends s e BK He) as [Hl _]. apply split_blk_l in Be; [|exact Hl].
        destruct (V1_in _ Be) as [_ Bt].
        destruct (EE e) as [X|X]; [repeat split; assumption | exact Nec | exact X |].
        exfalso. apply (sd_disj _ _ _ _ _ _ _ _ SD (cl (con_of s e))); [exact Be | apply (End2 e X)].
  - apply (tree_ext _ _ _ _ _ (sd_t2 _ _ _ _ _ _ _ _ SD)).
    + intros w. unfold Vof. rewrite F1. split.
      * intros X. split; [apply V2_in; exact X | apply F15; exact X].
      * intros [Hw X]. apply split_blk_r; assumption.
    + intros e. unfold Eof. rewrite F2, Ec. split.
      * intros X. assert (Y : Eof s this e) by (apply (sd_E _ _ _ _ _ _ _ _ SD); tauto). destruct Y as [Y1 [Y2 Y3]].
        split; [exact Y1|]. split; [apply Ea; split; [intros ->; exact (sd_nc2 _ _ _ _ _ _ _ _ SD X) | exact Y2]|].
        apply F15. apply (End2 e X).
      * intros [He [Ae Be]]. apply Ea in Ae. destruct Ae as [Nec Ae].
        destruct (con_ends s e BK He) as [Hl _]. apply split_blk_r in Be; [|exact Hl].
        destruct (V2_in _ Be) as [_ Bt].
        destruct (EE e) as [X|X]; [repeat split; assumption | exact Nec | | exact X].
        exfalso. apply (sd_disj _ _ _ _ _ _ _ _ SD (cl (con_of s e))); [apply (End1 e X) | exact Be].
  - pose proof (bk_blk s BK v Hv) as Hlt.
    apply (tree_ext _ _ _ _ _ (FO v Hv)).
    + intros w. unfold Vof. rewrite F1. split; intros [Hw X]; split; try exact Hw.
      * apply split_blk_old; try assumption; lia.
      * apply (split_blk_old w (blk_of s v)) in X; try assumption; lia.
    + intros e. unfold Eof. rewrite F2, Ec. split; intros [He [Ae Be]]; (split; [exact He|]);
        destruct (con_ends s e BK He) as [Hl _].
      * split; [apply Ea; split; [intros ->; congruence | exact Ae]|].
        apply split_blk_old; try assumption; lia.
      * apply Ea in Ae. split; [tauto|]. apply (split_blk_old _ (blk_of s v)) in Be; try assumption; lia.
Qed.

End SplitInv.

(* `split_preserves_act_inv`: the half C01_split_act_inv_partial was missing *)
Theorem split_preserves s c s' l r :
  book s -> act_inv s -> forest s -> act_of s c = true ->
  split s (blk_of s (cl (con_of s c))) c = Ok (s', l, r) ->
  book s' /\ act_inv s' /\ forest s'.
Proof.
  intros BK AI FO Hact H.
  assert (Hc : (c < length (scons s))%nat) by (rewrite <- (bk_cact s BK); apply act_of_lt; exact Hact).
  destruct (con_ends s c BK Hc) as [Hl Hr].
  destruct (AI c Hact) as [Sb _].
  assert (Ec : Eof s (blk_of s (cl (con_of s c))) c) by (repeat split; assumption).
  destruct (tree_remove_edge _ _ _ (FO _ Hl) c Ec) as [V1 [E1 [V2 [E2 SD]]]].
  pose proof (split_spec s c _ s' l r V1 E1 V2 E2 BK Hact eq_refl Sb SD H) as SF.
  split; [|split].
  - exact (split_book s c _ s' l r V1 E1 V2 E2 BK Hact eq_refl SD SF).
  - exact (split_act_inv s c _ s' l r V1 E1 V2 E2 BK AI Hact SD SF).
  - exact (split_forest s c _ s' l r V1 E1 V2 E2 BK Hact eq_refl SD SF FO).
Qed.

(* ------------------------------------------------------------------ merge *)
Lemma mfold_misc t d : forall vars s,
  let s2 := fold_left (mstep t d) vars s in
  cuns s2 = cuns s /\ clm s2 = clm s /\ inactive s2 = inactive s /\ blist s2 = blist s /\ tie s2 = tie s.
Proof.
  induction vars as [|v vars IH]; intros s; cbn [fold_left]; [repeat split; reflexivity|].
  destruct (IH (mstep t d s v)) as [A [B [C [D E]]]]. cbn zeta in *. rewrite A, B, C, D, E. repeat split; reflexivity.
Qed.

Record merge_facts (s : st) (t b c : nat) (s' : st) : Prop := {
  mg_svars : svars s' = svars s;
  mg_scons : scons s' = scons s;
  mg_cuns : cuns s' = cuns s;
  mg_clm : clm s' = clm s;
  mg_inactive : inactive s' = inactive s;
  mg_blist : blist s' = blist s;
  mg_cact : cact s' = upd_nth (cact s) c true;
  mg_lblocks : length (blocks s') = length (blocks s);
  mg_blk : forall w, (w < length (svars s))%nat ->
             (blk_of s w = b -> blk_of s' w = t) /\ (blk_of s w <> b -> blk_of s' w = blk_of s w);
  mg_other : forall B, B <> t -> B <> b -> block_of s' B = block_of s B }.

Lemma merge_into_facts s t b c d x y :
  book s -> (x < length (svars s))%nat -> (y < length (svars s))%nat ->
  blk_of s x = t -> blk_of s y = b -> t <> b ->
  merge_facts s t b c (merge_into s t b c d).
Proof.
  intros BK Hx Hy Ht Hb Hne. rewrite merge_into_unfold.
  set (s1 := set_cact s (upd_nth (cact s) c true)).
  set (V := bvars (block_of s1 b)).
  assert (HV : V = bvars (block_of s b)) by reflexivity.
  destruct BK as [K1 K2 K3 K4 K5 K6 K7].
  assert (HVin : forall w, In w V <-> ((w < length (svars s))%nat /\ blk_of s w = b)).
  { intros w. rewrite HV, <- Hb. apply K5. exact Hy. }
  assert (F : mfold_facts t d V s1 (fold_left (mstep t d) V s1)).
  { apply mfold_spec.
    - rewrite HV, <- Hb. apply K6. exact Hy.
    - intros v Hv. apply HVin in Hv. destruct Hv as [Hv _]. cbn [s1 set_cact voff vblk]. rewrite K1, K2. split; exact Hv.
    - cbn [s1 set_cact blocks]. rewrite <- Ht. apply K4. exact Hx. }
  destruct (mfold_misc t d V s1) as [M1 [M2 [M3 [M4 M5]]]]. cbn zeta in *.
  set (s2 := fold_left (mstep t d) V s1) in *.
  destruct F as [F1 F2 F3 F4 F5 F6 F7 F8 F9 F10].
  constructor.
  - cbn. rewrite F2. reflexivity.
  - cbn. rewrite F1. reflexivity.
  - cbn. rewrite M1. reflexivity.
  - cbn. rewrite M2. reflexivity.
  - cbn. rewrite M3. reflexivity.
  - cbn. rewrite M4. reflexivity.
  - cbn. rewrite F3. reflexivity.
  - unfold kill_block, set_block, set_blocks. cbn [blocks]. rewrite upd_nth_length. exact F6.
  - intros w Hw. change (blk_of (kill_block s2 b) w) with (blk_of s2 w). split; intros H.
    + apply F7. apply HVin. split; assumption.
    + destruct (F8 w) as [_ E]; [rewrite HVin; tauto|]. exact E.
  - intros B H1 H2. unfold kill_block, set_block, set_blocks, block_of. cbn [blocks].
    rewrite nth_upd_nth_neq by congruence. apply F10. exact H1.
Qed.

Theorem merge_into_forest s t b c d x y :
  book s -> forest s ->
  (x < length (svars s))%nat -> (y < length (svars s))%nat ->
  blk_of s x = t -> blk_of s y = b -> t <> b ->
  (c < length (scons s))%nat ->
  ((blk_of s (cl (con_of s c)) = t /\ blk_of s (cr (con_of s c)) = b) \/
   (blk_of s (cr (con_of s c)) = t /\ blk_of s (cl (con_of s c)) = b)) ->
  forest (merge_into s t b c d).
Proof.
  intros BK FO Hx Hy Ht Hb Hne Hc Hends.
  pose proof (merge_into_facts s t b c d x y BK Hx Hy Ht Hb Hne) as [G1 G2 G3 G4 G5 G6 G7 G8 G9 G10].
  set (s' := merge_into s t b c d) in *.
  assert (Ec : forall e, con_of s' e = con_of s e) by (intros; unfold con_of; rewrite G2; reflexivity).
  assert (Ea : forall e, (e < length (scons s))%nat -> (act_of s' e = true <-> (e = c \/ act_of s e = true))).
  { intros e He. unfold act_of. rewrite G7. destruct (Nat.eq_dec e c) as [->|N].
    - rewrite nth_upd_nth_eq by (rewrite (bk_cact s BK); exact Hc). tauto.
    - rewrite nth_upd_nth_neq by congruence. split; [tauto | intros [X|X]; [congruence | exact X]]. }
  destruct (con_ends s c BK Hc) as [Hcl Hcr].
  intros v Hv. rewrite G1 in Hv. apply (tree_ext_K (con_of s)); [|intros; apply Ec].
  assert (Bt : forall w, (w < length (svars s))%nat -> (blk_of s' w = t <-> (blk_of s w = t \/ blk_of s w = b))).
  { intros w Hw. destruct (G9 w Hw) as [A B]. destruct (Nat.eq_dec (blk_of s w) b) as [E|E].
    - rewrite (A E). tauto.
    - rewrite (B E). split; [tauto | intros [X|X]; congruence]. }
  assert (Bo : forall w B, (w < length (svars s))%nat -> B <> t -> B <> b -> (blk_of s' w = B <-> blk_of s w = B)).
  { intros w B Hw N1 N2. destruct (G9 w Hw) as [A B']. destruct (Nat.eq_dec (blk_of s w) b) as [E|E].
    - rewrite (A E). split; intros; congruence.
    - rewrite (B' E). tauto. }
  destruct (Nat.eq_dec (blk_of s' v) t) as [E|E].
  - rewrite E. pose proof (FO x Hx) as Tx. rewrite Ht in Tx. pose proof (FO y Hy) as Ty. rewrite Hb in Ty.
    apply (tree_join (con_of s) (Vof s t) (Eof s t) (Vof s b) (Eof s b) c); try assumption.
    + intros w [_ A] [_ B]. congruence.
    + unfold Vof. destruct Hends as [[A B]|[A B]]; [left | right]; repeat split; assumption.
    + intros w. unfold Vof. rewrite G1. split.
      * intros [Hw X]. apply Bt in X; tauto.
      * intros [[Hw X]|[Hw X]]; (split; [exact Hw | apply Bt; tauto]).
    + intros e. unfold Eof. rewrite G2, Ec. split.
      * intros [He [Ae Be]]. apply Ea in Ae; [|exact He]. destruct Ae as [->|Ae]; [left; reflexivity|].
        destruct (con_ends s e BK He) as [Hl _]. apply Bt in Be; [|exact Hl]. right. tauto.
      * intros [->|[[He [Ae Be]]|[He [Ae Be]]]].
        -- split; [exact Hc|]. split; [apply Ea; tauto|]. apply Bt; [exact Hcl|]. tauto.
        -- destruct (con_ends s e BK He) as [Hl _]. split; [exact He|]. split; [apply Ea; tauto|]. apply Bt; tauto.
        -- destruct (con_ends s e BK He) as [Hl _]. split; [exact He|]. split; [apply Ea; tauto|]. apply Bt; tauto.
  - assert (Eb : blk_of s' v = blk_of s v /\ blk_of s v <> t /\ blk_of s v <> b).
    { destruct (G9 v Hv) as [A B]. destruct (Nat.eq_dec (blk_of s v) b) as [X|X]; [rewrite (A X) in E; congruence|].
      rewrite (B X) in *. tauto. }
    destruct Eb as [Eb [N1 N2]]. rewrite Eb.
    apply (tree_ext _ _ _ _ _ (FO v Hv)).
    + intros w. unfold Vof. rewrite G1. split; intros [Hw X]; (split; [exact Hw | apply (Bo w _ Hw N1 N2); exact X]).
    + intros e. unfold Eof. rewrite G2, Ec. split; intros [He [Ae Be]]; (split; [exact He|]);
        destruct (con_ends s e BK He) as [Hl _].
      * split; [apply Ea; tauto | apply (Bo _ _ Hl N1 N2); exact Be].
      * apply (Bo _ _ Hl N1 N2) in Be. apply Ea in Ae; [|exact He]. destruct Ae as [->|Ae]; [|tauto].
        exfalso. destruct Hends as [[A _]|[_ A]]; congruence.
Qed.

Theorem merge_forest s c :
  book s -> forest s -> (c < length (scons s))%nat ->
  blk_of s (cl (con_of s c)) <> blk_of s (cr (con_of s c)) ->
  forest (fst (merge s c)).
Proof.
  intros BK FO Hc Hne. destruct (con_ends s c BK Hc) as [Hl Hr].
  unfold merge. fold (con_of s c).
  destruct (Nat.ltb _ _); cbn [fst].
  - apply (merge_into_forest s _ _ c _ (cr (con_of s c)) (cl (con_of s c))); auto.
  - apply (merge_into_forest s _ _ c _ (cl (con_of s c)) (cr (con_of s c))); auto.
Qed.

(* ------------------------------------------------------------------ the other steps *)
Theorem flag_unsat_forest s c : forest s -> forest (flag_unsat s c).
Proof. apply forest_frame; reflexivity. Qed.
Theorem cleanup_forest s : forest s -> forest (cleanup s).
Proof. apply forest_frame; reflexivity. Qed.
Theorem set_desired_forest s i d : forest s -> forest (set_desired s i d).
Proof. apply forest_frame; try reflexivity. cbn. apply upd_nth_length. Qed.
Theorem kill_block_forest s b : forest s -> forest (kill_block s b).
Proof. apply forest_frame; reflexivity. Qed.
Theorem set_inactive_forest s x : forest s -> forest (set_inactive s x).
Proof. apply forest_frame; reflexivity. Qed.
Theorem set_blist_forest s x : forest s -> forest (set_blist s x).
Proof. apply forest_frame; reflexivity. Qed.
Theorem update_weighted_position_forest s b : forest s -> forest (update_weighted_position s b).
Proof.
  unfold update_weighted_position.
  destruct (fold_left (stats_add s) (bvars (block_of s b)) (bscale (block_of s b), 0, 0, 0)) as [[[sc ab] ad] a2].
  apply forest_frame; reflexivity.
Qed.
Theorem move_blocks_forest s : forest s -> forest (move_blocks s).
Proof.
  unfold move_blocks. generalize (blist s) as l. intros l. revert s.
  induction l as [|b l IH]; intros s F; cbn [fold_left]; [exact F|].
  apply IH. apply update_weighted_position_forest. exact F.
Qed.
Theorem most_violated_forest s : forest s -> forest (snd (most_violated s)).
Proof.
  intros F. unfold most_violated.
  pose proof (mv_scan_fields (inactive s) s O None None (length (inactive s))) as H. cbn zeta in H.
  destruct (mv_scan s (inactive s) 0 None None (length (inactive s))) as [[[best mv] del] s1]. cbn [snd] in H.
  destruct H as [A [B [C [D [E _]]]]].
  assert (F1 : forest s1) by (apply (forest_frame s); try assumption; congruence).
  destruct mv as [c|]; [|exact F1].
  destruct (note_opt_fields s1 best (Some ZERO_UPPERBOUND)) as [A' [B' [C' [D' [E' _]]]]].
  assert (F2 : forest (note_opt s1 best (Some ZERO_UPPERBOUND))) by (apply (forest_frame s1); try assumption; congruence).
  destruct (_ && _); cbn [snd]; [|exact F2]. apply set_inactive_forest. exact F2.
Qed.

Theorem add_constraint_forest s k : book s -> forest s -> forest (add_constraint s k).
Proof.
  intros BK F v Hv. change (length (svars (add_constraint s k))) with (length (svars s)) in Hv.
  assert (Ec : forall e, (e < length (scons s))%nat -> con_of (add_constraint s k) e = con_of s e).
  { intros e He. unfold con_of. cbn. apply app_nth1. exact He. }
  assert (Ea : forall e, act_of (add_constraint s k) e = true <-> act_of s e = true).
  { intros e. unfold act_of. cbn. destruct (Nat.lt_ge_cases e (length (cact s))) as [L|L].
    - rewrite app_nth1 by exact L. tauto.
    - rewrite app_nth2 by exact L. rewrite (nth_overflow (cact s)) by exact L.
      destruct (e - length (cact s))%nat as [|[|?]]; cbn; tauto. }
  apply (tree_ext_K (con_of s)).
  - apply (tree_ext _ _ _ _ _ (F v Hv)).
    + intros w. unfold Vof. tauto.
    + intros e. unfold Eof. change (blk_of (add_constraint s k)) with (blk_of s). split.
      * intros [He [Ae Be]]. split; [cbn; rewrite app_length; lia|]. split; [apply Ea; exact Ae|]. rewrite Ec by exact He. exact Be.
      * intros [He [Ae Be]]. apply Ea in Ae. assert (He' : (e < length (scons s))%nat) by (rewrite <- (bk_cact s BK); apply act_of_lt; exact Ae).
        rewrite Ec in Be by exact He'. tauto.
  - intros e [_ [Ae _]]. apply Ec. apply Ea in Ae. rewrite <- (bk_cact s BK). apply act_of_lt. exact Ae.
Qed.
