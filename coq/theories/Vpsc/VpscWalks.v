(* The Lagrange-multiplier walks of the IncSolver model (reset_active_lm, compute_dfdv, split_path, find_min_lm,
   find_min_lm_between): they only write clm / tie, and the constraint they select is
   - find_min_lm: an active constraint;
   - find_min_lm_between b lv rv: a constraint of block b's tree that SEPARATES lv from rv (removing it from the tree
     leaves lv and rv in different components) -- needed to know that the merge after the split joins two different
     blocks. *)
From Adapt Require Import Num.Qaux Vpsc.VpscSpec Vpsc.VpscModel Vpsc.VpscInv Vpsc.VpscFrame Vpsc.VpscTree
  Vpsc.VpscPopulate Vpsc.VpscForest.
Local Open Scope Q_scope.

(* ------------------------------------------------------------------ reset_active_lm *)
Lemma reset_active_lm_lm_only : forall fuel this v u s s',
  reset_active_lm fuel this v u s = Ok s' -> lm_only s s'.
Proof.
  induction fuel as [|f IH]; intros this v u s s' H; [discriminate|].
  cbn [reset_active_lm] in H.
  set (gout := fun (s' : st) (c : nat) => if can_follow_right s' this c u
                 then reset_active_lm f this (cr (con_of s' c)) (Some v) (set_lm s' c 0) else Ok s') in *.
  set (gin := fun (s' : st) (c : nat) => if can_follow_left s' this c u
                 then reset_active_lm f this (cl (con_of s' c)) (Some v) (set_lm s' c 0) else Ok s') in *.
  destruct (fold_bind_inv gin (lm_only s) (ins_of s v)) with
    (acc := fold_left (fun acc c => bind acc (fun x => gout x c)) (outs_of s v) (Ok s)) (r := s') as [smid [Emid Rin]].
  { intros x c x' _ Ix G. unfold gin in G. destruct (can_follow_left x this c u).
    - apply (lm_only_trans _ x); [exact Ix|]. apply (lm_only_trans _ (set_lm x c 0)); [apply lm_only_set_lm | exact (IH _ _ _ _ _ G)].
    - inversion G. subst. exact Ix. }
  { exact H. }
  destruct (fold_bind_inv gout (lm_only s) (outs_of s v)) with (acc := Ok s) (r := smid) as [s0 [E0 Rout]].
  { intros x c x' _ Ix G. unfold gout in G. destruct (can_follow_right x this c u).
    - apply (lm_only_trans _ x); [exact Ix|]. apply (lm_only_trans _ (set_lm x c 0)); [apply lm_only_set_lm | exact (IH _ _ _ _ _ G)].
    - inversion G. subst. exact Ix. }
  { exact Emid. }
  inversion E0. subst s0. apply Rin, Rout, lm_only_refl.
Qed.

(* ------------------------------------------------------------------ compute_dfdv *)
Definition mn_act (s : st) (mn : option nat) : Prop := forall c, mn = Some c -> act_of s c = true.

Lemma upd_min_spec s c mn mn' s' :
  upd_min s c mn = (mn', s') -> lm_only s s' /\ (mn' = mn \/ mn' = Some c).
Proof.
  unfold upd_min. destruct (ceq (con_of s c)).
  - intros E. inversion E. subst. split; [apply lm_only_refl | tauto].
  - destruct mn as [m0|].
    + destruct (Qltb _ _); intros E; inversion E; subst; (split; [apply lm_only_note | tauto]).
    + intros E. inversion E. subst. split; [apply lm_only_refl | tauto].
Qed.

Lemma compute_dfdv_spec : forall fuel track this v u mn s d mn' s',
  compute_dfdv fuel track this v u mn s = Ok (d, mn', s') ->
  mn_act s mn -> lm_only s s' /\ mn_act s mn'.
Proof.
  induction fuel as [|f IH]; intros track this v u mn s d mn' s' H M; [discriminate|].
  cbn [compute_dfdv] in H.
  apply bind_ok in H. destruct H as [[[d1 mn1] s1] [H E]]. inversion E. subst mn' s'. clear E.
  set (I := fun (a : Q * option nat * st) => lm_only s (snd a) /\ mn_act s (snd (fst a))).
  set (gout := fun (a : Q * option nat * st) (c : nat) =>
          let '(d, mn1, s1) := a in
          if can_follow_right s1 this c u then
            bind (compute_dfdv f track this (cr (con_of s1 c)) (Some v) mn1 s1) (fun r =>
              let '(lmv, mn2, s2) := r in
              let s3 := set_lm s2 c lmv in
              let d' := Qred (d + lmv * scl (var_of s3 (cl (con_of s3 c)))) in
              if track then let '(mn3, s4) := upd_min s3 c mn2 in Ok (d', mn3, s4) else Ok (d', mn2, s3))
          else Ok a) in *.
  set (gin := fun (a : Q * option nat * st) (c : nat) =>
          let '(d, mn1, s1) := a in
          if can_follow_left s1 this c u then
            bind (compute_dfdv f track this (cl (con_of s1 c)) (Some v) mn1 s1) (fun r =>
              let '(lmv0, mn2, s2) := r in
              let lmv := Qred (- lmv0) in
              let s3 := set_lm s2 c lmv in
              let d' := Qred (d - lmv * scl (var_of s3 (cr (con_of s3 c)))) in
              if track then let '(mn3, s4) := upd_min s3 c mn2 in Ok (d', mn3, s4) else Ok (d', mn2, s3))
          else Ok a) in *.
  assert (MT : forall x mnx, lm_only s x -> mn_act s mnx -> mn_act x mnx).
  { intros x mnx [lm [t ->]] Q. exact Q. }
  assert (MB : forall x mnx, lm_only s x -> mn_act x mnx -> mn_act s mnx).
  { intros x mnx [lm [t ->]] Q. exact Q. }
  destruct (fold_bind_inv gin I (ins_of s v)) with
    (acc := fold_left (fun acc c => bind acc (fun x => gout x c)) (outs_of s v) (Ok (dfdv s v, mn, s))) (r := (d1, mn1, s1))
    as [amid [Emid Rin]].
  { intros [[dx mnx] x] c a' _ [Ix Mx] G. cbn [fst snd] in *. unfold gin in G.
    destruct (can_follow_left x this c u) eqn:CF; [|inversion G; subst; split; assumption].
    apply bind_ok in G. destruct G as [[[lmv0 mn2] s2] [G1 G2]].
    destruct (IH _ _ _ _ _ _ _ _ _ G1 (MT _ _ Ix Mx)) as [L2 M2].
    assert (L02 : lm_only s s2) by (apply (lm_only_trans _ x); assumption).
    assert (Ac : act_of s c = true).
    { apply can_follow_left_true in CF. destruct Ix as [lm [t ->]]. tauto. }
    assert (M2s : mn_act s mn2).
    { apply (MB x); [exact Ix | exact M2]. }
    cbv zeta in G2. destruct track.
    - destruct (upd_min _ c mn2) as [mn3 s4] eqn:U. inversion G2. subst a'. cbn [fst snd].
      destruct (upd_min_spec _ _ _ _ _ U) as [L4 C4]. split.
      + apply (lm_only_trans _ s2); [exact L02|]. apply (lm_only_trans _ (set_lm s2 c (Qred (- lmv0)))); [apply lm_only_set_lm | exact L4].
      + intros c' E'. destruct C4 as [->| ->]; [exact (M2s c' E') | inversion E'; subst c'; exact Ac].
    - inversion G2. subst a'. cbn [fst snd]. split.
      + apply (lm_only_trans _ s2); [exact L02 | apply lm_only_set_lm].
      + exact M2s. }
  { exact H. }
  destruct (fold_bind_inv gout I (outs_of s v)) with (acc := Ok (dfdv s v, mn, s)) (r := amid) as [a0 [E0 Rout]].
  { intros [[dx mnx] x] c a' _ [Ix Mx] G. cbn [fst snd] in *. unfold gout in G.
    destruct (can_follow_right x this c u) eqn:CF; [|inversion G; subst; split; assumption].
    apply bind_ok in G. destruct G as [[[lmv mn2] s2] [G1 G2]].
    destruct (IH _ _ _ _ _ _ _ _ _ G1 (MT _ _ Ix Mx)) as [L2 M2].
    assert (L02 : lm_only s s2) by (apply (lm_only_trans _ x); assumption).
    assert (Ac : act_of s c = true).
    { apply can_follow_right_true in CF. destruct Ix as [lm [t ->]]. tauto. }
    assert (M2s : mn_act s mn2).
    { apply (MB x); [exact Ix | exact M2]. }
    cbv zeta in G2. destruct track.
    - destruct (upd_min _ c mn2) as [mn3 s4] eqn:U. inversion G2. subst a'. cbn [fst snd].
      destruct (upd_min_spec _ _ _ _ _ U) as [L4 C4]. split.
      + apply (lm_only_trans _ s2); [exact L02|]. apply (lm_only_trans _ (set_lm s2 c lmv)); [apply lm_only_set_lm | exact L4].
      + intros c' E'. destruct C4 as [->| ->]; [exact (M2s c' E') | inversion E'; subst c'; exact Ac].
    - inversion G2. subst a'. cbn [fst snd]. split.
      + apply (lm_only_trans _ s2); [exact L02 | apply lm_only_set_lm].
      + exact M2s. }
  { exact Emid. }
  inversion E0. subst a0.
  destruct (Rin (Rout (conj (lm_only_refl s) M))) as [A B]. cbn [fst snd] in *. split; assumption.
Qed.

Theorem find_min_lm_spec s b mn s' :
  find_min_lm s b = Ok (mn, s') -> lm_only s s' /\ (forall c, mn = Some c -> act_of s c = true).
Proof.
  unfold find_min_lm. intros H.
  apply bind_ok in H. destruct H as [s1 [H1 H]].
  apply bind_ok in H. destruct H as [[[d mn2] s2] [H2 H]]. inversion H. subst mn2 s2. clear H.
  pose proof (reset_active_lm_lm_only _ _ _ _ _ _ H1) as L1.
  destruct (compute_dfdv_spec _ _ _ _ _ _ _ _ _ _ H2) as [L2 M2]; [intros c E; discriminate|].
  split; [apply (lm_only_trans _ s1); assumption|].
  intros c E. destruct L1 as [lm [t ->]]. exact (M2 c E).
Qed.

(* ------------------------------------------------------------------ split_path *)
Section SplitPath.
Variables (s : st) (this r : nat).
Hypothesis BK : book s.
Hypothesis AI : act_inv s.

(* the walk at v (coming from u) lives in the sub-tree (V', E'): every active constraint of the block at a vertex of V'
   belongs to E', except the one leading back to u *)
Definition sub_ok (V' E' : nat -> Prop) (v : nat) (u : option nat) : Prop :=
  tree (con_of s) V' E' /\ V' v /\
  forall e, Eof s this e -> forall x y, inc s e x y -> V' x -> E' e \/ (x = v /\ u = Some y).

Definition sp_post (V' E' : nat -> Prop) (v : nat) (m0 : option nat) (a : bool * option nat * st) : Prop :=
  lm_only s (snd a) /\
  (fst (fst a) = false -> snd (fst a) = m0) /\
  (fst (fst a) = true -> V' r /\ (snd (fst a) = m0 \/ exists c, snd (fst a) = Some c /\ separates (con_of s) V' E' c v r)).

Lemma sub_ok_child V' E' v u e w V1 E1 V2 E2 :
  sub_ok V' E' v u -> E' e -> inc s e v w ->
  split_dec (con_of s) V' E' e V1 E1 V2 E2 ->
  (* Vw = the side of w *)
  forall Vw Ew Vv Ev, ((Vw = V1 /\ Ew = E1 /\ Vv = V2 /\ Ev = E2) \/ (Vw = V2 /\ Ew = E2 /\ Vv = V1 /\ Ev = E1)) ->
  Vw w -> Vv v -> sub_ok Vw Ew w (Some v).
Proof.
  intros [T [Hv Hall]] Ee Hinc D Vw Ew Vv Ev Hside Hw Hvv.
  assert (Tw : tree (con_of s) Vw Ew).
  { destruct Hside as [[-> [-> _]]|[-> [-> _]]]; [exact (sd_t1 _ _ _ _ _ _ _ _ D) | exact (sd_t2 _ _ _ _ _ _ _ _ D)]. }
  assert (Tv : tree (con_of s) Vv Ev).
  { destruct Hside as [[_ [_ [-> ->]]]|[_ [_ [-> ->]]]]; [exact (sd_t2 _ _ _ _ _ _ _ _ D) | exact (sd_t1 _ _ _ _ _ _ _ _ D)]. }
  assert (Disj : forall x, Vw x -> Vv x -> False).
  { intros x A B. destruct Hside as [[-> [_ [-> _]]]|[-> [_ [-> _]]]];
      [exact (sd_disj _ _ _ _ _ _ _ _ D x A B) | exact (sd_disj _ _ _ _ _ _ _ _ D x B A)]. }
  assert (Sub : forall x, Vw x -> V' x).
  { intros x A. apply (sd_V _ _ _ _ _ _ _ _ D). destruct Hside as [[-> _]|[-> _]]; tauto. }
  assert (EE : forall x, E' x -> x = e \/ Ew x \/ Ev x).
  { intros x A. apply (sd_E _ _ _ _ _ _ _ _ D) in A. destruct Hside as [[_ [-> [_ ->]]]|[_ [-> [_ ->]]]]; tauto. }
  split; [exact Tw|]. split; [exact Hw|].
  intros e' He' x y Hinc' Hx.
  destruct (Hall e' He' x y Hinc' (Sub x Hx)) as [A|[A _]].
  - destruct (EE e' A) as [->|[B|B]].
    + right. unfold inc in *.
      assert (x <> v) by (intros ->; exact (Disj v Hx Hvv)).
      destruct Hinc as [[P Q]|[P Q]], Hinc' as [[P' Q']|[P' Q']]; split; try congruence.
    + left. exact B.
    + exfalso. destruct (tree_edge_ends _ _ _ Tv e' B) as [P Q].
      destruct Hinc' as [[P' _]|[P' _]]; rewrite P' in *; eapply Disj; eauto.
  - exfalso. subst x. exact (Disj v Hx Hvv).
Qed.

Lemma split_path_spec : forall fuel V' E' v u m0 s1 a,
  lm_only s s1 -> sub_ok V' E' v u ->
  split_path fuel this r v u m0 s1 = Ok a -> sp_post V' E' v m0 a.
Proof.
  induction fuel as [|f IH]; intros V' E' v u m0 s1 a L1 SUB H; [discriminate|].
  cbn [split_path] in H.
  destruct SUB as [T [Hv Hall]].
  assert (SUB : sub_ok V' E' v u) by (split; [exact T | split; [exact Hv | exact Hall]]).
  pose proof (tree_edge_ends _ _ _ T) as Ends.
  set (gin := fun (a : bool * option nat * st) (c : nat) =>
          let '(fnd, m1, s1) := a in
          if fnd then Ok a
          else if can_follow_left s1 this c u then
            if Nat.eqb (cl (con_of s1 c)) r then Ok (true, m1, s1)
            else bind (split_path f this r (cl (con_of s1 c)) (Some v) m1 s1) (fun b =>
                   let '(fnd2, m2, s2) := b in Ok (fnd2, m2, s2))
          else Ok a) in *.
  set (gout := fun (a : bool * option nat * st) (c : nat) =>
          let '(fnd, m1, s1) := a in
          if fnd then Ok a
          else if can_follow_right s1 this c u then
            if Nat.eqb (cr (con_of s1 c)) r
            then Ok (true, (if ceq (con_of s1 c) then m1 else Some c), s1)
            else bind (split_path f this r (cr (con_of s1 c)) (Some v) m1 s1) (fun b =>
                   let '(fnd2, m2, s2) := b in
                   if fnd2 then
                     if ceq (con_of s2 c) then Ok (true, m2, s2)
                     else match m2 with
                          | None => Ok (true, Some c, s2)
                          | Some m0 => let s3 := note s2 (lm_of s2 c) (lm_of s2 m0) in
                                       if Qltb (lm_of s2 c) (lm_of s2 m0) then Ok (true, Some c, s3)
                                       else Ok (true, m2, s3)
                          end
                   else Ok (false, m2, s2))
          else Ok a) in *.
  (* an edge followed from v towards w: the sub-tree on w's side, and what a successful search below it gives *)
  assert (EDGE : forall e w x, lm_only s x -> (e < length (scons s))%nat -> act_of s e = true ->
             blk_of s w = this -> inc s e v w -> u <> Some w ->
             E' e /\ V' w /\
             exists Vw Ew, sub_ok Vw Ew w (Some v) /\ (forall z, Vw z -> V' z) /\
               separates (con_of s) V' E' e v w /\
               (forall z, Vw z -> separates (con_of s) V' E' e v z) /\
               (forall c z, separates (con_of s) Vw Ew c w z -> separates (con_of s) V' E' c v z)).
  { intros e w x Lx He Ae Bw Hinc Hu.
    assert (HE : Eof s this e).
    { split; [exact He|]. split; [exact Ae|]. destruct (AI e Ae) as [Sb _].
      destruct Hinc as [[P Q]|[P Q]]; congruence. }
    assert (Ee : E' e).
    { destruct (Hall e HE v w Hinc Hv) as [A|[_ A]]; [exact A | congruence]. }
    destruct (Ends e Ee) as [P Q].
    assert (Vw' : V' w) by (destruct Hinc as [[_ <-]|[_ <-]]; assumption).
    split; [exact Ee|]. split; [exact Vw'|].
    destruct (tree_remove_edge _ _ _ T e Ee) as [V1 [E1 [V2 [E2 D]]]].
    destruct Hinc as [[Hl Hr]|[Hr Hl]].
    - (* v = cl e on side 1, w = cr e on side 2 *)
      assert (A1 : V1 v) by (rewrite <- Hl; exact (sd_l _ _ _ _ _ _ _ _ D)).
      assert (A2 : V2 w) by (rewrite <- Hr; exact (sd_r _ _ _ _ _ _ _ _ D)).
      exists V2, E2. split; [|split; [|split; [|split]]].
      + apply (sub_ok_child V' E' v u e w V1 E1 V2 E2 SUB Ee (or_introl (conj Hl Hr)) D V2 E2 V1 E1);
          [right; repeat split; reflexivity | exact A2 | exact A1].
      + intros z Z. apply (sd_V _ _ _ _ _ _ _ _ D). tauto.
      + exists V1, E1, V2, E2. split; [exact D | left; split; assumption].
      + intros z Z. exists V1, E1, V2, E2. split; [exact D | left; split; assumption].
      + intros c z Sc. apply (separates_extend _ V' E' V2 E2 e c w v z); try assumption.
        * exact (sd_t2 _ _ _ _ _ _ _ _ D).
        * intros y Y. apply (sd_E _ _ _ _ _ _ _ _ D). tauto.
        * exact (sd_nc2 _ _ _ _ _ _ _ _ D).
        * right. split; assumption.
    - assert (A1 : V1 w) by (rewrite <- Hl; exact (sd_l _ _ _ _ _ _ _ _ D)).
      assert (A2 : V2 v) by (rewrite <- Hr; exact (sd_r _ _ _ _ _ _ _ _ D)).
      exists V1, E1. split; [|split; [|split; [|split]]].
      + apply (sub_ok_child V' E' v u e w V1 E1 V2 E2 SUB Ee (or_intror (conj Hr Hl)) D V1 E1 V2 E2);
          [left; repeat split; reflexivity | exact A1 | exact A2].
      + intros z Z. apply (sd_V _ _ _ _ _ _ _ _ D). tauto.
      + exists V1, E1, V2, E2. split; [exact D | right; split; assumption].
      + intros z Z. exists V1, E1, V2, E2. split; [exact D | right; split; assumption].
      + intros c z Sc. apply (separates_extend _ V' E' V1 E1 e c w v z); try assumption.
        * exact (sd_t1 _ _ _ _ _ _ _ _ D).
        * intros y Y. apply (sd_E _ _ _ _ _ _ _ _ D). tauto.
        * exact (sd_nc1 _ _ _ _ _ _ _ _ D).
        * left. split; assumption. }
  set (I := sp_post V' E' v m0).
  destruct (fold_bind_inv gout I (outs_of s v)) with
    (acc := fold_left (fun acc c => bind acc (fun x => gin x c)) (ins_of s v) (Ok (false, m0, s1))) (r := a) as [amid [Emid Rout]].
  { intros [[fnd m1] x] e a' He [Lx [Nf Yf]] G. cbn [fst snd] in *. unfold gout in G.
    destruct fnd; [inversion G; subst a'; split; [exact Lx | split; assumption]|].
    specialize (Nf eq_refl). subst m1.
    destruct (can_follow_right x this e u) eqn:CF; [|inversion G; subst a'; split; [exact Lx | split; [reflexivity | discriminate]]].
    apply can_follow_right_true in CF. rewrite (lm_only_con _ _ e Lx) in *.
    assert (Bx : blk_of x = blk_of s) by (destruct Lx as [lm [t ->]]; reflexivity).
    assert (Ax : act_of x = act_of s) by (destruct Lx as [lm [t ->]]; reflexivity).
    rewrite Bx, Ax in CF. destruct CF as [CF1 [CF2 CF3]].
    apply outs_of_In in He. destruct He as [He Hl].
    destruct (EDGE e (cr (con_of s e)) x Lx He CF2 CF1 (or_introl (conj Hl eq_refl)) CF3)
      as [Ee [Vw' [Vw [Ew [SUBw [Subw [Sep1 [Sepz Sepc]]]]]]]].
    destruct (Nat.eqb (cr (con_of s e)) r) eqn:ER.
    - apply Nat.eqb_eq in ER. inversion G. subst a'. cbn [fst snd]. split; [exact Lx|]. split; [discriminate|].
      intros _. split; [rewrite <- ER; exact Vw'|]. destruct (ceq (con_of s e)); [left; reflexivity|].
      right. exists e. split; [reflexivity|]. rewrite <- ER. exact Sep1.
    - apply bind_ok in G. destruct G as [[[fnd2 m2] s2] [G1 G2]].
      destruct (IH Vw Ew _ _ _ _ _ Lx SUBw G1) as [L2 [N2 Y2]]. cbn [fst snd] in *.
      assert (Sres : fnd2 = true -> V' r /\ separates (con_of s) V' E' e v r /\
                       (m2 = m0 \/ exists c, m2 = Some c /\ separates (con_of s) V' E' c v r)).
      { intros F. destruct (Y2 F) as [Vr Cs]. split; [apply Subw; exact Vr|]. split; [apply Sepz; exact Vr|].
        destruct Cs as [->|[c [-> Sc]]]; [left; reflexivity | right; exists c; split; [reflexivity | apply Sepc; exact Sc]]. }
      destruct fnd2.
      + destruct (Sres eq_refl) as [Vr [Se Cm]].
        assert (Good : forall mres sres, lm_only s sres -> (mres = m2 \/ mres = Some e) -> I (true, mres, sres)).
        { intros mres sres Ls Cr. split; [exact Ls|]. split; [discriminate|]. intros _. split; [exact Vr|]. cbn [fst snd].
          destruct Cr as [->| ->]; [exact Cm | right; exists e; split; [reflexivity | exact Se]]. }
        rewrite (lm_only_con _ _ e L2) in G2.
        destruct (ceq (con_of s e)); [inversion G2; subst a'; apply Good; [exact L2 | left; reflexivity]|].
        destruct m2 as [m0'|]; [|inversion G2; subst a'; apply Good; [exact L2 | right; reflexivity]].
        cbv zeta in G2.
        destruct (Qltb _ _); inversion G2; subst a'; apply Good;
          try (apply (lm_only_trans _ s2); [exact L2 | apply lm_only_note]); tauto.
      + inversion G2. subst a'. split; [exact L2|]. split; [intros _; exact (N2 eq_refl) | discriminate]. }
  { rewrite <- (lm_only_ins _ _ v L1), <- (lm_only_outs _ _ v L1). exact H. }
  destruct (fold_bind_inv gin I (ins_of s v)) with (acc := Ok (false, m0, s1)) (r := amid) as [a0 [E0 Rin]].
  { intros [[fnd m1] x] e a' He [Lx [Nf Yf]] G. cbn [fst snd] in *. unfold gin in G.
    destruct fnd; [inversion G; subst a'; split; [exact Lx | split; assumption]|].
    specialize (Nf eq_refl). subst m1.
    destruct (can_follow_left x this e u) eqn:CF; [|inversion G; subst a'; split; [exact Lx | split; [reflexivity | discriminate]]].
    apply can_follow_left_true in CF. rewrite (lm_only_con _ _ e Lx) in *.
    assert (Bx : blk_of x = blk_of s) by (destruct Lx as [lm [t ->]]; reflexivity).
    assert (Ax : act_of x = act_of s) by (destruct Lx as [lm [t ->]]; reflexivity).
    rewrite Bx, Ax in CF. destruct CF as [CF1 [CF2 CF3]].
    apply ins_of_In in He. destruct He as [He Hr].
    destruct (EDGE e (cl (con_of s e)) x Lx He CF2 CF1 (or_intror (conj Hr eq_refl)) CF3)
      as [Ee [Vw' [Vw [Ew [SUBw [Subw [Sep1 [Sepz Sepc]]]]]]]].
    destruct (Nat.eqb (cl (con_of s e)) r) eqn:ER.
    - apply Nat.eqb_eq in ER. inversion G. subst a'. cbn [fst snd]. split; [exact Lx|]. split; [discriminate|].
      intros _. split; [rewrite <- ER; exact Vw' | left; reflexivity].
    - apply bind_ok in G. destruct G as [[[fnd2 m2] s2] [G1 G2]]. inversion G2. subst a'. clear G2.
      destruct (IH Vw Ew _ _ _ _ _ Lx SUBw G1) as [L2 [N2 Y2]]. cbn [fst snd] in *.
      split; [exact L2|]. split; [exact N2|]. intros F. destruct (Y2 F) as [Vr Cs]. split; [apply Subw; exact Vr|].
      destruct Cs as [->|[c [-> Sc]]]; [left; reflexivity | right; exists c; split; [reflexivity | apply Sepc; exact Sc]]. }
  { exact Emid. }
  inversion E0. subst a0. apply Rout, Rin.
  split; [exact L1|]. split; [reflexivity | discriminate].
Qed.

End SplitPath.

(* Block::findMinLMBetween: the constraint it returns separates lv from rv in the tree of block b *)
Theorem find_min_lm_between_spec s b lv rv m s' :
  book s -> act_inv s -> forest s ->
  (lv < length (svars s))%nat -> blk_of s lv = b ->
  find_min_lm_between s b lv rv = Ok (m, s') ->
  lm_only s s' /\ (forall c, m = Some c -> separates (con_of s) (Vof s b) (Eof s b) c lv rv).
Proof.
  intros BK AI FO Hlv Hb H. unfold find_min_lm_between in H.
  apply bind_ok in H. destruct H as [s1 [H1 H]].
  apply bind_ok in H. destruct H as [[[d mn2] s2] [H2 H]].
  apply bind_ok in H. destruct H as [[[fnd m3] s3] [H3 H]]. inversion H. subst m3 s3. clear H.
  pose proof (reset_active_lm_lm_only _ _ _ _ _ _ H1) as L1.
  destruct (compute_dfdv_spec _ _ _ _ _ _ _ _ _ _ H2) as [L2 _]; [intros c E; discriminate|].
  assert (L02 : lm_only s s2) by (apply (lm_only_trans _ s1); assumption).
  assert (SUB : sub_ok s b (Vof s b) (Eof s b) lv None).
  { split; [rewrite <- Hb; apply FO; exact Hlv|]. split; [split; assumption|]. intros e He x y _ _. left. exact He. }
  destruct (split_path_spec s b rv AI _ _ _ _ _ _ _ _ L02 SUB H3) as [L3 [N3 Y3]]. cbn [fst snd] in *.
  split; [exact L3|]. intros c ->.
  destruct fnd; [|specialize (N3 eq_refl); discriminate].
  destruct (Y3 eq_refl) as [_ [X|[c' [X Sc]]]]; [discriminate|]. inversion X. subst c'. exact Sc.
Qed.
