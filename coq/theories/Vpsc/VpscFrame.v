(* Generic reasoning tools for the IncSolver model (VpscModel.v): folds of `bind`, the index lists Variable::in/out,
   and the frame "only clm / tie changed" that all Lagrange-multiplier walks satisfy. *)
From Adapt Require Import Num.Qaux Vpsc.VpscSpec Vpsc.VpscModel Vpsc.VpscInv.
Local Open Scope Q_scope.

(* ------------------------------------------------------------------ folds of bind *)
Lemma fold_bind_inv {X A} (g : X -> A -> res X) (I : X -> Prop) (l : list A) :
  (forall x a x', In a l -> I x -> g x a = Ok x' -> I x') ->
  forall acc r, fold_left (fun acc a => bind acc (fun x => g x a)) l acc = Ok r ->
  exists x0, acc = Ok x0 /\ (I x0 -> I r).
Proof.
  induction l as [|a t IH]; intros Hg acc r H; cbn [fold_left] in H.
  - exists r. split; [exact H | auto].
  - destruct (IH (fun x b x' Hb => Hg x b x' (or_intror Hb)) _ _ H) as [x1 [H1 R1]].
    apply bind_ok in H1. destruct H1 as [x0 [H0 G]]. exists x0. split; [exact H0|].
    intros I0. apply R1. exact (Hg x0 a x1 (or_introl eq_refl) I0 G).
Qed.

(* invariant I, and a per-element fact Q established when the element is processed and stable afterwards *)
Lemma fold_bind_inv2 {X A} (g : X -> A -> res X) (I : X -> Prop) (Q : A -> X -> Prop) (l : list A) :
  (forall x a x', In a l -> I x -> g x a = Ok x' -> I x' /\ Q a x') ->
  (forall a b x x', In b l -> I x -> Q a x -> g x b = Ok x' -> Q a x') ->
  forall acc r, fold_left (fun acc a => bind acc (fun x => g x a)) l acc = Ok r ->
  exists x0, acc = Ok x0 /\ (I x0 -> I r /\ forall a, In a l -> Q a r).
Proof.
  induction l as [|a t IH]; intros Hg Hs acc r H; cbn [fold_left] in H.
  - exists r. split; [exact H|]. intros I0. split; [exact I0 | intros a []].
  - destruct (IH (fun x b x' Hb => Hg x b x' (or_intror Hb))
                 (fun a' b x x' Hb => Hs a' b x x' (or_intror Hb)) _ _ H) as [x1 [H1 R1]].
    apply bind_ok in H1. destruct H1 as [x0 [H0 G]]. exists x0. split; [exact H0|].
    intros I0. destruct (Hg x0 a x1 (or_introl eq_refl) I0 G) as [I1 Qa].
    destruct (R1 I1) as [Ir Qt]. split; [exact Ir|].
    intros a' [<-|Ha']; [|exact (Qt a' Ha')].
    (* Q a survives the rest of the fold *)
    destruct (fold_bind_inv g (fun x => I x /\ Q a x) t) with (acc := Ok x1) (r := r) as [x1' [E R]].
    + intros x b x' Hb [Ix Qx] Gb. split.
      * exact (proj1 (Hg x b x' (or_intror Hb) Ix Gb)).
      * exact (Hs a b x x' (or_intror Hb) Ix Qx Gb).
    + rewrite H0 in H. cbn [bind] in H. rewrite G in H. exact H.
    + inversion E. subst x1'. exact (proj2 (R (conj I1 Qa))).
Qed.

(* ------------------------------------------------------------------ Variable::in / Variable::out *)
Lemma in_combine_seq (cs : list con) : forall a i k,
  In (i, k) (combine (seq a (length cs)) cs) <-> ((a <= i < a + length cs)%nat /\ nth (i - a) cs dcon = k).
Proof.
  induction cs as [|h t IH]; intros a i k; cbn [length seq combine In].
  - split; [intros [] | lia].
  - rewrite IH. split.
    + intros [E | [H1 H2]].
      * inversion E. subst. rewrite Nat.sub_diag. split; [lia | reflexivity].
      * split; [lia|]. replace (i - a)%nat with (S (i - S a)) by lia. exact H2.
    + intros [H1 H2]. destruct (Nat.eq_dec i a) as [->|N].
      * left. rewrite Nat.sub_diag in H2. cbn in H2. congruence.
      * right. split; [lia|]. replace (i - a)%nat with (S (i - S a)) in H2 by lia. exact H2.
Qed.

Lemma idx_filter_In f cs c :
  In c (idx_filter f cs) <-> ((c < length cs)%nat /\ f (nth c cs dcon) = true).
Proof.
  unfold idx_filter. rewrite in_map_iff. split.
  - intros [[i k] [E H]]. cbn in E. subst i. apply filter_In in H. destruct H as [H F]. cbn in F.
    apply in_combine_seq in H. destruct H as [H1 H2]. rewrite Nat.sub_0_r in H2. subst k. split; [lia | exact F].
  - intros [H F]. exists (c, nth c cs dcon). split; [reflexivity|]. apply filter_In. split; [|exact F].
    apply in_combine_seq. rewrite Nat.sub_0_r. split; [lia | reflexivity].
Qed.

Lemma ins_of_In s v c : In c (ins_of s v) <-> ((c < length (scons s))%nat /\ cr (con_of s c) = v).
Proof. unfold ins_of. rewrite idx_filter_In. unfold con_of. rewrite Nat.eqb_eq. tauto. Qed.
Lemma outs_of_In s v c : In c (outs_of s v) <-> ((c < length (scons s))%nat /\ cl (con_of s c) = v).
Proof. unfold outs_of. rewrite idx_filter_In. unfold con_of. rewrite Nat.eqb_eq. tauto. Qed.

(* ------------------------------------------------------------------ only clm / tie changed *)
Definition lm_only (s s' : st) : Prop :=
  exists lm t, s' = mkst (svars s) (scons s) (voff s) (vblk s) (cact s) (cuns s) lm (blocks s) (blist s) (inactive s) t.

Lemma lm_only_refl s : lm_only s s.
Proof. exists (clm s), (tie s). destruct s; reflexivity. Qed.
Lemma lm_only_trans s1 s2 s3 : lm_only s1 s2 -> lm_only s2 s3 -> lm_only s1 s3.
Proof. intros [l1 [t1 ->]] [l2 [t2 ->]]. exists l2, t2. reflexivity. Qed.
Lemma lm_only_set_lm s c x : lm_only s (set_lm s c x).
Proof. eexists _, _. reflexivity. Qed.
Lemma lm_only_set_tie s x : lm_only s (set_tie s x).
Proof. eexists _, _. reflexivity. Qed.
Lemma lm_only_note s a b : lm_only s (note s a b).
Proof. unfold note. destruct (Qltb _ _); [apply lm_only_set_tie | apply lm_only_refl]. Qed.
Lemma lm_only_note_opt s a b : lm_only s (note_opt s a b).
Proof. unfold note_opt. destruct a, b; try apply lm_only_refl. apply lm_only_note. Qed.

Lemma lm_only_fields s s' : lm_only s s' ->
  svars s' = svars s /\ scons s' = scons s /\ voff s' = voff s /\ vblk s' = vblk s /\ cact s' = cact s /\
  cuns s' = cuns s /\ blocks s' = blocks s /\ blist s' = blist s /\ inactive s' = inactive s.
Proof. intros [lm [t ->]]. repeat split; reflexivity. Qed.

Lemma lm_only_follow_left s s' this c u : lm_only s s' -> can_follow_left s' this c u = can_follow_left s this c u.
Proof. intros [lm [t ->]]. reflexivity. Qed.
Lemma lm_only_follow_right s s' this c u : lm_only s s' -> can_follow_right s' this c u = can_follow_right s this c u.
Proof. intros [lm [t ->]]. reflexivity. Qed.
Lemma lm_only_con s s' c : lm_only s s' -> con_of s' c = con_of s c.
Proof. intros [lm [t ->]]. reflexivity. Qed.
Lemma lm_only_walk_fuel s s' : lm_only s s' -> walk_fuel s' = walk_fuel s.
Proof. intros [lm [t ->]]. reflexivity. Qed.
Lemma lm_only_ins s s' v : lm_only s s' -> ins_of s' v = ins_of s v.
Proof. intros [lm [t ->]]. reflexivity. Qed.
Lemma lm_only_outs s s' v : lm_only s s' -> outs_of s' v = outs_of s v.
Proof. intros [lm [t ->]]. reflexivity. Qed.

Lemma book_lm_only s s' : lm_only s s' -> book s -> book s'.
Proof. intros [lm [t ->]] [A B C D E F G]. constructor; assumption. Qed.
Lemma act_inv_lm_only s s' : lm_only s s' -> act_inv s -> act_inv s'.
Proof. intros [lm [t ->]] H. exact H. Qed.

(* can_follow as propositions *)
Lemma can_follow_left_true s this c u :
  can_follow_left s this c u = true <->
  (blk_of s (cl (con_of s c)) = this /\ act_of s c = true /\ u <> Some (cl (con_of s c))).
Proof.
  unfold can_follow_left, neq_opt. rewrite !andb_true_iff, Nat.eqb_eq.
  destruct u as [w|].
  - rewrite negb_true_iff, Nat.eqb_neq. intuition congruence.
  - intuition congruence.
Qed.
Lemma can_follow_right_true s this c u :
  can_follow_right s this c u = true <->
  (blk_of s (cr (con_of s c)) = this /\ act_of s c = true /\ u <> Some (cr (con_of s c))).
Proof.
  unfold can_follow_right, neq_opt. rewrite !andb_true_iff, Nat.eqb_eq.
  destruct u as [w|].
  - rewrite negb_true_iff, Nat.eqb_neq. intuition congruence.
  - intuition congruence.
Qed.
Lemma can_follow_left_false s this c u :
  can_follow_left s this c u = false ->
  blk_of s (cl (con_of s c)) <> this \/ act_of s c = false \/ u = Some (cl (con_of s c)).
Proof.
  intros H. destruct (Nat.eq_dec (blk_of s (cl (con_of s c))) this) as [E|E]; [|tauto].
  destruct (act_of s c) eqn:A; [|tauto]. right. right.
  destruct u as [w|].
  - destruct (Nat.eq_dec w (cl (con_of s c))) as [->|N]; [reflexivity|].
    exfalso. assert (T : can_follow_left s this c (Some w) = true).
    { apply can_follow_left_true. repeat split; auto; congruence. }
    congruence.
  - exfalso. assert (T : can_follow_left s this c None = true).
    { apply can_follow_left_true. repeat split; auto; congruence. }
    congruence.
Qed.
Lemma can_follow_right_false s this c u :
  can_follow_right s this c u = false ->
  blk_of s (cr (con_of s c)) <> this \/ act_of s c = false \/ u = Some (cr (con_of s c)).
Proof.
  intros H. destruct (Nat.eq_dec (blk_of s (cr (con_of s c))) this) as [E|E]; [|tauto].
  destruct (act_of s c) eqn:A; [|tauto]. right. right.
  destruct u as [w|].
  - destruct (Nat.eq_dec w (cr (con_of s c))) as [->|N]; [reflexivity|].
    exfalso. assert (T : can_follow_right s this c (Some w) = true).
    { apply can_follow_right_true. repeat split; auto; congruence. }
    congruence.
  - exfalso. assert (T : can_follow_right s this c None = true).
    { apply can_follow_right_true. repeat split; auto; congruence. }
    congruence.
Qed.

Lemma act_of_lt s c : act_of s c = true -> (c < length (cact s))%nat.
Proof.
  intros H. destruct (Nat.lt_ge_cases c (length (cact s))) as [L|L]; [exact L|].
  unfold act_of in H. rewrite nth_overflow in H by exact L. discriminate.
Qed.
