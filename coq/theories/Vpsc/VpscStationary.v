(* C02 stretch lemma `compute_dfdv_stationary` for the IncSolver model.
   Block::compute_dfdv (block.cpp:297-335) walks the spanning tree of active constraints of a block from its first
   variable and writes into every tree constraint the multiplier that balances the sub-tree hanging below it.  Proved:
   - (walk) after compute_dfdv from the root, the stationarity residual  dfdv_i + scl_i (sum_out lm - sum_in lm)  is 0 at
     every variable of the block except possibly the root, for ANY block position (compute_dfdv_spec_stat);
   - (root) summing the residuals over the block, the multipliers cancel (each active constraint is an out-edge of one
     variable of the block and an in-edge of another), so the residual at the root is  sum_i dfdv_i / scl_i * scl_root,
     which is 0 exactly when posn is the weighted optimum (AD - AB) / A2 of the block (fresh statistics);
   - hence findMinLM leaves the KKT stationarity equation of KKT.v satisfied at every variable of the block
     (find_min_lm_stationary), and re-running it on every block (VpscKktB.relm) at every variable (relm_stationary). *)
From Adapt Require Import Num.Qaux Vpsc.VpscSpec Vpsc.KKT Vpsc.VpscModel Vpsc.VpscInv Vpsc.VpscFrame Vpsc.VpscTree
  Vpsc.VpscPopulate Vpsc.VpscForest Vpsc.VpscWalks Vpsc.VpscTrichotomy Vpsc.VpscReach Vpsc.VpscInvB Vpsc.VpscStats
  Vpsc.VpscKktB.
Local Open Scope Q_scope.

(* ------------------------------------------------------------------ sums over index lists *)
Lemma csum_plus {A} (l : list A) f g : csum l (fun a => f a + g a) == csum l f + csum l g.
Proof. induction l as [|a l IH]; cbn; [lra|]. rewrite IH. lra. Qed.
Lemma csum_scale {A} (l : list A) k f : csum l (fun a => k * f a) == k * csum l f.
Proof. induction l as [|a l IH]; cbn; [lra|]. rewrite IH. lra. Qed.
Lemma csum_app {A} (l l' : list A) f : csum (l ++ l') f == csum l f + csum l' f.
Proof. induction l as [|a l IH]; cbn; [lra|]. rewrite IH. lra. Qed.

(* a sum whose terms vanish except at e *)
Lemma csum_single (l : list nat) (g : nat -> Q) e :
  NoDup l -> (forall c, In c l -> c <> e -> g c == 0) ->
  csum l g == if in_dec Nat.eq_dec e l then g e else 0.
Proof.
  induction l as [|a l IH]; intros ND Z; cbn [csum]; [destruct (in_dec Nat.eq_dec e []) as [[]|]; reflexivity|].
  inversion ND as [|? ? Na ND']. subst.
  destruct (Nat.eq_dec a e) as [->|N].
  - assert (Zl : csum l g == 0).
    { rewrite <- (csum_zero l). apply csum_ext. intros c Hc. apply Z; [right; exact Hc | intros ->; contradiction]. }
    rewrite Zl. destruct (in_dec Nat.eq_dec e (e :: l)) as [_|X]; [lra | exfalso; apply X; left; reflexivity].
  - rewrite (Z a (or_introl eq_refl) N). rewrite IH; [|exact ND' | intros c Hc; apply Z; right; exact Hc].
    destruct (in_dec Nat.eq_dec e l) as [I1|I1]; destruct (in_dec Nat.eq_dec e (a :: l)) as [I2|I2]; try lra.
    + exfalso. apply I2. right. exact I1.
    + exfalso. destruct I2 as [X|X]; [congruence | contradiction].
Qed.

Lemma map_fst_combine_seq (cs : list con) : forall a, map fst (combine (seq a (length cs)) cs) = seq a (length cs).
Proof. induction cs as [|h t IH]; intros a; cbn; [reflexivity|]. rewrite IH. reflexivity. Qed.
Lemma NoDup_map_fst_filter {A B} (f : A * B -> bool) (l : list (A * B)) :
  NoDup (map fst l) -> NoDup (map fst (filter f l)).
Proof.
  induction l as [|p l IH]; intros ND; cbn; [constructor|]. inversion ND as [|? ? Na ND']. subst.
  destruct (f p); cbn; [constructor|]; auto.
  intros H. apply Na. apply in_map_iff in H. destruct H as [q [E Hq]]. apply filter_In in Hq.
  apply in_map_iff. exists q. tauto.
Qed.
Lemma NoDup_idx_filter f cs : NoDup (idx_filter f cs).
Proof. unfold idx_filter. apply NoDup_map_fst_filter. rewrite map_fst_combine_seq. apply seq_NoDup. Qed.
Lemma NoDup_outs_of s v : NoDup (outs_of s v).
Proof. apply NoDup_idx_filter. Qed.
Lemma NoDup_ins_of s v : NoDup (ins_of s v).
Proof. apply NoDup_idx_filter. Qed.

(* the sums of KKT.v (over the constraint list paired with multipliers) as sums over Variable::out / Variable::in *)
Lemma csum_idx_filter (P : con -> bool) (f : nat -> Q) : forall cs a,
  csum (combine cs (map f (seq a (length cs)))) (fun p => if P (fst p) then snd p else 0)
  == csum (map fst (filter (fun p => P (snd p)) (combine (seq a (length cs)) cs))) f.
Proof.
  induction cs as [|c cs IH]; intros a; cbn [length seq map combine csum filter]; [reflexivity|].
  cbn [fst snd]. rewrite IH. destruct (P c); cbn [map csum fst]; lra.
Qed.

Lemma outs_lcons s x i :
  length (scons x) = length (scons s) -> scons x = scons s ->
  outs (lcons_of x) i == csum (outs_of s i) (lam_at x).
Proof.
  intros _ E. unfold outs, lcons_of, lam_of, outs_of, idx_filter. rewrite E.
  apply (csum_idx_filter (fun c => Nat.eqb (cl c) i) (lam_at x) (scons s) 0).
Qed.
Lemma ins_lcons s x i :
  length (scons x) = length (scons s) -> scons x = scons s ->
  ins (lcons_of x) i == csum (ins_of s i) (lam_at x).
Proof.
  intros _ E. unfold ins, lcons_of, lam_of, ins_of, idx_filter. rewrite E.
  apply (csum_idx_filter (fun c => Nat.eqb (cr c) i) (lam_at x) (scons s) 0).
Qed.

(* ------------------------------------------------------------------ the residual in the model's terms *)
Definition OUT (s x : st) (w : nat) : Q := csum (outs_of s w) (lam_at x).
Definition IN (s x : st) (w : nat) : Q := csum (ins_of s w) (lam_at x).
Definition resid (s x : st) (w : nat) : Q := dfdv s w + scl (var_of s w) * (OUT s x w - IN s x w).

Lemma stat_res_resid s x i :
  lm_only s x -> (i < length (svars s))%nat ->
  stat_res (svars s) (lcons_of x) (xs_of s) i == resid s x i.
Proof.
  intros L Hi. destruct (lm_only_fields _ _ L) as [_ [E _]].
  unfold stat_res, resid. rewrite (outs_lcons s x i) by (rewrite ?E; reflexivity).
  rewrite (ins_lcons s x i) by (rewrite ?E; reflexivity).
  unfold xs_of. rewrite final_positions_nth by exact Hi. unfold dfdv, var_of, OUT, IN. rewrite Qred_correct. reflexivity.
Qed.

(* sums over the edges the walk follows at w when it came from u, and over the edge(s) leading back to u *)
Section Local.
Variables (s : st) (this : nat).
Hypothesis AI : act_inv s.

Definition OUTf (u : option nat) (x : st) (w : nat) : Q :=
  csum (outs_of s w) (fun c => if can_follow_right s this c u then lm_of x c else 0).
Definition INf (u : option nat) (x : st) (w : nat) : Q :=
  csum (ins_of s w) (fun c => if can_follow_left s this c u then lm_of x c else 0).
Definition POUT (u : option nat) (x : st) (w : nat) : Q :=
  csum (outs_of s w) (fun c => if act_of s c && negb (neq_opt u (cr (con_of s c))) then lm_of x c else 0).
Definition PIN (u : option nat) (x : st) (w : nat) : Q :=
  csum (ins_of s w) (fun c => if act_of s c && negb (neq_opt u (cl (con_of s c))) then lm_of x c else 0).

Lemma OUT_split u x w : lm_only s x -> blk_of s w = this -> OUT s x w == OUTf u x w + POUT u x w.
Proof.
  intros L Bw. unfold OUT, OUTf, POUT. rewrite <- csum_plus. apply csum_ext. intros c Hc.
  apply outs_of_In in Hc. destruct Hc as [_ Hl].
  assert (Ea : lam_at x c = if act_of s c then lm_of x c else 0) by (unfold lam_at; destruct L as [lm [t ->]]; reflexivity).
  rewrite Ea. unfold can_follow_right. destruct (act_of s c) eqn:A.
  - destruct (AI c A) as [Sb _]. rewrite <- Sb, Hl, Bw, Nat.eqb_refl. cbn [andb].
    destruct (neq_opt u (cr (con_of s c))); cbn [negb]; lra.
  - rewrite andb_false_r. cbn [andb]. lra.
Qed.
Lemma IN_split u x w : lm_only s x -> blk_of s w = this -> IN s x w == INf u x w + PIN u x w.
Proof.
  intros L Bw. unfold IN, INf, PIN. rewrite <- csum_plus. apply csum_ext. intros c Hc.
  apply ins_of_In in Hc. destruct Hc as [_ Hr].
  assert (Ea : lam_at x c = if act_of s c then lm_of x c else 0) by (unfold lam_at; destruct L as [lm [t ->]]; reflexivity).
  rewrite Ea. unfold can_follow_left. destruct (act_of s c) eqn:A.
  - destruct (AI c A) as [Sb _]. rewrite Sb, Hr, Bw, Nat.eqb_refl. cbn [andb].
    destruct (neq_opt u (cl (con_of s c))); cbn [negb]; lra.
  - rewrite andb_false_r. cbn [andb]. lra.
Qed.

(* at the root nothing leads back *)
Lemma POUT_none x w : POUT None x w == 0.
Proof.
  unfold POUT. rewrite <- (csum_zero (outs_of s w)). apply csum_ext. intros c _. cbn [neq_opt negb]. rewrite andb_false_r. reflexivity.
Qed.
Lemma PIN_none x w : PIN None x w == 0.
Proof.
  unfold PIN. rewrite <- (csum_zero (ins_of s w)). apply csum_ext. intros c _. cbn [neq_opt negb]. rewrite andb_false_r. reflexivity.
Qed.

Lemma lm_of_set_lm_neq x e v c : c <> e -> lm_of (set_lm x e v) c = lm_of x c.
Proof. intros N. unfold lm_of, set_lm. cbn [clm set_clm]. apply nth_upd_nth_neq. congruence. Qed.
Lemma lm_of_set_lm_eq x e v : (e < length (clm x))%nat -> lm_of (set_lm x e v) e = v.
Proof. intros H. unfold lm_of, set_lm. cbn [clm set_clm]. apply nth_upd_nth_eq. exact H. Qed.

(* the algebra at a child w of v joined by the tree edge e, once lm(e) has been set from the child's return value dw *)
Lemma child_resid x e v w dw lmv :
  lm_only s x -> (e < length (scons s))%nat -> (e < length (clm x))%nat -> act_of s e = true ->
  inc s e v w -> v <> w -> blk_of s w = this ->
  (forall c, (c < length (scons s))%nat -> act_of s c = true -> inc s c v w -> c = e) ->
  ~ scl (var_of s w) == 0 ->
  dw * scl (var_of s w) == dfdv s w + scl (var_of s w) * (OUTf (Some v) x w - INf (Some v) x w) ->
  lmv == (if Nat.eqb (cl (con_of s e)) v then dw else - dw) ->
  resid s (set_lm x e lmv) w == 0.
Proof.
  intros L He Hlm Ae Hinc Nvw Bw Uq Ns P3 Elm.
  set (x2 := set_lm x e lmv).
  assert (L2 : lm_only s x2) by (apply (lm_only_trans _ x); [exact L | apply lm_only_set_lm]).
  unfold resid. rewrite (OUT_split (Some v) x2 w L2 Bw), (IN_split (Some v) x2 w L2 Bw).
  (* the followed sums do not see e *)
  assert (Ef : OUTf (Some v) x2 w == OUTf (Some v) x w).
  { unfold OUTf. apply csum_ext. intros c Hc. apply outs_of_In in Hc. destruct Hc as [_ Hl].
    destruct (Nat.eq_dec c e) as [->|N]; [|unfold x2; rewrite (lm_of_set_lm_neq x e lmv c N); reflexivity].
    assert (CF : can_follow_right s this e (Some v) = false).
    { unfold can_follow_right, neq_opt. destruct Hinc as [[P Q]|[P Q]]; [congruence|]. rewrite P, Nat.eqb_refl. cbn [negb]. apply andb_false_r. }
    rewrite CF. reflexivity. }
  assert (Ei : INf (Some v) x2 w == INf (Some v) x w).
  { unfold INf. apply csum_ext. intros c Hc. apply ins_of_In in Hc. destruct Hc as [_ Hr].
    destruct (Nat.eq_dec c e) as [->|N]; [|unfold x2; rewrite (lm_of_set_lm_neq x e lmv c N); reflexivity].
    assert (CF : can_follow_left s this e (Some v) = false).
    { unfold can_follow_left, neq_opt. destruct Hinc as [[P Q]|[P Q]]; [|congruence]. rewrite P, Nat.eqb_refl. cbn [negb]. apply andb_false_r. }
    rewrite CF. reflexivity. }
  rewrite Ef, Ei.
  assert (Ee : lm_of x2 e = lmv) by (apply lm_of_set_lm_eq; exact Hlm).
  (* the sums over the edges leading back to v: only e *)
  assert (Po : POUT (Some v) x2 w == if Nat.eqb (cl (con_of s e)) v then 0 else lmv).
  { unfold POUT. rewrite (csum_single _ _ e (NoDup_outs_of s w)).
    - destruct (in_dec Nat.eq_dec e (outs_of s w)) as [I|I].
      + apply outs_of_In in I. destruct I as [_ Hl].
        destruct Hinc as [[P Q]|[P Q]]; [congruence|].
        rewrite Ae, P. cbn [neq_opt]. rewrite Nat.eqb_refl. cbn [negb andb]. rewrite Q.
        destruct (Nat.eqb w v) eqn:X; [apply Nat.eqb_eq in X; congruence|]. rewrite Ee. reflexivity.
      + destruct (Nat.eqb (cl (con_of s e)) v) eqn:X; [reflexivity|]. exfalso. apply I. apply outs_of_In. split; [exact He|].
        destruct Hinc as [[P Q]|[P Q]]; [rewrite P, Nat.eqb_refl in X; discriminate | exact Q].
    - intros c Hc Nc. apply outs_of_In in Hc. destruct Hc as [Hc Hl].
      destruct (act_of s c) eqn:A; [|reflexivity]. cbn [andb neq_opt].
      destruct (Nat.eqb v (cr (con_of s c))) eqn:X; cbn [negb]; [|reflexivity].
      apply Nat.eqb_eq in X. exfalso. apply Nc. apply (Uq c Hc A). right. split; [symmetry; exact X | exact Hl]. }
  assert (Pi : PIN (Some v) x2 w == if Nat.eqb (cl (con_of s e)) v then lmv else 0).
  { unfold PIN. rewrite (csum_single _ _ e (NoDup_ins_of s w)).
    - destruct (in_dec Nat.eq_dec e (ins_of s w)) as [I|I].
      + apply ins_of_In in I. destruct I as [_ Hr].
        destruct Hinc as [[P Q]|[P Q]]; [|congruence].
        rewrite Ae, P. cbn [neq_opt]. rewrite !Nat.eqb_refl. cbn [negb andb]. rewrite Ee. reflexivity.
      + destruct (Nat.eqb (cl (con_of s e)) v) eqn:X; [|reflexivity]. exfalso. apply I. apply ins_of_In. split; [exact He|].
        apply Nat.eqb_eq in X. destruct Hinc as [[P Q]|[P Q]]; [exact Q | congruence].
    - intros c Hc Nc. apply ins_of_In in Hc. destruct Hc as [Hc Hr].
      destruct (act_of s c) eqn:A; [|reflexivity]. cbn [andb neq_opt].
      destruct (Nat.eqb v (cl (con_of s c))) eqn:X; cbn [negb]; [|reflexivity].
      apply Nat.eqb_eq in X. exfalso. apply Nc. apply (Uq c Hc A). left. split; [symmetry; exact X | exact Hr]. }
  rewrite Po, Pi. destruct (Nat.eqb (cl (con_of s e)) v); rewrite Elm; lra.
Qed.

End Local.

(* ------------------------------------------------------------------ a tree seen from one of its vertices *)
Section Rooted.
Variable K : nat -> con.
Variables (V E : nat -> Prop).
Hypothesis T : tree K V E.

Definition incK' (e x y : nat) : Prop := (cl (K e) = x /\ cr (K e) = y) \/ (cr (K e) = x /\ cl (K e) = y).

(* T - c = (A, EA) + (B, EB) with v in A: the decomposition of VpscTree.split_dec oriented by a vertex, not by c *)
Record sdec (c v : nat) (A EA B EB : nat -> Prop) : Prop := {
  sx_tA : tree K A EA;
  sx_tB : tree K B EB;
  sx_v : A v;
  sx_V : forall w, V w <-> A w \/ B w;
  sx_disj : forall w, A w -> B w -> False;
  sx_E : forall e, E e <-> e = c \/ EA e \/ EB e;
  sx_ncA : ~ EA c;
  sx_ncB : ~ EB c;
  sx_ends : exists a b, incK' c a b /\ A a /\ B b }.

Lemma sdec_exists c v : E c -> V v -> exists A EA B EB, sdec c v A EA B EB.
Proof.
  intros Ec Hv. destruct (tree_remove_edge K V E T c Ec) as [V1 [E1 [V2 [E2 D]]]].
  destruct D as [S1 S2 S3 S4 S5 S6 S7 S8 S9]. apply S5 in Hv. destruct Hv as [Hv|Hv].
  - exists V1, E1, V2, E2. constructor; auto.
    exists (cl (K c)), (cr (K c)). split; [left; split; reflexivity | split; assumption].
  - exists V2, E2, V1, E1. constructor; auto.
    + intros w. rewrite S5. tauto.
    + intros w A B. exact (S6 w B A).
    + intros e. rewrite S7. tauto.
    + exists (cr (K c)), (cl (K c)). split; [right; split; reflexivity | split; assumption].
Qed.

Lemma sdec_separates c v A EA B EB z : sdec c v A EA B EB -> B z -> separates K V E c v z.
Proof.
  intros [S1 S2 S3 S4 S5 S6 S7 S8 [a [b [Hi [Ha Hb]]]]] Hz.
  destruct Hi as [[P Q]|[P Q]]; subst a b.
  - exists A, EA, B, EB. split; [constructor; auto | left; split; assumption].
  - exists B, EB, A, EA. split; [|right; split; assumption]. constructor; auto.
    + intros w. rewrite S4. tauto.
    + intros w X Y. exact (S5 w Y X).
    + intros e. rewrite S6. tauto.
Qed.

Lemma separates_sdec c v z : separates K V E c v z -> exists A EA B EB, sdec c v A EA B EB /\ B z.
Proof.
  intros [V1 [E1 [V2 [E2 [D Sd]]]]]. destruct D as [S1 S2 S3 S4 S5 S6 S7 S8 S9]. destruct Sd as [[Hv Hz]|[Hv Hz]].
  - exists V1, E1, V2, E2. split; [|exact Hz]. constructor; auto.
    exists (cl (K c)), (cr (K c)). split; [left; split; reflexivity | split; assumption].
  - exists V2, E2, V1, E1. split; [|exact Hz]. constructor; auto.
    + intros w. rewrite S5. tauto.
    + intros w A B. exact (S6 w B A).
    + intros e. rewrite S7. tauto.
    + exists (cr (K c)), (cl (K c)). split; [right; split; reflexivity | split; assumption].
Qed.

(* edges other than c keep both ends on one side *)
Lemma sdec_edge_side c v A EA B EB e : sdec c v A EA B EB -> E e -> e <> c ->
  (A (cl (K e)) /\ A (cr (K e))) \/ (B (cl (K e)) /\ B (cr (K e))).
Proof.
  intros S He Ne. apply (sx_E _ _ _ _ _ _ S) in He. destruct He as [->|[He|He]]; [congruence | left | right].
  - exact (tree_edge_ends K _ _ (sx_tA _ _ _ _ _ _ S) e He).
  - exact (tree_edge_ends K _ _ (sx_tB _ _ _ _ _ _ S) e He).
Qed.
Lemma sdec_same_side c v A EA B EB e x y : sdec c v A EA B EB -> E e -> e <> c -> incK' e x y -> (A x <-> A y) /\ (B x <-> B y).
Proof.
  intros S He Ne Hi. pose proof (sx_disj _ _ _ _ _ _ S) as Dj.
  destruct (sdec_edge_side c v A EA B EB e S He Ne) as [[P Q]|[P Q]]; destruct Hi as [[<- <-]|[<- <-]]; split; split; intros X; try assumption;
    exfalso; eauto.
Qed.

(* a sub-tree that avoids c lies on one side *)
Lemma sdec_subtree_side c v A EA B EB (W EW : nat -> Prop) x0 :
  sdec c v A EA B EB -> tree K W EW -> (forall e, EW e -> E e /\ e <> c) -> W x0 ->
  (A x0 -> forall x, W x -> A x) /\ (B x0 -> forall x, W x -> B x).
Proof.
  intros S TW Sub H0. split; intros X x Hx.
  - apply (tree_connected K W EW TW A) with (x := x0); try assumption.
    intros e He. destruct (Sub e He) as [Ee Ne].
    exact (proj1 (sdec_same_side c v A EA B EB e _ _ S Ee Ne (or_introl (conj eq_refl eq_refl)))).
  - apply (tree_connected K W EW TW B) with (x := x0); try assumption.
    intros e He. destruct (Sub e He) as [Ee Ne].
    exact (proj2 (sdec_same_side c v A EA B EB e _ _ S Ee Ne (or_introl (conj eq_refl eq_refl)))).
Qed.

(* the sides are determined by c and v *)
Lemma sdec_unique c v A EA B EB A' EA' B' EB' :
  sdec c v A EA B EB -> sdec c v A' EA' B' EB' -> (forall x, A x -> A' x) /\ (forall x, B x -> B' x).
Proof.
  intros S S'.
  assert (SubA : forall e, EA e -> E e /\ e <> c).
  { intros e He. split; [apply (sx_E _ _ _ _ _ _ S); tauto | intros ->; exact (sx_ncA _ _ _ _ _ _ S He)]. }
  assert (SubB : forall e, EB e -> E e /\ e <> c).
  { intros e He. split; [apply (sx_E _ _ _ _ _ _ S); tauto | intros ->; exact (sx_ncB _ _ _ _ _ _ S He)]. }
  assert (HA : forall x, A x -> A' x).
  { exact (proj1 (sdec_subtree_side c v A' EA' B' EB' A EA v S' (sx_tA _ _ _ _ _ _ S) SubA (sx_v _ _ _ _ _ _ S)) (sx_v _ _ _ _ _ _ S')). }
  split; [exact HA|].
  (* the far end of c *)
  destruct (sx_ends _ _ _ _ _ _ S) as [a [b [Hi [Ha Hb]]]].
  destruct (sx_ends _ _ _ _ _ _ S') as [a' [b' [Hi' [Ha' Hb']]]].
  assert (Hb2 : B' b).
  { assert (Xa : A' a) by (apply HA; exact Ha).
    destruct Hi as [[P Q]|[P Q]]; destruct Hi' as [[P' Q']|[P' Q']]; subst; try exact Hb';
      exfalso; exact (sx_disj _ _ _ _ _ _ S' _ Xa Hb'). }
  exact (proj2 (sdec_subtree_side c v A' EA' B' EB' B EB b S' (sx_tB _ _ _ _ _ _ S) SubB Hb) Hb2).
Qed.

Lemma separates_far c v A EA B EB z : sdec c v A EA B EB -> separates K V E c v z -> B z.
Proof.
  intros S Sp. destruct (separates_sdec c v z Sp) as [A' [EA' [B' [EB' [S' Hz]]]]].
  exact (proj2 (sdec_unique c v A' EA' B' EB' A EA B EB S' S) z Hz).
Qed.

Lemma separates_self c v : separates K V E c v v -> False.
Proof.
  intros Sp. destruct (separates_sdec c v v Sp) as [A [EA [B [EB [S Hz]]]]].
  exact (sx_disj _ _ _ _ _ _ S v (sx_v _ _ _ _ _ _ S) Hz).
Qed.

Lemma tree_no_loop c : E c -> cl (K c) <> cr (K c).
Proof.
  intros Ec X. destruct (tree_remove_edge K V E T c Ec) as [V1 [E1 [V2 [E2 D]]]].
  apply (sd_disj _ _ _ _ _ _ _ _ D (cl (K c))); [exact (sd_l _ _ _ _ _ _ _ _ D) | rewrite X; exact (sd_r _ _ _ _ _ _ _ _ D)].
Qed.

(* an edge at v separates v from its other end *)
Lemma edge_separates c v y : E c -> incK' c v y -> separates K V E c v y.
Proof.
  intros Ec Hi. destruct (tree_remove_edge K V E T c Ec) as [V1 [E1 [V2 [E2 D]]]].
  exists V1, E1, V2, E2. split; [exact D|].
  destruct Hi as [[<- <-]|[<- <-]]; [left | right]; split;
    [exact (sd_l _ _ _ _ _ _ _ _ D) | exact (sd_r _ _ _ _ _ _ _ _ D) | exact (sd_r _ _ _ _ _ _ _ _ D) | exact (sd_l _ _ _ _ _ _ _ _ D)].
Qed.

(* two different edges at v cut off disjoint parts *)
Lemma separates_disjoint c c2 v y y2 z :
  E c -> E c2 -> c <> c2 -> incK' c v y -> incK' c2 v y2 ->
  separates K V E c v z -> separates K V E c2 v z -> False.
Proof.
  intros Ec Ec2 Ne Hi Hi2 Sp Sp2.
  destruct (separates_sdec c v z Sp) as [A [EA [B [EB [S Hz]]]]].
  destruct (separates_sdec c2 v z Sp2) as [A2 [EA2 [B2 [EB2 [S2 Hz2]]]]].
  (* the far end of c is on v's side of c2 *)
  assert (Hy : B y) by (apply (separates_far c v A EA B EB y S); apply edge_separates; assumption).
  assert (Hy2 : A2 y) by (apply (proj1 (sdec_same_side c2 v A2 EA2 B2 EB2 c v y S2 Ec Ne Hi)); exact (sx_v _ _ _ _ _ _ S2)).
  assert (SubB : forall e, EB e -> E e /\ e <> c2).
  { intros e He. split; [apply (sx_E _ _ _ _ _ _ S); tauto|]. intros ->.
    destruct (tree_edge_ends K _ _ (sx_tB _ _ _ _ _ _ S) c2 He) as [P Q].
    apply (sx_disj _ _ _ _ _ _ S v (sx_v _ _ _ _ _ _ S)). destruct Hi2 as [[<- _]|[<- _]]; assumption. }
  pose proof (proj1 (sdec_subtree_side c2 v A2 EA2 B2 EB2 B EB y S2 (sx_tB _ _ _ _ _ _ S) SubB Hy) Hy2 z Hz) as X.
  exact (sx_disj _ _ _ _ _ _ S2 z X Hz2).
Qed.

(* at most one edge joins v and w *)
Lemma tree_edge_unique c e v w : E c -> E e -> incK' c v w -> incK' e v w -> c = e.
Proof.
  intros Ec Ee Hc He. destruct (Nat.eq_dec c e) as [X|N]; [exact X|exfalso].
  apply (separates_disjoint c e v w w w Ec Ee N Hc He); apply edge_separates; assumption.
Qed.

(* every other vertex is cut off by exactly one edge at v *)
Lemma separates_cover v : V v -> forall w, V w -> w <> v -> exists c y, E c /\ incK' c v y /\ separates K V E c v w.
Proof.
  intros Hv w Hw Nw.
  set (P := fun z => z = v \/ exists c y, E c /\ incK' c v y /\ separates K V E c v z).
  assert (Pw : P w).
  { apply (tree_connected K V E T P) with (x := v); [|exact Hv | exact Hw | left; reflexivity].
    intros e He.
    assert (Step : forall a b, incK' e a b -> P a -> P b).
    { intros a b Hi [->|[c [y [Ec [Hc Sp]]]]].
      - right. exists e, b. split; [exact He|]. split; [exact Hi | apply edge_separates; assumption].
      - destruct (Nat.eq_dec b v) as [->|Nb]; [left; reflexivity|]. right.
        destruct (Nat.eq_dec e c) as [->|Nec].
        + (* e = c: a is the far end, b = v *) exfalso.
          assert (Ha : a = y \/ a = v) by (destruct Hi as [[<- <-]|[<- <-]]; destruct Hc as [[P1 Q1]|[P1 Q1]]; auto).
          assert (Hb : b = y \/ b = v) by (destruct Hi as [[<- <-]|[<- <-]]; destruct Hc as [[P1 Q1]|[P1 Q1]]; auto).
          destruct Hb as [-> | ->]; [|congruence]. destruct Ha as [-> | ->].
          * destruct Hi as [[P1 Q1]|[P1 Q1]]; apply (tree_no_loop c Ec); congruence.
          * exact (separates_self c v Sp).
        + exists c, y. split; [exact Ec|]. split; [exact Hc|].
          destruct (separates_sdec c v a Sp) as [A [EA [B [EB [S Hz]]]]].
          apply (sdec_separates c v A EA B EB b S).
          apply (proj2 (sdec_same_side c v A EA B EB e a b S He Nec Hi)). exact Hz. }
    split; [apply Step; left; split; reflexivity | apply Step; right; split; reflexivity]. }
  destruct Pw as [->|X]; [congruence | exact X].
Qed.

End Rooted.

(* ------------------------------------------------------------------ the walk *)
Definition cd_gout (f : nat) (track : bool) (this v : nat) (u : option nat) (a : Q * option nat * st) (c : nat)
  : res (Q * option nat * st) :=
  let '(d, mn1, s1) := a in
  if can_follow_right s1 this c u then
    bind (compute_dfdv f track this (cr (con_of s1 c)) (Some v) mn1 s1) (fun r =>
      let '(lmv, mn2, s2) := r in
      let s3 := set_lm s2 c lmv in
      let d' := Qred (d + lmv * scl (var_of s3 (cl (con_of s3 c)))) in
      if track then let '(mn3, s4) := upd_min s3 c mn2 in Ok (d', mn3, s4) else Ok (d', mn2, s3))
  else Ok a.
Definition cd_gin (f : nat) (track : bool) (this v : nat) (u : option nat) (a : Q * option nat * st) (c : nat)
  : res (Q * option nat * st) :=
  let '(d, mn1, s1) := a in
  if can_follow_left s1 this c u then
    bind (compute_dfdv f track this (cl (con_of s1 c)) (Some v) mn1 s1) (fun r =>
      let '(lmv0, mn2, s2) := r in
      let lmv := Qred (- lmv0) in
      let s3 := set_lm s2 c lmv in
      let d' := Qred (d - lmv * scl (var_of s3 (cr (con_of s3 c)))) in
      if track then let '(mn3, s4) := upd_min s3 c mn2 in Ok (d', mn3, s4) else Ok (d', mn2, s3))
  else Ok a.
Lemma compute_dfdv_unfold f track this v u mn s :
  compute_dfdv (S f) track this v u mn s =
  bind (fold_left (fun acc c => bind acc (fun a => cd_gin f track this v u a c)) (ins_of s v)
         (fold_left (fun acc c => bind acc (fun a => cd_gout f track this v u a c)) (outs_of s v) (Ok (dfdv s v, mn, s))))
       (fun a => let '(d, mn', s') := a in Ok (Qred (d / scl (var_of s' v)), mn', s')).
Proof. reflexivity. Qed.

Lemma upd_min_lm s c mn mn' s' : upd_min s c mn = (mn', s') -> clm s' = clm s.
Proof.
  unfold upd_min. destruct (ceq (con_of s c)); [intros E; inversion E; reflexivity|].
  destruct mn as [m0|]; [|intros E; inversion E; reflexivity].
  unfold note. destruct (Qltb (lm_of s c) (lm_of s m0)); destruct (Qltb _ TIE_EPS); intros E; inversion E; reflexivity.
Qed.


Section Walk.
Variables (s : st) (this : nat).
Hypothesis BK : book s.
Hypothesis AI : act_inv s.
Hypothesis NZ : forall i, ~ scl (var_of s i) == 0.

Definition sepS (V' E' : nat -> Prop) (c v z : nat) : Prop := separates (con_of s) V' E' c v z.
Definition under (V' E' : nat -> Prop) (v c e : nat) : Prop :=
  E' e /\ sepS V' E' c v (cl (con_of s e)) /\ sepS V' E' c v (cr (con_of s e)).

Lemma resid_ext x x' w :
  lm_only s x -> lm_only s x' ->
  (forall c, In c (outs_of s w) \/ In c (ins_of s w) -> lm_of x' c = lm_of x c) ->
  resid s x' w == resid s x w.
Proof.
  intros L L' H. unfold resid, OUT, IN.
  assert (Ea : forall y, lm_only s y -> forall c, lam_at y c = if act_of s c then lm_of y c else 0).
  { intros y [lm [t ->]] c. reflexivity. }
  assert (E1 : csum (outs_of s w) (lam_at x') == csum (outs_of s w) (lam_at x)).
  { apply csum_ext. intros c Hc. rewrite (Ea x' L'), (Ea x L), (H c (or_introl Hc)). reflexivity. }
  assert (E2 : csum (ins_of s w) (lam_at x') == csum (ins_of s w) (lam_at x)).
  { apply csum_ext. intros c Hc. rewrite (Ea x' L'), (Ea x L), (H c (or_intror Hc)). reflexivity. }
  rewrite E1, E2. reflexivity.
Qed.

Lemma incident_inc w c : In c (outs_of s w) \/ In c (ins_of s w) -> exists y, inc s c w y.
Proof.
  intros [H|H]; [apply outs_of_In in H | apply ins_of_In in H]; destruct H as [_ H].
  - exists (cr (con_of s c)). left. split; [exact H | reflexivity].
  - exists (cl (con_of s c)). right. split; [exact H | reflexivity].
Qed.

(* what one call at v (coming from u) over the sub-tree (V', E') establishes *)
Definition cd_post (V' E' : nat -> Prop) (v : nat) (u : option nat) (x0 : st) (d : Q) (x' : st) : Prop :=
  lm_only s x' /\ length (clm x') = length (clm x0) /\
  (forall e, ~ E' e -> lm_of x' e = lm_of x0 e) /\
  (forall w, V' w -> w <> v -> resid s x' w == 0) /\
  d * scl (var_of s v) == dfdv s v + scl (var_of s v) * (OUTf s this u x' v - INf s this u x' v).

Section AtV.
Variables (V' E' : nat -> Prop) (v : nat) (u : option nat).
Hypothesis T : tree (con_of s) V' E'.
Hypothesis SUB : sub_ok s this V' E' v u.
Hypothesis VB : forall z, V' z -> blk_of s z = this.
Hypothesis ES : forall e, E' e -> Eof s this e.
Hypothesis UP : forall p, u = Some p -> ~ V' p.

Let Vv : V' v := proj1 (proj2 SUB).

(* an edge followed from v belongs to the sub-tree *)
Lemma followed_edge c y :
  (c < length (scons s))%nat -> act_of s c = true -> inc s c v y -> u <> Some y -> E' c.
Proof.
  intros Hc Ac Hi Hu. pose proof SUB as [_ [_ Hall]].
  assert (HE : Eof s this c).
  { split; [exact Hc|]. split; [exact Ac|]. destruct (AI c Ac) as [Sb _].
    destruct Hi as [[P Q]|[P Q]]; [rewrite P | rewrite Sb, P]; apply VB; exact Vv. }
  destruct (Hall c HE v y Hi Vv) as [X|[_ X]]; [exact X | congruence].
Qed.

(* processing the followed edge e = {v, w}: child call, then lm(e) := +-(its return value) *)
Lemma child_step e w A EA B EB x0 dw x2 lmv x4 :
  E' e -> inc s e v w -> sdec (con_of s) V' E' e v A EA B EB ->
  lm_only s x0 -> length (clm x0) = length (scons s) ->
  cd_post B EB w (Some v) x0 dw x2 ->
  lmv == (if Nat.eqb (cl (con_of s e)) v then dw else - dw) ->
  lm_only s x4 -> clm x4 = clm (set_lm x2 e lmv) ->
  (forall w', sepS V' E' e v w' -> resid s x4 w' == 0) /\
  (forall e', e' <> e -> ~ under V' E' v e e' -> lm_of x4 e' = lm_of x0 e') /\
  lm_of x4 e = lmv /\ length (clm x4) = length (clm x0).
Proof.
  intros Ee Hi S L0 Hlen [L2 [Len2 [Fr2 [R2 P3]]]] Elm L4 E4.
  set (x3 := set_lm x2 e lmv) in *.
  assert (L3 : lm_only s x3) by (apply (lm_only_trans _ x2); [exact L2 | apply lm_only_set_lm]).
  assert (Elm4 : forall c, lm_of x4 c = lm_of x3 c) by (intros c; unfold lm_of; rewrite E4; reflexivity).
  destruct (ES e Ee) as [He [Ae _]].
  assert (Hw : B w) by (apply (separates_far (con_of s) V' E' e v A EA B EB w S); apply edge_separates; assumption).
  assert (Av : A v) by exact (sx_v _ _ _ _ _ _ _ _ _ S).
  assert (Nvw : v <> w) by (intros ->; exact (sx_disj _ _ _ _ _ _ _ _ _ S w Av Hw)).
  assert (SubV : forall z, B z -> V' z) by (intros z Hz; apply (sx_V _ _ _ _ _ _ _ _ _ S); tauto).
  split; [|split; [|split]].
  - intros w' Sp. assert (Hw' : B w') by exact (separates_far (con_of s) V' E' e v A EA B EB w' S Sp).
    destruct (Nat.eq_dec w' w) as [->|Nw].
    + rewrite (resid_ext x3 x4 w L3 L4) by (intros c _; apply Elm4).
      apply (child_resid s this AI x2 e v w dw lmv L2 He); try assumption.
      * rewrite Len2, Hlen. exact He.
      * apply VB, SubV. exact Hw.
      * intros c Hc Ac Hic.
        assert (Ec : E' c).
        { pose proof SUB as [_ [_ Hall]].
          assert (HE : Eof s this c).
          { split; [exact Hc|]. split; [exact Ac|]. destruct (AI c Ac) as [Sb _].
            destruct Hic as [[P Q]|[P Q]]; [rewrite P | rewrite Sb, P]; apply VB; exact Vv. }
          assert (Hic' : inc s c w v) by (destruct Hic as [[P Q]|[P Q]]; [right | left]; split; assumption).
          destruct (Hall c HE w v Hic' (SubV w Hw)) as [X|[X _]]; [exact X | congruence]. }
        exact (tree_edge_unique (con_of s) V' E' T c e v w Ec Ee Hic Hi).
      * apply NZ.
    + rewrite (resid_ext x2 x4 w' L2 L4); [exact (R2 w' Hw' Nw)|].
      intros c Hc. rewrite Elm4. unfold x3. apply lm_of_set_lm_neq. intros ->.
      destruct (incident_inc w' e Hc) as [y Hy].
      assert (w' = v \/ w' = w) by (destruct Hi as [[P Q]|[P Q]]; destruct Hy as [[P' Q']|[P' Q']]; subst; auto).
      destruct H as [->| ->]; [exact (sx_disj _ _ _ _ _ _ _ _ _ S v Av Hw') | congruence].
  - intros e' Ne NU. rewrite Elm4. unfold x3. rewrite (lm_of_set_lm_neq x2 e lmv e' Ne). apply Fr2.
    intros X. apply NU. split; [apply (sx_E _ _ _ _ _ _ _ _ _ S); tauto|].
    destruct (tree_edge_ends _ _ _ (sx_tB _ _ _ _ _ _ _ _ _ S) e' X) as [P Q].
    split; apply (sdec_separates (con_of s) V' E' e v A EA B EB _ S); assumption.
  - rewrite Elm4. unfold x3. apply lm_of_set_lm_eq. rewrite Len2, Hlen. exact He.
  - rewrite E4. unfold x3, set_lm. cbn [clm set_clm]. rewrite upd_nth_length. exact Len2.
Qed.

(* a later step that only writes under other edges at v keeps the residuals under c *)
Lemma resid_stable c y (l : list nat) (f : nat -> bool) x4 x1 w' :
  E' c -> inc s c v y -> sepS V' E' c v w' ->
  lm_only s x4 -> lm_only s x1 ->
  (forall c2, In c2 l -> f c2 = true -> c2 <> c /\ E' c2 /\ exists y2, inc s c2 v y2) ->
  (forall e', (forall c2, In c2 l -> f c2 = true -> e' <> c2 /\ ~ under V' E' v c2 e') -> lm_of x1 e' = lm_of x4 e') ->
  resid s x1 w' == resid s x4 w'.
Proof.
  intros Ec Hi Sp L4 L1 HL Fr. apply (resid_ext x4 x1 w' L4 L1). intros e' He'. apply Fr.
  intros c2 Hc2 Fc2. destruct (HL c2 Hc2 Fc2) as [Nc [Ec2 [y2 Hi2]]].
  destruct (incident_inc w' e' He') as [z Hz].
  split.
  - intros ->.
    assert (w' = v \/ w' = y2) by (destruct Hi2 as [[P Q]|[P Q]]; destruct Hz as [[P' Q']|[P' Q']]; subst; auto).
    destruct H as [->| ->].
    + exact (separates_self (con_of s) V' E' c v Sp).
    + apply (separates_disjoint (con_of s) V' E' T c c2 v y y2 y2); auto. apply edge_separates; assumption.
  - intros [_ [U1 U2]].
    assert (Sp2 : sepS V' E' c2 v w') by (destruct Hz as [[P Q]|[P Q]]; [rewrite <- P; exact U1 | rewrite <- P; exact U2]).
    apply (separates_disjoint (con_of s) V' E' T c c2 v y y2 w'); auto.
Qed.

(* the generic fold over Variable::out (sg = 1) or Variable::in (sg = -1) *)
Definition acc_ok (a : Q * option nat * st) : Prop := lm_only s (snd a) /\ length (clm (snd a)) = length (scons s).
Definition step_ok (sg : Q) (c : nat) (a a' : Q * option nat * st) : Prop :=
  acc_ok a' /\
  (forall e', e' <> c -> ~ under V' E' v c e' -> lm_of (snd a') e' = lm_of (snd a) e') /\
  (forall w', sepS V' E' c v w' -> resid s (snd a') w' == 0) /\
  fst (fst a') == fst (fst a) + sg * scl (var_of s v) * lm_of (snd a') c.

Lemma fold_walk (sg : Q) (g : Q * option nat * st -> nat -> res (Q * option nat * st)) (f : nat -> bool) :
  forall l, NoDup l ->
  (forall a c a', In c l -> f c = false -> acc_ok a -> g a c = Ok a' -> a' = a) ->
  (forall a c a', In c l -> f c = true -> acc_ok a -> g a c = Ok a' -> step_ok sg c a a') ->
  (forall c, In c l -> f c = true -> E' c /\ exists y, inc s c v y) ->
  forall a0 a1, acc_ok a0 ->
  fold_left (fun acc c => bind acc (fun a => g a c)) l (Ok a0) = Ok a1 ->
  acc_ok a1 /\
  (forall e', (forall c, In c l -> f c = true -> e' <> c /\ ~ under V' E' v c e') -> lm_of (snd a1) e' = lm_of (snd a0) e') /\
  (forall c, In c l -> f c = true -> forall w', sepS V' E' c v w' -> resid s (snd a1) w' == 0) /\
  fst (fst a1) == fst (fst a0) + sg * scl (var_of s v) * csum l (fun c => if f c then lm_of (snd a1) c else 0).
Proof.
  induction l as [|c l IH]; intros ND G1 G2 G3 a0 a1 A0 H; cbn [fold_left] in H.
  - inversion H. subst a1. split; [exact A0|]. split; [reflexivity|]. split; [intros c []|]. cbn [csum]. lra.
  - inversion ND as [|? ? Nc ND']. subst.
    destruct (fold_bind_inv g (fun _ => True) l (fun _ _ _ _ _ _ => I) _ _ H) as [am [Em _]].
    cbn [bind] in Em, H. rewrite Em in H.
    assert (IHl := IH ND' (fun a c0 a' Hc => G1 a c0 a' (or_intror Hc)) (fun a c0 a' Hc => G2 a c0 a' (or_intror Hc))
                      (fun c0 Hc => G3 c0 (or_intror Hc))).
    destruct (f c) eqn:Fc.
    + destruct (G2 a0 c am (or_introl eq_refl) Fc A0 Em) as [Am [Frm [Rm Dm]]].
      destruct (IHl am a1 Am H) as [A1 [Fr1 [R1 D1]]].
      destruct (G3 c (or_introl eq_refl) Fc) as [Ec [y Hi]].
      assert (HL : forall c2, In c2 l -> f c2 = true -> c2 <> c /\ E' c2 /\ exists y2, inc s c2 v y2).
      { intros c2 Hc2 F2. split; [intros ->; contradiction|]. exact (G3 c2 (or_intror Hc2) F2). }
      (* lm(c) survives the rest *)
      assert (Ec1 : lm_of (snd a1) c = lm_of (snd am) c).
      { apply Fr1. intros c2 Hc2 F2. split; [intros ->; contradiction|]. intros [_ [U1 U2]].
        destruct Hi as [[P Q]|[P Q]]; [rewrite P in U1; exact (separates_self (con_of s) V' E' c2 v U1)
                                       | rewrite P in U2; exact (separates_self (con_of s) V' E' c2 v U2)]. }
      split; [exact A1|]. split; [|split].
      * intros e' He'. rewrite Fr1 by (intros c2 Hc2 F2; apply He'; [right; exact Hc2 | exact F2]).
        destruct (He' c (or_introl eq_refl) Fc) as [N U]. apply Frm; assumption.
      * intros c0 [E0|Hc0] F0 w' Sp; [subst c0|exact (R1 c0 Hc0 F0 w' Sp)].
        rewrite (resid_stable c y l f (snd am) (snd a1) w' Ec Hi Sp (proj1 Am) (proj1 A1) HL Fr1). exact (Rm w' Sp).
      * cbn [csum]. rewrite Fc, D1, Dm, Ec1. lra.
    + pose proof (G1 a0 c am (or_introl eq_refl) Fc A0 Em) as ->.
      destruct (IHl a0 a1 A0 H) as [A1 [Fr1 [R1 D1]]].
      split; [exact A1|]. split; [|split].
      * intros e' He'. apply Fr1. intros c2 Hc2 F2. apply He'; [right; exact Hc2 | exact F2].
      * intros c0 [E0|Hc0] F0; [subst c0; congruence | exact (R1 c0 Hc0 F0)].
      * cbn [csum]. rewrite Fc, D1. lra.
Qed.

(* the far side of a followed edge is again a sub-tree the walk can enter *)
Lemma sub_ok_far e w A EA B EB :
  E' e -> inc s e v w -> sdec (con_of s) V' E' e v A EA B EB ->
  B w /\ sub_ok s this B EB w (Some v) /\ (forall z, B z -> V' z) /\ (forall c, EB c -> E' c) /\ ~ B v.
Proof.
  intros Ee Hi S.
  assert (Hw : B w) by (apply (separates_far (con_of s) V' E' e v A EA B EB w S); apply edge_separates; assumption).
  assert (Av : A v) by exact (sx_v _ _ _ _ _ _ _ _ _ S).
  assert (SubV : forall z, B z -> V' z) by (intros z Hz; apply (sx_V _ _ _ _ _ _ _ _ _ S); tauto).
  pose proof (sx_disj _ _ _ _ _ _ _ _ _ S) as Dj.
  split; [exact Hw|]. split; [|split; [exact SubV|split; [intros c Hc; apply (sx_E _ _ _ _ _ _ _ _ _ S); tauto | intros X; exact (Dj v Av X)]]].
  split; [exact (sx_tB _ _ _ _ _ _ _ _ _ S)|]. split; [exact Hw|].
  intros e' He' x y Hi' Hx. pose proof SUB as [_ [_ Hall]].
  destruct (Hall e' He' x y Hi' (SubV x Hx)) as [X|[X _]]; [|subst x; exfalso; exact (Dj v Av Hx)].
  apply (sx_E _ _ _ _ _ _ _ _ _ S) in X. destruct X as [->|[X|X]].
  - right.
    assert (x = v \/ x = w) by (destruct Hi as [[P Q]|[P Q]]; destruct Hi' as [[P' Q']|[P' Q']]; subst; auto).
    destruct H as [-> | ->]; [exfalso; exact (Dj v Av Hx)|]. split; [reflexivity|].
    destruct Hi as [[P Q]|[P Q]]; destruct Hi' as [[P' Q']|[P' Q']]; subst; try reflexivity;
      exfalso; apply (tree_no_loop (con_of s) V' E' T e Ee); congruence.
  - exfalso. destruct (tree_edge_ends _ _ _ (sx_tA _ _ _ _ _ _ _ _ _ S) e' X) as [P Q].
    destruct Hi' as [[P' _]|[P' _]]; rewrite P' in *; [exact (Dj x P Hx) | exact (Dj x Q Hx)].
  - left. exact X.
Qed.

End AtV.
End Walk.

(* ------------------------------------------------------------------ compute_dfdv over a sub-tree *)
Lemma dfdv_lm_only s x i : lm_only s x -> dfdv x i = dfdv s i.
Proof. intros [lm [t ->]]. reflexivity. Qed.
Lemma var_of_lm_only s x i : lm_only s x -> var_of x i = var_of s i.
Proof. intros [lm [t ->]]. reflexivity. Qed.

(* the tail of one step of either loop: lm(c) has been written, then (track) the minimum is updated *)
Lemma cd_tail s (track : bool) xr c lmv mnr (d' : Q) a' :
  lm_only s xr ->
  (if track then let '(mn3, s4) := upd_min (set_lm xr c lmv) c mnr in Ok (d', mn3, s4) else Ok (d', mnr, set_lm xr c lmv)) = Ok a' ->
  exists mn3 x4, a' = (d', mn3, x4) /\ lm_only s x4 /\ clm x4 = clm (set_lm xr c lmv).
Proof.
  intros Lr G. set (x3 := set_lm xr c lmv) in *.
  assert (L3 : lm_only s x3) by (apply (lm_only_trans _ xr); [exact Lr | apply lm_only_set_lm]).
  destruct track.
  - destruct (upd_min x3 c mnr) as [mn3 x4] eqn:U. inversion G. subst a'. exists mn3, x4. split; [reflexivity|].
    destruct (upd_min_spec _ _ _ _ _ U) as [L4 _]. split; [apply (lm_only_trans _ x3); assumption | exact (upd_min_lm _ _ _ _ _ U)].
  - inversion G. subst a'. exists mnr, x3. split; [reflexivity|]. split; [exact L3 | reflexivity].
Qed.

Theorem compute_dfdv_stat s this :
  act_inv s -> (forall i, ~ scl (var_of s i) == 0) ->
  forall fuel track V' E' v u mn x0 d mn' x',
  tree (con_of s) V' E' -> sub_ok s this V' E' v u ->
  (forall z, V' z -> blk_of s z = this) -> (forall e, E' e -> Eof s this e) -> (forall p, u = Some p -> ~ V' p) ->
  lm_only s x0 -> length (clm x0) = length (scons s) ->
  compute_dfdv fuel track this v u mn x0 = Ok (d, mn', x') -> cd_post s this V' E' v u x0 d x'.
Proof.
  intros AI NZ. induction fuel as [|f IH]; intros track V' E' v u mn x0 d mn' x' T SUB VB ES UP L0 Hlen H; [discriminate|].
  rewrite compute_dfdv_unfold in H.
  rewrite (lm_only_ins _ _ v L0), (lm_only_outs _ _ v L0), (dfdv_lm_only _ _ v L0) in H.
  apply bind_ok in H. destruct H as [[[d2 mn2] x2] [H E]].
  change (Ok (Qred (d2 / scl (var_of x2 v)), mn2, x2) = Ok (d, mn', x')) in E.
  assert (Ed : d = Qred (d2 / scl (var_of x2 v))) by congruence.
  assert (Ex : x' = x2) by congruence. subst d x'. clear E.
  pose proof (proj1 (proj2 SUB)) as Vv.
  (* the common part of one step: the child call over the far side of the followed edge e = {v, w} *)
  assert (CHILD : forall e w dx mn1 x lmv0 mnr xr,
            (e < length (scons s))%nat -> act_of s e = true -> inc s e v w -> u <> Some w ->
            acc_ok s (dx, mn1, x) ->
            compute_dfdv f track this w (Some v) mn1 x = Ok (lmv0, mnr, xr) ->
            E' e /\ lm_only s xr /\
            forall lmv x4, lmv == (if Nat.eqb (cl (con_of s e)) v then lmv0 else - lmv0) ->
              lm_only s x4 -> clm x4 = clm (set_lm xr e lmv) ->
              acc_ok s (dx, mn1, x4) /\
              (forall e', e' <> e -> ~ under s V' E' v e e' -> lm_of x4 e' = lm_of x e') /\
              (forall w', sepS s V' E' e v w' -> resid s x4 w' == 0) /\ lm_of x4 e = lmv).
  { intros e w dx mn1 x lmv0 mnr xr He Ae Hi Hu [Lx Lenx] G. cbn [snd] in Lx, Lenx.
    pose proof (followed_edge s this AI V' E' v u SUB VB e w He Ae Hi Hu) as Ee. split; [exact Ee|].
    destruct (sdec_exists (con_of s) V' E' T e v Ee Vv) as [A [EA [B [EB S]]]].
    destruct (sub_ok_far s this V' E' v u T SUB e w A EA B EB Ee Hi S) as [Hw [SUBw [SubV [SubE NBv]]]].
    assert (CP : cd_post s this B EB w (Some v) x lmv0 xr).
    { apply (IH track B EB w (Some v) mn1 x lmv0 mnr xr); auto.
      - exact (sx_tB _ _ _ _ _ _ _ _ _ S).
      - intros p Ep. inversion Ep. subst p. exact NBv. }
    split; [exact (proj1 CP)|].
    intros lmv x4 Elm L4 E4.
    destruct (child_step s this AI NZ V' E' v u T SUB VB ES e w A EA B EB x lmv0 xr lmv x4 Ee Hi S Lx Lenx CP Elm L4 E4)
      as [R [Fr [Le Len4]]].
    split; [split; cbn [snd]; [exact L4 | rewrite Len4; exact Lenx]|]. split; [exact Fr|]. split; [exact R | exact Le]. }
  set (fo := fun c => can_follow_right s this c u).
  set (fi := fun c => can_follow_left s this c u).
  assert (A0 : acc_ok s (dfdv s v, mn, x0)) by (split; assumption).
  destruct (fold_bind_inv (cd_gin f track this v u) (fun _ => True) (ins_of s v) (fun _ _ _ _ _ _ => I) _ _ H) as [[[d1 mn1] x1] [H1 _]].
  rewrite H1 in H.
  (* ---- Variable::out *)
  destruct (fold_walk s this V' E' v u T SUB 1 (cd_gout f track this v u) fo (outs_of s v) (NoDup_outs_of s v)) with
    (a0 := (dfdv s v, mn, x0)) (a1 := (d1, mn1, x1)) as [A1 [Fr1 [R1 D1]]]; try assumption.
  { intros [[dx mnx] x] c a' Hc Fc [Lx _] G. cbn [snd] in Lx. unfold cd_gout in G.
    rewrite (lm_only_follow_right _ _ this c u Lx) in G. unfold fo in Fc. rewrite Fc in G. inversion G. reflexivity. }
  { intros [[dx mnx] x] c a' Hc Fc Ax G. pose proof Ax as [Lx Lenx]. cbn [snd] in Lx, Lenx. unfold cd_gout in G.
    rewrite (lm_only_follow_right _ _ this c u Lx) in G. unfold fo in Fc. rewrite Fc in G.
    apply can_follow_right_true in Fc. destruct Fc as [Bw [Ac Hu]].
    apply outs_of_In in Hc. destruct Hc as [Hc Hl].
    rewrite (lm_only_con _ _ c Lx) in G.
    apply bind_ok in G. destruct G as [[[lmv0 mnr] xr] [G1 G2]].
    destruct (CHILD c (cr (con_of s c)) dx mnx x lmv0 mnr xr Hc Ac (or_introl (conj Hl eq_refl)) Hu Ax G1) as [Ec [Lr Fin]].
    assert (Elm : lmv0 == (if Nat.eqb (cl (con_of s c)) v then lmv0 else - lmv0)) by (rewrite Hl, Nat.eqb_refl; reflexivity).
    cbv zeta in G2.
    destruct (cd_tail s track xr c lmv0 mnr _ a' Lr G2) as [mn3 [x4 [-> [L4 E4]]]].
    destruct (Fin lmv0 x4 Elm L4 E4) as [A4 [Fr [R Le]]].
    split; [exact A4|]. split; [exact Fr|]. split; [exact R|]. cbn [fst snd]. rewrite Qred_correct, Le.
    assert (L3 : lm_only s (set_lm xr c lmv0)) by (apply (lm_only_trans _ xr); [exact Lr | apply lm_only_set_lm]).
    rewrite (lm_only_con _ _ c L3), (var_of_lm_only _ _ _ L3), Hl. ring. }
  { intros c Hc Fc. unfold fo in Fc. apply can_follow_right_true in Fc. destruct Fc as [Bw [Ac Hu]].
    apply outs_of_In in Hc. destruct Hc as [Hc Hl].
    split; [exact (followed_edge s this AI V' E' v u SUB VB c _ Hc Ac (or_introl (conj Hl eq_refl)) Hu)|].
    exists (cr (con_of s c)). left. split; [exact Hl | reflexivity]. }
  (* ---- Variable::in *)
  destruct (fold_walk s this V' E' v u T SUB (-(1)) (cd_gin f track this v u) fi (ins_of s v) (NoDup_ins_of s v)) with
    (a0 := (d1, mn1, x1)) (a1 := (d2, mn2, x2)) as [A2 [Fr2 [R2 D2]]]; try assumption.
  { intros [[dx mnx] x] c a' Hc Fc [Lx _] G. cbn [snd] in Lx. unfold cd_gin in G.
    rewrite (lm_only_follow_left _ _ this c u Lx) in G. unfold fi in Fc. rewrite Fc in G. inversion G. reflexivity. }
  { intros [[dx mnx] x] c a' Hc Fc Ax G. pose proof Ax as [Lx Lenx]. cbn [snd] in Lx, Lenx. unfold cd_gin in G.
    rewrite (lm_only_follow_left _ _ this c u Lx) in G. unfold fi in Fc. rewrite Fc in G.
    apply can_follow_left_true in Fc. destruct Fc as [Bw [Ac Hu]].
    apply ins_of_In in Hc. destruct Hc as [Hc Hr].
    rewrite (lm_only_con _ _ c Lx) in G.
    apply bind_ok in G. destruct G as [[[lmv0 mnr] xr] [G1 G2]].
    destruct (CHILD c (cl (con_of s c)) dx mnx x lmv0 mnr xr Hc Ac (or_intror (conj Hr eq_refl)) Hu Ax G1) as [Ec [Lr Fin]].
    assert (Nl : cl (con_of s c) <> v) by (rewrite <- Hr; exact (tree_no_loop (con_of s) V' E' T c Ec)).
    assert (Elm : Qred (- lmv0) == (if Nat.eqb (cl (con_of s c)) v then lmv0 else - lmv0)).
    { apply Nat.eqb_neq in Nl. rewrite Nl. apply Qred_correct. }
    cbv zeta in G2.
    destruct (cd_tail s track xr c (Qred (- lmv0)) mnr _ a' Lr G2) as [mn3 [x4 [-> [L4 E4]]]].
    destruct (Fin (Qred (- lmv0)) x4 Elm L4 E4) as [A4 [Fr [R Le]]].
    split; [exact A4|]. split; [exact Fr|]. split; [exact R|]. cbn [fst snd]. rewrite Qred_correct, Le.
    assert (L3 : lm_only s (set_lm xr c (Qred (- lmv0)))) by (apply (lm_only_trans _ xr); [exact Lr | apply lm_only_set_lm]).
    rewrite (lm_only_con _ _ c L3), (var_of_lm_only _ _ _ L3), Hr. ring. }
  { intros c Hc Fc. unfold fi in Fc. apply can_follow_left_true in Fc. destruct Fc as [Bw [Ac Hu]].
    apply ins_of_In in Hc. destruct Hc as [Hc Hr].
    split; [exact (followed_edge s this AI V' E' v u SUB VB c _ Hc Ac (or_intror (conj Hr eq_refl)) Hu)|].
    exists (cl (con_of s c)). right. split; [exact Hr | reflexivity]. }
  cbn [fst snd] in *.
  destruct A1 as [L1 Len1]. destruct A2 as [L2 Len2]. cbn [snd] in L1, Len1, L2, Len2.
  (* facts about followed edges *)
  assert (FO : forall c, In c (outs_of s v) -> fo c = true -> E' c /\ cl (con_of s c) = v).
  { intros c Hc Fc. unfold fo in Fc. apply can_follow_right_true in Fc. destruct Fc as [Bw [Ac Hu]].
    apply outs_of_In in Hc. destruct Hc as [Hc Hl].
    split; [exact (followed_edge s this AI V' E' v u SUB VB c _ Hc Ac (or_introl (conj Hl eq_refl)) Hu) | exact Hl]. }
  assert (FI : forall c, In c (ins_of s v) -> fi c = true -> E' c /\ cr (con_of s c) = v).
  { intros c Hc Fc. unfold fi in Fc. apply can_follow_left_true in Fc. destruct Fc as [Bw [Ac Hu]].
    apply ins_of_In in Hc. destruct Hc as [Hc Hr].
    split; [exact (followed_edge s this AI V' E' v u SUB VB c _ Hc Ac (or_intror (conj Hr eq_refl)) Hu) | exact Hr]. }
  (* an out-edge is not an in-edge *)
  assert (OI : forall c c2, In c (outs_of s v) -> fo c = true -> In c2 (ins_of s v) -> fi c2 = true -> c <> c2).
  { intros c c2 Hc Fc Hc2 Fc2 ->. destruct (FO c2 Hc Fc) as [Ec El]. destruct (FI c2 Hc2 Fc2) as [_ Er].
    apply (tree_no_loop (con_of s) V' E' T c2 Ec). congruence. }
  (* the in-loop leaves the multipliers of the followed out-edges alone *)
  assert (Keep : forall c, In c (outs_of s v) -> fo c = true -> lm_of x2 c = lm_of x1 c).
  { intros c Hc Fc. apply Fr2. intros c2 Hc2 Fc2. split; [exact (OI c c2 Hc Fc Hc2 Fc2)|].
    intros [_ [U1 _]]. destruct (FO c Hc Fc) as [_ El]. rewrite El in U1. exact (separates_self (con_of s) V' E' c2 v U1). }
  split; [exact L2|]. split; [rewrite Len2; symmetry; exact Hlen|]. split; [|split].
  - intros e Ne. rewrite Fr2, Fr1; [reflexivity | |].
    + intros c Hc Fc. destruct (FO c Hc Fc) as [Ec _]. split; [intros ->; contradiction | intros [X _]; contradiction].
    + intros c Hc Fc. destruct (FI c Hc Fc) as [Ec _]. split; [intros ->; contradiction | intros [X _]; contradiction].
  - intros w Hw Nw.
    destruct (separates_cover (con_of s) V' E' T v Vv w Hw Nw) as [c [y [Ec [Hi Sp]]]].
    destruct (ES c Ec) as [Hc [Ac _]].
    assert (Vy : V' y).
    { destruct (tree_edge_ends _ _ _ T c Ec) as [P Q]. destruct Hi as [[_ <-]|[_ <-]]; assumption. }
    assert (Hu : u <> Some y) by (intros X; exact (UP y X Vy)).
    destruct Hi as [[Hl Hr]|[Hr Hl]].
    + assert (Hin : In c (outs_of s v)) by (apply outs_of_In; split; assumption).
      assert (Fc : fo c = true).
      { unfold fo. apply can_follow_right_true. rewrite Hr. split; [apply VB; exact Vy|]. split; [exact Ac | exact Hu]. }
      rewrite (resid_stable s this V' E' v u T SUB c y (ins_of s v) fi x1 x2 w Ec (or_introl (conj Hl Hr)) Sp L1 L2).
      * exact (R1 c Hin Fc w Sp).
      * intros c2 Hc2 Fc2. split; [intros ->; exact (OI c c Hin Fc Hc2 Fc2 eq_refl)|].
        destruct (FI c2 Hc2 Fc2) as [Ec2 Er2]. split; [exact Ec2|]. exists (cl (con_of s c2)). right. split; [exact Er2 | reflexivity].
      * exact Fr2.
    + assert (Hin : In c (ins_of s v)) by (apply ins_of_In; split; assumption).
      assert (Fc : fi c = true).
      { unfold fi. apply can_follow_left_true. rewrite Hl. split; [apply VB; exact Vy|]. split; [exact Ac | exact Hu]. }
      exact (R2 c Hin Fc w Sp).
  - rewrite Qred_correct. rewrite (var_of_lm_only _ _ _ L2).
    assert (Eo : csum (outs_of s v) (fun c => if fo c then lm_of x1 c else 0) == OUTf s this u x2 v).
    { unfold OUTf. apply csum_ext. intros c Hc. fold (fo c). destruct (fo c) eqn:Fc; [rewrite (Keep c Hc Fc)|]; reflexivity. }
    assert (Ei : csum (ins_of s v) (fun c => if fi c then lm_of x2 c else 0) == INf s this u x2 v) by reflexivity.
    rewrite <- Eo, <- Ei. rewrite D2, D1. field. apply NZ.
Qed.

(* ------------------------------------------------------------------ sums over a block *)
Lemma sumn_indicator_list (P : nat -> bool) (t : nat -> Q) : forall n l,
  NoDup l -> (forall w, In w l <-> ((w < n)%nat /\ P w = true)) ->
  sumn n (fun i => if P i then t i else 0) == csum l t.
Proof.
  induction n as [|n IH]; intros l ND M; cbn [sumn].
  - destruct l as [|a l]; [reflexivity|]. exfalso. destruct (proj1 (M a) (or_introl eq_refl)) as [X _]. lia.
  - destruct (P n) eqn:Pn.
    + assert (Hin : In n l) by (apply M; split; [lia | exact Pn]).
      destruct (in_split n l Hin) as [l1 [l2 ->]].
      pose proof (NoDup_remove_1 _ _ _ ND) as ND'. pose proof (NoDup_remove_2 _ _ _ ND) as Nn.
      rewrite (IH (l1 ++ l2) ND').
      * rewrite !csum_app. cbn [csum]. lra.
      * intros w. split.
        -- intros Hw. assert (Hw' : In w (l1 ++ n :: l2)) by (apply in_app_or in Hw; apply in_or_app; cbn; tauto).
           destruct (proj1 (M w) Hw') as [A B]. split; [|exact B].
           assert (w <> n) by (intros ->; contradiction). lia.
        -- intros [A B]. assert (Hw' : In w (l1 ++ n :: l2)) by (apply M; split; [lia | exact B]).
           apply in_app_or in Hw'. apply in_or_app. destruct Hw' as [X|[X|X]]; [tauto | lia | tauto].
    + rewrite (IH l ND); [lra|]. intros w. rewrite M. split; intros [A B]; split; try exact B; try lia.
      assert (w <> n) by (intros ->; congruence). lia.
Qed.

(* block statistics that are up to date: the sums over the block for the current offsets and desired positions *)
Definition fresh (s : st) (b : nat) : Prop :=
  let B := block_of s b in
  0 < bscale B /\ 0 < A2 B /\
  A2 B == csum (bvars B) (fun w => wt (var_of s w) * (bscale B / scl (var_of s w)) * (bscale B / scl (var_of s w))) /\
  AB B == csum (bvars B) (fun w => wt (var_of s w) * (bscale B / scl (var_of s w)) * (off_of s w / scl (var_of s w))) /\
  AD B == csum (bvars B) (fun w => wt (var_of s w) * (bscale B / scl (var_of s w)) * des (var_of s w)) /\
  posn B == (AD B - AB B) / A2 B.

(* posn is the weighted optimum: the derivatives (per unit of scaled position) cancel over the block *)
Lemma fresh_dfdv_sum s b :
  (forall i, ~ scl (var_of s i) == 0) -> fresh s b ->
  (forall w, In w (bvars (block_of s b)) -> blk_of s w = b) ->
  csum (bvars (block_of s b)) (fun w => dfdv s w / scl (var_of s w)) == 0.
Proof.
  intros NZ [PS [PA [E2 [EB [ED EP]]]]] Mem. set (B := block_of s b) in *.
  set (S := bscale B) in *. set (P := posn B) in *.
  assert (Term : forall w, In w (bvars B) ->
            dfdv s w / scl (var_of s w) ==
            (2 / S) * (P * (wt (var_of s w) * (S / scl (var_of s w)) * (S / scl (var_of s w)))
                       + wt (var_of s w) * (S / scl (var_of s w)) * (off_of s w / scl (var_of s w))
                       - wt (var_of s w) * (S / scl (var_of s w)) * des (var_of s w))).
  { intros w Hw. unfold dfdv, position. rewrite !Qred_correct. rewrite (Mem w Hw). fold B. fold S. fold P.
    field. split; [apply NZ | lra]. }
  rewrite (csum_ext _ _ _ Term). rewrite csum_scale, csum_minus, csum_plus, csum_scale.
  rewrite <- E2, <- EB, <- ED.
  assert (X : P * A2 B == AD B - AB B) by (rewrite EP; field; lra).
  rewrite X. field. lra.
Qed.

(* ------------------------------------------------------------------ the multipliers cancel over a block *)
Lemma lam_block_cancel s x b :
  book s -> act_inv s -> lm_only s x ->
  sumn (length (svars s)) (fun i => if Nat.eqb (blk_of s i) b then OUT s x i - IN s x i else 0) == 0.
Proof.
  intros BK AI L. destruct (lm_only_fields _ _ L) as [_ [Ec _]].
  set (n := length (svars s)). set (a := fun i => if Nat.eqb (blk_of s i) b then 1 else 0).
  assert (W : forall p, In p (lcons_of x) -> (cl (fst p) < n)%nat /\ (cr (fst p) < n)%nat).
  { intros [c l] Hp. unfold lcons_of in Hp. apply in_combine_l in Hp. rewrite Ec in Hp. exact (bk_cons s BK c Hp). }
  assert (E1 : sumn n (fun i => if Nat.eqb (blk_of s i) b then OUT s x i - IN s x i else 0)
               == sumn n (fun i => a i * outs (lcons_of x) i) - sumn n (fun i => a i * ins (lcons_of x) i)).
  { rewrite <- sumn_minus. apply sumn_ext. intros i _. unfold a, OUT, IN.
    rewrite (outs_lcons s x i) by (rewrite ?Ec; reflexivity). rewrite (ins_lcons s x i) by (rewrite ?Ec; reflexivity).
    destruct (Nat.eqb (blk_of s i) b); ring. }
  rewrite E1. rewrite exch_out by (intros p Hp; apply (W p Hp)). rewrite exch_in by (intros p Hp; apply (W p Hp)).
  rewrite <- csum_minus. rewrite <- (csum_zero (lcons_of x)). apply csum_ext.
  (* every pair is (con_of s c, lam_at x c) *)
  intros [c l] Hp. cbn [fst snd].
  unfold lcons_of, lam_of in Hp. rewrite Ec in Hp.
  assert (Hk : exists k, (k < length (scons s))%nat /\ c = con_of s k /\ l = lam_at x k).
  { clear - Hp. unfold con_of. revert Hp. generalize (scons s) as cs. intros cs.
    assert (G : forall a0, In (c, l) (combine cs (map (lam_at x) (seq a0 (length cs)))) ->
                exists k, (k < length cs)%nat /\ c = nth k cs dcon /\ l = lam_at x (a0 + k)).
    { induction cs as [|h t IH]; intros a0 H; cbn in H; [contradiction|]. destruct H as [H|H].
      - inversion H. subst. exists O. cbn. rewrite Nat.add_0_r. repeat split; lia.
      - destruct (IH (S a0) H) as [k [A [B C]]]. exists (S k). cbn. replace (a0 + S k)%nat with (S a0 + k)%nat by lia. repeat split; try assumption. lia. }
    intros H. destruct (G O H) as [k [A [B C]]]. exists k. cbn in C. auto. }
  destruct Hk as [k [Hk [-> ->]]]. unfold lam_at.
  assert (Ea : act_of x k = act_of s k) by (destruct L as [lm [t ->]]; reflexivity). rewrite Ea.
  destruct (act_of s k) eqn:A; [|ring].
  destruct (AI k A) as [Sb _]. unfold a. rewrite Sb. ring.
Qed.

(* ------------------------------------------------------------------ findMinLM: stationarity on the whole block *)
Definition stationary_block (s x : st) (b : nat) : Prop :=
  forall i, (i < length (svars s))%nat -> blk_of s i = b -> resid s x i == 0.

Lemma root_sub_ok s b r : forest s -> (r < length (svars s))%nat -> blk_of s r = b ->
  tree (con_of s) (Vof s b) (Eof s b) /\ sub_ok s b (Vof s b) (Eof s b) r None.
Proof.
  intros FO Hr Hb. assert (T : tree (con_of s) (Vof s b) (Eof s b)) by (rewrite <- Hb; apply FO; exact Hr).
  split; [exact T|]. split; [exact T|]. split; [split; assumption|]. intros e He x y _ _. left. exact He.
Qed.

Theorem compute_dfdv_root_stationary s b track mn x0 d mn' x' :
  book s -> act_inv s -> forest s -> (forall i, ~ scl (var_of s i) == 0) ->
  (front s b < length (svars s))%nat -> blk_of s (front s b) = b -> fresh s b ->
  lm_only s x0 -> length (clm x0) = length (scons s) ->
  compute_dfdv (walk_fuel s) track b (front s b) None mn x0 = Ok (d, mn', x') ->
  lm_only s x' /\ length (clm x') = length (scons s) /\
  (forall e, ~ Eof s b e -> lm_of x' e = lm_of x0 e) /\ stationary_block s x' b.
Proof.
  intros BK AI FO NZ Hr Hb FR L0 Hlen H. set (r := front s b) in *.
  destruct (root_sub_ok s b r FO Hr Hb) as [T SUB].
  destruct (compute_dfdv_stat s b AI NZ (walk_fuel s) track (Vof s b) (Eof s b) r None mn x0 d mn' x' T SUB) as [L' [Len' [Fr [R P3]]]]; auto.
  { intros z [_ Z]. exact Z. }
  { intros p Ep. discriminate. }
  split; [exact L'|]. split; [rewrite Len'; exact Hlen|]. split; [exact Fr|].
  (* the residual at the root, by summing over the block *)
  set (n := length (svars s)).
  assert (Rr : resid s x' r == 0).
  { assert (Mem : forall w, In w (bvars (block_of s b)) <-> ((w < n)%nat /\ Nat.eqb (blk_of s w) b = true)).
    { intros w. rewrite <- Hb. rewrite (bk_mem s BK r w Hr). rewrite Nat.eqb_eq. tauto. }
    assert (ND : NoDup (bvars (block_of s b))) by (rewrite <- Hb; apply (bk_nodup s BK r Hr)).
    (* sum of resid/scl over the block, two ways *)
    assert (S1 : sumn n (fun i => if Nat.eqb (blk_of s i) b then resid s x' i / scl (var_of s i) else 0)
                 == resid s x' r / scl (var_of s r)).
    { rewrite (sumn_ext n _ (fun i => if Nat.eqb r i then resid s x' i / scl (var_of s i) else 0)).
      - rewrite (sumn_indicator n r (fun i => resid s x' i / scl (var_of s i))).
        apply Nat.ltb_lt in Hr. fold n in Hr. rewrite Hr. reflexivity.
      - intros i Hi. destruct (Nat.eqb (blk_of s i) b) eqn:Eb.
        + apply Nat.eqb_eq in Eb. destruct (Nat.eqb r i) eqn:Er.
          * reflexivity.
          * apply Nat.eqb_neq in Er. rewrite (R i); [unfold Qdiv; ring | split; assumption | congruence].
        + destruct (Nat.eqb r i) eqn:Er; [|reflexivity]. apply Nat.eqb_eq in Er. subst i.
          rewrite Hb, Nat.eqb_refl in Eb. discriminate. }
    assert (S2 : sumn n (fun i => if Nat.eqb (blk_of s i) b then resid s x' i / scl (var_of s i) else 0) == 0).
    { rewrite (sumn_ext n _ (fun i => (if Nat.eqb (blk_of s i) b then dfdv s i / scl (var_of s i) else 0)
                                     + (if Nat.eqb (blk_of s i) b then OUT s x' i - IN s x' i else 0))).
      - rewrite sumn_plus. pose proof (lam_block_cancel s x' b BK AI L') as LC. fold n in LC. rewrite LC.
        rewrite (sumn_indicator_list (fun i => Nat.eqb (blk_of s i) b) (fun i => dfdv s i / scl (var_of s i)) n _ ND Mem).
        rewrite (fresh_dfdv_sum s b NZ FR); [lra|]. intros w Hw. apply Mem in Hw. destruct Hw as [_ Hw]. apply Nat.eqb_eq. exact Hw.
      - intros i _. destruct (Nat.eqb (blk_of s i) b); [|ring]. unfold resid. field. apply NZ. }
    rewrite S1 in S2. assert (X : resid s x' r == (resid s x' r / scl (var_of s r)) * scl (var_of s r)) by (field; apply NZ).
    rewrite X, S2. ring. }
  intros i Hi Bi. destruct (Nat.eq_dec i r) as [->|N]; [exact Rr|]. apply R; [split; assumption | exact N].
Qed.

(* ------------------------------------------------------------------ reset_active_lm: frame and length *)
Definition lmf (s : st) (this : nat) (x : st) : Prop :=
  lm_only s x /\ length (clm x) = length (clm s) /\ forall e, ~ Eof s this e -> lm_of x e = lm_of s e.

Lemma lmf_set_lm s this x c :
  act_inv s -> lmf s this x -> (c < length (scons s))%nat -> act_of s c = true ->
  (blk_of s (cl (con_of s c)) = this \/ blk_of s (cr (con_of s c)) = this) -> lmf s this (set_lm x c 0).
Proof.
  intros AI [L [Len Fr]] Hc Ac Hb. split; [apply (lm_only_trans _ x); [exact L | apply lm_only_set_lm]|]. split.
  - unfold set_lm. cbn [clm set_clm]. rewrite upd_nth_length. exact Len.
  - intros e Ne. rewrite lm_of_set_lm_neq; [apply Fr; exact Ne|]. intros ->. apply Ne.
    split; [exact Hc|]. split; [exact Ac|]. destruct (AI c Ac) as [Sb _]. destruct Hb as [X|X]; congruence.
Qed.

Lemma reset_active_lm_frame s this : act_inv s -> forall fuel v u x x',
  lmf s this x -> reset_active_lm fuel this v u x = Ok x' -> lmf s this x'.
Proof.
  intros AI. induction fuel as [|f IH]; intros v u x x' F H; [discriminate|].
  cbn [reset_active_lm] in H.
  set (gout := fun (s' : st) (c : nat) => if can_follow_right s' this c u
                 then reset_active_lm f this (cr (con_of s' c)) (Some v) (set_lm s' c 0) else Ok s') in *.
  set (gin := fun (s' : st) (c : nat) => if can_follow_left s' this c u
                 then reset_active_lm f this (cl (con_of s' c)) (Some v) (set_lm s' c 0) else Ok s') in *.
  pose proof (proj1 F) as Lx.
  destruct (fold_bind_inv gin (lmf s this) (ins_of x v)) with
    (acc := fold_left (fun acc c => bind acc (fun y => gout y c)) (outs_of x v) (Ok x)) (r := x') as [smid [Emid Rin]].
  { intros y c y' Hc Fy G. unfold gin in G. pose proof (proj1 Fy) as Ly.
    rewrite (lm_only_follow_left _ _ this c u Ly) in G.
    destruct (can_follow_left s this c u) eqn:CF; [|inversion G; subst; exact Fy].
    apply can_follow_left_true in CF. destruct CF as [Bc [Ac _]].
    rewrite (lm_only_ins _ _ v Lx) in Hc. apply ins_of_In in Hc. destruct Hc as [Hc _].
    apply (IH _ _ _ _ (lmf_set_lm s this y c AI Fy Hc Ac (or_introl Bc)) G). }
  { exact H. }
  destruct (fold_bind_inv gout (lmf s this) (outs_of x v)) with (acc := Ok x) (r := smid) as [s0 [E0 Rout]].
  { intros y c y' Hc Fy G. unfold gout in G. pose proof (proj1 Fy) as Ly.
    rewrite (lm_only_follow_right _ _ this c u Ly) in G.
    destruct (can_follow_right s this c u) eqn:CF; [|inversion G; subst; exact Fy].
    apply can_follow_right_true in CF. destruct CF as [Bc [Ac _]].
    rewrite (lm_only_outs _ _ v Lx) in Hc. apply outs_of_In in Hc. destruct Hc as [Hc _].
    apply (IH _ _ _ _ (lmf_set_lm s this y c AI Fy Hc Ac (or_intror Bc)) G). }
  { exact Emid. }
  inversion E0. subst s0. apply Rin, Rout. exact F.
Qed.

Lemma fresh_lm_only s x b : lm_only s x -> fresh s b -> fresh x b.
Proof. intros [lm [t ->]] H. exact H. Qed.
Lemma resid_lm_only s x x' w : lm_only s x -> resid x x' w = resid s x' w.
Proof. intros [lm [t ->]]. reflexivity. Qed.

(* what findMinLM needs to know about its block *)
Definition block_ready (s : st) (b : nat) : Prop :=
  (front s b < length (svars s))%nat /\ blk_of s (front s b) = b /\ fresh s b.

Theorem find_min_lm_stationary s b mn s' :
  book s -> act_inv s -> forest s -> (forall i, ~ scl (var_of s i) == 0) ->
  block_ready s b -> length (clm s) = length (scons s) ->
  find_min_lm s b = Ok (mn, s') ->
  lm_only s s' /\ length (clm s') = length (scons s) /\
  (forall e, ~ Eof s b e -> lm_of s' e = lm_of s e) /\ stationary_block s s' b.
Proof.
  intros BK AI FO NZ [Hr [Hb FR]] Hlen H. unfold find_min_lm in H.
  apply bind_ok in H. destruct H as [s1 [H1 H]].
  apply bind_ok in H. destruct H as [[[d mn2] s2] [H2 H]]. inversion H. subst mn2 s2. clear H.
  assert (F0 : lmf s b s) by (split; [apply lm_only_refl | split; [reflexivity | intros; reflexivity]]).
  destruct (reset_active_lm_frame s b AI _ _ _ _ _ F0 H1) as [L1 [Len1 Fr1]].
  rewrite (lm_only_walk_fuel _ _ L1) in H2 || idtac.
  destruct (compute_dfdv_root_stationary s b true None s1 d mn s' BK AI FO NZ Hr Hb FR L1) as [L2 [Len2 [Fr2 ST]]].
  - rewrite Len1. exact Hlen.
  - exact H2.
  - split; [exact L2|]. split; [exact Len2|]. split; [|exact ST].
    intros e Ne. rewrite (Fr2 e Ne). apply Fr1. exact Ne.
Qed.

(* ------------------------------------------------------------------ findMinLM on every block *)
Definition all_fresh (s : st) : Prop := forall v, (v < length (svars s))%nat -> fresh s (blk_of s v).

Lemma var_block_ready s v : book s -> all_ok s -> all_fresh s -> (v < length (svars s))%nat -> block_ready s (blk_of s v).
Proof.
  intros BK [_ AO] AF Hv. pose proof (bk_blk s BK v Hv) as Hb. destruct (AO _ Hb) as [NE _].
  assert (Hin : In (front s (blk_of s v)) (bvars (block_of s (blk_of s v)))).
  { unfold front. destruct (bvars (block_of s (blk_of s v))) as [|h t]; [congruence | left; reflexivity]. }
  apply (bk_mem s BK v _ Hv) in Hin. destruct Hin as [A B]. split; [exact A|]. split; [exact B | exact (AF v Hv)].
Qed.

Definition relm_inv (s x : st) : Prop := lm_only s x /\ length (clm x) = length (scons s).

Lemma relm_block_step s x b x' :
  book s -> act_inv s -> forest s -> (forall i, ~ scl (var_of s i) == 0) -> block_ready s b ->
  relm_inv s x -> relm_block x b = Ok x' ->
  relm_inv s x' /\ stationary_block s x' b /\ (forall e, ~ Eof s b e -> lm_of x' e = lm_of x e).
Proof.
  intros BK AI FO NZ [R1 [R2 R3]] [L Len] H. unfold relm_block in H.
  apply bind_ok in H. destruct H as [[mn y] [H E]]. inversion E. subst x'. clear E. cbn [snd].
  assert (Ex : svars x = svars s /\ scons x = scons s /\ blk_of x = blk_of s /\ front x b = front s b /\ var_of x = var_of s /\ Eof x b = Eof s b).
  { destruct L as [lm [t ->]]. repeat split; reflexivity. }
  destruct Ex as [X1 [X2 [X3 [X4 [X5 X6]]]]].
  destruct (find_min_lm_stationary x b mn y (book_lm_only _ _ L BK) (act_inv_lm_only _ _ L AI) (forest_lm_only _ _ L FO)) as [Ly [Leny [Fr ST]]]; auto.
  - rewrite X5. exact NZ.
  - split; [rewrite X4, X1; exact R1|]. split; [rewrite X3, X4; exact R2 | exact (fresh_lm_only _ _ _ L R3)].
  - rewrite X2. exact Len.
  - split; [split; [apply (lm_only_trans _ x); assumption | rewrite Leny, X2; reflexivity]|]. split.
    + intros i Hi Bi. rewrite <- (resid_lm_only s x y i L). apply ST; [rewrite X1; exact Hi | rewrite X3; exact Bi].
    + rewrite <- X6. exact Fr.
Qed.

Theorem relm_blocks_stationary s bl s' :
  book s -> act_inv s -> forest s -> (forall i, ~ scl (var_of s i) == 0) ->
  (forall b, In b bl -> block_ready s b) -> length (clm s) = length (scons s) ->
  relm_blocks s bl = Ok s' ->
  relm_inv s s' /\ forall b, In b bl -> stationary_block s s' b.
Proof.
  intros BK AI FO NZ RD Hlen H. unfold relm_blocks in H.
  destruct (fold_bind_inv2 relm_block (relm_inv s) (fun b x => stationary_block s x b) bl) with (acc := Ok s) (r := s') as [x0 [E0 R]].
  - intros x b x' Hb Ix G. destruct (relm_block_step s x b x' BK AI FO NZ (RD b Hb) Ix G) as [A [B _]]. split; assumption.
  - intros a b x x' Hb Ix Qa G. destruct (relm_block_step s x b x' BK AI FO NZ (RD b Hb) Ix G) as [Ix' [Qb Fr]].
    destruct (Nat.eq_dec a b) as [->|N]; [exact Qb|].
    intros i Hi Bi. rewrite (resid_ext s x x' i (proj1 Ix) (proj1 Ix')); [exact (Qa i Hi Bi)|].
    intros c Hc. apply Fr. intros [Hc' [Ac Bc]]. apply N. rewrite <- Bi, <- Bc.
    destruct Hc as [Hc|Hc]; [apply outs_of_In in Hc | apply ins_of_In in Hc]; destruct Hc as [_ Hc]; rewrite <- Hc; [reflexivity|].
    symmetry. exact (proj1 (AI c Ac)).
  - exact H.
  - inversion E0. subst x0. apply R. split; [apply lm_only_refl | exact Hlen].
Qed.

(* C02 stationarity: re-running findMinLM on the block of every variable leaves the stationarity equation of KKT.v
   satisfied, exactly, at every variable - for the state's own positions *)
Theorem relm_stationary s s' :
  inv s -> all_ok s -> all_fresh s -> length (clm s) = length (scons s) ->
  relm s = Ok s' ->
  lm_only s s' /\
  forall i, (i < length (svars s))%nat -> stat_res (svars s) (lcons_of s') (xs_of s) i == 0.
Proof.
  intros I AO AF Hlen H. pose proof (i_book s I) as BK.
  assert (NZ : forall i, ~ scl (var_of s i) == 0).
  { intros i. destruct (vget_pos (svars s) i (proj1 AO)) as [_ P]. unfold var_of. lra. }
  destruct (relm_blocks_stationary s (var_blocks s) s' BK (i_act s I) (i_forest s I) NZ) as [[L _] ST]; auto.
  - intros b Hb. unfold var_blocks in Hb. apply nodup_In in Hb. apply in_map_iff in Hb. destruct Hb as [v [<- Hv]].
    apply in_seq in Hv. apply var_block_ready; auto. lia.
  - split; [exact L|]. intros i Hi. rewrite (stat_res_resid s s' i L Hi).
    apply (ST (blk_of s i)); [|exact Hi | reflexivity].
    unfold var_blocks. apply nodup_In. apply in_map. apply in_seq. lia.
Qed.

(* ------------------------------------------------------------------ near-optimality from the recomputed multipliers *)
Definition mcons (s : st) (f : nat -> Q) : list (con * Q) := combine (scons s) (map f (seq 0 (length (scons s)))).

Lemma outs_mcons s f i : outs (mcons s f) i == csum (outs_of s i) f.
Proof. unfold outs, mcons, outs_of, idx_filter. apply (csum_idx_filter (fun c => Nat.eqb (cl c) i) f (scons s) 0). Qed.
Lemma ins_mcons s f i : ins (mcons s f) i == csum (ins_of s i) f.
Proof. unfold ins, mcons, ins_of, idx_filter. apply (csum_idx_filter (fun c => Nat.eqb (cr c) i) f (scons s) 0). Qed.

Lemma in_mcons s f p : In p (mcons s f) -> exists k, (k < length (scons s))%nat /\ fst p = con_of s k /\ snd p = f k.
Proof.
  destruct p as [c l]. unfold mcons, con_of. generalize (scons s) as cs. intros cs.
  assert (G : forall a0, In (c, l) (combine cs (map f (seq a0 (length cs)))) ->
              exists k, (k < length cs)%nat /\ c = nth k cs dcon /\ l = f (a0 + k)%nat).
  { induction cs as [|h t IH]; intros a0 H; cbn in H; [contradiction|]. destruct H as [H|H].
    - inversion H. subst. exists O. cbn. rewrite Nat.add_0_r. repeat split; lia.
    - destruct (IH (S a0) H) as [k [A [B C]]]. exists (S k). cbn. replace (a0 + S k)%nat with (S a0 + k)%nat by lia. repeat split; try assumption. lia. }
  intros H. destruct (G O H) as [k [A [B C]]]. exists k. cbn in C. auto.
Qed.

(* the recomputed multiplier with a negative value on an inequality clipped to 0, and the amount clipped *)
Definition clipv (s x : st) (c : nat) : Q := clip (con_of s c) (lam_at x c).
Definition negpart (s x : st) (c : nat) : Q := clipv s x c - lam_at x c.

Lemma negpart_nonneg s x c : 0 <= negpart s x c.
Proof. unfold negpart, clipv, clip. destruct (ceq (con_of s c)); [lra|]. qcase; qb2p; lra. Qed.

Definition gap_of (s x : st) : Q :=
  sumn (length (svars s)) (fun i =>
    sq (scl (var_of s i) * (csum (outs_of s i) (negpart s x) - csum (ins_of s i) (negpart s x))) / (4 * wt (var_of s i))).

Theorem relm_gap_bound s s' :
  inv s -> all_ok s -> all_fresh s -> length (clm s) = length (scons s) ->
  relm s = Ok s' ->
  forall y, feasible (svars s) (scons s) y ->
    obj (svars s) (xs_of s) - obj (svars s) y <= gap_of s s'.
Proof.
  intros I AO AF Hlen H y Fy. pose proof (i_book s I) as BK. pose proof (proj1 AO) as WV.
  destruct (relm_stationary s s' I AO AF Hlen H) as [L ST].
  assert (NZ : forall i, ~ scl (var_of s i) == 0).
  { intros i. destruct (vget_pos (svars s) i WV) as [_ P]. unfold var_of. lra. }
  set (L' := mcons s (clipv s s')).
  assert (W : wf_lcons (svars s) L').
  { intros p Hp. destruct (in_mcons s _ p Hp) as [k [Hk [E1 _]]]. rewrite E1. apply (bk_cons s BK). unfold con_of. apply nth_In. exact Hk. }
  assert (SG : forall p, In p L' -> ceq (fst p) = false -> 0 <= snd p).
  { intros p Hp Eq. destruct (in_mcons s _ p Hp) as [k [Hk [E1 E2]]]. rewrite E2. unfold clipv, clip. rewrite <- E1, Eq. qcase; qb2p; lra. }
  assert (LF : lfeasible (svars s) L' y).
  { intros p Hp. destruct (in_mcons s _ p Hp) as [k [Hk [E1 _]]]. rewrite E1. apply Fy. unfold con_of. apply nth_In. exact Hk. }
  pose proof (kkt_gap_bound_l (svars s) L' (xs_of s) y WV W SG LF) as GB. unfold gap_bound in GB.
  (* complementary slackness: the second term vanishes *)
  assert (Z2 : csum L' (fun p => snd p * slackv (svars s) (xs_of s) (fst p)) == 0).
  { rewrite <- (csum_zero L'). apply csum_ext. intros p Hp. destruct (in_mcons s _ p Hp) as [k [Hk [E1 E2]]]. rewrite E1, E2.
    assert (Hin : In (con_of s k) (scons s)) by (unfold con_of; apply nth_In; exact Hk).
    destruct (bk_cons s BK _ Hin) as [Hl Hr].
    unfold clipv, lam_at. assert (Ea : act_of s' k = act_of s k) by (destruct L as [lm [t ->]]; reflexivity). rewrite Ea.
    destruct (act_of s k) eqn:A.
    - unfold xs_of. rewrite <- (slack_val_declarative s k Hl Hr).
      rewrite (active_tight s k (i_act s I) A (NZ _) (NZ _)). ring.
    - unfold clip. destruct (ceq (con_of s k)); [ring|]. qcase; ring. }
  (* stationarity: the first term only sees the clipped amounts *)
  assert (Z1 : sumn (length (svars s)) (fun i => sq (stat_res (svars s) L' (xs_of s) i) / (4 * wt (vget (svars s) i))) == gap_of s s').
  { unfold gap_of. apply sumn_ext. intros i Hi.
    assert (E : stat_res (svars s) L' (xs_of s) i ==
                scl (var_of s i) * (csum (outs_of s i) (negpart s s') - csum (ins_of s i) (negpart s s'))).
    { pose proof (ST i Hi) as S0. rewrite (stat_res_resid s s' i L Hi) in S0. unfold resid, OUT, IN in S0.
      unfold stat_res. unfold L'. rewrite outs_mcons, ins_mcons.
      assert (Eo : csum (outs_of s i) (clipv s s') == csum (outs_of s i) (lam_at s') + csum (outs_of s i) (negpart s s')).
      { rewrite <- csum_plus. apply csum_ext. intros c _. unfold negpart. ring. }
      assert (Ei : csum (ins_of s i) (clipv s s') == csum (ins_of s i) (lam_at s') + csum (ins_of s i) (negpart s s')).
      { rewrite <- csum_plus. apply csum_ext. intros c _. unfold negpart. ring. }
      rewrite Eo, Ei. unfold xs_of. rewrite final_positions_nth by exact Hi.
      unfold dfdv in S0. rewrite Qred_correct in S0. unfold var_of in *. lra. }
    unfold sq. rewrite E. unfold var_of. reflexivity. }
  rewrite Z1, Z2 in GB. lra.
Qed.

(* if no recomputed multiplier of an active inequality is negative, no feasible placement is better *)
Corollary relm_optimal s s' :
  inv s -> all_ok s -> all_fresh s -> length (clm s) = length (scons s) ->
  relm s = Ok s' ->
  (forall c, (c < length (scons s))%nat -> act_of s c = true -> ceq (con_of s c) = false -> 0 <= lm_of s' c) ->
  forall y, feasible (svars s) (scons s) y -> obj (svars s) (xs_of s) <= obj (svars s) y.
Proof.
  intros I AO AF Hlen H NN y Fy. pose proof (relm_gap_bound s s' I AO AF Hlen H y Fy) as GB.
  destruct (relm_stationary s s' I AO AF Hlen H) as [L _].
  assert (Z : forall c, (c < length (scons s))%nat -> negpart s s' c == 0).
  { intros c Hc. unfold negpart, clipv, clip, lam_at.
    assert (Ea : act_of s' c = act_of s c) by (destruct L as [lm [t ->]]; reflexivity). rewrite Ea.
    destruct (act_of s c) eqn:A.
    - destruct (ceq (con_of s c)) eqn:Q; [ring|]. pose proof (NN c Hc A Q). qcase; qb2p; lra.
    - destruct (ceq (con_of s c)); [ring|]. qcase; ring. }
  assert (G0 : gap_of s s' == 0).
  { unfold gap_of. rewrite <- (sumn_zero (length (svars s))). apply sumn_ext. intros i Hi.
    assert (Zo : csum (outs_of s i) (negpart s s') == 0).
    { rewrite <- (csum_zero (outs_of s i)). apply csum_ext. intros c Hc. apply outs_of_In in Hc. apply Z. tauto. }
    assert (Zi : csum (ins_of s i) (negpart s s') == 0).
    { rewrite <- (csum_zero (ins_of s i)). apply csum_ext. intros c Hc. apply ins_of_In in Hc. apply Z. tauto. }
    cbv beta. unfold sq. rewrite Zo, Zi. unfold Qdiv. ring. }
  rewrite G0 in GB. lra.
Qed.

(* explicit form of the bound when every recomputed multiplier of an active inequality is >= -tau (the exit test of
   splitBlocks with tau = 1e-4): each variable contributes at most (scl_i * tau * deg_i)^2 / (4 w_i), deg_i = number of
   constraints at variable i *)
Definition deg (s : st) (i : nat) : Q := inject_Z (Z.of_nat (length (outs_of s i) + length (ins_of s i))).
Definition tau_bound (s : st) (tau : Q) : Q :=
  sumn (length (svars s)) (fun i => sq (scl (var_of s i) * tau * deg s i) / (4 * wt (var_of s i))).

Lemma csum_le_const (l : list nat) (f : nat -> Q) tau :
  (forall c, In c l -> 0 <= f c <= tau) -> 0 <= csum l f <= tau * inject_Z (Z.of_nat (length l)).
Proof.
  induction l as [|a l IH]; intros H; cbn [csum length].
  - split; [lra|]. change (inject_Z (Z.of_nat 0)) with 0. lra.
  - destruct (H a (or_introl eq_refl)) as [A B]. destruct IH as [C D]; [intros c Hc; apply H; right; exact Hc|].
    rewrite Nat2Z.inj_succ. unfold Z.succ. rewrite inject_Z_plus. change (inject_Z 1) with 1. split; lra.
Qed.

Theorem gap_of_tau s x tau :
  wf_vars (svars s) -> 0 <= tau -> (forall c, negpart s x c <= tau) -> gap_of s x <= tau_bound s tau.
Proof.
  intros WV T H. unfold gap_of, tau_bound. apply sumn_le. intros i Hi.
  destruct (WV i Hi) as [Pw Ps]. unfold var_of.
  assert (Bo := csum_le_const (outs_of s i) (negpart s x) tau (fun c _ => conj (negpart_nonneg s x c) (H c))).
  assert (Bi := csum_le_const (ins_of s i) (negpart s x) tau (fun c _ => conj (negpart_nonneg s x c) (H c))).
  set (a := csum (outs_of s i) (negpart s x)) in *. set (b := csum (ins_of s i) (negpart s x)) in *.
  set (no := inject_Z (Z.of_nat (length (outs_of s i)))) in *. set (ni := inject_Z (Z.of_nat (length (ins_of s i)))) in *.
  assert (Ed : deg s i == no + ni) by (unfold deg, no, ni; rewrite Nat2Z.inj_add, inject_Z_plus; reflexivity).
  set (sc := scl (vget (svars s) i)) in *. set (w := wt (vget (svars s) i)) in *.
  assert (Sq : sq (sc * (a - b)) <= sq (sc * tau * deg s i)).
  { unfold sq. rewrite Ed. set (N := tau * (no + ni)).
    assert (B1 : - N <= a - b) by (unfold N; lra). assert (B2 : a - b <= N) by (unfold N; lra).
    assert (P1 : 0 <= (N - (a - b)) * (N + (a - b))) by (apply Qmult_le_0_compat; lra).
    assert (P2 : 0 <= sc * sc) by nra.
    assert (E : sc * tau * (no + ni) * (sc * tau * (no + ni)) - sc * (a - b) * (sc * (a - b)) == (sc * sc) * ((N - (a - b)) * (N + (a - b))))
      by (unfold N; ring).
    assert (P3 : 0 <= (sc * sc) * ((N - (a - b)) * (N + (a - b)))) by (apply Qmult_le_0_compat; assumption).
    lra. }
  unfold Qdiv. apply Qmult_le_compat_r; [exact Sq|]. apply Qlt_le_weak, Qinv_lt_0_compat. lra.
Qed.

(* C02 near-optimality of a state from its own recomputed multipliers, in terms of the exit tolerance *)
Corollary relm_near_optimal s s' tau :
  inv s -> all_ok s -> all_fresh s -> length (clm s) = length (scons s) ->
  relm s = Ok s' -> 0 <= tau ->
  (forall c, (c < length (scons s))%nat -> act_of s c = true -> ceq (con_of s c) = false -> - tau <= lm_of s' c) ->
  forall y, feasible (svars s) (scons s) y -> obj (svars s) (xs_of s) - obj (svars s) y <= tau_bound s tau.
Proof.
  intros I AO AF Hlen H T NN y Fy. pose proof (relm_gap_bound s s' I AO AF Hlen H y Fy) as GB.
  destruct (relm_stationary s s' I AO AF Hlen H) as [L _].
  assert (Z : forall c, negpart s s' c <= tau).
  { intros c. unfold negpart, clipv, clip, lam_at.
    assert (Ea : act_of s' c = act_of s c) by (destruct L as [lm [t ->]]; reflexivity). rewrite Ea.
    destruct (act_of s c) eqn:A.
    - destruct (ceq (con_of s c)) eqn:Q; [lra|].
      assert (Hc : (c < length (scons s))%nat) by (rewrite <- (bk_cact s (i_book s I)); apply act_of_lt; exact A).
      pose proof (NN c Hc A Q). qcase; qb2p; lra.
    - destruct (ceq (con_of s c)); [lra|]. qcase; lra. }
  pose proof (gap_of_tau s s' tau (proj1 AO) T Z). lra.
Qed.

(* ------------------------------------------------------------------ every op history *)
(* PARTIAL (C02_solve_near_optimal_history): for the state s' returned by solve() in any history, with the multipliers
   recomputed on s' (the real solver's lm fields are stale at return).  Two hypotheses about s' are not derived from
   reachability here: (1) all_fresh s' - the statistics AB / AD of every live block are the sums over the block (the
   invariant VpscInvB.stats_liveb / stats_adb: true after every satisfy(); it needs the preservation proofs of
   VpscStats.v repeated for the two sums with the offsets); (2) length (clm s') = length (scons s') (every walk keeps
   the length of the lm vector; the lm_only frame of VpscFrame.v forgets it).  Both are evaluated by the extracted
   model on every state it visits on every run of the check (evidence key model_stationarity). *)
Theorem solve_near_optimal_history_partial fuel s s' s2 tau :
  reachable_wf s -> inc_solve fuel s = Ok s' ->
  all_fresh s' -> length (clm s') = length (scons s') ->
  relm s' = Ok s2 -> 0 <= tau ->
  (forall c, (c < length (scons s'))%nat -> act_of s' c = true -> ceq (con_of s' c) = false -> - tau <= lm_of s2 c) ->
  (forall i, (i < length (svars s'))%nat -> stat_res (svars s') (lcons_of s2) (xs_of s') i == 0) /\
  forall y, feasible (svars s') (scons s') y ->
    obj (svars s') (place_of (final_positions s')) - obj (svars s') y <= tau_bound s' tau.
Proof.
  intros R H AF Hlen HR T NN.
  assert (R' : reachable_wf s') by exact (rw_step s Solve fuel s' R I H).
  pose proof (reachable_inv s' (reachable_wf_reachable s' R')) as I'. pose proof (reachable_all_ok s' R') as AO.
  split; [exact (proj2 (relm_stationary s' s2 I' AO AF Hlen HR))|].
  exact (relm_near_optimal s' s2 tau I' AO AF Hlen HR T NN).
Qed.

(* ------------------------------------------------------------------ non-vacuity *)
(* VpscInv.iv_vs / iv_cs: three variables (the middle one with weight 2 and scale 2), an inequality and an equality;
   after solve() both constraints are active *)
Lemma iv_wfv : wf_vars iv_vs.
Proof. apply wf_varsb_spec. vm_compute. reflexivity. Qed.

Definition ex_ret : st :=
  Eval vm_compute in match inc_solve 100 (init iv_vs iv_cs) with Ok s => s | _ => init [] [] end.
Definition ex_relm : st :=
  Eval vm_compute in match relm ex_ret with Ok s => s | _ => init [] [] end.
Lemma ex_ret_ok : inc_solve 100 (init iv_vs iv_cs) = Ok ex_ret.
Proof. vm_compute. reflexivity. Qed.
Lemma ex_relm_ok : relm ex_ret = Ok ex_relm.
Proof. vm_compute. reflexivity. Qed.
Lemma ex_fresh : all_fresh ex_ret.
Proof.
  intros v Hv. change (length (svars ex_ret)) with 3%nat in Hv.
  destruct v as [|[|[|v]]]; try lia; vm_compute; repeat split; reflexivity.
Qed.

Example relm_stationary_example :
  inc_solve 100 (init iv_vs iv_cs) = Ok ex_ret /\ relm ex_ret = Ok ex_relm /\
  act_of ex_ret 0 = true /\ act_of ex_ret 1 = true /\
  all_fresh ex_ret /\ length (clm ex_ret) = length (scons ex_ret) /\
  (forall i, (i < 3)%nat -> stat_res (svars ex_ret) (lcons_of ex_relm) (xs_of ex_ret) i == 0) /\
  (forall y, feasible (svars ex_ret) (scons ex_ret) y -> obj (svars ex_ret) (xs_of ex_ret) <= obj (svars ex_ret) y).
Proof.
  assert (HS : step 100 (init iv_vs iv_cs) Solve = Ok ex_ret) by (vm_compute; reflexivity).
  assert (R' : reachable_wf ex_ret) by exact (rw_step _ Solve 100 ex_ret (rw_init iv_vs iv_cs iv_wfv iv_wf) I HS).
  pose proof (reachable_inv ex_ret (reachable_wf_reachable ex_ret R')) as I'. pose proof (reachable_all_ok ex_ret R') as AO.
  assert (Len : length (clm ex_ret) = length (scons ex_ret)) by reflexivity.
  split; [exact ex_ret_ok|]. split; [exact ex_relm_ok|]. split; [reflexivity|]. split; [reflexivity|].
  split; [exact ex_fresh|]. split; [exact Len|]. split.
  - intros i Hi. exact (proj2 (relm_stationary ex_ret ex_relm I' AO ex_fresh Len ex_relm_ok) i Hi).
  - refine (relm_optimal ex_ret ex_relm I' AO ex_fresh Len ex_relm_ok _).
    intros c Hc _ _. change (length (scons ex_ret)) with 2%nat in Hc.
    destruct c as [|[|c]]; try lia; vm_compute; discriminate.
Qed.

(* the same with the multipliers recomputed from a zeroed lm vector (findMinLM resets the multipliers of the active
   constraints before it computes them, so their previous content is irrelevant): this removes the hypothesis on the
   length of the lm vector; what remains is all_fresh *)
Definition zero_lm (s : st) : st := set_clm s (repeat 0 (length (scons s))).
Lemma zero_lm_lm_only s : lm_only s (zero_lm s).
Proof. eexists _, _. reflexivity. Qed.

Theorem solve_near_optimal_history_partial0 fuel s s' s2 tau :
  reachable_wf s -> inc_solve fuel s = Ok s' ->
  all_fresh s' ->
  relm (zero_lm s') = Ok s2 -> 0 <= tau ->
  (forall c, (c < length (scons s'))%nat -> act_of s' c = true -> ceq (con_of s' c) = false -> - tau <= lm_of s2 c) ->
  (forall i, (i < length (svars s'))%nat -> stat_res (svars s') (lcons_of s2) (xs_of s') i == 0) /\
  forall y, feasible (svars s') (scons s') y ->
    obj (svars s') (place_of (final_positions s')) - obj (svars s') y <= tau_bound s' tau.
Proof.
  intros R H AF HR T NN.
  assert (R' : reachable_wf s') by exact (rw_step s Solve fuel s' R I H).
  pose proof (zero_lm_lm_only s') as L0.
  pose proof (inv_lm_only _ _ L0 (reachable_inv s' (reachable_wf_reachable s' R'))) as I0.
  pose proof (all_ok_lm_only _ _ L0 (reachable_all_ok s' R')) as AO0.
  assert (AF0 : all_fresh (zero_lm s')) by (intros v Hv; exact (fresh_lm_only _ _ _ L0 (AF v Hv))).
  assert (Len0 : length (clm (zero_lm s')) = length (scons (zero_lm s'))) by (cbn; apply repeat_length).
  split; [exact (proj2 (relm_stationary (zero_lm s') s2 I0 AO0 AF0 Len0 HR))|].
  exact (relm_near_optimal (zero_lm s') s2 tau I0 AO0 AF0 Len0 HR T NN).
Qed.
