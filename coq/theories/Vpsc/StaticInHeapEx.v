(* Non-vacuity of Vpsc/StaticInHeap.merge_left_split_closed on the state of StaticSplitMLEx.v: the heap / time-stamp
   premise HW holds there (no in-heap exists yet, as for the two halves Blocks::split has just created), mergeLeft
   builds the heap of block 1, finds the violated constraint v0 + 1 <= v1 at its root and merges. *)
From Adapt Require Import Num.Qaux Vpsc.VpscSpec Vpsc.VpscModel Vpsc.VpscInv Vpsc.StaticModel Vpsc.StaticFrame
  Vpsc.StaticInv Vpsc.StaticInvB Vpsc.StaticGeom Vpsc.StaticDag Vpsc.StaticRefine Vpsc.StaticGeom2 Vpsc.StaticSplitML
  Vpsc.StaticSplitMLEx Vpsc.StaticInHeap Vpsc.VpscInvB Vpsc.VpscInvBSpec.
Local Open Scope Q_scope.

Lemma sx_HW : HW (stamp sx_s 1) 1.
Proof.
  pose proof sx_MLS as [BK AI W ST _ _ _].
  constructor; try assumption.
  - intros c. unfold ctime_of. destruct c as [|[|c]]; cbn; lia.
  - intros B. unfold btime_of. destruct B as [|[|[|[|B]]]]; cbn; lia.
  - intros x Hx _. assert (E : scons (base (stamp sx_s 1)) = sx_cs) by exact (proj2 (init_problem sx_vs sx_cs)).
    rewrite E in Hx. cbn in Hx. assert (x = O) by lia. subst x. vm_compute. lia.
  - assert (E : scons (base (stamp sx_s 1)) = sx_cs) by exact (proj2 (init_problem sx_vs sx_cs)). rewrite E. reflexivity.
  - vm_compute. lia.
  - vm_compute. lia.
  - intros B h _ Hb. exfalso. unfold bin_of in Hb. destruct B as [|[|[|[|B]]]]; cbn in Hb; discriminate.
Qed.

Example merge_left_split_closed_example :
  MLS sx_Yb 2 (base sx_s) 1 /\ HW (stamp sx_s 1) 1 /\ inhabited (base sx_s) 1 /\
  (exists s', merge_left sx_s 1 = Ok s' /\ blk_of (base s') 0 = blk_of (base s') 1) /\
  slack_val (base sx_s) 0 < 0.
Proof.
  split; [exact sx_MLS|]. split; [exact sx_HW|]. split; [|split].
  - exists 1%nat. split; [vm_compute; lia | vm_compute; reflexivity].
  - pose proof sx_merges_true as P. unfold sx_merges in P.
    destruct (merge_left sx_s 1) as [s'| |]; try discriminate. exists s'. split; [reflexivity|].
    apply andb_prop in P. apply Nat.eqb_eq. exact (proj1 P).
  - vm_compute. reflexivity.
Qed.

(* Non-vacuity of setup_all_heaps: on the same state Solver::refine's first loop builds the in-heap of block 1 with the
   constraint v0 + 1 <= v1 in it; every premise holds *)
Lemma sx_book : book (base sx_s).
Proof. pose proof sx_MLS as [BK _ _ _ _ _ _]. exact BK. Qed.
Lemma sx_blist_inh : forall B, In B (blist (base sx_s)) -> inhabited (base sx_s) B.
Proof.
  intros B HB. assert (E : blist (base sx_s) = [0; 1; 2]%nat) by (vm_compute; reflexivity). rewrite E in HB.
  destruct HB as [<-|[<-|[<-|[]]]]; [exists 0%nat | exists 1%nat | exists 2%nat]; split; vm_compute; try lia; reflexivity.
Qed.
Lemma sx_blist_cov : forall v, (v < length (svars (base sx_s)))%nat -> In (blk_of (base sx_s) v) (blist (base sx_s)).
Proof.
  intros v Hv. assert (E : length (svars (base sx_s)) = 3%nat) by (vm_compute; reflexivity). rewrite E in Hv.
  destruct v as [|[|[|v]]]; try lia; vm_compute; auto.
Qed.
Definition sx_setup_heap : bool :=
  match bin_of (setup_all sx_s) 1 with Some (Some (PH 0 [])) => true | _ => false end.
Lemma sx_setup_heap_true : sx_setup_heap = true. Proof. vm_compute. reflexivity. Qed.

Example setup_all_heaps_example :
  book (base sx_s) /\ length (ctime sx_s) = length (scons (base sx_s)) /\
  (length (blocks (base sx_s)) <= length (bin sx_s))%nat /\
  (forall B, In B (blist (base sx_s)) -> inhabited (base sx_s) B) /\
  (forall v, (v < length (svars (base sx_s)))%nat -> In (blk_of (base sx_s) v) (blist (base sx_s))) /\
  sx_setup_heap = true.
Proof.
  split; [exact sx_book|]. split; [vm_compute; reflexivity|]. split; [vm_compute; lia|].
  split; [exact sx_blist_inh|]. split; [exact sx_blist_cov | exact sx_setup_heap_true].
Qed.

(* ------------------------------------------------------------------ non-vacuity of split_entry_HW
   sy_a = the state Solver::satisfy returns on the example (v0, v1 merged into block 1 across the active constraint 0),
   sy_0 = after Solver::refine's first loop, sy_3 = the state Blocks::split(block 1, constraint 0) calls mergeLeft(l) in
   (computed with the model's own Block::split / pad2 / "r->posn = b->posn"): l = 3 = {v0}, r = 4 = {v1}. *)
Definition sy_a : sst := Eval vm_compute in (match static_satisfy sx_s with Ok s => s | _ => sx_s end).
Definition sy_0 : sst := Eval vm_compute in setup_all sy_a.
Definition sy_3 : sst := Eval vm_compute in
  (let s := sy_0 in
   match split (base s) 1 0 with
   | Ok (bs, l, r) =>
      let s1 := pad2 (set_base s bs) in
      let s2 := set_base s1 (set_blist (base s1) (blist (base s1) ++ [l; r])) in
      let B := block_of (base s2) 1 in
      let R := block_of (base s2) r in
      let R' := mkblk (bvars R) (Qred (posn B * bscale B / bscale R)) (bscale R) (AB R) (AD R) (A2 R) (dead R) in
      set_base s2 (set_block (base s2) r R')
   | _ => s end).

Ltac three v Hv := destruct v as [|[|[|v]]]; [| | | exfalso; cbn in Hv; lia].
Ltac book3 :=
  constructor;
  [ reflexivity | reflexivity | reflexivity
  | let v := fresh "v" in let Hv := fresh "Hv" in intros v Hv; three v Hv; vm_compute; lia
  | let v := fresh "v" in let w := fresh "w" in let Hv := fresh "Hv" in
    intros v w Hv; three v Hv;
    (split;
     [ let HI := fresh "HI" in intros HI; vm_compute in HI;
       repeat (destruct HI as [HI|HI]; [subst w; split; [vm_compute; lia | vm_compute; reflexivity]|]); destruct HI
     | let Hw := fresh "Hw" in let Ew := fresh "Ew" in intros [Hw Ew]; three w Hw;
       vm_compute in Ew; try discriminate; vm_compute; auto ])
  | let v := fresh "v" in let Hv := fresh "Hv" in intros v Hv; three v Hv; vm_compute; repeat constructor; cbn; intuition discriminate
  | exact sx_wfc ].

Lemma sy_a_book : book (base sy_a). Proof. book3. Qed.
Lemma sy_3_book : book (base sy_3). Proof. book3. Qed.

Lemma sy_0_heaps : forall B, inhabited (base sy_0) B ->
  exists h, bin_of sy_0 B = Some h /\ hgoodC sy_0 h /\ hsound sy_0 B h /\ hcomplete sy_0 B h.
Proof.
  assert (Hin : forall B, In B (blist (base sy_a)) -> inhabited (base sy_a) B).
  { intros B HB. vm_compute in HB. destruct HB as [<-|[<-|[]]]; [exists 0%nat | exists 2%nat]; split; vm_compute; try lia; reflexivity. }
  assert (Hcov : forall v, (v < length (svars (base sy_a)))%nat -> In (blk_of (base sy_a) v) (blist (base sy_a))).
  { intros v Hv. three v Hv; vm_compute; auto. }
  destruct (setup_all_heaps sy_a sy_a_book eq_refl ltac:(vm_compute; lia) Hin Hcov) as [_ [_ [_ [_ [_ [_ [_ H]]]]]]].
  exact H.
Qed.

Lemma sy_3_blk_st : all_blk_st (base sy_3).
Proof.
  intros u Hu. three u Hu; (split; [vm_compute; discriminate|]; split; [vm_compute; reflexivity|]; split; vm_compute; reflexivity).
Qed.

Definition sy_returns : bool := match merge_left sy_3 3 with Ok _ => true | _ => false end.
Lemma sy_returns_true : sy_returns = true. Proof. vm_compute. reflexivity. Qed.

Example split_entry_HW_example :
  HW (stamp sy_3 3) 3 /\ inhabited (base sy_3) 3 /\ sy_returns = true.
Proof.
  split; [|split; [exists 0%nat; split; [vm_compute; lia | vm_compute; reflexivity] | exact sy_returns_true]].
  apply (split_entry_HW sy_0 sy_3 1 3 4).
  - intros B. unfold btime_of. destruct B as [|[|[|B]]]; cbn; try lia. destruct B; cbn; lia.
  - intros x Hx. assert (x = O) by (cbn in Hx; lia). subst x. reflexivity.
  - reflexivity.
  - reflexivity.
  - reflexivity.
  - exact sx_wfv.
  - exact sy_a_book.
  - exact sy_0_heaps.
  - reflexivity.
  - reflexivity.
  - reflexivity.
  - reflexivity.
  - reflexivity.
  - reflexivity.
  - reflexivity.
  - reflexivity.
  - reflexivity.
  - lia.
  - intros u Hu Nb. three u Hu; try (exfalso; apply Nb; vm_compute; reflexivity); vm_compute; reflexivity.
  - intros u Hu Eb. three u Hu; try (vm_compute in Eb; discriminate); vm_compute; auto.
  - intros u Hu Nl. three u Hu; try (exfalso; apply Nl; vm_compute; reflexivity); vm_compute; reflexivity.
  - exact sy_3_book.
  - apply VpscInvBSpec.actb_spec. vm_compute. reflexivity.
  - exact sy_3_blk_st.
Qed.
