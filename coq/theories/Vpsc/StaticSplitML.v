(* The mergeLeft half of Blocks::split (Vpsc/StaticModel.static_split): geometry of mergeLeft(l)'s loop when the right
   half r sits, NOT at its optimum, where the old block was.
   Two regimes of the loop, current block M, positions Yb when Blocks::split was entered (every slack >= 0 there):
     mode A (r is not part of M): every block the loop touches is at its optimum; nothing outside M moved; every variable
            u of M is to the LEFT of Yb(u) by at least the violation of every in-constraint of M (geoA).  At loop exit
            every constraint holds.
     mode B (r has been merged into M): only the pair invariant J of StaticRefine.v (constraints with both / neither end
            in M hold, slack(in) + slack(out) >= 0) - it survives a merge with arbitrary rigid shifts rr - rl = violation.
            At loop exit J + "the in-constraints of M hold" is the invariant I2 mergeRight starts from.
   geoA implies J, so J holds throughout; the step from A to B is a merge with a block that is not at its optimum
   (StaticGeom2.merge_shift_st: no sign information, none needed for J).
   All of this is relative to the heap roots being most violated in-constraints (`ml_roots_ok`, bit 4096 of
   Vpsc/StaticRefB.v, evaluated on every DAG run; the in-heap order in the split context is not lifted yet). *)
From Adapt Require Import Num.Qaux Vpsc.VpscSpec Vpsc.VpscModel Vpsc.VpscInv Vpsc.VpscFrame Vpsc.VpscWalks Vpsc.VpscForest
  Vpsc.StaticModel Vpsc.StaticFrame Vpsc.StaticHeap Vpsc.StaticInv Vpsc.StaticInvB Vpsc.StaticHeapOrd Vpsc.StaticGeom
  Vpsc.StaticDag Vpsc.StaticRefine Vpsc.StaticGeom2.
Local Open Scope Q_scope.

Definition all_blk_st (b : st) : Prop := forall u, (u < length (svars b))%nat -> blk_st b (blk_of b u).
Definition ok_except (b : st) (R : nat) : Prop :=
  forall u, (u < length (svars b))%nat -> blk_of b u <> R -> blk_ok b (blk_of b u).

(* how one Block::merge across c0 re-classifies and moves the variables *)
Definition mclass (b b' : st) (R L t : nat) (rr rl : Q) : Prop :=
  forall u, (u < length (svars b))%nat ->
    (blk_of b u = R /\ blk_of b' u = t /\ Yof b' u == Yof b u + rr) \/
    (blk_of b u = L /\ blk_of b' u = t /\ Yof b' u == Yof b u + rl) \/
    (blk_of b u <> R /\ blk_of b u <> L /\ blk_of b' u = blk_of b u /\ blk_of b' u <> t /\ Yof b' u == Yof b u).

Lemma merge_class b c0 (sw : bool) d :
  book b -> act_inv b -> wf_vars (svars b) -> (c0 < length (scons b))%nat ->
  let R := blk_of b (cr (con_of b c0)) in
  let L := blk_of b (cl (con_of b c0)) in
  L <> R -> blk_st b L -> blk_st b R ->
  d == (if sw then - mdist b c0 else mdist b c0) ->
  let t := if sw then L else R in
  let b' := merge_into b t (if sw then R else L) c0 d in
  exists rr rl, rr - rl == - slack_val b c0 /\ mclass b b' R L t rr rl /\
    blk_ok b' t /\
    (forall u, (u < length (svars b))%nat -> blk_of b u <> R -> blk_of b u <> L ->
       (blk_st b (blk_of b u) -> blk_st b' (blk_of b u)) /\ (blk_ok b (blk_of b u) -> blk_ok b' (blk_of b u))) /\
    (blk_ok b L -> blk_ok b R -> slack_val b c0 < 0 -> 0 <= rr /\ rl <= 0) /\
    book b' /\ act_inv b' /\ scons b' = scons b /\ svars b' = svars b.
Proof.
  intros BK AI W Hc R L Hne SL SR Hd t b'.
  destruct (merge_shift_st b c0 sw d BK W Hc Hne SL SR Hd) as [rr [rl [Ed [MY [MOK [MO MS]]]]]].
  cbv zeta in MY, MOK, MO, MS. fold R L in MY, MOK, MO, MS. fold t in MY, MOK, MO. fold b' in MY, MOK, MO.
  destruct (con_ends_lt _ _ BK Hc) as [Hl Hr].
  set (a := if sw then R else L) in *.
  assert (MF : merge_facts b t a c0 b').
  { unfold b', t, a. destruct sw.
    - apply (merge_into_facts b L R c0 _ (cl (con_of b c0)) (cr (con_of b c0)) BK); auto.
    - apply (merge_into_facts b R L c0 _ (cr (con_of b c0)) (cl (con_of b c0)) BK); auto. }
  assert (BK' : book b' /\ act_inv b').
  { unfold b', t, a. destruct sw.
    - apply (merge_into_preserves b L R c0 _ (cl (con_of b c0)) (cr (con_of b c0)) BK AI); auto.
      left. split; [reflexivity|]. split; [reflexivity|]. rewrite Hd. unfold mdist. ring.
    - apply (merge_into_preserves b R L c0 _ (cr (con_of b c0)) (cl (con_of b c0)) BK AI); auto.
      right. split; [reflexivity|]. split; [reflexivity|]. rewrite Hd. unfold mdist. ring. }
  exists rr, rl. split; [exact Ed|]. split.
  { intros u Hu. destruct (MY u Hu) as [Y1 [Y2 Y3]]. destruct (mg_blk _ _ _ _ _ MF u Hu) as [M1 M2].
    destruct (Nat.eq_dec (blk_of b u) R) as [E|E]; [left|right; destruct (Nat.eq_dec (blk_of b u) L) as [E2|E2]; [left|right]].
    - split; [exact E|]. split; [|exact (Y1 E)]. unfold t, a in *. destruct sw; [apply M1; exact E | rewrite M2; congruence].
    - split; [exact E2|]. split; [|exact (Y2 E2)]. unfold t, a in *. destruct sw; [rewrite M2; congruence | apply M1; exact E2].
    - split; [exact E|]. split; [exact E2|]. split; [|split; [|exact (Y3 E E2)]]; unfold t, a in *; destruct sw; rewrite M2 by congruence; congruence. }
  split; [exact MOK|]. split; [exact MO|]. split; [exact MS|].
  split; [exact (proj1 BK')|]. split; [exact (proj2 BK')|].
  split; [exact (mg_scons _ _ _ _ _ MF) | exact (mg_svars _ _ _ _ _ MF)].
Qed.

Section Shift.
  Variables (b b' : st) (N Z t : nat) (c0 : nat) (rr rl : Q).
  Hypothesis BK : book b.
  Hypothesis W : wf_vars (svars b).
  Hypothesis Es : scons b' = scons b.
  Hypothesis Ev : svars b' = svars b.
  Hypothesis Hc0 : (c0 < length (scons b))%nat.
  Hypothesis Er0 : blk_of b (cr (con_of b c0)) = N.
  Hypothesis El0 : blk_of b (cl (con_of b c0)) = Z.
  Hypothesis NZ : Z <> N.
  Hypothesis Hs0 : slack_val b c0 < 0.
  Hypothesis RM : forall i, (i < length (scons b))%nat -> blk_of b (cr (con_of b i)) = N -> blk_of b (cl (con_of b i)) <> N ->
                    slack_val b c0 <= slack_val b i \/ 0 <= slack_val b i.
  Hypothesis Ed : rr - rl == - slack_val b c0.
  Hypothesis CL : mclass b b' N Z t rr rl.

  Let W' : wf_vars (svars b').
  Proof. rewrite Ev. exact W. Qed.
  Let Kcon c : con_of b' c = con_of b c.
  Proof. unfold con_of. rewrite Es. reflexivity. Qed.
  Let SY c : slack_val b c == Yof b (cr (con_of b c)) - gap (con_of b c) - Yof b (cl (con_of b c)).
  Proof. apply slack_Y'. exact W. Qed.
  Let SY' c : slack_val b' c == Yof b' (cr (con_of b c)) - gap (con_of b c) - Yof b' (cl (con_of b c)).
  Proof. rewrite (slack_Y' b' c W'), Kcon. reflexivity. Qed.
  Let Ends c : (c < length (scons b))%nat ->
      (cl (con_of b c) < length (svars b))%nat /\ (cr (con_of b c) < length (svars b))%nat.
  Proof. intros Hc. exact (con_ends_lt _ _ BK Hc). Qed.

  (* the pair invariant J survives the merge across a most violated in-constraint, whatever the two rigid shifts *)
  Lemma geoJ_shift : geoJ b N -> geoJ b' t.
  Proof.
    intros [G1 G3]. pose proof (SY c0) as S0.
    constructor.
    - intros c Hc Iff. rewrite Es in Hc. rewrite !Kcon in Iff. destruct (Ends c Hc) as [Hcl Hcr].
      rewrite (SY' c). pose proof (SY c) as Sc.
      destruct (CL _ Hcl) as [[L1 [L2 L3]]|[[L1 [L2 L3]]|[L1 [L1' [L1'' [L2 L3]]]]]];
      destruct (CL _ Hcr) as [[R1 [R2 R3]]|[[R1 [R2 R3]]|[R1 [R1' [R1'' [R2 R3]]]]]];
      rewrite L3, R3.
      + assert (X : 0 <= slack_val b c) by (apply G1; [exact Hc | tauto]). lra.
      + (* left end in N, right end in Z: an out-constraint of N, paired with c0 *)
        assert (Ne : blk_of b (cr (con_of b c)) <> N) by congruence.
        assert (Nl0 : blk_of b (cl (con_of b c0)) <> N) by congruence.
        pose proof (G3 c0 c Hc0 Hc Er0 Nl0 L1 Ne) as X. lra.
      + exfalso. apply R2. apply Iff. exact L2.
      + (* left end in Z, right end in N: an in-constraint of N *)
        assert (Ne : blk_of b (cl (con_of b c)) <> N) by congruence.
        destruct (RM c Hc R1 Ne) as [X|X]; lra.
      + assert (X : 0 <= slack_val b c) by (apply G1; [exact Hc | split; intros; congruence]). lra.
      + exfalso. apply R2. apply Iff. exact L2.
      + exfalso. apply L2. apply Iff. exact R2.
      + exfalso. apply L2. apply Iff. exact R2.
      + assert (X : 0 <= slack_val b c) by (apply G1; [exact Hc | split; intros; contradiction]). lra.
    - intros i o Hi Ho Eri Nli Elo Nro. rewrite Es in Hi, Ho. rewrite !Kcon in Eri, Nli, Elo, Nro.
      destruct (Ends i Hi) as [Hil Hir]. destruct (Ends o Ho) as [Hol Hor].
      rewrite (SY' i), (SY' o). pose proof (SY i) as Si. pose proof (SY o) as So.
      destruct (CL _ Hil) as [[A1 [A2 A3]]|[[A1 [A2 A3]]|[A1 [A1' [A1'' [A2 A3]]]]]]; try contradiction.
      destruct (CL _ Hor) as [[B1 [B2 B3]]|[[B1 [B2 B3]]|[B1 [B1' [B1'' [B2 B3]]]]]]; try contradiction.
      destruct (CL _ Hir) as [[R1 [R2 R3]]|[[R1 [R2 R3]]|[R1 [R1' [R1'' [R2 R3]]]]]]; try contradiction;
      destruct (CL _ Hol) as [[L1 [L2 L3]]|[[L1 [L2 L3]]|[L1 [L1' [L1'' [L2 L3]]]]]]; try contradiction;
      rewrite A3, B3, R3, L3.
      + pose proof (G3 i o Hi Ho R1 A1 L1 B1) as X. lra.
      + (* i into N, o out of Z *)
        assert (X2 : 0 <= slack_val b o) by (apply G1; [exact Ho | split; intros; congruence]).
        destruct (RM i Hi R1 A1) as [X|X]; lra.
      + (* i into Z, o out of N *)
        assert (X : 0 <= slack_val b i) by (apply G1; [exact Hi | split; intros; congruence]).
        assert (Nl0 : blk_of b (cl (con_of b c0)) <> N) by congruence.
        pose proof (G3 c0 o Hc0 Ho Er0 Nl0 L1 B1) as X2. lra.
      + assert (X : 0 <= slack_val b i) by (apply G1; [exact Hi | split; intros; congruence]).
        assert (X2 : 0 <= slack_val b o) by (apply G1; [exact Ho | split; intros; congruence]). lra.
  Qed.
End Shift.

(* ------------------------------------------------------------------ mode A *)
Record geoA (Yb : nat -> Q) (b : st) (M : nat) : Prop := {
  a_out : forall u, (u < length (svars b))%nat -> blk_of b u <> M -> Yof b u == Yb u;
  a_in : forall u, (u < length (svars b))%nat -> blk_of b u = M -> Yof b u <= Yb u;
  a_viol : forall i u, (i < length (scons b))%nat -> blk_of b (cr (con_of b i)) = M -> blk_of b (cl (con_of b i)) <> M ->
             (u < length (svars b))%nat -> blk_of b u = M -> - slack_val b i <= Yb u - Yof b u;
  a_int : forall c, (c < length (scons b))%nat -> blk_of b (cl (con_of b c)) = M -> blk_of b (cr (con_of b c)) = M ->
             0 <= slack_val b c }.

Definition ysat (Yb : nat -> Q) (b : st) : Prop :=
  forall c, (c < length (scons b))%nat -> 0 <= Yb (cr (con_of b c)) - gap (con_of b c) - Yb (cl (con_of b c)).

Lemma geoA_J Yb b M : book b -> wf_vars (svars b) -> ysat Yb b -> geoA Yb b M -> geoJ b M.
Proof.
  intros BK W YS [A1 A2 A3 A4]. constructor.
  - intros c Hc Iff. destruct (con_ends_lt _ _ BK Hc) as [Hl Hr].
    destruct (Nat.eq_dec (blk_of b (cl (con_of b c))) M) as [E|E].
    + apply A4; [exact Hc | exact E | apply Iff; exact E].
    + assert (E2 : blk_of b (cr (con_of b c)) <> M) by tauto.
      rewrite (slack_Y' b c W), (A1 _ Hl E), (A1 _ Hr E2). apply YS. exact Hc.
  - intros i o Hi Ho Eri Nli Elo Nro. destruct (con_ends_lt _ _ BK Ho) as [Hol Hor].
    pose proof (A3 i _ Hi Eri Nli Hol Elo) as X. pose proof (YS o Ho) as Y.
    rewrite (slack_Y' b o W), (A1 _ Hor Nro). lra.
Qed.

Lemma geoA_exit Yb b M : book b -> wf_vars (svars b) -> ysat Yb b -> geoA Yb b M ->
  (forall i, (i < length (scons b))%nat -> blk_of b (cr (con_of b i)) = M -> blk_of b (cl (con_of b i)) <> M -> 0 <= slack_val b i) ->
  all_sat0 b.
Proof.
  intros BK W YS [A1 A2 A3 A4] HI c Hc. destruct (con_ends_lt _ _ BK Hc) as [Hl Hr].
  destruct (Nat.eq_dec (blk_of b (cl (con_of b c))) M) as [El|El];
  destruct (Nat.eq_dec (blk_of b (cr (con_of b c))) M) as [Er|Er].
  - apply A4; assumption.
  - rewrite (slack_Y' b c W), (A1 _ Hr Er). pose proof (A2 _ Hl El). pose proof (YS c Hc). lra.
  - apply HI; assumption.
  - rewrite (slack_Y' b c W), (A1 _ Hr Er), (A1 _ Hl El). apply YS. exact Hc.
Qed.

Section ShiftA.
  Variables (Yb : nat -> Q) (b b' : st) (N Z t : nat) (c0 : nat) (rr rl : Q).
  Hypothesis BK : book b.
  Hypothesis W : wf_vars (svars b).
  Hypothesis Es : scons b' = scons b.
  Hypothesis Ev : svars b' = svars b.
  Hypothesis Hc0 : (c0 < length (scons b))%nat.
  Hypothesis Er0 : blk_of b (cr (con_of b c0)) = N.
  Hypothesis El0 : blk_of b (cl (con_of b c0)) = Z.
  Hypothesis NZ : Z <> N.
  Hypothesis Hs0 : slack_val b c0 < 0.
  Hypothesis RM : forall i, (i < length (scons b))%nat -> blk_of b (cr (con_of b i)) = N -> blk_of b (cl (con_of b i)) <> N ->
                    slack_val b c0 <= slack_val b i \/ 0 <= slack_val b i.
  Hypothesis Ed : rr - rl == - slack_val b c0.
  Hypothesis Hrl : rl <= 0.
  Hypothesis CL : mclass b b' N Z t rr rl.
  Hypothesis YS : ysat Yb b.

  Let W' : wf_vars (svars b').
  Proof. rewrite Ev. exact W. Qed.
  Let Kcon c : con_of b' c = con_of b c.
  Proof. unfold con_of. rewrite Es. reflexivity. Qed.
  Let SY c : slack_val b c == Yof b (cr (con_of b c)) - gap (con_of b c) - Yof b (cl (con_of b c)).
  Proof. apply slack_Y'. exact W. Qed.
  Let SY' c : slack_val b' c == Yof b' (cr (con_of b c)) - gap (con_of b c) - Yof b' (cl (con_of b c)).
  Proof. rewrite (slack_Y' b' c W'), Kcon. reflexivity. Qed.
  Let Ends c : (c < length (scons b))%nat ->
      (cl (con_of b c) < length (svars b))%nat /\ (cr (con_of b c) < length (svars b))%nat.
  Proof. intros Hc. exact (con_ends_lt _ _ BK Hc). Qed.

  Lemma geoA_shift : geoA Yb b N -> geoA Yb b' t.
  Proof.
    intros [A1 A2 A3 A4]. pose proof (SY c0) as S0.
    destruct (Ends c0 Hc0) as [Hl0 Hr0].
    assert (Nl0 : blk_of b (cl (con_of b c0)) <> N) by congruence.
    constructor.
    - intros u Hu Nt. rewrite Ev in Hu.
      destruct (CL _ Hu) as [[U1 [U2 U3]]|[[U1 [U2 U3]]|[U1 [U1' [U1'' [U2 U3]]]]]]; try contradiction.
      rewrite U3. apply A1; assumption.
    - intros u Hu Et. rewrite Ev in Hu.
      destruct (CL _ Hu) as [[U1 [U2 U3]]|[[U1 [U2 U3]]|[U1 [U1' [U1'' [U2 U3]]]]]]; try contradiction; rewrite U3.
      + pose proof (A3 c0 u Hc0 Er0 Nl0 Hu U1) as X. lra.
      + assert (Nu : blk_of b u <> N) by congruence. pose proof (A1 u Hu Nu) as X. lra.
    - intros i u Hi Eri Nli Hu Eu. rewrite Es in Hi. rewrite Ev in Hu. rewrite !Kcon in Eri, Nli.
      destruct (Ends i Hi) as [Hil Hir]. rewrite (SY' i). pose proof (SY i) as Si.
      destruct (CL _ Hil) as [[A1' [A2' A3']]|[[A1' [A2' A3']]|[L1 [L1' [L1'' [L2 L3]]]]]]; try contradiction.
      rewrite L3.
      destruct (CL _ Hir) as [[R1 [R2 R3]]|[[R1 [R2 R3]]|[R1 [R1' [R1'' [R2 R3]]]]]]; try contradiction;
      destruct (CL _ Hu) as [[U1 [U2 U3]]|[[U1 [U2 U3]]|[U1 [U1' [U1'' [U2 U3]]]]]]; try contradiction;
      rewrite R3, U3.
      + pose proof (A3 i u Hi R1 L1 Hu U1) as X. lra.
      + assert (Nu : blk_of b u <> N) by congruence. pose proof (A1 u Hu Nu) as X.
        destruct (RM i Hi R1 L1) as [Y|Y]; lra.
      + assert (Nr : blk_of b (cr (con_of b i)) <> N) by congruence.
        pose proof (A1 _ Hir Nr) as X1. pose proof (A1 _ Hil L1) as X2. pose proof (YS i Hi) as X3.
        pose proof (A3 c0 u Hc0 Er0 Nl0 Hu U1) as X4. lra.
      + assert (Nr : blk_of b (cr (con_of b i)) <> N) by congruence.
        assert (Nu : blk_of b u <> N) by congruence.
        pose proof (A1 _ Hir Nr) as X1. pose proof (A1 _ Hil L1) as X2. pose proof (YS i Hi) as X3.
        pose proof (A1 u Hu Nu) as X4. lra.
    - intros c Hc Elc Erc. rewrite Es in Hc. rewrite !Kcon in Elc, Erc.
      destruct (Ends c Hc) as [Hcl Hcr]. rewrite (SY' c). pose proof (SY c) as Sc.
      destruct (CL _ Hcl) as [[L1 [L2 L3]]|[[L1 [L2 L3]]|[L1 [L1' [L1'' [L2 L3]]]]]]; try contradiction;
      destruct (CL _ Hcr) as [[R1 [R2 R3]]|[[R1 [R2 R3]]|[R1 [R1' [R1'' [R2 R3]]]]]]; try contradiction;
      rewrite L3, R3.
      + pose proof (A4 c Hc L1 R1) as X. lra.
      + (* left end in N, right end in Z *)
        assert (Nr : blk_of b (cr (con_of b c)) <> N) by congruence.
        pose proof (A1 _ Hcr Nr) as X1. pose proof (YS c Hc) as X3.
        pose proof (A3 c0 _ Hc0 Er0 Nl0 Hcl L1) as X4. lra.
      + assert (Nl : blk_of b (cl (con_of b c)) <> N) by congruence.
        destruct (RM c Hc R1 Nl) as [X|X]; lra.
      + assert (Nl : blk_of b (cl (con_of b c)) <> N) by congruence.
        assert (Nr : blk_of b (cr (con_of b c)) <> N) by congruence.
        pose proof (A1 _ Hcr Nr) as X1. pose proof (A1 _ Hcl Nl) as X2. pose proof (YS c Hc) as X3. lra.
  Qed.
End ShiftA.

(* ------------------------------------------------------------------ the loop of mergeLeft(l) inside Blocks::split *)
Lemma ml_body_exact s r c s' r' c' :
  ml_body s r c = Ok (s', r', c') ->
  let b := base s in
  let l := blk_of b (cl (con_of b c)) in
  let sw := Nat.ltb (length (bvars (block_of b r))) (length (bvars (block_of b l))) in
  base s' = merge_into b (if sw then l else r) (if sw then r else l) c (if sw then - mdist b c else mdist b c) /\
  r' = (if sw then l else r).
Proof.
  unfold ml_body. intros H.
  apply bind_ok in H. destruct H as [s1 [H1 H]].
  apply delete_min_base in H1.
  set (l := lblk s1 c) in *.
  set (s2 := match bin_of s1 l with None => set_up_heap true s1 l | Some _ => s1 end) in *.
  assert (E2 : base s2 = base s).
  { unfold s2. destruct (bin_of s1 l); [exact H1 | rewrite base_set_up_heap; exact H1]. }
  apply bind_ok in H. destruct H as [s5 [H5 H]].
  apply merge_heaps_base in H5. cbn [base set_base set_ctr] in H5.
  apply bind_ok in H. destruct H as [[s9 c9] [H9 H]].
  apply find_min_in_base in H9. cbn [base set_btime] in H9.
  inversion H. subst s' r' c'. cbn [fst]. cbv zeta.
  unfold nvars in *. rewrite E2 in *. unfold l, lblk in *. rewrite !H1 in *.
  split; [|reflexivity]. rewrite H9, H5. unfold mdist. reflexivity.
Qed.

Definition in_root_ok (s : sst) (r : nat) (c : option nat) : Prop :=
  match c with
  | Some c0 => (c0 < length (scons (base s)))%nat /\ rblk s c0 = r /\ lblk s c0 <> r /\
               forall i, (i < length (scons (base s)))%nat -> rblk s i = r -> lblk s i <> r ->
                         sslack s c0 <= sslack s i \/ 0 <= sslack s i
  | None => forall i, (i < length (scons (base s)))%nat -> rblk s i = r -> lblk s i <> r -> 0 <= sslack s i
  end.

(* bit 4096 of Vpsc/StaticRefB.v as a proposition: at every state mergeLeft's loop tests, the root findMinInConstraint
   delivered is an in-constraint of the current block and no in-constraint of that block is more violated *)
Fixpoint ml_roots_ok (fuel : nat) (s : sst) (r : nat) (c : option nat) : Prop :=
  match fuel with
  | O => True
  | S f =>
      in_root_ok s r c /\
      match c with
      | None => True
      | Some c0 =>
          if Qltb (sslack (snote_slack TIE_EPS s c0 0) c0) 0 then
            match ml_body (snote_slack TIE_EPS s c0 0) r c0 with
            | Ok (s', r', c') => ml_roots_ok f s' r' c'
            | _ => True
            end
          else True
      end
  end.

Record MLS (Yb : nat -> Q) (rv : nat) (b : st) (M : nat) : Prop := {
  s_bk : book b;
  s_ai : act_inv b;
  s_wf : wf_vars (svars b);
  s_st : all_blk_st b;
  s_ys : ysat Yb b;
  s_rv : (rv < length (svars b))%nat;
  s_mode : (blk_of b rv <> M /\ geoA Yb b M /\ ok_except b (blk_of b rv)) \/
           (blk_of b rv = M /\ geoJ b M /\ all_blk_ok b) }.

Lemma MLS_step Yb rv b N c0 (sw : bool) :
  MLS Yb rv b N -> (c0 < length (scons b))%nat ->
  blk_of b (cr (con_of b c0)) = N -> blk_of b (cl (con_of b c0)) <> N -> slack_val b c0 < 0 ->
  (forall i, (i < length (scons b))%nat -> blk_of b (cr (con_of b i)) = N -> blk_of b (cl (con_of b i)) <> N ->
     slack_val b c0 <= slack_val b i \/ 0 <= slack_val b i) ->
  let Z := blk_of b (cl (con_of b c0)) in
  let t := if sw then Z else N in
  let b' := merge_into b t (if sw then N else Z) c0 (if sw then - mdist b c0 else mdist b c0) in
  MLS Yb rv b' t /\ scons b' = scons b /\ svars b' = svars b.
Proof.
  intros [BK AI W ST YS Hrv MODE] Hc0 Er0 Nl0 Hs0 RM Z t b'.
  destruct (con_ends_lt _ _ BK Hc0) as [Hl0 Hr0].
  assert (SZ : blk_st b Z) by (apply ST; exact Hl0).
  assert (SN : blk_st b N) by (rewrite <- Er0; apply ST; exact Hr0).
  assert (Hne : blk_of b (cl (con_of b c0)) <> blk_of b (cr (con_of b c0))) by (rewrite Er0; exact Nl0).
  assert (SN' : blk_st b (blk_of b (cr (con_of b c0)))) by (rewrite Er0; exact SN).
  destruct (merge_class b c0 sw _ BK AI W Hc0 Hne SZ SN' (Qeq_refl _))
    as [rr [rl [Ed [CL [TOK [MO [MS [BK' [AI' [Es Ev]]]]]]]]]].
  cbv zeta in CL, TOK, MO, MS, BK', AI', Es, Ev. rewrite Er0 in CL, TOK, MO, MS, BK', AI', Es, Ev.
  fold Z in CL, TOK, MO, MS, BK', AI', Es, Ev. fold t in CL, TOK, MO, BK', AI', Es, Ev. fold b' in CL, TOK, MO, BK', AI', Es, Ev.
  assert (NZ : Z <> N) by exact Nl0.
  assert (W' : wf_vars (svars b')) by (rewrite Ev; exact W).
  assert (ST' : all_blk_st b').
  { intros u Hu. rewrite Ev in Hu.
    destruct (CL _ Hu) as [[U1 [U2 U3]]|[[U1 [U2 U3]]|[U1 [U1' [U1'' [U2 U3]]]]]].
    - rewrite U2. apply blk_ok_st. exact TOK.
    - rewrite U2. apply blk_ok_st. exact TOK.
    - rewrite U1''. apply (MO u Hu U1 U1'). apply ST. exact Hu. }
  assert (YS' : ysat Yb b').
  { intros c Hc. rewrite Es in Hc. unfold con_of. rewrite Es. apply YS. exact Hc. }
  assert (OKall : (forall u, (u < length (svars b))%nat -> blk_of b u <> N -> blk_of b u <> Z -> blk_ok b (blk_of b u)) ->
                  all_blk_ok b').
  { intros H u Hu. rewrite Ev in Hu.
    destruct (CL _ Hu) as [[U1 [U2 U3]]|[[U1 [U2 U3]]|[U1 [U1' [U1'' [U2 U3]]]]]].
    - rewrite U2. exact TOK.
    - rewrite U2. exact TOK.
    - rewrite U1''. apply (MO u Hu U1 U1'). apply H; assumption. }
  split; [|split; [exact Es | exact Ev]].
  constructor; try assumption.
  - rewrite Ev. exact Hrv.
  - destruct MODE as [[Nrv [GA OE]]|[Erv [GJ OKb]]].
    + destruct (Nat.eq_dec Z (blk_of b rv)) as [EZ|NZr].
      * (* the right half is merged in: from now on only J *)
        right. split; [|split].
        -- destruct (CL _ Hrv) as [[U1 [U2 U3]]|[[U1 [U2 U3]]|[U1 [U1' [U1'' [U2 U3]]]]]]; try exact U2. congruence.
        -- apply (geoJ_shift b b' N Z t c0 rr rl BK W Es Ev Hc0 Er0 eq_refl NZ Hs0 RM Ed CL).
           apply (geoA_J Yb b N BK W YS GA).
        -- apply OKall. intros u Hu U1 U2. apply OE; [exact Hu | congruence].
      * left.
        assert (OKZ : blk_ok b Z) by (apply OE; [exact Hl0 | exact NZr]).
        assert (OKN : blk_ok b N) by (rewrite <- Er0; apply OE; [exact Hr0 | rewrite Er0; congruence]).
        destruct (MS OKZ OKN Hs0) as [_ Hrl].
        assert (Erv' : blk_of b' rv = blk_of b rv /\ blk_of b' rv <> t).
        { destruct (CL _ Hrv) as [[U1 [U2 U3]]|[[U1 [U2 U3]]|[U1 [U1' [U1'' [U2 U3]]]]]]; try congruence. auto. }
        destruct Erv' as [Erv1 Erv2]. split; [exact Erv2|]. split.
        -- apply (geoA_shift Yb b b' N Z t c0 rr rl BK W Es Ev Hc0 Er0 eq_refl NZ Hs0 RM Ed Hrl CL YS GA).
        -- intros u Hu Nu. rewrite Ev in Hu. rewrite Erv1 in Nu.
           destruct (CL _ Hu) as [[U1 [U2 U3]]|[[U1 [U2 U3]]|[U1 [U1' [U1'' [U2 U3]]]]]].
           ++ rewrite U2. exact TOK.
           ++ rewrite U2. exact TOK.
           ++ rewrite U1''. apply (MO u Hu U1 U1'). apply OE; [exact Hu | congruence].
    + right. split; [|split].
      * destruct (CL _ Hrv) as [[U1 [U2 U3]]|[[U1 [U2 U3]]|[U1 [U1' [U1'' [U2 U3]]]]]]; try exact U2. congruence.
      * apply (geoJ_shift b b' N Z t c0 rr rl BK W Es Ev Hc0 Er0 eq_refl NZ Hs0 RM Ed CL GJ).
      * apply OKall. intros u Hu _ _. apply OKb. exact Hu.
Qed.

Lemma ml_roots_ok_S f s r c :
  ml_roots_ok (S f) s r c =
  (in_root_ok s r c /\
   match c with
   | None => True
   | Some c0 =>
       if Qltb (sslack (snote_slack TIE_EPS s c0 0) c0) 0 then
         match ml_body (snote_slack TIE_EPS s c0 0) r c0 with
         | Ok (s', r', c') => ml_roots_ok f s' r' c'
         | _ => True
         end
       else True
   end).
Proof. reflexivity. Qed.
Lemma neg_of_Qltb' s c : Qltb (sslack s c) 0 = true -> slack_val (base s) c < 0.
Proof. intros Q. apply Qltb_spec in Q. exact Q. Qed.
Lemma nonneg_of_Qltb' s c : Qltb (sslack s c) 0 = false -> 0 <= slack_val (base s) c.
Proof. intros Q. apply Qltb_false in Q. exact Q. Qed.

(* mergeLeft(l)'s loop inside Blocks::split: the two-mode invariant is kept, and at exit the in-constraints of the
   final block hold *)
Theorem ml_loop_split Yb rv : forall fuel s r c s',
  MLS Yb rv (base s) r -> ml_roots_ok fuel s r c -> ml_loop fuel s r c = Ok s' ->
  exists M, MLS Yb rv (base s') M /\
    (forall i, (i < length (scons (base s')))%nat -> blk_of (base s') (cr (con_of (base s') i)) = M ->
               blk_of (base s') (cl (con_of (base s') i)) <> M -> 0 <= slack_val (base s') i) /\
    scons (base s') = scons (base s) /\ svars (base s') = svars (base s).
Proof.
  induction fuel as [|f IH]; intros s r c s' I R H; [discriminate|].
  rewrite ml_roots_ok_S in R. destruct R as [RO R]. cbn [ml_loop] in H.
  destruct c as [c0|].
  - assert (E0 : base (snote_slack TIE_EPS s c0 0) = base s) by apply base_snote_slack.
    remember (snote_slack TIE_EPS s c0 0) as s0 eqn:Es0. clear Es0.
    destruct RO as [Hc0 [Er0 [Nl0 RM]]]. unfold lblk, rblk, sslack in Er0, Nl0, RM.
    destruct (Qltb (sslack s0 c0) 0) eqn:Q.
    + apply bind_ok in H. destruct H as [[[s1 r1] c1] [H1 H2]]. rewrite H1 in R.
      destruct (ml_body_exact _ _ _ _ _ _ H1) as [Eb El]. cbv zeta in Eb, El. rewrite E0 in Eb, El.
      pose proof (neg_of_Qltb' s0 c0 Q) as Hneg. rewrite E0 in Hneg.
      set (b := base s) in *.
      set (sw := Nat.ltb (length (bvars (block_of b r))) (length (bvars (block_of b (blk_of b (cl (con_of b c0))))))) in *.
      destruct (MLS_step Yb rv b r c0 sw I Hc0 Er0 Nl0 Hneg RM) as [I' [Es Ev]].
      cbv zeta in I', Es, Ev. rewrite <- Eb in I', Es, Ev. rewrite <- El in I'.
      destruct (IH s1 r1 c1 s' I' R H2) as [M [IM [HI [E1 E2]]]].
      exists M. split; [exact IM|]. split; [exact HI|]. split; congruence.
    + inversion H. subst s'. rewrite E0. exists r. split; [exact I|]. split; [|auto].
      pose proof (nonneg_of_Qltb' s0 c0 Q) as Hge. rewrite E0 in Hge.
      intros i Hi Eri Nli. destruct (RM i Hi Eri Nli) as [X|X]; lra.
  - inversion H. subst s'. exists r. split; [exact I|]. split; [|auto].
    intros i Hi Eri Nli. apply RO; assumption.
Qed.

(* what mergeLeft(l) hands over to the second half of Blocks::split *)
Corollary ml_loop_split_not_merged Yb rv b M :
  MLS Yb rv b M -> blk_of b rv <> M ->
  (forall i, (i < length (scons b))%nat -> blk_of b (cr (con_of b i)) = M -> blk_of b (cl (con_of b i)) <> M -> 0 <= slack_val b i) ->
  all_sat0 b /\ ok_except b (blk_of b rv).
Proof.
  intros [BK AI W ST YS Hrv MODE] Nrv HI. destruct MODE as [[_ [GA OE]]|[Erv _]]; [|contradiction].
  split; [exact (geoA_exit Yb b M BK W YS GA HI) | exact OE].
Qed.
Corollary ml_loop_split_merged Yb rv b M :
  MLS Yb rv b M -> blk_of b rv = M ->
  (forall i, (i < length (scons b))%nat -> blk_of b (cr (con_of b i)) = M -> blk_of b (cl (con_of b i)) <> M -> 0 <= slack_val b i) ->
  MRI b M.
Proof.
  intros [BK AI W ST YS Hrv MODE] Erv HI. destruct MODE as [[Nrv _]|[_ [GJ OKb]]]; [contradiction|].
  constructor; try assumption. apply geo2_entry_merged; assumption.
Qed.

(* Blocks::mergeLeft as a whole (stamp, setUpInConstraints, findMinInConstraint, the loop) *)
Theorem merge_left_split Yb rv s l s' :
  MLS Yb rv (base s) l ->
  (forall s1 c,
     find_min_in (set_up_heap true (set_btime (set_ctr s (S (ctr s))) (upd_nth (btime s) l (S (ctr s)))) l) l = Ok (s1, c) ->
     ml_roots_ok (loop_fuel s) s1 l c) ->
  merge_left s l = Ok s' ->
  exists M, MLS Yb rv (base s') M /\
    (forall i, (i < length (scons (base s')))%nat -> blk_of (base s') (cr (con_of (base s') i)) = M ->
               blk_of (base s') (cl (con_of (base s') i)) <> M -> 0 <= slack_val (base s') i) /\
    scons (base s') = scons (base s) /\ svars (base s') = svars (base s).
Proof.
  intros I R H. unfold merge_left in H. apply bind_ok in H. destruct H as [[s1 c1] [H1 H2]]. cbn [fst snd] in H2.
  pose proof (find_min_in_base _ _ _ _ H1) as E1. rewrite base_set_up_heap in E1. cbn [base set_btime set_ctr] in E1.
  assert (I1 : MLS Yb rv (base s1) l) by (rewrite E1; exact I).
  destruct (ml_loop_split Yb rv _ _ _ _ _ I1 (R s1 c1 H1) H2) as [M [IM [HI [A B]]]].
  exists M. split; [exact IM|]. split; [exact HI|]. rewrite E1 in A, B. auto.
Qed.

(* entering mergeLeft(l): from an all-satisfied configuration Yb the new left half l has moved rigidly to the left *)
Lemma MLS_entry Yb rv b l dl :
  book b -> act_inv b -> wf_vars (svars b) -> all_blk_st b -> ok_except b (blk_of b rv) -> blk_of b rv <> l ->
  ysat Yb b -> (rv < length (svars b))%nat -> 0 <= dl ->
  (forall u, (u < length (svars b))%nat -> blk_of b u = l -> Yof b u == Yb u - dl) ->
  (forall u, (u < length (svars b))%nat -> blk_of b u <> l -> Yof b u == Yb u) ->
  MLS Yb rv b l.
Proof.
  intros BK AI W ST OE Nrv YS Hrv Hd Y1 Y2. constructor; try assumption.
  left. split; [exact Nrv|]. split; [|exact OE]. constructor.
  - exact Y2.
  - intros u Hu E. rewrite (Y1 u Hu E). lra.
  - intros i u Hi Eri Nli Hu Eu. destruct (con_ends_lt _ _ BK Hi) as [Hil Hir].
    rewrite (slack_Y' b i W), (Y1 _ Hir Eri), (Y2 _ Hil Nli), (Y1 u Hu Eu). pose proof (YS i Hi). lra.
  - intros c Hc El Er. destruct (con_ends_lt _ _ BK Hc) as [Hcl Hcr].
    rewrite (slack_Y' b c W), (Y1 _ Hcr Er), (Y1 _ Hcl El). pose proof (YS c Hc). lra.
Qed.

(* ------------------------------------------------------------------ boolean form of ml_roots_ok (non-vacuity by computation) *)
Definition is_in (s : sst) (r i : nat) : bool := Nat.eqb (rblk s i) r && negb (Nat.eqb (lblk s i) r).
Definition in_root_okb (s : sst) (r : nat) (c : option nat) : bool :=
  let m := length (scons (base s)) in
  match c with
  | Some c0 => Nat.ltb c0 m && is_in s r c0 &&
               forallb (fun i => negb (is_in s r i) || Qleb (sslack s c0) (sslack s i) || Qleb 0 (sslack s i)) (seq 0 m)
  | None => forallb (fun i => negb (is_in s r i) || Qleb 0 (sslack s i)) (seq 0 m)
  end.
Lemma is_in_spec s r i : is_in s r i = true <-> (rblk s i = r /\ lblk s i <> r).
Proof. unfold is_in. rewrite andb_true_iff, negb_true_iff, Nat.eqb_eq, Nat.eqb_neq. tauto. Qed.
Lemma in_root_okb_spec s r c : in_root_okb s r c = true -> in_root_ok s r c.
Proof.
  unfold in_root_okb, in_root_ok. destruct c as [c0|].
  - rewrite !andb_true_iff, Nat.ltb_lt, is_in_spec, forallb_forall. intros [[A [B C]] D].
    split; [exact A|]. split; [exact B|]. split; [exact C|]. intros i Hi Ei Ni.
    assert (Hin : In i (seq 0 (length (scons (base s))))) by (apply in_seq; lia).
    specialize (D i Hin). rewrite !orb_true_iff, negb_true_iff in D.
    destruct D as [[D|D]|D].
    + exfalso. assert (X : is_in s r i = true) by (apply is_in_spec; auto). congruence.
    + left. apply Qleb_spec. exact D.
    + right. apply Qleb_spec. exact D.
  - rewrite forallb_forall. intros D i Hi Ei Ni.
    assert (Hin : In i (seq 0 (length (scons (base s))))) by (apply in_seq; lia).
    specialize (D i Hin). rewrite orb_true_iff, negb_true_iff in D. destruct D as [D|D].
    + exfalso. assert (X : is_in s r i = true) by (apply is_in_spec; auto). congruence.
    + apply Qleb_spec. exact D.
Qed.
Fixpoint ml_roots_okb (fuel : nat) (s : sst) (r : nat) (c : option nat) : bool :=
  match fuel with
  | O => true
  | S f =>
      in_root_okb s r c &&
      match c with
      | None => true
      | Some c0 =>
          if Qltb (sslack (snote_slack TIE_EPS s c0 0) c0) 0 then
            match ml_body (snote_slack TIE_EPS s c0 0) r c0 with
            | Ok (s', r', c') => ml_roots_okb f s' r' c'
            | _ => true
            end
          else true
      end
  end.
Lemma ml_roots_okb_spec : forall fuel s r c, ml_roots_okb fuel s r c = true -> ml_roots_ok fuel s r c.
Proof.
  induction fuel as [|f IH]; intros s r c H; [exact I|].
  rewrite ml_roots_ok_S. cbn [ml_roots_okb] in H. apply andb_prop in H. destruct H as [H1 H2].
  split; [apply in_root_okb_spec; exact H1|]. destruct c as [c0|]; [|exact I].
  destruct (Qltb _ _); [|exact I].
  destruct (ml_body _ r c0) as [[[s' r'] c']| |]; try exact I. apply IH. exact H2.
Qed.
