(* Trichotomy invariant of the IncSolver model (C01, DESIGN 5.1): every constraint is exactly one of
   active / flagged unsatisfiable / in the work-list `inactive` (hence every equality is active, flagged or in the list),
   the list has no duplicates.  Also: what mostViolated returns (the first equality of the list, else a constraint of
   minimum slack), and the swap-with-last removal. *)
From Adapt Require Import Num.Qaux Vpsc.VpscSpec Vpsc.VpscModel Vpsc.VpscInv Vpsc.VpscFrame.
Local Open Scope Q_scope.

Record trich (s : st) : Prop := {
  t_len : length (cuns s) = length (scons s);
  t_nodup : NoDup (inactive s);
  t_in : forall c, In c (inactive s) -> (c < length (scons s))%nat /\ act_of s c = false /\ uns_of s c = false;
  t_cover : forall c, (c < length (scons s))%nat -> act_of s c = false -> uns_of s c = false -> In c (inactive s);
  t_au : forall c, act_of s c = true -> uns_of s c = true -> False }.

(* trichotomy with the constraint v taken out of the list for processing *)
Record trichx (s : st) (v : nat) : Prop := {
  tx_len : length (cuns s) = length (scons s);
  tx_nodup : NoDup (inactive s);
  tx_in : forall c, In c (inactive s) -> (c < length (scons s))%nat /\ act_of s c = false /\ uns_of s c = false /\ c <> v;
  tx_cover : forall c, (c < length (scons s))%nat -> c <> v -> act_of s c = false -> uns_of s c = false -> In c (inactive s);
  tx_au : forall c, act_of s c = true -> uns_of s c = true -> False;
  tx_v : (v < length (scons s))%nat /\ act_of s v = false /\ uns_of s v = false }.

Lemma trich_frame s s' :
  scons s' = scons s -> cact s' = cact s -> cuns s' = cuns s -> inactive s' = inactive s -> trich s -> trich s'.
Proof.
  intros E1 E2 E3 E4 [A B C D E]. constructor; unfold act_of, uns_of in *; rewrite ?E1, ?E2, ?E3, ?E4; assumption.
Qed.
Lemma trichx_frame s s' v :
  scons s' = scons s -> cact s' = cact s -> cuns s' = cuns s -> inactive s' = inactive s -> trichx s v -> trichx s' v.
Proof.
  intros E1 E2 E3 E4 [A B C D E F]. constructor; unfold act_of, uns_of in *; rewrite ?E1, ?E2, ?E3, ?E4; assumption.
Qed.
Lemma trich_lm_only s s' : lm_only s s' -> trich s -> trich s'.
Proof. intros [lm [t ->]]. apply trich_frame; reflexivity. Qed.
Lemma trichx_lm_only s s' v : lm_only s s' -> trichx s v -> trichx s' v.
Proof. intros [lm [t ->]]. apply trichx_frame; reflexivity. Qed.

(* v leaves the list *)
Lemma trich_take s v l' :
  trich s -> In v (inactive s) -> NoDup l' -> (forall x, In x l' <-> (In x (inactive s) /\ x <> v)) ->
  trichx (set_inactive s l') v.
Proof.
  intros [A B C D E] Hv N HL. constructor; cbn [inactive set_inactive]; try assumption.
  - intros c Hc. apply HL in Hc. destruct Hc as [Hc Nc]. destruct (C c Hc) as [P [Q R]]. tauto.
  - intros c Hc Nc Ha Hu. apply HL. split; [apply D; assumption | exact Nc].
  - exact (C v Hv).
Qed.
(* v is put back at the end of the list *)
Lemma trichx_put_back s v :
  trichx s v -> trich (set_inactive s (inactive s ++ [v])).
Proof.
  intros [A B C D E [F1 [F2 F3]]]. constructor; cbn [inactive set_inactive]; try assumption.
  - apply NoDup_app_disjoint; [exact B | constructor; [intros [] | constructor] |].
    intros a Ha [Eq|[]]. subst a. destruct (C _ Ha) as [_ [_ [_ N]]]. congruence.
  - intros c Hc. apply in_app_or in Hc. destruct Hc as [Hc|[<-|[]]]; [destruct (C c Hc); tauto | tauto].
  - intros c Hc Ha Hu. apply in_or_app. destruct (Nat.eq_dec c v) as [->|N]; [right; left; reflexivity | left; apply D; assumption].
Qed.
(* v becomes active *)
Lemma trichx_activate s s' v :
  trichx s v -> scons s' = scons s -> cuns s' = cuns s -> inactive s' = inactive s ->
  cact s' = upd_nth (cact s) v true -> length (cact s) = length (scons s) -> trich s'.
Proof.
  intros [A B C D E [F1 [F2 F3]]] E1 E3 E4 E2 L.
  assert (Ea : forall c, c <> v -> act_of s' c = act_of s c).
  { intros c N. unfold act_of. rewrite E2. apply nth_upd_nth_neq. congruence. }
  assert (Eav : act_of s' v = true).
  { unfold act_of. rewrite E2. apply nth_upd_nth_eq. rewrite L. exact F1. }
  assert (Eu : forall c, uns_of s' c = uns_of s c) by (intros; unfold uns_of; rewrite E3; reflexivity).
  constructor; rewrite ?E1, ?E3, ?E4; try assumption.
  - intros c Hc. destruct (C c Hc) as [P [Q [R N]]]. rewrite (Ea c N), Eu. tauto.
  - intros c Hc Ha Hu. destruct (Nat.eq_dec c v) as [->|N]; [congruence|]. rewrite (Ea c N) in Ha. rewrite Eu in Hu.
    apply D; assumption.
  - intros c Ha Hu. rewrite Eu in Hu. destruct (Nat.eq_dec c v) as [->|N]; [congruence|]. rewrite (Ea c N) in Ha. exact (E c Ha Hu).
Qed.
(* v is flagged *)
Lemma trichx_flag s v : trichx s v -> trich (flag_unsat s v).
Proof.
  intros [A B C D E [F1 [F2 F3]]].
  assert (Eu : forall c, c <> v -> uns_of (flag_unsat s v) c = uns_of s c).
  { intros c N. unfold uns_of, flag_unsat. cbn [cuns set_cuns]. apply nth_upd_nth_neq. congruence. }
  assert (Euv : uns_of (flag_unsat s v) v = true).
  { unfold uns_of, flag_unsat. cbn [cuns set_cuns]. apply nth_upd_nth_eq. rewrite A. exact F1. }
  change (act_of (flag_unsat s v)) with (act_of s) in *.
  constructor; cbn [scons inactive flag_unsat set_cuns cuns]; try assumption.
  - rewrite upd_nth_length. exact A.
  - intros c Hc. destruct (C c Hc) as [P [Q [R N]]]. change (act_of (flag_unsat s v) c) with (act_of s c). rewrite (Eu c N). tauto.
  - intros c Hc Ha Hu. change (act_of (flag_unsat s v) c) with (act_of s c) in Ha.
    destruct (Nat.eq_dec c v) as [->|N]; [congruence|]. rewrite (Eu c N) in Hu. apply D; assumption.
  - intros c Ha Hu. change (act_of (flag_unsat s v) c) with (act_of s c) in Ha.
    destruct (Nat.eq_dec c v) as [->|N]; [congruence|]. rewrite (Eu c N) in Hu. exact (E c Ha Hu).
Qed.
(* an active constraint c is deactivated (split) and appended to the list *)
Lemma trichx_split s s' v c :
  trichx s v -> act_of s c = true -> length (cact s) = length (scons s) ->
  scons s' = scons s -> cuns s' = cuns s -> cact s' = upd_nth (cact s) c false -> inactive s' = inactive s ++ [c] ->
  trichx s' v.
Proof.
  intros [A B C D E [F1 [F2 F3]]] Hc L E1 E3 E2 E4.
  assert (Hcm : (c < length (scons s))%nat) by (rewrite <- L; apply act_of_lt; exact Hc).
  assert (Ncv : c <> v) by (intros ->; congruence).
  assert (Ea : forall e, e <> c -> act_of s' e = act_of s e).
  { intros e N. unfold act_of. rewrite E2. apply nth_upd_nth_neq. congruence. }
  assert (Eac : act_of s' c = false).
  { unfold act_of. rewrite E2. apply nth_upd_nth_eq. rewrite L. exact Hcm. }
  assert (Eu : forall e, uns_of s' e = uns_of s e) by (intros; unfold uns_of; rewrite E3; reflexivity).
  assert (Uc : uns_of s c = false) by (destruct (uns_of s c) eqn:U; [exfalso; exact (E c Hc U) | reflexivity]).
  constructor; rewrite ?E1, ?E3, ?E4; try assumption.
  - apply NoDup_app_disjoint; [exact B | constructor; [intros [] | constructor] |].
    intros a Ha [Eq|[]]. subst a. destruct (C _ Ha) as [_ [Q _]]. congruence.
  - intros e He. apply in_app_or in He. destruct He as [He|[<-|[]]].
    + destruct (C e He) as [P [Q [R N]]]. assert (e <> c) by (intros ->; congruence). rewrite (Ea e H), Eu. tauto.
    + rewrite Eu. tauto.
  - intros e He Nev Ha Hu. apply in_or_app. destruct (Nat.eq_dec e c) as [->|N]; [right; left; reflexivity|].
    left. rewrite (Ea e N) in Ha. rewrite Eu in Hu. apply D; assumption.
  - intros e Ha Hu. rewrite Eu in Hu. destruct (Nat.eq_dec e c) as [->|N]; [congruence|]. rewrite (Ea e N) in Ha. exact (E e Ha Hu).
  - rewrite (Ea v (not_eq_sym Ncv)), Eu. tauto.
Qed.
(* same without a constraint in processing (splitBlocks) *)
Lemma trich_split s s' c :
  trich s -> act_of s c = true -> length (cact s) = length (scons s) ->
  scons s' = scons s -> cuns s' = cuns s -> cact s' = upd_nth (cact s) c false -> inactive s' = inactive s ++ [c] ->
  trich s'.
Proof.
  intros [A B C D E] Hc L E1 E3 E2 E4.
  assert (Hcm : (c < length (scons s))%nat) by (rewrite <- L; apply act_of_lt; exact Hc).
  assert (Ea : forall e, e <> c -> act_of s' e = act_of s e).
  { intros e N. unfold act_of. rewrite E2. apply nth_upd_nth_neq. congruence. }
  assert (Eac : act_of s' c = false).
  { unfold act_of. rewrite E2. apply nth_upd_nth_eq. rewrite L. exact Hcm. }
  assert (Eu : forall e, uns_of s' e = uns_of s e) by (intros; unfold uns_of; rewrite E3; reflexivity).
  assert (Uc : uns_of s c = false) by (destruct (uns_of s c) eqn:U; [exfalso; exact (E c Hc U) | reflexivity]).
  constructor; rewrite ?E1, ?E3, ?E4; try assumption.
  - apply NoDup_app_disjoint; [exact B | constructor; [intros [] | constructor] |].
    intros a Ha [Eq|[]]. subst a. destruct (C _ Ha) as [_ [Q _]]. congruence.
  - intros e He. apply in_app_or in He. destruct He as [He|[<-|[]]].
    + destruct (C e He) as [P [Q R]]. assert (e <> c) by (intros ->; congruence). rewrite (Ea e H), Eu. tauto.
    + rewrite Eu. tauto.
  - intros e He Ha Hu. apply in_or_app. destruct (Nat.eq_dec e c) as [->|N]; [right; left; reflexivity|].
    left. rewrite (Ea e N) in Ha. rewrite Eu in Hu. apply D; assumption.
  - intros e Ha Hu. rewrite Eu in Hu. destruct (Nat.eq_dec e c) as [->|N]; [congruence|]. rewrite (Ea e N) in Ha. exact (E e Ha Hu).
Qed.

(* ------------------------------------------------------------------ init / add_constraint / set_desired *)
Lemma nth_repeat_false m c : nth c (repeat false m) false = false.
Proof. revert c. induction m as [|m IH]; intros [|c]; cbn; auto. Qed.

Lemma init_fields vs cs :
  scons (init vs cs) = cs /\ cact (init vs cs) = repeat false (length cs) /\ cuns (init vs cs) = repeat false (length cs) /\
  inactive (init vs cs) = seq 0 (length cs).
Proof.
  rewrite init_unfold. generalize (seq 0 (length vs)) as l.
  set (s0 := mkst vs cs _ _ _ _ _ _ _ _ _).
  assert (H0 : scons s0 = cs /\ cact s0 = repeat false (length cs) /\ cuns s0 = repeat false (length cs) /\
               inactive s0 = seq 0 (length cs)) by (repeat split; reflexivity).
  revert H0. generalize s0. clear s0. intros s0 H0 l. revert s0 H0.
  induction l as [|v l IH]; intros s0 H0; cbn [fold_left]; [exact H0|]. apply IH. exact H0.
Qed.

Theorem init_trich vs cs : trich (init vs cs).
Proof.
  destruct (init_fields vs cs) as [A [B [C D]]].
  constructor; unfold act_of, uns_of; rewrite ?A, ?B, ?C, ?D.
  - apply repeat_length.
  - apply seq_NoDup.
  - intros c Hc. apply in_seq in Hc. rewrite !nth_repeat_false. repeat split; lia.
  - intros c Hc _ _. apply in_seq. lia.
  - intros c Hc. rewrite nth_repeat_false in Hc. discriminate.
Qed.

Theorem add_constraint_trich s k : length (cact s) = length (scons s) -> trich s -> trich (add_constraint s k).
Proof.
  intros L [A B C D E].
  assert (Ea : forall c, act_of (add_constraint s k) c = act_of s c).
  { intros c. unfold act_of. cbn. destruct (Nat.lt_ge_cases c (length (cact s))) as [H|H].
    - apply app_nth1. exact H.
    - rewrite app_nth2 by exact H. rewrite (nth_overflow (cact s)) by exact H.
      destruct (c - length (cact s))%nat as [|[|?]]; reflexivity. }
  assert (Eu : forall c, uns_of (add_constraint s k) c = uns_of s c).
  { intros c. unfold uns_of. cbn. destruct (Nat.lt_ge_cases c (length (cuns s))) as [H|H].
    - apply app_nth1. exact H.
    - rewrite app_nth2 by exact H. rewrite (nth_overflow (cuns s)) by exact H.
      destruct (c - length (cuns s))%nat as [|[|?]]; reflexivity. }
  assert (Am : act_of s (length (scons s)) = false).
  { unfold act_of. apply nth_overflow. rewrite L. lia. }
  assert (Um : uns_of s (length (scons s)) = false).
  { unfold uns_of. apply nth_overflow. rewrite A. lia. }
  constructor; cbn [scons cuns inactive add_constraint set_inactive set_clm set_cuns set_cact set_scons].
  - rewrite !app_length, A. reflexivity.
  - apply NoDup_app_disjoint; [exact B | constructor; [intros [] | constructor] |].
    intros a Ha [<-|[]]. destruct (C _ Ha) as [P _]. lia.
  - intros c Hc. rewrite Ea, Eu, app_length. cbn. apply in_app_or in Hc. destruct Hc as [Hc|[<-|[]]].
    + destruct (C c Hc) as [P [Q R]]. repeat split; [lia | assumption | assumption].
    + repeat split; [lia | assumption | assumption].
  - intros c Hc Ha Hu. rewrite Ea in Ha. rewrite Eu in Hu. rewrite app_length in Hc. cbn in Hc.
    apply in_or_app. destruct (Nat.eq_dec c (length (scons s))) as [->|N]; [right; left; reflexivity|].
    left. apply D; [lia | assumption | assumption].
  - intros c Ha Hu. rewrite Ea in Ha. rewrite Eu in Hu. exact (E c Ha Hu).
Qed.

Theorem set_desired_trich s i d : trich s -> trich (set_desired s i d).
Proof. apply trich_frame; reflexivity. Qed.

(* ------------------------------------------------------------------ the extended order on slacks *)
Lemma lt_inf_irrefl a : lt_inf a a = false.
Proof. destruct a as [x|]; cbn; [|reflexivity]. apply Qltb_false. lra. Qed.
Lemma lt_inf_ge_trans a b c : lt_inf a b = false -> lt_inf c b = true -> lt_inf a c = false.
Proof.
  destruct a as [x|], b as [y|], c as [z|]; cbn; try discriminate; try reflexivity.
  intros H1 H2. qb2p. apply Qltb_false. lra.
Qed.

Lemma slack_lm_only s s' c : lm_only s s' -> slack s' c = slack s c.
Proof. intros [lm [t ->]]. reflexivity. Qed.

(* ------------------------------------------------------------------ mostViolated *)
Definition noeq (s : st) (l : list nat) : Prop := forall c, In c l -> ceq (con_of s c) = false.
Record scan_inv (s0 : st) (pre : list nat) (best : option Q) (mv : option nat) (del : nat) : Prop := {
  si_min : forall c, In c pre -> lt_inf (slack s0 c) best = false;
  si_mv : match mv with
          | None => best = None
          | Some c => (del < length pre)%nat /\ nth del pre O = c /\ best = slack s0 c
          end }.

Lemma mv_scan_spec s0 : forall l pre s idx best mv del best' mv' del' s',
  lm_only s0 s -> idx = length pre -> noeq s0 pre -> scan_inv s0 pre best mv del ->
  mv_scan s l idx best mv del = (best', mv', del', s') ->
  lm_only s0 s' /\
  ((exists pre' c t, pre ++ l = pre' ++ c :: t /\ noeq s0 pre' /\ ceq (con_of s0 c) = true /\
                     mv' = Some c /\ del' = length pre' /\ best' = slack s0 c) \/
   (noeq s0 (pre ++ l) /\ scan_inv s0 (pre ++ l) best' mv' del')).
Proof.
  induction l as [|c t IH]; intros pre s idx best mv del best' mv' del' s' L Hidx NE SI H; cbn [mv_scan] in H.
  - inversion H. subst. split; [exact L|]. right. rewrite app_nil_r. split; assumption.
  - assert (Esl : slack s c = slack s0 c) by (apply slack_lm_only; exact L).
    assert (L1 : lm_only s0 (note_opt s (slack s c) best)) by (apply (lm_only_trans _ s); [exact L | apply lm_only_note_opt]).
    rewrite (lm_only_con _ _ c L) in H.
    destruct (ceq (con_of s0 c)) eqn:EQ.
    + inversion H. subst. split; [exact L1|]. left. exists pre, c, t. repeat split; auto.
    + assert (NE' : noeq s0 (pre ++ [c])).
      { intros x Hx. apply in_app_or in Hx. destruct Hx as [Hx|[<-|[]]]; [apply NE; exact Hx | exact EQ]. }
      assert (Hidx' : S idx = length (pre ++ [c])) by (rewrite app_length; cbn; lia).
      destruct SI as [S1 S2].
      destruct (lt_inf (slack s c) best) eqn:LT.
      * assert (SI' : scan_inv s0 (pre ++ [c]) (slack s c) (Some c) idx).
        { constructor.
          - intros x Hx. rewrite Esl in *. apply in_app_or in Hx. destruct Hx as [Hx|[<-|[]]].
            + apply (lt_inf_ge_trans _ best); [apply S1; exact Hx | exact LT].
            + apply lt_inf_irrefl.
          - rewrite app_length. cbn. split; [lia|]. split; [|exact Esl].
            rewrite app_nth2 by lia. rewrite Hidx, Nat.sub_diag. reflexivity. }
        destruct (IH (pre ++ [c]) _ _ _ _ _ _ _ _ _ L1 Hidx' NE' SI' H) as [A B].
        split; [exact A|]. rewrite <- app_assoc in B. exact B.
      * assert (SI' : scan_inv s0 (pre ++ [c]) best mv del).
        { constructor.
          - intros x Hx. apply in_app_or in Hx. destruct Hx as [Hx|[<-|[]]]; [apply S1; exact Hx | rewrite <- Esl; exact LT].
          - destruct mv as [c0|]; [|exact S2]. destruct S2 as [P [Q R]]. rewrite app_length. cbn.
            split; [lia|]. split; [rewrite app_nth1 by exact P; exact Q | exact R]. }
        destruct (IH (pre ++ [c]) _ _ _ _ _ _ _ _ _ L1 Hidx' NE' SI' H) as [A B].
        split; [exact A|]. rewrite <- app_assoc in B. exact B.
Qed.

(* swap-with-last removal *)
Lemma upd_nth_app {A} (l1 : list A) c l2 v : upd_nth (l1 ++ c :: l2) (length l1) v = l1 ++ v :: l2.
Proof. induction l1 as [|h t IH]; cbn; [reflexivity | rewrite IH; reflexivity]. Qed.

Lemma NoDup_app_disjoint_inv {A} (l l' : list A) a : NoDup (l ++ l') -> In a l -> In a l' -> False.
Proof.
  induction l as [|h t IH]; cbn; intros N H1 H2; [exact H1|].
  inversion N as [|? ? Hn N']. subst. destruct H1 as [->|H1].
  - apply Hn. apply in_or_app. right. exact H2.
  - exact (IH N' H1 H2).
Qed.

Lemma NoDup_app_l {A} (l l' : list A) : NoDup (l ++ l') -> NoDup l.
Proof.
  induction l as [|h t IH]; cbn; intros N; [constructor|]. inversion N as [|? ? Hn N']. subst.
  constructor; [intros H; apply Hn; apply in_or_app; left; exact H | exact (IH N')].
Qed.
Lemma NoDup_app_r {A} (l l' : list A) : NoDup (l ++ l') -> NoDup l'.
Proof. induction l as [|h t IH]; cbn; intros N; [exact N|]. inversion N. auto. Qed.

Lemma remove_swap_last_spec l1 c l2 :
  NoDup (l1 ++ c :: l2) ->
  let l' := remove_swap_last (l1 ++ c :: l2) (length l1) in
  NoDup l' /\ forall x, In x l' <-> (In x (l1 ++ c :: l2) /\ x <> c).
Proof.
  intros ND. unfold remove_swap_last. rewrite upd_nth_app.
  assert (NDc : ~ In c l1 /\ ~ In c l2 /\ NoDup (l1 ++ l2)).
  { apply NoDup_remove in ND. destruct ND as [A B]. rewrite in_app_iff in B. tauto. }
  destruct NDc as [N1 [N2 N12]].
  destruct (exists_last (l := c :: l2)) as [l2' [z Ez]]; [discriminate|].
  rewrite app_length. cbn [length]. replace (length l1 + S (length l2) - 1)%nat with (length l1 + length l2)%nat by lia.
  destruct l2 as [|h2 t2].
  - (* c is the last element *)
    rewrite Nat.add_0_r, app_nth2, Nat.sub_diag by lia. cbn [nth].
    rewrite removelast_app by discriminate. cbn [removelast]. rewrite app_nil_r.
    split; [rewrite app_nil_r in N12; exact N12|].
    intros x. rewrite in_app_iff. cbn [In]. split; [intros H; split; [tauto | intros ->; contradiction] | intuition congruence].
  - destruct (exists_last (l := h2 :: t2)) as [m [z' Ez']]; [discriminate|].
    rewrite Ez' in *. clear Ez'.
    assert (Enth : nth (length l1 + length (m ++ [z'])) (l1 ++ c :: m ++ [z']) O = z').
    { rewrite app_nth2 by lia. replace (length l1 + length (m ++ [z']) - length l1)%nat with (S (length m))
        by (rewrite app_length; cbn; lia).
      change (nth (S (length m)) (c :: m ++ [z']) O) with (nth (length m) (m ++ [z']) O).
      rewrite app_nth2 by lia. rewrite Nat.sub_diag. reflexivity. }
    rewrite Enth.
    replace (l1 ++ z' :: m ++ [z']) with ((l1 ++ z' :: m) ++ [z']) by (rewrite <- app_assoc; reflexivity).
    rewrite removelast_app by discriminate. cbn [removelast]. rewrite app_nil_r.
    assert (Nz : ~ In z' l1 /\ ~ In z' m /\ NoDup (l1 ++ m)).
    { replace (l1 ++ m ++ [z']) with ((l1 ++ m) ++ z' :: []) in N12 by (rewrite <- app_assoc; reflexivity).
      apply NoDup_remove in N12. destruct N12 as [A B]. rewrite app_nil_r in *. rewrite in_app_iff in B. tauto. }
    destruct Nz as [Z1 [Z2 Z12]].
    split.
    + apply NoDup_app_disjoint.
      * exact (NoDup_app_l _ _ Z12).
      * constructor; [exact Z2 | exact (NoDup_app_r _ _ Z12)].
      * intros a Ha [<-|Hb]; [contradiction|].
        exact (NoDup_app_disjoint_inv l1 m a Z12 Ha Hb).
    + intros x. rewrite !in_app_iff. cbn [In]. rewrite in_app_iff. cbn [In].
      assert (Ncz : c <> z') by (intros ->; apply N2; apply in_or_app; right; left; reflexivity).
      split.
      * intros [H|[<-|H]]; (split; [tauto|]); intros ->; try contradiction; try congruence.
        apply N2. apply in_or_app. left. exact H.
      * intros [[H|[<-|[H|[<-|[]]]]] N]; tauto.
Qed.
