(* One pass of Solver::refine's while loop (Vpsc/StaticModel.refine_pass): if the pass returns, every slack is >= 0
   afterwards - provided the state in which the pass calls Blocks::split (if it does) satisfies the premises of
   StaticSplitSecond.static_split_all_sat (`split_ready`; evaluated along the scan by `scan_ready`).  What this leaves of
   `passes_ok`: (i) split_ready at the split (from refine's loop invariant: stationarity of b for findMinLM's multipliers
   on a blk_ok block, forest, the vector lengths after cleanup), (ii) totality (the pass returns). *)
From Adapt Require Import Num.Qaux Vpsc.VpscSpec Vpsc.VpscModel Vpsc.VpscInv Vpsc.VpscFrame Vpsc.VpscWalks Vpsc.VpscForest
  Vpsc.VpscStationary Vpsc.StaticModel Vpsc.StaticFrame Vpsc.StaticInv Vpsc.StaticGeom Vpsc.StaticDag Vpsc.StaticRefine Vpsc.StaticInHeap
  Vpsc.StaticSplitSecond.
Local Open Scope Q_scope.

Definition split_ready (s : sst) (b c : nat) : Prop :=
  book (base s) /\ act_inv (base s) /\ forest (base s) /\ wf_vars (svars (base s)) /\ all_blk_ok (base s) /\
  b = blk_of (base s) (cl (con_of (base s) c)) /\
  stationary_block (base s) (base s) b /\
  T2 s /\ (forall x, (x < length (scons (base s)))%nat -> ctime_of s x = ctr s) /\
  length (ctime s) = length (scons (base s)) /\
  length (bin s) = length (blocks (base s)) /\ length (btime s) = length (blocks (base s)) /\
  (length (blocks (base s)) <= length (bout s))%nat /\
  (forall B, inhabited (base s) B -> exists h, bin_of s B = Some h /\ hgoodC s h /\ hsound s B h /\ hcomplete s B h).

(* split_ready at the state of the scan in which Blocks::split is called, if it is *)
Fixpoint scan_ready (bl : list nat) (s : sst) : Prop :=
  match bl with
  | [] => True
  | b :: t =>
      match find_min_lm (base s) b with
      | Ok (mn, bs) =>
          let s1 := set_base s bs in
          match mn with
          | None => scan_ready t s1
          | Some c =>
              let s2 := snote s1 (lm_of (base s1) c) LAGRANGIAN_TOLERANCE in
              if Qltb (lm_of (base s2) c) LAGRANGIAN_TOLERANCE then split_ready s2 b c else scan_ready t s2
          end
      | _ => True
      end
  end.

Lemma all_sat0_lm_only b b' : lm_only b b' -> all_sat0 b -> all_sat0 b'.
Proof. intros [lm [t ->]] A c Hc. exact (A c Hc). Qed.
Lemma lt_tol_le0 x : Qltb x LAGRANGIAN_TOLERANCE = true -> x <= 0.
Proof. intros Q. apply Qltb_spec in Q. unfold LAGRANGIAN_TOLERANCE in Q. assert (- (1 # 10000) < 0) by reflexivity. lra. Qed.

Theorem refine_scan_all_sat : forall bl s s' d,
  all_sat0 (base s) -> scan_ready bl s -> refine_scan bl s = Ok (s', d) -> all_sat0 (base s').
Proof.
  induction bl as [|b t IH]; intros s s' d A R H; cbn [refine_scan] in H.
  - inversion H. subst. exact A.
  - cbn [scan_ready] in R. apply bind_ok in H. destruct H as [[mn bs] [F H]]. rewrite F in R.
    destruct (find_min_lm_spec _ _ _ _ F) as [LO ACT].
    assert (A1 : all_sat0 (base (set_base s bs))) by (cbn [base set_base]; exact (all_sat0_lm_only _ _ LO A)).
    destruct mn as [c|]; [|exact (IH _ _ _ A1 R H)].
    cbv zeta in R. remember (snote (set_base s bs) (lm_of (base (set_base s bs)) c) LAGRANGIAN_TOLERANCE) as s2 eqn:E2.
    assert (Eb : base s2 = bs) by (rewrite E2, base_snote; reflexivity).
    assert (A2 : all_sat0 (base s2)) by (rewrite Eb; exact A1).
    destruct (Qltb (lm_of (base s2) c) LAGRANGIAN_TOLERANCE) eqn:Q; [|exact (IH _ _ _ A2 R H)].
    apply bind_ok in H. destruct H as [s3 [HS H]]. inversion H. subst s' d. cbn [base set_base].
    destruct R as [R1 [R2 [R3 [R4 [R5 [R6 [R7 [R8 [R9 [R10 [R11 [R12 [R13 R14]]]]]]]]]]]]].
    assert (Hact : act_of (base s2) c = true).
    { rewrite Eb. destruct LO as [lm [t0 ->]]. exact (ACT c eq_refl). }
    destruct (static_split_all_sat s2 b c s3 R1 R2 R3 R4 R5 A2 Hact R6 R7 (lt_tol_le0 _ Q) R8 R9 R10 R11 R12 R13 R14 HS)
      as [C1 _].
    intros k Hk. exact (C1 k Hk).
Qed.

Theorem refine_pass_all_sat s s' d :
  all_sat0 (base s) -> scan_ready (blist (base (setup_all s))) (setup_all s) ->
  refine_pass s = Ok (s', d) -> all_sat0 (base s').
Proof.
  intros A R H. unfold refine_pass in H.
  assert (E : base (setup_all s) = base s).
  { unfold setup_all. apply (fold_left_inv _ (fun x => base x = base s)); [|reflexivity].
    intros x b _ Hx. rewrite !base_set_up_heap. exact Hx. }
  apply (refine_scan_all_sat _ _ _ _ ltac:(rewrite E; exact A) R H).
Qed.
