(* Non-vacuity of StaticSplitStats.split_blk_ok and StaticSplitSign.split_side_shift on the example of StaticInHeapEx.v:
   sz = block 1 = {v0, v1} after findMinLM (lm(c0) = 3), sz' = after Block::split(block 1, c0): l = 3 = {v0}, r = 4 = {v1};
   the left half's optimum is at distance -lm/(2U) = -3/2 from where it was (it moves right: lm > 0 here). *)
From Adapt Require Import Num.Qaux Vpsc.VpscSpec Vpsc.VpscModel Vpsc.VpscInv Vpsc.VpscStationary Vpsc.StaticModel
  Vpsc.StaticGeom Vpsc.StaticSplitMLEx Vpsc.StaticInHeapEx Vpsc.StaticSplitStats Vpsc.StaticSplitSign.
Local Open Scope Q_scope.

Definition sz : st := Eval vm_compute in match find_min_lm (base sy_0) 1 with Ok (_, s) => s | _ => base sy_0 end.
Definition sz' : st := Eval vm_compute in match split sz 1 0 with Ok (s', _, _) => s' | _ => sz end.
Lemma sz_split : split sz 1 0 = Ok (sz', 3%nat, 4%nat). Proof. vm_compute. reflexivity. Qed.
Lemma sz_book : book sz. Proof. book3. Qed.
Lemma sz'_book : book sz'. Proof. book3. Qed.
Lemma sz_stationary : stationary_block sz sz 1.
Proof.
  intros i Hi Bi. three i Hi; try (vm_compute in Bi; discriminate); vm_compute; reflexivity.
Qed.

Example split_blk_ok_example :
  wf_vars (svars sz) /\ split sz 1 0 = Ok (sz', 3%nat, 4%nat) /\ blk_ok sz' 3 /\ blk_ok sz' 4.
Proof.
  split; [exact sx_wfv|]. split; [exact sz_split|].
  destruct (split_blk_ok sz 1 0 sz' 3 4 sx_wfv sz_split) as [A [B _]]. split; assumption.
Qed.

Example split_side_shift_example :
  lm_of sz 0 == 3 /\
  bscale (block_of sz 1) * posn (block_of sz 1) - bscale (block_of sz' 3) * posn (block_of sz' 3) ==
  - 1 * lm_of sz 0 / (2 * usum (svars sz) (bvars (block_of sz' 3))).
Proof.
  split; [vm_compute; reflexivity|].
  apply (split_side_shift sz sz' 1 0 3 1 sz_book sx_wfv).
  - vm_compute. lia.
  - vm_compute. reflexivity.
  - exact sz_stationary.
  - reflexivity.
  - reflexivity.
  - exact sz'_book.
  - intros i Hi Bi. three i Hi; try (vm_compute in Bi; discriminate); vm_compute; reflexivity.
  - exists 0%nat. split; [vm_compute; lia | vm_compute; reflexivity].
  - intros k Hk _ Nk. exfalso. apply Nk. cbn in Hk. lia.
  - left. split; [vm_compute; reflexivity|]. split; [vm_compute; discriminate | reflexivity].
  - exact (proj1 (proj2 (proj2 split_blk_ok_example))).
Qed.

(* a block whose active constraint has a NEGATIVE multiplier: the same block with the desired positions pulled apart
   (v0 -> 0, v1 -> 5), repositioned (updateWeightedPosition), findMinLM: lm(c0) = -4; Block::split; the two corollaries *)
Definition sn : st := Eval vm_compute in
  (let s0 := update_weighted_position (set_desired (set_desired (base sy_0) 0 0) 1 5) 1 in
   match find_min_lm s0 1 with Ok (_, s) => s | _ => s0 end).
Definition sn' : st := Eval vm_compute in match split sn 1 0 with Ok (s', _, _) => s' | _ => sn end.
Lemma sn_split : split sn 1 0 = Ok (sn', 3%nat, 4%nat). Proof. vm_compute. reflexivity. Qed.
Lemma sn_wfv : wf_vars (svars sn).
Proof. intros i Hi. cbn [length svars sn] in Hi. destruct i as [|[|[|i]]]; try lia; cbn; split; reflexivity. Qed.
Lemma sn_book : book sn. Proof. book3. Qed.
Lemma sn'_book : book sn'. Proof. book3. Qed.
Lemma sn_stationary : stationary_block sn sn 1.
Proof. intros i Hi Bi. three i Hi; try (vm_compute in Bi; discriminate); vm_compute; reflexivity. Qed.
Lemma sn_lm : lm_of sn 0 == -4. Proof. vm_compute. reflexivity. Qed.
Lemma sn_halves : blk_ok sn' 3 /\ blk_ok sn' 4.
Proof. destruct (split_blk_ok sn 1 0 sn' 3 4 sn_wfv sn_split) as [A [B _]]. split; assumption. Qed.

Example split_left_half_moves_left_example :
  lm_of sn 0 <= 0 /\
  exists dl, 0 <= dl /\ forall u, blk_of sn' u = 3%nat -> (u < length (svars sn))%nat -> Yof sn' u == Yof sn u - dl.
Proof.
  split; [rewrite sn_lm; lra|].
  apply (split_left_half_moves_left sn sn' 1 0 3 1 sn_book sn_wfv).
  - vm_compute. lia.
  - vm_compute. reflexivity.
  - exact sn_stationary.
  - reflexivity.
  - reflexivity.
  - exact sn'_book.
  - intros i Hi Bi. three i Hi; try (vm_compute in Bi; discriminate); vm_compute; reflexivity.
  - exists 0%nat. split; [vm_compute; lia | vm_compute; reflexivity].
  - intros k Hk _ Nk. exfalso. apply Nk. cbn in Hk. lia.
  - left. split; [vm_compute; reflexivity|]. split; [vm_compute; discriminate | reflexivity].
  - exact (proj1 sn_halves).
  - reflexivity.
  - rewrite sn_lm. lra.
Qed.

Example split_right_half_optimum_right_example :
  lm_of sn 0 <= 0 /\
  bscale (block_of sn 1) * posn (block_of sn 1) <= bscale (block_of sn' 4) * posn (block_of sn' 4).
Proof.
  split; [rewrite sn_lm; lra|].
  apply (split_right_half_optimum_right sn sn' 1 0 4 (-1) sn_book sn_wfv).
  - vm_compute. lia.
  - vm_compute. reflexivity.
  - exact sn_stationary.
  - reflexivity.
  - reflexivity.
  - exact sn'_book.
  - intros i Hi Bi. three i Hi; try (vm_compute in Bi; discriminate); vm_compute; reflexivity.
  - exists 1%nat. split; [vm_compute; lia | vm_compute; reflexivity].
  - intros k Hk _ Nk. exfalso. apply Nk. cbn in Hk. lia.
  - right. split; [vm_compute; discriminate|]. split; [vm_compute; reflexivity | reflexivity].
  - exact (proj2 sn_halves).
  - reflexivity.
  - rewrite sn_lm. lra.
Qed.

(* non-vacuity of StaticSplitGlue.split_glue on sn (forest: the block {v0, v1} is the merge of two singletons across c0) *)
From Adapt Require Import Vpsc.VpscForest Vpsc.VpscInvB Vpsc.VpscInvBSpec Vpsc.StaticSplitGlue.
Lemma sn_forest : forest sn.
Proof.
  destruct (init_book sx_vs sx_cs sx_wfc) as [BK0 _].
  assert (F : forest (merge_into (init sx_vs sx_cs) 1 0 0 0)).
  { apply (merge_into_forest (init sx_vs sx_cs) 1 0 0 0 1 0 BK0 (init_forest sx_vs sx_cs sx_wfc));
      try (vm_compute; lia); try (vm_compute; reflexivity); try discriminate. }
  apply (forest_frame (merge_into (init sx_vs sx_cs) 1 0 0 0)); try (vm_compute; reflexivity). exact F.
Qed.

Example split_glue_example :
  book sn /\ act_inv sn /\ forest sn /\ wf_vars (svars sn) /\ act_of sn 0 = true /\
  split sn (blk_of sn (cl (con_of sn 0))) 0 = Ok (sn', 3%nat, 4%nat) /\
  blk_of sn' 0 = 3%nat /\ blk_of sn' 1 = 4%nat.
Proof.
  split; [exact sn_book|]. split; [apply actb_spec; vm_compute; reflexivity|]. split; [exact sn_forest|].
  split; [exact sn_wfv|]. split; [vm_compute; reflexivity|]. split; [exact sn_split|]. split; vm_compute; reflexivity.
Qed.

(* non-vacuity of StaticSplitStats.uwp_blk_ok: the right half r = block 4 of sn' after "r->posn = b->posn" is not at its
   optimum; updateWeightedPosition recomputes it *)
Example uwp_blk_ok_example :
  wf_vars (svars sn') /\ (4 < length (blocks sn'))%nat /\ bvars (block_of sn' 4) <> [] /\ 0 < bscale (block_of sn' 4) /\
  blk_ok (update_weighted_position sn' 4) 4.
Proof.
  assert (W : wf_vars (svars sn')) by exact sn_wfv.
  assert (H1 : (4 < length (blocks sn'))%nat) by (vm_compute; lia).
  assert (H2 : bvars (block_of sn' 4) <> []) by (vm_compute; discriminate).
  assert (H3 : 0 < bscale (block_of sn' 4)) by (vm_compute; reflexivity).
  split; [exact W|]. split; [exact H1|]. split; [exact H2|]. split; [exact H3|].
  exact (proj1 (uwp_blk_ok sn' 4 W H1 H2 H3)).
Qed.
