(* Block statistics of the IncSolver model (C01 "no division by zero / all positions finite", DESIGN 5.1 wf_stats):
   in every reachable state every block ever created is non-empty, has scale > 0, A2 > 0 with
   A2 = sum over its variables of wt * (scale/scl)^2, and posn = (AD - AB) / A2.  Hence every division the solver
   executes (by A2 in addVariable / updateWeightedPosition, by a variable's scale in position / dfdv) has a non-zero
   divisor.  Weights and scales are > 0 by the documented precondition wf_vars. *)
From Adapt Require Import Num.Qaux Vpsc.VpscSpec Vpsc.VpscModel Vpsc.VpscInv Vpsc.VpscFrame Vpsc.VpscWalks Vpsc.VpscInvB
  Vpsc.VpscTrichotomy Vpsc.VpscReach.
Local Open Scope Q_scope.

Fixpoint a2sum (vs : list var) (sc : Q) (V : list nat) : Q :=
  match V with
  | [] => 0
  | v :: t => wt (vget vs v) * (sc / scl (vget vs v)) * (sc / scl (vget vs v)) + a2sum vs sc t
  end.

Definition stat_ok (vs : list var) (B : blkT) : Prop :=
  bvars B <> [] /\ 0 < bscale B /\ 0 < A2 B /\ A2 B == a2sum vs (bscale B) (bvars B) /\
  posn B == (AD B - AB B) / A2 B.
Definition fresh (B : blkT) : Prop := bvars B = [] /\ A2 B == 0.
Definition all_ok (s : st) : Prop :=
  wf_vars (svars s) /\ forall b, (b < length (blocks s))%nat -> stat_ok (svars s) (block_of s b).

(* the boolean statistics check of VpscInvB uses the same sum (written as a fold) *)
Lemma sum_a2_acc s sc V : forall a,
  fold_left (fun acc v => acc + wt (var_of s v) * (sc / scl (var_of s v)) * (sc / scl (var_of s v))) V a == a + a2sum (svars s) sc V.
Proof.
  induction V as [|v t IH]; intros a; cbn [fold_left a2sum]; [lra|]. rewrite IH. unfold var_of. lra.
Qed.
Lemma sum_a2_a2sum s sc V : sum_a2 s sc V == a2sum (svars s) sc V.
Proof. unfold sum_a2. rewrite sum_a2_acc. lra. Qed.

Lemma vget_pos vs v : wf_vars vs -> 0 < wt (vget vs v) /\ 0 < scl (vget vs v).
Proof.
  intros W. destruct (Nat.lt_ge_cases v (length vs)) as [L|L]; [exact (W v L)|].
  unfold vget. rewrite nth_overflow by exact L. cbn. split; reflexivity.
Qed.

Lemma Qdiv_pos a b : 0 < a -> 0 < b -> 0 < a / b.
Proof. intros A B. unfold Qdiv. apply Qmult_lt_0_compat; [exact A | apply Qinv_lt_0_compat; exact B]. Qed.

Lemma term_pos vs sc v : wf_vars vs -> 0 < sc -> 0 < wt (vget vs v) * (sc / scl (vget vs v)) * (sc / scl (vget vs v)).
Proof.
  intros W S. destruct (vget_pos vs v W) as [A B]. pose proof (Qdiv_pos sc _ S B) as D.
  apply Qmult_lt_0_compat; [apply Qmult_lt_0_compat|]; assumption.
Qed.

Lemma a2sum_nonneg vs sc V : wf_vars vs -> 0 < sc -> 0 <= a2sum vs sc V.
Proof.
  intros W S. induction V as [|v t IH]; cbn [a2sum]; [lra|]. pose proof (term_pos vs sc v W S). lra.
Qed.
Lemma a2sum_pos vs sc V : wf_vars vs -> 0 < sc -> V <> [] -> 0 < a2sum vs sc V.
Proof.
  intros W S N. destruct V as [|v t]; [congruence|]. cbn [a2sum].
  pose proof (term_pos vs sc v W S). pose proof (a2sum_nonneg vs sc t W S). lra.
Qed.
Lemma a2sum_app vs sc V v :
  a2sum vs sc (V ++ [v]) == a2sum vs sc V + wt (vget vs v) * (sc / scl (vget vs v)) * (sc / scl (vget vs v)).
Proof. induction V as [|h t IH]; cbn [app a2sum]; [lra | rewrite IH; lra]. Qed.

(* wt and scl are what the sums look at; desired positions may change *)
Lemma a2sum_ext vs vs' sc V :
  (forall v, wt (vget vs' v) = wt (vget vs v) /\ scl (vget vs' v) = scl (vget vs v)) ->
  a2sum vs' sc V = a2sum vs sc V.
Proof.
  intros H. induction V as [|v t IH]; cbn [a2sum]; [reflexivity|]. destruct (H v) as [A B]. rewrite A, B, IH. reflexivity.
Qed.

Lemma all_ok_frame s s' : svars s' = svars s -> blocks s' = blocks s -> all_ok s -> all_ok s'.
Proof. intros E1 E2 [W H]. unfold all_ok, block_of. rewrite E1, E2. split; assumption. Qed.
Lemma all_ok_lm_only s s' : lm_only s s' -> all_ok s -> all_ok s'.
Proof. intros [lm [t ->]] H. exact H. Qed.

(* ------------------------------------------------------------------ addVariable *)
Lemma add_variable_stat s b v :
  wf_vars (svars s) -> (b < length (blocks s))%nat ->
  (fresh (block_of s b) \/ stat_ok (svars s) (block_of s b)) ->
  stat_ok (svars s) (block_of (add_variable s b v) b).
Proof.
  intros W Hb H. destruct (vget_pos (svars s) v W) as [Pw Ps].
  unfold add_variable, block_of, set_block, set_blocks. cbn [blocks set_vblk]. rewrite nth_upd_nth_eq by exact Hb.
  fold (block_of s b). set (B := block_of s b) in *. unfold stat_ok. cbn [bvars bscale A2 posn AD AB]. unfold var_of.
  set (V := vget (svars s) v) in *.
  split; [destruct (bvars B); discriminate|].
  destruct H as [[F1 F2]|[S1 [S2 [S3 [S4 S5]]]]].
  - assert (E : Qeqb (A2 B) 0 = true) by (apply Qeqb_spec; exact F2). rewrite E.
    rewrite !Qred_correct. rewrite F1. cbn [app a2sum]. fold V.
    assert (D1 : scl V / scl V == 1) by (field; lra).
    split; [exact Ps|]. split; [rewrite F2, D1; lra|]. split; [rewrite F2, D1; lra | reflexivity].
  - assert (E : Qeqb (A2 B) 0 = false) by (apply Qeqb_false; lra). rewrite E.
    rewrite !Qred_correct. rewrite a2sum_app. fold V.
    pose proof (term_pos (svars s) (bscale B) v W S2) as T. fold V in T.
    split; [exact S2|]. split; [lra|]. split; [rewrite S4; lra | reflexivity].
Qed.

Lemma add_variable_other s b v B : B <> b -> block_of (add_variable s b v) B = block_of s B.
Proof.
  intros N. unfold add_variable, block_of, set_block, set_blocks. cbn [blocks set_vblk]. apply nth_upd_nth_neq. congruence.
Qed.
Lemma add_variable_lblocks s b v : length (blocks (add_variable s b v)) = length (blocks s).
Proof. unfold add_variable, set_block, set_blocks. cbn [blocks set_vblk]. apply upd_nth_length. Qed.

Lemma add_variable_all_ok s b v : all_ok s -> all_ok (add_variable s b v).
Proof.
  intros [W H]. split; [exact W|]. intros B HB. rewrite add_variable_lblocks in HB.
  change (svars (add_variable s b v)) with (svars s).
  destruct (Nat.eq_dec B b) as [->|N]; [apply add_variable_stat; [exact W | exact HB | right; apply H; exact HB]|].
  rewrite add_variable_other by exact N. apply H. exact HB.
Qed.

(* ------------------------------------------------------------------ populate into a (possibly fresh) block *)
Definition okf (s : st) (b : nat) : Prop :=
  wf_vars (svars s) /\ (b < length (blocks s))%nat /\
  (forall B, (B < length (blocks s))%nat -> B <> b -> stat_ok (svars s) (block_of s B)) /\
  (fresh (block_of s b) \/ stat_ok (svars s) (block_of s b)).

Lemma all_ok_okf s b : all_ok s -> (b < length (blocks s))%nat -> okf s b.
Proof. intros [W H] Hb. split; [exact W|]. split; [exact Hb|]. split; [intros B HB _; apply H; exact HB | right; apply H; exact Hb]. Qed.

Lemma add_variable_okf s b v : okf s b -> all_ok (add_variable s b v).
Proof.
  intros [W [Hb [Ho Hf]]]. split; [exact W|]. intros B HB. rewrite add_variable_lblocks in HB.
  change (svars (add_variable s b v)) with (svars s).
  destruct (Nat.eq_dec B b) as [->|N]; [apply add_variable_stat; assumption|].
  rewrite add_variable_other by exact N. apply Ho; assumption.
Qed.

Lemma populate_stats : forall fuel this b v u s s',
  populate fuel this b v u s = Ok s' -> okf s b ->
  all_ok s' /\ length (blocks s') = length (blocks s).
Proof.
  induction fuel as [|f IH]; intros this b v u s s' H OK; [discriminate|].
  cbn [populate] in H.
  pose proof (add_variable_okf s b v OK) as A1. destruct OK as [_ [Hb _]].
  set (s1 := add_variable s b v) in *.
  set (I := fun x : st => all_ok x /\ length (blocks x) = length (blocks s)).
  set (gin := fun (s' : st) (c : nat) => if can_follow_left s' this c u
                                          then populate f this b (cl (con_of s' c)) (Some v) s' else Ok s').
  set (gout := fun (s' : st) (c : nat) => if can_follow_right s' this c u
                                           then populate f this b (cr (con_of s' c)) (Some v) s' else Ok s').
  assert (STEP : forall x w x', I x -> populate f this b w (Some v) x = Ok x' -> I x').
  { intros x w x' [Ax Lx] G. destruct (IH _ _ _ _ _ _ G) as [A L]; [apply all_ok_okf; [exact Ax | rewrite Lx; exact Hb]|].
    split; [exact A | congruence]. }
  destruct (fold_bind_inv gout I (outs_of s v)) with
    (acc := fold_left (fun acc c => bind acc (fun x => gin x c)) (ins_of s v) (Ok s1)) (r := s') as [smid [Emid Rout]].
  { intros x c x' _ Ix G. unfold gout in G. destruct (can_follow_right x this c u); [exact (STEP _ _ _ Ix G)|].
    inversion G. subst. exact Ix. }
  { exact H. }
  destruct (fold_bind_inv gin I (ins_of s v)) with (acc := Ok s1) (r := smid) as [s0 [E0 Rin]].
  { intros x c x' _ Ix G. unfold gin in G. destruct (can_follow_left x this c u); [exact (STEP _ _ _ Ix G)|].
    inversion G. subst. exact Ix. }
  { exact Emid. }
  inversion E0. subst s0. apply Rout, Rin. split; [exact A1 | apply add_variable_lblocks].
Qed.

Lemma new_block_okf s : all_ok s -> okf (snd (new_block s)) (fst (new_block s)).
Proof.
  intros [W H]. unfold new_block. cbn [fst snd]. split; [exact W|]. cbn [blocks set_blocks svars].
  split; [rewrite app_length; cbn; lia|]. split.
  - intros B HB N. rewrite app_length in HB. cbn in HB. unfold block_of. cbn [blocks set_blocks].
    rewrite app_nth1 by lia. apply H. lia.
  - left. unfold block_of. cbn [blocks set_blocks]. rewrite app_nth2 by lia. rewrite Nat.sub_diag. cbn. split; reflexivity.
Qed.

Theorem split_all_ok s this c s' l r : all_ok s -> split s this c = Ok (s', l, r) -> all_ok s'.
Proof.
  intros A H. unfold split in H.
  set (s0 := set_cact s (upd_nth (cact s) c false)) in *.
  assert (A0 : all_ok s0) by (apply (all_ok_frame s); [reflexivity | reflexivity | exact A]).
  pose proof (new_block_okf s0 A0) as F1. destruct (new_block s0) as [l0 s1]. cbn [fst snd] in F1.
  apply bind_ok in H. destruct H as [s2 [P1 H]].
  destruct (populate_stats _ _ _ _ _ _ _ P1 F1) as [A2' _].
  pose proof (new_block_okf s2 A2') as F2. destruct (new_block s2) as [r0 s3]. cbn [fst snd] in F2.
  apply bind_ok in H. destruct H as [s4 [P2 H]]. inversion H. subst s4.
  exact (proj1 (populate_stats _ _ _ _ _ _ _ P2 F2)).
Qed.

(* ------------------------------------------------------------------ merge *)
Lemma mstep_all_ok t d s v : all_ok s -> all_ok (mstep t d s v).
Proof.
  intros A. unfold mstep. apply add_variable_all_ok. apply (all_ok_frame s); [reflexivity | reflexivity | exact A].
Qed.
Lemma kill_block_all_ok s b : all_ok s -> all_ok (kill_block s b).
Proof.
  intros [W H]. split; [exact W|]. intros B HB. unfold kill_block, set_block, set_blocks in *. cbn [blocks svars] in *.
  rewrite upd_nth_length in HB. unfold block_of. cbn [blocks].
  destruct (Nat.eq_dec b B) as [->|N].
  - rewrite nth_upd_nth_eq by exact HB. exact (H B HB).
  - rewrite nth_upd_nth_neq by exact N. exact (H B HB).
Qed.
Theorem merge_all_ok s c : all_ok s -> all_ok (fst (merge s c)).
Proof.
  intros A.
  assert (MI : forall t b d, all_ok (merge_into s t b c d)).
  { intros t b d. rewrite merge_into_unfold. apply kill_block_all_ok.
    generalize (bvars (block_of (set_cact s (upd_nth (cact s) c true)) b)) as vars.
    assert (A1 : all_ok (set_cact s (upd_nth (cact s) c true))) by (apply (all_ok_frame s); [reflexivity | reflexivity | exact A]).
    revert A1. generalize (set_cact s (upd_nth (cact s) c true)) as s1. intros s1 A1 vars. revert s1 A1.
    induction vars as [|v vars IH]; intros s1 A1; cbn [fold_left]; [exact A1|]. apply IH. apply mstep_all_ok. exact A1. }
  unfold merge. destruct (Nat.ltb _ _); cbn [fst]; apply MI.
Qed.

(* ------------------------------------------------------------------ updateWeightedPosition *)
Lemma stats_add_fold s : forall V sc ab ad a2,
  exists ab' ad' a2', fold_left (stats_add s) V (sc, ab, ad, a2) = (sc, ab', ad', a2') /\
                      a2' == a2 + a2sum (svars s) sc V.
Proof.
  induction V as [|v t IH]; intros sc ab ad a2; cbn [fold_left].
  - exists ab, ad, a2. split; [reflexivity | cbn; lra].
  - unfold stats_add at 2. cbv zeta.
    destruct (IH sc (Qred (ab + wt (var_of s v) * (sc / scl (var_of s v)) * (off_of s v / scl (var_of s v))))
                 (Qred (ad + wt (var_of s v) * (sc / scl (var_of s v)) * des (var_of s v)))
                 (Qred (a2 + wt (var_of s v) * (sc / scl (var_of s v)) * (sc / scl (var_of s v))))) as [ab' [ad' [a2' [E1 E2]]]].
    exists ab', ad', a2'. split; [exact E1|]. rewrite E2, Qred_correct. cbn [a2sum]. unfold var_of. lra.
Qed.

Theorem uwp_all_ok s b : all_ok s -> all_ok (update_weighted_position s b).
Proof.
  intros [W H]. unfold update_weighted_position.
  destruct (stats_add_fold s (bvars (block_of s b)) (bscale (block_of s b)) 0 0 0) as [ab [ad [a2 [E1 E2]]]].
  rewrite E1. split; [exact W|]. intros B HB. unfold set_block, set_blocks in *. cbn [blocks svars] in *.
  rewrite upd_nth_length in HB. unfold block_of at 1. cbn [blocks].
  destruct (Nat.eq_dec b B) as [->|N]; [|rewrite nth_upd_nth_neq by exact N; exact (H B HB)].
  rewrite nth_upd_nth_eq by exact HB. destruct (H B HB) as [S1 [S2 [S3 [S4 S5]]]].
  unfold stat_ok. cbn [bvars bscale A2 posn AD AB].
  pose proof (a2sum_pos (svars s) _ _ W S2 S1) as P.
  split; [exact S1|]. split; [exact S2|]. split; [lra|]. split; [lra | apply Qred_correct].
Qed.
Theorem move_blocks_all_ok s : all_ok s -> all_ok (move_blocks s).
Proof.
  unfold move_blocks. generalize (blist s) as l. intros l. revert s.
  induction l as [|b l IH]; intros s A; cbn [fold_left]; [exact A|]. apply IH, uwp_all_ok, A.
Qed.

(* ------------------------------------------------------------------ init, add_constraint, set_desired *)
Theorem init_all_ok vs cs : wf_vars vs -> all_ok (init vs cs).
Proof.
  intros W. rewrite init_unfold. generalize (seq 0 (length vs)) as l.
  set (s0 := mkst vs cs _ _ _ _ _ _ _ _ _).
  assert (A0 : all_ok s0) by (split; [exact W | cbn; intros b Hb; lia]).
  revert A0. generalize s0. clear s0. intros s0 A0 l. revert s0 A0.
  induction l as [|v l IH]; intros s0 A0; cbn [fold_left]; [exact A0|]. apply IH.
  unfold init_step. pose proof (new_block_okf s0 A0) as F. destruct (new_block s0) as [b s1]. cbn [fst snd] in F.
  apply (all_ok_frame (add_variable s1 b v)); [reflexivity | reflexivity |]. apply add_variable_okf. exact F.
Qed.
Theorem add_constraint_all_ok s k : all_ok s -> all_ok (add_constraint s k).
Proof. apply all_ok_frame; reflexivity. Qed.
Theorem set_desired_all_ok s i d : all_ok s -> all_ok (set_desired s i d).
Proof.
  intros [W H].
  assert (E : forall v, wt (vget (svars (set_desired s i d)) v) = wt (vget (svars s) v) /\
                        scl (vget (svars (set_desired s i d)) v) = scl (vget (svars s) v)).
  { intros v. unfold set_desired, vget. cbn [svars set_svars]. destruct (Nat.eq_dec i v) as [->|N].
    - destruct (Nat.lt_ge_cases v (length (svars s))) as [L|L].
      + rewrite nth_upd_nth_eq by exact L. cbn. unfold var_of, vget. split; reflexivity.
      + rewrite !nth_overflow; [split; reflexivity | exact L | rewrite upd_nth_length; exact L].
    - rewrite nth_upd_nth_neq by exact N. split; reflexivity. }
  split.
  - intros v Hv. cbn [set_desired svars set_svars] in Hv. rewrite upd_nth_length in Hv.
    destruct (E v) as [E1 E2]. rewrite E1, E2. exact (W v Hv).
  - intros b Hb. change (block_of (set_desired s i d) b) with (block_of s b).
    destruct (H b Hb) as [S1 [S2 [S3 [S4 S5]]]]. unfold stat_ok. rewrite (a2sum_ext (svars s) _ _ _ E). tauto.
Qed.

(* ------------------------------------------------------------------ the remaining walk (frame only, no invariant needed) *)
Lemma split_path_lm_only : forall fuel this r v u m s a,
  split_path fuel this r v u m s = Ok a -> lm_only s (snd a).
Proof.
  induction fuel as [|f IH]; intros this r v u m s a H; [discriminate|].
  cbn [split_path] in H.
  set (I := fun (x : bool * option nat * st) => lm_only s (snd x)).
  set (gin := fun (a : bool * option nat * st) (c : nat) =>
          let '(fnd, m1, s1) := a in
          if fnd then Ok a
          else if can_follow_left s1 this c u then
            if Nat.eqb (cl (con_of s1 c)) r then Ok (true, m1, s1)
            else bind (split_path f this r (cl (con_of s1 c)) (Some v) m1 s1) (fun b =>
                   let '(fnd2, m2, s2) := b in Ok (fnd2, m2, s2))
          else Ok a) in *.
  set (gout := fun (a : bool * option nat * st) (c : nat) =>
          let '(fnd, m1, s1) := a in
          if fnd then Ok a
          else if can_follow_right s1 this c u then
            if Nat.eqb (cr (con_of s1 c)) r
            then Ok (true, (if ceq (con_of s1 c) then m1 else Some c), s1)
            else bind (split_path f this r (cr (con_of s1 c)) (Some v) m1 s1) (fun b =>
                   let '(fnd2, m2, s2) := b in
                   if fnd2 then
                     if ceq (con_of s2 c) then Ok (true, m2, s2)
                     else match m2 with
                          | None => Ok (true, Some c, s2)
                          | Some m0 => let s3 := note s2 (lm_of s2 c) (lm_of s2 m0) in
                                       if Qltb (lm_of s2 c) (lm_of s2 m0) then Ok (true, Some c, s3)
                                       else Ok (true, m2, s3)
                          end
                   else Ok (false, m2, s2))
          else Ok a) in *.
  destruct (fold_bind_inv gout I (outs_of s v)) with
    (acc := fold_left (fun acc c => bind acc (fun x => gin x c)) (ins_of s v) (Ok (false, m, s))) (r := a) as [amid [Emid Rout]].
  { intros [[fnd m1] x] c a' _ Ix G. unfold I in *. cbn [snd] in *. unfold gout in G.
    destruct fnd; [inversion G; subst; exact Ix|].
    destruct (can_follow_right x this c u); [|inversion G; subst; exact Ix].
    destruct (Nat.eqb _ r); [inversion G; subst; exact Ix|].
    apply bind_ok in G. destruct G as [[[fnd2 m2] s2] [G1 G2]].
    pose proof (IH _ _ _ _ _ _ _ G1) as L2. cbn [snd] in L2.
    assert (L02 : lm_only s s2) by (apply (lm_only_trans _ x); assumption).
    destruct fnd2; [|inversion G2; subst; exact L02].
    destruct (ceq (con_of s2 c)); [inversion G2; subst; exact L02|].
    destruct m2 as [m0|]; [|inversion G2; subst; exact L02].
    cbv zeta in G2. destruct (Qltb _ _); inversion G2; subst; cbn [snd];
      (apply (lm_only_trans _ s2); [exact L02 | apply lm_only_note]). }
  { exact H. }
  destruct (fold_bind_inv gin I (ins_of s v)) with (acc := Ok (false, m, s)) (r := amid) as [a0 [E0 Rin]].
  { intros [[fnd m1] x] c a' _ Ix G. unfold I in *. cbn [snd] in *. unfold gin in G.
    destruct fnd; [inversion G; subst; exact Ix|].
    destruct (can_follow_left x this c u); [|inversion G; subst; exact Ix].
    destruct (Nat.eqb _ r); [inversion G; subst; exact Ix|].
    apply bind_ok in G. destruct G as [[[fnd2 m2] s2] [G1 G2]]. inversion G2. subst a'. cbn [snd].
    pose proof (IH _ _ _ _ _ _ _ G1) as L2. cbn [snd] in L2. apply (lm_only_trans _ x); assumption. }
  { exact Emid. }
  inversion E0. subst a0. apply Rout, Rin. apply lm_only_refl.
Qed.

Lemma find_min_lm_between_lm_only s b lv rv m s' : find_min_lm_between s b lv rv = Ok (m, s') -> lm_only s s'.
Proof.
  unfold find_min_lm_between. intros H.
  apply bind_ok in H. destruct H as [s1 [H1 H]].
  apply bind_ok in H. destruct H as [[[d mn2] s2] [H2 H]].
  apply bind_ok in H. destruct H as [[[fnd m3] s3] [H3 H]]. inversion H. subst m3 s3.
  pose proof (reset_active_lm_lm_only _ _ _ _ _ _ H1) as L1.
  destruct (compute_dfdv_spec _ _ _ _ _ _ _ _ _ _ H2) as [L2 _]; [intros c E; discriminate|].
  pose proof (split_path_lm_only _ _ _ _ _ _ _ _ H3) as L3. cbn [snd] in L3.
  apply (lm_only_trans _ s1); [exact L1|]. apply (lm_only_trans _ s2); assumption.
Qed.

(* ------------------------------------------------------------------ the loops *)
Lemma most_violated_all_ok s : all_ok s -> all_ok (snd (most_violated s)).
Proof.
  intros A. unfold most_violated.
  pose proof (mv_scan_fields (inactive s) s O None None (length (inactive s))) as H. cbn zeta in H.
  destruct (mv_scan s (inactive s) 0 None None (length (inactive s))) as [[[best mv] del] s1]. cbn [snd] in H.
  destruct H as [E1 [_ [_ [_ [_ E6]]]]].
  assert (A1 : all_ok s1) by (apply (all_ok_frame s); assumption).
  destruct mv as [c|]; [|exact A1].
  assert (A2' : all_ok (note_opt s1 best (Some ZERO_UPPERBOUND))) by (apply (all_ok_lm_only s1); [apply lm_only_note_opt | exact A1]).
  destruct (_ && _); cbn [snd]; [|exact A2']. apply (all_ok_frame (note_opt s1 best (Some ZERO_UPPERBOUND))); [reflexivity | reflexivity | exact A2'].
Qed.

Theorem satisfy_step_all_ok s b s' : all_ok s -> satisfy_step s = Ok (b, s') -> all_ok s'.
Proof.
  intros A H. unfold satisfy_step in H.
  pose proof (most_violated_all_ok s A) as A1. destruct (most_violated s) as [mv s1]. cbn [snd] in A1.
  destruct mv as [v|]; [|inversion H; subst; exact A1].
  set (s2 := note_opt s1 (slack s1 v) (Some ZERO_UPPERBOUND)) in *.
  assert (A2' : all_ok s2) by (apply (all_ok_lm_only s1); [apply lm_only_note_opt | exact A1]).
  destruct (_ || _); [|inversion H; subst; exact A2'].
  destruct (negb _).
  - inversion H. subst. apply merge_all_ok. exact A2'.
  - apply bind_ok in H. destruct H as [cyc [_ H]]. destruct cyc.
    + inversion H. subst. apply (all_ok_frame s2); [reflexivity | reflexivity | exact A2'].
    + apply bind_ok in H. destruct H as [[sc s3] [FM H]].
      pose proof (all_ok_lm_only _ _ (find_min_lm_between_lm_only _ _ _ _ _ _ FM) A2') as A3.
      destruct sc as [spl|]; [|inversion H; subst; apply (all_ok_frame s3); [reflexivity | reflexivity | exact A3]].
      apply bind_ok in H. destruct H as [[[s4 l] r] [SPL H]].
      pose proof (split_all_ok _ _ _ _ _ _ A3 SPL) as A4.
      set (s5 := kill_block s4 (blk_of s2 (cl (con_of s1 v)))) in *.
      assert (A5 : all_ok s5) by (apply kill_block_all_ok; exact A4).
      set (s6 := set_inactive s5 (inactive s5 ++ [spl])) in *.
      assert (A6 : all_ok s6) by (apply (all_ok_frame s5); [reflexivity | reflexivity | exact A5]).
      set (s7 := note_opt s6 (slack s6 v) (Some 0)) in *.
      assert (A7 : all_ok s7) by (apply (all_ok_lm_only s6); [apply lm_only_note_opt | exact A6]).
      destruct (lt_inf _ _).
      * pose proof (merge_all_ok s7 v A7) as A8. destruct (merge s7 v) as [s8 mb]. cbn [fst] in A8.
        inversion H. subst. apply (all_ok_frame s8); [reflexivity | reflexivity | exact A8].
      * inversion H. subst. apply (all_ok_frame s7); [reflexivity | reflexivity | exact A7].
Qed.

Theorem satisfy_loop_all_ok : forall fuel s s', all_ok s -> satisfy_loop fuel s = Ok s' -> all_ok s'.
Proof.
  induction fuel as [|f IH]; intros s s' A H; [discriminate|].
  cbn [satisfy_loop] in H. apply bind_ok in H. destruct H as [[b s1] [H1 H]]. cbn [fst snd] in H.
  pose proof (satisfy_step_all_ok s b s1 A H1) as A1. destruct b; [exact (IH s1 s' A1 H)|]. inversion H. subst. exact A1.
Qed.

Lemma sb_body_all_ok p b p' : all_ok (fst p) -> sb_body p b = Ok p' -> all_ok (fst p').
Proof.
  destruct p as [s1 cnt]. cbn [fst]. intros A H. unfold sb_body in H.
  apply bind_ok in H. destruct H as [[mn s2] [FM H]].
  destruct (find_min_lm_spec _ _ _ _ FM) as [L12 _].
  pose proof (all_ok_lm_only _ _ L12 A) as A2'.
  destruct mn as [v|]; [|inversion H; subst p'; exact A2'].
  set (s3 := note s2 (lm_of s2 v) LAGRANGIAN_TOLERANCE) in *.
  assert (A3 : all_ok s3) by (apply (all_ok_lm_only s2); [apply lm_only_note | exact A2']).
  destruct (Qltb (lm_of s3 v) LAGRANGIAN_TOLERANCE); [|inversion H; subst p'; exact A3].
  apply bind_ok in H. destruct H as [[[s4 l] r] [SPL H]]. inversion H. subst p'. clear H. cbn [fst].
  pose proof (split_all_ok _ _ _ _ _ _ A3 SPL) as A4.
  set (s5 := update_weighted_position (update_weighted_position s4 l) r).
  assert (A5 : all_ok s5) by (apply uwp_all_ok, uwp_all_ok; exact A4).
  apply (all_ok_frame (kill_block (set_blist s5 (blist s5 ++ [l; r])) (blk_of s3 (cl (con_of s3 v))))); [reflexivity | reflexivity |].
  apply kill_block_all_ok. apply (all_ok_frame s5); [reflexivity | reflexivity | exact A5].
Qed.

Theorem split_blocks_all_ok s p : all_ok s -> split_blocks s = Ok p -> all_ok (fst p).
Proof.
  intros A H. rewrite split_blocks_unfold in H.
  apply bind_ok in H. destruct H as [q [H E]]. inversion E. subst p. cbn [fst].
  apply (all_ok_frame (fst q)); [reflexivity | reflexivity |].
  destruct (fold_bind_inv sb_body (fun p => all_ok (fst p)) (blist (move_blocks s))) with (acc := Ok (move_blocks s, O)) (r := q)
    as [q0 [E0 R]].
  - intros x b x' _ Ix G. exact (sb_body_all_ok x b x' Ix G).
  - exact H.
  - inversion E0. subst q0. apply R. cbn [fst]. apply move_blocks_all_ok. exact A.
Qed.

Theorem inc_satisfy_cnt_all_ok fuel s p : all_ok s -> inc_satisfy_cnt fuel s = Ok p -> all_ok (fst p).
Proof.
  intros A H. unfold inc_satisfy_cnt in H.
  apply bind_ok in H. destruct H as [p1 [H1 H]].
  apply bind_ok in H. destruct H as [s2 [H2 H]].
  apply bind_ok in H. destruct H as [s3 [H3 E]]. inversion E. subst p. cbn [fst].
  apply final_scan_ok in H3. destruct H3 as [-> _].
  apply (all_ok_frame s2); [reflexivity | reflexivity |].
  exact (satisfy_loop_all_ok fuel _ _ (split_blocks_all_ok s p1 A H1) H2).
Qed.

Lemma solve_loop_all_ok fixed fuel sf : forall tries lc c cnt s s',
  all_ok s -> solve_loop fixed fuel sf tries lc c cnt s = Ok s' -> all_ok s'.
Proof.
  induction fuel as [|f IH]; intros tries lc c cnt s s' Hs H; [discriminate|].
  cbn [solve_loop] in H.
  set (s0 := match lc with Some l => note s (Qabs' (l - c)) COST_EPS | None => s end) in *.
  assert (Hs0 : all_ok s0).
  { unfold s0. destruct lc; [apply (all_ok_lm_only s); [apply lm_only_note | exact Hs] | exact Hs]. }
  assert (Again : forall t, bind (inc_satisfy_cnt sf s0)
             (fun p => solve_loop fixed f sf t (Some c) (cost (fst p)) (snd p) (fst p)) = Ok s' -> all_ok s').
  { intros t G. apply bind_ok in G. destruct G as [p [G1 G2]].
    apply (IH _ _ _ _ _ _ (inc_satisfy_cnt_all_ok _ _ _ Hs0 G1) G2). }
  destruct fixed.
  - destruct (_ || _).
    + destruct tries as [|t]; [inversion H; subst; exact Hs0 | exact (Again t H)].
    + inversion H. subst. exact Hs0.
  - destruct (match lc with None => true | Some l => Qltb COST_EPS (Qabs' (l - c)) end).
    + exact (Again tries H).
    + inversion H. subst. exact Hs0.
Qed.

Theorem step_all_ok fuel s o s' : all_ok s -> step fuel s o = Ok s' -> all_ok s'.
Proof.
  intros A H. destruct o as [k|i d| |]; cbn in H.
  - inversion H. subst s'. apply add_constraint_all_ok. exact A.
  - inversion H. subst s'. apply set_desired_all_ok. exact A.
  - unfold inc_solve_gen in H. apply bind_ok in H. destruct H as [p [H1 H]].
    exact (solve_loop_all_ok _ _ _ _ _ _ _ _ _ (inc_satisfy_cnt_all_ok _ _ _ A H1) H).
  - unfold inc_satisfy in H. apply bind_ok in H. destruct H as [p [H E]]. inversion E. subst s'.
    exact (inc_satisfy_cnt_all_ok _ _ _ A H).
Qed.

(* the states reachable from a fresh solver over well-formed variables (weights, scales > 0) *)
Inductive reachable_wf : st -> Prop :=
| rw_init vs cs : wf_vars vs -> wf_cons vs cs -> reachable_wf (init vs cs)
| rw_step s o fuel s' : reachable_wf s -> op_ok s o -> step fuel s o = Ok s' -> reachable_wf s'.

Theorem reachable_wf_reachable s : reachable_wf s -> reachable s.
Proof. induction 1 as [vs cs _ W | s o fuel s' _ IH W H]; [apply reach_init; exact W | exact (reach_step s o fuel s' IH W H)]. Qed.

(* C01 statistics: in every reachable state every block is non-empty with scale > 0, A2 > 0 = sum of wt*(scale/scl)^2,
   posn = (AD-AB)/A2, and all weights / scales are > 0 *)
Theorem reachable_all_ok s : reachable_wf s -> all_ok s.
Proof.
  induction 1 as [vs cs WV _ | s o fuel s' _ IH _ H]; [apply init_all_ok; exact WV | exact (step_all_ok fuel s o s' IH H)].
Qed.

(* the divisors the solver uses are non-zero: A2 after adding a variable, A2 recomputed by updateWeightedPosition,
   and the scale of every variable (position, dfdv, the statistics) *)
Theorem no_division_by_zero s : reachable_wf s ->
  (forall v, 0 < scl (var_of s v) /\ 0 < wt (var_of s v)) /\
  (forall b, (b < length (blocks s))%nat -> 0 < A2 (block_of s b) /\ 0 < bscale (block_of s b)) /\
  (forall b v, (b < length (blocks s))%nat -> 0 < A2 (block_of (add_variable s b v) b)) /\
  (forall b, (b < length (blocks s))%nat -> 0 < A2 (block_of (update_weighted_position s b) b)).
Proof.
  intros R. pose proof (reachable_all_ok s R) as A. pose proof A as [W H].
  split; [intros v; destruct (vget_pos (svars s) v W); split; assumption|].
  split; [intros b Hb; destruct (H b Hb) as [_ [S2 [S3 _]]]; split; assumption|].
  split.
  - intros b v Hb. pose proof (add_variable_all_ok s b v A) as [_ H'].
    rewrite <- (add_variable_lblocks s b v) in Hb. destruct (H' b Hb) as [_ [_ [S3 _]]]. exact S3.
  - intros b Hb. pose proof (uwp_all_ok s b A) as [_ H'].
    assert (L : length (blocks (update_weighted_position s b)) = length (blocks s)).
    { unfold update_weighted_position.
      destruct (fold_left (stats_add s) (bvars (block_of s b)) (bscale (block_of s b), 0, 0, 0)) as [[[sc ab] ad] a2].
      unfold set_block, set_blocks. cbn [blocks]. apply upd_nth_length. }
    rewrite <- L in Hb. destruct (H' b Hb) as [_ [_ [S3 _]]]. exact S3.
Qed.

(* C01_sat_on_return_full for every op history from a fresh solver, no side hypothesis left *)
Theorem sat_on_return_history fuel s o s' :
  reachable_wf s -> run_result o fuel s s' ->
  forall k, (k < length (scons s'))%nat -> uns_of s' k = false ->
    let sl := slackv (svars s') (place_of (final_positions s')) (con_of s' k) in
    ZERO_UPPERBOUND <= sl /\ (act_of s' k = true -> sl == 0) /\ (ceq (con_of s' k) = true -> sl == 0).
Proof.
  intros R RR. apply (sat_on_return_reach fuel s o s' (reachable_wf_reachable s R) RR).
  assert (R' : reachable_wf s').
  { destruct o; cbn in RR; try contradiction; [apply (rw_step s Solve fuel s' R I RR) | apply (rw_step s Satisfy fuel s' R I RR)]. }
  exact (proj1 (reachable_all_ok s' R')).
Qed.
