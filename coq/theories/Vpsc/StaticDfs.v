(* Blocks::totalOrder / dfsVisit (Vpsc/StaticModel.total_order, dfs_visit) on a RANKED constraint graph - every constraint
   goes from a lower to a higher rank, ranks are bounded by the number of variables (what Rect/Scanline.gen_acyclic gives
   for the constraint sets of removeoverlaps) - returns, within its recursion fuel, an order that lists every variable
   exactly once with every constraint going forward (StaticDag.topo_order).  Hence static_no_throw_on_dag applies. *)
From Adapt Require Import Num.Qaux Vpsc.VpscSpec Vpsc.VpscModel Vpsc.VpscInv Vpsc.VpscFrame Vpsc.StaticModel Vpsc.StaticFrame
  Vpsc.StaticInv Vpsc.StaticDag.
Local Open Scope nat_scope.

Lemma NoDup_split_unique {A} (a : A) : forall l1 l2 l1' l2',
  NoDup (l1 ++ a :: l2) -> l1 ++ a :: l2 = l1' ++ a :: l2' -> l1 = l1' /\ l2 = l2'.
Proof.
  induction l1 as [|x t IH]; intros l2 l1' l2' ND E.
  - destruct l1' as [|y t']; cbn [app] in *.
    + injection E as E2. auto.
    + injection E as E1 E2. subst y. inversion ND as [|? ? N _]. subst. exfalso. apply N. rewrite in_app_iff. right. left. reflexivity.
  - destruct l1' as [|y t']; cbn [app] in *.
    + injection E as E1 E2. subst x. inversion ND as [|? ? N _]. subst. exfalso. apply N. rewrite in_app_iff. right. left. reflexivity.
    + injection E as E1 E2. subst y. inversion ND as [|? ? _ ND']. subst. destruct (IH _ _ _ ND' E2) as [-> ->]. auto.
Qed.

Section Dfs.
  Variable s : st.
  Variable rk : nat -> nat.
  Let n := length (svars s).
  Let m := length (scons s).
  Hypothesis W : wf_cons (svars s) (scons s).
  Hypothesis RK : forall c, c < m -> rk (cl (con_of s c)) < rk (cr (con_of s c)).
  Hypothesis RKn : forall v, rk v <= n.

  Definition visd (vis : list bool) (u : nat) : Prop := nth u vis false = true.

  Record dinv (vis : list bool) (ord : list nat) : Prop := {
    d_len : length vis = n;
    d_nd : NoDup ord;
    d_in : forall u, In u ord -> u < n /\ visd vis u;
    d_ord : forall c pre post, c < m -> ord = pre ++ cl (con_of s c) :: post -> In (cr (con_of s c)) post }.

  Lemma ends_lt c : c < m -> cl (con_of s c) < n /\ cr (con_of s c) < n.
  Proof. intros Hc. apply W. unfold con_of. apply nth_In. exact Hc. Qed.

  Lemma visd_upd vis v u : v < length vis -> (visd (upd_nth vis v true) u <-> (u = v \/ visd vis u)).
  Proof.
    intros Hv. unfold visd. destruct (Nat.eq_dec v u) as [->|N].
    - rewrite nth_upd_nth_eq by exact Hv. tauto.
    - rewrite nth_upd_nth_neq by exact N. split; [tauto | intros [X|X]; [congruence | exact X]].
  Qed.

  Definition child_step (f : nat) (a : res (list bool * list nat)) (c : nat) : res (list bool * list nat) :=
    bind a (fun a' => let w := cr (con_of s c) in if nth w (fst a') false then Ok a' else dfs_visit f s w a').

  Definition dpost (v : nat) (vis : list bool) (ord : list nat) (vis' : list bool) (new : list nat) : Prop :=
    dinv vis' (new ++ ord) /\ In v new /\
    (forall u, visd vis u -> visd vis' u) /\ (forall u, visd vis' u -> visd vis u \/ In u new) /\
    (forall u, In u new -> ~ visd vis u /\ (u = v \/ ins_of s u <> [])).

  Lemma dfs_ok : forall f v vis ord,
    dinv vis ord -> v < n -> ~ visd vis v -> (forall u, visd vis u -> In u ord \/ rk u < rk v) -> n - rk v < f ->
    exists vis' new, dfs_visit f s v (vis, ord) = Ok (vis', new ++ ord) /\ dpost v vis ord vis' new.
  Proof.
    induction f as [|f IH]; intros v vis ord D Hv Nv ST Hf; [lia|].
    cbn [dfs_visit fst snd]. fold (child_step f).
    pose proof (d_len _ _ D) as Lv.
    set (vis1 := upd_nth vis v true).
    assert (V1 : forall u, visd vis1 u <-> (u = v \/ visd vis u)) by (intros u; apply visd_upd; lia).
    (* the loop over the out-constraints of v *)
    assert (CH : forall l, (forall c, In c l -> c < m /\ cl (con_of s c) = v) ->
              forall visc newc,
                dinv visc (newc ++ ord) -> ~ In v (newc ++ ord) -> visd visc v ->
                (forall u, visd vis1 u -> visd visc u) -> (forall u, visd visc u -> visd vis1 u \/ In u newc) ->
                (forall u, In u newc -> ~ visd vis1 u /\ ins_of s u <> []) ->
                exists vis' new',
                  fold_left (child_step f) l (Ok (visc, newc ++ ord)) = Ok (vis', new' ++ ord) /\
                  dinv vis' (new' ++ ord) /\ ~ In v (new' ++ ord) /\ visd vis' v /\
                  (forall u, visd vis1 u -> visd vis' u) /\ (forall u, visd vis' u -> visd vis1 u \/ In u new') /\
                  (forall u, In u new' -> ~ visd vis1 u /\ ins_of s u <> []) /\
                  (forall u, In u (newc ++ ord) -> In u (new' ++ ord)) /\
                  (forall c, In c l -> In (cr (con_of s c)) (new' ++ ord))).
    { induction l as [|c l IHl]; intros Hl visc newc Dc NIv Vv M1 M2 M3.
      - exists visc, newc. cbn [fold_left]. split; [reflexivity|]. split; [exact Dc|]. split; [exact NIv|]. split; [exact Vv|].
        split; [exact M1|]. split; [exact M2|]. split; [exact M3|]. split; [auto | intros c []].
      - cbn [fold_left]. unfold child_step at 2. cbn [bind fst].
        destruct (Hl c (or_introl eq_refl)) as [Hc Ecl]. destruct (ends_lt c Hc) as [_ Hw].
        pose proof (RK c Hc) as Rc. rewrite Ecl in Rc. set (w := cr (con_of s c)) in *.
        assert (Hl' : forall c', In c' l -> c' < m /\ cl (con_of s c') = v) by (intros c' H'; apply Hl; right; exact H').
        assert (STc : forall u, visd visc u -> In u (newc ++ ord) \/ rk u < rk w).
        { intros u Hu. destruct (M2 u Hu) as [X|X]; [|left; rewrite in_app_iff; left; exact X].
          apply V1 in X. destruct X as [->|X]; [right; exact Rc|]. destruct (ST u X) as [Y|Y]; [left; rewrite in_app_iff; right; exact Y | right; lia]. }
        destruct (nth w visc false) eqn:Ew.
        + (* already visited: it is finished *)
          assert (Inw : In w (newc ++ ord)).
          { destruct (STc w Ew) as [X|X]; [exact X | lia]. }
          destruct (IHl Hl' visc newc Dc NIv Vv M1 M2 M3) as [vis' [new' [E [A1 [A2 [A3 [A4 [A5 [A6 [A7 A8]]]]]]]]]].
          exists vis', new'. split; [exact E|]. split; [exact A1|]. split; [exact A2|]. split; [exact A3|]. split; [exact A4|].
          split; [exact A5|]. split; [exact A6|]. split; [exact A7|].
          intros c' [<-|H']; [apply A7; exact Inw | apply A8; exact H'].
        + assert (Nw : ~ visd visc w) by (unfold visd; rewrite Ew; discriminate).
          assert (Hfw : n - rk w < f) by (pose proof (RKn w); lia).
          destruct (IH w visc (newc ++ ord) Dc Hw Nw STc Hfw) as [vis2 [new2 [E2 [D2 [I2 [P1 [P2 P3]]]]]]].
          rewrite E2. rewrite app_assoc in *.
          assert (NIv2 : ~ In v ((new2 ++ newc) ++ ord)).
          { rewrite <- app_assoc. rewrite in_app_iff. intros [X|X]; [|exact (NIv X)]. destruct (P3 v X) as [Y _]. exact (Y Vv). }
          destruct (IHl Hl' vis2 (new2 ++ newc) D2 NIv2 (P1 v Vv)) as [vis' [new' [E [A1 [A2 [A3 [A4 [A5 [A6 [A7 A8]]]]]]]]]].
          * intros u Hu. apply P1, M1, Hu.
          * intros u Hu. destruct (P2 u Hu) as [X|X]; [|right; rewrite in_app_iff; left; exact X].
            destruct (M2 u X) as [Y|Y]; [left; exact Y | right; rewrite in_app_iff; right; exact Y].
          * intros u Hu. rewrite in_app_iff in Hu. destruct Hu as [Hu|Hu]; [|exact (M3 u Hu)].
            destruct (P3 u Hu) as [Y1 Y2]. split.
            -- intros X. apply Y1. apply M1. exact X.
            -- destruct Y2 as [->|Y2]; [|exact Y2]. intros E0. pose proof (proj2 (ins_of_In s w c) (conj Hc eq_refl)) as X. fold w in X. rewrite E0 in X. destruct X.
          * exists vis', new'. split; [exact E|]. split; [exact A1|]. split; [exact A2|]. split; [exact A3|]. split; [|split; [exact A5|]].
            { intros u Hu. apply A4. exact Hu. }
            split; [|split].
            -- intros u Hu. destruct (A6 u Hu) as [X Y]. split; assumption.
            -- intros u Hu. apply A7. rewrite <- app_assoc, in_app_iff. right. exact Hu.
            -- intros c' [<-|H']; [|apply A8; exact H']. apply A7. rewrite <- app_assoc, in_app_iff. left. exact I2. }
    assert (D1 : dinv vis1 ([] ++ ord)).
    { cbn [app]. destruct D as [A B C E]. constructor; auto.
      - unfold vis1. rewrite upd_nth_length. exact A.
      - intros u Hu. destruct (C u Hu) as [X Y]. split; [exact X|]. apply V1. right. exact Y. }
    assert (NIv : ~ In v ([] ++ ord)) by (cbn [app]; intros X; apply Nv; exact (proj2 (d_in _ _ D v X))).
    destruct (CH (outs_of s v) (fun c Hc => proj1 (outs_of_In s v c) Hc) vis1 [] D1 NIv (proj2 (V1 v) (or_introl eq_refl)))
      as [vis' [new' [E [A1 [A2 [A3 [A4 [A5 [A6 [A7 A8]]]]]]]]]]; [auto | intros u Hu; left; exact Hu | intros u [] |].
    cbn [app] in E. rewrite E. cbn [bind fst snd].
    exists vis', (v :: new'). split; [reflexivity|].
    split; [|split; [left; reflexivity | split; [|split]]].
    - destruct A1 as [B1 B2 B3 B4]. cbn [app]. constructor.
      + exact B1.
      + constructor; [exact A2 | exact B2].
      + intros u [<-|Hu]; [split; [exact Hv | exact A3] | exact (B3 u Hu)].
      + intros c pre post Hc Epre. destruct pre as [|x pre']; cbn [app] in Epre.
        * injection Epre as X1 X2. rewrite <- X2. apply A8. apply outs_of_In. split; [exact Hc | symmetry; exact X1].
        * injection Epre as X1 X2. exact (B4 c pre' post Hc X2).
    - intros u Hu. apply A4, V1. right. exact Hu.
    - intros u Hu. destruct (A5 u Hu) as [X|X]; [|right; right; exact X]. apply V1 in X. destruct X as [->|X]; [right; left; reflexivity | left; exact X].
    - intros u [<-|Hu]; [split; [exact Nv | left; reflexivity]|]. destruct (A6 u Hu) as [X Y]. split; [|right; exact Y].
      intros Z. apply X, V1. right. exact Z.
  Qed.

  (* the outer loop of totalOrder *)
  Definition root_step (a : res (list bool * list nat)) (v : nat) : res (list bool * list nat) :=
    bind a (fun a' => match ins_of s v with [] => dfs_visit (S n) s v a' | _ => Ok a' end).

  Record tinv (k : nat) (vis : list bool) (ord : list nat) : Prop := {
    t_d : dinv vis ord;
    t_vis : forall u, visd vis u -> In u ord;
    t_src : forall u, In u ord -> ins_of s u <> [] \/ u < k;
    t_root : forall u, u < k -> ins_of s u = [] -> In u ord }.

  Lemma roots_ok : forall k, k <= n ->
    exists vis ord, fold_left root_step (seq 0 k) (Ok (repeat false n, [])) = Ok (vis, ord) /\ tinv k vis ord.
  Proof.
    induction k as [|k IH]; intros Hk.
    - exists (repeat false n), []. split; [reflexivity|]. constructor.
      + constructor; [apply repeat_length | constructor | intros u [] |].
        intros c pre post _ E. destruct pre; discriminate.
      + intros u Hu. exfalso. unfold visd in Hu. revert Hu. generalize n as j. intros j. revert u.
        induction j as [|j IHj]; intros [|u]; cbn; try discriminate. apply IHj.
      + intros u [].
      + intros u Hu. lia.
    - destruct (IH ltac:(lia)) as [vis [ord [E [TD TV TS TR]]]].
      rewrite seq_S, fold_left_app, E. cbn [fold_left plus]. unfold root_step. cbn [bind].
      destruct (ins_of s k) as [|c0 rest] eqn:Ek.
      + assert (Nk : ~ visd vis k).
        { intros X. apply TV in X. destruct (TS k X) as [Y|Y]; [congruence | lia]. }
        destruct (dfs_ok (S n) k vis ord TD ltac:(lia) Nk (fun u Hu => or_introl (TV u Hu)) ltac:(lia))
          as [vis' [new [E' [D' [I' [P1 [P2 P3]]]]]]].
        exists vis', (new ++ ord). split; [exact E'|]. constructor.
        * exact D'.
        * intros u Hu. rewrite in_app_iff. destruct (P2 u Hu) as [X|X]; [right; exact (TV u X) | left; exact X].
        * intros u Hu. rewrite in_app_iff in Hu. destruct Hu as [Hu|Hu].
          -- destruct (P3 u Hu) as [_ [->|Y]]; [right; lia | left; exact Y].
          -- destruct (TS u Hu) as [Y|Y]; [left; exact Y | right; lia].
        * intros u Hu Eu. rewrite in_app_iff. destruct (Nat.eq_dec u k) as [->|N]; [left; exact I'|]. right. apply TR; [lia | exact Eu].
      + exists vis, ord. split; [reflexivity|]. constructor; auto.
        * intros u Hu. destruct (TS u Hu) as [Y|Y]; [left; exact Y | right; lia].
        * intros u Hu Eu. destruct (Nat.eq_dec u k) as [->|N]; [congruence|]. apply TR; [lia | exact Eu].
  Qed.

  Theorem total_order_topo : exists order, total_order s = Ok order /\ topo_order (scons s) order.
  Proof.
    destruct (roots_ok n (le_n _)) as [vis [ord [E [TD TV TS TR]]]].
    unfold total_order. fold n. change (fold_left _ (seq 0 n) (Ok (repeat false n, []))) with (fold_left root_step (seq 0 n) (Ok (repeat false n, []))).
    rewrite E. cbn [bind snd]. exists ord. split; [reflexivity|].
    assert (Cov : forall r u, rk u <= r -> u < n -> In u ord).
    { induction r as [|r IHr]; intros u Hr Hu.
      - destruct (ins_of s u) as [|c rest] eqn:Eu; [apply TR; assumption|].
        assert (Hc : In c (ins_of s u)) by (rewrite Eu; left; reflexivity). apply ins_of_In in Hc. destruct Hc as [Hc Ec].
        pose proof (RK c Hc) as X. rewrite Ec in X. lia.
      - destruct (ins_of s u) as [|c rest] eqn:Eu; [apply TR; assumption|].
        assert (Hc : In c (ins_of s u)) by (rewrite Eu; left; reflexivity). apply ins_of_In in Hc. destruct Hc as [Hc Ec].
        pose proof (RK c Hc) as X. rewrite Ec in X. destruct (ends_lt c Hc) as [Hl _].
        assert (Il : In (cl (con_of s c)) ord) by (apply IHr; [lia | exact Hl]).
        apply in_split in Il. destruct Il as [pre [post Ep]].
        pose proof (d_ord _ _ TD c pre post Hc Ep) as Y. rewrite Ec in Y. rewrite Ep, in_app_iff. right. right. exact Y. }
    split; [exact (d_nd _ _ TD)|]. split.
    - intros c Hc. destruct (ends_lt c Hc) as [_ Hr]. exact (Cov (rk (cr (con_of s c))) _ (le_n _) Hr).
    - intros c pre v post Hc Eo Hr. change (Kc (scons s) c) with (con_of s c) in *.
      destruct (ends_lt c Hc) as [Hl _].
      assert (Il : In (cl (con_of s c)) ord) by exact (Cov (rk (cl (con_of s c))) _ (le_n _) Hl).
      apply in_split in Il. destruct Il as [p1 [p2 Ep]].
      pose proof (d_ord _ _ TD c p1 p2 Hc Ep) as Y.
      pose proof (d_nd _ _ TD) as ND.
      set (a := cl (con_of s c)) in *. set (b := cr (con_of s c)) in *.
      assert (Ia : In a (pre ++ v :: post)) by (rewrite <- Eo, Ep, in_app_iff; right; left; reflexivity).
      rewrite in_app_iff in Ia. destruct Ia as [Ia|[Ia|Ia]]; [exact Ia | |]; exfalso.
      + subst v. rewrite Ep in Eo. rewrite Ep in ND. destruct (NoDup_split_unique a _ _ _ _ ND Eo) as [-> ->].
        destruct Hr as [Hr|Hr].
        * apply (NoDup_app_disj _ _ ND b Hr). right. exact Y.
        * rewrite Hr in Y. apply NoDup_remove_2 in ND. apply ND. rewrite in_app_iff. right. exact Y.
      + apply in_split in Ia. destruct Ia as [q1 [q2 Eq]]. rewrite Eq in Eo.
        assert (Eo' : ord = (pre ++ v :: q1) ++ a :: q2) by (rewrite Eo, <- app_assoc; reflexivity).
        rewrite Ep in Eo'. rewrite Ep in ND. destruct (NoDup_split_unique a _ _ _ _ ND Eo') as [E1 E2]. subst p1 p2.
        rewrite <- app_assoc in ND. cbn [app] in ND.
        destruct Hr as [Hr|Hr].
        * apply (NoDup_app_disj _ _ ND b Hr). right. rewrite in_app_iff. right. right. exact Y.
        * apply NoDup_app_r in ND. apply NoDup_cons_iff in ND. destruct ND as [N _]. apply N. rewrite <- Hr. rewrite in_app_iff. right. right. exact Y.
  Qed.
End Dfs.

Local Open Scope Q_scope.

(* ------------------------------------------------------------------ static_no_throw_on_dag for any topological DFS order *)
Theorem static_no_throw_on_topo vs cs order :
  wf_vars vs -> wf_cons vs cs ->
  total_order (init vs cs) = Ok order -> topo_order cs order ->
  exists s', static_satisfy (static_init vs cs) = Ok s' /\
             forall c, (c < length cs)%nat -> 0 <= slack_val (base s') c.
Proof.
  intros WV W TO TP.
  destruct (init_problem vs cs) as [Iv Ic].
  assert (R : forall u, In u order -> (u < length vs)%nat).
  { pose proof (total_order_range (init vs cs) order) as X. rewrite Iv, Ic in X. specialize (X W TO).
    rewrite Forall_forall in X. exact X. }
  destruct (visit_fold_total cs (length vs) order [] (static_init vs cs) TP R (static_init_PI vs cs WV W) (static_init_LB vs cs)) as [s1 E].
  assert (EM : merge_pass (static_init vs cs) = Ok s1).
  { unfold merge_pass. cbn [static_init base]. rewrite TO. cbn [bind]. exact E. }
  pose proof (merge_pass_all_sat vs cs order s1 WV W TO TP EM) as A.
  unfold static_satisfy. rewrite EM. cbn [bind].
  set (s2 := note_scan (set_base s1 (cleanup (base s1)))).
  assert (E2 : base s2 = cleanup (base s1)) by (unfold s2; rewrite note_scan_base; reflexivity).
  assert (K : keepP (base (static_init vs cs)) (base s1)) by (apply merge_pass_keepP; exact EM).
  destruct K as [_ Kc']. cbn [static_init base] in Kc'. rewrite Ic in Kc'.
  exists s2. split.
  - unfold sfinal_scan. destruct (find _ _) as [c|] eqn:F; [|reflexivity].
    apply find_some in F. destruct F as [Hin Hlt]. apply in_seq in Hin. unfold sslack in Hlt. rewrite E2 in Hin, Hlt.
    apply Qltb_spec in Hlt. change (slack_val (cleanup (base s1)) c) with (slack_val (base s1) c) in Hlt.
    change (length (scons (cleanup (base s1)))) with (length (scons (base s1))) in Hin.
    pose proof (A c (proj2 Hin)) as P. unfold ZERO_UPPERBOUND in Hlt. lra.
  - intros c Hc. rewrite E2. change (slack_val (cleanup (base s1)) c) with (slack_val (base s1) c). apply A. rewrite Kc'. exact Hc.
Qed.

(* ... and for every RANKED constraint graph (no hypothesis about the DFS left): every constraint goes from a lower to a
   higher rank and ranks are bounded by the number of variables *)
Theorem static_no_throw_on_ranked_dag vs cs (rk : nat -> nat) :
  wf_vars vs -> wf_cons vs cs ->
  (forall k, In k cs -> (rk (cl k) < rk (cr k))%nat) -> (forall v, (rk v <= length vs)%nat) ->
  exists s', static_satisfy (static_init vs cs) = Ok s' /\
             forall c, (c < length cs)%nat -> 0 <= slack_val (base s') c.
Proof.
  intros WV W RK RKn. destruct (init_problem vs cs) as [Iv Ic].
  destruct (total_order_topo (init vs cs) rk) as [order [TO TP]].
  - rewrite Iv, Ic. exact W.
  - intros c Hc. apply RK. unfold con_of. rewrite Ic in *. apply nth_In. exact Hc.
  - rewrite Iv. exact RKn.
  - rewrite Ic in TP. exact (static_no_throw_on_topo vs cs order WV W TO TP).
Qed.
