(* The boolean invariants the checks evaluate on the extracted model's states (VpscInvB.v) are the proved ones:
   trichotomyb <-> trich (+ the length of cact), actb <-> act_inv, statsb -> all_ok.  (forestb is an independent
   executable formulation -- #edges + 1 = #vars and connected -- of the inductive `forest`; it is evaluated on every
   run but no equivalence is proved.) *)
From Adapt Require Import Num.Qaux Vpsc.VpscSpec Vpsc.KKT Vpsc.VpscModel Vpsc.VpscInv Vpsc.VpscInvB Vpsc.VpscFrame
  Vpsc.VpscTrichotomy Vpsc.VpscReach Vpsc.VpscStats.
Local Open Scope Q_scope.

Lemma memb_spec x l : memb x l = true <-> In x l.
Proof.
  unfold memb. rewrite existsb_exists. split.
  - intros [y [H E]]. apply Nat.eqb_eq in E. subst. exact H.
  - intros H. exists x. split; [exact H | apply Nat.eqb_refl].
Qed.
Lemma memb_false x l : memb x l = false <-> ~ In x l.
Proof. rewrite <- memb_spec. destruct (memb x l); split; intros H; try congruence; try (exfalso; apply H; reflexivity). Qed.

Lemma nodupb_spec l : nodupb l = true <-> NoDup l.
Proof.
  induction l as [|h t IH]; cbn [nodupb]; [split; [constructor | reflexivity]|].
  rewrite andb_true_iff, negb_true_iff, memb_false, IH. split.
  - intros [A B]. constructor; assumption.
  - intros H. inversion H. tauto.
Qed.

Lemma one_of3_spec a u i :
  one_of3 a u i = true <->
  ((a = true /\ u = false /\ i = false) \/ (a = false /\ u = true /\ i = false) \/ (a = false /\ u = false /\ i = true)).
Proof. destruct a, u, i; cbn; intuition congruence. Qed.

Theorem trichotomyb_spec s :
  trichotomyb s = true <-> (trich s /\ length (cact s) = length (scons s)).
Proof.
  unfold trichotomyb, ncons. rewrite !andb_true_iff, !Nat.eqb_eq, nodupb_spec, !forallb_forall. split.
  - intros [[[[L1 L2] ND] IN] ONE]. split; [|exact L2].
    assert (O : forall c, (c < length (scons s))%nat ->
                  (act_of s c = true /\ uns_of s c = false /\ ~ In c (inactive s)) \/
                  (act_of s c = false /\ uns_of s c = true /\ ~ In c (inactive s)) \/
                  (act_of s c = false /\ uns_of s c = false /\ In c (inactive s))).
    { intros c Hc. specialize (ONE c ltac:(apply in_seq; lia)). apply one_of3_spec in ONE.
      destruct ONE as [[A [B C]]|[[A [B C]]|[A [B C]]]].
      - left. split; [exact A|]. split; [exact B | apply memb_false; exact C].
      - right. left. split; [exact A|]. split; [exact B | apply memb_false; exact C].
      - right. right. split; [exact A|]. split; [exact B | apply memb_spec; exact C]. }
    constructor; try assumption.
    + intros c Hc. assert (Hlt : (c < length (scons s))%nat) by (apply Nat.ltb_lt, IN; exact Hc).
      destruct (O c Hlt) as [[_ [_ N]]|[[_ [_ N]]|[A [B _]]]]; [contradiction | contradiction | tauto].
    + intros c Hc Ha Hu. destruct (O c Hc) as [[A _]|[[_ [B _]]|[_ [_ C]]]]; [congruence | congruence | exact C].
    + intros c Ha Hu. assert (Hlt : (c < length (scons s))%nat) by (rewrite <- L2; apply act_of_lt; exact Ha).
      destruct (O c Hlt) as [[_ [B _]]|[[A _]|[A _]]]; congruence.
  - intros [[A B C D E] L2]. repeat split; try assumption.
    + intros c Hc. apply Nat.ltb_lt. exact (proj1 (C c Hc)).
    + intros c Hc. apply in_seq in Hc. apply one_of3_spec.
      destruct (act_of s c) eqn:Ea, (uns_of s c) eqn:Eu.
      * exfalso. exact (E c Ea Eu).
      * left. repeat split. apply memb_false. intros H. destruct (C c H) as [_ [X _]]. congruence.
      * right. left. repeat split. apply memb_false. intros H. destruct (C c H) as [_ [_ X]]. congruence.
      * right. right. repeat split. apply memb_spec. apply D; [lia | assumption | assumption].
Qed.

Theorem actb_spec s : actb s = true <-> act_inv s.
Proof. exact (act_invb_spec s). Qed.

Theorem statsb_sound s : statsb s = true -> all_ok s.
Proof.
  unfold statsb. rewrite !andb_true_iff, !forallb_forall. intros [[W B] _].
  split; [apply wf_varsb_spec; exact W|].
  intros b Hb. specialize (B (block_of s b) ltac:(unfold block_of; apply nth_In; exact Hb)).
  unfold stat_blockb in B. rewrite !andb_true_iff in B. destruct B as [[[[N S] P] E] Q]. qb2p.
  unfold stat_ok. split; [destruct (bvars (block_of s b)); [discriminate | discriminate]|].
  split; [exact S|]. split; [exact P|]. split; [rewrite E; apply sum_a2_a2sum | exact Q].
Qed.

(* so a state on which the check's evaluation returns true satisfies the proved trichotomy / act_inv / statistics *)
Corollary all_invb_sound s : all_invb s = true -> trich s /\ act_inv s /\ all_ok s.
Proof.
  unfold all_invb. rewrite !andb_true_iff. intros [[[[[_ A] _] T] S] _].
  split; [exact (proj1 (proj1 (trichotomyb_spec s) T))|]. split; [apply actb_spec; exact A | apply statsb_sound; exact S].
Qed.
