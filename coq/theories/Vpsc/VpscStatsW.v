(* Weight-independent part of the block-statistics invariant of VpscStats.v (every block ever created is non-empty, has
   scale > 0, A2 > 0 and posn = (AD - AB) / A2), proved for every step of the IncSolver model INCLUDING the caller-side
   edit of Variable::weight (VpscModelW.set_weight).  The sums themselves (A2 = sum wt*(scale/scl)^2 for the CURRENT
   weights) are stale in deleted blocks after a weight change; for the blocks that own their variables they are part of
   the freshness invariant of VpscFresh.v.  Proof texts follow VpscStats.v. *)
From Adapt Require Import Num.Qaux Vpsc.VpscSpec Vpsc.VpscModel Vpsc.VpscInv Vpsc.VpscFrame Vpsc.VpscWalks Vpsc.VpscInvB
  Vpsc.VpscTrichotomy Vpsc.VpscReach Vpsc.VpscStats Vpsc.VpscModelW Vpsc.VpscWeight.
Local Open Scope Q_scope.

Definition stat_pos (B : blkT) : Prop :=
  bvars B <> [] /\ 0 < bscale B /\ 0 < A2 B /\ posn B == (AD B - AB B) / A2 B.
Definition all_pos (s : st) : Prop :=
  wf_vars (svars s) /\ forall b, (b < length (blocks s))%nat -> stat_pos (block_of s b).

Lemma all_ok_all_pos s : all_ok s -> all_pos s.
Proof. intros [W H]. split; [exact W|]. intros b Hb. destruct (H b Hb) as [S1 [S2 [S3 [_ S5]]]]. repeat split; assumption. Qed.

Lemma all_pos_frame s s' : svars s' = svars s -> blocks s' = blocks s -> all_pos s -> all_pos s'.
Proof. intros E1 E2 [W H]. unfold all_pos, block_of. rewrite E1, E2. split; assumption. Qed.
Lemma all_pos_lm_only s s' : lm_only s s' -> all_pos s -> all_pos s'.
Proof. intros [lm [t ->]] H. exact H. Qed.

(* ------------------------------------------------------------------ addVariable *)
Lemma add_variable_statp s b v :
  wf_vars (svars s) -> (b < length (blocks s))%nat ->
  (VpscStats.fresh (block_of s b) \/ stat_pos (block_of s b)) ->
  stat_pos (block_of (add_variable s b v) b).
Proof.
  intros W Hb H. destruct (vget_pos (svars s) v W) as [Pw Ps].
  unfold add_variable, block_of, set_block, set_blocks. cbn [blocks set_vblk]. rewrite nth_upd_nth_eq by exact Hb.
  fold (block_of s b). set (B := block_of s b) in *. unfold stat_pos. cbn [bvars bscale A2 posn AD AB]. unfold var_of.
  set (V := vget (svars s) v) in *.
  split; [destruct (bvars B); discriminate|].
  destruct H as [[F1 F2]|[S1 [S2 [S3 S5]]]].
  - assert (E : Qeqb (A2 B) 0 = true) by (apply Qeqb_spec; exact F2). rewrite E.
    rewrite !Qred_correct.
    assert (D1 : scl V / scl V == 1) by (field; lra).
    split; [exact Ps|]. split; [rewrite F2, D1; lra | reflexivity].
  - assert (E : Qeqb (A2 B) 0 = false) by (apply Qeqb_false; lra). rewrite E.
    rewrite !Qred_correct.
    pose proof (term_pos (svars s) (bscale B) v W S2) as T. fold V in T.
    split; [exact S2|]. split; [lra | reflexivity].
Qed.

Lemma add_variable_all_pos s b v : all_pos s -> all_pos (add_variable s b v).
Proof.
  intros [W H]. split; [exact W|]. intros B HB. rewrite add_variable_lblocks in HB.
  change (svars (add_variable s b v)) with (svars s).
  destruct (Nat.eq_dec B b) as [->|N]; [apply add_variable_statp; [exact W | exact HB | right; apply H; exact HB]|].
  rewrite add_variable_other by exact N. apply H. exact HB.
Qed.

(* ------------------------------------------------------------------ populate into a (possibly VpscStats.fresh) block *)
Definition okfp (s : st) (b : nat) : Prop :=
  wf_vars (svars s) /\ (b < length (blocks s))%nat /\
  (forall B, (B < length (blocks s))%nat -> B <> b -> stat_pos (block_of s B)) /\
  (VpscStats.fresh (block_of s b) \/ stat_pos (block_of s b)).

Lemma all_pos_okfp s b : all_pos s -> (b < length (blocks s))%nat -> okfp s b.
Proof. intros [W H] Hb. split; [exact W|]. split; [exact Hb|]. split; [intros B HB _; apply H; exact HB | right; apply H; exact Hb]. Qed.

Lemma add_variable_okfp s b v : okfp s b -> all_pos (add_variable s b v).
Proof.
  intros [W [Hb [Ho Hf]]]. split; [exact W|]. intros B HB. rewrite add_variable_lblocks in HB.
  change (svars (add_variable s b v)) with (svars s).
  destruct (Nat.eq_dec B b) as [->|N]; [apply add_variable_statp; assumption|].
  rewrite add_variable_other by exact N. apply Ho; assumption.
Qed.

Lemma populate_statsp : forall fuel this b v u s s',
  populate fuel this b v u s = Ok s' -> okfp s b ->
  all_pos s' /\ length (blocks s') = length (blocks s).
Proof.
  induction fuel as [|f IH]; intros this b v u s s' H OK; [discriminate|].
  cbn [populate] in H.
  pose proof (add_variable_okfp s b v OK) as A1. destruct OK as [_ [Hb _]].
  set (s1 := add_variable s b v) in *.
  set (I := fun x : st => all_pos x /\ length (blocks x) = length (blocks s)).
  set (gin := fun (s' : st) (c : nat) => if can_follow_left s' this c u
                                          then populate f this b (cl (con_of s' c)) (Some v) s' else Ok s').
  set (gout := fun (s' : st) (c : nat) => if can_follow_right s' this c u
                                           then populate f this b (cr (con_of s' c)) (Some v) s' else Ok s').
  assert (STEP : forall x w x', I x -> populate f this b w (Some v) x = Ok x' -> I x').
  { intros x w x' [Ax Lx] G. destruct (IH _ _ _ _ _ _ G) as [A L]; [apply all_pos_okfp; [exact Ax | rewrite Lx; exact Hb]|].
    split; [exact A | congruence]. }
  destruct (fold_bind_inv gout I (outs_of s v)) with
    (acc := fold_left (fun acc c => bind acc (fun x => gin x c)) (ins_of s v) (Ok s1)) (r := s') as [smid [Emid Rout]].
  { intros x c x' _ Ix G. unfold gout in G. destruct (can_follow_right x this c u); [exact (STEP _ _ _ Ix G)|].
    inversion G. subst. exact Ix. }
  { exact H. }
  destruct (fold_bind_inv gin I (ins_of s v)) with (acc := Ok s1) (r := smid) as [s0 [E0 Rin]].
  { intros x c x' _ Ix G. unfold gin in G. destruct (can_follow_left x this c u); [exact (STEP _ _ _ Ix G)|].
    inversion G. subst. exact Ix. }
  { exact Emid. }
  inversion E0. subst s0. apply Rout, Rin. split; [exact A1 | apply add_variable_lblocks].
Qed.

Lemma new_block_okfp s : all_pos s -> okfp (snd (new_block s)) (fst (new_block s)).
Proof.
  intros [W H]. unfold new_block. cbn [fst snd]. split; [exact W|]. cbn [blocks set_blocks svars].
  split; [rewrite app_length; cbn; lia|]. split.
  - intros B HB N. rewrite app_length in HB. cbn in HB. unfold block_of. cbn [blocks set_blocks].
    rewrite app_nth1 by lia. apply H. lia.
  - left. unfold block_of. cbn [blocks set_blocks]. rewrite app_nth2 by lia. rewrite Nat.sub_diag. cbn. split; reflexivity.
Qed.

Theorem split_all_pos s this c s' l r : all_pos s -> split s this c = Ok (s', l, r) -> all_pos s'.
Proof.
  intros A H. unfold split in H.
  set (s0 := set_cact s (upd_nth (cact s) c false)) in *.
  assert (A0 : all_pos s0) by (apply (all_pos_frame s); [reflexivity | reflexivity | exact A]).
  pose proof (new_block_okfp s0 A0) as F1. destruct (new_block s0) as [l0 s1]. cbn [fst snd] in F1.
  apply bind_ok in H. destruct H as [s2 [P1 H]].
  destruct (populate_statsp _ _ _ _ _ _ _ P1 F1) as [A2' _].
  pose proof (new_block_okfp s2 A2') as F2. destruct (new_block s2) as [r0 s3]. cbn [fst snd] in F2.
  apply bind_ok in H. destruct H as [s4 [P2 H]]. inversion H. subst s4.
  exact (proj1 (populate_statsp _ _ _ _ _ _ _ P2 F2)).
Qed.

(* ------------------------------------------------------------------ merge *)
Lemma mstep_all_pos t d s v : all_pos s -> all_pos (mstep t d s v).
Proof.
  intros A. unfold mstep. apply add_variable_all_pos. apply (all_pos_frame s); [reflexivity | reflexivity | exact A].
Qed.
Lemma kill_block_all_pos s b : all_pos s -> all_pos (kill_block s b).
Proof.
  intros [W H]. split; [exact W|]. intros B HB. unfold kill_block, set_block, set_blocks in *. cbn [blocks svars] in *.
  rewrite upd_nth_length in HB. unfold block_of. cbn [blocks].
  destruct (Nat.eq_dec b B) as [->|N].
  - rewrite nth_upd_nth_eq by exact HB. exact (H B HB).
  - rewrite nth_upd_nth_neq by exact N. exact (H B HB).
Qed.
Theorem merge_all_pos s c : all_pos s -> all_pos (fst (merge s c)).
Proof.
  intros A.
  assert (MI : forall t b d, all_pos (merge_into s t b c d)).
  { intros t b d. rewrite merge_into_unfold. apply kill_block_all_pos.
    generalize (bvars (block_of (set_cact s (upd_nth (cact s) c true)) b)) as vars.
    assert (A1 : all_pos (set_cact s (upd_nth (cact s) c true))) by (apply (all_pos_frame s); [reflexivity | reflexivity | exact A]).
    revert A1. generalize (set_cact s (upd_nth (cact s) c true)) as s1. intros s1 A1 vars. revert s1 A1.
    induction vars as [|v vars IH]; intros s1 A1; cbn [fold_left]; [exact A1|]. apply IH. apply mstep_all_pos. exact A1. }
  unfold merge. destruct (Nat.ltb _ _); cbn [fst]; apply MI.
Qed.

(* ------------------------------------------------------------------ updateWeightedPosition *)

Theorem uwp_all_pos s b : all_pos s -> all_pos (update_weighted_position s b).
Proof.
  intros [W H]. unfold update_weighted_position.
  destruct (stats_add_fold s (bvars (block_of s b)) (bscale (block_of s b)) 0 0 0) as [ab [ad [a2 [E1 E2]]]].
  rewrite E1. split; [exact W|]. intros B HB. unfold set_block, set_blocks in *. cbn [blocks svars] in *.
  rewrite upd_nth_length in HB. unfold block_of at 1. cbn [blocks].
  destruct (Nat.eq_dec b B) as [->|N]; [|rewrite nth_upd_nth_neq by exact N; exact (H B HB)].
  rewrite nth_upd_nth_eq by exact HB. destruct (H B HB) as [S1 [S2 [S3 S5]]].
  unfold stat_pos. cbn [bvars bscale A2 posn AD AB].
  pose proof (a2sum_pos (svars s) _ _ W S2 S1) as P.
  split; [exact S1|]. split; [exact S2|]. split; [lra | apply Qred_correct].
Qed.
Theorem move_blocks_all_pos s : all_pos s -> all_pos (move_blocks s).
Proof.
  unfold move_blocks. generalize (blist s) as l. intros l. revert s.
  induction l as [|b l IH]; intros s A; cbn [fold_left]; [exact A|]. apply IH, uwp_all_pos, A.
Qed.

(* ------------------------------------------------------------------ init, add_constraint, set_desired *)
Theorem init_all_pos vs cs : wf_vars vs -> all_pos (init vs cs).
Proof.
  intros W. rewrite init_unfold. generalize (seq 0 (length vs)) as l.
  set (s0 := mkst vs cs _ _ _ _ _ _ _ _ _).
  assert (A0 : all_pos s0) by (split; [exact W | cbn; intros b Hb; lia]).
  revert A0. generalize s0. clear s0. intros s0 A0 l. revert s0 A0.
  induction l as [|v l IH]; intros s0 A0; cbn [fold_left]; [exact A0|]. apply IH.
  unfold init_step. pose proof (new_block_okfp s0 A0) as F. destruct (new_block s0) as [b s1]. cbn [fst snd] in F.
  apply (all_pos_frame (add_variable s1 b v)); [reflexivity | reflexivity |]. apply add_variable_okfp. exact F.
Qed.
Theorem add_constraint_all_pos s k : all_pos s -> all_pos (add_constraint s k).
Proof. apply all_pos_frame; reflexivity. Qed.
Theorem set_desired_all_pos s i d : all_pos s -> all_pos (set_desired s i d).
Proof.
  intros [W H].
  assert (E : forall v, wt (vget (svars (set_desired s i d)) v) = wt (vget (svars s) v) /\
                        scl (vget (svars (set_desired s i d)) v) = scl (vget (svars s) v)).
  { intros v. unfold set_desired, vget. cbn [svars set_svars]. destruct (Nat.eq_dec i v) as [->|N].
    - destruct (Nat.lt_ge_cases v (length (svars s))) as [L|L].
      + rewrite nth_upd_nth_eq by exact L. cbn. unfold var_of, vget. split; reflexivity.
      + rewrite !nth_overflow; [split; reflexivity | exact L | rewrite upd_nth_length; exact L].
    - rewrite nth_upd_nth_neq by exact N. split; reflexivity. }
  split.
  - intros v Hv. cbn [set_desired svars set_svars] in Hv. rewrite upd_nth_length in Hv.
    destruct (E v) as [E1 E2]. rewrite E1, E2. exact (W v Hv).
  - intros b Hb. change (block_of (set_desired s i d) b) with (block_of s b).
    exact (H b Hb).
Qed.

(* ------------------------------------------------------------------ the loops *)
Lemma most_violated_all_pos s : all_pos s -> all_pos (snd (most_violated s)).
Proof.
  intros A. unfold most_violated.
  pose proof (mv_scan_fields (inactive s) s O None None (length (inactive s))) as H. cbn zeta in H.
  destruct (mv_scan s (inactive s) 0 None None (length (inactive s))) as [[[best mv] del] s1]. cbn [snd] in H.
  destruct H as [E1 [_ [_ [_ [_ E6]]]]].
  assert (A1 : all_pos s1) by (apply (all_pos_frame s); assumption).
  destruct mv as [c|]; [|exact A1].
  assert (A2' : all_pos (note_opt s1 best (Some ZERO_UPPERBOUND))) by (apply (all_pos_lm_only s1); [apply lm_only_note_opt | exact A1]).
  destruct (_ && _); cbn [snd]; [|exact A2']. apply (all_pos_frame (note_opt s1 best (Some ZERO_UPPERBOUND))); [reflexivity | reflexivity | exact A2'].
Qed.

Theorem satisfy_step_all_pos s b s' : all_pos s -> satisfy_step s = Ok (b, s') -> all_pos s'.
Proof.
  intros A H. unfold satisfy_step in H.
  pose proof (most_violated_all_pos s A) as A1. destruct (most_violated s) as [mv s1]. cbn [snd] in A1.
  destruct mv as [v|]; [|inversion H; subst; exact A1].
  set (s2 := note_opt s1 (slack s1 v) (Some ZERO_UPPERBOUND)) in *.
  assert (A2' : all_pos s2) by (apply (all_pos_lm_only s1); [apply lm_only_note_opt | exact A1]).
  destruct (_ || _); [|inversion H; subst; exact A2'].
  destruct (negb _).
  - inversion H. subst. apply merge_all_pos. exact A2'.
  - apply bind_ok in H. destruct H as [cyc [_ H]]. destruct cyc.
    + inversion H. subst. apply (all_pos_frame s2); [reflexivity | reflexivity | exact A2'].
    + apply bind_ok in H. destruct H as [[sc s3] [FM H]].
      pose proof (all_pos_lm_only _ _ (find_min_lm_between_lm_only _ _ _ _ _ _ FM) A2') as A3.
      destruct sc as [spl|]; [|inversion H; subst; apply (all_pos_frame s3); [reflexivity | reflexivity | exact A3]].
      apply bind_ok in H. destruct H as [[[s4 l] r] [SPL H]].
      pose proof (split_all_pos _ _ _ _ _ _ A3 SPL) as A4.
      set (s5 := kill_block s4 (blk_of s2 (cl (con_of s1 v)))) in *.
      assert (A5 : all_pos s5) by (apply kill_block_all_pos; exact A4).
      set (s6 := set_inactive s5 (inactive s5 ++ [spl])) in *.
      assert (A6 : all_pos s6) by (apply (all_pos_frame s5); [reflexivity | reflexivity | exact A5]).
      set (s7 := note_opt s6 (slack s6 v) (Some 0)) in *.
      assert (A7 : all_pos s7) by (apply (all_pos_lm_only s6); [apply lm_only_note_opt | exact A6]).
      destruct (lt_inf _ _).
      * pose proof (merge_all_pos s7 v A7) as A8. destruct (merge s7 v) as [s8 mb]. cbn [fst] in A8.
        inversion H. subst. apply (all_pos_frame s8); [reflexivity | reflexivity | exact A8].
      * inversion H. subst. apply (all_pos_frame s7); [reflexivity | reflexivity | exact A7].
Qed.

Theorem satisfy_loop_all_pos : forall fuel s s', all_pos s -> satisfy_loop fuel s = Ok s' -> all_pos s'.
Proof.
  induction fuel as [|f IH]; intros s s' A H; [discriminate|].
  cbn [satisfy_loop] in H. apply bind_ok in H. destruct H as [[b s1] [H1 H]]. cbn [fst snd] in H.
  pose proof (satisfy_step_all_pos s b s1 A H1) as A1. destruct b; [exact (IH s1 s' A1 H)|]. inversion H. subst. exact A1.
Qed.

Lemma sb_body_all_pos p b p' : all_pos (fst p) -> sb_body p b = Ok p' -> all_pos (fst p').
Proof.
  destruct p as [s1 cnt]. cbn [fst]. intros A H. unfold sb_body in H.
  apply bind_ok in H. destruct H as [[mn s2] [FM H]].
  destruct (find_min_lm_spec _ _ _ _ FM) as [L12 _].
  pose proof (all_pos_lm_only _ _ L12 A) as A2'.
  destruct mn as [v|]; [|inversion H; subst p'; exact A2'].
  set (s3 := note s2 (lm_of s2 v) LAGRANGIAN_TOLERANCE) in *.
  assert (A3 : all_pos s3) by (apply (all_pos_lm_only s2); [apply lm_only_note | exact A2']).
  destruct (Qltb (lm_of s3 v) LAGRANGIAN_TOLERANCE); [|inversion H; subst p'; exact A3].
  apply bind_ok in H. destruct H as [[[s4 l] r] [SPL H]]. inversion H. subst p'. clear H. cbn [fst].
  pose proof (split_all_pos _ _ _ _ _ _ A3 SPL) as A4.
  set (s5 := update_weighted_position (update_weighted_position s4 l) r).
  assert (A5 : all_pos s5) by (apply uwp_all_pos, uwp_all_pos; exact A4).
  apply (all_pos_frame (kill_block (set_blist s5 (blist s5 ++ [l; r])) (blk_of s3 (cl (con_of s3 v))))); [reflexivity | reflexivity |].
  apply kill_block_all_pos. apply (all_pos_frame s5); [reflexivity | reflexivity | exact A5].
Qed.

Theorem split_blocks_all_pos s p : all_pos s -> split_blocks s = Ok p -> all_pos (fst p).
Proof.
  intros A H. rewrite split_blocks_unfold in H.
  apply bind_ok in H. destruct H as [q [H E]]. inversion E. subst p. cbn [fst].
  apply (all_pos_frame (fst q)); [reflexivity | reflexivity |].
  destruct (fold_bind_inv sb_body (fun p => all_pos (fst p)) (blist (move_blocks s))) with (acc := Ok (move_blocks s, O)) (r := q)
    as [q0 [E0 R]].
  - intros x b x' _ Ix G. exact (sb_body_all_pos x b x' Ix G).
  - exact H.
  - inversion E0. subst q0. apply R. cbn [fst]. apply move_blocks_all_pos. exact A.
Qed.

Theorem inc_satisfy_cnt_all_pos fuel s p : all_pos s -> inc_satisfy_cnt fuel s = Ok p -> all_pos (fst p).
Proof.
  intros A H. unfold inc_satisfy_cnt in H.
  apply bind_ok in H. destruct H as [p1 [H1 H]].
  apply bind_ok in H. destruct H as [s2 [H2 H]].
  apply bind_ok in H. destruct H as [s3 [H3 E]]. inversion E. subst p. cbn [fst].
  apply final_scan_ok in H3. destruct H3 as [-> _].
  apply (all_pos_frame s2); [reflexivity | reflexivity |].
  exact (satisfy_loop_all_pos fuel _ _ (split_blocks_all_pos s p1 A H1) H2).
Qed.

Lemma solve_loop_all_pos fixed fuel sf : forall tries lc c cnt s s',
  all_pos s -> solve_loop fixed fuel sf tries lc c cnt s = Ok s' -> all_pos s'.
Proof.
  induction fuel as [|f IH]; intros tries lc c cnt s s' Hs H; [discriminate|].
  cbn [solve_loop] in H.
  set (s0 := match lc with Some l => note s (Qabs' (l - c)) COST_EPS | None => s end) in *.
  assert (Hs0 : all_pos s0).
  { unfold s0. destruct lc; [apply (all_pos_lm_only s); [apply lm_only_note | exact Hs] | exact Hs]. }
  assert (Again : forall t, bind (inc_satisfy_cnt sf s0)
             (fun p => solve_loop fixed f sf t (Some c) (cost (fst p)) (snd p) (fst p)) = Ok s' -> all_pos s').
  { intros t G. apply bind_ok in G. destruct G as [p [G1 G2]].
    apply (IH _ _ _ _ _ _ (inc_satisfy_cnt_all_pos _ _ _ Hs0 G1) G2). }
  destruct fixed.
  - destruct (_ || _).
    + destruct tries as [|t]; [inversion H; subst; exact Hs0 | exact (Again t H)].
    + inversion H. subst. exact Hs0.
  - destruct (match lc with None => true | Some l => Qltb COST_EPS (Qabs' (l - c)) end).
    + exact (Again tries H).
    + inversion H. subst. exact Hs0.
Qed.

Theorem step_all_pos fuel s o s' : all_pos s -> step fuel s o = Ok s' -> all_pos s'.
Proof.
  intros A H. destruct o as [k|i d| |]; cbn in H.
  - inversion H. subst s'. apply add_constraint_all_pos. exact A.
  - inversion H. subst s'. apply set_desired_all_pos. exact A.
  - unfold inc_solve_gen in H. apply bind_ok in H. destruct H as [p [H1 H]].
    exact (solve_loop_all_pos _ _ _ _ _ _ _ _ _ (inc_satisfy_cnt_all_pos _ _ _ A H1) H).
  - unfold inc_satisfy in H. apply bind_ok in H. destruct H as [p [H E]]. inversion E. subst s'.
    exact (inc_satisfy_cnt_all_pos _ _ _ A H).
Qed.


(* ------------------------------------------------------------------ the weight edit and histories over the five ops *)
Theorem set_weight_all_pos s i w : 0 < w -> all_pos s -> all_pos (set_weight s i w).
Proof.
  intros Hw [W H]. split; [apply set_weight_wf_vars; assumption|].
  intros b Hb. change (block_of (set_weight s i w) b) with (block_of s b). exact (H b Hb).
Qed.

Theorem step_w_all_pos fuel s o s' : all_pos s -> opw_ok s o -> step_w fuel s o = Ok s' -> all_pos s'.
Proof.
  intros A W H. destruct o as [o'|i w]; cbn in H.
  - exact (step_all_pos fuel s o' s' A H).
  - inversion H. subst s'. apply set_weight_all_pos; assumption.
Qed.

(* histories from a fresh solver over well-formed variables, weight edits included *)
Inductive reachable_ww : st -> Prop :=
| rww_init vs cs : wf_vars vs -> wf_cons vs cs -> reachable_ww (init vs cs)
| rww_step s o fuel s' : reachable_ww s -> opw_ok s o -> step_w fuel s o = Ok s' -> reachable_ww s'.

Theorem reachable_ww_w s : reachable_ww s -> reachable_w s.
Proof. induction 1 as [vs cs _ W | s o fuel s' _ IH W H]; [apply reachw_init; exact W | exact (reachw_step s o fuel s' IH W H)]. Qed.
Theorem reachable_wf_ww s : reachable_wf s -> reachable_ww s.
Proof.
  induction 1 as [vs cs WV W | s o fuel s' _ IH W H]; [apply rww_init; assumption|].
  exact (rww_step s (Base o) fuel s' IH W H).
Qed.
Theorem reachable_ww_all_pos s : reachable_ww s -> all_pos s.
Proof.
  induction 1 as [vs cs WV _ | s o fuel s' _ IH W H]; [apply init_all_pos; exact WV | exact (step_w_all_pos fuel s o s' IH W H)].
Qed.
