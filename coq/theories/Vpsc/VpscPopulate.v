(* Block::populateSplitBlock (model: VpscModel.populate) characterised on ARBITRARY constraint graphs.
   `populate fuel this b v u s` moves variables from block `this` into block `b` (a variable still pointing at `this`
   is "unvisited", so the walk is a depth-first search with visited marks).  Proved for every returned state:
   - frame: only vblk and block b change; a variable either keeps its block or moves from `this` to `b`;
   - block b's variable list stays duplicate-free and is exactly the set of variables pointing at b;
   - closure: every active constraint at a moved variable leads to a variable that is no longer in `this`
     (or is the constraint back to the caller's variable u at the root);
   - soundness: every moved variable lies in every set containing v that is closed under the active constraints
     inside `this`. *)
From Adapt Require Import Num.Qaux Vpsc.VpscSpec Vpsc.VpscModel Vpsc.VpscInv Vpsc.VpscFrame.
Local Open Scope Q_scope.

Section Pop.
Variables (this b : nat).
Hypothesis Hne : this <> b.

Record pop_pre (s : st) : Prop := {
  pp_b : (b < length (blocks s))%nat;
  pp_lv : length (vblk s) = length (svars s);
  pp_cons : wf_cons (svars s) (scons s);
  pp_nodup : NoDup (bvars (block_of s b));
  pp_mem : forall w, In w (bvars (block_of s b)) <-> ((w < length (svars s))%nat /\ blk_of s w = b) }.

Record pop_rel (s s' : st) : Prop := {
  pr_svars : svars s' = svars s;
  pr_scons : scons s' = scons s;
  pr_voff : voff s' = voff s;
  pr_cact : cact s' = cact s;
  pr_cuns : cuns s' = cuns s;
  pr_clm : clm s' = clm s;
  pr_blist : blist s' = blist s;
  pr_inactive : inactive s' = inactive s;
  pr_lblocks : length (blocks s') = length (blocks s);
  pr_lvblk : length (vblk s') = length (vblk s);
  pr_blk : forall w, blk_of s' w = blk_of s w \/ (blk_of s w = this /\ blk_of s' w = b);
  pr_other : forall B, B <> b -> block_of s' B = block_of s B;
  pr_dead : dead (block_of s' b) = dead (block_of s b) }.

Lemma pop_rel_refl s : pop_rel s s.
Proof. constructor; auto. Qed.

Lemma pop_rel_trans s1 s2 s3 : pop_rel s1 s2 -> pop_rel s2 s3 -> pop_rel s1 s3.
Proof.
  intros A B. destruct A, B. constructor; try congruence.
  - intros w. destruct (pr_blk0 w) as [E|[E1 E2]], (pr_blk1 w) as [F|[F1 F2]].
    + left. congruence.
    + right. split; congruence.
    + right. split; congruence.
    + exfalso. congruence.
  - intros B HB. rewrite pr_other1, pr_other0; auto.
Qed.

Lemma pop_rel_con s s' e : pop_rel s s' -> con_of s' e = con_of s e.
Proof. intros R. unfold con_of. rewrite (pr_scons _ _ R). reflexivity. Qed.
Lemma pop_rel_act s s' e : pop_rel s s' -> act_of s' e = act_of s e.
Proof. intros R. unfold act_of. rewrite (pr_cact _ _ R). reflexivity. Qed.
Lemma pop_rel_nt s s' z : pop_rel s s' -> blk_of s z <> this -> blk_of s' z <> this.
Proof. intros R H. destruct (pr_blk _ _ R z) as [E|[E _]]; congruence. Qed.
Lemma pop_rel_this_back s s' z : pop_rel s s' -> blk_of s' z = this -> blk_of s z = this.
Proof. intros R H. destruct (pr_blk _ _ R z) as [E|[_ E]]; congruence. Qed.
Lemma pop_rel_b_stays s s' z : pop_rel s s' -> blk_of s z = b -> blk_of s' z = b.
Proof. intros R H. destruct (pr_blk _ _ R z) as [E|[E _]]; congruence. Qed.

(* one variable joins block b *)
Lemma add_variable_pop s v :
  pop_pre s -> (v < length (svars s))%nat -> blk_of s v = this ->
  pop_pre (add_variable s b v) /\ pop_rel s (add_variable s b v) /\ blk_of (add_variable s b v) v = b /\
  (forall w, w <> v -> blk_of (add_variable s b v) w = blk_of s w).
Proof.
  intros [P1 P2 P3 P4 P5] Hv Hb.
  assert (Bv : blk_of (add_variable s b v) v = b).
  { unfold add_variable, blk_of. cbn [vblk set_vblk]. apply nth_upd_nth_eq. rewrite P2. exact Hv. }
  assert (Bw : forall w, w <> v -> blk_of (add_variable s b v) w = blk_of s w).
  { intros w Hw. unfold add_variable, blk_of. cbn [vblk set_vblk]. apply nth_upd_nth_neq. congruence. }
  assert (Vb : bvars (block_of (add_variable s b v) b) = bvars (block_of s b) ++ [v]).
  { unfold add_variable, block_of, set_block, set_blocks. cbn [blocks set_vblk]. rewrite nth_upd_nth_eq by exact P1. reflexivity. }
  split; [|split; [|split; [exact Bv | exact Bw]]].
  - constructor.
    + unfold add_variable, set_block, set_blocks. cbn [blocks set_vblk]. rewrite upd_nth_length. exact P1.
    + unfold add_variable. cbn [vblk set_vblk svars set_block set_blocks]. rewrite upd_nth_length. exact P2.
    + exact P3.
    + rewrite Vb. apply NoDup_app_disjoint; [exact P4 | constructor; [intros [] | constructor] |].
      intros a Ha [<-|[]]. apply P5 in Ha. destruct Ha as [_ Ha]. congruence.
    + intros w. rewrite Vb, in_app_iff, P5. cbn [In].
      change (length (svars (add_variable s b v))) with (length (svars s)).
      destruct (Nat.eq_dec w v) as [->|N].
      * rewrite Bv. intuition.
      * rewrite (Bw w N). intuition congruence.
  - constructor; try reflexivity.
    + unfold add_variable, set_block, set_blocks. cbn [blocks set_vblk]. apply upd_nth_length.
    + unfold add_variable. cbn [vblk set_vblk]. apply upd_nth_length.
    + intros w. destruct (Nat.eq_dec w v) as [->|N]; [right; split; assumption | left; apply Bw; exact N].
    + intros B HB. unfold add_variable, block_of, set_block, set_blocks. cbn [blocks set_vblk].
      apply nth_upd_nth_neq. congruence.
    + unfold add_variable, block_of, set_block, set_blocks. cbn [blocks set_vblk].
      rewrite nth_upd_nth_eq by exact P1. reflexivity.
Qed.

(* e joins w and y *)
Definition inc (s : st) (e w y : nat) : Prop :=
  (cl (con_of s e) = w /\ cr (con_of s e) = y) \/ (cr (con_of s e) = w /\ cl (con_of s e) = y).
(* S respects the active constraints inside `this` *)
Definition closedS (s : st) (S : nat -> Prop) : Prop :=
  forall e, (e < length (scons s))%nat -> act_of s e = true ->
    blk_of s (cl (con_of s e)) = this -> blk_of s (cr (con_of s e)) = this ->
    (S (cl (con_of s e)) <-> S (cr (con_of s e))).

Definition pop_closure (s s' : st) (v : nat) (u : option nat) : Prop :=
  forall w, blk_of s w = this -> blk_of s' w = b ->
  forall e, (e < length (scons s))%nat -> act_of s e = true ->
  forall y, inc s e w y -> blk_of s' y <> this \/ (w = v /\ u = Some y).
Definition pop_sound (s s' : st) (v : nat) : Prop :=
  forall S : nat -> Prop, S v -> closedS s S ->
  forall w, blk_of s w = this -> blk_of s' w = b -> S w.

Lemma closedS_rel s x S : pop_rel s x -> closedS s S -> closedS x S.
Proof.
  intros R C e He Ha Hl Hr. rewrite (pop_rel_con _ _ e R) in *. rewrite (pr_scons _ _ R) in He.
  rewrite (pop_rel_act _ _ e R) in Ha.
  apply (C e He Ha); eapply pop_rel_this_back; eassumption.
Qed.

(* the loop invariant of the two folds inside populate; s = state at entry, s1 = after addVariable(v) *)
Record pop_I (s s1 : st) (v : nat) (x : st) : Prop := {
  pi_pre : pop_pre x;
  pi_rel : pop_rel s1 x;
  pi_clo : forall w, w <> v -> blk_of s w = this -> blk_of x w = b ->
           forall e, (e < length (scons s))%nat -> act_of s e = true ->
           forall y, inc s e w y -> blk_of x y <> this;
  pi_snd : forall S : nat -> Prop, S v -> closedS s S ->
           forall w, blk_of s w = this -> blk_of x w = b -> S w }.

Theorem populate_spec : forall fuel v u s s',
  populate fuel this b v u s = Ok s' ->
  pop_pre s -> (v < length (svars s))%nat -> blk_of s v = this ->
  pop_pre s' /\ pop_rel s s' /\ blk_of s' v = b /\ pop_closure s s' v u /\ pop_sound s s' v.
Proof.
  induction fuel as [|f IH]; intros v u s s' H PRE Hv Hbv; [discriminate|].
  cbn [populate] in H.
  destruct (add_variable_pop s v PRE Hv Hbv) as [PRE1 [R01 [Bv1 Bw1]]].
  set (s1 := add_variable s b v) in *.
  (* one step of either loop: follow constraint e to its other end y0, or skip it *)
  assert (STEP : forall (x x' : st) (e y0 : nat) (follow : bool),
             (e < length (scons s))%nat -> inc s e v y0 ->
             (follow = true -> blk_of x y0 = this /\ act_of s e = true) ->
             (follow = false -> blk_of x y0 <> this \/ act_of s e = false \/ u = Some y0) ->
             pop_I s s1 v x ->
             (if follow then populate f this b y0 (Some v) x else Ok x) = Ok x' ->
             pop_I s s1 v x' /\ pop_rel x x' /\ (act_of s e = true -> blk_of x' y0 <> this \/ u = Some y0)).
  { intros x x' e y0 follow He Hinc Ft Ff [I1 I2 I3 I4] G.
    assert (R0x : pop_rel s x) by (apply (pop_rel_trans _ s1); assumption).
    destruct follow.
    - destruct (Ft eq_refl) as [By0 Ae].
      assert (Hy0 : (y0 < length (svars x))%nat).
      { rewrite (pr_svars _ _ R0x).
        assert (Hin : In (con_of s e) (scons s)) by (unfold con_of; apply nth_In; exact He).
        destruct (pp_cons _ PRE _ Hin) as [A1 A2]. destruct Hinc as [[_ <-]|[_ <-]]; assumption. }
      destruct (IH y0 (Some v) x x' G I1 Hy0 By0) as [J1 [J2 [J3 [J4 J5]]]].
      assert (R1x' : pop_rel s1 x') by (apply (pop_rel_trans _ x); assumption).
      assert (Bvx' : blk_of x' v = b) by (apply (pop_rel_b_stays s1); assumption).
      split; [|split; [exact J2 | intros _; left; congruence]].
      constructor; [exact J1 | exact R1x' | |].
      + intros w Hwv Hsw Hxw e' He' Ae' y Hinc'.
        destruct (pr_blk _ _ J2 w) as [E|[E1 E2]].
        * apply (pop_rel_nt x); [exact J2|]. apply (I3 w Hwv Hsw) with (e := e'); try assumption. congruence.
        * assert (He'x : (e' < length (scons x))%nat) by (rewrite (pr_scons _ _ R0x); exact He').
          assert (Ae'x : act_of x e' = true) by (rewrite (pop_rel_act _ _ e' R0x); exact Ae').
          assert (Hinc'x : inc x e' w y) by (unfold inc; rewrite (pop_rel_con _ _ e' R0x); exact Hinc').
          destruct (J4 w E1 E2 e' He'x Ae'x y Hinc'x) as [N|[_ N]]; [exact N|].
          inversion N. subst y. congruence.
      + intros S Sv CS w Hsw Hxw.
        destruct (pr_blk _ _ J2 w) as [E|[E1 E2]].
        * apply (I4 S Sv CS w Hsw). congruence.
        * apply (J5 S); [| apply (closedS_rel s); assumption | exact E1 | exact E2].
          assert (Bsy0 : blk_of s y0 = this) by (apply (pop_rel_this_back s x); assumption).
          destruct Hinc as [[E3 E4]|[E3 E4]].
          -- rewrite <- E4. apply (CS e He Ae); rewrite ?E3, ?E4; auto.
          -- rewrite <- E4. apply (CS e He Ae); rewrite ?E3, ?E4; auto.
    - inversion G. subst x'. split; [constructor; assumption | split; [apply pop_rel_refl|]].
      intros Ae. destruct (Ff eq_refl) as [N|[N|N]]; [left; exact N | congruence | right; exact N]. }
  (* the initial invariant *)
  assert (I0 : pop_I s s1 v s1).
  { constructor; [exact PRE1 | apply pop_rel_refl | |].
    - intros w Hwv Hsw Hxw. exfalso. rewrite (Bw1 w Hwv) in Hxw. congruence.
    - intros S Sv _ w Hsw Hxw. destruct (Nat.eq_dec w v) as [->|N]; [exact Sv|].
      exfalso. rewrite (Bw1 w N) in Hxw. congruence. }
  (* second loop (outs) *)
  set (Qin := fun (e : nat) (x : st) => act_of s e = true -> blk_of x (cl (con_of s e)) <> this \/ u = Some (cl (con_of s e))).
  set (Qout := fun (e : nat) (x : st) => act_of s e = true -> blk_of x (cr (con_of s e)) <> this \/ u = Some (cr (con_of s e))).
  set (gin := fun (s' : st) (c : nat) => if can_follow_left s' this c u
                                          then populate f this b (cl (con_of s' c)) (Some v) s' else Ok s').
  set (gout := fun (s' : st) (c : nat) => if can_follow_right s' this c u
                                           then populate f this b (cr (con_of s' c)) (Some v) s' else Ok s').
  assert (STEPin : forall x e x', In e (ins_of s v) -> pop_I s s1 v x -> gin x e = Ok x' ->
                     pop_I s s1 v x' /\ pop_rel x x' /\ Qin e x').
  { intros x e x' He Ix G. apply ins_of_In in He. destruct He as [He Hr].
    assert (R0x : pop_rel s x) by (apply (pop_rel_trans _ s1); [exact R01 | exact (pi_rel _ _ _ _ Ix)]).
    unfold gin in G. rewrite (pop_rel_con _ _ e R0x) in G.
    apply (STEP x x' e (cl (con_of s e)) (can_follow_left x this e u)); try assumption.
    - right. split; [exact Hr | reflexivity].
    - intros T. apply can_follow_left_true in T. rewrite (pop_rel_con _ _ e R0x), (pop_rel_act _ _ e R0x) in T. tauto.
    - intros T. apply can_follow_left_false in T. rewrite (pop_rel_con _ _ e R0x), (pop_rel_act _ _ e R0x) in T. exact T. }
  assert (STEPout : forall x e x', In e (outs_of s v) -> pop_I s s1 v x -> gout x e = Ok x' ->
                     pop_I s s1 v x' /\ pop_rel x x' /\ Qout e x').
  { intros x e x' He Ix G. apply outs_of_In in He. destruct He as [He Hl].
    assert (R0x : pop_rel s x) by (apply (pop_rel_trans _ s1); [exact R01 | exact (pi_rel _ _ _ _ Ix)]).
    unfold gout in G. rewrite (pop_rel_con _ _ e R0x) in G.
    apply (STEP x x' e (cr (con_of s e)) (can_follow_right x this e u)); try assumption.
    - left. split; [exact Hl | reflexivity].
    - intros T. apply can_follow_right_true in T. rewrite (pop_rel_con _ _ e R0x), (pop_rel_act _ _ e R0x) in T. tauto.
    - intros T. apply can_follow_right_false in T. rewrite (pop_rel_con _ _ e R0x), (pop_rel_act _ _ e R0x) in T. exact T. }
  assert (QinStable : forall e x x', pop_rel x x' -> Qin e x -> Qin e x').
  { intros e x x' R Q A. destruct (Q A) as [N|N]; [left; exact (pop_rel_nt _ _ _ R N) | right; exact N]. }
  assert (QoutStable : forall e x x', pop_rel x x' -> Qout e x -> Qout e x').
  { intros e x x' R Q A. destruct (Q A) as [N|N]; [left; exact (pop_rel_nt _ _ _ R N) | right; exact N]. }
  (* run the two folds *)
  destruct (fold_bind_inv2 gout (fun x => pop_I s s1 v x /\ forall e, In e (ins_of s v) -> Qin e x) Qout (outs_of s v))
    with (acc := fold_left (fun acc c => bind acc (fun x => gin x c)) (ins_of s v) (Ok s1)) (r := s') as [smid [Emid Rout]].
  { intros x e x' He [Ix Qx] G. destruct (STEPout x e x' He Ix G) as [A [B C]].
    split; [split; [exact A|]|exact C]. intros e' He'. apply (QinStable e' x x' B). exact (Qx e' He'). }
  { intros a e x x' He [Ix _] Qa G. destruct (STEPout x e x' He Ix G) as [_ [B _]]. exact (QoutStable a x x' B Qa). }
  { exact H. }
  destruct (fold_bind_inv2 gin (pop_I s s1 v) Qin (ins_of s v)) with (acc := Ok s1) (r := smid) as [s1' [E1 Rin]].
  { intros x e x' He Ix G. destruct (STEPin x e x' He Ix G) as [A [B C]]. split; assumption. }
  { intros a e x x' He Ix Qa G. destruct (STEPin x e x' He Ix G) as [_ [B _]]. exact (QinStable a x x' B Qa). }
  { exact Emid. }
  inversion E1. subst s1'. clear E1.
  destruct (Rin I0) as [Imid Qmid]. destruct (Rout (conj Imid Qmid)) as [[Ifin Qinfin] Qoutfin].
  destruct Ifin as [F1 F2 F3 F4].
  assert (R0f : pop_rel s s') by (apply (pop_rel_trans _ s1); assumption).
  split; [exact F1|]. split; [exact R0f|]. split; [apply (pop_rel_b_stays s1); assumption|]. split.
  - intros w Hsw Hxw e He Ae y Hinc.
    destruct (Nat.eq_dec w v) as [->|N].
    + destruct Hinc as [[E3 E4]|[E3 E4]].
      * assert (Hin : In e (outs_of s v)) by (apply outs_of_In; split; assumption).
        destruct (Qoutfin e Hin Ae) as [Q|Q]; rewrite E4 in Q; [left; exact Q | right; split; [reflexivity | exact Q]].
      * assert (Hin : In e (ins_of s v)) by (apply ins_of_In; split; assumption).
        destruct (Qinfin e Hin Ae) as [Q|Q]; rewrite E4 in Q; [left; exact Q | right; split; [reflexivity | exact Q]].
    + left. exact (F3 w N Hsw Hxw e He Ae y Hinc).
  - exact F4.
Qed.

End Pop.
