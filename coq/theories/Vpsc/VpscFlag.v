(* C01_flag_sound for the IncSolver model (inequality-only systems).
   The model flags a constraint v = (l, r, gap) unsatisfiable at two sites of satisfy_step (solve_VPSC.cpp:263-297):
     site 1: both ends in one block and Block::isActiveDirectedPathBetween(r, l)  (is_active_directed_path_between);
     site 2: Block::splitBetween found no split constraint (findMinLMBetween threw UnsatisfiableException; the
             `splitConstraint == nullptr` branch is the same event in the model: find_min_lm_between returns None).
   Proved here, for every state satisfying the invariant `inv` (VpscReach.v) over variables with scales > 0:
   - site 1 is SOUND: is_active_directed_path_between is sound (and complete) for directed paths of active constraints;
     active constraints are tight, so offset(l) - offset(r) = the total gap of the path; v is violated, so the closed
     walk  l -v-> r -path-> l  has positive total gap: no placement satisfies all constraints (with the closed walk as an
     explicit witness accepted by Feas.closed_walk_ok);
   - site 2 is UNREACHABLE when no constraint is an equality: split_path(r, l) walks the tree path from l to r and
     leaves m = nullptr only if every constraint on it is traversed against its direction, i.e. the tree path is a
     directed path r -> l, which site 1 has already excluded; and the walk always finds r because the active
     constraints of the block form a spanning tree (forest invariant);
   - hence in every state reachable by an inequality-only history a flagged constraint implies infeasibility
     (flag_sound_reachable), and on return "nothing flagged and every constraint holds to 1e-10" or "something flagged
     and the system is infeasible" (flagged_iff_infeasible_on_return). *)
From Adapt Require Import Num.Qaux Vpsc.VpscSpec Vpsc.Feas Vpsc.KKT Vpsc.VpscModel Vpsc.VpscInv Vpsc.VpscFrame Vpsc.VpscTree
  Vpsc.VpscPopulate Vpsc.VpscForest Vpsc.VpscWalks Vpsc.VpscTrichotomy Vpsc.VpscReach Vpsc.VpscInvB Vpsc.VpscStats.
Local Open Scope Q_scope.

(* ------------------------------------------------------------------ directed paths of active constraints *)
Inductive dpath (s : st) : nat -> nat -> list nat -> Prop :=
| dp_nil v : dpath s v v []
| dp_cons u c v p :
    (c < length (scons s))%nat -> cl (con_of s c) = u -> act_of s c = true ->
    dpath s (cr (con_of s c)) v p -> dpath s u v (c :: p).

Lemma dpath_snoc s u w p c :
  dpath s u w p -> (c < length (scons s))%nat -> cl (con_of s c) = w -> act_of s c = true ->
  dpath s u (cr (con_of s c)) (p ++ [c]).
Proof.
  induction 1 as [v | u c0 v p H1 H2 H3 H IH]; intros Hc Hl Ha; cbn [app].
  - apply dp_cons; try assumption. apply dp_nil.
  - apply dp_cons; try assumption. apply IH; assumption.
Qed.

Lemma dpath_lm_only s s' u v p : lm_only s s' -> dpath s u v p -> dpath s' u v p.
Proof. intros [lm [t ->]] H. induction H; [apply dp_nil | apply dp_cons; assumption]. Qed.

Fixpoint gsum (s : st) (p : list nat) : Q :=
  match p with [] => 0 | c :: t => gap (con_of s c) + gsum s t end.

(* tightness along the path: the offsets differ by the total gap *)
Lemma dpath_offsets s u v p : act_inv s -> dpath s u v p -> off_of s v - off_of s u == gsum s p.
Proof.
  intros AI. induction 1 as [v | u c v p H1 H2 H3 H IH]; cbn [gsum]; [lra|].
  destruct (AI c H3) as [_ T]. unfold tight_off in T. rewrite H2 in T. lra.
Qed.

(* every placement satisfying the constraints of the path is stretched by at least the total gap *)
Lemma dpath_pot s u v p x :
  dpath s u v p -> feasible (svars s) (scons s) x ->
  pot_of (svars s) x u + gsum s p <= pot_of (svars s) x v.
Proof.
  intros D F. induction D as [v | u c v p H1 H2 H3 H IH]; cbn [gsum]; [lra|].
  assert (Hin : In (con_of s c) (scons s)) by (unfold con_of; apply nth_In; exact H1).
  pose proof (F _ Hin) as Hc. unfold holds, slackv in Hc. unfold pot_of in *. rewrite <- H2.
  destruct (ceq (con_of s c)); lra.
Qed.

(* ------------------------------------------------------------------ isActiveDirectedPathBetween: sound and complete *)
Definition adpb_step (f : nat) (s : st) (this v : nat) (acc : res bool) (c : nat) : res bool :=
  bind acc (fun fnd =>
    if fnd then Ok true
    else if can_follow_right s this c None
         then is_active_directed_path_between f s this (cr (con_of s c)) v
         else Ok false).

Lemma adpb_fold_true f s this v : forall l acc,
  fold_left (adpb_step f s this v) l acc = Ok true ->
  acc = Ok true \/
  exists c, In c l /\ can_follow_right s this c None = true /\
            is_active_directed_path_between f s this (cr (con_of s c)) v = Ok true.
Proof.
  induction l as [|a t IH]; intros acc H; cbn [fold_left] in H; [left; exact H|].
  destruct (IH _ H) as [E | [c [Hc [F R]]]].
  - unfold adpb_step in E. apply bind_ok in E. destruct E as [fnd [E1 E2]].
    destruct fnd; [left; exact E1|].
    destruct (can_follow_right s this a None) eqn:CF; [|discriminate].
    right. exists a. split; [left; reflexivity|]. split; assumption.
  - right. exists c. split; [right; exact Hc|]. split; assumption.
Qed.

Lemma adpb_fold_false f s this v : forall l acc,
  fold_left (adpb_step f s this v) l acc = Ok false ->
  acc = Ok false /\
  forall c, In c l -> can_follow_right s this c None = true ->
            is_active_directed_path_between f s this (cr (con_of s c)) v = Ok false.
Proof.
  induction l as [|a t IH]; intros acc H; cbn [fold_left] in H; [split; [exact H | intros c []]|].
  destruct (IH _ H) as [E R].
  unfold adpb_step in E. apply bind_ok in E. destruct E as [fnd [E1 E2]].
  destruct fnd; [discriminate|]. split; [exact E1|].
  intros c [<-|Hc] CF; [|exact (R c Hc CF)]. rewrite CF in E2. exact E2.
Qed.

Lemma adpb_unfold f s this u v :
  is_active_directed_path_between (S f) s this u v =
  if Nat.eqb u v then Ok true else fold_left (adpb_step f s this v) (outs_of s u) (Ok false).
Proof. reflexivity. Qed.

Theorem adpb_sound s this : forall fuel u v,
  is_active_directed_path_between fuel s this u v = Ok true -> exists p, dpath s u v p.
Proof.
  induction fuel as [|f IH]; intros u v H; [discriminate|].
  rewrite adpb_unfold in H. destruct (Nat.eqb u v) eqn:E.
  - apply Nat.eqb_eq in E. subst v. exists []. apply dp_nil.
  - apply adpb_fold_true in H. destruct H as [H | [c [Hc [CF R]]]]; [discriminate|].
    apply outs_of_In in Hc. destruct Hc as [Hc Hl].
    apply can_follow_right_true in CF. destruct CF as [_ [Ha _]].
    destruct (IH _ _ R) as [p D]. exists (c :: p). apply dp_cons; assumption.
Qed.

Theorem adpb_complete s this : act_inv s -> forall fuel u v,
  is_active_directed_path_between fuel s this u v = Ok false ->
  blk_of s u = this -> forall p, ~ dpath s u v p.
Proof.
  intros AI. induction fuel as [|f IH]; intros u v H Hb p D; [discriminate|].
  rewrite adpb_unfold in H. destruct (Nat.eqb u v) eqn:E; [discriminate|].
  apply adpb_fold_false in H. destruct H as [_ R].
  inversion D as [v0 | u0 c v0 p0 H1 H2 H3 H4]; subst.
  - rewrite Nat.eqb_refl in E. discriminate.
  - destruct (AI c H3) as [Sb _].
    assert (CF : can_follow_right s (blk_of s (cl (con_of s c))) c None = true).
    { apply can_follow_right_true. split; [symmetry; exact Sb|]. split; [exact H3 | discriminate]. }
    assert (Hin : In c (outs_of s (cl (con_of s c)))) by (apply outs_of_In; split; [exact H1 | reflexivity]).
    exact (IH _ _ (R c Hin CF) (eq_sym Sb) p0 H4).
Qed.

(* ------------------------------------------------------------------ site 1: a violated constraint closing a directed
   active path is a positive cycle *)
Definition infeasible (s : st) : Prop := forall x, ~ feasible (svars s) (scons s) x.

Lemma scaled_position s i :
  ~ scl (var_of s i) == 0 ->
  scl (var_of s i) * position s i ==
  bscale (block_of s (blk_of s i)) * posn (block_of s (blk_of s i)) + off_of s i.
Proof. intros N. unfold position. rewrite Qred_correct. field. exact N. Qed.

(* the slack of a constraint inside one block is the difference of the offsets minus the gap *)
Lemma slack_val_same_block s c :
  blk_of s (cl (con_of s c)) = blk_of s (cr (con_of s c)) ->
  ~ scl (var_of s (cl (con_of s c))) == 0 -> ~ scl (var_of s (cr (con_of s c))) == 0 ->
  slack_val s c == off_of s (cr (con_of s c)) - gap (con_of s c) - off_of s (cl (con_of s c)).
Proof.
  intros Sb Nl Nr. unfold slack_val. rewrite Qred_correct.
  rewrite (scaled_position s _ Nl), (scaled_position s _ Nr), Sb. ring.
Qed.

Theorem directed_path_flag_infeasible s v p :
  act_inv s -> (v < length (scons s))%nat ->
  blk_of s (cl (con_of s v)) = blk_of s (cr (con_of s v)) ->
  ~ scl (var_of s (cl (con_of s v))) == 0 -> ~ scl (var_of s (cr (con_of s v))) == 0 ->
  slack_val s v < 0 ->
  dpath s (cr (con_of s v)) (cl (con_of s v)) p ->
  0 < gap (con_of s v) + gsum s p /\ infeasible s.
Proof.
  intros AI Hv Sb Nl Nr Viol D.
  pose proof (dpath_offsets s _ _ p AI D) as O.
  rewrite (slack_val_same_block s v Sb Nl Nr) in Viol.
  assert (Pos : 0 < gap (con_of s v) + gsum s p) by lra.
  split; [exact Pos|]. intros x F.
  pose proof (dpath_pot s _ _ p x D F) as B.
  assert (Hin : In (con_of s v) (scons s)) by (unfold con_of; apply nth_In; exact Hv).
  pose proof (F _ Hin) as Hc. unfold holds, slackv in Hc. unfold pot_of in B.
  destruct (ceq (con_of s v)); lra.
Qed.

(* the same conclusion through the verified oracle of Feas.v: the closed walk is accepted by closed_walk_ok *)
Definition edge_of (s : st) (c : nat) : edge := mkedge (cl (con_of s c)) (cr (con_of s c)) (gap (con_of s c)).
Definition walk_of (s : st) (p : list nat) : list edge := map (edge_of s) p.

Lemma edge_eqb_refl e : edge_eqb e e = true.
Proof. unfold edge_eqb. rewrite !Nat.eqb_refl. cbn. apply Qeqb_spec. reflexivity. Qed.

Lemma mem_edge_of s c : (c < length (scons s))%nat -> mem_edge (edges_of (scons s)) (edge_of s c) = true.
Proof.
  intros Hc. unfold mem_edge. apply existsb_exists. exists (edge_of s c). split; [|apply edge_eqb_refl].
  unfold edges_of. apply in_flat_map. exists (con_of s c). split; [unfold con_of; apply nth_In; exact Hc|].
  unfold edges_of_con, edge_of. destruct (ceq (con_of s c)); left; reflexivity.
Qed.

Lemma dpath_chain s u v p : dpath s u v p -> chain u (walk_of s p) = Some v.
Proof.
  induction 1 as [v | u c v p H1 H2 H3 H IH]; cbn [walk_of map chain]; [reflexivity|].
  cbn [edge_of efrom eto]. rewrite H2, Nat.eqb_refl. exact IH.
Qed.
Lemma dpath_mem s u v p : dpath s u v p -> forallb (mem_edge (edges_of (scons s))) (walk_of s p) = true.
Proof.
  induction 1 as [v | u c v p H1 H2 H3 H IH]; cbn [walk_of map forallb]; [reflexivity|].
  rewrite (mem_edge_of s c H1). exact IH.
Qed.
Lemma wsum_walk_of s p : wsum (walk_of s p) == gsum s p.
Proof. induction p as [|c t IH]; cbn [walk_of map wsum gsum]; [reflexivity|]. cbn [edge_of ew]. fold (walk_of s t). rewrite IH. reflexivity. Qed.

Theorem directed_path_flag_closed_walk s v p :
  (v < length (scons s))%nat -> dpath s (cr (con_of s v)) (cl (con_of s v)) p ->
  0 < gap (con_of s v) + gsum s p ->
  closed_walk_ok (edges_of (scons s)) (walk_of s (v :: p)) = true.
Proof.
  intros Hv D Pos. unfold closed_walk_ok. cbn [walk_of map]. fold (walk_of s p).
  rewrite !andb_true_iff. split; [split|].
  - cbn [forallb]. rewrite (mem_edge_of s v Hv). exact (dpath_mem s _ _ p D).
  - cbn [chain edge_of efrom eto]. rewrite Nat.eqb_refl. rewrite (dpath_chain s _ _ p D). apply Nat.eqb_refl.
  - apply Qltb_spec. cbn [wsum edge_of ew]. rewrite wsum_walk_of. exact Pos.
Qed.

(* ------------------------------------------------------------------ split_path: what m = nullptr means, and that the
   search always finds r inside a spanning tree *)
Definition sp_gin (f this r v : nat) (u : option nat) (a : bool * option nat * st) (c : nat) : res (bool * option nat * st) :=
  let '(fnd, m1, s1) := a in
  if fnd then Ok a
  else if can_follow_left s1 this c u then
    if Nat.eqb (cl (con_of s1 c)) r then Ok (true, m1, s1)
    else bind (split_path f this r (cl (con_of s1 c)) (Some v) m1 s1) (fun b =>
           let '(fnd2, m2, s2) := b in Ok (fnd2, m2, s2))
  else Ok a.
Definition sp_gout (f this r v : nat) (u : option nat) (a : bool * option nat * st) (c : nat) : res (bool * option nat * st) :=
  let '(fnd, m1, s1) := a in
  if fnd then Ok a
  else if can_follow_right s1 this c u then
    if Nat.eqb (cr (con_of s1 c)) r
    then Ok (true, (if ceq (con_of s1 c) then m1 else Some c), s1)
    else bind (split_path f this r (cr (con_of s1 c)) (Some v) m1 s1) (fun b =>
           let '(fnd2, m2, s2) := b in
           if fnd2 then
             if ceq (con_of s2 c) then Ok (true, m2, s2)
             else match m2 with
                  | None => Ok (true, Some c, s2)
                  | Some m0 => let s3 := note s2 (lm_of s2 c) (lm_of s2 m0) in
                               if Qltb (lm_of s2 c) (lm_of s2 m0) then Ok (true, Some c, s3)
                               else Ok (true, m2, s3)
                  end
           else Ok (false, m2, s2))
  else Ok a.

Lemma split_path_unfold f this r v u m s :
  split_path (S f) this r v u m s =
  fold_left (fun acc c => bind acc (fun a => sp_gout f this r v u a c)) (outs_of s v)
    (fold_left (fun acc c => bind acc (fun a => sp_gin f this r v u a c)) (ins_of s v) (Ok (false, m, s))).
Proof. reflexivity. Qed.

Definition noeq_sys (s : st) : Prop := forall c, (c < length (scons s))%nat -> ceq (con_of s c) = false.

Section SplitPathNone.
Variables (s : st) (this r : nat).
Hypothesis NE : noeq_sys s.

(* (found, m = nullptr) only if nothing was found before and the tree path v ... r is a directed path r -> v *)
Definition spn_post (v : nat) (m : option nat) (a : bool * option nat * st) : Prop :=
  lm_only s (snd a) /\
  (fst (fst a) = false -> snd (fst a) = m) /\
  (fst (fst a) = true -> snd (fst a) = None -> m = None /\ exists p, dpath s r v p).

Lemma split_path_none : forall fuel v u m s1 a,
  lm_only s s1 -> split_path fuel this r v u m s1 = Ok a -> spn_post v m a.
Proof.
  induction fuel as [|f IH]; intros v u m s1 a L1 H; [discriminate|].
  rewrite split_path_unfold in H.
  rewrite (lm_only_ins _ _ v L1), (lm_only_outs _ _ v L1) in H.
  set (I := spn_post v m).
  destruct (fold_bind_inv (sp_gout f this r v u) I (outs_of s v)) with
    (acc := fold_left (fun acc c => bind acc (fun a => sp_gin f this r v u a c)) (ins_of s v) (Ok (false, m, s1))) (r := a)
    as [amid [Emid Rout]].
  { intros [[fnd m1] x] e a' He [Lx [Nf Yf]] G. cbn [fst snd] in *. unfold sp_gout in G.
    destruct fnd; [inversion G; subst a'; split; [exact Lx | split; assumption]|].
    specialize (Nf eq_refl). subst m1.
    destruct (can_follow_right x this e u) eqn:CF; [|inversion G; subst a'; split; [exact Lx | split; [reflexivity | discriminate]]].
    apply outs_of_In in He. destruct He as [He Hl].
    rewrite (lm_only_con _ _ e Lx) in G.
    destruct (Nat.eqb (cr (con_of s e)) r) eqn:ER.
    - inversion G. subst a'. cbn [fst snd]. split; [exact Lx|]. split; [discriminate|].
      intros _ X. rewrite (NE e He) in X. discriminate.
    - apply bind_ok in G. destruct G as [[[fnd2 m2] s2] [G1 G2]].
      destruct (IH _ _ _ _ _ Lx G1) as [L2 [N2 Y2]]. cbn [fst snd] in *.
      destruct fnd2.
      + rewrite (lm_only_con _ _ e L2), (NE e He) in G2.
        destruct m2 as [m0|].
        * cbv zeta in G2.
          assert (L3 : lm_only s (note s2 (lm_of s2 e) (lm_of s2 m0))) by (apply (lm_only_trans _ s2); [exact L2 | apply lm_only_note]).
          destruct (Qltb _ _); inversion G2; subst a'; (split; [exact L3|]); (split; [discriminate|]); intros _ X; discriminate.
        * inversion G2. subst a'. split; [exact L2|]. split; [discriminate|]. intros _ X. discriminate.
      + inversion G2. subst a'. split; [exact L2|]. split; [intros _; exact (N2 eq_refl) | discriminate]. }
  { exact H. }
  destruct (fold_bind_inv (sp_gin f this r v u) I (ins_of s v)) with (acc := Ok (false, m, s1)) (r := amid) as [a0 [E0 Rin]].
  { intros [[fnd m1] x] e a' He [Lx [Nf Yf]] G. cbn [fst snd] in *. unfold sp_gin in G.
    destruct fnd; [inversion G; subst a'; split; [exact Lx | split; assumption]|].
    specialize (Nf eq_refl). subst m1.
    destruct (can_follow_left x this e u) eqn:CF; [|inversion G; subst a'; split; [exact Lx | split; [reflexivity | discriminate]]].
    apply can_follow_left_true in CF. destruct CF as [_ [Ae _]].
    assert (Ae' : act_of s e = true) by (destruct Lx as [lm [t ->]]; exact Ae).
    apply ins_of_In in He. destruct He as [He Hr].
    rewrite (lm_only_con _ _ e Lx) in G.
    destruct (Nat.eqb (cl (con_of s e)) r) eqn:ER.
    - apply Nat.eqb_eq in ER. inversion G. subst a'. cbn [fst snd]. split; [exact Lx|]. split; [discriminate|].
      intros _ X. split; [exact X|]. exists [e]. rewrite <- Hr. apply dp_cons; try assumption. apply dp_nil.
    - apply bind_ok in G. destruct G as [[[fnd2 m2] s2] [G1 G2]]. inversion G2. subst a'. clear G2.
      destruct (IH _ _ _ _ _ Lx G1) as [L2 [N2 Y2]]. cbn [fst snd] in *.
      split; [exact L2|]. split; [exact N2|]. intros F X. destruct (Y2 F X) as [Em [p D]]. split; [exact Em|].
      exists (p ++ [e]). rewrite <- Hr. exact (dpath_snoc s r (cl (con_of s e)) p e D He eq_refl Ae'). }
  { exact Emid. }
  inversion E0. subst a0. apply Rout, Rin.
  split; [exact L1|]. split; [reflexivity | discriminate].
Qed.

End SplitPathNone.

(* ------------------------------------------------------------------ non-backtracking paths in a tree *)
Section TreePaths.
Variable K : nat -> con.
Definition incK (e x y : nat) : Prop := (cl (K e) = x /\ cr (K e) = y) \/ (cr (K e) = x /\ cl (K e) = y).

(* tnbp V E u x y: a walk x ... y over edges of E through vertices of V that never steps back to the vertex it just
   came from (u is the vertex before x, if any) -- exactly the walks split_path / compute_dfdv can follow *)
Inductive tnbp (V E : nat -> Prop) : option nat -> nat -> nat -> Prop :=
| tn_nil u v : V v -> tnbp V E u v v
| tn_cons u v e w z : V v -> E e -> incK e v w -> u <> Some w -> tnbp V E (Some v) w z -> tnbp V E u v z.

Lemma tnbp_mono (V E V' E' : nat -> Prop) u x y :
  (forall w, V w -> V' w) -> (forall e, E e -> E' e) -> tnbp V E u x y -> tnbp V' E' u x y.
Proof.
  intros HV HE H. induction H as [u v Hv | u v e w z Hv He Hi Hu H IH].
  - apply tn_nil. apply HV. exact Hv.
  - apply (tn_cons V' E' u v e w z); auto.
Qed.

Lemma tnbp_start (V E : nat -> Prop) u x y : tnbp V E u x y -> V x.
Proof. intros H. destruct H; assumption. Qed.

(* a path inside V1, then one edge out of V1, then a path that starts at the far end *)
Lemma tnbp_bridge (V E V1 E1 : nat -> Prop) u x a c b y :
  tnbp V1 E1 u x a -> (forall w, V1 w -> V w) -> (forall e, E1 e -> E e) ->
  E c -> incK c a b -> ~ V1 b -> u <> Some b -> tnbp V E (Some a) b y -> tnbp V E u x y.
Proof.
  intros H HV HE Ec Hi Nb Hu T. induction H as [u v Hv | u v e w z Hv He Hi' Hu' H IH].
  - apply (tn_cons V E u v c b y); auto.
  - apply (tn_cons V E u v e w y); auto. apply IH; [exact Hi | | exact T]. intros X. inversion X. subst. contradiction.
Qed.

Theorem tree_tnbp V E : tree K V E -> forall x y, V x -> V y ->
  forall u, (forall p, u = Some p -> ~ V p) -> tnbp V E u x y.
Proof.
  induction 1 as [v V E A B | V1 E1 V2 E2 c V E T1 IH1 T2 IH2 D X A B]; intros x y Hx Hy u Hu.
  - apply A in Hx. apply A in Hy. subst. apply tn_nil. apply A. reflexivity.
  - assert (S1 : forall w, V1 w -> V w) by (intros; apply A; tauto).
    assert (S2 : forall w, V2 w -> V w) by (intros; apply A; tauto).
    assert (F1 : forall e, E1 e -> E e) by (intros; apply B; tauto).
    assert (F2 : forall e, E2 e -> E e) by (intros; apply B; tauto).
    assert (Ec : E c) by (apply B; tauto).
    assert (U1 : forall p, u = Some p -> ~ V1 p) by (intros p E0 H; exact (Hu p E0 (S1 p H))).
    assert (U2 : forall p, u = Some p -> ~ V2 p) by (intros p E0 H; exact (Hu p E0 (S2 p H))).
    (* the ends of c: a in V1, b in V2 *)
    assert (Ends : exists a b, V1 a /\ V2 b /\ incK c a b).
    { destruct X as [[Xl Xr]|[Xl Xr]].
      - exists (cl (K c)), (cr (K c)). split; [exact Xl|]. split; [exact Xr|]. left. split; reflexivity.
      - exists (cr (K c)), (cl (K c)). split; [exact Xr|]. split; [exact Xl|]. right. split; reflexivity. }
    destruct Ends as [a [b [Ha [Hb Hi]]]].
    assert (Hi' : incK c b a) by (destruct Hi as [[P Q]|[P Q]]; [right | left]; split; assumption).
    apply A in Hx. apply A in Hy. destruct Hx as [Hx|Hx]; destruct Hy as [Hy|Hy].
    + apply (tnbp_mono V1 E1); auto.
    + apply (tnbp_bridge V E V1 E1 u x a c b y); auto.
      * intros H. exact (D b H Hb).
      * intros E0. exact (Hu b E0 (S2 b Hb)).
      * apply (tnbp_mono V2 E2); auto. apply IH2; auto. intros p E0 H. inversion E0. subst p. exact (D a Ha H).
    + apply (tnbp_bridge V E V2 E2 u x b c a y); auto.
      * intros H. exact (D a Ha H).
      * intros E0. exact (Hu a E0 (S1 a Ha)).
      * apply (tnbp_mono V1 E1); auto. apply IH1; auto. intros p E0 H. inversion E0. subst p. exact (D b H Hb).
    + apply (tnbp_mono V2 E2); auto.
Qed.
End TreePaths.

(* ------------------------------------------------------------------ split_path does not miss r *)
Section SplitPathComplete.
Variables (s : st) (this r : nat).

Lemma sp_gin_sticky f v u a c a' : sp_gin f this r v u a c = Ok a' -> fst (fst a') = false -> fst (fst a) = false.
Proof. destruct a as [[fnd m1] x]. unfold sp_gin. destruct fnd; [|reflexivity]. intros E. inversion E. subst a'. auto. Qed.
Lemma sp_gout_sticky f v u a c a' : sp_gout f this r v u a c = Ok a' -> fst (fst a') = false -> fst (fst a) = false.
Proof. destruct a as [[fnd m1] x]. unfold sp_gout. destruct fnd; [|reflexivity]. intros E. inversion E. subst a'. auto. Qed.

(* split_path(r, v, u) = false: no walk from v (not stepping back to u) reaches r, except the empty one *)
Lemma split_path_complete : forall fuel v u m s1 a,
  lm_only s s1 -> split_path fuel this r v u m s1 = Ok a -> fst (fst a) = false ->
  forall z, tnbp (con_of s) (Vof s this) (Eof s this) u v z -> z <> r \/ z = v.
Proof.
  induction fuel as [|f IH]; intros v u m s1 a L1 H Ff z T; [discriminate|].
  rewrite split_path_unfold in H.
  rewrite (lm_only_ins _ _ v L1), (lm_only_outs _ _ v L1) in H.
  set (I := fun (a : bool * option nat * st) => lm_only s (snd a)).
  (* what a followed edge to w tells us when the final answer is "not found" *)
  set (Pw := fun w : nat => w <> r /\ forall z, tnbp (con_of s) (Vof s this) (Eof s this) (Some v) w z -> z <> r \/ z = w).
  set (Qout := fun (c : nat) (a : bool * option nat * st) =>
                 fst (fst a) = false -> can_follow_right s this c u = true -> Pw (cr (con_of s c))).
  set (Qin := fun (c : nat) (a : bool * option nat * st) =>
                 fst (fst a) = false -> can_follow_left s this c u = true -> Pw (cl (con_of s c))).
  destruct (fold_bind_inv2 (sp_gout f this r v u) I Qout (outs_of s v)) with
    (acc := fold_left (fun acc c => bind acc (fun a => sp_gin f this r v u a c)) (ins_of s v) (Ok (false, m, s1))) (r := a)
    as [amid [Emid Rout]].
  { intros [[fnd m1] x] e a' He Lx G. unfold I, Qout in *. cbn [fst snd] in *. unfold sp_gout in G.
    destruct fnd; [inversion G; subst a'; split; [exact Lx | intros X; discriminate]|].
    rewrite (lm_only_follow_right _ _ this e u Lx), (lm_only_con _ _ e Lx) in G.
    destruct (can_follow_right s this e u) eqn:CF; [|inversion G; subst a'; split; [exact Lx | intros _ X; discriminate]].
    destruct (Nat.eqb (cr (con_of s e)) r) eqn:ER; [inversion G; subst a'; split; [exact Lx | intros X; discriminate]|].
    apply bind_ok in G. destruct G as [[[fnd2 m2] s2] [G1 G2]].
    pose proof (split_path_lm_only _ _ _ _ _ _ _ _ G1) as L2. cbn [snd] in L2.
    assert (L02 : lm_only s s2) by (apply (lm_only_trans _ x); assumption).
    destruct fnd2.
    - assert (Fa : fst (fst a') = true).
      { rewrite (lm_only_con _ _ e L02) in G2. destruct (ceq (con_of s e)); [inversion G2; reflexivity|].
        destruct m2 as [m0|]; [|inversion G2; reflexivity]. cbv zeta in G2. destruct (Qltb _ _); inversion G2; reflexivity. }
      split; [|intros X; rewrite Fa in X; discriminate].
      rewrite (lm_only_con _ _ e L02) in G2. destruct (ceq (con_of s e)); [inversion G2; subst a'; exact L02|].
      destruct m2 as [m0|]; [|inversion G2; subst a'; exact L02]. cbv zeta in G2.
      destruct (Qltb _ _); inversion G2; subst a'; cbn [snd]; (apply (lm_only_trans _ s2); [exact L02 | apply lm_only_note]).
    - inversion G2. subst a'. cbn [fst snd]. split; [exact L02|]. intros _ _.
      split; [apply Nat.eqb_neq; exact ER|]. intros z' T'. exact (IH _ _ _ _ _ Lx G1 eq_refl z' T'). }
  { intros c0 b x x' Hb Lx Qx G. unfold Qout in *. intros F CF. apply Qx; [|exact CF]. exact (sp_gout_sticky _ _ _ _ _ _ G F). }
  { exact H. }
  destruct (fold_bind_inv2 (sp_gin f this r v u) I Qin (ins_of s v)) with (acc := Ok (false, m, s1)) (r := amid) as [a0 [E0 Rin]].
  { intros [[fnd m1] x] e a' He Lx G. unfold I, Qin in *. cbn [fst snd] in *. unfold sp_gin in G.
    destruct fnd; [inversion G; subst a'; split; [exact Lx | intros X; discriminate]|].
    rewrite (lm_only_follow_left _ _ this e u Lx), (lm_only_con _ _ e Lx) in G.
    destruct (can_follow_left s this e u) eqn:CF; [|inversion G; subst a'; split; [exact Lx | intros _ X; discriminate]].
    destruct (Nat.eqb (cl (con_of s e)) r) eqn:ER; [inversion G; subst a'; split; [exact Lx | intros X; discriminate]|].
    apply bind_ok in G. destruct G as [[[fnd2 m2] s2] [G1 G2]]. inversion G2. subst a'. clear G2. cbn [fst snd].
    pose proof (split_path_lm_only _ _ _ _ _ _ _ _ G1) as L2. cbn [snd] in L2.
    split; [apply (lm_only_trans _ x); assumption|]. intros F _. subst fnd2.
    split; [apply Nat.eqb_neq; exact ER|]. intros z' T'. exact (IH _ _ _ _ _ Lx G1 eq_refl z' T'). }
  { intros c0 b x x' Hb Lx Qx G. unfold Qin in *. intros F CF. apply Qx; [|exact CF]. exact (sp_gin_sticky _ _ _ _ _ _ G F). }
  { exact Emid. }
  inversion E0. subst a0.
  destruct (Rin L1) as [Lmid Qins]. destruct (Rout Lmid) as [_ Qouts].
  assert (Fmid : fst (fst amid) = false).
  { clear - H Ff Emid. revert H. generalize (outs_of s v). intros l. revert amid Emid. 
    generalize (fold_left (fun acc c => bind acc (fun a => sp_gin f this r v u a c)) (ins_of s v) (Ok (false, m, s1))).
    intros acc amid ->. revert amid. induction l as [|c t IHl]; intros amid H; cbn [fold_left] in H.
    - inversion H. subst. exact Ff.
    - cbn [bind] in H. destruct (sp_gout f this r v u amid c) as [a1| |] eqn:G.
      + apply (sp_gout_sticky _ _ _ _ _ _ G). apply IHl. exact H.
      + exfalso. clear - H. induction t as [|c' t' IHt]; cbn [fold_left bind] in H; [discriminate | auto].
      + exfalso. clear - H. induction t as [|c' t' IHt]; cbn [fold_left bind] in H; [discriminate | auto]. }
  (* now the walk *)
  inversion T as [u0 v0 Hv | u0 v0 e w z0 Hv He Hi Hu T']; subst; [right; reflexivity|].
  left. destruct He as [He [Ae Be]].
  pose proof (tnbp_start _ _ _ _ _ _ T') as [_ Bw].
  destruct Hi as [[Hl Hr]|[Hr Hl]].
  - assert (Hin : In e (outs_of s v)) by (apply outs_of_In; split; assumption).
    assert (CF : can_follow_right s this e u = true).
    { apply can_follow_right_true. rewrite Hr. split; [exact Bw|]. split; [exact Ae | exact Hu]. }
    destruct (Qouts e Hin Ff CF) as [Nr Pz]. rewrite Hr in *.
    destruct (Pz z T') as [X| ->]; assumption.
  - assert (Hin : In e (ins_of s v)) by (apply ins_of_In; split; assumption).
    assert (CF : can_follow_left s this e u = true).
    { apply can_follow_left_true. rewrite Hl. split; [exact Bw|]. split; [exact Ae | exact Hu]. }
    destruct (Qins e Hin Fmid CF) as [Nr Pz]. rewrite Hl in *.
    destruct (Pz z T') as [X| ->]; assumption.
Qed.

End SplitPathComplete.

(* ------------------------------------------------------------------ site 2 is unreachable without equalities *)
Theorem find_min_lm_between_some s b lv rv s' :
  book s -> act_inv s -> forest s -> noeq_sys s ->
  (lv < length (svars s))%nat -> (rv < length (svars s))%nat -> blk_of s lv = b -> blk_of s rv = b ->
  is_active_directed_path_between (walk_fuel s) s b rv lv = Ok false ->
  find_min_lm_between s b lv rv = Ok (None, s') -> False.
Proof.
  intros BK AI FO NE Hlv Hrv Bl Br CYC H. unfold find_min_lm_between in H.
  apply bind_ok in H. destruct H as [s1 [H1 H]].
  apply bind_ok in H. destruct H as [[[d mn2] s2] [H2 H]].
  apply bind_ok in H. destruct H as [[[fnd m3] s3] [H3 H]]. inversion H. subst m3 s3. clear H.
  pose proof (reset_active_lm_lm_only _ _ _ _ _ _ H1) as L1.
  destruct (compute_dfdv_spec _ _ _ _ _ _ _ _ _ _ H2) as [L2 _]; [intros c E; discriminate|].
  assert (L02 : lm_only s s2) by (apply (lm_only_trans _ s1); assumption).
  destruct fnd.
  - (* found with m = nullptr: the tree path is a directed path rv -> lv, which the cycle test excluded *)
    destruct (split_path_none s b rv NE _ _ _ _ _ _ L02 H3) as [_ [_ Y]]. cbn [fst snd] in Y.
    destruct (Y eq_refl eq_refl) as [_ [p D]].
    exact (adpb_complete s b AI _ _ _ CYC Br p D).
  - (* not found: impossible in a spanning tree *)
    assert (Nlr : lv <> rv).
    { intros ->. unfold walk_fuel in CYC. rewrite adpb_unfold, Nat.eqb_refl in CYC. discriminate. }
    assert (T : tnbp (con_of s) (Vof s b) (Eof s b) None lv rv).
    { apply tree_tnbp; [rewrite <- Bl; apply FO; exact Hlv | split; assumption | split; assumption | intros p E; discriminate]. }
    destruct (split_path_complete s b rv _ _ _ _ _ _ L02 H3 eq_refl rv T) as [X|X]; congruence.
Qed.

(* ------------------------------------------------------------------ which parts of the state the steps keep *)
Definition keep (s s' : st) : Prop := svars s' = svars s /\ scons s' = scons s /\ cuns s' = cuns s.
Lemma keep_refl s : keep s s.
Proof. repeat split; reflexivity. Qed.
Lemma keep_trans s1 s2 s3 : keep s1 s2 -> keep s2 s3 -> keep s1 s3.
Proof. intros [A [B C]] [A' [B' C']]. repeat split; congruence. Qed.
Lemma keep_lm_only s s' : lm_only s s' -> keep s s'.
Proof. intros [lm [t ->]]. repeat split; reflexivity. Qed.

Lemma fold_res_keep {A} (g : st -> A -> res st) :
  (forall s a s', g s a = Ok s' -> keep s s') ->
  forall l acc s', fold_left (fun acc a => bind acc (fun s => g s a)) l acc = Ok s' ->
    exists s1, acc = Ok s1 /\ keep s1 s'.
Proof.
  intros Hg. induction l as [|a l IH]; intros acc s' H; cbn [fold_left] in H.
  - exists s'. split; [exact H | apply keep_refl].
  - destruct (IH _ _ H) as [s2 [H2 R2]]. apply bind_ok in H2. destruct H2 as [s1 [H1 G]].
    exists s1. split; [exact H1|]. apply (keep_trans _ s2); [apply (Hg _ _ _ G) | exact R2].
Qed.

Lemma populate_keep : forall fuel this b v u s s', populate fuel this b v u s = Ok s' -> keep s s'.
Proof.
  induction fuel as [|f IH]; intros this b v u s s' H; [discriminate|].
  cbn [populate] in H.
  apply (fold_res_keep (fun s' c => if can_follow_right s' this c u
                                   then populate f this b (cr (con_of s' c)) (Some v) s' else Ok s')) in H.
  - destruct H as [s2 [H2 R2]].
    apply (fold_res_keep (fun s' c => if can_follow_left s' this c u
                                     then populate f this b (cl (con_of s' c)) (Some v) s' else Ok s')) in H2.
    + destruct H2 as [s1 [H1 R1]]. inversion H1. subst s1.
      apply (keep_trans _ (add_variable s b v)); [repeat split; reflexivity|].
      apply (keep_trans _ s2); assumption.
    + intros s0 a s0' G. destruct (can_follow_left s0 this a u); [apply (IH _ _ _ _ _ _ G)|].
      inversion G. apply keep_refl.
  - intros s0 a s0' G. destruct (can_follow_right s0 this a u); [apply (IH _ _ _ _ _ _ G)|].
    inversion G. apply keep_refl.
Qed.

Lemma split_keep s this c s' l r : split s this c = Ok (s', l, r) -> keep s s'.
Proof.
  unfold split, new_block. intros H.
  apply bind_ok in H. destruct H as [s2 [P1 H]].
  apply bind_ok in H. destruct H as [s4 [P2 H]]. inversion H. subst s4 l r. clear H.
  apply populate_keep in P1. apply populate_keep in P2.
  destruct P1 as [A1 [B1 C1]]. destruct P2 as [A2 [B2 C2]].
  cbn in *. repeat split; congruence.
Qed.

Lemma mfold_keep t d : forall vars s, keep s (fold_left (mstep t d) vars s).
Proof.
  induction vars as [|v vars IH]; intros s; cbn [fold_left]; [apply keep_refl|].
  apply (keep_trans _ (mstep t d s v)); [repeat split; reflexivity | apply IH].
Qed.
Lemma merge_keep s c : keep s (fst (merge s c)).
Proof.
  assert (MI : forall t b d, keep s (merge_into s t b c d)).
  { intros t b d. rewrite merge_into_unfold.
    apply (keep_trans _ (fold_left (mstep t d) (bvars (block_of (set_cact s (upd_nth (cact s) c true)) b))
                                   (set_cact s (upd_nth (cact s) c true)))); [|repeat split; reflexivity].
    apply (keep_trans _ (set_cact s (upd_nth (cact s) c true))); [repeat split; reflexivity | apply mfold_keep]. }
  unfold merge. destruct (Nat.ltb _ _); cbn [fst]; apply MI.
Qed.

Lemma uwp_keep s b : keep s (update_weighted_position s b).
Proof.
  unfold update_weighted_position.
  destruct (fold_left (stats_add s) (bvars (block_of s b)) (bscale (block_of s b), 0, 0, 0)) as [[[sc ab] ad] a2].
  repeat split; reflexivity.
Qed.
Lemma move_blocks_keep s : keep s (move_blocks s).
Proof.
  unfold move_blocks. generalize (blist s) as l. intros l. revert s.
  induction l as [|b l IH]; intros s; cbn [fold_left]; [apply keep_refl|].
  apply (keep_trans _ (update_weighted_position s b)); [apply uwp_keep | apply IH].
Qed.

Lemma sb_body_keep p b p' : sb_body p b = Ok p' -> keep (fst p) (fst p').
Proof.
  destruct p as [s1 cnt]. cbn [fst]. intros H. unfold sb_body in H.
  apply bind_ok in H. destruct H as [[mn s2] [FM H]].
  destruct (find_min_lm_spec _ _ _ _ FM) as [L12 _]. pose proof (keep_lm_only _ _ L12) as K2.
  destruct mn as [v|]; [|inversion H; subst p'; exact K2].
  set (s3 := note s2 (lm_of s2 v) LAGRANGIAN_TOLERANCE) in *.
  assert (K3 : keep s1 s3) by (apply (keep_trans _ s2); [exact K2 | apply keep_lm_only, lm_only_note]).
  destruct (Qltb (lm_of s3 v) LAGRANGIAN_TOLERANCE); [|inversion H; subst p'; exact K3].
  apply bind_ok in H. destruct H as [[[s4 l] r] [SPL H]]. inversion H. subst p'. clear H. cbn [fst].
  apply (keep_trans _ s3); [exact K3|]. apply (keep_trans _ s4); [exact (split_keep _ _ _ _ _ _ SPL)|].
  apply (keep_trans _ (update_weighted_position s4 l)); [apply uwp_keep|].
  apply (keep_trans _ (update_weighted_position (update_weighted_position s4 l) r)); [apply uwp_keep|].
  repeat split; reflexivity.
Qed.

Theorem split_blocks_keep s p : split_blocks s = Ok p -> keep s (fst p).
Proof.
  intros H. rewrite split_blocks_unfold in H.
  apply bind_ok in H. destruct H as [q [H E]]. inversion E. subst p. cbn [fst].
  apply (keep_trans _ (fst q)); [|repeat split; reflexivity].
  destruct (fold_bind_inv sb_body (fun p => keep s (fst p)) (blist (move_blocks s))) with (acc := Ok (move_blocks s, O)) (r := q)
    as [q0 [E0 R]].
  - intros x b x' _ Ix G. exact (keep_trans _ _ _ Ix (sb_body_keep x b x' G)).
  - exact H.
  - inversion E0. subst q0. apply R. cbn [fst]. apply move_blocks_keep.
Qed.

(* ------------------------------------------------------------------ one iteration of the satisfy loop *)
(* either nothing is flagged, or the constraint v taken from the work-list is flagged and the system is infeasible *)
Definition flag_step (s s' : st) : Prop :=
  keep s s' \/
  (svars s' = svars s /\ scons s' = scons s /\
   exists v p, cuns s' = upd_nth (cuns s) v true /\ (v < length (scons s))%nat /\
               dpath s (cr (con_of s v)) (cl (con_of s v)) p /\ 0 < gap (con_of s v) + gsum s p /\ infeasible s).

Lemma infeasible_keep s s' : svars s' = svars s -> scons s' = scons s -> infeasible s -> infeasible s'.
Proof. intros E1 E2 H x. rewrite E1, E2. apply H. Qed.
Lemma noeq_sys_keep s s' : scons s' = scons s -> noeq_sys s -> noeq_sys s'.
Proof. intros E H c. unfold con_of. rewrite E. apply H. Qed.
Lemma wf_scl_nonzero s i : wf_vars (svars s) -> ~ scl (var_of s i) == 0.
Proof. intros W. destruct (vget_pos (svars s) i W) as [_ P]. unfold var_of. lra. Qed.

Theorem satisfy_step_flag s b s' :
  inv s -> wf_vars (svars s) -> noeq_sys s -> satisfy_step s = Ok (b, s') -> flag_step s s'.
Proof.
  intros I WV NE H. unfold satisfy_step in H.
  destruct (most_violated s) as [mv s1] eqn:MV.
  pose proof (most_violated_spec s mv s1 (i_trich s I) MV) as SP.
  destruct mv as [v|].
  2:{ destruct SP as [_ L]. inversion H. subst b s'. left. apply keep_lm_only. exact L. }
  destruct SP as [Hin [[RUN [s2 [l' [L2 [-> [ND HL]]]]]] | [RUN [L1 _]]]].
  2:{ set (s3 := note_opt s1 (slack s1 v) (Some ZERO_UPPERBOUND)) in *.
      assert (L13 : lm_only s s3) by (apply (lm_only_trans _ s1); [exact L1 | apply lm_only_note_opt]).
      assert (Erun : ceq (con_of s1 v) || (lt_inf (slack s3 v) (Some ZERO_UPPERBOUND) && negb (act_of s3 v)) = false).
      { rewrite <- RUN. unfold runs. destruct L13 as [lm3 [t3 E3]]. rewrite E3. destruct L1 as [lm [t ->]]. reflexivity. }
      rewrite Erun in H. inversion H. subst b s'. left. apply keep_lm_only. exact L13. }
  set (s1 := set_inactive s2 l') in *.
  set (s3 := note_opt s1 (slack s1 v) (Some ZERO_UPPERBOUND)) in *.
  assert (L13 : lm_only s1 s3) by apply lm_only_note_opt.
  assert (Ek : con_of s1 v = con_of s v) by (destruct L2 as [lm [t ->]]; reflexivity).
  assert (Erun : ceq (con_of s1 v) || (lt_inf (slack s3 v) (Some ZERO_UPPERBOUND) && negb (act_of s3 v)) = true).
  { rewrite <- RUN. unfold runs. rewrite Ek. destruct L13 as [lm3 [t3 E3]]. rewrite E3. destruct L2 as [lm [t ->]]. reflexivity. }
  rewrite Erun in H. clear Erun.
  (* the invariants at s3 *)
  pose proof (inv_lm_only _ _ L2 I) as [A2 B2 C2 D2].
  assert (A1 : book s1) by (apply (book_frame s2); try reflexivity; exact A2).
  assert (B1 : act_inv s1) by (apply (act_inv_frame s2); try reflexivity; exact B2).
  assert (C1 : forest s1) by (apply set_inactive_forest; exact C2).
  pose proof (book_lm_only _ _ L13 A1) as A3. pose proof (act_inv_lm_only _ _ L13 B1) as B3.
  pose proof (forest_lm_only _ _ L13 C1) as C3.
  assert (K3 : keep s s3).
  { apply (keep_trans _ s2); [apply keep_lm_only; exact L2|]. apply (keep_trans _ s1); [repeat split; reflexivity | apply keep_lm_only; exact L13]. }
  destruct K3 as [K31 [K32 K33]].
  assert (NE3 : noeq_sys s3) by (apply (noeq_sys_keep s); assumption).
  assert (WV3 : wf_vars (svars s3)) by (rewrite K31; exact WV).
  destruct (t_in s (i_trich s I) v Hin) as [Hv [Av Uv]].
  assert (Hv3 : (v < length (scons s3))%nat) by (rewrite K32; exact Hv).
  assert (E13 : con_of s1 v = con_of s3 v /\ blk_of s1 = blk_of s3) by (destruct L13 as [lm [t ->]]; split; reflexivity).
  destruct E13 as [Ek3 Eb3]. rewrite Ek3 in H.
  set (k := con_of s3 v) in *.
  destruct (con_ends s3 v A3 Hv3) as [Hvl Hvr]. fold k in Hvl, Hvr.
  destruct (negb (Nat.eqb (blk_of s3 (cl k)) (blk_of s3 (cr k)))) eqn:NEQ.
  - inversion H. subst b s'. left. apply (keep_trans _ s3); [repeat split; assumption | apply merge_keep].
  - apply negb_false_iff, Nat.eqb_eq in NEQ.
    apply bind_ok in H. destruct H as [cyc [CY H]].
    assert (Fu3 : walk_fuel s3 = walk_fuel s3) by reflexivity.
    destruct cyc.
    + (* site 1 *)
      inversion H. subst b s'. right. split; [exact K31|]. split; [exact K32|].
      destruct (adpb_sound s3 _ _ _ _ CY) as [p D].
      (* v is violated *)
      assert (Viol : slack_val s3 v < 0).
      { unfold runs in RUN. rewrite (NE v Hv), Av in RUN. cbn [orb negb] in RUN. rewrite andb_true_r in RUN.
        unfold slack in RUN. rewrite Uv in RUN. cbn [lt_inf] in RUN. apply Qltb_spec in RUN.
        assert (E : slack_val s3 v = slack_val s v).
        { apply slack_val_fields; try assumption.
          - destruct L13 as [lm3 [t3 ->]]. cbn. destruct L2 as [lm [t ->]]. reflexivity.
          - destruct L13 as [lm3 [t3 ->]]. cbn. destruct L2 as [lm [t ->]]. reflexivity.
          - destruct L13 as [lm3 [t3 ->]]. cbn. destruct L2 as [lm [t ->]]. reflexivity. }
        rewrite E. unfold ZERO_UPPERBOUND in RUN. lra. }
      destruct (directed_path_flag_infeasible s3 v p B3 Hv3 NEQ (wf_scl_nonzero s3 _ WV3) (wf_scl_nonzero s3 _ WV3) Viol D) as [Pos Inf].
      assert (Ec : forall c, con_of s3 c = con_of s c) by (intros c; unfold con_of; rewrite K32; reflexivity).
      assert (Ea : forall c, act_of s3 c = act_of s c).
      { intros c. destruct L13 as [lm3 [t3 ->]]. destruct L2 as [lm [t ->]]. reflexivity. }
      assert (D0 : forall a b' q, dpath s3 a b' q -> dpath s a b' q).
      { intros a b' q X. induction X as [w | a c w q H1 H2 H3 X IH]; [apply dp_nil|].
        apply dp_cons; [rewrite <- K32; exact H1 | rewrite <- Ec; exact H2 | rewrite <- Ea; exact H3 | rewrite <- Ec; exact IH]. }
      assert (G0' : forall q, gsum s3 q = gsum s q) by (induction q as [|c q IHq]; cbn [gsum]; [reflexivity | rewrite Ec, IHq; reflexivity]).
      pose proof (G0' p) as G0.
      exists v, p. split; [cbn; rewrite K33; reflexivity|]. split; [exact Hv|].
      split; [rewrite <- Ec; apply D0; exact D|]. split; [rewrite <- Ec, <- G0; exact Pos|].
      intros x F. apply (Inf x). rewrite K31, K32. exact F.
    + apply bind_ok in H. destruct H as [[sc s4] [FM H]].
      destruct sc as [spl|].
      2:{ (* site 2: unreachable *)
          exfalso. exact (find_min_lm_between_some s3 _ (cl k) (cr k) s4 A3 B3 C3 NE3 Hvl Hvr eq_refl (eq_sym NEQ) CY FM). }
      pose proof (find_min_lm_between_lm_only _ _ _ _ _ _ FM) as L34.
      apply bind_ok in H. destruct H as [[[s5 l] r] [SPL H]].
      assert (K5 : keep s s5).
      { apply (keep_trans _ s3); [repeat split; assumption|]. apply (keep_trans _ s4); [apply keep_lm_only; exact L34|].
        exact (split_keep _ _ _ _ _ _ SPL). }
      set (s6 := kill_block s5 (blk_of s3 (cl k))) in *.
      set (s7 := set_inactive s6 (inactive s6 ++ [spl])) in *.
      set (s8 := note_opt s7 (slack s7 v) (Some 0)) in *.
      assert (K8 : keep s s8).
      { apply (keep_trans _ s5); [exact K5|]. apply (keep_trans _ s7); [repeat split; reflexivity | apply keep_lm_only, lm_only_note_opt]. }
      destruct (lt_inf (slack s8 v) (Some 0)).
      * pose proof (merge_keep s8 v) as K9. destruct (merge s8 v) as [s9 mb]. cbn [fst] in K9.
        inversion H. subst b s'. left. apply (keep_trans _ s8); [exact K8|]. apply (keep_trans _ s9); [exact K9 | repeat split; reflexivity].
      * inversion H. subst b s'. left. apply (keep_trans _ s8); [exact K8 | repeat split; reflexivity].
Qed.

(* ------------------------------------------------------------------ the invariant "flagged => infeasible" *)
Definition flags_sound (s : st) : Prop := forall c, uns_of s c = true -> infeasible s.

Record finv (s : st) : Prop := {
  f_inv : inv s; f_wf : wf_vars (svars s); f_ne : noeq_sys s; f_fs : flags_sound s }.

Lemma flags_sound_step s s' : flag_step s s' -> flags_sound s -> flags_sound s'.
Proof.
  intros [[E1 [E2 E3]] | [E1 [E2 [v [p [E3 [_ [_ [_ Inf]]]]]]]]] FS c Hc.
  - apply (infeasible_keep s); try assumption. apply (FS c). unfold uns_of in *. rewrite <- E3. exact Hc.
  - apply (infeasible_keep s); assumption.
Qed.

Lemma finv_flag_step s s' : inv s' -> flag_step s s' -> finv s -> finv s'.
Proof.
  intros I' ST [I W N F].
  assert (E : svars s' = svars s /\ scons s' = scons s) by (destruct ST as [[A [B _]]|[A [B _]]]; split; assumption).
  destruct E as [E1 E2]. constructor; [exact I' | rewrite E1; exact W | exact (noeq_sys_keep _ _ E2 N) | exact (flags_sound_step _ _ ST F)].
Qed.
Lemma finv_keep s s' : inv s' -> keep s s' -> finv s -> finv s'.
Proof. intros I' K. apply finv_flag_step; [exact I' | left; exact K]. Qed.

Theorem satisfy_step_finv s b s' : finv s -> satisfy_step s = Ok (b, s') -> finv s'.
Proof.
  intros F H. apply (finv_flag_step s); [exact (proj1 (satisfy_step_inv s b s' (f_inv s F) H)) | | exact F].
  exact (satisfy_step_flag s b s' (f_inv s F) (f_wf s F) (f_ne s F) H).
Qed.

Theorem satisfy_loop_finv : forall fuel s s', finv s -> satisfy_loop fuel s = Ok s' -> finv s'.
Proof.
  induction fuel as [|f IH]; intros s s' F H; [discriminate|].
  cbn [satisfy_loop] in H. apply bind_ok in H. destruct H as [[b s1] [H1 H]]. cbn [fst snd] in H.
  pose proof (satisfy_step_finv s b s1 F H1) as F1. destruct b; [exact (IH s1 s' F1 H)|]. inversion H. subst s'. exact F1.
Qed.

Theorem split_blocks_finv s p : finv s -> split_blocks s = Ok p -> finv (fst p).
Proof.
  intros F H. apply (finv_keep s); [exact (split_blocks_inv s p (f_inv s F) H) | exact (split_blocks_keep s p H) | exact F].
Qed.

Theorem inc_satisfy_cnt_finv fuel s p : finv s -> inc_satisfy_cnt fuel s = Ok p -> finv (fst p).
Proof.
  intros F H. unfold inc_satisfy_cnt in H.
  apply bind_ok in H. destruct H as [p1 [H1 H]].
  apply bind_ok in H. destruct H as [s2 [H2 H]].
  apply bind_ok in H. destruct H as [s3 [H3 E]]. inversion E. subst p. cbn [fst].
  apply final_scan_ok in H3. destruct H3 as [-> _].
  pose proof (satisfy_loop_finv fuel _ _ (split_blocks_finv s p1 F H1) H2) as F2.
  apply (finv_keep s2); [apply inv_cleanup; exact (f_inv _ F2) | repeat split; reflexivity | exact F2].
Qed.

Lemma finv_lm_only s s' : lm_only s s' -> finv s -> finv s'.
Proof. intros L F. apply (finv_keep s); [exact (inv_lm_only _ _ L (f_inv s F)) | exact (keep_lm_only _ _ L) | exact F]. Qed.

Lemma solve_loop_finv fixed fuel sf : forall tries lc c cnt s s',
  finv s -> solve_loop fixed fuel sf tries lc c cnt s = Ok s' -> finv s'.
Proof.
  induction fuel as [|f IH]; intros tries lc c cnt s s' Hs H; [discriminate|].
  cbn [solve_loop] in H.
  set (s0 := match lc with Some l => note s (Qabs' (l - c)) COST_EPS | None => s end) in *.
  assert (Hs0 : finv s0).
  { unfold s0. destruct lc; [apply (finv_lm_only s); [apply lm_only_note | exact Hs] | exact Hs]. }
  assert (Again : forall t, bind (inc_satisfy_cnt sf s0)
             (fun p => solve_loop fixed f sf t (Some c) (cost (fst p)) (snd p) (fst p)) = Ok s' -> finv s').
  { intros t G. apply bind_ok in G. destruct G as [p [G1 G2]].
    apply (IH _ _ _ _ _ _ (inc_satisfy_cnt_finv _ _ _ Hs0 G1) G2). }
  destruct fixed.
  - destruct (_ || _).
    + destruct tries as [|t]; [inversion H; subst; exact Hs0 | exact (Again t H)].
    + inversion H. subst. exact Hs0.
  - destruct (match lc with None => true | Some l => Qltb COST_EPS (Qabs' (l - c)) end).
    + exact (Again tries H).
    + inversion H. subst. exact Hs0.
Qed.

(* ---- the editing ops *)
Definition op_ineq (o : op) : Prop := match o with AddConstraint k => ceq k = false | _ => True end.

Lemma feasible_scl_ext vs vs' cs x :
  (forall i, scl (vget vs' i) = scl (vget vs i)) -> feasible vs cs x -> feasible vs' cs x.
Proof.
  intros E F c Hc. specialize (F c Hc). unfold holds, slackv in *. rewrite !E. exact F.
Qed.

Lemma set_desired_same s i d v :
  wt (vget (svars (set_desired s i d)) v) = wt (vget (svars s) v) /\
  scl (vget (svars (set_desired s i d)) v) = scl (vget (svars s) v).
Proof.
  unfold set_desired, vget. cbn [svars set_svars]. destruct (Nat.eq_dec i v) as [->|N].
  - destruct (Nat.lt_ge_cases v (length (svars s))) as [L|L].
    + rewrite nth_upd_nth_eq by exact L. cbn. unfold var_of, vget. split; reflexivity.
    + rewrite !nth_overflow; [split; reflexivity | exact L | rewrite upd_nth_length; exact L].
  - rewrite nth_upd_nth_neq by exact N. split; reflexivity.
Qed.

Theorem set_desired_finv s i d : finv s -> finv (set_desired s i d).
Proof.
  intros [I W N F]. constructor.
  - apply set_desired_inv. exact I.
  - intros v Hv. cbn [set_desired svars set_svars] in Hv. rewrite upd_nth_length in Hv.
    destruct (set_desired_same s i d v) as [E1 E2]. rewrite E1, E2. exact (W v Hv).
  - exact N.
  - intros c Hc x Fx. apply (F c Hc x). change (scons (set_desired s i d)) with (scons s) in Fx.
    apply (feasible_scl_ext (svars (set_desired s i d))); [|exact Fx].
    intros j. symmetry. exact (proj2 (set_desired_same s i d j)).
Qed.

Theorem add_constraint_finv s k :
  finv s -> (cl k < length (svars s))%nat -> (cr k < length (svars s))%nat -> ceq k = false -> finv (add_constraint s k).
Proof.
  intros [I W N F] Hl Hr Hk. constructor.
  - apply add_constraint_inv; assumption.
  - exact W.
  - intros c Hc. unfold con_of. cbn [add_constraint scons set_inactive set_clm set_cuns set_cact set_scons] in *.
    rewrite app_length in Hc. cbn [length] in Hc.
    destruct (Nat.lt_ge_cases c (length (scons s))) as [L|L].
    + rewrite app_nth1 by exact L. apply N. exact L.
    + rewrite app_nth2 by exact L. replace (c - length (scons s))%nat with O by lia. exact Hk.
  - intros c Hc x Fx.
    assert (Hc' : uns_of s c = true).
    { unfold uns_of in *. change (cuns (add_constraint s k)) with (cuns s ++ [false]) in Hc.
      destruct (Nat.lt_ge_cases c (length (cuns s))) as [L|L].
      - rewrite app_nth1 in Hc by exact L. exact Hc.
      - rewrite app_nth2 in Hc by exact L. destruct (c - length (cuns s))%nat as [|[|?]]; cbn in Hc; discriminate. }
    apply (F c Hc' x). intros c0 H0. apply Fx. cbn. apply in_or_app. left. exact H0.
Qed.

Theorem step_finv fuel s o s' : finv s -> op_ok s o -> op_ineq o -> step fuel s o = Ok s' -> finv s'.
Proof.
  intros F W N H. destruct o as [k|i d| |]; cbn in H.
  - inversion H. subst s'. destruct W. apply add_constraint_finv; assumption.
  - inversion H. subst s'. apply set_desired_finv. exact F.
  - unfold inc_solve_gen in H. apply bind_ok in H. destruct H as [p [H1 H]].
    exact (solve_loop_finv _ _ _ _ _ _ _ _ _ (inc_satisfy_cnt_finv _ _ _ F H1) H).
  - unfold inc_satisfy in H. apply bind_ok in H. destruct H as [p [H E]]. inversion E. subst s'.
    exact (inc_satisfy_cnt_finv _ _ _ F H).
Qed.

(* ---- the initial state *)
Lemma init_step_keep s v : keep s (init_step s v).
Proof. unfold init_step, new_block. repeat split; reflexivity. Qed.
Lemma init_keep vs cs :
  svars (init vs cs) = vs /\ scons (init vs cs) = cs /\ cuns (init vs cs) = repeat false (length cs).
Proof.
  rewrite init_unfold. set (s0 := mkst vs cs _ _ _ _ _ _ _ _ _).
  assert (K : forall l s, keep s (fold_left init_step l s)).
  { induction l as [|v l IH]; intros s; cbn [fold_left]; [apply keep_refl|].
    apply (keep_trans _ (init_step s v)); [apply init_step_keep | apply IH]. }
  destruct (K (seq 0 (length vs)) s0) as [A [B C]]. rewrite A, B, C. repeat split; reflexivity.
Qed.

Theorem init_finv vs cs :
  wf_vars vs -> wf_cons vs cs -> (forall c, In c cs -> ceq c = false) -> finv (init vs cs).
Proof.
  intros WV WC NE. destruct (init_keep vs cs) as [A [B C]]. constructor.
  - apply init_inv. exact WC.
  - rewrite A. exact WV.
  - intros c Hc. unfold con_of. rewrite B in *. apply NE. apply nth_In. exact Hc.
  - intros c Hc. exfalso. unfold uns_of in Hc. rewrite C in Hc.
    revert Hc. generalize (length cs) as m. intros m. revert c.
    induction m as [|m IH]; intros [|c]; cbn; try discriminate. apply IH.
Qed.

(* the states reachable from a fresh solver over an inequality-only system by ops that add inequalities only *)
Inductive reachable_ineq : st -> Prop :=
| ri_init vs cs : wf_vars vs -> wf_cons vs cs -> (forall c, In c cs -> ceq c = false) -> reachable_ineq (init vs cs)
| ri_step s o fuel s' : reachable_ineq s -> op_ok s o -> op_ineq o -> step fuel s o = Ok s' -> reachable_ineq s'.

Theorem reachable_ineq_wf s : reachable_ineq s -> reachable_wf s.
Proof.
  induction 1 as [vs cs WV WC _ | s o fuel s' _ IH W _ H]; [apply rw_init; assumption | exact (rw_step s o fuel s' IH W H)].
Qed.
Theorem reachable_ineq_finv s : reachable_ineq s -> finv s.
Proof.
  induction 1 as [vs cs WV WC NE | s o fuel s' _ IH W N H]; [apply init_finv; assumption | exact (step_finv fuel s o s' IH W N H)].
Qed.

(* C01_flag_sound: in every state of every inequality-only history a flagged constraint means that NO placement
   satisfies all constraints *)
Theorem flag_sound_reachable s : reachable_ineq s -> forall c, uns_of s c = true -> infeasible s.
Proof. intros R. exact (f_fs s (reachable_ineq_finv s R)). Qed.

(* C01_flagged_iff_infeasible_on_return *)
Theorem flagged_iff_infeasible_on_return fuel s o s' :
  reachable_ineq s -> run_result o fuel s s' ->
  ((forall k, (k < length (scons s'))%nat -> uns_of s' k = false) /\
   (forall k, (k < length (scons s'))%nat ->
      ZERO_UPPERBOUND <= slackv (svars s') (place_of (final_positions s')) (con_of s' k)))
  \/
  ((exists k, (k < length (scons s'))%nat /\ uns_of s' k = true) /\ infeasible s').
Proof.
  intros R RR.
  assert (R' : reachable_ineq s').
  { destruct o; cbn in RR; try contradiction; [apply (ri_step s Solve fuel s' R I I RR) | apply (ri_step s Satisfy fuel s' R I I RR)]. }
  destruct (existsb (uns_of s') (seq 0 (length (scons s')))) eqn:E.
  - right. apply existsb_exists in E. destruct E as [k [Hk Uk]]. apply in_seq in Hk.
    split; [exists k; split; [lia | exact Uk]|]. exact (flag_sound_reachable s' R' k Uk).
  - left. assert (NF : forall k, (k < length (scons s'))%nat -> uns_of s' k = false).
    { intros k Hk. destruct (uns_of s' k) eqn:Uk; [|reflexivity].
      assert (X : existsb (uns_of s') (seq 0 (length (scons s'))) = true).
      { apply existsb_exists. exists k. split; [apply in_seq; lia | exact Uk]. }
      congruence. }
    split; [exact NF|]. intros k Hk.
    exact (proj1 (sat_on_return_history fuel s o s' (reachable_ineq_wf s R) RR k Hk (NF k Hk))).
Qed.

(* ------------------------------------------------------------------ non-vacuity *)
(* Feas.fx_vs / fx_cyc: three variables (the middle one with scale 2), the 3-cycle 0 -> 1 -> 2 -> 0 of total gap +1 *)
Lemma fx_ineq : forall c, In c fx_cyc -> ceq c = false.
Proof. intros c [<-|[<-|[<-|[]]]]; reflexivity. Qed.
Lemma fx_wfv : wf_vars fx_vs.
Proof. apply wf_varsb_spec. vm_compute. reflexivity. Qed.
Lemma fx_wfc : wf_cons fx_vs fx_cyc.
Proof. apply wf_consb_spec. vm_compute. reflexivity. Qed.
Lemma fx_reach : reachable_ineq (init fx_vs fx_cyc).
Proof. apply ri_init; [exact fx_wfv | exact fx_wfc | exact fx_ineq]. Qed.

(* solve() on the positive 3-cycle returns with exactly one constraint flagged; the theorem applies and gives
   infeasibility; the feasible variant (total gap 0) returns with nothing flagged *)
Example flag_sound_example :
  exists s', run_result Solve 100 (init fx_vs fx_cyc) s' /\ existsb (fun b => b) (cuns s') = true /\ infeasible s'.
Proof.
  assert (H : exists s', step 100 (init fx_vs fx_cyc) Solve = Ok s' /\ exists k, uns_of s' k = true).
  { eexists. split; [vm_compute; reflexivity|]. exists 2%nat. vm_compute. reflexivity. }
  destruct H as [s' [H [k Uk]]]. exists s'. split; [exact H|]. split.
  - apply existsb_exists. exists true. split; [|reflexivity]. unfold uns_of in Uk. rewrite <- Uk. apply nth_In.
    destruct (Nat.lt_ge_cases k (length (cuns s'))) as [L|L]; [exact L|]. rewrite nth_overflow in Uk by exact L. discriminate.
  - exact (flag_sound_reachable s' (ri_step _ Solve 100 s' fx_reach I I H) k Uk).
Qed.
Example flagged_iff_example_feasible :
  exists s', run_result Solve 100 (init fx_vs fx_ok) s' /\ existsb (fun b => b) (cuns s') = false.
Proof. eexists. split; [cbn [run_result]; vm_compute; reflexivity | vm_compute; reflexivity]. Qed.
