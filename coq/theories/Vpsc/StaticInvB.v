(* Boolean versions of the invariants of the static Solver model (Vpsc/StaticModel.v) and a CHECKED runner of the
   merge pass of Solver::satisfy that evaluates them on every state the model visits (after every iteration of
   mergeLeft's loop and after every variable of the total order).  NO PROOFS here; extracted and run on every static
   instance by checks/c01.py (driver line "j").  The statements are what the classic VPSC argument needs on a DAG:
     bit 1  heap_okb    : every element of a block's in-heap (out-heap) is a constraint whose right (left) end is in
                          that block [proved: StaticInv.v]
     bit 2  act_invb    : active => same block and offsets differ by the gap [proved: StaticInv.v]
     bit 4  prefix_satb : after processing a variable, every constraint between processed variables has slack >= 0
                          (EXACTLY: this is what makes the closing scan redundant on DAGs - `static_no_throw_on_dag`)
     bit 8  monotoneb   : while a variable is merged in, no previously processed variable moves to the right
     bit 16 root_minb   : when mergeLeft's loop tests the heap's root, no in-constraint of the block is more violated
                          than that root (the pairing heap with stale keys still delivers the minimum)
     bit 32 in_heapb    : every violated in-constraint of the current block is in its heap *)
From Adapt Require Import Num.Qaux Vpsc.VpscSpec Vpsc.VpscModel Vpsc.VpscInv Vpsc.StaticModel.
Local Open Scope Q_scope.

Definition inhabitedb (b : st) (B : nat) : bool :=
  existsb (fun v => Nat.eqb (blk_of b v) B) (seq 0 (length (svars b))).

Definition heap_okb (s : sst) : bool :=
  let m := length (scons (base s)) in
  let nb := length (blocks (base s)) in
  forallb (fun B =>
    negb (inhabitedb (base s) B) ||
    (match bin_of s B with
     | Some h => forallb (fun c => Nat.ltb c m && Nat.eqb (rblk s c) B) (heap_elems h)
     | None => true
     end &&
     match bout_of s B with
     | Some h => forallb (fun c => Nat.ltb c m && Nat.eqb (lblk s c) B) (heap_elems h)
     | None => true
     end)) (seq 0 nb).

Definition mem (v : nat) (l : list nat) : bool := existsb (Nat.eqb v) l.

Definition prefix_satb (s : sst) (done : list nat) : bool :=
  forallb (fun c => let k := con_of (base s) c in
                    negb (mem (cl k) done && mem (cr k) done) || Qleb 0 (sslack s c))
          (seq 0 (length (scons (base s)))).

Definition monotoneb (before : list Q) (s : sst) (done : list nat) : bool :=
  forallb (fun v => Qleb (position (base s) v) (nth v before 0)) done.

(* the in-constraints of block r: right end in r, left end elsewhere *)
Definition in_cons (s : sst) (r : nat) : list nat :=
  filter (fun c => Nat.eqb (rblk s c) r && negb (Nat.eqb (lblk s c) r)) (seq 0 (length (scons (base s)))).
Definition root_minb (s : sst) (r : nat) (c0 : option nat) : bool :=
  match c0 with
  | None => forallb (fun c => Qleb 0 (sslack s c)) (in_cons s r)
  | Some c => forallb (fun c' => Qleb (sslack s c) (sslack s c') || Qleb 0 (sslack s c')) (in_cons s r)
  end.
Definition in_heapb (s : sst) (r : nat) : bool :=
  match bin_of s r with
  | Some h => forallb (fun c => Qleb 0 (sslack s c) || mem c (heap_elems h)) (in_cons s r)
  | None => true
  end.

Definition bitv (b : bool) (v : nat) : nat := if b then O else v.

(* the invariants of one state inside mergeLeft(v): current block r, root c0, positions before this variable *)
Definition ml_mask (s : sst) (r : nat) (c0 : option nat) (before : list Q) (done : list nat) : nat :=
  (bitv (heap_okb s) 1 + bitv (act_invb (base s)) 2 + bitv (monotoneb before s done) 8 +
   bitv (root_minb s r c0) 16 + bitv (in_heapb s r) 32)%nat.

(* bitwise or on small masks *)
Definition mor (a b : nat) : nat := Nat.lor a b.

(* ml_loop with the mask of every visited state or-ed together: (result, mask, #states) *)
Fixpoint ml_loop_chk (fuel : nat) (s : sst) (r : nat) (c : option nat) (before : list Q) (done : list nat)
  (mask cnt : nat) : res sst * nat * nat :=
  match fuel with
  | O => (OutOfFuel, mask, cnt)
  | S f =>
      let mask1 := mor mask (ml_mask s r c before done) in
      match c with
      | None => (Ok s, mask1, S cnt)
      | Some c0 =>
          let s0 := snote_slack TIE_EPS s c0 0 in
          if Qltb (sslack s0 c0) 0 then
            match ml_body s0 r c0 with
            | Ok (s', r', c') => ml_loop_chk f s' r' c' before done mask1 (S cnt)
            | ThrowUnsat x => (ThrowUnsat x, mask1, S cnt)
            | OutOfFuel => (OutOfFuel, mask1, S cnt)
            end
          else (Ok s0, mask1, S cnt)
      end
  end.

Definition merge_left_chk (s : sst) (r : nat) (before : list Q) (done : list nat) (mask cnt : nat)
  : res sst * nat * nat :=
  let s1 := set_ctr s (S (ctr s)) in
  let s2 := set_btime s1 (upd_nth (btime s1) r (ctr s1)) in
  let s3 := set_up_heap true s2 r in
  match find_min_in s3 r with
  | Ok p => ml_loop_chk (loop_fuel s) (fst p) r (snd p) before done mask cnt
  | ThrowUnsat x => (ThrowUnsat x, mask, cnt)
  | OutOfFuel => (OutOfFuel, mask, cnt)
  end.

(* the loop of Solver::satisfy over the total order: (result, processed variables, mask, #states) *)
Definition sat_visit_chk (acc : res sst * list nat * nat * nat) (v : nat) : res sst * list nat * nat * nat :=
  let '(r, done, mask, cnt) := acc in
  match r with
  | Ok s =>
      let b := blk_of (base s) v in
      let before := final_positions (base s) in
      let '(r', mask', cnt') :=
        if dead (block_of (base s) b) then (Ok s, mask, cnt) else merge_left_chk s b before done mask cnt in
      match r' with
      | Ok s' => (Ok s', v :: done, mor mask' (bitv (prefix_satb s' (v :: done)) 4), cnt')
      | _ => (r', done, mask', cnt')
      end
  | _ => acc
  end.

(* the constraint graph is a DAG exactly when the DFS order contains every variable and every constraint goes forward in it *)
Fixpoint index_of (v : nat) (l : list nat) : nat :=
  match l with [] => O | h :: t => if Nat.eqb h v then O else S (index_of v t) end.
Definition is_dag (b : st) : bool :=
  match total_order b with
  | Ok order =>
      Nat.eqb (length order) (length (svars b)) &&
      forallb (fun k => Nat.ltb (index_of (cl k) order) (index_of (cr k) order)) (scons b)
  | _ => false
  end.

Definition all_satb (s : sst) : bool :=
  forallb (fun c => Qleb 0 (sslack s c)) (seq 0 (length (scons (base s)))).

(* (same result as merge_pass ?, mask, #states, exact all-sat at the end) *)
Definition merge_pass_chk (s : sst) : res sst * nat * nat * bool :=
  match total_order (base s) with
  | Ok order =>
      let '(r, _, mask, cnt) := fold_left sat_visit_chk order (Ok s, [], O, O) in
      (r, mask, cnt, match r with Ok s' => all_satb s' | _ => false end)
  | ThrowUnsat x => (ThrowUnsat x, O, O, false)
  | OutOfFuel => (OutOfFuel, O, O, false)
  end.
