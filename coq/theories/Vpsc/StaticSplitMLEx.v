(* Non-vacuity of Vpsc/StaticSplitML.merge_left_split: a state in mode A (block of v1 left of its reference position by
   more than the violation of its in-constraint v0 + 1 <= v1, the "right half" v2 elsewhere) on which mergeLeft merges. *)
From Adapt Require Import Num.Qaux Vpsc.VpscSpec Vpsc.VpscModel Vpsc.VpscInv Vpsc.StaticModel Vpsc.StaticFrame
  Vpsc.StaticInv Vpsc.StaticInvB Vpsc.StaticGeom Vpsc.StaticDag Vpsc.StaticRefine Vpsc.StaticGeom2 Vpsc.StaticSplitML.
Local Open Scope Q_scope.
Definition sx_vs : list var := [mkvar 2 1 1; mkvar 0 1 1; mkvar 5 1 1].
Definition sx_cs : list con := [mkcon 0 1 1 false].
Definition sx_Yb (u : nat) : Q := match u with O => 2 | _ => 5 end.
Definition sx_s : sst := static_init sx_vs sx_cs.
Lemma sx_wfv : wf_vars sx_vs.
Proof. intros i Hi. unfold sx_vs in *. cbn [length] in Hi. destruct i as [|[|[|i]]]; try lia; cbn; split; reflexivity. Qed.
Lemma sx_wfc : wf_cons sx_vs sx_cs.
Proof. intros c [<-|[]]; cbn; lia. Qed.
Lemma sx_MLS : MLS sx_Yb 2 (base sx_s) 1.
Proof.
  unfold sx_s. cbn [static_init base]. destruct (init_book sx_vs sx_cs sx_wfc) as [BK AI].
  pose proof (init_all_blk_ok sx_vs sx_cs sx_wfv) as OK.
  assert (EV : svars (init sx_vs sx_cs) = sx_vs) by exact (proj1 (init_problem sx_vs sx_cs)).
  assert (EC : scons (init sx_vs sx_cs) = sx_cs) by exact (proj2 (init_problem sx_vs sx_cs)).
  constructor; [exact BK | exact AI | rewrite EV; exact sx_wfv | | | rewrite EV; cbn; lia |].
  - intros u Hu. apply blk_ok_st. apply OK. exact Hu.
  - intros c Hc. rewrite EC in Hc. cbn in Hc. assert (c = O) by lia. subst c. vm_compute. discriminate.
  - left. split; [vm_compute; discriminate|]. split; [|intros u Hu _; apply OK; exact Hu].
    constructor.
    + intros u Hu Nu. rewrite EV in Hu. cbn in Hu.
      destruct u as [|[|[|u]]]; try lia; try (vm_compute; reflexivity); try (exfalso; apply Nu; vm_compute; reflexivity).
    + intros u Hu Eu. rewrite EV in Hu. cbn in Hu.
      destruct u as [|[|[|u]]]; try lia; try (vm_compute in Eu; discriminate); try (vm_compute; discriminate).
    + intros i u Hi _ _ Hu Eu. rewrite EC in Hi. cbn in Hi. assert (i = O) by lia. subst i.
      rewrite EV in Hu. cbn in Hu.
      destruct u as [|[|[|u]]]; try lia; try (vm_compute in Eu; discriminate); try (vm_compute; discriminate).
    + intros c Hc El _. rewrite EC in Hc. cbn in Hc. assert (c = O) by lia. subst c. vm_compute in El. discriminate.
Qed.
Definition sx_roots : bool :=
  match find_min_in (set_up_heap true (set_btime (set_ctr sx_s (S (ctr sx_s))) (upd_nth (btime sx_s) 1%nat (S (ctr sx_s)))) 1) 1 with
  | Ok (s1, c) => ml_roots_okb (loop_fuel sx_s) s1 1 c
  | _ => false
  end.
Definition sx_merges : bool :=
  match merge_left sx_s 1 with Ok s' => Nat.eqb (blk_of (base s') 0) (blk_of (base s') 1) && all_satb s' | _ => false end.
Lemma sx_roots_true : sx_roots = true. Proof. vm_compute. reflexivity. Qed.
Lemma sx_merges_true : sx_merges = true. Proof. vm_compute. reflexivity. Qed.

Example merge_left_split_example :
  MLS sx_Yb 2 (base sx_s) 1 /\
  (forall s1 c,
     find_min_in (set_up_heap true (set_btime (set_ctr sx_s (S (ctr sx_s))) (upd_nth (btime sx_s) 1%nat (S (ctr sx_s)))) 1) 1 = Ok (s1, c) ->
     ml_roots_ok (loop_fuel sx_s) s1 1 c) /\
  (exists s', merge_left sx_s 1 = Ok s' /\ blk_of (base s') 0 = blk_of (base s') 1) /\
  slack_val (base sx_s) 0 < 0.
Proof.
  split; [exact sx_MLS|]. split; [|split].
  - intros s1 c H. apply ml_roots_okb_spec. pose proof sx_roots_true as P. unfold sx_roots in P. rewrite H in P. exact P.
  - pose proof sx_merges_true as P. unfold sx_merges in P.
    destruct (merge_left sx_s 1) as [s'| |]; try discriminate. exists s'. split; [reflexivity|].
    apply andb_prop in P. apply Nat.eqb_eq. exact (proj1 P).
  - vm_compute. reflexivity.
Qed.
