(* Decidable (boolean) versions of the invariants of the IncSolver model, and "checked runners" that evaluate a boolean
   predicate on EVERY intermediate state the model visits (after moveBlocks, after every block of splitBlocks, after
   every iteration of the satisfy loop, after every satisfy() inside solve()).
   NO PROOFS here (model-like file): it is extracted and run by extract/c01_driver.ml on every instance of every run of
   checks/c01.py, so the invariants proved in VpscForest.v / VpscTrichotomy.v / VpscStats.v are also validated on the
   states of the extracted model (and would still be evaluated if one of those proofs broke). *)
From Adapt Require Import Num.Qaux Vpsc.VpscSpec Vpsc.VpscModel.
Local Open Scope Q_scope.

Definition memb (x : nat) (l : list nat) : bool := existsb (Nat.eqb x) l.
Fixpoint nodupb (l : list nat) : bool :=
  match l with [] => true | h :: t => negb (memb h t) && nodupb t end.

Definition nvars (s : st) : nat := length (svars s).
Definition ncons (s : st) : nat := length (scons s).

(* ---- book: lengths, block pointers in range, a block's variable list is exactly the set of variables pointing at it *)
Definition bookb (s : st) : bool :=
  Nat.eqb (length (voff s)) (nvars s) && Nat.eqb (length (vblk s)) (nvars s) &&
  Nat.eqb (length (cact s)) (ncons s) && wf_consb (svars s) (scons s) &&
  forallb (fun v =>
    let B := blk_of s v in
    let V := bvars (block_of s B) in
    Nat.ltb B (length (blocks s)) && nodupb V &&
    forallb (fun w => Bool.eqb (memb w V) (Nat.eqb (blk_of s w) B)) (seq 0 (nvars s)) &&
    forallb (fun w => Nat.ltb w (nvars s)) V) (seq 0 (nvars s)).

(* ---- active => same block and offsets differ by the gap (same as VpscInv.act_invb) *)
Definition actb (s : st) : bool :=
  forallb (fun c => negb (act_of s c) ||
                    (Nat.eqb (blk_of s (cl (con_of s c))) (blk_of s (cr (con_of s c)))
                     && Qeqb (off_of s (cr (con_of s c)) - off_of s (cl (con_of s c))) (gap (con_of s c))))
          (seq 0 (length (cact s))).

(* ---- forest: the active constraints inside the block of every variable form a spanning tree of that block:
        #edges + 1 = #vars and every variable of the block is reachable from its first one *)
Definition block_edges (s : st) (B : nat) : list nat :=
  filter (fun c => act_of s c && Nat.eqb (blk_of s (cl (con_of s c))) B) (seq 0 (ncons s)).
Definition grow (s : st) (E : list nat) (R : list nat) : list nat :=
  fold_left (fun R c =>
    let a := cl (con_of s c) in let b := cr (con_of s c) in
    if memb a R && negb (memb b R) then b :: R
    else if memb b R && negb (memb a R) then a :: R else R) E R.
Fixpoint grow_n (k : nat) (s : st) (E R : list nat) : list nat :=
  match k with O => R | S k' => grow_n k' s E (grow s E R) end.
Definition forest_blockb (s : st) (B : nat) : bool :=
  let V := bvars (block_of s B) in
  let E := block_edges s B in
  match V with
  | [] => false
  | v0 :: _ =>
      Nat.eqb (S (length E)) (length V) &&
      (let R := grow_n (length V) s E [v0] in forallb (fun w => memb w R) V)
  end.
Definition forestb (s : st) : bool :=
  forallb (fun v => forest_blockb s (blk_of s v)) (seq 0 (nvars s)).

(* ---- trichotomy: every constraint is exactly one of active / flagged unsatisfiable / in the work-list `inactive` *)
Definition one_of3 (a b c : bool) : bool :=
  (a && negb b && negb c) || (negb a && b && negb c) || (negb a && negb b && c).
Definition trichotomyb (s : st) : bool :=
  Nat.eqb (length (cuns s)) (ncons s) && Nat.eqb (length (cact s)) (ncons s) &&
  nodupb (inactive s) && forallb (fun c => Nat.ltb c (ncons s)) (inactive s) &&
  forallb (fun c => one_of3 (act_of s c) (uns_of s c) (memb c (inactive s))) (seq 0 (ncons s)).

(* ---- block statistics: every block ever created is non-empty, has scale > 0 and A2 > 0, A2 is the sum of
        wt * (scale/scl)^2 over its variables, posn = (AD - AB)/A2; for the block of a variable also
        AB = sum wt * (scale/scl) * (offset/scl) *)
Definition sum_a2 (s : st) (sc : Q) (V : list nat) : Q :=
  fold_left (fun acc v => acc + wt (var_of s v) * (sc / scl (var_of s v)) * (sc / scl (var_of s v))) V 0.
Definition sum_ab (s : st) (sc : Q) (V : list nat) : Q :=
  fold_left (fun acc v => acc + wt (var_of s v) * (sc / scl (var_of s v)) * (off_of s v / scl (var_of s v))) V 0.
Definition sum_ad (s : st) (sc : Q) (V : list nat) : Q :=
  fold_left (fun acc v => acc + wt (var_of s v) * (sc / scl (var_of s v)) * des (var_of s v)) V 0.
Definition stat_blockb (s : st) (B : blkT) : bool :=
  match bvars B with [] => false | _ => true end &&
  Qltb 0 (bscale B) && Qltb 0 (A2 B) &&
  Qeqb (A2 B) (sum_a2 s (bscale B) (bvars B)) &&
  Qeqb (posn B) ((AD B - AB B) / A2 B).
Definition statsb (s : st) : bool :=
  wf_varsb (svars s) && forallb (stat_blockb s) (blocks s) &&
  forallb (fun b => Nat.ltb b (length (blocks s))) (blist s).
Definition stats_liveb (s : st) : bool :=
  forallb (fun v => let B := block_of s (blk_of s v) in Qeqb (AB B) (sum_ab s (bscale B) (bvars B))) (seq 0 (nvars s)).
(* AD and posn are up to date w.r.t. the desired positions (false between set_desired and the next moveBlocks) *)
Definition stats_adb (s : st) : bool :=
  forallb (fun v => let B := block_of s (blk_of s v) in Qeqb (AD B) (sum_ad s (bscale B) (bvars B))) (seq 0 (nvars s)).
(* Blocks::m_blocks lists the block of every variable, and that block is not deleted *)
Definition blistb (s : st) : bool :=
  forallb (fun v => memb (blk_of s v) (blist s) && negb (dead (block_of s (blk_of s v)))) (seq 0 (nvars s)).

Definition all_invb (s : st) : bool :=
  bookb s && actb s && forestb s && trichotomyb s && statsb s && stats_liveb s.

(* bit mask of the failing invariants, for diagnostics *)
Definition inv_mask (s : st) : nat :=
  ((if bookb s then 0 else 1) + (if actb s then 0 else 2) + (if forestb s then 0 else 4) +
   (if trichotomyb s then 0 else 8) + (if statsb s then 0 else 16) + (if stats_liveb s then 0 else 32))%nat.

(* ---- checked runners: P on every intermediate state; count the states looked at *)
Definition chk := (bool * nat)%type.     (* (all ok so far, number of states evaluated) *)
Definition chk_and (P : st -> bool) (s : st) (k : chk) : chk := (fst k && P s, S (snd k)).

Definition split_blocks_chk (P : st -> bool) (s : st) (k0 : chk) : res (st * nat) * chk :=
  let s0 := move_blocks s in
  let body := fun (acc : res (st * nat) * chk) (b : nat) =>
    let '(r, k) := acc in
    match r with
    | Ok (s1, cnt) =>
        let r' :=
          bind (find_min_lm s1 b) (fun a =>
            let '(mn, s2) := a in
            match mn with
            | None => Ok (s2, cnt)
            | Some v =>
                let s3 := note s2 (lm_of s2 v) LAGRANGIAN_TOLERANCE in
                if Qltb (lm_of s3 v) LAGRANGIAN_TOLERANCE then
                  let b' := blk_of s3 (cl (con_of s3 v)) in
                  bind (split s3 b' v) (fun t =>
                    let '(s4, l, r) := t in
                    let s5 := update_weighted_position (update_weighted_position s4 l) r in
                    let s6 := set_blist s5 (blist s5 ++ [l; r]) in
                    let s7 := kill_block s6 b' in
                    Ok (set_inactive s7 (inactive s7 ++ [v]), S cnt))
                else Ok (s3, cnt)
            end) in
        match r' with
        | Ok (s9, c9) => (r', chk_and P s9 k)
        | _ => (r', k)
        end
    | _ => (r, k)
    end in
  let '(r, k) := fold_left body (blist s0) (Ok (s0, O), chk_and P s0 k0) in
  match r with
  | Ok (s9, c9) => (Ok (cleanup s9, c9), chk_and P (cleanup s9) k)
  | _ => (r, k)
  end.

Fixpoint satisfy_loop_chk (P : st -> bool) (fuel : nat) (s : st) (k : chk) : res st * chk :=
  match fuel with
  | O => (OutOfFuel, k)
  | S f =>
      match satisfy_step s with
      | Ok (true, s') => satisfy_loop_chk P f s' (chk_and P s' k)
      | Ok (false, s') => (Ok s', chk_and P s' k)
      | ThrowUnsat c => (ThrowUnsat c, k)
      | OutOfFuel => (OutOfFuel, k)
      end
  end.

(* mirrors inc_satisfy_cnt *)
Definition inc_satisfy_chk (P : st -> bool) (fuel : nat) (s : st) (k : chk) : res (st * nat) * chk :=
  let '(r1, k1) := split_blocks_chk P s k in
  match r1 with
  | Ok (s1, cnt) =>
      let '(r2, k2) := satisfy_loop_chk P fuel s1 k1 in
      match r2 with
      | Ok s2 => (bind (final_scan (cleanup s2)) (fun s3 => Ok (s3, cnt)), chk_and P (cleanup s2) k2)
      | ThrowUnsat c => (ThrowUnsat c, k2)
      | OutOfFuel => (OutOfFuel, k2)
      end
  | ThrowUnsat c => (ThrowUnsat c, k1)
  | OutOfFuel => (OutOfFuel, k1)
  end.

(* mirrors solve_loop true *)
Fixpoint solve_loop_chk (P : st -> bool) (fuel sfuel tries : nat) (lastcost : option Q) (c : Q) (cnt : nat) (s : st) (k : chk)
  : res st * chk :=
  match fuel with
  | O => (OutOfFuel, k)
  | S f =>
      let changed := match lastcost with
                     | None => true
                     | Some lc => Qltb COST_EPS (Qabs' (lc - c))
                     end in
      let s0 := match lastcost with Some lc => note s (Qabs' (lc - c)) COST_EPS | None => s end in
      let again := fun tries' =>
        let '(r, k1) := inc_satisfy_chk P sfuel s0 k in
        match r with
        | Ok p => solve_loop_chk P f sfuel tries' (Some c) (cost (fst p)) (snd p) (fst p) k1
        | ThrowUnsat x => (ThrowUnsat x, k1)
        | OutOfFuel => (OutOfFuel, k1)
        end in
      if changed || negb (Nat.eqb cnt O) then
        match tries with O => (Ok s0, k) | S t => again t end
      else (Ok s0, k)
  end.

Definition inc_solve_chk (P : st -> bool) (fuel : nat) (s : st) (k : chk) : res st * chk :=
  let '(r, k1) := inc_satisfy_chk P fuel s k in
  match r with
  | Ok p => solve_loop_chk P fuel fuel MAXTRIES None (cost (fst p)) (snd p) (fst p) k1
  | ThrowUnsat x => (ThrowUnsat x, k1)
  | OutOfFuel => (OutOfFuel, k1)
  end.

(* executes op o from s like `step`, and evaluates P on every state visited on the way (s itself included) *)
Definition step_chk (P : st -> bool) (fuel : nat) (s : st) (o : op) : res st * chk :=
  let k0 := chk_and P s (true, O) in
  match o with
  | AddConstraint c => (Ok (add_constraint s c), chk_and P (add_constraint s c) k0)
  | SetDesired i d => (Ok (set_desired s i d), chk_and P (set_desired s i d) k0)
  | Solve => inc_solve_chk P fuel s k0
  | Satisfy => let '(r, k) := inc_satisfy_chk P fuel s k0 in (bind r (fun p => Ok (fst p)), k)
  end.
