(* The SECOND half of Blocks::split (Vpsc/StaticModel.static_split): after mergeLeft(l) the block r' of right(c) is
   re-positioned (updateWeightedPosition) and mergeRight(r') runs.  Two cases, decided by whether mergeLeft(l) merged the
   right half r into l's block:
     not merged: every constraint holds (StaticSplitML.ml_loop_split_not_merged) and r, untouched by mergeLeft (frame
                 lemma `ml_loop_mframe`: blocks outside the final block keep their record, their variables keep their
                 offsets), moves rigidly to its optimum, which is to the RIGHT (StaticSplitSign) => geo2 (geo2_entry_move);
     merged:     mergeLeft's exit gives MRI directly; updateWeightedPosition on a block at its optimum moves nothing.
   Then StaticOutHeap.merge_right_all_sat_closed: mergeRight returns with every slack >= 0.  The out-heap list is not
   touched by mergeLeft (`merge_left_bout`), which supplies `#blocks <= length bout`. *)
From Adapt Require Import Num.Qaux Vpsc.VpscSpec Vpsc.VpscModel Vpsc.VpscInv Vpsc.VpscFrame Vpsc.VpscWalks Vpsc.VpscForest
  Vpsc.VpscStationary Vpsc.StaticModel Vpsc.StaticFrame Vpsc.StaticHeap Vpsc.StaticInv Vpsc.StaticInvB Vpsc.StaticHeapOrd
  Vpsc.StaticGeom Vpsc.StaticDag Vpsc.StaticRefine Vpsc.StaticGeom2 Vpsc.StaticOutHeap Vpsc.StaticSplitML Vpsc.StaticInHeap
  Vpsc.StaticSplitStats Vpsc.StaticSplitSign Vpsc.StaticSplitGlue Vpsc.StaticSplitFirst.
Local Open Scope Q_scope.

(* ------------------------------------------------------------------ 1. mergeLeft never touches the out-heaps *)
Lemma bout_snote_b s t : bout (snote_b s t) = bout s.
Proof. destruct t; reflexivity. Qed.
Lemma bout_snote_slack e s c z : bout (snote_slack e s c z) = bout s.
Proof. unfold snote_slack. destruct (_ && _); reflexivity. Qed.
Lemma bout_s_insert s h c : bout (fst (s_insert s h c)) = bout s.
Proof. unfold s_insert. destruct (h_insert _ _ h c) as [h' t]. cbn [fst]. apply bout_snote_b. Qed.
Lemma bout_s_delete_min s h : bout (fst (s_delete_min s h)) = bout s.
Proof. unfold s_delete_min. destruct (h_delete_min _ _ h) as [h' t]. cbn [fst]. apply bout_snote_b. Qed.
Lemma bout_s_merge s h g : bout (fst (s_merge s h g)) = bout s.
Proof. unfold s_merge. destruct (h_merge _ _ h g) as [h' t]. cbn [fst]. apply bout_snote_b. Qed.
Lemma bout_heap_add b acc c : bout (fst (heap_add b true acc c)) = bout (fst acc).
Proof.
  unfold heap_add. destruct acc as [s1 h1]. cbn [fst].
  destruct (negb _); [rewrite bout_s_insert|]; reflexivity.
Qed.
Lemma bout_set_up_heap_in s b : bout (set_up_heap true s b) = bout s.
Proof.
  unfold set_up_heap.
  match goal with |- context [fold_left ?f ?l ?a] =>
    assert (E : bout (fst (fold_left f l a)) = bout s) end.
  { apply (fold_left_inv _ (fun acc => bout (fst acc) = bout s)); [|reflexivity].
    intros acc v _ Hacc.
    apply (fold_left_inv _ (fun acc => bout (fst acc) = bout s)); [|exact Hacc].
    intros acc' c _ H'. rewrite bout_heap_add. exact H'. }
  match goal with |- context [fold_left ?f ?l ?a] => destruct (fold_left f l a) as [s' h] end.
  cbn [fst] in E. exact E.
Qed.
Lemma fmi_loop_bout : forall fuel s h ood s' h' ood',
  fmi_loop fuel s h ood = Ok (s', h', ood') -> bout s' = bout s.
Proof.
  induction fuel as [|f IH]; intros s h ood s' h' ood' H; [discriminate|].
  cbn [fmi_loop] in H. destruct h as [[v kids]|]; [|inversion H; reflexivity].
  destruct (Nat.eqb _ _).
  - destruct (s_delete_min s (Some (PH v kids))) as [s1 h1] eqn:E.
    rewrite (IH _ _ _ _ _ _ H). rewrite <- (bout_s_delete_min s (Some (PH v kids))), E. reflexivity.
  - destruct (Nat.ltb _ _).
    + destruct (s_delete_min s (Some (PH v kids))) as [s1 h1] eqn:E.
      rewrite (IH _ _ _ _ _ _ H). rewrite <- (bout_s_delete_min s (Some (PH v kids))), E. reflexivity.
    + inversion H. reflexivity.
Qed.
Lemma bout_reinsert acc v : bout (fst (reinsert acc v)) = bout (fst acc).
Proof. destruct acc as [s h]. unfold reinsert. rewrite bout_s_insert. reflexivity. Qed.
Lemma find_min_in_bout s b s' c : find_min_in s b = Ok (s', c) -> bout s' = bout s.
Proof.
  unfold find_min_in. destruct (bin_of s b) as [h|]; [|discriminate]. intros H.
  apply bind_ok in H. destruct H as [[[s1 h1] ood] [H1 H2]].
  apply fmi_loop_bout in H1.
  assert (E : bout (fst (fold_left reinsert ood (s1, h1))) = bout s1).
  { apply (fold_left_inv _ (fun acc => bout (fst acc) = bout s1)); [|reflexivity].
    intros acc v _ Ha. rewrite bout_reinsert. exact Ha. }
  destruct (fold_left reinsert ood (s1, h1)) as [s2 h2]. cbn [fst] in E.
  inversion H2. cbn [bout set_heap set_bin]. congruence.
Qed.
Lemma delete_min_in_bout s b s' : delete_min true s b = Ok s' -> bout s' = bout s.
Proof.
  unfold delete_min. destruct (heap_of s true b) as [h|]; [|discriminate].
  destruct (s_delete_min s h) as [s1 h1] eqn:E. intros H. inversion H.
  cbn [bout set_heap set_bin]. rewrite <- (bout_s_delete_min s h), E. reflexivity.
Qed.
Lemma merge_heaps_in_bout s r l s' : merge_heaps true s r l = Ok s' -> bout s' = bout s.
Proof.
  unfold merge_heaps. intros H.
  apply bind_ok in H. destruct H as [[s1 c1] [H1 H]].
  apply bind_ok in H. destruct H as [[s2 c2] [H2 H]]. cbn [fst] in *.
  apply find_min_in_bout in H1. apply find_min_in_bout in H2.
  destruct (heap_of s2 true r) as [hr|]; [|discriminate]. destruct (heap_of s2 true l) as [hl|]; [|discriminate].
  destruct (s_merge s2 hr hl) as [s3 h] eqn:E. inversion H.
  cbn [bout set_heap set_bin]. rewrite <- H1, <- H2, <- (bout_s_merge s2 hr hl), E. reflexivity.
Qed.
Lemma ml_body_bout s r c s' r' c' : ml_body s r c = Ok (s', r', c') -> bout s' = bout s.
Proof.
  unfold ml_body. intros H.
  apply bind_ok in H. destruct H as [s1 [H1 H]].
  apply delete_min_in_bout in H1.
  set (l := lblk s1 c) in *.
  set (s2 := match bin_of s1 l with None => set_up_heap true s1 l | Some _ => s1 end) in *.
  assert (E2 : bout s2 = bout s).
  { unfold s2. destruct (bin_of s1 l); [exact H1 | rewrite bout_set_up_heap_in; exact H1]. }
  apply bind_ok in H. destruct H as [s5 [H5 H]].
  apply merge_heaps_in_bout in H5. cbn [bout set_base set_ctr] in H5.
  apply bind_ok in H. destruct H as [[s9 c9] [H9 H]].
  apply find_min_in_bout in H9. cbn [bout set_btime] in H9.
  inversion H. subst s' r' c'. cbn [fst]. congruence.
Qed.
Lemma ml_loop_bout : forall fuel s r c s', ml_loop fuel s r c = Ok s' -> bout s' = bout s.
Proof.
  induction fuel as [|f IH]; intros s r c s' H; [discriminate|].
  cbn [ml_loop] in H. destruct c as [c0|]; [|inversion H; reflexivity].
  pose proof (bout_snote_slack TIE_EPS s c0 0) as E0.
  remember (snote_slack TIE_EPS s c0 0) as s0 eqn:Es0. clear Es0.
  destruct (Qltb (sslack s0 c0) 0).
  - apply bind_ok in H. destruct H as [[[s1 r1] c1] [H1 H2]].
    rewrite (IH _ _ _ _ H2), (ml_body_bout _ _ _ _ _ _ H1). exact E0.
  - inversion H. subst s'. exact E0.
Qed.
Theorem merge_left_bout s r s' : merge_left s r = Ok s' -> bout s' = bout s.
Proof.
  unfold merge_left. intros H. apply bind_ok in H. destruct H as [[s1 c1] [H1 H2]].
  apply find_min_in_bout in H1. rewrite bout_set_up_heap_in in H1. cbn [bout set_btime set_ctr] in H1.
  apply ml_loop_bout in H2. cbn [fst] in H2. congruence.
Qed.

(* ------------------------------------------------------------------ 2. blocks outside the final block are untouched *)
Lemma merge_into_off_other b t a c d x y u :
  book b -> (x < length (svars b))%nat -> (y < length (svars b))%nat ->
  blk_of b x = t -> blk_of b y = a -> t <> a ->
  blk_of b u <> a -> off_of (merge_into b t a c d) u = off_of b u.
Proof.
  intros BK Hx Hy Ht Hb Hne Nu. rewrite merge_into_unfold.
  set (s1 := set_cact b (upd_nth (cact b) c true)) in *.
  set (V := bvars (block_of s1 a)) in *.
  assert (HV : V = bvars (block_of b a)) by reflexivity.
  pose proof BK as [K1 K2 K3 K4 K5 K6 K7].
  assert (HVin : forall w, In w V <-> ((w < length (svars b))%nat /\ blk_of b w = a)).
  { intros w. rewrite HV, <- Hb. apply K5. exact Hy. }
  assert (NDV : NoDup V) by (rewrite HV, <- Hb; apply K6; exact Hy).
  assert (Htl : (t < length (blocks s1))%nat) by (cbn [s1 set_cact blocks]; rewrite <- Ht; apply K4; exact Hx).
  assert (F : mfold_facts t d V s1 (fold_left (mstep t d) V s1)).
  { apply mfold_spec; [exact NDV | | exact Htl].
    intros v Hv. apply HVin in Hv. destruct Hv as [Hv _]. cbn [s1 set_cact voff vblk]. rewrite K1, K2. split; exact Hv. }
  destruct F as [F1 F2 F3 F4 F5 F6 F7 F8 F9 F10].
  change (off_of (kill_block (fold_left (mstep t d) V s1) a) u) with (off_of (fold_left (mstep t d) V s1) u).
  destruct (F8 u) as [Eo _]; [rewrite HVin; tauto|]. rewrite Eo. reflexivity.
Qed.

(* every variable outside the current block M is where it was in b0: same block, same block record, same offset *)
Definition mframe (b0 b : st) (M : nat) : Prop :=
  forall u, (u < length (svars b0))%nat -> blk_of b u <> M ->
    blk_of b u = blk_of b0 u /\ block_of b (blk_of b u) = block_of b0 (blk_of b u) /\ off_of b u = off_of b0 u.

Lemma mframe_refl b M : mframe b b M.
Proof. intros u _ _. auto. Qed.

Lemma mframe_step b0 b N c0 (sw : bool) d :
  book b -> svars b = svars b0 -> (c0 < length (scons b))%nat ->
  blk_of b (cr (con_of b c0)) = N -> blk_of b (cl (con_of b c0)) <> N ->
  mframe b0 b N ->
  let Z := blk_of b (cl (con_of b c0)) in
  let t := if sw then Z else N in
  mframe b0 (merge_into b t (if sw then N else Z) c0 d) t.
Proof.
  intros BK Ev Hc0 Er0 Nl0 F Z t.
  destruct (con_ends_lt _ _ BK Hc0) as [Hl0 Hr0].
  set (a := if sw then N else Z). set (b' := merge_into b t a c0 d).
  assert (Nta : t <> a) by (unfold t, a, Z; destruct sw; congruence).
  assert (Ex : exists x y, (x < length (svars b))%nat /\ (y < length (svars b))%nat /\ blk_of b x = t /\ blk_of b y = a).
  { unfold t, a, Z. destruct sw.
    - exists (cl (con_of b c0)), (cr (con_of b c0)). auto.
    - exists (cr (con_of b c0)), (cl (con_of b c0)). auto. }
  destruct Ex as [x [y [Hx [Hy [Ext Eya]]]]].
  pose proof (merge_into_facts b t a c0 d x y BK Hx Hy Ext Eya Nta) as MF. fold b' in MF.
  intros u Hu Nu. rewrite <- Ev in Hu.
  destruct (mg_blk _ _ _ _ _ MF u Hu) as [B1 B2].
  assert (Na : blk_of b u <> a) by (intros E; apply Nu; apply B1; exact E).
  rewrite (B2 Na) in *.
  assert (NN : blk_of b u <> N) by (unfold t, a, Z in *; destruct sw; congruence).
  rewrite Ev in Hu. destruct (F u Hu NN) as [F1 [F2 F3]].
  split; [exact F1|]. split.
  - rewrite (mg_other _ _ _ _ _ MF _ Nu Na). exact F2.
  - unfold b'. rewrite (merge_into_off_other b t a c0 d x y u BK Hx Hy Ext Eya Nta Na). exact F3.
Qed.

(* StaticSplitML.ml_loop_split, also carrying the frame *)
Theorem ml_loop_split_frame Yb rv b0 : forall fuel s r c s',
  MLS Yb rv (base s) r -> ml_roots_ok fuel s r c -> svars (base s) = svars b0 -> mframe b0 (base s) r ->
  ml_loop fuel s r c = Ok s' ->
  exists M, MLS Yb rv (base s') M /\
    (forall i, (i < length (scons (base s')))%nat -> blk_of (base s') (cr (con_of (base s') i)) = M ->
               blk_of (base s') (cl (con_of (base s') i)) <> M -> 0 <= slack_val (base s') i) /\
    scons (base s') = scons (base s) /\ svars (base s') = svars (base s) /\ mframe b0 (base s') M.
Proof.
  induction fuel as [|f IH]; intros s r c s' I R Ev0 FR H; [discriminate|].
  rewrite ml_roots_ok_S in R. destruct R as [RO R]. cbn [ml_loop] in H.
  destruct c as [c0|].
  - assert (E0 : base (snote_slack TIE_EPS s c0 0) = base s) by apply base_snote_slack.
    remember (snote_slack TIE_EPS s c0 0) as s0 eqn:Es0. clear Es0.
    destruct RO as [Hc0 [Er0 [Nl0 RM]]]. unfold lblk, rblk, sslack in Er0, Nl0, RM.
    destruct (Qltb (sslack s0 c0) 0) eqn:Q.
    + apply bind_ok in H. destruct H as [[[s1 r1] c1] [H1 H2]]. rewrite H1 in R.
      destruct (ml_body_exact _ _ _ _ _ _ H1) as [Eb El]. cbv zeta in Eb, El. rewrite E0 in Eb, El.
      pose proof (neg_of_Qltb' s0 c0 Q) as Hneg. rewrite E0 in Hneg.
      pose proof (s_bk _ _ _ _ I) as BK.
      set (b := base s) in *.
      set (sw := Nat.ltb (length (bvars (block_of b r))) (length (bvars (block_of b (blk_of b (cl (con_of b c0))))))) in *.
      destruct (MLS_step Yb rv b r c0 sw I Hc0 Er0 Nl0 Hneg RM) as [I' [Es Ev]].
      pose proof (mframe_step b0 b r c0 sw (if sw then - mdist b c0 else mdist b c0) BK Ev0 Hc0 Er0 Nl0 FR) as FR'.
      cbv zeta in I', Es, Ev, FR'. rewrite <- Eb in I', Es, Ev, FR'. rewrite <- El in I', FR'.
      assert (Ev1 : svars (base s1) = svars b0) by congruence.
      destruct (IH s1 r1 c1 s' I' R Ev1 FR' H2) as [M [IM [HI [E1 [E2 E3]]]]].
      exists M. split; [exact IM|]. split; [exact HI|]. split; [congruence|]. split; [congruence | exact E3].
    + inversion H. subst s'. rewrite E0. exists r. split; [exact I|]. split; [|auto].
      pose proof (nonneg_of_Qltb' s0 c0 Q) as Hge. rewrite E0 in Hge.
      intros i Hi Eri Nli. destruct (RM i Hi Eri Nli) as [X|X]; lra.
  - inversion H. subst s'. exists r. split; [exact I|]. split; [|auto].
    intros i Hi Eri Nli. apply RO; assumption.
Qed.

(* Blocks::mergeLeft(l) inside Blocks::split, with the frame: StaticInHeap.merge_left_split_closed + mframe *)
Theorem merge_left_split_frame Yb rv s l s' :
  MLS Yb rv (base s) l -> HW (stamp s l) l -> inhabited (base s) l ->
  merge_left s l = Ok s' ->
  exists M, MLS Yb rv (base s') M /\
    (forall i, (i < length (scons (base s')))%nat -> blk_of (base s') (cr (con_of (base s') i)) = M ->
               blk_of (base s') (cl (con_of (base s') i)) <> M -> 0 <= slack_val (base s') i) /\
    scons (base s') = scons (base s) /\ svars (base s') = svars (base s) /\ mframe (base s) (base s') M.
Proof.
  intros I HWs Inh H. unfold merge_left in H. apply bind_ok in H. destruct H as [[s1 c1] [H1 H2]]. cbn [fst snd] in H2.
  pose proof (find_min_in_base _ _ _ _ H1) as E1. rewrite base_set_up_heap in E1. cbn [base set_btime set_ctr] in E1.
  assert (I1 : MLS Yb rv (base s1) l) by (rewrite E1; exact I).
  assert (R1 : ml_roots_ok (loop_fuel s) s1 l c1) by (apply MLH_roots; apply (MLH_entry s l s1 c1); assumption).
  assert (F1 : mframe (base s) (base s1) l) by (rewrite E1; apply mframe_refl).
  destruct (ml_loop_split_frame Yb rv (base s) _ _ _ _ _ I1 R1 (f_equal svars E1) F1 H2) as [M [IM [HI [A [B C]]]]].
  exists M. split; [exact IM|]. split; [exact HI|]. rewrite E1 in A, B. auto.
Qed.

(* ------------------------------------------------------------------ 3. updateWeightedPosition(r') and mergeRight(r') *)
Lemma geo2_Yeq b b' N :
  wf_vars (svars b) -> scons b' = scons b -> svars b' = svars b ->
  (forall u, blk_of b' u = blk_of b u) -> (forall u, Yof b' u == Yof b u) ->
  geo2 b N -> geo2 b' N.
Proof.
  intros W Es Ev EB EY [G1 G2 G3].
  assert (W' : wf_vars (svars b')) by (rewrite Ev; exact W).
  assert (Kcon : forall c, con_of b' c = con_of b c) by (intros c; unfold con_of; rewrite Es; reflexivity).
  assert (SE : forall c, slack_val b' c == slack_val b c).
  { intros c. rewrite (slack_Y' b' c W'), (slack_Y' b c W), Kcon, !EY. reflexivity. }
  constructor.
  - intros c Hc Iff. rewrite Es in Hc. rewrite !Kcon, !EB in Iff. rewrite SE. apply G1; assumption.
  - intros i Hi Er Nl. rewrite Es in Hi. rewrite !Kcon, !EB in Er, Nl. rewrite SE. apply G2; assumption.
  - intros i o Hi Ho Eri Nli Elo Nro. rewrite Es in Hi, Ho. rewrite !Kcon, !EB in Eri, Nli, Elo, Nro.
    rewrite !SE. apply G3; assumption.
Qed.

Theorem split_second_half Yb rv s4 M s6 :
  MLS Yb rv (base s4) M ->
  (forall i, (i < length (scons (base s4)))%nat -> blk_of (base s4) (cr (con_of (base s4) i)) = M ->
             blk_of (base s4) (cl (con_of (base s4) i)) <> M -> 0 <= slack_val (base s4) i) ->
  T2 s4 -> length (ctime s4) = length (scons (base s4)) -> (length (blocks (base s4)) <= length (bout s4))%nat ->
  let R := blk_of (base s4) rv in
  let b5 := update_weighted_position (base s4) R in
  (R <> M -> posn (block_of (base s4) R) <= posn (block_of b5 R)) ->
  merge_right (set_base s4 b5) R = Ok s6 ->
  all_sat0 (base s6) /\ book (base s6) /\ act_inv (base s6) /\ all_blk_ok (base s6) /\
  scons (base s6) = scons (base s4) /\ svars (base s6) = svars (base s4).
Proof.
  intros I HI HT2 Lct Lbo R b5 Hrho HM.
  pose proof I as [BK AI W ST YS Hrv MODE].
  set (b4 := base s4) in *.
  pose proof (ST rv Hrv) as SR. fold R in SR. destruct SR as [N [Sc _]]. cbv zeta in N, Sc.
  assert (HR : (R < length (blocks b4))%nat) by (apply (bk_blk _ BK); exact Hrv).
  destruct (uwp_blk_ok b4 R W HR N Sc) as [OK5 [Ev [Es [Eo [Evb [Eca [Lb [Ebv [Ebs Oth]]]]]]]]].
  cbv zeta in OK5, Ev, Es, Eo, Evb, Eca, Lb, Ebv, Ebs, Oth. fold b5 in OK5, Ev, Es, Eo, Evb, Eca, Lb, Ebv, Ebs, Oth.
  destruct (update_weighted_position_preserves b4 R BK AI) as [BK5 AI5]. fold b5 in BK5, AI5.
  assert (W5 : wf_vars (svars b5)) by (rewrite Ev; exact W).
  assert (Blk : forall u, blk_of b5 u = blk_of b4 u) by (intros u; unfold blk_of; rewrite Evb; reflexivity).
  assert (Off : forall u, off_of b5 u = off_of b4 u) by (intros u; unfold off_of; rewrite Eo; reflexivity).
  set (rho := bscale (block_of b4 R) * (posn (block_of b5 R) - posn (block_of b4 R))).
  assert (Y1 : forall u, blk_of b4 u = R -> Yof b5 u == Yof b4 u + rho).
  { intros u E. unfold Yof, rho. rewrite Blk, Off, E, Ebs. ring. }
  assert (Y2 : forall u, blk_of b4 u <> R -> Yof b5 u == Yof b4 u).
  { intros u NE. unfold Yof. rewrite Blk, Off, (Oth _ NE). reflexivity. }
  assert (OKall : (forall u, (u < length (svars b4))%nat -> blk_of b4 u <> R -> blk_ok b4 (blk_of b4 u)) -> all_blk_ok b5).
  { intros H u Hu. rewrite Ev in Hu. rewrite Blk. destruct (Nat.eq_dec (blk_of b4 u) R) as [E|NE].
    - rewrite E. exact OK5.
    - apply (blk_ok_frame b4); [exact Ev | exact Eo | apply Oth; exact NE | apply H; assumption]. }
  assert (MI : MRI b5 R).
  { destruct (Nat.eq_dec R M) as [EM|NM].
    - (* r was merged into l's block: nothing moves *)
      destruct (ml_loop_split_merged Yb rv b4 M I EM HI) as [_ _ _ OK4 G4].
      pose proof (OK4 rv Hrv) as OKR. fold R in OKR.
      destruct (blk_ok_Y b4 R W OKR) as [U4 P4]. destruct (blk_ok_Y b5 R W5 OK5) as [U5 P5].
      rewrite Ev, Ebv, Ebs in P5.
      assert (ET : tsum (svars b4) (off_of b5) (bvars (block_of b4 R)) == tsum (svars b4) (off_of b4) (bvars (block_of b4 R))).
      { apply tsum_ext. intros v _. rewrite Off. reflexivity. }
      rewrite ET, <- P4 in P5.
      assert (R0 : rho == 0) by (unfold rho; lra).
      constructor; try assumption.
      + apply OKall. intros u Hu _. apply OK4. exact Hu.
      + rewrite <- EM in G4. apply (geo2_Yeq b4 b5 R W Es Ev Blk); [|exact G4].
        intros u. destruct (Nat.eq_dec (blk_of b4 u) R) as [E|NE]; [rewrite (Y1 u E), R0; ring | exact (Y2 u NE)].
    - (* r was not merged: it moves rigidly to the right, to its optimum *)
      destruct (ml_loop_split_not_merged Yb rv b4 M I NM HI) as [SAT4 OE]. fold R in OE.
      assert (P : 0 <= rho).
      { unfold rho. apply Qmult_le_0_compat; [lra|]. pose proof (Hrho NM). lra. }
      constructor; try assumption.
      + apply OKall. exact OE.
      + apply (geo2_entry_move b4 b5 R rho BK W SAT4 Es Ev); [intros u _; apply Blk | exact P | |].
        * intros u _ E. apply Y1. exact E.
        * intros u _ NE. apply Y2. exact NE. }
  assert (Inh : inhabited (base (set_base s4 b5)) R).
  { exists rv. cbn [base set_base]. split; [rewrite Ev; exact Hrv | apply Blk]. }
  destruct (merge_right_all_sat_closed (set_base s4 b5) R s6) as [A [B1 [B2 [B3 [B4 B5]]]]].
  - exact MI.
  - exact Inh.
  - intros B. apply HT2.
  - cbn [ctime base set_base]. rewrite Es. exact Lct.
  - cbn [bout base set_base]. rewrite Lb. exact Lbo.
  - exact HM.
  - cbn [base set_base] in B4, B5. rewrite Es in B4. rewrite Ev in B5. auto 6.
Qed.

(* ------------------------------------------------------------------ 4. b->deleted = true changes nothing that matters *)
Lemma kill_block_blk s b X :
  let K' := block_of (kill_block s b) X in let K := block_of s X in
  bvars K' = bvars K /\ posn K' = posn K /\ bscale K' = bscale K /\ AB K' = AB K /\ AD K' = AD K /\ A2 K' = A2 K.
Proof.
  cbv zeta. unfold kill_block, set_block, set_blocks, block_of. cbn [blocks].
  match goal with |- context [upd_nth ?l ?n ?v] => destruct (nth_upd_nth_cases l n X v dblk) as [E|[E1 [E2 E3]]] end.
  - rewrite E. repeat split; reflexivity.
  - rewrite E3. subst X. cbn [bvars posn bscale AB AD A2]. repeat split; reflexivity.
Qed.
Lemma kill_block_position s b i : position (kill_block s b) i = position s i.
Proof.
  unfold position. change (blk_of (kill_block s b) i) with (blk_of s i).
  destruct (kill_block_blk s b (blk_of s i)) as [_ [E1 [E2 _]]]. cbv zeta in E1, E2. rewrite E1, E2. reflexivity.
Qed.
Lemma kill_block_slack s b c : slack_val (kill_block s b) c = slack_val s c.
Proof. unfold slack_val. rewrite !kill_block_position. reflexivity. Qed.
Lemma kill_block_book_act s b : book s -> act_inv s -> book (kill_block s b) /\ act_inv (kill_block s b).
Proof.
  intros BK AI. split.
  - apply (book_frame_bvars s); try reflexivity; [|intros B; exact (proj1 (kill_block_blk s b B))|exact BK].
    unfold kill_block, set_block, set_blocks. cbn [blocks]. apply upd_nth_length.
  - apply (act_inv_frame s); try reflexivity. exact AI.
Qed.
Lemma kill_block_blk_ok s b X : blk_ok s X -> blk_ok (kill_block s b) X.
Proof.
  unfold blk_ok. cbv zeta. destruct (kill_block_blk s b X) as [E1 [E2 [E3 [E4 [E5 E6]]]]]. cbv zeta in *.
  rewrite E1, E2, E3, E4, E5, E6. change (svars (kill_block s b)) with (svars s).
  assert (EO : forall V, tsum (svars s) (off_of (kill_block s b)) V == tsum (svars s) (off_of s) V).
  { intros V. apply tsum_ext. intros v _. reflexivity. }
  rewrite EO. auto.
Qed.

Lemma ml_loop_lblocks : forall fuel s r c s', ml_loop fuel s r c = Ok s' ->
  length (blocks (base s')) = length (blocks (base s)).
Proof.
  induction fuel as [|f IH]; intros s r c s' H; [discriminate|].
  cbn [ml_loop] in H. destruct c as [c0|]; [|inversion H; reflexivity].
  pose proof (base_snote_slack TIE_EPS s c0 0) as E0.
  remember (snote_slack TIE_EPS s c0 0) as s0 eqn:Es0. clear Es0.
  destruct (Qltb (sslack s0 c0) 0).
  - apply bind_ok in H. destruct H as [[[s1 r1] c1] [H1 H2]].
    destruct (ml_body_base _ _ _ _ _ _ H1) as [t [b [d [E _]]]].
    rewrite (IH _ _ _ _ H2), E, merge_into_lblocks, E0. reflexivity.
  - inversion H. subst s'. rewrite E0. reflexivity.
Qed.
Lemma merge_left_lblocks s r s' : merge_left s r = Ok s' -> length (blocks (base s')) = length (blocks (base s)).
Proof.
  unfold merge_left. intros H. apply bind_ok in H. destruct H as [[s1 c1] [H1 H2]].
  apply find_min_in_base in H1. rewrite base_set_up_heap in H1. cbn [base set_btime set_ctr] in H1.
  apply ml_loop_lblocks in H2. cbn [fst] in H2. rewrite H1 in H2. exact H2.
Qed.

(* ------------------------------------------------------------------ 5. one whole Blocks::split *)
(* From the invariants Solver::refine's second loop works in, Blocks::split(b, l, r, c) - Block::split, mergeLeft(l),
   updateWeightedPosition(r'), mergeRight(r'), b->deleted = true - returns with EVERY slack >= 0 and the structural
   invariants (book, act_inv, all blocks at their optimum with correct statistics) re-established. *)
Theorem static_split_all_sat s b c s7 :
  book (base s) -> act_inv (base s) -> forest (base s) -> wf_vars (svars (base s)) -> all_blk_ok (base s) -> all_sat0 (base s) ->
  act_of (base s) c = true -> b = blk_of (base s) (cl (con_of (base s) c)) ->
  stationary_block (base s) (base s) b -> lm_of (base s) c <= 0 ->
  T2 s -> (forall x, (x < length (scons (base s)))%nat -> ctime_of s x = ctr s) ->
  length (ctime s) = length (scons (base s)) ->
  length (bin s) = length (blocks (base s)) -> length (btime s) = length (blocks (base s)) ->
  (length (blocks (base s)) <= length (bout s))%nat ->
  (forall B, inhabited (base s) B -> exists h, bin_of s B = Some h /\ hgoodC s h /\ hsound s B h /\ hcomplete s B h) ->
  static_split s b c = Ok s7 ->
  all_sat0 (base s7) /\ book (base s7) /\ act_inv (base s7) /\ all_blk_ok (base s7) /\
  scons (base s7) = scons (base s) /\ svars (base s7) = svars (base s).
Proof.
  intros BK AI FO W OK SAT Hact Eb ST Hlm HT2 Hct Lct Lbi Lbt Hbo HG HS.
  rewrite static_split_unfold in HS. apply bind_ok in HS. destruct HS as [[[bs l] r] [H HS]].
  apply bind_ok in HS. destruct HS as [s4 [HM HS]]. cbv zeta in HS.
  apply bind_ok in HS. destruct HS as [s6 [HR HS]]. inversion HS. subst s7. clear HS. cbn [base set_base].
  set (B0 := base s) in *. subst b. set (b := blk_of B0 (cl (con_of B0 c))) in *.
  destruct (split_glue B0 c bs l r BK AI FO W Hact H)
    as [BKs [AIs [_ [Ev [Es [Eo [El [Er [Lb [Hbl [Ecl [Ecr [Bo [Bb [Bback [ACT [_ [Old [OKl OKr]]]]]]]]]]]]]]]]]]].
  assert (Hc : (c < length (scons B0))%nat) by (rewrite <- (bk_cact _ BK); apply act_of_lt; exact Hact).
  destruct (con_ends_lt _ _ BK Hc) as [Hcl Hcr].
  set (n := length (svars B0)) in *.
  set (bs2 := set_blist bs (blist bs ++ [l; r])).
  assert (BK2 : book bs2) by (apply (book_frame bs); try reflexivity; exact BKs).
  assert (AI2 : act_inv bs2) by (apply (act_inv_frame bs); try reflexivity; exact AIs).
  assert (OK2 : forall X, blk_ok bs X -> blk_ok bs2 X) by (intros X; apply blk_ok_frame; reflexivity).
  assert (Hr2 : (r < length (blocks bs2))%nat) by (change (length (blocks bs2)) with (length (blocks bs)); lia).
  assert (Nlr : l <> r) by lia.
  set (s3 := split_pre s b bs l r) in *.
  assert (E3 : base s3 = repos bs2 b r) by apply split_pre_base.
  set (B3 := repos bs2 b r) in *.
  assert (BK3 : book B3) by (apply repos_book; assumption).
  assert (AI3 : act_inv B3) by (apply repos_act_inv; assumption).
  assert (Blk3 : forall u, blk_of B3 u = blk_of bs u) by reflexivity.
  assert (Ev3 : svars B3 = svars B0) by exact Ev.
  assert (Es3 : scons B3 = scons B0) by exact Es.
  assert (Kc3 : forall k, con_of B3 k = con_of B0 k) by (intros k; unfold con_of; rewrite Es3; reflexivity).
  assert (Kcs : forall k, con_of bs k = con_of B0 k) by (intros k; unfold con_of; rewrite Es; reflexivity).
  assert (W3 : wf_vars (svars B3)) by (rewrite Ev3; exact W).
  (* where a variable ends up *)
  assert (Cases : forall u, (u < n)%nat ->
            (blk_of B0 u <> b /\ blk_of bs u = blk_of B0 u /\ blk_of bs u <> l /\ blk_of bs u <> r) \/
            (blk_of B0 u = b /\ (blk_of bs u = l \/ blk_of bs u = r))).
  { intros u Hu. destruct (Nat.eq_dec (blk_of B0 u) b) as [E|E]; [right; split; [exact E | apply Bb; assumption]|].
    left. pose proof (Bo u Hu E) as X. pose proof (bk_blk _ BK u Hu) as Lt. split; [exact E|]. split; [exact X|]. rewrite X. lia. }
  assert (OKold : forall u, (u < n)%nat -> blk_of B0 u <> b -> blk_ok bs (blk_of B0 u)).
  { intros u Hu Nb. apply (blk_ok_frame B0); [exact Ev | exact Eo | apply Old, (bk_blk _ BK u Hu) | apply OK; exact Hu]. }
  assert (OK3 : forall u, (u < n)%nat -> blk_of bs u <> r -> blk_ok B3 (blk_of bs u)).
  { intros u Hu Nr. apply repos_blk_ok; [exact Nr|]. apply OK2.
    destruct (Cases u Hu) as [[Nb [X _]]|[_ [X|X]]]; [rewrite X; apply OKold; assumption | rewrite X; exact OKl | contradiction]. }
  assert (ST3 : all_blk_st B3).
  { intros u Hu. rewrite Ev3 in Hu. rewrite Blk3. destruct (Nat.eq_dec (blk_of bs u) r) as [E|E].
    - rewrite E. apply repos_blk_st_r; [exact Hr2 | apply OK2; exact OKr].
    - apply blk_ok_st. apply OK3; assumption. }
  set (rv := cr (con_of B0 c)) in *.
  assert (Erv : blk_of B3 rv = r) by (rewrite Blk3; exact Ecr).
  assert (OE3 : ok_except B3 (blk_of B3 rv)).
  { intros u Hu Nr. rewrite Ev3 in Hu. rewrite Erv in Nr. change (blk_of B3 u) with (blk_of bs u) in *. apply OK3; assumption. }
  (* the sign lemma: l moves left *)
  destruct (split_left_half_moves_left B0 bs b c l 1 BK W Hc Hact ST Ev Eo BKs) as [dl [Hdl HYl]]; try assumption.
  { intros i Hi Ei. apply Bback; [exact Hi | left; exact Ei]. }
  { exists (cl (con_of B0 c)). split; [exact Hcl | exact Ecl]. }
  { intros k Hk Ak Nk. rewrite (ACT k Hk Ak Nk). reflexivity. }
  { left. split; [exact Ecl|]. split; [fold rv; rewrite Ecr; congruence | reflexivity]. }
  { reflexivity. }
  assert (Ybs2 : forall u, Yof bs2 u = Yof bs u) by reflexivity.
  assert (YL : forall u, (u < n)%nat -> blk_of B3 u = l -> Yof B3 u == Yof B0 u - dl).
  { intros u Hu E. rewrite Blk3 in E. unfold B3. rewrite (repos_Y_other bs2 b r u) by (change (blk_of bs2 u) with (blk_of bs u); congruence).
    rewrite Ybs2. apply HYl; assumption. }
  assert (YO : forall u, (u < n)%nat -> blk_of B3 u <> l -> Yof B3 u == Yof B0 u).
  { intros u Hu Nl. rewrite Blk3 in Nl. destruct (Cases u Hu) as [[Nb [X [X1 X2]]]|[Eb' [X|X]]]; [| contradiction |].
    - unfold B3. rewrite (repos_Y_other bs2 b r u) by (change (blk_of bs2 u) with (blk_of bs u); exact X2).
      rewrite Ybs2. unfold Yof. rewrite X. rewrite (Old _ (bk_blk _ BK u Hu)).
      assert (EO : off_of bs u = off_of B0 u) by (unfold off_of; rewrite Eo; reflexivity). rewrite EO. reflexivity.
    - unfold B3. rewrite (repos_Y_r bs2 b r Hr2 u (OK2 r OKr) X).
      change (block_of bs2 b) with (block_of bs b). rewrite (Old b) by (rewrite <- El; exact Hbl).
      unfold Yof. rewrite Eb'.
      assert (EO : off_of bs2 u = off_of B0 u) by (unfold off_of; change (voff bs2) with (voff bs); rewrite Eo; reflexivity).
      rewrite EO. reflexivity. }
  assert (YS3 : ysat (Yof B0) B3).
  { intros k Hk. rewrite Es3 in Hk. rewrite Kc3. rewrite <- (slack_Y' B0 k W). apply SAT. exact Hk. }
  assert (I3 : MLS (Yof B0) rv (base s3) l).
  { rewrite E3. apply (MLS_entry (Yof B0) rv B3 l dl); try assumption.
    - rewrite Erv. congruence.
    - rewrite Ev3. exact Hcr.
    - intros u Hu E. rewrite Ev3 in Hu. apply YL; assumption.
    - intros u Hu E. rewrite Ev3 in Hu. apply YO; assumption. }
  assert (HW3 : HW (stamp s3 l) l).
  { apply (split_entry_HW s s3 b l r HT2 Hct Lct Lbi Lbt W BK HG eq_refl eq_refl eq_refl eq_refl).
    - rewrite E3. exact Ev3.
    - rewrite E3. exact Es3.
    - exact El.
    - exact Er.
    - rewrite E3. unfold B3, repos, set_block, set_blocks. cbn [blocks]. rewrite upd_nth_length. exact Lb.
    - exact Hbl.
    - intros u Hu Nb. rewrite E3, Blk3. apply Bo; assumption.
    - intros u Hu Eb'. rewrite E3, Blk3. apply Bb; assumption.
    - intros u Hu Nl. rewrite E3 in *. apply YO; assumption.
    - rewrite E3. exact BK3.
    - rewrite E3. exact AI3.
    - rewrite E3. exact ST3. }
  assert (Inh3 : inhabited (base s3) l).
  { rewrite E3. exists (cl (con_of B0 c)). split; [rewrite Ev3; exact Hcl | rewrite Blk3; exact Ecl]. }
  destruct (merge_left_split_frame (Yof B0) rv s3 l s4 I3 HW3 Inh3 HM) as [M [IM [HI [A1 [A2 FR]]]]].
  destruct (merge_left_split_HW s3 l s4 HW3 Inh3 HM) as [M' [c' [HW4 _]]].
  pose proof (w_T2 _ _ HW4) as T24. pose proof (w_lct _ _ HW4) as Lct4.
  rewrite E3 in A1, A2, FR.
  set (b4 := base s4) in *.
  assert (Erb : rblk s4 c = blk_of b4 rv).
  { unfold rblk. fold b4. unfold rv, con_of. rewrite A1, Es3. reflexivity. }
  rewrite Erb in HR.
  assert (Lbo4 : (length (blocks b4) <= length (bout s4))%nat).
  { unfold b4. rewrite (merge_left_lblocks _ _ _ HM), (merge_left_bout _ _ _ HM), E3.
    change (bout s3) with (bout s ++ [None; None]). rewrite app_length. cbn [length].
    unfold B3, repos, set_block, set_blocks. cbn [blocks]. rewrite upd_nth_length.
    change (length (blocks bs2)) with (length (blocks bs)). lia. }
  pose proof IM as [BK4 AI4 W4 ST4 _ Hrv4 _].
  assert (Hrho : blk_of b4 rv <> M ->
                 posn (block_of b4 (blk_of b4 rv)) <= posn (block_of (update_weighted_position b4 (blk_of b4 rv)) (blk_of b4 rv))).
  { intros NM.
    assert (Hrv3 : (rv < length (svars B3))%nat) by (rewrite Ev3; exact Hcr).
    destruct (FR rv Hrv3 NM) as [F1 [F2 _]]. rewrite Erv in F1. rewrite F1 in F2 |- *.
    destruct (repos_block_r bs2 b r Hr2) as [Rv [Rs [Rab [Rad [Ra2 Rp]]]]]. fold B3 in Rv, Rs, Rab, Rad, Ra2, Rp.
    change (block_of bs2 r) with (block_of bs r) in Rv, Rs, Rab, Rad, Ra2, Rp.
    change (block_of bs2 b) with (block_of bs b) in Rp.
    rewrite (Old b) in Rp by (rewrite <- El; exact Hbl).
    pose proof OKr as [Nr [Scr _]]. cbv zeta in Nr, Scr.
    assert (HR4 : (r < length (blocks b4))%nat) by (rewrite <- F1; apply (bk_blk _ BK4); exact Hrv4).
    assert (N4 : bvars (block_of b4 r) <> []) by (rewrite F2, Rv; exact Nr).
    assert (S4 : 0 < bscale (block_of b4 r)) by (rewrite F2, Rs; exact Scr).
    destruct (uwp_blk_ok b4 r W4 HR4 N4 S4) as [OK5 [Ev5 [_ [Eo5 [_ [_ [_ [Ebv [Ebs _]]]]]]]]].
    cbv zeta in OK5, Ev5, Eo5, Ebv, Ebs. set (b5 := update_weighted_position b4 r) in *.
    assert (W5 : wf_vars (svars b5)) by (rewrite Ev5; exact W4).
    assert (Wbs : wf_vars (svars bs)) by (rewrite Ev; exact W).
    destruct (blk_ok_Y b5 r W5 OK5) as [_ P5]. destruct (blk_ok_Y bs r Wbs OKr) as [_ Pr].
    rewrite Ev5, A2, Ev3, Ebv, Ebs, F2, Rv, Rs in P5. rewrite Ev in Pr.
    assert (ET : tsum (svars B0) (off_of b5) (bvars (block_of bs r)) == tsum (svars B0) (off_of bs) (bvars (block_of bs r))).
    { apply tsum_ext. intros w Hw. rewrite <- Rv, <- F2, <- F1 in Hw. apply (bk_mem _ BK4 rv w Hrv4) in Hw.
      destruct Hw as [Hw Ew].
      assert (E5 : off_of b5 w = off_of b4 w) by (unfold off_of; rewrite Eo5; reflexivity).
      rewrite A2 in Hw. destruct (FR w Hw) as [_ [_ F3]]; [rewrite Ew; exact NM|]. rewrite E5, F3. reflexivity. }
    rewrite ET, <- Pr in P5.
    assert (SG : bscale (block_of B0 b) * posn (block_of B0 b) <= bscale (block_of bs r) * posn (block_of bs r)).
    { apply (split_right_half_optimum_right B0 bs b c r (-1) BK W Hc Hact ST Ev Eo BKs); try assumption.
      - intros i Hi Ei. apply Bback; [exact Hi | right; exact Ei].
      - exists rv. split; [exact Hcr | exact Ecr].
      - intros k Hk Ak Nk. rewrite (ACT k Hk Ak Nk). reflexivity.
      - right. split; [rewrite Ecl; exact Nlr|]. split; [exact Ecr | reflexivity].
      - reflexivity. }
    rewrite F2.
    set (p4 := posn (block_of B3 r)) in *. set (p5 := posn (block_of b5 r)) in *.
    set (S := bscale (block_of bs r)) in *. set (pr := posn (block_of bs r)) in *.
    set (X := bscale (block_of B0 b) * posn (block_of B0 b)) in *.
    assert (Rp' : p4 == X / S) by (rewrite Rp; unfold X; field; lra).
    clearbody p4 p5 S pr X.
    assert (E4 : S * p4 == X) by (rewrite Rp'; field; lra).
    assert (L : S * p4 <= S * p5) by lra.
    apply Qmult_lt_0_le_reg_r with (z := S); [exact Scr|]. lra. }
  destruct (split_second_half (Yof B0) rv s4 M s6 IM HI T24 Lct4 Lbo4 Hrho HR) as [C1 [C2 [C3 [C4 [C5 C6]]]]].
  fold b4 in C5, C6.
  destruct (kill_block_book_act (base s6) b C2 C3) as [D1 D2].
  split; [|split; [exact D1|split; [exact D2|split; [|split]]]].
  - intros k Hk. rewrite kill_block_slack. apply C1. exact Hk.
  - intros u Hu. apply kill_block_blk_ok. apply C4. exact Hu.
  - change (scons (kill_block (base s6) b)) with (scons (base s6)). rewrite C5, A1. exact Es3.
  - change (svars (kill_block (base s6) b)) with (svars (base s6)). rewrite C6, A2. exact Ev3.
Qed.
