(* C02: the multipliers the IncSolver model computes (Block::findMinLM = reset_active_lm + compute_dfdv, block.cpp:297-335,
   :444-496) packaged as a KKT multiplier vector, and the boolean stationarity check evaluated by the extracted model.
   NO PROOFS here (model-like file: it is extracted and run by extract/c01_driver.ml); the proofs are in VpscStationary.v.

     lam_of s       : the multiplier vector read off a state: lm on active constraints, 0 on the others
     relm s         : findMinLM on the block of every variable, WITHOUT splitting - what the next splitBlocks would
                      compute first; the real solver's lm fields are stale at return (they are refreshed only there)
     fresh_blockb   : AB / AD / A2 of the block are the sums over its variables for the CURRENT offsets and desired
                      positions, and posn = (AD-AB)/A2 (true after moveBlocks; AD is stale between a change of a desired
                      position and the next moveBlocks)
     stationarityb  : with the recomputed multipliers the stationarity residual of KKT.v is 0 at every variable whose
                      block is fresh
     exit_gap       : the proved duality-gap bound (KKT.kkt_gap) for the state's positions and recomputed multipliers *)
From Adapt Require Import Num.Qaux Vpsc.VpscSpec Vpsc.KKT Vpsc.VpscModel Vpsc.VpscInvB.
Local Open Scope Q_scope.

Definition lam_at (s : st) (c : nat) : Q := if act_of s c then lm_of s c else 0.
Definition lam_of (s : st) : list Q := map (lam_at s) (seq 0 (length (scons s))).
Definition lcons_of (s : st) : list (con * Q) := combine (scons s) (lam_of s).

(* findMinLM of block b, keeping only the state *)
Definition relm_block (s : st) (b : nat) : res st := bind (find_min_lm s b) (fun a => Ok (snd a)).
Definition relm_blocks (s : st) (bl : list nat) : res st :=
  fold_left (fun acc b => bind acc (fun s1 => relm_block s1 b)) bl (Ok s).
Definition var_blocks (s : st) : list nat := nodup Nat.eq_dec (map (blk_of s) (seq 0 (length (svars s)))).
Definition relm (s : st) : res st := relm_blocks s (var_blocks s).

Definition fresh_blockb (s : st) (b : nat) : bool :=
  let B := block_of s b in
  Qeqb (A2 B) (sum_a2 s (bscale B) (bvars B)) && Qeqb (AB B) (sum_ab s (bscale B) (bvars B)) &&
  Qeqb (AD B) (sum_ad s (bscale B) (bvars B)) && Qeqb (posn B) ((AD B - AB B) / A2 B).

Definition xs_of (s : st) : place := place_of (final_positions s).

Definition stationarityb (s : st) : bool :=
  match relm s with
  | Ok s' =>
      forallb (fun i => negb (fresh_blockb s (blk_of s i)) ||
                        Qeqb (stat_res (svars s) (lcons_of s') (xs_of s) i) 0)
              (seq 0 (length (svars s)))
  | _ => false
  end.

(* number of variables at which stationarityb is not vacuous (for the evidence) *)
Definition fresh_count (s : st) : nat :=
  length (filter (fun i => fresh_blockb s (blk_of s i)) (seq 0 (length (svars s)))).

(* the smallest recomputed multiplier of an active inequality (None: there is none) *)
Definition min_lam (s : st) : option Q :=
  fold_left (fun acc c =>
               if act_of s c && negb (ceq (con_of s c)) then
                 match acc with None => Some (lm_of s c) | Some m => if Qltb (lm_of s c) m then Some (lm_of s c) else acc end
               else acc) (seq 0 (length (scons s))) None.

(* the proved gap bound for the state's positions with its recomputed multipliers (negative ones clipped to 0) *)
Definition exit_gap (s : st) : option Q :=
  match relm s with
  | Ok s' => kkt_gap (svars s) (scons s) (final_positions s) (lam_of s')
  | _ => None
  end.
Definition exit_min_lam (s : st) : option Q :=
  match relm s with Ok s' => min_lam s' | _ => None end.

(* the lm vector has one entry per constraint (hypothesis of the stationarity theorems; kept by every walk) *)
Definition lm_lenb (s : st) : bool := Nat.eqb (length (clm s)) (length (scons s)).
(* what the extracted model evaluates on every state it visits *)
Definition kkt_stateb (s : st) : bool := lm_lenb s && stationarityb s.
