(* Block::split on a forest state (every block's active constraints form a spanning tree, VpscForest.forest), for the
   active constraint c inside block b: the facts the static-solver proofs use, in one place - the invariants book /
   act_inv / forest survive, the variables of b are distributed over the two NEW blocks l (side of left(c)) and r (side
   of right(c)), nothing else moves, every other active constraint keeps both ends in one block, both halves have correct
   statistics at their optimum.  (From VpscForest.split_spec / split_book / split_act_inv / split_forest and
   StaticSplitStats.split_blk_ok.) *)
From Adapt Require Import Num.Qaux Vpsc.VpscSpec Vpsc.VpscModel Vpsc.VpscInv Vpsc.VpscFrame Vpsc.VpscTree Vpsc.VpscPopulate
  Vpsc.VpscForest Vpsc.StaticGeom Vpsc.StaticSplitStats.
Local Open Scope Q_scope.

Theorem split_glue s c s' l r :
  book s -> act_inv s -> forest s -> wf_vars (svars s) -> act_of s c = true ->
  let b := blk_of s (cl (con_of s c)) in
  split s b c = Ok (s', l, r) ->
  book s' /\ act_inv s' /\ forest s' /\
  svars s' = svars s /\ scons s' = scons s /\ voff s' = voff s /\
  l = length (blocks s) /\ r = S l /\ length (blocks s') = S (S l) /\ (b < l)%nat /\
  blk_of s' (cl (con_of s c)) = l /\ blk_of s' (cr (con_of s c)) = r /\
  (forall u, (u < length (svars s))%nat -> blk_of s u <> b -> blk_of s' u = blk_of s u) /\
  (forall u, (u < length (svars s))%nat -> blk_of s u = b -> blk_of s' u = l \/ blk_of s' u = r) /\
  (forall u, (u < length (svars s))%nat -> (blk_of s' u = l \/ blk_of s' u = r) -> blk_of s u = b) /\
  (forall k, (k < length (scons s))%nat -> act_of s k = true -> k <> c ->
     blk_of s' (cl (con_of s k)) = blk_of s' (cr (con_of s k))) /\
  act_of s' c = false /\
  (forall B, (B < length (blocks s))%nat -> block_of s' B = block_of s B) /\
  blk_ok s' l /\ blk_ok s' r.
Proof.
  intros BK AI FO W Hact b H.
  assert (Hc : (c < length (scons s))%nat) by (rewrite <- (bk_cact s BK); apply act_of_lt; exact Hact).
  destruct (con_ends s c BK Hc) as [Hl Hr].
  destruct (AI c Hact) as [Sb _].
  assert (Ec : Eof s b c) by (repeat split; assumption).
  destruct (tree_remove_edge _ _ _ (FO _ Hl) c Ec) as [V1 [E1 [V2 [E2 SD]]]].
  pose proof (split_spec s c b s' l r V1 E1 V2 E2 BK Hact eq_refl Sb SD H) as SF.
  pose proof (split_book s c b s' l r V1 E1 V2 E2 BK Hact eq_refl SD SF) as BK'.
  pose proof (split_act_inv s c b s' l r V1 E1 V2 E2 BK AI Hact SD SF) as AI'.
  pose proof (split_forest s c b s' l r V1 E1 V2 E2 BK Hact eq_refl SD SF FO) as FO'.
  destruct (split_blk_ok s b c s' l r W H) as [OKl [OKr [El [Er [Lb [_ [_ Old]]]]]]].
  pose proof (split_blk_cases s c b s' l r V1 E1 V2 E2 SD SF) as Cases.
  assert (Hb : (b < length (blocks s))%nat) by (apply (bk_blk s BK); exact Hl).
  assert (Nlr : l <> r) by lia.
  assert (Econ : forall e, con_of s' e = con_of s e) by (intros e; unfold con_of; rewrite (sf_scons _ _ _ _ _ _ _ _ SF); reflexivity).
  split; [exact BK'|]. split; [exact AI'|]. split; [exact FO'|].
  split; [exact (sf_svars _ _ _ _ _ _ _ _ SF)|]. split; [exact (sf_scons _ _ _ _ _ _ _ _ SF)|].
  split; [exact (sf_voff _ _ _ _ _ _ _ _ SF)|].
  split; [exact El|]. split; [exact Er|]. split; [exact Lb|]. split; [rewrite El; exact Hb|].
  split; [apply (sf_V1 _ _ _ _ _ _ _ _ SF); exact (sd_l _ _ _ _ _ _ _ _ SD)|].
  split; [apply (sf_V2 _ _ _ _ _ _ _ _ SF); exact (sd_r _ _ _ _ _ _ _ _ SD)|].
  split.
  { intros u Hu Nb. apply (sf_out _ _ _ _ _ _ _ _ SF). exact Nb. }
  split.
  { intros u Hu Eb. destruct (Cases u Hu) as [[_ X]|[[_ X]|[X _]]]; [left; exact X | right; exact X | contradiction]. }
  split.
  { intros u Hu Elr. destruct (Cases u Hu) as [[X _]|[[X _]|[X Y]]].
    - apply (sd_V _ _ _ _ _ _ _ _ SD). left. exact X.
    - apply (sd_V _ _ _ _ _ _ _ _ SD). right. exact X.
    - exfalso. pose proof (bk_blk s BK u Hu) as Lt. rewrite <- Y in Lt. destruct Elr as [Z|Z]; rewrite Z in Lt; lia. }
  split.
  { intros k Hk Ak Nk.
    assert (Ak' : act_of s' k = true).
    { unfold act_of. rewrite (sf_cact _ _ _ _ _ _ _ _ SF). rewrite nth_upd_nth_neq by congruence. exact Ak. }
    destruct (AI' k Ak') as [X _]. rewrite !Econ in X. exact X. }
  split.
  { unfold act_of. rewrite (sf_cact _ _ _ _ _ _ _ _ SF). apply nth_upd_nth_eq. rewrite (bk_cact s BK). exact Hc. }
  split; [exact Old|]. split; assumption.
Qed.
