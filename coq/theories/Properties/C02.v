(* C02 - VPSC: solve() returns the unique weighted least-squares optimum.
   Only statements closed by `exact`; proofs live in Vpsc/KKT.v (certificate theory) and Vpsc/VpscRefute.v.
   What is proved: the KKT certificate is sufficient for optimality and uniqueness for every n, m, weights > 0, any
   scales (kkt_sufficient), the boolean checker the check runs on the real solver's output is sound (kkt_ok_sound,
   kkt_gap_sound), the optimum is independent of the constraint order.  REFUTED for the solve() loop before /repo
   676ca34 (C02_solve_optimal_refuted_before_fix; the witness replayed on the real code and is in the corpus).
   "solve reaches a KKT point" for the current loop is not proved (see C02_solve_certified_partial): it is decided
   per run by the certificate. *)
From Coq Require Import Permutation.
From Adapt Require Import Num.Qaux Vpsc.VpscSpec Vpsc.KKT Vpsc.VpscModel Vpsc.VpscRefute.
Local Open Scope Q_scope.

Theorem C02_kkt_sufficient vs cs lam x :
  wf_vars vs -> wf_cons vs cs -> kkt vs (combine cs lam) x ->
  forall y, feasible vs cs y ->
    obj vs x <= obj vs y /\
    (obj vs y <= obj vs x -> forall i, (i < length vs)%nat -> y i == x i).
Proof. exact (kkt_sufficient vs cs lam x). Qed.
Print Assumptions C02_kkt_sufficient.

Theorem C02_kkt_ok_sound vs cs xs lam :
  kkt_ok vs cs xs lam = true ->
  feasible vs cs (place_of xs) /\
  forall y, feasible vs cs y ->
    obj vs (place_of xs) <= obj vs y /\
    (obj vs y <= obj vs (place_of xs) -> forall i, (i < length vs)%nat -> y i == place_of xs i).
Proof. exact (kkt_ok_sound vs cs xs lam). Qed.
Print Assumptions C02_kkt_ok_sound.

Theorem C02_kkt_gap_bound vs cs xs lam B :
  kkt_gap vs cs xs lam = Some B ->
  forall y, feasible vs cs y -> obj vs (place_of xs) - obj vs y <= B.
Proof. exact (kkt_gap_sound vs cs xs lam B). Qed.
Print Assumptions C02_kkt_gap_bound.

Theorem C02_optimum_unique vs cs lam lam' x x' :
  wf_vars vs -> wf_cons vs cs ->
  length lam = length cs -> length lam' = length cs ->
  kkt vs (combine cs lam) x -> kkt vs (combine cs lam') x' ->
  forall i, (i < length vs)%nat -> x i == x' i.
Proof. exact (kkt_unique vs cs lam lam' x x'). Qed.
Print Assumptions C02_optimum_unique.

Theorem C02_order_independent vs cs cs' lam lam' x x' :
  wf_vars vs -> wf_cons vs cs -> Permutation cs cs' ->
  length lam = length cs -> length lam' = length cs' ->
  kkt vs (combine cs lam) x -> kkt vs (combine cs' lam') x' ->
  forall i, (i < length vs)%nat -> x i == x' i.
Proof. exact (optimum_constraint_order_independent vs cs cs' lam lam' x x'). Qed.
Print Assumptions C02_order_independent.

(* partial: optimality of the model's solve() result is established per run by the certificate, not for all runs.
   Missing for the full statement: "inc_solve on a fresh state ends in a state whose active forest carries
   multipliers >= -1e-4 with stationarity" (tree induction over compute_dfdv; not attempted) -- and for re-solves
   the statement is false, see below. *)
Theorem C02_solve_certified_partial fuel s s' lam :
  inc_solve fuel s = Ok s' ->
  kkt_ok (svars s') (scons s') (final_positions s') lam = true ->
  forall y, feasible (svars s') (scons s') y ->
    obj (svars s') (place_of (final_positions s')) <= obj (svars s') y.
Proof.
  exact (fun _ K y F => proj1 (proj2 (kkt_ok_sound (svars s') (scons s') (final_positions s') lam K) y F)).
Qed.
Print Assumptions C02_solve_certified_partial.

Theorem C02_solve_optimal_refuted_before_fix :
  exists vs cs ops s' y,
    run_ops_before_fix 1000 (init vs cs) ops = Ok s' /\ no_flag s' = true /\
    feasible (svars s') (scons s') (place_of y) /\
    obj (svars s') (place_of y) < obj (svars s') (place_of (final_positions s')).
Proof. exact solve_optimal_refuted_before_fix. Qed.
Print Assumptions C02_solve_optimal_refuted_before_fix.

(* ---- second round: the structural prerequisites of the stretch lemma `compute_dfdv_stationary` are now proved
   (Vpsc/VpscForest.v, VpscReach.v, VpscStats.v): in every reachable state the active constraints of a block form a
   spanning tree of it (the multipliers supported on the active set are therefore unique), active constraints are
   tight, and the block statistics are the sums over the block (A2 > 0).  "solve() ends at a KKT point" itself is still
   decided per run by the certificate (C02_solve_certified_partial). *)
From Adapt Require Import Vpsc.VpscInv Vpsc.VpscForest Vpsc.VpscReach Vpsc.VpscStats.

Theorem C02_active_forest_reachable s : reachable s -> book s /\ act_inv s /\ forest s.
Proof. exact (fun R => let I := reachable_inv s R in conj (i_book s I) (conj (i_act s I) (i_forest s I))). Qed.
Print Assumptions C02_active_forest_reachable.

(* the returned positions of solve() are feasible for the unflagged constraints in every history: exact on active
   constraints and equalities, within the loop-exit tolerance -1e-10 on the others *)
Theorem C02_solve_feasible_history fuel s s' :
  reachable_wf s -> inc_solve fuel s = Ok s' ->
  forall k, (k < length (scons s'))%nat -> uns_of s' k = false ->
    let sl := slackv (svars s') (place_of (final_positions s')) (con_of s' k) in
    ZERO_UPPERBOUND <= sl /\ (act_of s' k = true -> sl == 0) /\ (ceq (con_of s' k) = true -> sl == 0).
Proof. exact (fun R H => sat_on_return_history fuel s Solve s' R H). Qed.
Print Assumptions C02_solve_feasible_history.

(* ---- histories that also change Variable::weight between solves (Vpsc/VpscModelW.v, VpscWeight.v): the active
   constraints still form a spanning tree of every block and are tight, so the multipliers supported on the active set
   are unique and the certificate - computed with the CURRENT weights - decides optimality of a re-solve after a
   weight change exactly as for any other solve (kkt_sufficient quantifies over arbitrary positive weights). *)
From Adapt Require Import Vpsc.VpscModelW Vpsc.VpscWeight.
Theorem C02_active_forest_weight_history s : reachable_w s -> forest s /\ act_inv s.
Proof. exact (active_forest_w s). Qed.
Print Assumptions C02_active_forest_weight_history.

Theorem C02_solve_feasible_weight_history fuel s s' :
  reachable_w s -> inc_solve fuel s = Ok s' -> wf_vars (svars s') ->
  forall k, (k < length (scons s'))%nat -> uns_of s' k = false ->
    let sl := slackv (svars s') (place_of (final_positions s')) (con_of s' k) in
    ZERO_UPPERBOUND <= sl /\ (act_of s' k = true -> sl == 0) /\ (ceq (con_of s' k) = true -> sl == 0).
Proof. exact (fun R H => sat_on_return_w fuel s Solve s' R H). Qed.
Print Assumptions C02_solve_feasible_weight_history.
