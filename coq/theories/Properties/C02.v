(* C02 - VPSC: solve() returns the unique weighted least-squares optimum.
   Only statements closed by `exact`; proofs live in Vpsc/KKT.v (certificate theory) and Vpsc/VpscRefute.v.
   What is proved: the KKT certificate is sufficient for optimality and uniqueness for every n, m, weights > 0, any
   scales (kkt_sufficient), the boolean checker the check runs on the real solver's output is sound (kkt_ok_sound,
   kkt_gap_sound), the optimum is independent of the constraint order.  REFUTED for the solve() loop before /repo
   676ca34 (C02_solve_optimal_refuted_before_fix; the witness replayed on the real code and is in the corpus).
   "solve reaches a KKT point" for the current loop is not proved (see C02_solve_certified_partial): it is decided
   per run by the certificate. *)
From Coq Require Import Permutation.
From Adapt Require Import Num.Qaux Vpsc.VpscSpec Vpsc.KKT Vpsc.VpscModel Vpsc.VpscRefute.
Local Open Scope Q_scope.

Theorem C02_kkt_sufficient vs cs lam x :
  wf_vars vs -> wf_cons vs cs -> kkt vs (combine cs lam) x ->
  forall y, feasible vs cs y ->
    obj vs x <= obj vs y /\
    (obj vs y <= obj vs x -> forall i, (i < length vs)%nat -> y i == x i).
Proof. exact (kkt_sufficient vs cs lam x). Qed.
Print Assumptions C02_kkt_sufficient.

Theorem C02_kkt_ok_sound vs cs xs lam :
  kkt_ok vs cs xs lam = true ->
  feasible vs cs (place_of xs) /\
  forall y, feasible vs cs y ->
    obj vs (place_of xs) <= obj vs y /\
    (obj vs y <= obj vs (place_of xs) -> forall i, (i < length vs)%nat -> y i == place_of xs i).
Proof. exact (kkt_ok_sound vs cs xs lam). Qed.
Print Assumptions C02_kkt_ok_sound.

Theorem C02_kkt_gap_bound vs cs xs lam B :
  kkt_gap vs cs xs lam = Some B ->
  forall y, feasible vs cs y -> obj vs (place_of xs) - obj vs y <= B.
Proof. exact (kkt_gap_sound vs cs xs lam B). Qed.
Print Assumptions C02_kkt_gap_bound.

Theorem C02_optimum_unique vs cs lam lam' x x' :
  wf_vars vs -> wf_cons vs cs ->
  length lam = length cs -> length lam' = length cs ->
  kkt vs (combine cs lam) x -> kkt vs (combine cs lam') x' ->
  forall i, (i < length vs)%nat -> x i == x' i.
Proof. exact (kkt_unique vs cs lam lam' x x'). Qed.
Print Assumptions C02_optimum_unique.

Theorem C02_order_independent vs cs cs' lam lam' x x' :
  wf_vars vs -> wf_cons vs cs -> Permutation cs cs' ->
  length lam = length cs -> length lam' = length cs' ->
  kkt vs (combine cs lam) x -> kkt vs (combine cs' lam') x' ->
  forall i, (i < length vs)%nat -> x i == x' i.
Proof. exact (optimum_constraint_order_independent vs cs cs' lam lam' x x'). Qed.
Print Assumptions C02_order_independent.

(* partial: optimality of the model's solve() result is established per run by the certificate, not for all runs.
   Missing for the full statement: "inc_solve on a fresh state ends in a state whose active forest carries
   multipliers >= -1e-4 with stationarity" (tree induction over compute_dfdv; not attempted) -- and for re-solves
   the statement is false, see below. *)
Theorem C02_solve_certified_partial fuel s s' lam :
  inc_solve fuel s = Ok s' ->
  kkt_ok (svars s') (scons s') (final_positions s') lam = true ->
  forall y, feasible (svars s') (scons s') y ->
    obj (svars s') (place_of (final_positions s')) <= obj (svars s') y.
Proof.
  exact (fun _ K y F => proj1 (proj2 (kkt_ok_sound (svars s') (scons s') (final_positions s') lam K) y F)).
Qed.
Print Assumptions C02_solve_certified_partial.

Theorem C02_solve_optimal_refuted_before_fix :
  exists vs cs ops s' y,
    run_ops_before_fix 1000 (init vs cs) ops = Ok s' /\ no_flag s' = true /\
    feasible (svars s') (scons s') (place_of y) /\
    obj (svars s') (place_of y) < obj (svars s') (place_of (final_positions s')).
Proof. exact solve_optimal_refuted_before_fix. Qed.
Print Assumptions C02_solve_optimal_refuted_before_fix.

(* ---- second round: the structural prerequisites of the stretch lemma `compute_dfdv_stationary` are now proved
   (Vpsc/VpscForest.v, VpscReach.v, VpscStats.v): in every reachable state the active constraints of a block form a
   spanning tree of it (the multipliers supported on the active set are therefore unique), active constraints are
   tight, and the block statistics are the sums over the block (A2 > 0).  "solve() ends at a KKT point" itself is still
   decided per run by the certificate (C02_solve_certified_partial). *)
From Adapt Require Import Vpsc.VpscInv Vpsc.VpscForest Vpsc.VpscReach Vpsc.VpscStats.

Theorem C02_active_forest_reachable s : reachable s -> book s /\ act_inv s /\ forest s.
Proof. exact (fun R => let I := reachable_inv s R in conj (i_book s I) (conj (i_act s I) (i_forest s I))). Qed.
Print Assumptions C02_active_forest_reachable.

(* the returned positions of solve() are feasible for the unflagged constraints in every history: exact on active
   constraints and equalities, within the loop-exit tolerance -1e-10 on the others *)
Theorem C02_solve_feasible_history fuel s s' :
  reachable_wf s -> inc_solve fuel s = Ok s' ->
  forall k, (k < length (scons s'))%nat -> uns_of s' k = false ->
    let sl := slackv (svars s') (place_of (final_positions s')) (con_of s' k) in
    ZERO_UPPERBOUND <= sl /\ (act_of s' k = true -> sl == 0) /\ (ceq (con_of s' k) = true -> sl == 0).
Proof. exact (fun R H => sat_on_return_history fuel s Solve s' R H). Qed.
Print Assumptions C02_solve_feasible_history.

(* ---- histories that also change Variable::weight between solves (Vpsc/VpscModelW.v, VpscWeight.v): the active
   constraints still form a spanning tree of every block and are tight, so the multipliers supported on the active set
   are unique and the certificate - computed with the CURRENT weights - decides optimality of a re-solve after a
   weight change exactly as for any other solve (kkt_sufficient quantifies over arbitrary positive weights). *)
From Adapt Require Import Vpsc.VpscModelW Vpsc.VpscWeight.
Theorem C02_active_forest_weight_history s : reachable_w s -> forest s /\ act_inv s.
Proof. exact (active_forest_w s). Qed.
Print Assumptions C02_active_forest_weight_history.

Theorem C02_solve_feasible_weight_history fuel s s' :
  reachable_w s -> inc_solve fuel s = Ok s' -> wf_vars (svars s') ->
  forall k, (k < length (scons s'))%nat -> uns_of s' k = false ->
    let sl := slackv (svars s') (place_of (final_positions s')) (con_of s' k) in
    ZERO_UPPERBOUND <= sl /\ (act_of s' k = true -> sl == 0) /\ (ceq (con_of s' k) = true -> sl == 0).
Proof. exact (fun R H => sat_on_return_w fuel s Solve s' R H). Qed.
Print Assumptions C02_solve_feasible_weight_history.

(* ================= static solver round: Solver::solve() = satisfy(); refine() of the static solver model
   (Vpsc/StaticModel.v).  static_solve_feasible: a normal return keeps every constraint of the input to 1e-10 on the
   reported positions (refine's closing scan); optimality of the result is decided per run by the kkt_ok certificate. *)
From Adapt Require Import Vpsc.StaticModel Vpsc.StaticFrame.
Theorem C02_static_solve_feasible vs cs s' :
  wf_cons vs cs -> static_solve (static_init vs cs) = Ok s' ->
  length (static_positions s') = length vs /\
  forall k, In k cs -> ZERO_UPPERBOUND <= slackv vs (place_of (static_positions s')) k.
Proof. exact (static_solve_sat_tol vs cs s'). Qed.
Print Assumptions C02_static_solve_feasible.

(* ================= third round (Vpsc/VpscKktB.v, VpscStationary.v): the stretch lemma compute_dfdv_stationary *)
From Adapt Require Import Vpsc.VpscFrame Vpsc.VpscTree Vpsc.VpscWalks Vpsc.VpscKktB Vpsc.VpscStationary.

(* Block::compute_dfdv over a sub-tree (V', E') of active constraints entered at v from u: it writes only multipliers of
   E', leaves the stationarity residual  dfdv_w + scl_w (sum_out lm - sum_in lm)  equal to 0 at every w of V' other than
   v - for ANY block position - and returns the residual of v without the edge back to u, divided by scl_v *)
Theorem C02_compute_dfdv_stationary s this :
  act_inv s -> (forall i, ~ scl (var_of s i) == 0) ->
  forall fuel track V' E' v u mn x0 d mn' x',
  tree (con_of s) V' E' -> sub_ok s this V' E' v u ->
  (forall z, V' z -> blk_of s z = this) -> (forall e, E' e -> Eof s this e) -> (forall p, u = Some p -> ~ V' p) ->
  lm_only s x0 -> length (clm x0) = length (scons s) ->
  compute_dfdv fuel track this v u mn x0 = Ok (d, mn', x') -> cd_post s this V' E' v u x0 d x'.
Proof. exact (compute_dfdv_stat s this). Qed.
Print Assumptions C02_compute_dfdv_stationary.

(* Block::findMinLM on a block whose statistics are up to date (posn = (AD-AB)/A2 with AB, AD, A2 the sums over the
   block): the residual is 0 at EVERY variable of the block, the root included; only multipliers of the block change *)
Theorem C02_find_min_lm_stationary s b mn s' :
  book s -> act_inv s -> forest s -> (forall i, ~ scl (var_of s i) == 0) ->
  block_ready s b -> length (clm s) = length (scons s) ->
  find_min_lm s b = Ok (mn, s') ->
  lm_only s s' /\ length (clm s') = length (scons s) /\
  (forall e, ~ Eof s b e -> lm_of s' e = lm_of s e) /\ stationary_block s s' b.
Proof. exact (find_min_lm_stationary s b mn s'). Qed.
Print Assumptions C02_find_min_lm_stationary.

(* re-running findMinLM on the block of every variable (what the next splitBlocks does first) gives a multiplier vector
   that satisfies the stationarity equation of KKT.v exactly at every variable, for the state's own positions *)
Theorem C02_relm_stationary s s' :
  inv s -> all_ok s -> all_fresh s -> length (clm s) = length (scons s) ->
  relm s = Ok s' ->
  lm_only s s' /\
  forall i, (i < length (svars s))%nat -> stat_res (svars s) (lcons_of s') (xs_of s) i == 0.
Proof. exact (relm_stationary s s'). Qed.
Print Assumptions C02_relm_stationary.

(* duality gap of the state's positions against EVERY feasible placement, from the negative parts of the recomputed
   multipliers alone (complementary slackness is exact: active constraints are tight, the others carry multiplier 0) *)
Theorem C02_relm_gap_bound s s' :
  inv s -> all_ok s -> all_fresh s -> length (clm s) = length (scons s) ->
  relm s = Ok s' ->
  forall y, feasible (svars s) (scons s) y ->
    obj (svars s) (xs_of s) - obj (svars s) y <= gap_of s s'.
Proof. exact (relm_gap_bound s s'). Qed.
Print Assumptions C02_relm_gap_bound.

(* no negative recomputed multiplier on an active inequality: no feasible placement has a smaller objective *)
Theorem C02_relm_optimal s s' :
  inv s -> all_ok s -> all_fresh s -> length (clm s) = length (scons s) ->
  relm s = Ok s' ->
  (forall c, (c < length (scons s))%nat -> act_of s c = true -> ceq (con_of s c) = false -> 0 <= lm_of s' c) ->
  forall y, feasible (svars s) (scons s) y -> obj (svars s) (xs_of s) <= obj (svars s) y.
Proof. exact (relm_optimal s s'). Qed.
Print Assumptions C02_relm_optimal.

(* C02_split_blocks_exit_kkt, stated on the recomputed multipliers: if the test splitBlocks applies (no multiplier of an
   active inequality below -tau; tau = 1e-4 in the code) finds nothing to split, the objective exceeds the optimum by at
   most  sum_i (scl_i * tau * deg_i)^2 / (4 w_i) *)
Theorem C02_split_blocks_exit_kkt s s' tau :
  inv s -> all_ok s -> all_fresh s -> length (clm s) = length (scons s) ->
  relm s = Ok s' -> 0 <= tau ->
  (forall c, (c < length (scons s))%nat -> act_of s c = true -> ceq (con_of s c) = false -> - tau <= lm_of s' c) ->
  forall y, feasible (svars s) (scons s) y -> obj (svars s) (xs_of s) - obj (svars s) y <= tau_bound s tau.
Proof. exact (relm_near_optimal s s' tau). Qed.
Print Assumptions C02_split_blocks_exit_kkt.

(* PARTIAL: for every history and every solve() that returns; the two hypotheses on the returned state s' that are not
   derived from reachability are named in Vpsc/VpscStationary.v (block statistics AB/AD up to date; length of the lm
   vector) and are evaluated by the extracted model on every state it visits (evidence key model_stationarity) *)
Theorem C02_solve_near_optimal_history_partial fuel s s' s2 tau :
  reachable_wf s -> inc_solve fuel s = Ok s' ->
  all_fresh s' -> length (clm s') = length (scons s') ->
  relm s' = Ok s2 -> 0 <= tau ->
  (forall c, (c < length (scons s'))%nat -> act_of s' c = true -> ceq (con_of s' c) = false -> - tau <= lm_of s2 c) ->
  (forall i, (i < length (svars s'))%nat -> stat_res (svars s') (lcons_of s2) (xs_of s') i == 0) /\
  forall y, feasible (svars s') (scons s') y ->
    obj (svars s') (place_of (final_positions s')) - obj (svars s') y <= tau_bound s' tau.
Proof. exact (solve_near_optimal_history_partial fuel s s' s2 tau). Qed.
Print Assumptions C02_solve_near_optimal_history_partial.

(* the same with the multipliers recomputed from a zeroed lm vector (findMinLM resets the active multipliers before it
   computes them): no hypothesis on the lm vector; what remains is all_fresh s' *)
Theorem C02_solve_near_optimal_history_partial0 fuel s s' s2 tau :
  reachable_wf s -> inc_solve fuel s = Ok s' ->
  all_fresh s' ->
  relm (zero_lm s') = Ok s2 -> 0 <= tau ->
  (forall c, (c < length (scons s'))%nat -> act_of s' c = true -> ceq (con_of s' c) = false -> - tau <= lm_of s2 c) ->
  (forall i, (i < length (svars s'))%nat -> stat_res (svars s') (lcons_of s2) (xs_of s') i == 0) /\
  forall y, feasible (svars s') (scons s') y ->
    obj (svars s') (place_of (final_positions s')) - obj (svars s') y <= tau_bound s' tau.
Proof. exact (solve_near_optimal_history_partial0 fuel s s' s2 tau). Qed.
Print Assumptions C02_solve_near_optimal_history_partial0.

(* ================= fourth round (Vpsc/VpscFresh.v): the two state hypotheses of the history theorem are invariants *)
From Adapt Require Import Vpsc.VpscModelW Vpsc.VpscWeight Vpsc.VpscStatsW Vpsc.VpscFresh.

(* in every reachable state Blocks::m_blocks lists the block of every variable, that block is not deleted, and the lm
   vector has one entry per constraint *)
Theorem C02_reachable_live_lm s : reachable_wf s -> live s /\ length (clm s) = length (scons s).
Proof. exact (reachable_live_LL s). Qed.
Print Assumptions C02_reachable_live_lm.

(* moveBlocks (the first thing satisfy() does) makes AB / AD of every block that owns its variables the sums over the
   block for the current offsets and desired positions - from `live` alone, whatever was edited before *)
Theorem C02_move_blocks_stats s : book s -> live s -> HS (move_blocks s).
Proof. exact (move_blocks_HS s). Qed.
Print Assumptions C02_move_blocks_stats.

(* one iteration of the satisfy loop (merge / flag / split + merge / split + requeue) keeps: listed live blocks,
   statistics A2 / AB / AD up to date, length of the lm vector; all_pos (VpscStatsW.v) is the weight-independent part of
   VpscStats.all_ok: every block non-empty, scale > 0, A2 > 0, posn = (AD - AB) / A2 *)
Theorem C02_satisfy_step_stats s b s' : inv s -> all_pos s -> FI s -> satisfy_step s = Ok (b, s') -> FI s'.
Proof. exact (satisfy_step_FI s b s'). Qed.
Print Assumptions C02_satisfy_step_stats.

(* whenever solve() / satisfy() return, in any history, the block statistics of every variable's block are up to date
   (all_fresh) and the lm vector has the right length *)
Theorem C02_solve_return_fresh fuel s s' :
  reachable_wf s -> inc_solve fuel s = Ok s' -> all_fresh s' /\ length (clm s') = length (scons s').
Proof. exact (solve_return_fresh fuel s s'). Qed.
Print Assumptions C02_solve_return_fresh.
Theorem C02_satisfy_return_fresh fuel s s' :
  reachable_wf s -> inc_satisfy fuel s = Ok s' -> all_fresh s' /\ length (clm s') = length (scons s').
Proof. exact (satisfy_return_fresh fuel s s'). Qed.
Print Assumptions C02_satisfy_return_fresh.

(* C02_solve_near_optimal_history: for EVERY history of ops from a fresh solver over well-formed variables and every
   solve() that returns: with the multipliers recomputed by findMinLM on every block, the stationarity equation holds
   exactly at every variable, and if no recomputed multiplier of an active inequality is below -tau the objective exceeds
   that of every feasible placement by at most tau_bound.  No hypothesis on the returned state. *)
Theorem C02_solve_near_optimal_history fuel s s' s2 tau :
  reachable_wf s -> inc_solve fuel s = Ok s' ->
  relm s' = Ok s2 -> 0 <= tau ->
  (forall c, (c < length (scons s'))%nat -> act_of s' c = true -> ceq (con_of s' c) = false -> - tau <= lm_of s2 c) ->
  (forall i, (i < length (svars s'))%nat -> stat_res (svars s') (lcons_of s2) (xs_of s') i == 0) /\
  forall y, feasible (svars s') (scons s') y ->
    obj (svars s') (place_of (final_positions s')) - obj (svars s') y <= tau_bound s' tau.
Proof. exact (solve_near_optimal_history fuel s s' s2 tau). Qed.
Print Assumptions C02_solve_near_optimal_history.

(* non-vacuity: solve; move a desired position (all_fresh FAILS in that state: AD is stale); add an inequality; solve
   again (split at constraint 0, merge across the new constraint): returned state fresh, stationary, optimal *)
Example C02_solve_near_optimal_history_example :
  reachable_wf ex2_s3 /\ ~ all_fresh ex2_s2 /\
  inc_solve 100 ex2_s3 = Ok ex2_ret /\ relm ex2_ret = Ok ex2_relm /\
  all_fresh ex2_ret /\ length (clm ex2_ret) = length (scons ex2_ret) /\
  act_of ex2_ret 0 = false /\ act_of ex2_ret 1 = true /\ act_of ex2_ret 2 = true /\
  (forall i, (i < 3)%nat -> stat_res (svars ex2_ret) (lcons_of ex2_relm) (xs_of ex2_ret) i == 0) /\
  (forall y, feasible (svars ex2_ret) (scons ex2_ret) y ->
     obj (svars ex2_ret) (place_of (final_positions ex2_ret)) - obj (svars ex2_ret) y <= tau_bound ex2_ret 0).
Proof. exact solve_near_optimal_history_example. Qed.
Print Assumptions C02_solve_near_optimal_history_example.

(* ================= fourth round, part 2 (Vpsc/VpscMinLM.v): the solver's own exit test *)
From Adapt Require Import Vpsc.VpscMinLM.

(* Block::findMinLM returns the minimum: None iff the block has no active inequality, otherwise an active inequality of
   the block whose (freshly computed) multiplier is <= that of every active inequality of the block.  No statistics
   hypothesis: the walk order and the update of min_lm after each write are all that matters *)
Theorem C02_find_min_lm_min s b mn s' :
  book s -> act_inv s -> forest s -> (forall i, ~ scl (var_of s i) == 0) ->
  (front s b < length (svars s))%nat -> blk_of s (front s b) = b -> length (clm s) = length (scons s) ->
  find_min_lm s b = Ok (mn, s') ->
  match mn with
  | None => forall e, Eof s b e -> ceq (con_of s e) = true
  | Some m => Eof s b m /\ ceq (con_of s m) = false /\
              forall e, Eof s b e -> ceq (con_of s e) = false -> lm_of s' m <= lm_of s' e
  end.
Proof. exact (find_min_lm_min_spec s b mn s'). Qed.
Print Assumptions C02_find_min_lm_min.

(* C02_split_blocks_exit_kkt derived from the solver's own test: splitBlocks with splitCnt = 0 leaves a state whose
   stored multipliers satisfy stationarity exactly, are >= -1e-4 on every active inequality, and whose objective exceeds
   that of every feasible placement by at most sum_i (scl_i * 1e-4 * deg_i)^2 / (4 w_i)   (exit_kkt, VpscMinLM.v) *)
Theorem C02_split_blocks_quiet_kkt s s' :
  inv s -> all_pos s -> live s -> length (clm s) = length (scons s) -> split_blocks s = Ok (s', O) -> exit_kkt s' s'.
Proof. exact (split_blocks_quiet_kkt s s'). Qed.
Print Assumptions C02_split_blocks_quiet_kkt.

(* a satisfy() that splits nothing, started from a state satisfy() returned (statistics up to date, loop exit condition
   met), does not merge or split afterwards: moveBlocks moves nothing, the satisfy loop is idle, the package survives *)
Theorem C02_satisfy_quiet_kkt fuel s s' :
  inv s -> all_pos s -> FI s -> exit_ok s -> inc_satisfy_cnt fuel s = Ok (s', O) -> exit_kkt s' s'.
Proof. exact (inc_satisfy_cnt_quiet_kkt fuel s s'). Qed.
Print Assumptions C02_satisfy_quiet_kkt.

(* what solve()'s exit guarantees, for every history (inc_solve_k = inc_solve instrumented with the number k of in-loop
   satisfy() calls and the exit taken): left through the test => exit_kkt of the returned state with its stored
   multipliers; otherwise exactly MAXTRIES = 100 in-loop calls were made and solve() gave up *)
Theorem C02_solve_exit_guarantee fuel s s' :
  reachable_wf s -> inc_solve fuel s = Ok s' ->
  exists k bt, inc_solve_k fuel s = Ok (s', k, bt) /\
               (bt = true -> exit_kkt s' s') /\ (bt = false -> k = MAXTRIES).
Proof. exact (solve_exit_guarantee fuel s s'). Qed.
Print Assumptions C02_solve_exit_guarantee.

Example C02_find_min_lm_min_example :
  find_min_lm ex2_ret 4 = Ok (Some 2%nat, ex2_fm) /\ Eof ex2_ret 4 2 /\ Eof ex2_ret 4 1 /\ ceq (con_of ex2_ret 1) = true /\
  forall e, Eof ex2_ret 4 e -> ceq (con_of ex2_ret e) = false -> lm_of ex2_fm 2 <= lm_of ex2_fm e.
Proof. exact find_min_lm_min_example. Qed.
Print Assumptions C02_find_min_lm_min_example.
Example C02_solve_exit_guarantee_example :
  inc_solve_k 100 ex2_s3 = Ok (ex2_ret, 1%nat, true) /\ exit_kkt ex2_ret ex2_ret /\
  split_blocks ex2_ret = Ok (ex2_sb, O) /\ exit_kkt ex2_sb ex2_sb /\ act_of ex2_sb 2 = true /\ lm_of ex2_sb 2 == 12 # 5.
Proof. exact solve_exit_guarantee_example. Qed.
Print Assumptions C02_solve_exit_guarantee_example.

(* ================= fourth round, part 3 (Vpsc/VpscStatsW.v): histories that also change Variable::weight between solves
   (op SetWeight of VpscModelW.v; reachable_ww = from a fresh solver over well-formed variables, weights set > 0) *)
Theorem C02_weight_history_stats_pos s : reachable_ww s -> all_pos s.
Proof. exact (reachable_ww_all_pos s). Qed.
Print Assumptions C02_weight_history_stats_pos.

Theorem C02_solve_return_fresh_weight_history fuel s s' :
  reachable_ww s -> inc_solve fuel s = Ok s' -> all_fresh s' /\ length (clm s') = length (scons s').
Proof. exact (solve_return_fresh_w fuel s s'). Qed.
Print Assumptions C02_solve_return_fresh_weight_history.

Theorem C02_solve_near_optimal_weight_history fuel s s' s2 tau :
  reachable_ww s -> inc_solve fuel s = Ok s' ->
  relm s' = Ok s2 -> 0 <= tau ->
  (forall c, (c < length (scons s'))%nat -> act_of s' c = true -> ceq (con_of s' c) = false -> - tau <= lm_of s2 c) ->
  (forall i, (i < length (svars s'))%nat -> stat_res (svars s') (lcons_of s2) (xs_of s') i == 0) /\
  forall y, feasible (svars s') (scons s') y ->
    obj (svars s') (place_of (final_positions s')) - obj (svars s') y <= tau_bound s' tau.
Proof. exact (solve_near_optimal_history_w fuel s s' s2 tau). Qed.
Print Assumptions C02_solve_near_optimal_weight_history.

Theorem C02_solve_exit_guarantee_weight_history fuel s s' :
  reachable_ww s -> inc_solve fuel s = Ok s' ->
  exists k bt, inc_solve_k fuel s = Ok (s', k, bt) /\
               (bt = true -> exit_kkt s' s') /\ (bt = false -> k = MAXTRIES).
Proof. exact (solve_exit_guarantee_w fuel s s'). Qed.
Print Assumptions C02_solve_exit_guarantee_weight_history.

(* non-vacuity: the pin idiom (solve; weight of v0 := 1000 - all_fresh FAILS in that state; solve again) *)
Example C02_solve_near_optimal_weight_history_example :
  reachable_ww wx2 /\ ~ all_fresh wx2 /\ inc_solve 100 wx2 = Ok wx3 /\ relm wx3 = Ok wxr /\
  all_fresh wx3 /\
  final_positions wx3 = [10024 # 1003; 11027 # 1003; 12030 # 1003; 13033 # 1003] /\
  (forall i, (i < length (svars wx3))%nat -> stat_res (svars wx3) (lcons_of wxr) (xs_of wx3) i == 0) /\
  (forall y, feasible (svars wx3) (scons wx3) y ->
     obj (svars wx3) (place_of (final_positions wx3)) - obj (svars wx3) y <= tau_bound wx3 0).
Proof. exact solve_near_optimal_history_w_example. Qed.
Print Assumptions C02_solve_near_optimal_weight_history_example.
