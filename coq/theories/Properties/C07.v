(* C07 - libcola: layout output satisfies every constraint or reports it unsatisfiable.
   Only statements closed by `exact`; the proofs live in Cola/CompoundCs.v and are about the hand-written model
   Cola/CompoundCsModel.v of compound_constraints.cpp / colafd.cpp, which checks/c07.py compares with the compiled
   library on every run (generated (left,right,gap,equality) lists and auxiliary variables, exactly).

   What is proved: the translation of each compound constraint type into separation constraints is sound and
   complete w.r.t. its declarative meaning on the rectangle centres (exact, over Q); the composition with a projection
   that satisfies the generated constraints to eps (property C01, taken as a hypothesis) gives every compound
   constraint to 3*eps; in the control-flow model of ConstrainedFDLayout::run the last write to each coordinate array
   is such a projection output and X-dimension user constraints do not read Y.
   What is NOT proved (validated on real runs by the extracted checker cc_holdsb only): that makeFeasible()'s search and
   the solver deliver the hypothesis; the force computation; ConstrainedMajorizationLayout's loop; that a constraint
   flagged unsatisfiable is the only one violated.  runOnce() does not end with a projection (theorem below). *)
From Adapt Require Import Num.Qaux Cola.CompoundCsModel Cola.CompoundCs.
Local Open Scope Q_scope.

Theorem C07_Sep_sound_complete xs l r g e :
  (exists aux, length aux = 0%nat /\ Forall (sat (lv (xs ++ aux))) (gen_sep l r g e))
  <-> sep_holds 0 (lv xs) l r g e.
Proof. exact (Sep_sound_complete xs l r g e). Qed.
Print Assumptions C07_Sep_sound_complete.

Theorem C07_Align_sound_complete xs m k sh :
  (k < m)%nat -> (forall s o, In (s, o) sh -> (s < length xs)%nat) ->
  (exists aux, length aux = m /\ Forall (sat (lv (xs ++ aux))) (gen_align (length xs + k)%nat sh))
  <-> align_holds 0 (lv xs) sh.
Proof. exact (Align_sound_complete xs m k sh). Qed.
Print Assumptions C07_Align_sound_complete.

Theorem C07_Boundary_sound_complete xs m k sh :
  (k < m)%nat -> (forall s o, In (s, o) sh -> (s < length xs)%nat) ->
  (exists aux, length aux = m /\ Forall (sat (lv (xs ++ aux))) (gen_boundary (length xs + k)%nat sh))
  <-> boundary_holds 0 (lv xs) sh.
Proof. exact (Boundary_sound_complete xs m k sh). Qed.
Print Assumptions C07_Boundary_sound_complete.

Theorem C07_MultiSep_sound_complete xs als prs sep e :
  (forall k s o, In (s, o) (nth k als []) -> (s < length xs)%nat) ->
  (forall k, (k < length als)%nat -> nth k als [] <> []) ->
  (forall a b, In (a, b) prs -> (a < length als)%nat /\ (b < length als)%nat) ->
  (exists aux, length aux = length als /\
     Forall (sat (lv (xs ++ aux))) (gen_aligns_from (length xs) 0 als ++ gen_pairs (shift_pairs (length xs) prs) sep e))
  <-> (forall k, (k < length als)%nat -> align_holds 0 (lv xs) (nth k als [])) /\
      multisep_holds 0 (lv xs) (fun k => nth k als []) prs sep e.
Proof. exact (MultiSep_sound_complete xs als prs sep e). Qed.
Print Assumptions C07_MultiSep_sound_complete.

Theorem C07_Distribution_sound_complete xs als prs sep :
  (forall k s o, In (s, o) (nth k als []) -> (s < length xs)%nat) ->
  (forall k, (k < length als)%nat -> nth k als [] <> []) ->
  (forall a b, In (a, b) prs -> (a < length als)%nat /\ (b < length als)%nat) ->
  (exists aux, length aux = length als /\
     Forall (sat (lv (xs ++ aux))) (gen_aligns_from (length xs) 0 als ++ gen_pairs (shift_pairs (length xs) prs) sep true))
  <-> (forall k, (k < length als)%nat -> align_holds 0 (lv xs) (nth k als [])) /\
      distribution_holds 0 (lv xs) (fun k => nth k als []) prs sep.
Proof. exact (Distribution_sound_complete xs als prs sep). Qed.
Print Assumptions C07_Distribution_sound_complete.

Theorem C07_SepAlign_sound_complete xs als a b g e :
  (forall k s o, In (s, o) (nth k als []) -> (s < length xs)%nat) ->
  (forall k, (k < length als)%nat -> nth k als [] <> []) ->
  (a < length als)%nat -> (b < length als)%nat ->
  (exists aux, length aux = length als /\
     Forall (sat (lv (xs ++ aux))) (gen_aligns_from (length xs) 0 als ++ gen_sep (length xs + a)%nat (length xs + b)%nat g e))
  <-> (forall k, (k < length als)%nat -> align_holds 0 (lv xs) (nth k als [])) /\
      pair_rel 0 e (lv xs) (nth a als []) (nth b als []) g.
Proof. exact (SepAlign_sound_complete xs als a b g e). Qed.
Print Assumptions C07_SepAlign_sound_complete.

Theorem C07_FixedRel_sound_complete xs ids c0 :
  (exists aux, length aux = 0%nat /\ Forall (sat (lv (xs ++ aux))) (gen_fixedrel ids c0))
  <-> fixedrel_holds 0 (lv xs) ids c0.
Proof. exact (FixedRel_sound_complete xs ids c0). Qed.
Print Assumptions C07_FixedRel_sound_complete.

Theorem C07_PageBoundary_sound_complete xs m k sh :
  (S k < m)%nat -> (forall s h, In (s, h) sh -> (s < length xs)%nat) ->
  (exists aux, length aux = m /\
      Forall (sat (lv (xs ++ aux))) (gen_page (Some (length xs + k)%nat) (Some (length xs + S k)%nat) sh))
  /\ (forall aux, length aux = m ->
      (Forall (sat (lv (xs ++ aux))) (gen_page (Some (length xs + k)%nat) (Some (length xs + S k)%nat) sh)
       <-> page_holds 0 (lv xs) (lv aux k) (lv aux (S k)) sh)).
Proof. exact (PageBoundary_sound_complete xs m k sh). Qed.
Print Assumptions C07_PageBoundary_sound_complete.

(* the hypothesis `Forall (sat_eps eps v) (so_seps out)` is property C01's conclusion for the projection's output *)
Theorem C07_projection_establishes eps d n ccs out v :
  0 <= eps ->
  gen_system d n ccs = GOk out ->
  Forall (sat_eps eps v) (so_seps out) ->
  forall c, In c ccs -> cc_meaning (3 * eps) d ccs v c.
Proof. exact (C07_projection_establishes_thm eps d n ccs out v). Qed.
Print Assumptions C07_projection_establishes.

Theorem C07_checker_correct tol d ccs v c : cc_holdsb tol d ccs v c = true <-> cc_meaning tol d ccs v c.
Proof. exact (cc_holdsb_correct tol d ccs v c). Qed.
Print Assumptions C07_checker_correct.

Theorem driver_last_step_is_projection rk xa ya iters :
  (1 <= iters)%nat ->
  last_write DX (run_trace rk xa ya iters) = Some (WProj DX) /\
  last_write DY (run_trace rk xa ya iters) = Some (WProj DY).
Proof. exact (driver_last_step_is_projection_thm rk xa ya iters). Qed.
Print Assumptions driver_last_step_is_projection.

Theorem C07_run_establishes_constraints eps ccs rk xa ya iters s s' :
  0 <= eps -> (1 <= iters)%nat ->
  steps (feas eps DX ccs) (feas eps DY ccs) (run_trace rk xa ya iters) s s' ->
  (exists aux, forall c, In c ccs -> cc_meaning (3 * eps) DX ccs (lv (fst s' ++ aux)) c) /\
  (exists aux, forall c, In c ccs -> cc_meaning (3 * eps) DY ccs (lv (snd s' ++ aux)) c).
Proof. exact (run_establishes_constraints eps ccs rk xa ya iters s s'). Qed.
Print Assumptions C07_run_establishes_constraints.

Theorem C07_runOnce_last_step_not_projection rk ya :
  last_write DX (runOnce_trace rk true ya) = Some (if ya then WDisplace else WBlend DX).
Proof. exact (runOnce_last_step_not_projection rk ya). Qed.
Print Assumptions C07_runOnce_last_step_not_projection.

(* ---- single-axis runs: run(true,false) / run(false,true) / run(false,false) ---- *)
Theorem C07_run_projections rk xa ya iters :
  projs (run_trace rk xa ya iters) = rep_tr iters (iteration_projs rk xa ya).
Proof. exact (run_projs_thm rk xa ya iters). Qed.
Print Assumptions C07_run_projections.

Theorem C07_single_axis_run_ends_with_both_projections rk xa ya iters :
  (1 <= iters)%nat -> exists pre, run_trace rk xa ya iters = pre ++ [WProj DX; WProj DY].
Proof. exact (single_axis_run_ends_with_both_projections_thm rk xa ya iters). Qed.
Print Assumptions C07_single_axis_run_ends_with_both_projections.

Theorem C07_single_axis_other_axis_writes rk iters :
  forallb (only_proj_or_displace DY) (run_trace rk true false iters) = true /\
  forallb (only_proj_or_displace DX) (run_trace rk false true iters) = true /\
  forallb (fun w => match w with WProj _ => true | _ => false end) (run_trace rk false false iters) = true.
Proof. exact (single_axis_other_axis_writes_thm rk iters). Qed.
Print Assumptions C07_single_axis_other_axis_writes.

Theorem C07_axes_only_variant_refuted rk iters :
  (1 <= iters)%nat ->
  projs (run_trace_axes rk true false iters) = rep_tr iters (rep_tr (if rk then 9%nat else 3%nat) [DX]) /\
  last_write DY (run_trace_axes rk true false iters) = Some WDisplace /\
  last_write DX (run_trace_axes rk false true iters) = Some WDisplace /\
  run_trace_axes rk true true iters = run_trace rk true true iters.
Proof. exact (axes_only_variant_refuted_thm rk iters). Qed.
Print Assumptions C07_axes_only_variant_refuted.

Theorem C07_axes_only_variant_can_end_infeasible (feasX feasY : list Q -> Prop) X0 Y0 rk iters :
  feasX X0 -> ~ feasY Y0 ->
  exists s', steps feasX feasY (run_trace_axes rk true false iters) (X0, Y0) s' /\ ~ feasY (snd s').
Proof. exact (axes_only_variant_can_end_infeasible_thm feasX feasY X0 Y0 rk iters). Qed.
Print Assumptions C07_axes_only_variant_can_end_infeasible.

(* ---- the sub-constraint cursor protocol of makeFeasible(), constraint objects re-used across calls (seeded change C07-6) ----
   Model Cola/SubCursorModel.v (markAllSubConstraintsAsInactive / subConstraintsRemaining / getCurrSubConstraintAlternatives /
   markCurrSubConstraintAsActive of compound_constraints.cpp and the loops colafd.cpp:660-853); the solver's accept / reject
   decision is the Section variable `accept` (oracle) - universally quantified in every theorem below.  Tie: checks/c07.py
   family 'reuse' compares, per makeFeasible() call and per constraint object, the events an observer subclass of the real
   class logs (harness/c07_cc.cpp mode seq) with cc_trace of the extracted mf_call run on the observed decisions. *)
From Adapt Require Import Cola.SubCursorModel Cola.SubCursor.
Local Open Scope nat_scope.

(* one call, constraint objects in ANY state (every history of completed or aborted earlier calls), any solver decisions *)
Theorem C07_makeFeasible_accounts_for_every_subconstraint : accounts_all true.
Proof. exact accounts_all_rewind_thm. Qed.
Print Assumptions C07_makeFeasible_accounts_for_every_subconstraint.

(* the same statement with the rewind `_currSubConstraintIndex = 0;` dropped is false *)
Theorem C07_makeFeasible_without_rewind_refuted : ~ accounts_all false.
Proof. exact mf_call_norewind_refuted_thm. Qed.
Print Assumptions C07_makeFeasible_without_rewind_refuted.

Theorem C07_makeFeasible_without_rewind_second_call_skips_everything :
  mf_call accept_all false 5 demo_after_first []
  = ROk ([mkCcst KNormal 1 [1] 1 [false]; mkCcst KNormal 2 [1; 1] 2 [false; false]],
         mkAcc [ERemaining 1 false; EInactive 1; ERemaining 0 false; EInactive 0] [] []).
Proof. exact mf_call_norewind_second_call_skips_everything_thm. Qed.
Print Assumptions C07_makeFeasible_without_rewind_second_call_skips_everything.

(* ... and on freshly constructed objects the two variants cannot be told apart (why per-layout fresh objects never show it) *)
Theorem C07_makeFeasible_without_rewind_first_call_same (accept : oracle) fuel ccs log0 :
  Forall (fun s => ccur s = 0) ccs ->
  mf_call accept false fuel ccs log0 = mf_call accept true fuel ccs log0.
Proof. exact (mf_norewind_first_call_same_thm accept fuel ccs log0). Qed.
Print Assumptions C07_makeFeasible_without_rewind_first_call_same.

(* public-API level: objects constructed once, any number of earlier makeFeasible() calls, then the call under test *)
Theorem C07_makeFeasible_reused_objects (ccs : list cc) (oracles : list oracle) (accept : oracle) fuel :
  (forall c, In c ccs -> cc_nsubs c < fuel) -> 2 <= fuel ->
  exists ccs1 log1 ccs' A new,
    mf_history true fuel oracles (constructed ccs) [] = ROk (ccs1, log1) /\
    mf_call accept true fuel ccs1 log1 = ROk (ccs', A) /\ a_log A = new ++ log1 /\
    forall i c, nth_error ccs i = Some c -> cc_kind c <> KSkip ->
      exists s', nth_error ccs' i = Some s' /\ ccur s' = cc_nsubs c /\
        forall k, k < cc_nsubs c ->
          offer_count i k new = 1 /\
          valid_count i k (a_valid A) + rej_count i k (a_rej A) = 1 /\
          (nth k (cflags s') false = true <-> valid_count i k (a_valid A) = 1).
Proof. exact (makeFeasible_reused_objects_thm ccs oracles accept fuel). Qed.
Print Assumptions C07_makeFeasible_reused_objects.

(* non-vacuity: the hypotheses hold on a concrete state with cursors beyond / in the middle / at the end, an oracle that rejects,
   two-alternative sub-constraints, a combined and a skipping object; and on a two-call history of constructed objects *)
Example C07_cursor_nonvacuous_state :
  Forall wf_cc demo_odd_state /\ (forall s, In s demo_odd_state -> cn s < 6) /\ 2 <= 6.
Proof. exact demo_odd_state_hyps. Qed.
Example C07_cursor_nonvacuous_history :
  (forall c, In c demo_ccs -> cc_nsubs c < 5) /\ 2 <= 5 /\
  Forall (fun c => cc_kind c <> KSkip) demo_ccs /\
  exists A, mf_history true 5 [accept_all; demo_oracle] (constructed demo_ccs) [] = ROk (A) /\
            map ccur (fst A) = [1; 2] /\ map cflags (fst A) = [[true]; [true; false]].
Proof. exact makeFeasible_reused_objects_nonvacuous. Qed.
