(* C08 - libcola: overlap avoidance and cluster containment hold in the result.
   Only statements closed by `exact`; proofs in Cola/NonOverlap.v and Cola/Containment.v over the hand-written models
   Cola/NonOverlapModel.v / Cola/ContainmentModel.v, which checks/c08.py compares with the compiled
   NonOverlapConstraints / ClusterContainmentConstraints on every run.

   Proved: one projection onto the non-overlap constraints generated from the current rectangles (satisfied to 1e-10)
   leaves every listed pair separated by >= -0.0005 in x or y; so that property (Sep) is an invariant of any sequence of
   projections in any axis order; Sep excludes an overlap > 1e-3 in both dimensions; containment constraints <-> member
   inside the padded cluster box; containment + the generated cluster/cluster (node/cluster) separation => member
   bounding boxes of siblings disjoint (non-member outside) in that dimension.
   NOT proved (validated on real runs by the extracted checkers only): that makeFeasible() establishes the invariant, that
   the solver satisfies the generated constraints (C01) and flags none, and - for cluster pairs - that in the final
   layout a separating constraint exists for every sibling pair in some dimension (the cluster analogue of
   nonoverlap_step_established; its node version is proved). *)
From Adapt Require Import Num.Qaux Cola.CompoundCsModel Cola.CompoundCs Cola.NonOverlapModel Cola.NonOverlap
  Cola.ContainmentModel Cola.Containment Cola.VarLayoutModel Cola.VarLayout.
Local Open Scope Q_scope.

Theorem nonoverlap_step_preserved d nv offs prs rects cs v' :
  nodes_ok offs prs rects ->
  Sep thr prs rects ->
  gen_nonoverlap d nv (offs, prs) rects = GOk cs ->
  Forall (sat_eps eps10 v') cs ->
  Sep thr prs (move_all d rects v').
Proof. exact (nonoverlap_step_preserved_thm d nv offs prs rects cs v'). Qed.
Print Assumptions nonoverlap_step_preserved.

(* stronger: a single successful projection establishes Sep, whatever held before *)
Theorem C08_step_establishes d nv offs prs rects cs v' :
  nodes_ok offs prs rects ->
  gen_nonoverlap d nv (offs, prs) rects = GOk cs ->
  Forall (sat_eps eps10 v') cs ->
  Sep thr prs (move_all d rects v').
Proof. exact (nonoverlap_step_established d nv offs prs rects cs v'). Qed.
Print Assumptions C08_step_establishes.

Theorem C08_Sep_invariant_of_descent offs prs rects rects' :
  nodes_ok offs prs rects -> Sep thr prs rects -> descent offs prs rects rects' -> Sep thr prs rects'.
Proof. exact (Sep_descent_invariant offs prs rects rects'). Qed.
Print Assumptions C08_Sep_invariant_of_descent.

Theorem C08_Sep_no_big_overlap prs rects :
  Sep thr prs rects ->
  forall i j, In (i, j) prs ->
    ~ (tol3 < true_overlap DX (nth i rects rect0) (nth j rects rect0) /\
       tol3 < true_overlap DY (nth i rects rect0) (nth j rects rect0)).
Proof. exact (Sep_no_big_overlap prs rects). Qed.
Print Assumptions C08_Sep_no_big_overlap.

(* the library's overlap test over-approximates the real overlap, so a real overlap > 0.0005 always yields a constraint *)
Theorem C08_overlap_test_complete d u v : 0 < true_overlap d u v -> true_overlap d u v <= overlapD d u v.
Proof. exact (overlapD_ge_true_overlap d u v). Qed.
Print Assumptions C08_overlap_test_complete.

Theorem containment_sound v d cv pad members rects :
  Forall (sat v) (gen_containment d cv pad members rects []) <->
  forall id, In id members -> inside_padded d pad (v cv) (v (S cv)) (moved d (nth id rects rect0) (v id)).
Proof. exact (containment_sound_thm v d cv pad members rects). Qed.
Print Assumptions containment_sound.

Theorem C08_containment_children_sound v d cv pad rects children :
  Forall (sat v) (gen_containment d cv pad [] rects children) <->
  forall ch m, In (ch, m) children -> child_inside d pad m (v cv) (v (S cv)) (v ch) (v (S ch)).
Proof. exact (containment_children_sound v d cv pad rects children). Qed.
Print Assumptions C08_containment_children_sound.

Theorem siblings_disjoint eps v d a b boundsA boundsB mA mB nodesA nodesB padA padB MA MB rects chA chB c :
  0 <= eps ->
  box_nonneg mA -> box_nonneg mB -> box_nonneg padA -> box_nonneg padB ->
  (forall x, In x MA \/ In x MB -> (x < length rects)%nat) ->
  Forall (sat_eps eps v) (gen_containment d a padA MA rects chA) ->
  Forall (sat_eps eps v) (gen_containment d b padB MB rects chB) ->
  In c (gen_pair d a b (Clus boundsA mA nodesA) (Clus boundsB mB nodesB) rects) ->
  sat_eps eps v c ->
  members_right_of d (3 * eps) (move_all d rects v) MA MB \/ members_right_of d (3 * eps) (move_all d rects v) MB MA.
Proof. exact (siblings_disjoint_thm eps v d a b boundsA boundsB mA mB nodesA nodesB padA padB MA MB rects chA chB c). Qed.
Print Assumptions siblings_disjoint.

Theorem C08_nonmember_outside eps v d n a hw hh boundsA mA nodesA padA MA rects chA c :
  0 <= eps -> (n < length rects)%nat ->
  box_nonneg mA -> box_nonneg padA ->
  match d with DX => hw | DY => hh end == rlen d (nth n rects rect0) / 2 ->
  Forall (sat_eps eps v) (gen_containment d a padA MA rects chA) ->
  (forall x, In x MA -> (x < length rects)%nat) ->
  In c (gen_pair d n a (Node hw hh) (Clus boundsA mA nodesA) rects) ->
  sat_eps eps v c ->
  members_right_of d (2 * eps) (move_all d rects v) [n] MA \/ members_right_of d (2 * eps) (move_all d rects v) MA [n].
Proof. exact (nonmember_outside_thm eps v d n a hw hh boundsA mA nodesA padA MA rects chA c). Qed.
Print Assumptions C08_nonmember_outside.

Theorem C08_checker_correct t prs rects : Sepb t prs rects = true <-> Sep t prs rects.
Proof. exact (Sepb_correct t prs rects). Qed.
Print Assumptions C08_checker_correct.

Theorem C08_box_checker_correct t rects A B : boxes_sepb t rects A B = true <-> boxes_sep t rects A B.
Proof. exact (boxes_sepb_correct t rects A B). Qed.
Print Assumptions C08_box_checker_correct.

(* Variable index layout (Cola/VarLayoutModel.v, tied to colafd.cpp by the `vars` correspondence of checks/c08.py): the cluster
   variable numbers recorded when the ClusterContainmentConstraints are created index the variable list that
   setupVarsAndConstraints builds before every projection of run() - in both dimensions, with any user compound constraints:
   the run-time list extends the stored one, and the id stored for cluster c (id+1) is the tag of c's min-side (max-side)
   boundary variable there.  So the containment constraints of containment_sound / siblings_disjoint really bind the members to
   their own cluster's boundary variables when user constraints that create variables are combined with a hierarchy. *)
Theorem C08_setup_extends_stored d n root ccs :
  setup_layout d n root ccs = stored_layout n root ++ [TMin (ct_id root); TMax (ct_id root)] ++ cc_tags d ccs.
Proof. exact (setup_extends_stored_thm d n root ccs). Qed.
Print Assumptions C08_setup_extends_stored.

Theorem C08_stored_id_points_at_cluster d n root ccs c :
  In (TMin c) (stored_layout n root) ->
  tag_at (setup_layout d n root ccs) (stored_id n root c) = Some (TMin c) /\
  tag_at (setup_layout d n root ccs) (S (stored_id n root c)) = Some (TMax c).
Proof. exact (stored_id_points_at_cluster_thm d n root ccs c). Qed.
Print Assumptions C08_stored_id_points_at_cluster.

(* Fixed-rectangle clusters (RectangularCluster(rectIndex), cluster.cpp:300-329; model gen_fixed_rect tied by the `gen` and
   `vars` correspondences of checks/c08.py): the generated equalities make the cluster box the container rectangle, so with the
   members' containment constraints every member (inflated by the padding) lies inside the container RECTANGLE; without the
   last equality that fails. *)
Theorem C08_fixed_rect_cluster_sound v d cv ri rects :
  Forall (sat v) (gen_fixed_rect d cv ri rects) <->
  box_is_rect d (v cv) (v (S cv)) (moved d (nth ri rects rect0) (v ri)).
Proof. exact (fixed_rect_cluster_sound_thm v d cv ri rects). Qed.
Print Assumptions C08_fixed_rect_cluster_sound.

Theorem C08_fixed_rect_cluster_eps eps v d cv ri rects :
  Forall (sat_eps eps v) (gen_fixed_rect d cv ri rects) <->
  box_is_rect_eps eps d (v cv) (v (S cv)) (moved d (nth ri rects rect0) (v ri)).
Proof. exact (fixed_rect_cluster_eps_thm eps v d cv ri rects). Qed.
Print Assumptions C08_fixed_rect_cluster_eps.

Theorem C08_members_inside_fixed_rect v d cv ri pad members rects children :
  Forall (sat v) (gen_fixed_rect d cv ri rects) ->
  Forall (sat v) (gen_containment d cv pad members rects children) ->
  forall id, In id members ->
    inside_rect_d d 0 pad (moved d (nth ri rects rect0) (v ri)) (moved d (nth id rects rect0) (v id)).
Proof. exact (members_inside_fixed_rect_thm v d cv ri pad members rects children). Qed.
Print Assumptions C08_members_inside_fixed_rect.

Theorem C08_members_inside_fixed_rect_eps eps v d cv ri pad members rects children :
  Forall (sat_eps eps v) (gen_fixed_rect d cv ri rects) ->
  Forall (sat_eps eps v) (gen_containment d cv pad members rects children) ->
  forall id, In id members ->
    inside_rect_d d (2 * eps) pad (moved d (nth ri rects rect0) (v ri)) (moved d (nth id rects rect0) (v id)).
Proof. exact (members_inside_fixed_rect_eps_thm eps v d cv ri pad members rects children). Qed.
Print Assumptions C08_members_inside_fixed_rect_eps.

Theorem C08_members_inside_fixed_rect_2d eps vx vy cv ri pad members rects chx chy :
  (ri < length rects)%nat -> (forall m, In m members -> (m < length rects)%nat) ->
  Forall (sat_eps eps vx) (gen_fixed_rect DX cv ri rects) ->
  Forall (sat_eps eps vy) (gen_fixed_rect DY cv ri rects) ->
  Forall (sat_eps eps vx) (gen_containment DX cv pad members rects chx) ->
  Forall (sat_eps eps vy) (gen_containment DY cv pad members rects chy) ->
  members_inside_rect (2 * eps) pad (move_all DY (move_all DX rects vx) vy) ri members.
Proof. exact (members_inside_fixed_rect_2d_thm eps vx vy cv ri pad members rects chx chy). Qed.
Print Assumptions C08_members_inside_fixed_rect_2d.

Theorem C08_fixed_rect_weak_max_refuted :
  exists v d cv ri pad members rects,
    Forall (sat v) (gen_fixed_rect_weak_max d cv ri rects ++ gen_containment d cv pad members rects []) /\
    exists id, In id members /\
      ~ inside_rect_d d 0 pad (moved d (nth ri rects rect0) (v ri)) (moved d (nth id rects rect0) (v id)) /\
      rmax d (moved d (nth ri rects rect0) (v ri)) <= rmin d (moved d (nth id rects rect0) (v id)).
Proof. exact fixed_rect_weak_max_refuted. Qed.
Print Assumptions C08_fixed_rect_weak_max_refuted.

Theorem C08_inside_rect_checker_correct t pad rects ci members :
  members_inside_rectb t pad rects ci members = true <-> members_inside_rect t pad rects ci members.
Proof. exact (members_inside_rectb_correct t pad rects ci members). Qed.
Print Assumptions C08_inside_rect_checker_correct.

Theorem C08_fixed_rect_constraints_bind d n root ccs fixed rects c cs :
  In (c, cs) (fixed_rect_constraints d n root fixed rects) ->
  In (TMin c) (stored_layout n root) ->
  exists ri half, In (c, ri) fixed /\ half == rlen d (nth ri rects rect0) / 2 /\
    cs = [mkSep (stored_id n root c) ri half true; mkSep ri (S (stored_id n root c)) half true] /\
    tag_at (setup_layout d n root ccs) (stored_id n root c) = Some (TMin c) /\
    tag_at (setup_layout d n root ccs) (S (stored_id n root c)) = Some (TMax c) /\
    ((ri < n)%nat -> tag_at (setup_layout d n root ccs) ri = Some (TNode ri)).
Proof. exact (fixed_rect_constraints_bind_thm d n root ccs fixed rects c cs). Qed.
Print Assumptions C08_fixed_rect_constraints_bind.

(* ---- exemption groups across repeated setAvoidNodeOverlaps() calls (seeded change C08-6; DESIGN 9.16).  Model
   Cola/NonOverlapExemptModel.v of NonOverlapConstraintExemptions (a std::set<ShapePair>, smaller id first) and of the two members
   of ConstrainedFDLayout the setter writes; tied by the `exempt` correspondence of checks/c08.py (shapePairIsExempt for every ordered
   pair and getExemptPairs() after every call, exhaustive for small n, random for larger).  After ANY sequence of calls the exempt
   pairs are exactly the distinct pairs sharing a group of the LAST call. *)
From Coq Require Import Sorted.
From Adapt Require Import Cola.NonOverlapExemptModel Cola.NonOverlapExempt.
Theorem C08_exempt_after_calls calls last a b :
  shape_pair_is_exempt (ex_after (calls ++ [last])) a b = true <-> a <> b /\ exists g, In g last /\ In a g /\ In b g.
Proof. exact (exempt_after_calls_thm calls last a b). Qed.
Print Assumptions C08_exempt_after_calls.

Theorem C08_exempt_after_calls_sym calls a b :
  shape_pair_is_exempt (ex_after calls) a b = shape_pair_is_exempt (ex_after calls) b a.
Proof. exact (exempt_after_calls_sym calls a b). Qed.
Print Assumptions C08_exempt_after_calls_sym.

Theorem C08_exempt_after_no_call a b : shape_pair_is_exempt (ex_after []) a b = false.
Proof. exact (exempt_after_no_call a b). Qed.
Print Assumptions C08_exempt_after_no_call.

(* the layout object: the flag and the exemptions in force are those of the last call, whatever came before *)
Theorem C08_options_after_calls calls avoid groups :
  o_avoid (after_calls (calls ++ [(avoid, groups)])) = avoid /\
  forall a b, shape_pair_is_exempt (o_ex (after_calls (calls ++ [(avoid, groups)]))) a b = true <->
              a <> b /\ exists g, In g groups /\ In a g /\ In b g.
Proof. exact (options_after_calls_thm calls avoid groups). Qed.
Print Assumptions C08_options_after_calls.

(* the pair obligation that checks/c08.py takes from the extracted model for the call-sequence family *)
Theorem C08_obliged_pairs_after_calls calls avoid groups n i j :
  In (i, j) (obliged_pairs (after_calls (calls ++ [(avoid, groups)])) n) <->
  avoid = true /\ (i < j < n)%nat /\ ~ (i <> j /\ exists g, In g groups /\ In i g /\ In j g).
Proof. exact (obliged_pairs_thm calls avoid groups n i j). Qed.
Print Assumptions C08_obliged_pairs_after_calls.

(* addShape consults the exemption object: with the object in the state the calls leave, a pair is skipped iff the LAST call
   declares it exempt *)
Theorem C08_add_shape_uses_last_call calls last offs prs id hw hh g ex i j :
  In (i, j) (snd (add_shape (ex_after (calls ++ [last])) (offs, prs) id hw hh g ex)) <->
  In (i, j) prs \/
  exists o, In o offs /\ (i, j) = npair (s_id o) id /\ s_group o = g /\ id <> s_id o /\
            mem (s_id o) ex = false /\ ~ (s_id o <> id /\ exists gr, In gr last /\ In (s_id o) gr /\ In id gr).
Proof. exact (add_shape_uses_last_call calls last offs prs id hw hh g ex i j). Qed.
Print Assumptions C08_add_shape_uses_last_call.

(* the stored set is strictly increasing in ShapePair order with the smaller id first (compared with getExemptPairs()) *)
Theorem C08_exempt_set_sorted calls :
  StronglySorted pair_lt (ex_after calls) /\ forall x y, In (x, y) (ex_after calls) -> (x < y)%nat.
Proof. exact (ex_after_sorted calls). Qed.
Print Assumptions C08_exempt_set_sorted.

(* without m_exempt_pairs.clear() (seeded change C08-6) both statements fail: witness = the call sequence {{0,1}} then {{2,3}} *)
Theorem C08_exempt_after_calls_noclear_refuted :
  exists calls last a b,
    shape_pair_is_exempt (ex_after_noclear (calls ++ [last])) a b = true /\
    ~ (a <> b /\ exists g, In g last /\ In a g /\ In b g).
Proof. exact exempt_after_calls_noclear_refuted. Qed.
Print Assumptions C08_exempt_after_calls_noclear_refuted.

Theorem C08_obliged_pairs_noclear_refuted :
  exists calls avoid groups n i j,
    avoid = true /\ (i < j < n)%nat /\ ~ (i <> j /\ exists g, In g groups /\ In i g /\ In j g) /\
    ~ In (i, j) (obliged_pairs (after_calls_noclear (calls ++ [(avoid, groups)])) n).
Proof. exact obliged_pairs_noclear_refuted. Qed.
Print Assumptions C08_obliged_pairs_noclear_refuted.

(* non-vacuity: the demo sequence, an unsorted group with duplicates, true -> false -> true, and a last call that switches off *)
Example C08_exempt_calls_nonvacuous :
  shape_pair_is_exempt (ex_after [[[0; 1]]; [[2; 3]]]%nat) 0 1 = false /\
  shape_pair_is_exempt (ex_after [[[0; 1]]; [[2; 3]]]%nat) 3 2 = true /\
  ex_after [[[0; 1]]; [[3; 1; 3; 2]; [5; 1]]]%nat = [(1, 2); (1, 3); (1, 5); (2, 3)]%nat /\
  obliged_pairs (after_calls [(true, [[0; 1]]); (false, []); (true, [[2; 1]])]%nat) 3 = [(0, 1); (0, 2)]%nat /\
  obliged_pairs (after_calls [(true, [[0; 1]]); (false, [[0; 1]])]%nat) 3 = [].
Proof. exact ex_calls_demo. Qed.
