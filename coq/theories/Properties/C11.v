(* C11 - libavoid: pins, junctions and checkpoints are honoured by routes (DESIGN 5.11).
   Only statements closed by `exact`; proofs live in Avoid/Pins.v.  Model: Avoid/PinsModel.v (hand-written, tied to the
   implementation by the correspondence run of checks/c11.py); ShapeConnectionPin::directions and the ATTACH_POS_* /
   ConnDir* constants are regenerated from connectionpin.{h,cpp} / connend.h by cpp2v on every run (Gen/ConnPin.v). *)
From Adapt Require Import Num.Qaux Avoid.PinsModel Gen.ConnPin Avoid.Pins.
(* Gen/VisEdge.v (getPosVertInfDirections and the three edge decisions of generateVisibilityEdgesFromBreakpointSet, regenerated from
   orthogonal.cpp on every run) is only Required: it redefines the ConnDir* constants, its names are used qualified *)
From Adapt Require Gen.VisEdge.
From Adapt Require Import Avoid.PinVisEdgesModel Avoid.PinVisEdges.
Local Open Scope Q_scope.

(* T: the translated directions() is the model's, the translated constants are the model's *)
Theorem C11_gen_directions p : directions p = pin_directions p.
Proof. exact (gen_directions_eq p). Qed.
Print Assumptions C11_gen_directions.

Theorem C11_gen_constants :
  (ATTACH_POS_TOP == POS_TOP /\ ATTACH_POS_CENTRE == POS_CENTRE /\ ATTACH_POS_BOTTOM == POS_BOTTOM /\
   ATTACH_POS_LEFT == POS_LEFT /\ ATTACH_POS_RIGHT == POS_RIGHT /\
   ATTACH_POS_MIN_OFFSET == POS_MIN_OFFSET /\ ATTACH_POS_MAX_OFFSET == POS_MAX_OFFSET) /\
  (ConnDirNone = DirNone /\ ConnDirUp = DirUp /\ ConnDirDown = DirDown /\ ConnDirLeft = DirLeft /\
   ConnDirRight = DirRight /\ ConnDirAll = DirAll).
Proof. exact (conj gen_constants_Q gen_constants_Z). Qed.
Print Assumptions C11_gen_constants.

(* the pin position lies in the closed bounding box, at distance insideOffset from the named side *)
Theorem C11_pin_in_bbox b xoff yoff inside prop :
  box_valid b -> offset_valid (bwidth b) xoff prop -> offset_valid (bheight b) yoff prop ->
  0 <= inside -> inside <= bwidth b -> inside <= bheight b ->
  in_closed_box b (pin_position b xoff yoff inside prop) /\
  (xoff == POS_LEFT -> px (pin_position b xoff yoff inside true) == bminx b + inside) /\
  (xoff == POS_RIGHT -> px (pin_position b xoff yoff inside true) == bmaxx b - inside) /\
  (yoff == POS_TOP -> py (pin_position b xoff yoff inside true) == bminy b + inside) /\
  (yoff == POS_BOTTOM -> py (pin_position b xoff yoff inside true) == bmaxy b - inside) /\
  (xoff == POS_MIN_OFFSET -> px (pin_position b xoff yoff inside false) == bminx b + inside) /\
  (xoff == POS_MAX_OFFSET -> px (pin_position b xoff yoff inside false) == bmaxx b - inside) /\
  (yoff == POS_MIN_OFFSET -> py (pin_position b xoff yoff inside false) == bminy b + inside) /\
  (yoff == POS_MAX_OFFSET -> py (pin_position b xoff yoff inside false) == bmaxy b - inside).
Proof. exact (pin_in_bbox b xoff yoff inside prop). Qed.
Print Assumptions C11_pin_in_bbox.

(* pins follow the shape: translation equivariance; proportion kept under resize; side distance kept *)
Theorem C11_pin_equivariant :
  (forall poly t p, poly <> [] -> pt_eq (pin_pos_poly (poly_add poly t) p) (pt_add (pin_pos_poly poly p) t)) /\
  (forall b b' xoff yoff inside,
      (inside == 0 \/ (~ xoff == POS_LEFT /\ ~ xoff == POS_RIGHT)) ->
      (inside == 0 \/ (~ yoff == POS_TOP /\ ~ yoff == POS_BOTTOM)) ->
      (px (pin_position b xoff yoff inside true) - bminx b) * bwidth b' ==
      (px (pin_position b' xoff yoff inside true) - bminx b') * bwidth b /\
      (py (pin_position b xoff yoff inside true) - bminy b) * bheight b' ==
      (py (pin_position b' xoff yoff inside true) - bminy b') * bheight b) /\
  (forall b xoff yoff inside,
      (xoff == POS_LEFT -> px (pin_position b xoff yoff inside true) - bminx b == inside) /\
      (xoff == POS_RIGHT -> bmaxx b - px (pin_position b xoff yoff inside true) == inside) /\
      (yoff == POS_TOP -> py (pin_position b xoff yoff inside true) - bminy b == inside) /\
      (yoff == POS_BOTTOM -> bmaxy b - py (pin_position b xoff yoff inside true) == inside)).
Proof. exact pin_equivariant. Qed.
Print Assumptions C11_pin_equivariant.

Theorem C11_pins_follow_move st s dx dy p q :
  step_ok st (MoveShape s dx dy) = true -> pin_pos st p = Some q -> (forall poly, st_shape st s = Some poly -> poly <> []) ->
  exists q', pin_pos (step st (MoveShape s dx dy)) p = Some q' /\
             (p_shape (pin_of st p) = s -> pt_eq q' (pt_add q (mkpt dx dy))) /\
             (p_shape (pin_of st p) <> s -> q' = q) /\
             users (step st (MoveShape s dx dy)) = users st /\ active (step st (MoveShape s dx dy)) = active st.
Proof. exact (pins_follow_move st s dx dy p q). Qed.
Print Assumptions C11_pins_follow_move.

(* no exclusive pin ever has two users, whatever the sequence of Assign/Free/Move/Resize/Delete *)
Theorem C11_exclusive_invariant pins ends shapes ops :
  let st := fold_left step ops (init pins ends shapes) in
  forall p, p_excl (nth p pins pin0) = true -> (length (users st p) <= 1)%nat.
Proof. exact (exclusive_invariant pins ends shapes ops). Qed.
Print Assumptions C11_exclusive_invariant.

(* the candidate set offered to the search = the pins of the class on that (live) shape that are non-exclusive or unused *)
Theorem C11_free_pin_chosen st e p :
  In p (candidates st e) <->
  (p < length (st_pins st))%nat /\ (e < length (st_ends st))%nat /\
  p_shape (pin_of st p) = e_shape (end_of st e) /\ st_shape st (p_shape (pin_of st p)) <> None /\
  p_class (pin_of st p) = e_class (end_of st e) /\
  (p_excl (pin_of st p) = false \/ users st p = []).
Proof. exact (free_pin_chosen st e p). Qed.
Print Assumptions C11_free_pin_chosen.

(* the verified route checkers run on the implementation's routes *)
Theorem C11_end_checker orth q q1 cands :
  end_honoured orth q q1 cands = true <->
  exists c, In c cands /\ pt_eq q (fst c) /\ (orth = true -> leaves_in_dirs q q1 (snd c) = true).
Proof. exact (end_honoured_spec orth q q1 cands). Qed.
Print Assumptions C11_end_checker.

Theorem C11_direction_checker a b dirs :
  leaves_in_dirs a b dirs = true <->
  exists d, (d = DirUp \/ d = DirDown \/ d = DirLeft \/ d = DirRight) /\ Z.land d dirs <> 0%Z /\ runs d a b.
Proof. exact (leaves_in_dirs_spec a b dirs). Qed.
Print Assumptions C11_direction_checker.

(* partial: soundness only (the greedy earliest-match walk is complete, not proved) *)
Theorem C11_checkpoints_checker_sound_partial rest start cps :
  visits start rest cps = true -> InOrder start rest cps.
Proof. exact (visits_sound rest start cps). Qed.
Print Assumptions C11_checkpoints_checker_sound_partial.

(* re-attachment of a connector end to another shape's pin class / a free point / a junction (op Retarget): the state machine
   follows - the old pin is freed, the candidate pins are exactly the free pins of the NEW anchor's class.  (exclusive_invariant
   above quantifies over all op sequences, Retarget included.) *)
Theorem C11_retarget_spec st e s c :
  Inv st -> step_ok st (Retarget e s c) = true ->
  let st' := step st (Retarget e s c) in
  end_of st' e = mkend s c /\ (forall f, f <> e -> end_of st' f = end_of st f) /\
  length (st_ends st') = length (st_ends st) /\
  active st' e = None /\ (forall f, f <> e -> active st' f = active st f) /\
  (forall p, users st' p = remove_nat e (users st p)) /\
  st_shape st' = st_shape st /\ st_pins st' = st_pins st.
Proof. exact (retarget_spec st e s c). Qed.
Print Assumptions C11_retarget_spec.

Theorem C11_reattached_end_candidates st e s c p :
  Inv st -> step_ok st (Retarget e s c) = true ->
  (In p (candidates (step st (Retarget e s c)) e) <->
   (p < length (st_pins st))%nat /\ p_shape (pin_of st p) = s /\ st_shape st s <> None /\ p_class (pin_of st p) = c /\
   (p_excl (pin_of st p) = false \/ remove_nat e (users st p) = [])).
Proof. exact (reattached_end_candidates st e s c p). Qed.
Print Assumptions C11_reattached_end_candidates.

Theorem C11_retarget_detached_no_candidates st e s c :
  Inv st -> step_ok st (Retarget e s c) = true -> st_shape st s = None ->
  candidates (step st (Retarget e s c)) e = [] /\ active (step st (Retarget e s c)) e = None.
Proof. exact (retarget_detached_no_candidates st e s c). Qed.
Print Assumptions C11_retarget_detached_no_candidates.

Theorem C11_invariant_all_histories ops st : Inv st -> Inv (run st ops).
Proof. exact (Inv_run ops st). Qed.
Print Assumptions C11_invariant_all_histories.

(* ---- seeded change C11-6: which orthogonal visibility edges a pin gets from its scan-line neighbours (DESIGN 9.14) ----
   T: the translated getPosVertInfDirections is the intended map ConnDirFlags -> scan-line flags, for every mask and dimension *)
Theorem C11_gen_scan_directions m dim : VisEdge.getPosVertInfDirections (VisEdge.mkvert m) dim = scan_dirs m dim.
Proof. exact (gen_scan_dirs m dim). Qed.
Print Assumptions C11_gen_scan_directions.

(* T: the three local decisions of LineSegment::generateVisibilityEdgesFromBreakpointSet, as translated from the source, are the intended
   ones: canSeeDown looks at VERT's flags, canSeeUp at LAST's, generateEdge at both *)
Theorem C11_gen_visibility_decisions ld vd lc vc :
  (VisEdge.visedge_canSeeDown ld vd lc vc = has vd ScanDown) /\
  (VisEdge.visedge_canSeeUp ld vd lc vc = has ld ScanUp) /\
  (VisEdge.visedge_generateEdge ld vd lc vc = andb (implb lc (has ld ScanUp)) (implb vc (has vd ScanDown))).
Proof. exact (conj (gen_canSeeDown ld vd lc vc) (conj (gen_canSeeUp ld vd lc vc) (gen_generateEdge ld vd lc vc))). Qed.
Print Assumptions C11_gen_visibility_decisions.

(* every edge generated for a pair of scan-line neighbours leaves a connection point only towards a side its scan flags permit *)
Theorem C11_pair_edges_respect last vert sb sa e :
  In e (gen_pair_edges last vert sb sa) -> edge_respects last vert e = true.
Proof. exact (pair_edges_respect last vert sb sa e). Qed.
Print Assumptions C11_pair_edges_respect.

(* ... and in terms of the two pins' ConnDirFlags (ml: the pin at the lower position, mv: at the higher; dim 0 = a row, 1 = a column):
   the higher pin gets its edge across the neighbour towards lower positions iff its OWN mask contains Left / Up, the lower pin its edge
   towards higher positions iff its OWN mask contains Right / Down, the direct edge iff both *)
Theorem C11_pin_edges_respect_ConnDirFlags ml mv dim sb sa :
  dim = 0%Z \/ dim = 1%Z ->
  let es := gen_pair_edges (pin_bp ml dim) (pin_bp mv dim) sb sa in
  (In (mkedge Side Vert) es <-> has mv (dim_lower_flag dim) = true /\ sb = true) /\
  (In (mkedge Last Side) es <-> has ml (dim_higher_flag dim) = true /\ sa = true) /\
  (In (mkedge Last Vert) es <-> has ml (dim_higher_flag dim) = true /\ has mv (dim_lower_flag dim) = true).
Proof. exact (pin_edges_respect_ConnDirFlags ml mv dim sb sa). Qed.
Print Assumptions C11_pin_edges_respect_ConnDirFlags.

(* the decision as the seeded change wrote it (the neighbour's flag) violates C11_pair_edges_respect *)
Theorem C11_wrong_canSeeDown_refuted :
  exists last vert e, In e (pair_edges wrong_canSeeDown VisEdge.visedge_canSeeUp VisEdge.visedge_generateEdge last vert true true) /\
                      edge_respects last vert e = false.
Proof. exact wrong_canSeeDown_refuted. Qed.
Print Assumptions C11_wrong_canSeeDown_refuted.
