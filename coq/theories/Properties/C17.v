(* C17 - libcola: all-pairs shortest paths and the layout distance matrix are exact.
   Only statements closed by `exact`; the proofs live in Graph/*.v and are about the hand-written models of
   floyd_warshall / dijkstra / johnsons / PairingHeap / computePathLengths that checks/c17.py runs against the
   compiled code on every run.  `dist adj i j o` : o = Some d, d the minimum walk length, or o = None, unreachable. *)
From Coq Require Import Permutation.
From Adapt Require Import Num.Qaux Graph.Paths Graph.FloydWarshallModel Graph.FloydWarshall
  Graph.DijkstraModel Graph.Dijkstra Graph.BellmanFord Graph.PairingHeapModel Graph.PairingHeap.
Local Open Scope Q_scope.

(* Floyd-Warshall with the repaired initialisation (minimum of parallel edges, self-loops skipped): every
   well-formed multigraph *)
Theorem C17_fw_correct_fixed n es i j :
  wf_graph n es -> (i < n)%nat -> (j < n)%nat -> dist (adj_of es) i j (mget (fw_fixed n es) i j).
Proof. exact (fw_correct_fixed n es). Qed.
Print Assumptions C17_fw_correct_fixed.

Theorem C17_fw_fixed_diag_zero n es i :
  wf_graph n es -> (i < n)%nat -> oeq (mget (fw_fixed n es) i i) (Some 0).
Proof. exact (fw_fixed_diag_zero n es i). Qed.
Print Assumptions C17_fw_fixed_diag_zero.

Theorem C17_fw_fixed_symmetric n es i j :
  wf_graph n es -> (i < n)%nat -> (j < n)%nat -> oeq (mget (fw_fixed n es) i j) (mget (fw_fixed n es) j i).
Proof. exact (fw_fixed_symmetric n es i j). Qed.
Print Assumptions C17_fw_fixed_symmetric.

(* Floyd-Warshall with the initialisation of the snapshot (D[u][v] = D[v][u] = w): only under the hypothesis *)
Theorem C17_fw_correct n es i j :
  wf_graph n es -> no_self_loops es -> parallel_equal es ->
  (i < n)%nat -> (j < n)%nat -> dist (adj_of es) i j (mget (fw_current n es) i j).
Proof. exact (fw_correct n es). Qed.
Print Assumptions C17_fw_correct.

Theorem C17_fw_diag_zero n es i :
  wf_graph n es -> no_self_loops es -> parallel_equal es -> (i < n)%nat -> oeq (mget (fw_current n es) i i) (Some 0).
Proof. exact (fw_diag_zero n es i). Qed.
Print Assumptions C17_fw_diag_zero.

Theorem C17_fw_symmetric n es i j :
  wf_graph n es -> no_self_loops es -> parallel_equal es -> (i < n)%nat -> (j < n)%nat ->
  oeq (mget (fw_current n es) i j) (mget (fw_current n es) j i).
Proof. exact (fw_symmetric n es i j). Qed.
Print Assumptions C17_fw_symmetric.

(* ... and it is wrong without it (DESIGN 6 F-a; witness edges (0,1,5),(0,1,9),(2,2,4)) *)
Theorem C17_fw_refuted :
  exists n es i j, wf_graph n es /\ (i < n)%nat /\ (j < n)%nat /\ ~ dist (adj_of es) i j (mget (fw_current n es) i j).
Proof. exact fw_refuted. Qed.
Print Assumptions C17_fw_refuted.

Theorem C17_fw_refuted_diag :
  exists n es i, wf_graph n es /\ (i < n)%nat /\ ~ oeq (mget (fw_current n es) i i) (Some 0).
Proof. exact fw_refuted_diag. Qed.
Print Assumptions C17_fw_refuted_diag.

(* Dijkstra, generic: any vertex type with decidable equality, any adjacency function with non-negative weights
   on a finite closed vertex set, any finite map, any queue returning an element of minimal key *)
Theorem C17_dijkstra_sound :
  forall (V : Type) (eq_dec : forall x y : V, {x = y} + {x <> y}) (adj : V -> list (V * Q)) (M : Type)
    (get : M -> V -> oQ) (upd : M -> V -> oQ -> M) (extract : M -> list V -> option (V * list V)),
  (forall m v x, get (upd m v x) v = x) ->
  (forall m v u x, v <> u -> get (upd m v x) u = get m u) ->
  (forall d q u q', extract d q = Some (u, q') ->
      Permutation q (u :: q') /\ forall v, In v q -> ole (get d u) (get d v)) ->
  (forall d q, extract d q = None -> q = []) ->
  nonneg adj ->
  forall vs, NoDup vs -> (forall u v w, In u vs -> In (v, w) (adj u) -> In v vs) ->
  forall s, In s vs -> forall empty out0, (forall v, get empty v = None) ->
  forall res, dijkstra V adj M get upd extract empty out0 vs s = Done res ->
  forall t x, In t vs -> get res t = Some x -> reach adj s t x.
Proof. exact dijkstra_sound. Qed.
Print Assumptions C17_dijkstra_sound.

Theorem C17_dijkstra_optimal :
  forall (V : Type) (eq_dec : forall x y : V, {x = y} + {x <> y}) (adj : V -> list (V * Q)) (M : Type)
    (get : M -> V -> oQ) (upd : M -> V -> oQ -> M) (extract : M -> list V -> option (V * list V)),
  (forall m v x, get (upd m v x) v = x) ->
  (forall m v u x, v <> u -> get (upd m v x) u = get m u) ->
  (forall d q u q', extract d q = Some (u, q') ->
      Permutation q (u :: q') /\ forall v, In v q -> ole (get d u) (get d v)) ->
  (forall d q, extract d q = None -> q = []) ->
  nonneg adj ->
  forall vs, NoDup vs -> (forall u v w, In u vs -> In (v, w) (adj u) -> In v vs) ->
  forall s, In s vs -> forall empty out0, (forall v, get empty v = None) ->
  forall res, dijkstra V adj M get upd extract empty out0 vs s = Done res ->
  forall t l, In t vs -> walk adj s t l -> ole (get res t) (Some l).
Proof. exact dijkstra_optimal. Qed.
Print Assumptions C17_dijkstra_optimal.

(* the libcola instance: johnsons = Dijkstra from every source; it never runs out of fuel *)
Theorem C17_johnsons_correct n es J :
  wf_graph n es -> johnsons n es = Some J ->
  forall i j, (i < n)%nat -> (j < n)%nat -> dist (adj_of es) i j (mget J i j).
Proof. exact (johnsons_correct n es). Qed.
Print Assumptions C17_johnsons_correct.

Theorem C17_johnsons_total n es : wf_graph n es -> exists J, johnsons n es = Some J.
Proof. exact (johnsons_total n es). Qed.
Print Assumptions C17_johnsons_total.

Theorem C17_johnsons_eq_fw_fixed n es J :
  wf_graph n es -> johnsons n es = Some J ->
  forall i j, (i < n)%nat -> (j < n)%nat -> oeq (mget J i j) (mget (fw_fixed n es) i j).
Proof. exact (johnsons_eq_fw_fixed n es). Qed.
Print Assumptions C17_johnsons_eq_fw_fixed.

Theorem C17_johnsons_eq_fw n es J :
  wf_graph n es -> no_self_loops es -> parallel_equal es -> johnsons n es = Some J ->
  forall i j, (i < n)%nat -> (j < n)%nat -> oeq (mget J i j) (mget (fw_current n es) i j).
Proof. exact (johnsons_eq_fw n es). Qed.
Print Assumptions C17_johnsons_eq_fw.

(* the layout matrices: D = idealLength * dist over the corrected lengths, G = 0 / 1 / 2 *)
Theorem C17_path_lengths_scaled n es ideal D G :
  ends_in_range n es -> compute_path_lengths n es ideal = Some (D, G) ->
  forall i j, (i < n)%nat -> (j < n)%nat -> i <> j ->
  exists o, dist (adj_of (fix_lengths es)) i j o /\
    mget D i j = match o with None => None | Some d => Some (Qred (d * ideal)) end /\
    nth j (nth i G []) None =
      Some (if has_edge es i j then 1%nat else match o with None => 0%nat | Some _ => 2%nat end).
Proof. exact (path_lengths_scaled n es ideal D G). Qed.
Print Assumptions C17_path_lengths_scaled.

(* the oracle the search uses *)
Theorem C17_bf_correct n es s d :
  wf_graph n es -> (s < n)%nat -> bf n es s = Some d -> forall t, (t < n)%nat -> dist (adj_of es) s t (dget d t).
Proof. exact (bf_correct n es). Qed.
Print Assumptions C17_bf_correct.
