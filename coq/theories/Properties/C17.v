(* C17 - libcola: all-pairs shortest paths and the layout distance matrix are exact.
   Only statements closed by `exact`; the proofs live in Graph/*.v and are about the hand-written models of
   floyd_warshall / dijkstra / johnsons / PairingHeap / computePathLengths that checks/c17.py runs against the
   compiled code on every run.  `dist adj i j o` : o = Some d, d the minimum walk length, or o = None, unreachable. *)
From Coq Require Import Permutation.
From Adapt Require Import Num.Qaux Graph.Paths Graph.FloydWarshallModel Graph.FloydWarshall
  Graph.FloydWarshallLit Graph.DijkstraModel Graph.Dijkstra Graph.BellmanFord Graph.PairingHeapModel Graph.PairingHeap
  Graph.ApspAgree.
Local Open Scope Q_scope.

(* Floyd-Warshall with the repaired initialisation (minimum of parallel edges, self-loops skipped): every
   well-formed multigraph *)
Theorem C17_fw_correct_fixed n es :
  wf_graph n es -> forall i j, (i < n)%nat -> (j < n)%nat -> dist (adj_of es) i j (mget (fw_fixed n es) i j).
Proof. exact (fw_correct_fixed n es). Qed.
Print Assumptions C17_fw_correct_fixed.

Theorem C17_fw_fixed_diag_zero n es i :
  wf_graph n es -> (i < n)%nat -> oeq (mget (fw_fixed n es) i i) (Some 0).
Proof. exact (fw_fixed_diag_zero n es i). Qed.
Print Assumptions C17_fw_fixed_diag_zero.

Theorem C17_fw_fixed_symmetric n es i j :
  wf_graph n es -> (i < n)%nat -> (j < n)%nat -> oeq (mget (fw_fixed n es) i j) (mget (fw_fixed n es) j i).
Proof. exact (fw_fixed_symmetric n es i j). Qed.
Print Assumptions C17_fw_fixed_symmetric.

(* Floyd-Warshall with the initialisation of the snapshot (D[u][v] = D[v][u] = w): only under the hypothesis *)
Theorem C17_fw_correct n es :
  wf_graph n es -> no_self_loops es -> parallel_equal es ->
  forall i j, (i < n)%nat -> (j < n)%nat -> dist (adj_of es) i j (mget (fw_current n es) i j).
Proof. exact (fw_correct n es). Qed.
Print Assumptions C17_fw_correct.

Theorem C17_fw_diag_zero n es i :
  wf_graph n es -> no_self_loops es -> parallel_equal es -> (i < n)%nat -> oeq (mget (fw_current n es) i i) (Some 0).
Proof. exact (fw_diag_zero n es i). Qed.
Print Assumptions C17_fw_diag_zero.

Theorem C17_fw_symmetric n es i j :
  wf_graph n es -> no_self_loops es -> parallel_equal es -> (i < n)%nat -> (j < n)%nat ->
  oeq (mget (fw_current n es) i j) (mget (fw_current n es) j i).
Proof. exact (fw_symmetric n es i j). Qed.
Print Assumptions C17_fw_symmetric.

(* ... and it is wrong without it (DESIGN 6 F-a; witness edges (0,1,5),(0,1,9),(2,2,4)) *)
Theorem C17_fw_refuted :
  exists n es i j, wf_graph n es /\ (i < n)%nat /\ (j < n)%nat /\ ~ dist (adj_of es) i j (mget (fw_current n es) i j).
Proof. exact fw_refuted. Qed.
Print Assumptions C17_fw_refuted.

Theorem C17_fw_refuted_diag :
  exists n es i, wf_graph n es /\ (i < n)%nat /\ ~ oeq (mget (fw_current n es) i i) (Some 0).
Proof. exact fw_refuted_diag. Qed.
Print Assumptions C17_fw_refuted_diag.

(* the literal element-wise triple loop (the C++ as written) computes the same matrix as the row-organised loops
   the theorems above are about; so they hold for it as well *)
Theorem C17_fw_loops_lit_eq n D : shaped n D -> fw_loops_lit n D = fw_loops n D.
Proof. exact (fw_loops_lit_eq n D). Qed.
Print Assumptions C17_fw_loops_lit_eq.

Theorem C17_fw_correct_fixed_lit n es : wf_graph n es ->
  forall i j, (i < n)%nat -> (j < n)%nat -> dist (adj_of es) i j (mget (fw_fixed_lit n es) i j).
Proof. exact (fw_correct_fixed_lit n es). Qed.
Print Assumptions C17_fw_correct_fixed_lit.

Theorem C17_fw_correct_lit n es : wf_graph n es -> no_self_loops es -> parallel_equal es ->
  forall i j, (i < n)%nat -> (j < n)%nat -> dist (adj_of es) i j (mget (fw_current_lit n es) i j).
Proof. exact (fw_correct_lit n es). Qed.
Print Assumptions C17_fw_correct_lit.

Theorem C17_fw_refuted_lit :
  exists n es i j, wf_graph n es /\ (i < n)%nat /\ (j < n)%nat /\ ~ dist (adj_of es) i j (mget (fw_current_lit n es) i j).
Proof. exact fw_refuted_lit. Qed.
Print Assumptions C17_fw_refuted_lit.

(* Dijkstra, generic: any vertex type with decidable equality, any adjacency function with non-negative weights
   on a finite closed vertex set, any finite map, any queue returning an element of minimal key *)
Theorem C17_dijkstra_sound :
  forall (V : Type) (eq_dec : forall x y : V, {x = y} + {x <> y}) (adj : V -> list (V * Q)) (M : Type)
    (get : M -> V -> oQ) (upd : M -> V -> oQ -> M) (extract : M -> list V -> option (V * list V)),
  (forall m v x, get (upd m v x) v = x) ->
  (forall m v u x, v <> u -> get (upd m v x) u = get m u) ->
  (forall d q u q', extract d q = Some (u, q') ->
      Permutation q (u :: q') /\ forall v, In v q -> ole (get d u) (get d v)) ->
  (forall d q, extract d q = None -> q = []) ->
  nonneg adj ->
  forall vs, NoDup vs -> (forall u v w, In u vs -> In (v, w) (adj u) -> In v vs) ->
  forall s, In s vs -> forall empty out0, (forall v, get empty v = None) ->
  forall res, dijkstra V adj M get upd extract empty out0 vs s = Done res ->
  forall t x, In t vs -> get res t = Some x -> reach adj s t x.
Proof. exact dijkstra_sound. Qed.
Print Assumptions C17_dijkstra_sound.

Theorem C17_dijkstra_optimal :
  forall (V : Type) (eq_dec : forall x y : V, {x = y} + {x <> y}) (adj : V -> list (V * Q)) (M : Type)
    (get : M -> V -> oQ) (upd : M -> V -> oQ -> M) (extract : M -> list V -> option (V * list V)),
  (forall m v x, get (upd m v x) v = x) ->
  (forall m v u x, v <> u -> get (upd m v x) u = get m u) ->
  (forall d q u q', extract d q = Some (u, q') ->
      Permutation q (u :: q') /\ forall v, In v q -> ole (get d u) (get d v)) ->
  (forall d q, extract d q = None -> q = []) ->
  nonneg adj ->
  forall vs, NoDup vs -> (forall u v w, In u vs -> In (v, w) (adj u) -> In v vs) ->
  forall s, In s vs -> forall empty out0, (forall v, get empty v = None) ->
  forall res, dijkstra V adj M get upd extract empty out0 vs s = Done res ->
  forall t l, In t vs -> walk adj s t l -> ole (get res t) (Some l).
Proof. exact dijkstra_optimal. Qed.
Print Assumptions C17_dijkstra_optimal.

(* the libcola instance: johnsons = Dijkstra from every source; it never runs out of fuel *)
Theorem C17_johnsons_correct n es :
  wf_graph n es -> forall J, johnsons n es = Some J ->
  forall i j, (i < n)%nat -> (j < n)%nat -> dist (adj_of es) i j (mget J i j).
Proof. exact (johnsons_correct n es). Qed.
Print Assumptions C17_johnsons_correct.

Theorem C17_johnsons_total n es : exists J, johnsons n es = Some J.
Proof. exact (johnsons_total n es). Qed.
Print Assumptions C17_johnsons_total.

Theorem C17_johnsons_eq_fw_fixed n es :
  wf_graph n es -> forall J, johnsons n es = Some J ->
  forall i j, (i < n)%nat -> (j < n)%nat -> oeq (mget J i j) (mget (fw_fixed n es) i j).
Proof. exact (johnsons_eq_fw_fixed n es). Qed.
Print Assumptions C17_johnsons_eq_fw_fixed.

Theorem C17_johnsons_eq_fw n es :
  wf_graph n es -> forall J, no_self_loops es -> parallel_equal es -> johnsons n es = Some J ->
  forall i j, (i < n)%nat -> (j < n)%nat -> oeq (mget J i j) (mget (fw_current n es) i j).
Proof. exact (johnsons_eq_fw n es). Qed.
Print Assumptions C17_johnsons_eq_fw.

(* the remaining clauses of the property for the matrix johnsons returns (Graph/ApspAgree.v): zero diagonal,
   symmetric, the 'unreachable' sentinel exactly for pairs without any walk, and entry-wise agreement of
   floyd_warshall (repaired initialisation), johnsons and the Bellman-Ford oracle *)
Theorem C17_johnsons_diag_zero n es : wf_graph n es -> forall J, johnsons n es = Some J ->
  forall i, (i < n)%nat -> oeq (mget J i i) (Some 0).
Proof. exact (johnsons_diag_zero n es). Qed.
Print Assumptions C17_johnsons_diag_zero.

Theorem C17_johnsons_symmetric n es : wf_graph n es -> forall J, johnsons n es = Some J ->
  forall i j, (i < n)%nat -> (j < n)%nat -> oeq (mget J i j) (mget J j i).
Proof. exact (johnsons_symmetric n es). Qed.
Print Assumptions C17_johnsons_symmetric.

Theorem C17_johnsons_sentinel_iff n es : wf_graph n es -> forall J, johnsons n es = Some J ->
  forall i j, (i < n)%nat -> (j < n)%nat -> (mget J i j = None <-> forall l, ~ walk (adj_of es) i j l).
Proof. exact (johnsons_sentinel_iff n es). Qed.
Print Assumptions C17_johnsons_sentinel_iff.

Theorem C17_fw_fixed_sentinel_iff n es : wf_graph n es ->
  forall i j, (i < n)%nat -> (j < n)%nat -> (mget (fw_fixed n es) i j = None <-> forall l, ~ walk (adj_of es) i j l).
Proof. exact (fw_fixed_sentinel_iff n es). Qed.
Print Assumptions C17_fw_fixed_sentinel_iff.

Theorem C17_apsp_all_agree n es : wf_graph n es -> forall J, johnsons n es = Some J ->
  forall s d, (s < n)%nat -> bf n es s = Some d -> forall t, (t < n)%nat ->
    oeq (mget J s t) (mget (fw_fixed n es) s t) /\ oeq (mget J s t) (dget d t) /\
    oeq (mget (fw_fixed n es) s t) (dget d t).
Proof. exact (apsp_all_agree n es). Qed.
Print Assumptions C17_apsp_all_agree.

(* the layout matrices: D = idealLength * dist over the corrected lengths, G = 0 / 1 / 2 *)
Theorem C17_path_lengths_scaled n es ideal D G :
  ends_in_range n es -> compute_path_lengths n es ideal = Some (D, G) ->
  forall i j, (i < n)%nat -> (j < n)%nat -> i <> j ->
  exists o, dist (adj_of (fix_lengths es)) i j o /\
    mget D i j = match o with None => None | Some d => Some (Qred (d * ideal)) end /\
    nth j (nth i G []) None =
      Some (if has_edge es i j then 1%nat else match o with None => 0%nat | Some _ => 2%nat end).
Proof. exact (path_lengths_scaled n es ideal D G). Qed.
Print Assumptions C17_path_lengths_scaled.

(* the oracle the search uses *)
Theorem C17_bf_correct n es :
  wf_graph n es -> forall s, (s < n)%nat -> forall d, bf n es s = Some d -> forall t, (t < n)%nat -> dist (adj_of es) s t (dget d t).
Proof. exact (bf_correct n es). Qed.
Print Assumptions C17_bf_correct.

(* the pairing heap: every operation sequence keeps heap order; findMin / extractMin return an element no stored
   element is less than; extractMin removes exactly that element.  lt: any asymmetric, negatively transitive
   comparator *)
Theorem C17_heap_min :
  forall (E : Type) (lt : E -> E -> bool),
  (forall x y, lt x y = true -> lt y x = false) ->
  (forall x y z, lt x y = false -> lt y z = false -> lt x z = false) ->
  forall ops h, hinv E lt h -> ops_ok E lt h ops ->
    let h' := run E lt h ops in
    hinv E lt h' /\
    (forall x, find_min E h' = Some x -> forall i y, In (i, y) (elems E (root E h')) -> lt y x = false) /\
    (find_min E h' = None <-> elems E (root E h') = []) /\
    (forall x h'', heap_extract_min E lt h' = Some (x, h'') ->
        hinv E lt h'' /\ (forall i y, In (i, y) (elems E (root E h')) -> lt y x = false) /\
        exists i, Permutation (elems E (root E h')) ((i, x) :: elems E (root E h''))).
Proof. exact heap_min. Qed.
Print Assumptions C17_heap_min.

(* multiset effect of each operation on the stored (node identity, element) pairs *)
Theorem C17_heap_insert_multiset :
  forall (E : Type) (lt : E -> E -> bool), (forall x y, lt x y = true -> lt y x = false) ->
  forall id x h, hinv E lt h -> ~ In id (ids E (root E h)) ->
    hinv E lt (heap_insert E lt id x h) /\
    Permutation (elems E (root E (heap_insert E lt id x h))) ((id, x) :: elems E (root E h)).
Proof. exact insert_spec. Qed.
Print Assumptions C17_heap_insert_multiset.

Theorem C17_heap_decrease_key_multiset :
  forall (E : Type) (lt : E -> E -> bool), (forall x y, lt x y = true -> lt y x = false) ->
  (forall x y z, lt x y = false -> lt y z = false -> lt x z = false) ->
  forall id x h, hinv E lt h -> In id (ids E (root E h)) ->
    (forall old, In (id, old) (elems E (root E h)) -> lt old x = false) ->
    hinv E lt (decrease_key E lt id x h) /\
    exists old rest, Permutation (elems E (root E h)) ((id, old) :: rest) /\
                     Permutation (elems E (root E (decrease_key E lt id x h))) ((id, x) :: rest).
Proof. exact decrease_key_spec. Qed.
Print Assumptions C17_heap_decrease_key_multiset.

Theorem C17_heap_merge_multiset :
  forall (E : Type) (lt : E -> E -> bool), (forall x y, lt x y = true -> lt y x = false) ->
  forall h rhs, hinv E lt h -> hinv E lt rhs ->
    (forall i, In i (ids E (root E h)) -> ~ In i (ids E (root E rhs))) ->
    hinv E lt (heap_merge E lt h rhs) /\
    Permutation (elems E (root E (heap_merge E lt h rhs))) (elems E (root E h) ++ elems E (root E rhs)).
Proof. exact merge_spec. Qed.
Print Assumptions C17_heap_merge_multiset.
