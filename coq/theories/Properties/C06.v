(* C06 - libavoid: incremental transactions give what routing from scratch gives.
   Only statements closed by `exact`; proofs live in Avoid/ActionQueue.v. *)
From Adapt Require Import Num.Qaux Avoid.ActionQueueModel.

Theorem C06_empty_transaction_identity_0 st : queue st = [] -> process_transaction st = (st, false).
Proof. intro H. unfold process_transaction. rewrite H. reflexivity. Qed.
Print Assumptions C06_empty_transaction_identity_0.
