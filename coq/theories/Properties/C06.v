(* C06 - libavoid: incremental transactions give what routing from scratch gives.
   Only statements closed by `exact`; proofs live in Avoid/ActionQueue.v and Avoid/HistoryIndep.v. *)
From Adapt Require Import Num.Qaux Avoid.SegPolyModel Avoid.CertDijkstraModel Avoid.RefRouterModel
     Avoid.ActionQueueModel Avoid.ActionQueue Avoid.HistoryIndep Avoid.ActionQueueConn Avoid.ReflectClamped.

Theorem C06_queue_dedup t h st : run (init t) h = Some st -> NoDup (keys (queue st)).
Proof. exact (queue_dedup t h st). Qed.
Print Assumptions C06_queue_dedup.

Theorem C06_empty_transaction_identity st : queue st = [] -> process_transaction st = (st, false).
Proof. exact (empty_transaction_identity st). Qed.
Print Assumptions C06_empty_transaction_identity.

Theorem C06_process_preserves_view st :
  Inv st -> Inv (process_actions st) /\ forall i, view (process_actions st) i = view st i.
Proof. exact (process_preserves st). Qed.
Print Assumptions C06_process_preserves_view.

Theorem C06_queue_refines_sequential t h st :
  run (init t) (h ++ [Process]) = Some st ->
  forall i, lookup (scene st) i = lookup (s_shapes (seq_run h)) i.
Proof. exact (queue_refines_sequential_after_process t h st). Qed.
Print Assumptions C06_queue_refines_sequential.

Theorem C06_model_history_independent t1 t2 h1 h2 st1 st2 :
  run (init t1) h1 = Some st1 -> run (init t2) h2 = Some st2 -> queue st1 = [] -> queue st2 = [] ->
  (forall i, lookup (s_shapes (seq_run h1)) i = lookup (s_shapes (seq_run h2)) i) ->
  forall ids s d pen,
    route_plain (canonical (scene st1) ids) s d = route_plain (canonical (scene st2) ids) s d /\
    route_taut pen (canonical (scene st1) ids) s d = route_taut pen (canonical (scene st2) ids) s d.
Proof. exact (C06_model_history_independent t1 t2 h1 h2 st1 st2). Qed.
Print Assumptions C06_model_history_independent.

Local Open Scope Q_scope.
Theorem C06_reflect_lower_bound a b c d x L1 L2 :
  0 <= L1 -> 0 <= L2 ->
  (x - a) * (x - a) + b * b <= L1 * L1 -> (x - c) * (x - c) + d * d <= L2 * L2 ->
  reflect_est_sq a b c d <= (L1 + L2) * (L1 + L2).
Proof. exact (reflect_lower_bound a b c d x L1 L2). Qed.
Print Assumptions C06_reflect_lower_bound.

Theorem C06_reflect_point_tight a b c d :
  ~ b + d == 0 ->
  let x := reflect_x a b c d in
  ((x - a) * (x - a) + b * b) * ((b + d) * (b + d)) == (b * b) * reflect_est_sq a b c d /\
  ((x - c) * (x - c) + d * d) * ((b + d) * (b + d)) == (d * d) * reflect_est_sq a b c d.
Proof. exact (reflect_point_tight a b c d). Qed.
Print Assumptions C06_reflect_point_tight.

(* ---- connector ends (Avoid/ActionQueueConn.v): the WHOLE scene after Process - shapes and connector ends - is the
        one obtained by applying the edits one at a time *)
Local Open Scope Z_scope.
Theorem C06_queue_refines_sequential_full t h st :
  run (init t) (h ++ [Process]) = Some st ->
  (forall i, lookup (scene st) i = lookup (s_shapes (seq_run h)) i) /\
  (forall c, lookup (conns st) c = lookup (s_conns (seq_run h)) c).
Proof. exact (queue_refines_sequential_full t h st). Qed.
Print Assumptions C06_queue_refines_sequential_full.

(* addConnEndUpdate: a later user update of an end overwrites the queued one = "apply the updates in order" *)
Theorem C06_user_update_consolidation ups w p :
  NoDup (map fst ups) -> forall e,
  fold_left apply_end (add_end_update ups w p) e = apply_end (fold_left apply_end ups e) (w, p).
Proof. exact (fold_add_end_update ups w p). Qed.
Print Assumptions C06_user_update_consolidation.

(* ... and a pin-move update (isConnPinMoveUpdate = true) never overwrites a queued update of the same end *)
Theorem C06_pin_move_no_overwrite ups w p e :
  fold_left apply_end (add_end_update_gen true ups w p) e =
  if end_queued ups w then fold_left apply_end ups e else apply_end (fold_left apply_end ups e) (w, p).
Proof. exact (pin_move_no_overwrite ups w p e). Qed.
Print Assumptions C06_pin_move_no_overwrite.

Theorem C06_modify_connector_user st c w p : modify_connector false st c w p = step st (MoveEndpoint c w p).
Proof. exact (modify_connector_user st c w p). Qed.
Print Assumptions C06_modify_connector_user.

Theorem C06_pin_move_refines st c w p st' :
  CInv st -> modify_connector true st c w p = Some st' ->
  CInv st' /\
  forall c', cview st' c' =
    if c =? c'
    then (if match lookup (cq (queue st)) c with Some ups => end_queued ups w | None => false end
          then cview st c
          else option_map (fun e => apply_end e (w, p)) (cview st c))
    else cview st c'.
Proof. exact (pin_move_refines st c w p st'). Qed.
Print Assumptions C06_pin_move_refines.

(* ---- the clamped reflection estimate is a lower bound for every path that touches the closed edge *)
Local Open Scope Q_scope.
Theorem C06_reflect_lower_bound_clamped a b c d mn mx x L1 L2 e1 e2 :
  0 <= b -> 0 <= d -> 0 < b + d -> mn <= mx -> mn <= x -> x <= mx ->
  0 <= L1 -> 0 <= L2 ->
  (x - a) * (x - a) + b * b <= L1 * L1 -> (x - c) * (x - c) + d * d <= L2 * L2 ->
  let xc := reflect_x_clamped a b c d mn mx in
  0 <= e1 -> 0 <= e2 ->
  e1 * e1 <= (xc - a) * (xc - a) + b * b -> e2 * e2 <= (xc - c) * (xc - c) + d * d ->
  e1 + e2 <= L1 + L2.
Proof. exact (reflect_lower_bound_clamped a b c d mn mx x L1 L2 e1 e2). Qed.
Print Assumptions C06_reflect_lower_bound_clamped.

Theorem C06_reflect_lower_bound_clamped_neg a b c d mn mx x L1 L2 e1 e2 :
  b <= 0 -> d <= 0 -> b + d < 0 -> mn <= mx -> mn <= x -> x <= mx ->
  0 <= L1 -> 0 <= L2 ->
  (x - a) * (x - a) + b * b <= L1 * L1 -> (x - c) * (x - c) + d * d <= L2 * L2 ->
  let xc := reflect_x_clamped a b c d mn mx in
  0 <= e1 -> 0 <= e2 ->
  e1 * e1 <= (xc - a) * (xc - a) + b * b -> e2 * e2 <= (xc - c) * (xc - c) + d * d ->
  e1 + e2 <= L1 + L2.
Proof. exact (reflect_lower_bound_clamped_neg a b c d mn mx x L1 L2 e1 e2). Qed.
Print Assumptions C06_reflect_lower_bound_clamped_neg.
