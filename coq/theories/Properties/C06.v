(* C06 - libavoid: incremental transactions give what routing from scratch gives.
   Only statements closed by `exact`; proofs live in Avoid/ActionQueue.v and Avoid/HistoryIndep.v. *)
From Adapt Require Import Num.Qaux Avoid.SegPolyModel Avoid.CertDijkstraModel Avoid.RefRouterModel
     Avoid.ActionQueueModel Avoid.ActionQueue Avoid.HistoryIndep.

Theorem C06_queue_dedup t h st : run (init t) h = Some st -> NoDup (keys (queue st)).
Proof. exact (queue_dedup t h st). Qed.
Print Assumptions C06_queue_dedup.

Theorem C06_empty_transaction_identity st : queue st = [] -> process_transaction st = (st, false).
Proof. exact (empty_transaction_identity st). Qed.
Print Assumptions C06_empty_transaction_identity.

Theorem C06_process_preserves_view st :
  Inv st -> Inv (process_actions st) /\ forall i, view (process_actions st) i = view st i.
Proof. exact (process_preserves st). Qed.
Print Assumptions C06_process_preserves_view.

Theorem C06_queue_refines_sequential t h st :
  run (init t) (h ++ [Process]) = Some st ->
  forall i, lookup (scene st) i = lookup (s_shapes (seq_run h)) i.
Proof. exact (queue_refines_sequential_after_process t h st). Qed.
Print Assumptions C06_queue_refines_sequential.

Theorem C06_model_history_independent t1 t2 h1 h2 st1 st2 :
  run (init t1) h1 = Some st1 -> run (init t2) h2 = Some st2 -> queue st1 = [] -> queue st2 = [] ->
  (forall i, lookup (s_shapes (seq_run h1)) i = lookup (s_shapes (seq_run h2)) i) ->
  forall ids s d pen,
    route_plain (canonical (scene st1) ids) s d = route_plain (canonical (scene st2) ids) s d /\
    route_taut pen (canonical (scene st1) ids) s d = route_taut pen (canonical (scene st2) ids) s d.
Proof. exact (C06_model_history_independent t1 t2 h1 h2 st1 st2). Qed.
Print Assumptions C06_model_history_independent.

Local Open Scope Q_scope.
Theorem C06_reflect_lower_bound a b c d x L1 L2 :
  0 <= L1 -> 0 <= L2 ->
  (x - a) * (x - a) + b * b <= L1 * L1 -> (x - c) * (x - c) + d * d <= L2 * L2 ->
  reflect_est_sq a b c d <= (L1 + L2) * (L1 + L2).
Proof. exact (reflect_lower_bound a b c d x L1 L2). Qed.
Print Assumptions C06_reflect_lower_bound.

Theorem C06_reflect_point_tight a b c d :
  ~ b + d == 0 ->
  let x := reflect_x a b c d in
  ((x - a) * (x - a) + b * b) * ((b + d) * (b + d)) == (b * b) * reflect_est_sq a b c d /\
  ((x - c) * (x - c) + d * d) * ((b + d) * (b + d)) == (d * d) * reflect_est_sq a b c d.
Proof. exact (reflect_point_tight a b c d). Qed.
Print Assumptions C06_reflect_point_tight.
